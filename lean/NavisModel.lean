import NavisModel.Props.C09
