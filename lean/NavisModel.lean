import NavisModel.Props.C01
import NavisModel.Props.C05
import NavisModel.Props.C08
import NavisModel.Props.C09
import NavisModel.Props.C10
import NavisModel.Props.C12
import NavisModel.Props.C19
import NavisModel.Props.C20
