import NavisModel.Drv.C09
import NavisModel.Drv.Forest
import NavisModel.Drv.C20
import NavisModel.Drv.Prune
import NavisModel.Drv.C08
import NavisModel.Drv.C19
import NavisModel.Drv.C16
import NavisModel.Drv.C15
import NavisModel.Drv.C06
import NavisModel.Drv.C02
import NavisModel.Drv.C03
import NavisModel.Drv.C07
import NavisModel.Drv.C14
import NavisModel.Drv.C11
import NavisModel.Drv.C13
import NavisModel.Drv.C17
import NavisModel.Drv.C18
import NavisModel.Drv.ConnSub
import NavisModel.Drv.C12Ext
import NavisModel.Drv.C10Ext
import NavisModel.Drv.C05Ext
import NavisModel.Drv.C04Ext
import NavisModel.Drv.C01Ext
/-! `navisdrv`: one request per line on stdin (`<prop>.<cmd> <payload>`), one answer per line on stdout. -/
open Navis

def handle (head rest : String) : Option String :=
  match head.splitOn "." with
  | ["c09", cmd] => Drv.C09.run cmd rest
  | ["f", cmd] => Drv.Forest.run cmd rest
  | ["c20", cmd] => Drv.C20.run cmd rest
  | ["p", cmd] => Drv.Prune.run cmd rest
  | ["c08", cmd] => Drv.C08.run cmd rest
  | ["c19", cmd] => Drv.C19.run cmd rest
  | ["c16", cmd] => Drv.C16.run cmd rest
  | ["c15", cmd] => Drv.C15.run cmd rest
  | ["c06", cmd] => Drv.C06.run cmd rest
  | ["c02", cmd] => Drv.C02.run cmd rest
  | ["c03", cmd] => Drv.C03.run cmd rest
  | ["c07", cmd] => Drv.C07.run cmd rest
  | ["c14", cmd] => Drv.C14.run cmd rest
  | ["c11", cmd] => Drv.C11.run cmd rest
  | ["c13", cmd] => Drv.C13.run cmd rest
  | ["c17", cmd] => Drv.C17.run cmd rest
  | ["c18", cmd] => Drv.C18.run cmd rest
  | ["cs", cmd] => Drv.ConnSub.run cmd rest
  | ["c01x", cmd] => Drv.C01Ext.run cmd rest
  | ["c04x", cmd] => Drv.C04Ext.run cmd rest
  | ["c05x", cmd] => Drv.C05Ext.run cmd rest
  | ["c10x", cmd] => Drv.C10Ext.run cmd rest
  | ["c12x", cmd] => Drv.C12Ext.run cmd rest
  | ["ping"] => some "pong"
  | _ => none

def main : IO Unit := Proto.mainLoop handle
