import NavisModel.Drv.C09
/-! `navisdrv`: one request per line on stdin (`<prop>.<cmd> <payload>`), one answer per line on stdout. -/
open Navis

def dispatch (line : String) : String :=
  let line := Proto.trim line
  let (head, rest) := match line.splitOn " " with
    | [] => ("", "")
    | h :: t => (h, " ".intercalate t)
  let r : Option String := match head.splitOn "." with
    | ["c09", cmd] => Drv.C09.run cmd rest
    | ["ping"] => some "pong"
    | _ => none
  match r with
  | some s => s
  | none => "BAD-OP"

partial def loop (h : IO.FS.Stream) (out : IO.FS.Stream) : IO Unit := do
  let line ← h.getLine
  if line.isEmpty then return ()
  out.putStrLn (dispatch line)
  out.flush
  loop h out

def main : IO Unit := do loop (← IO.getStdin) (← IO.getStdout)
