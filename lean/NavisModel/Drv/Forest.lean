import NavisModel.Model.Ops
import NavisModel.Model.Dist
import NavisModel.Drv.Proto
/-! Driver commands shared by the forest properties (`f.<cmd>`). Wire format of a table:
blank-separated rows `id:parent:x:y:z:L` with `L ∈ {r,e,b,s}` (label optional). -/
namespace Navis.Drv.Forest
open Navis.Forest Navis.Proto

def parseLabel : String → Label
  | "r" => .root | "e" => .end_ | "b" => .branch | _ => .slab

def showLabel : Label → String
  | .root => "r" | .end_ => "e" | .branch => "b" | .slab => "s"

def parseNode (s : String) : Option Node :=
  match s.splitOn ":" with
  | [i, p] => do pure { id := ← i.toInt?, parent := ← p.toInt? }
  | [i, p, x, y, z] => do pure { id := ← i.toInt?, parent := ← p.toInt?, x := ← x.toInt?, y := ← y.toInt?, z := ← z.toInt? }
  | [i, p, x, y, z, l] => do
    pure { id := ← i.toInt?, parent := ← p.toInt?, x := ← x.toInt?, y := ← y.toInt?, z := ← z.toInt?, label := parseLabel l }
  | _ => none

def parseTable (s : String) : Option Table := (words s).mapM parseNode

def showNode (n : Node) : String := s!"{n.id}:{n.parent}:{n.x}:{n.y}:{n.z}:{showLabel n.label}"

def showTable (t : Table) : String := " ".intercalate (t.map showNode)

/-- Topology + labels only, sorted by id (canonical). -/
def showTopo (t : Table) : String :=
  let rows := t.toArray.qsort (fun a b => a.id < b.id) |>.toList
  " ".intercalate (rows.map fun n => s!"{n.id}:{n.parent}:{showLabel n.label}")

def b2s (b : Bool) : String := if b then "1" else "0"

def showSegs (ss : List (List Int)) : String := ";".intercalate (ss.map showInts)

def parseSegs (s : String) : Option (List (List Int)) :=
  let s := trim s
  if s.isEmpty then some [] else (s.splitOn ";").mapM intList?

/-- canonical order for a *set* of segments -/
def canonSegs (ss : List (List Int)) : List (List Int) := sortBy (fun y x => !lexLt x y) ss

def parseOp (s : String) : Option Op :=
  match s.splitOn "=" with
  | ["subset", a] => (intList? a).map Op.subset
  | ["reroot", a] => a.toInt?.map Op.reroot
  | ["cutd", a] => a.toInt?.map Op.cutDistal
  | ["cutp", a] => a.toInt?.map Op.cutProximal
  | ["remove", a] => (intList? a).map Op.removeNodes
  | ["ds", f, a] => do
    let f ← if f == "inf" then some none else f.toNat?.map some
    let a ← intList? a
    pure (Op.downsample f a)
  | ["classify"] => some Op.reclassify
  | _ => none

/-- `payload = head | table`. -/
def split2 (s : String) : Option (String × String) :=
  match s.splitOn "|" with
  | [a, b] => some (trim a, trim b)
  | _ => none

def run (cmd rest : String) : Option String :=
  match cmd with
  | "wf" => do
    let t ← parseTable rest
    pure s!"{b2s (wfB t)} {b2s (labelsOKB t)}"
  | "classify" => do
    let t ← parseTable rest
    pure (showTopo (classify t))
  | "subset" => do
    let (a, tb) ← split2 rest
    let t ← parseTable tb
    let s ← intList? a
    pure (showTopo (subsetIds t s))
  | "reroot" => do
    let (a, tb) ← split2 rest
    let t ← parseTable tb
    let rs ← intList? a
    pure (showTopo (rerootMany t rs))
  | "cut" => do
    let (a, tb) ← split2 rest
    let t ← parseTable tb
    let c ← a.toInt?
    match cut t c with
    | some (d, p) => pure (showTopo d ++ " || " ++ showTopo p)
    | none => pure "ERR"
  | "cutmany" => do
    let (a, tb) ← split2 rest
    let t ← parseTable tb
    let cs ← intList? a
    pure (" || ".intercalate ((cutMany t cs).map showTopo))
  | "remove" => do
    let (a, tb) ← split2 rest
    let t ← parseTable tb
    let w ← intList? a
    pure (showTopo (removeNodes t w))
  | "ops" => do
    let (a, tb) ← split2 rest
    let t ← parseTable tb
    let ops ← (words a).mapM parseOp
    -- state after every step, so that the harness can localise the first divergence
    let states := ops.foldl (fun (acc : List Table × Table) op =>
      let t' := applyOp acc.2 op; (acc.1 ++ [t'], t')) ([], t)
    pure (" || ".intercalate (states.1.map showTopo))
  | "insert" => do
    -- "p1:c1,p2:c2" | table   (insert_nodes on (parent, child) edges; topology only)
    let (a, tb) ← split2 rest
    let t ← parseTable tb
    let es ← (strList a).mapM fun e => match e.splitOn ":" with
      | [p, c] => do pure ((← p.toInt?), (← c.toInt?))
      | _ => none
    pure (showTopo (insertNodes t es []))
  | "distal" => do
    let (a, tb) ← split2 rest
    let t ← parseTable tb
    let c ← a.toInt?
    pure (showInts (distalSet t c))
  | "path" => do
    let (a, tb) ← split2 rest
    let t ← parseTable tb
    let c ← a.toInt?
    pure (showInts (rootPath t c))
  | "geo" => do
    -- "directed weighted limit|inf from|*" | table  → rows sorted by id, columns sorted by id
    let (a, tb) ← split2 rest
    let t ← parseTable tb
    match words a with
    | [d, w, lim, fr] => do
      let limit ← if lim == "inf" then some none else lim.toNat?.map some
      let allIds := sortedInts (ids t)
      let rows ← if fr == "*" then some allIds else (intList? fr).map sortedInts
      let len := if w == "1" then coordLen t else fun _ _ => 1
      let m := geoMatrix t len (d == "1") limit rows allIds
      pure (" ".intercalate ((rows.zip m).map fun (r, vs) =>
        s!"{r}=" ++ ",".intercalate (vs.map fun v => match v with | some x => toString x | none => "inf")))
    | _ => none
  | "smallsegs" => do
    let t ← parseTable rest
    pure (showSegs (canonSegs (smallSegments t)))
  | "segs" => do
    -- "weighted" | table   (order is meaningful)
    let (a, tb) ← split2 rest
    let t ← parseTable tb
    let len := if a == "1" then coordLen t else fun _ _ => 1
    let ss := segments t len
    pure (showSegs ss ++ " # " ++ ",".intercalate ((ss.map (pathLen len)).map toString))
  | "segsok" => do
    -- "weighted" | table | segs   → checker on the implementation's segments
    match rest.splitOn "|" with
    | [a, tb, sg] => do
      let t ← parseTable tb
      let segs ← parseSegs sg
      let len := if trim a == "1" then coordLen t else fun _ _ => 1
      pure (b2s (segmentsOKB t len segs))
    | _ => none
  | "smallsegsok" => do
    match rest.splitOn "|" with
    | [tb, sg] => do
      let t ← parseTable tb
      let segs ← parseSegs sg
      pure (b2s (smallSegmentsOKB t segs))
    | _ => none
  | "cable" => do
    let t ← parseTable rest
    pure (toString (cable t (coordLen t)))
  | "distroot" => do
    let (a, tb) ← split2 rest
    let t ← parseTable tb
    let len := if a == "1" then coordLen t else fun _ _ => 1
    pure (" ".intercalate ((sortedInts (ids t)).map fun i => s!"{i}={distToRoot t len i}"))
  | "adj" => do
    let t ← parseTable rest
    let is := sortedInts (ids t)
    pure (" ".intercalate (is.flatMap fun a => (is.filter fun b => adjacent t a b).map fun b => s!"{a}>{b}"))
  | "sqlens" => do
    -- child:squared-length pairs, to validate that every generated edge has an integer length
    let t ← parseTable rest
    pure (" ".intercalate ((t.filter fun n => !isRootNode n).map fun n =>
      match find? t n.parent with
      | some p => s!"{n.id}:{sqDist n p}:{isqrt (sqDist n p)}"
      | none => s!"{n.id}:?"))
  | _ => none

end Navis.Drv.Forest
