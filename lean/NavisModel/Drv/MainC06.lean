import NavisModel.Drv.C06
/-! Development entry point: `NAVIS_DRV_MAIN=NavisModel/Drv/MainC06.lean ./check C06`. -/
def main : IO Unit := Navis.Proto.mainLoop fun head rest =>
  match head.splitOn "." with
  | ["c06", cmd] => Navis.Drv.C06.run cmd rest
  | _ => none
