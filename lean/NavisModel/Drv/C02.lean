import NavisModel.Model.Cache
import NavisModel.Gen.CacheSpec
import NavisModel.Drv.Proto
/-!
Driver commands for C02 (cache protocol).

* `c02.spec`            → the generated spec as the harness needs it
* `c02.run <events>`    → states of the model after every event of a traced history (from `init`),
                          admissibility of every event, wrapper-discipline offenders

Event tokens (blank separated): `S` is_stale · `C:<e1,e2>` clear with exclude · `W:<attr>` cache write ·
`X:<v>:<t>` content change · `Y` classify · `R:<t0>` retype by hand · `L` lock · `U` unlock · `K` copy · `O` copyOut · `P` pickle ·
`E:<view>` enter · `Q:<view>` exit.
-/
namespace Navis.Drv.C02
open Navis.Cache Navis.Proto

def spec : Spec := Navis.Gen.CacheSpec.spec

def parseEv (tok : String) : Option Ev :=
  match tok.splitOn ":" with
  | ["S"] => some .isStale
  | ["C"] => some (.clear [])
  | ["C", ex] => some (.clear (strList ex))
  | ["W", a] => some (.write a)
  | ["X", v, t] => do
    let v ← v.toNat?; let t ← t.toNat?
    pure (.change v t)
  | ["Y"] => some .classify
  | ["R", t] => do
    let t ← t.toNat?
    pure (.retype t)
  | ["L"] => some .lock
  | ["U"] => some .unlock
  | ["K"] => some .copy
  | ["O"] => some .copyOut
  | ["P"] => some .pickle
  | ["E", n] => some (.enter n)
  | ["Q", n] => some (.exit n)
  | _ => none

def b (x : Bool) : String := if x then "1" else "0"

def showSt (s : St) (adm : Bool) : String :=
  let ents := (s.cache.map fun p => (p.1, p.2 == s.ver)).toArray.qsort (fun a c => a.1 < c.1) |>.toList
  s!"s={b s.stale} l={s.lock} m={b (s.md5 == s.ver)} t={b (s.typeVer == s.tver)} a={b adm} c=" ++
    ",".intercalate (ents.map fun p => s!"{p.1}:{b p.2}")

def runAll (s : St) : List Ev → List String
  | [] => []
  | e :: es =>
    let adm := admB spec s e
    let s' := step spec s e
    showSt s' adm :: runAll s' es

def showView (v : View) : String := s!"{v.name}:{v.attr}:{b v.wrapped}:{b v.selfCopy}"

def run (cmd : String) (rest : String) : Option String :=
  match cmd with
  | "spec" =>
    some (s!"views={",".intercalate (spec.views.map showView)};temp={",".intercalate spec.tempAttr};" ++
          s!"core={spec.coreTable}:{",".intercalate spec.coreCols};drops={",".intercalate spec.getstateDrops};" ++
          s!"nocopy={",".intercalate spec.copyNoCopy};sound={b (soundB spec)};" ++
          s!"flags={b spec.copyClearsIfStale}{b spec.isStaleRecomputes}{b spec.isStaleSticky}{b spec.clearGuardsLock}" ++
          s!"{b spec.clearRestamps}{b spec.clearDeletes}{b spec.wrapperChecks}{b spec.exclPrefix}{b spec.lockFinally}" ++
          s!"{b spec.lockChecksStale}{b spec.hashSelectsCols}{b spec.hashNative}{b spec.iopValidates};hashbits={spec.hashBits};hashcast={b (spec.hashCast != "")};" ++
          s!"excl={"/".intercalate ((spec.clearSites.map (fun c => ",".intercalate c.excl)).eraseDups)};" ++
          s!"shared={",".intercalate spec.sharedOnCopy};" ++
          s!"editors={",".intercalate (spec.editors.map fun e => s!"{e.fn}:{e.attr}:{b e.detaches}")};" ++
          s!"aliassafe={b (aliasSafeB spec)}")
  | "run" => do
    let evs ← (words rest).mapM parseEv
    let states := runAll init evs
    let bad := discipline spec init evs
    pure ("|".intercalate states ++ "#" ++ showNats bad)
  | _ => none

end Navis.Drv.C02
