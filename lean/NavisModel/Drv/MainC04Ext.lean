import NavisModel.Drv.C04Ext
import NavisModel.Drv.Prune
/-! Development entry point for the C04 extension commands (the native `navisdrv` dispatches `c04x.` itself). -/
def main : IO Unit := Navis.Proto.mainLoop fun head rest =>
  match head.splitOn "." with
  | ["c04x", cmd] => Navis.Drv.C04Ext.run cmd rest
  | ["p", cmd] => Navis.Drv.Prune.run cmd rest
  | ["f", cmd] => Navis.Drv.Forest.run cmd rest
  | _ => none
