import NavisModel.Drv.C09
/-! Development entry point: `NAVIS_DRV_MAIN=NavisModel/Drv/MainC09.lean ./check C09`. -/
def main : IO Unit := Navis.Proto.mainLoop fun head rest =>
  match head.splitOn "." with
  | ["c09", cmd] => Navis.Drv.C09.run cmd rest
  | _ => none
