import NavisModel.Drv.Proto
import NavisModel.Drv.Forest
import NavisModel.Model.OpsX
/-! Extension commands for C01 (line protocol prefix `c01x.`): the soma bookkeeping model, the existence
checker `somaOKB`, `resample_skeleton` with failed segments (`resampleSkipOn`), construction from edges. -/
namespace Navis.Drv.C01Ext
open Navis.Forest Navis.Proto Navis.Drv.Forest

def parts (s : String) : List String := (s.splitOn "|").map trim

def parseSoma (s : String) : Option Soma :=
  if s == "D" then some .detect
  else if s == "N" then some .none
  else match s.splitOn ":" with
    | ["O", i] => i.toInt?.map Soma.one
    | ["M", l] => (intList? l).map Soma.many
    | _ => none

def showReport : Option (List Int) → String
  | none => "N"
  | some l => showInts (sortedInts l)

def parseAct (s : String) : Option Resample.SegAct :=
  if s == "c" then some .collapse
  else if s == "k" then some .keep
  else if s.startsWith "r" then ((s.drop 1).toString.toNat?).map fun k => Resample.SegAct.fresh (k + 2)
  else none

/-- `seg=act;seg=act;…` in the implementation's segment order -/
def parseSegActs (s : String) : Option (List (List Int × Resample.SegAct)) :=
  let s := trim s
  if s.isEmpty then some [] else
  (s.splitOn ";").mapM fun e =>
    match e.splitOn "=" with
    | [seg, a] => do pure ((← intList? seg), (← parseAct a))
    | _ => none

def parseEdges (s : String) : Option (List (Int × Int)) :=
  let s := trim s
  if s.isEmpty then some [] else
  (s.splitOn ";").mapM fun e =>
    match e.splitOn "," with
    | [a, b] => do pure ((← (trim a).toInt?), (← (trim b).toInt?))
    | _ => none

/-- How the operation the harness calls `name` treats the stored soma: the classification of the corresponding
constructor of the operation language (`OpAll.somaAct` / `OpX.somaAct`). -/
def actOfName (name : String) : Option SomaAct :=
  match name with
  | "subset" | "subset_opts" => some (OpAll.subset []).somaAct
  | "cutd" => some (OpAll.cutDistal 0).somaAct
  | "cutp" => some (OpAll.cutProximal 0).somaAct
  | "cutmany" | "split_frag" => some (OpAll.cutFragment [] 0).somaAct
  | "prune_twigs" => some (OpAll.pruneTwigs 0 0 none).somaAct
  | "prune_depth" => some (OpAll.pruneAtDepth 0 0).somaAct
  | "longest" | "cbf" => some (OpAll.longestNeurite 0 0 false).somaAct
  | "fragments" => some (OpAll.keepFragment 0 0).somaAct
  | "drop_fluff" => some (OpAll.dropFluff none none).somaAct
  | "heal_drop" => some (OpAll.healDrop {}).somaAct
  | "heal" => some (OpAll.heal {}).somaAct
  | "resample" => some (OpX.resampleSkip []).somaAct
  | "reroot" | "rerootmany" => some (OpAll.reroot 0).somaAct
  | "remove" => some (OpAll.removeNodes []).somaAct
  | "ds" => some (OpAll.downsample none []).somaAct
  | "classify" => some OpAll.reclassify.somaAct
  | "prune_strahler" => some (OpAll.pruneByStrahler (.int 0)).somaAct
  | "rewire" => some (OpAll.rewire []).somaAct
  | "insert" | "raa" => some (OpAll.insertNodes [] []).somaAct
  | "setnodes" | "merge_dups" => some (OpX.setNodes []).somaAct
  | "mul" | "div" | "add" | "sub" | "copy" | "pickle" | "smooth" | "despike" | "guess_radius" | "reinit" => some OpX.touch.somaAct
  | _ => none

def run (cmd rest : String) : Option String :=
  match cmd with
  | "ping" => some "pong-c01x"
  | "somaok" => do
    -- "ids | table": every reported soma id is a node of the table
    let (a, tb) ← split2 rest
    let t ← parseTable tb
    let l ← intList? a
    pure (b2s (somaOKB t l))
  | "soma" => do
    -- "operation name | stored soma | thick(pre) | thick(post) | pre-table | post-table" → what the model's getter reports
    match parts rest with
    | [act, spec, th0, th1, tb0, tb1] => do
      let t0 ← parseTable tb0
      let t1 ← parseTable tb1
      let sm ← parseSoma spec
      let k0 ← intList? th0
      let k1 ← intList? th1
      let s : St := { nodes := t0, soma := sm, thick := k0 }
      match actOfName act with
      | some .pin =>
        let s' : St := { nodes := t1, soma := stepSoma s t1 (fun _ => 0) .pin, thick := k1 }
        pure (match report s' with | none => "N" | some l => s!"K:{l.length}")
      | some a =>
        let s' : St := { nodes := t1, soma := stepSoma s t1 (fun _ => 0) a, thick := k1 }
        pure (showReport (report s') ++ (if somaOKStoredB t1 s'.soma then "" else " !stored"))
      | none => pure "ERR:unknown-op"
    | _ => none
  | "resample" => do
    -- "seg=act;… | pre-table": the loop of resample_skeleton over the implementation's segment order
    let (a, tb) ← split2 rest
    let t ← parseTable tb
    let sa ← parseSegActs a
    let segs := sa.map (·.1)
    if canonSegs segs != canonSegs (smallSegments t) then pure "ERR:segments-differ-from-smallSegments"
    else pure (showTopo (Resample.resampleSkipOn t segs (Resample.actTable sa)))
  | "applyx" => do
    -- "touch | table"  /  "setnodes | running table | assigned table": the second-layer constructors without own command
    match parts rest with
    | ["touch", tb] => do
      let t ← parseTable tb
      pure (showTopo (applyX (fun _ _ => 1) t .touch))
    | ["setnodes", tb, tb'] => do
      let t ← parseTable tb
      let t' ← parseTable tb'
      if !(OpX.setNodes t').okB then pure "ERR:assigned-table-not-well-formed"
      else pure (showTopo (applyX (fun _ _ => 1) t (.setNodes t')))
    | _ => none
  | "fromedges" => do
    -- "vertex ids in node order | a,b;c,d;… | roots"
    match parts rest with
    | [vs, es, rs] => do
      let verts ← intList? vs
      let E ← parseEdges es
      let roots ← intList? rs
      if !(OpX.fromEdges verts E roots).okB then pure "ERR:vertices"
      else pure (showTopo (fromEdges verts E roots))
    | _ => none
  | _ => none

end Navis.Drv.C01Ext
