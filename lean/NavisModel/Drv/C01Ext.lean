import NavisModel.Drv.Proto
import NavisModel.Model.Forest
/-! Extension commands for C01 (line protocol prefix `c01x.`). -/
namespace Navis.Drv.C01Ext

def run (cmd _rest : String) : Option String :=
  match cmd with
  | "ping" => some "pong-c01x"
  | _ => none

end Navis.Drv.C01Ext
