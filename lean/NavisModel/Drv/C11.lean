import NavisModel.Model.Heal
import NavisModel.Drv.Forest
/-!
Line protocol for C11 (tables in the forest wire format `id:parent:x:y:z[:L]`, rows blank-separated).

* `c11.heal <ALL|LEAFS|L=i,j,…> <maxd2|inf> <minsize|-> <mask i,j,…|*> <drop 0|1> | <table>` →
  `added=a-b:d2,…|topo=<id:parent:label …>|quot=fa-fb:a-b:d2,…|roots=<k>`
  (`added`: undirected, smaller id first, sorted; `quot`: the candidate edges of the quotient graph)
* `c11.healok <maxd2|inf> | <table before> | <table after>` → `1`/`0` (`healOKB` on the implementation's output)
* `c11.break <minsize> | <table>` → `i,j,…;i,j,… # topo || topo …` (fragments by decreasing size)
* `c11.fluff <num:den|-> <nlargest|-> | <table>` → topo
* `c11.stitch <F|L> <NONE|ALL|LEAFS|L=…> <maxd2|inf> | <skel> ;; <skel> …` with
  `<skel> = <table> # cid:node,… # tag:node+node,…` →
  `mix=<k>|nodes=<id:parent:x:y:z …>|conns=cid:node,…|tags=tag:n+n,…|added=…`
-/
namespace Navis.Drv.C11
open Navis.Forest Navis.Heal Navis.Proto Navis.Drv.Forest

def parseMethod (s : String) : Option Method :=
  if s == "ALL" then some .all
  else if s == "LEAFS" then some .leafs
  else match s.splitOn "=" with
    | ["L", l] => (intList? l).map Method.list
    | _ => none

def parseOptNat (s : String) : Option (Option Nat) :=
  if s == "inf" || s == "-" then some none else s.toNat?.map some

def parseMask (s : String) : Option (Option (List Int)) :=
  if s == "*" then some none
  else if s == "[]" then some (some [])
  else (intList? s).map some

def showUE (e : Int × Int) : String := s!"{e.1}-{e.2}"

def sortedCE (l : List CEdge) : List CEdge :=
  sortBy (fun y x => let a := uedge y.a y.b; let b := uedge x.a x.b
    decide (a.1 < b.1) || (a.1 == b.1 && decide (a.2 ≤ b.2))) l

def showAdded (l : List CEdge) : String :=
  ",".intercalate ((sortedCE l).map fun e => s!"{showUE (uedge e.a e.b)}:{e.d2}")

def showQuot (l : List CEdge) : String :=
  ",".intercalate (l.map fun e => s!"{e.fa}-{e.fb}:{showUE (uedge e.a e.b)}:{e.d2}")

def sortIds (l : List Int) : List Int := sortedInts l

def parseConns (s : String) : Option (List (Int × Int)) :=
  (strList s).mapM fun p =>
    match p.splitOn ":" with
    | [c, n] => do pure (← c.toInt?, ← n.toInt?)
    | _ => none

def parseTags (s : String) : Option (List (Int × List Int)) :=
  (strList s).mapM fun p =>
    match p.splitOn ":" with
    | [c, ns] => do
      let c ← c.toInt?
      let ns ← if (trim ns).isEmpty then some [] else ((trim ns).splitOn "+").mapM fun x => (trim x).toInt?
      pure (c, ns)
    | _ => none

def parseSkel (s : String) : Option Skel :=
  match s.splitOn "#" with
  | [tb, cn, tg] => do
    let t ← parseTable tb
    let c ← parseConns cn
    let g ← parseTags tg
    pure ⟨t, c, g⟩
  | _ => none

def showTags (l : List (Int × List Int)) : String :=
  let l := sortBy (fun y x => decide (y.1 ≤ x.1)) l
  ",".intercalate (l.map fun tg => s!"{tg.1}:" ++ "+".intercalate ((sortIds tg.2).map toString))

def showConns (l : List (Int × Int)) : String :=
  ",".intercalate (l.map fun c => s!"{c.1}:{c.2}")

def showRows (t : Table) : String :=
  " ".intercalate (t.map fun n => s!"{n.id}:{n.parent}:{n.x}:{n.y}:{n.z}")

def run (cmd rest : String) : Option String :=
  match cmd with
  | "heal" => do
    let (a, tb) ← split2 rest
    let t ← parseTable tb
    match words a with
    | [m, md, ms, mk, dr] => do
      let o : Opts := { method := ← parseMethod m, maxD2 := ← parseOptNat md, minSize := ← parseOptNat ms,
                        mask := ← parseMask mk }
      let added := healAdded t o
      let res := if dr == "1" then healDrop t o else heal t o
      pure s!"added={showAdded added}|topo={showTopo res}|quot={showQuot (quotientEdges t o)}|roots={(roots res).length}"
    | _ => none
  | "healok" =>
    match rest.splitOn "|" with
    | [a, tb, ub] => do
      let t ← parseTable tb
      let u ← parseTable ub
      let m ← parseOptNat (trim a)
      pure (b2s (healOKB t u m))
    | _ => none
  | "break" => do
    let (a, tb) ← split2 rest
    let t ← parseTable tb
    let k ← a.toNat?
    let frs := (sortBySize (fragments t)).filter fun f => decide (k ≤ f.length)
    pure (";".intercalate (frs.map fun f => showInts (sortIds f)) ++ " # " ++
      " || ".intercalate ((breakFragments t k).map showTopo))
  | "fluff" => do
    let (a, tb) ← split2 rest
    let t ← parseTable tb
    match words a with
    | [ks, nl] => do
      let keep ← if ks == "-" then some none else
        match ks.splitOn ":" with
        | [p, q] => do pure (some (← p.toNat?, ← q.toNat?))
        | _ => none
      let n ← parseOptNat nl
      pure (showTopo (dropFluff t keep n))
    | _ => none
  | "stitch" => do
    let (a, sk) ← split2 rest
    let l ← (sk.splitOn ";;").mapM parseSkel
    match words a with
    | [ms, m, md] => do
      let master := if ms == "F" then Master.first else Master.largest
      let mIx := masterIx master l
      let maxD2 ← parseOptNat md
      let c := combine mIx l
      let (nodes, added) ←
        if m == "NONE" then some (c.nodes, ([] : List CEdge))
        else do
          let o : Opts := { method := ← parseMethod m, maxD2 := maxD2 }
          pure (heal c.nodes o, healAdded c.nodes o)
      pure (s!"mix={mIx}|nodes={showRows nodes}|conns={showConns c.conns}|tags={showTags c.tags}" ++
        s!"|added={showAdded added}")
    | _ => none
  | _ => none

end Navis.Drv.C11
