import NavisModel.Model.Heal
import NavisModel.Model.HealCheck
import NavisModel.Drv.Forest
/-!
Line protocol for C11 (tables in the forest wire format `id:parent:x:y:z[:L]`, rows blank-separated).

* `c11.heal <ALL|LEAFS|L=i,j,…> <maxd2|inf> <minsize|-> <mask i,j,…|*> <drop 0|1> | <table>` →
  `added=a-b:d2,…|topo=<id:parent:label …>|quot=fa-fb:a-b:d2,…|roots=<k>`
  (`added`: undirected, smaller id first, sorted; `quot`: the candidate edges of the quotient graph)
* `c11.healok <maxd2|inf> | <table before> | <table after>` → `1`/`0` (`healOKB` on the implementation's output)
* `c11.break <minsize> | <table>` → `i,j,…;i,j,… # topo || topo …` (fragments by decreasing size)
* `c11.fluff <num:den|-> <nlargest|-> | <table>` → topo
* `c11.stitch <F|L> <NONE|ALL|LEAFS|L=…> <maxd2|inf> | <skel> ;; <skel> …` with
  `<skel> = <table> # cid:node,… # tag:node+node,…` →
  `mix=<k>|nodes=<id:parent:x:y:z …>|conns=cid:node,…|tags=tag:n+n,…|added=…`
  (master `S=<0/1 per skeleton>`: `'SOMA'` with the given has-soma flags)
* `c11.healmin <method> <maxd2|inf> <minsize|-> <mask|*> | <table before> | <table after>` →
  `<healMinOKB> <all new edges allowed> <length multiset = model's>` (`healMinOKB` on the implementation's output)
* `c11.healokp <maxd2|inf> | <table before> | <table after>` → `1`/`0` (`healOKPB`)
* `c11.stitchok <mIx> <fused 0|1> <maxd2|inf> | <out skel> ;; <in skel> ;; <in skel> …` →
  `<stitchOKB> <by position> <by coordinates> <ids unique> <maps ok> <rows ok> <conns ok> <tags ok>`
  (the last four for the id maps read off by position, else by coordinates)
* `c11.meshcat <nV>:a-b-c,a-b-c ; <nV>:…` → `a-b-c,…` (`concatFaces`)
-/
namespace Navis.Drv.C11
open Navis.Forest Navis.Heal Navis.Proto Navis.Drv.Forest

def parseMethod (s : String) : Option Method :=
  if s == "ALL" then some .all
  else if s == "LEAFS" then some .leafs
  else match s.splitOn "=" with
    | ["L", l] => (intList? l).map Method.list
    | _ => none

def parseOptNat (s : String) : Option (Option Nat) :=
  if s == "inf" || s == "-" then some none else s.toNat?.map some

def parseMask (s : String) : Option (Option (List Int)) :=
  if s == "*" then some none
  else if s == "[]" then some (some [])
  else (intList? s).map some

def showUE (e : Int × Int) : String := s!"{e.1}-{e.2}"

def sortedCE (l : List CEdge) : List CEdge :=
  sortBy (fun y x => let a := uedge y.a y.b; let b := uedge x.a x.b
    decide (a.1 < b.1) || (a.1 == b.1 && decide (a.2 ≤ b.2))) l

def showAdded (l : List CEdge) : String :=
  ",".intercalate ((sortedCE l).map fun e => s!"{showUE (uedge e.a e.b)}:{e.d2}")

def showQuot (l : List CEdge) : String :=
  ",".intercalate (l.map fun e => s!"{e.fa}-{e.fb}:{showUE (uedge e.a e.b)}:{e.d2}")

def sortIds (l : List Int) : List Int := sortedInts l

def parseConns (s : String) : Option (List (Int × Int)) :=
  (strList s).mapM fun p =>
    match p.splitOn ":" with
    | [c, n] => do pure (← c.toInt?, ← n.toInt?)
    | _ => none

def parseTags (s : String) : Option (List (Int × List Int)) :=
  (strList s).mapM fun p =>
    match p.splitOn ":" with
    | [c, ns] => do
      let c ← c.toInt?
      let ns ← if (trim ns).isEmpty then some [] else ((trim ns).splitOn "+").mapM fun x => (trim x).toInt?
      pure (c, ns)
    | _ => none

def parseSkel (s : String) : Option Skel :=
  match s.splitOn "#" with
  | [tb, cn, tg] => do
    let t ← parseTable tb
    let c ← parseConns cn
    let g ← parseTags tg
    pure ⟨t, c, g⟩
  | _ => none

def showTags (l : List (Int × List Int)) : String :=
  let l := sortBy (fun y x => decide (y.1 ≤ x.1)) l
  ",".intercalate (l.map fun tg => s!"{tg.1}:" ++ "+".intercalate ((sortIds tg.2).map toString))

def showConns (l : List (Int × Int)) : String :=
  ",".intercalate (l.map fun c => s!"{c.1}:{c.2}")

def showRows (t : Table) : String :=
  " ".intercalate (t.map fun n => s!"{n.id}:{n.parent}:{n.x}:{n.y}:{n.z}")

def parseMaster (ms : String) (l : List Skel) : Nat :=
  if ms == "F" then masterIxS .first l []
  else if ms == "L" then masterIxS .largest l []
  else match ms.splitOn "=" with
    | ["S", bits] => masterIxS .soma l (bits.toList.map (· == '1'))
    | _ => masterIxS .largest l []

def parseFace (s : String) : Option (Nat × Nat × Nat) :=
  match (trim s).splitOn "-" with
  | [a, b, c] => do pure (← a.toNat?, ← b.toNat?, ← c.toNat?)
  | _ => none

def parseMesh (s : String) : Option (Nat × List (Nat × Nat × Nat)) :=
  match (trim s).splitOn ":" with
  | [n, fs] => do
    let n ← (trim n).toNat?
    let fs ← (strList fs).mapM parseFace
    pure (n, fs)
  | _ => none

/-- the conjuncts of `stitchOKWith`, for the diagnostics line -/
def stitchDiag (l : List Skel) (maps : List (List (Int × Int))) (mIx : Nat) (out : Skel) (fused : Bool)
    (maxD2 : Option Nat) : List Bool :=
  let r := remapAll l maps
  [decide ((ids out.nodes).Nodup), mapsOKB mIx 0 l maps,
   (if fused then healOKPB (r.flatMap (·.nodes)) out.nodes maxD2
    else (out.nodes.map nkey).isPerm ((r.flatMap (·.nodes)).map nkey)),
   out.conns.isPerm (r.flatMap (·.conns)),
   (tagPairs out.tags).isPerm (tagPairs (r.flatMap (·.tags)))]

def run (cmd rest : String) : Option String :=
  match cmd with
  | "heal" => do
    let (a, tb) ← split2 rest
    let t ← parseTable tb
    match words a with
    | [m, md, ms, mk, dr] => do
      let o : Opts := { method := ← parseMethod m, maxD2 := ← parseOptNat md, minSize := ← parseOptNat ms,
                        mask := ← parseMask mk }
      let added := healAdded t o
      let res := if dr == "1" then healDrop t o else heal t o
      pure (s!"added={showAdded added}|topo={showTopo res}|quot={showQuot (quotientEdges t o)}|roots={(roots res).length}" ++
        s!"|quotkd={showQuot (quotientEdgesKD t o)}")
    | _ => none
  | "healok" =>
    match rest.splitOn "|" with
    | [a, tb, ub] => do
      let t ← parseTable tb
      let u ← parseTable ub
      let m ← parseOptNat (trim a)
      pure (b2s (healOKB t u m))
    | _ => none
  | "break" => do
    let (a, tb) ← split2 rest
    let t ← parseTable tb
    let k ← a.toNat?
    let frs := (sortBySize (fragments t)).filter fun f => decide (k ≤ f.length)
    pure (";".intercalate (frs.map fun f => showInts (sortIds f)) ++ " # " ++
      " || ".intercalate ((breakFragments t k).map showTopo))
  | "fluff" => do
    let (a, tb) ← split2 rest
    let t ← parseTable tb
    match words a with
    | [ks, nl] => do
      let keep ← if ks == "-" then some none else
        match ks.splitOn ":" with
        | [p, q] => do pure (some (← p.toNat?, ← q.toNat?))
        | _ => none
      let n ← parseOptNat nl
      pure (showTopo (dropFluff t keep n))
    | _ => none
  | "stitch" => do
    let (a, sk) ← split2 rest
    let l ← (sk.splitOn ";;").mapM parseSkel
    match words a with
    | [ms, m, md] => do
      let mIx := parseMaster ms l
      let maxD2 ← parseOptNat md
      let c := combine mIx l
      let (nodes, added) ←
        if m == "NONE" then some (c.nodes, ([] : List CEdge))
        else do
          let o : Opts := { method := ← parseMethod m, maxD2 := maxD2 }
          pure (heal c.nodes o, healAdded c.nodes o)
      pure (s!"mix={mIx}|nodes={showRows nodes}|conns={showConns c.conns}|tags={showTags c.tags}" ++
        s!"|added={showAdded added}")
    | _ => none
  | "healmin" =>
    match rest.splitOn "|" with
    | [a, tb, ub] => do
      let t ← parseTable tb
      let u ← parseTable ub
      match words a with
      | [m, md, ms, mk] => do
        let o : Opts := { method := ← parseMethod m, maxD2 := ← parseOptNat md, minSize := ← parseOptNat ms,
                          mask := ← parseMask mk }
        pure s!"{b2s (healMinOKB t u o)} {b2s ((newEdges t u).all (allowedB t o))} {b2s (((newCE t u).map (·.d2)).isPerm ((healAdded t o).map (·.d2)))}"
      | _ => none
    | _ => none
  | "healokp" =>
    match rest.splitOn "|" with
    | [a, tb, ub] => do
      let t ← parseTable tb
      let u ← parseTable ub
      let m ← parseOptNat (trim a)
      pure (b2s (healOKPB t u m))
    | _ => none
  | "stitchok" => do
    let (a, sk) ← split2 rest
    let all ← (sk.splitOn ";;").mapM parseSkel
    match all, words a with
    | out :: l, [mi, fu, md] => do
      let mIx ← mi.toNat?
      let fused := fu == "1"
      let maxD2 ← parseOptNat md
      let mp := mapsByPos l out.nodes
      let mc := mapsByCoord l out.nodes
      let okp := stitchOKWith l mp mIx out fused maxD2
      let okc := stitchOKWith l mc mIx out fused maxD2
      let d := stitchDiag l (if okp || !okc then mp else mc) mIx out fused maxD2
      pure (" ".intercalate ([stitchOKB l mIx out fused maxD2, okp, okc] ++ d |>.map b2s))
    | _, _ => none
  | "meshcat" => do
    let ms ← (rest.splitOn ";").mapM parseMesh
    pure (",".intercalate ((concatFaces 0 ms).map fun f => s!"{f.1}-{f.2.1}-{f.2.2}"))
  | _ => none

end Navis.Drv.C11
