import NavisModel.Drv.C14
/-! Development entry point: `NAVIS_DRV_MAIN=NavisModel/Drv/MainC14.lean ./check C14`. -/
def main : IO Unit := Navis.Proto.mainLoop fun head rest =>
  match head.splitOn "." with
  | ["c14", cmd] => Navis.Drv.C14.run cmd rest
  | _ => none
