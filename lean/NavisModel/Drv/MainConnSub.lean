import NavisModel.Drv.ConnSub
import NavisModel.Drv.Forest
/-! Development entry point: `NAVIS_DRV_MAIN=NavisModel/Drv/MainConnSub.lean ./check C10`. -/
def main : IO Unit := Navis.Proto.mainLoop fun head rest =>
  match head.splitOn "." with
  | ["cs", cmd] => Navis.Drv.ConnSub.run cmd rest
  | ["f", cmd] => Navis.Drv.Forest.run cmd rest
  | _ => none
