import NavisModel.Drv.C19
/-! Development entry point: `NAVIS_DRV_MAIN=NavisModel/Drv/MainC19.lean ./check C19`. -/
def main : IO Unit := Navis.Proto.mainLoop fun head rest =>
  match head.splitOn "." with
  | ["c19", cmd] => Navis.Drv.C19.run cmd rest
  | _ => none
