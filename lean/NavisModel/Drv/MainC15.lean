import NavisModel.Drv.C15
/-! Development entry point: `NAVIS_DRV_MAIN=NavisModel/Drv/MainC15.lean ./check C15`. -/
def main : IO Unit := Navis.Proto.mainLoop fun head rest =>
  match head.splitOn "." with
  | ["c15", cmd] => Navis.Drv.C15.run cmd rest
  | _ => none
