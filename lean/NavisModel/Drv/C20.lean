import NavisModel.Model.Conn
import NavisModel.Drv.Proto
/-!
Line protocol for C20 (labels / names are `[A-Za-z0-9_]+`, blanks are ignored around separators).

* neurons  : `name=cid:node:type,cid:node:type;name=-;name=`   (`-` = `connectors is None`, empty = empty table)
* edges    : `cid:src:tgt:srcNode:tgtNode,…`  with `N` for `None`
* `c20.all <io> | <neurons>` →
  `pu=<0|1>|edges=<edges>|index=<names>|adj=<row>/<row>…|dg=src>tgt:w:cid.pre.post+…,…|mg=src>tgt:cid.pre.post,…|w=src>tgt:adj:dgw:mgn,…`
* `c20.check <io> | <neurons> | <edges>` → `pu=<0|1> ok=<0|1>` (`checkEdges` on the implementation's own edge list)
* `c20.group <method> <drop> | rows | cols | v,v;v,v | <groups> | <groups>` → `rows|cols|v,v;v,v|total`
  groups: `N:k>v,k>v` (neuron → group) or `G:g>m+m,g>m` (group → members); values `num` or `num:den`.
-/
namespace Navis.Drv.C20
open Navis.Conn Navis.Proto

def parseRow (s : String) : Option (Int × Int × Int) :=
  match (trim s).splitOn ":" with
  | [c, n, t] => do
    let c ← (trim c).toInt?; let n ← (trim n).toInt?; let t ← (trim t).toInt?
    pure (c, n, t)
  | _ => none

def parseNeuron (s : String) : Option Neuron :=
  match (trim s).splitOn "=" with
  | [name, tbl] =>
    let tbl := trim tbl
    if tbl == "-" then some ⟨trim name, none⟩
    else if tbl.isEmpty then some ⟨trim name, some []⟩
    else do
      let rs ← (tbl.splitOn ",").mapM parseRow
      pure ⟨trim name, some rs⟩
  | _ => none

def parseNeurons (s : String) : Option (List Neuron) :=
  let s := trim s
  if s.isEmpty then some [] else (s.splitOn ";").mapM parseNeuron

def showOpt : Option Int → String
  | none => "N"
  | some i => toString i

def parseOpt (s : String) : Option (Option Int) :=
  let s := trim s
  if s == "N" then some none else s.toInt?.map some

def showEdge (e : Edge) : String := s!"{e.cid}:{e.src}:{e.tgt}:{showOpt e.srcNode}:{showOpt e.tgtNode}"

def parseEdge (s : String) : Option Edge :=
  match (trim s).splitOn ":" with
  | [c, a, b, x, y] => do
    let c ← (trim c).toInt?; let x ← parseOpt x; let y ← parseOpt y
    pure ⟨c, trim a, trim b, x, y⟩
  | _ => none

def parseEdges (s : String) : Option (List Edge) :=
  let s := trim s
  if s.isEmpty then some [] else (s.splitOn ",").mapM parseEdge

def showSyn (x : Syn) : String := s!"{x.1}.{showOpt x.2.1}.{showOpt x.2.2}"

def b01 (b : Bool) : String := if b then "1" else "0"

def parseBool (s : String) : Option Bool :=
  match trim s with
  | "1" => some true
  | "0" => some false
  | _ => none

def runAll (io : Bool) (ns : List Neuron) : String :=
  let rows := flatRows ns
  let es := edges (build rows) io
  let names := neuronNames ns
  let idx := index names io
  let adj := adjacency names io es
  let dg := digraphEdges es
  let pairs := dedup (es.map Edge.key)
  let dgS := ",".intercalate (dg.map fun p =>
    s!"{p.1.1}>{p.1.2}:{digraphWeight es p.1.1 p.1.2}:" ++ "+".intercalate (p.2.map showSyn))
  let mgS := ",".intercalate ((multiEdges es).map fun p => s!"{p.1.1}>{p.1.2}:{showSyn p.2}")
  let wS := ",".intercalate (pairs.map fun p =>
    s!"{p.1}>{p.2}:{adjCell es p.1 p.2}:{digraphWeight es p.1 p.2}:{(multiBetween es p.1 p.2).length}")
  s!"pu={b01 (preUniqueB rows)}|edges={",".intercalate (es.map showEdge)}|index={",".intercalate idx}" ++
  s!"|adj={"/".intercalate (adj.map showNats)}|dg={dgS}|mg={mgS}|w={wS}"

/-! group_matrix -/

def parseRat (s : String) : Option Rat :=
  match (trim s).splitOn ":" with
  | [n] => (trim n).toInt?.map fun i => (i : Rat)
  | [n, d] => do
    let n ← (trim n).toInt?; let d ← (trim d).toNat?
    if d == 0 then none else pure ((n : Rat) / (d : Rat))
  | _ => none

def showRat (r : Rat) : String := if r.den == 1 then toString r.num else s!"{r.num}:{r.den}"

def parseMethod (s : String) : Option Method :=
  match trim s with
  | "SUM" => some .sum
  | "AVERAGE" => some .avg
  | "MIN" => some .min
  | "MAX" => some .max
  | _ => none

def parsePair (s : String) : Option (String × String) :=
  match (trim s).splitOn ">" with
  | [k, v] => some (trim k, trim v)
  | _ => none

def parseGroups (s : String) : Option Groups :=
  let s := trim s
  if s.startsWith "N:" then
    let b := trim ((s.drop 2).toString)
    if b.isEmpty then some (.byNeuron []) else (b.splitOn ",").mapM parsePair |>.map .byNeuron
  else if s.startsWith "G:" then
    let b := trim ((s.drop 2).toString)
    if b.isEmpty then some (.byGroup [])
    else ((b.splitOn ",").mapM fun t => (parsePair t).map fun p =>
      (p.1, if p.2.isEmpty then [] else (p.2.splitOn "+").map trim)) |>.map .byGroup
  else none

def parseData (s : String) : Option (List (List Rat)) :=
  let s := trim s
  if s.isEmpty then some [] else (s.splitOn ";").mapM fun r =>
    let r := trim r
    if r.isEmpty then some [] else (r.splitOn ",").mapM parseRat

def mkMat (rows cols : List String) (data : List (List Rat)) : LMat :=
  ⟨rows, cols, fun r c => ((data.getD (rows.idxOf r) []).getD (cols.idxOf c) 0)⟩

def showMat (M : LMat) : String :=
  s!"{",".intercalate M.rows}|{",".intercalate M.cols}|" ++
  ";".intercalate (M.rows.map fun r => ",".intercalate (M.cols.map fun c => showRat (M.val r c))) ++
  s!"|{showRat (total M)}"

def run (cmd : String) (rest : String) : Option String :=
  match cmd with
  | "all" => match rest.splitOn "|" with
    | [io, ns] => do
      let io ← parseBool io; let ns ← parseNeurons ns
      pure (runAll io ns)
    | _ => none
  | "check" => match rest.splitOn "|" with
    | [io, ns, es] => do
      let io ← parseBool io; let ns ← parseNeurons ns; let es ← parseEdges es
      let rows := flatRows ns
      pure s!"pu={b01 (preUniqueB rows)} ok={b01 (checkEdges io rows es)}"
    | _ => none
  | "group" => match rest.splitOn "|" with
    | [hd, rows, cols, data, rg, cg] => match words hd with
      | [m, drop] => do
        let m ← parseMethod m; let drop ← parseBool drop
        let data ← parseData data
        let rg ← parseGroups rg; let cg ← parseGroups cg
        let M := mkMat (strList rows) (strList cols) data
        pure (showMat (groupMatrix m rg cg drop M))
      | _ => none
    | _ => none
  | _ => none

end Navis.Drv.C20
