import NavisModel.Model.Conn
import NavisModel.Model.ConnViews
import NavisModel.Drv.Proto
/-!
Line protocol for C20 (labels / names are `[A-Za-z0-9_]+`, blanks are ignored around separators).

* neurons  : `name=cid:node:type,cid:node:type;name=-;name=`   (`-` = `connectors is None`, empty = empty table)
* edges    : `cid:src:tgt:srcNode:tgtNode,…`  with `N` for `None`
* `c20.all <io> | <neurons>` →
  `pu=<0|1>|edges=<edges>|index=<names>|adj=<row>/<row>…|dg=src>tgt:w:cid.pre.post+…,…|mg=src>tgt:cid.pre.post,…|w=src>tgt:adj:dgw:mgn,…`
* `c20.check <io> | <neurons> | <edges>` → `pu=<0|1> ok=<0|1>` (`checkEdges` on the implementation's own edge list)
* type tokens of a row: a bare integer (Python / numpy int), or `i<int>`, `f<num>` / `f<num>_<den>` (float), `bT` / `bF` (bool),
  `s<text>` (str), `nan`, `none`; they are reduced with the model's `typeCode` (Python `==` against the literals)
* `c20.inc <io> | <neurons>` → `names=<names>|edges=<edges>` from the *incremental* state machine `buildN` (`add_neuron` one by one)
* `c20.views <io> | <neurons> | <edges> | <index> | <adj rows r/r> | <dgNodes> | <dg> | <mgNodes> | <mg>` →
  `ok=<0|1> idx=.. adj=.. dgk=.. dge=.. dgc=.. mg=..` : the proved-sound checker `viewsOKB` on navis' own three views for navis' own edge
  list (the per-clause bits are diagnostics only); `dg` = `src>tgt:w:cid.pre.post+…,…`, `mg` = `src>tgt:cid.pre.post,…`
* `c20.n2nx <threshold|N> | <index> | <adj rows>` → `nodes=<names>|edges=src>tgt:w,…` (`network2nx` on an adjacency frame)
* `c20.gtotal <drop> | rows | cols | data | <groups> | <groups> | grows | gcols | gdata` → `ok=<0|1> total=.. kept=..`
  (`groupTotalsOKB` on navis' own grouped matrix, `method='SUM'`)
* `c20.group <method> <drop> | rows | cols | v,v;v,v | <groups> | <groups>` → `rows|cols|v,v;v,v|total`
  groups: `N:k>v,k>v` (neuron → group) or `G:g>m+m,g>m` (group → members); values `num` or `num:den`.
-/
namespace Navis.Drv.C20
open Navis.Conn Navis.Proto

def parseTVal (s : String) : Option TVal :=
  let s := trim s
  if s == "nan" then some .nan
  else if s == "none" then some .none
  else if s == "bT" then some (.bool true)
  else if s == "bF" then some (.bool false)
  else if s.startsWith "s" then some (.str (s.drop 1).toString)
  else if s.startsWith "i" then ((s.drop 1).toString.toInt?).map .int
  else if s.startsWith "f" then
    match ((s.drop 1).toString).splitOn "_" with
    | [n] => n.toInt?.map fun i => .float (i : Rat)
    | [n, d] => do
      let n ← n.toInt?; let d ← d.toNat?
      if d == 0 then none else pure (.float ((n : Rat) / (d : Rat)))
    | _ => none
  else none

/-- bare integers go to the first-layer model unchanged; tagged Python values through `typeCode` -/
def parseType (s : String) : Option Int :=
  match (trim s).toInt? with
  | some i => some i
  | none => (parseTVal s).map typeCode

def parseRow (s : String) : Option (Int × Int × Int) :=
  match (trim s).splitOn ":" with
  | [c, n, t] => do
    let c ← (trim c).toInt?; let n ← (trim n).toInt?; let t ← parseType t
    pure (c, n, t)
  | _ => none

def parseNeuron (s : String) : Option Neuron :=
  match (trim s).splitOn "=" with
  | [name, tbl] =>
    let tbl := trim tbl
    if tbl == "-" then some ⟨trim name, none⟩
    else if tbl.isEmpty then some ⟨trim name, some []⟩
    else do
      let rs ← (tbl.splitOn ",").mapM parseRow
      pure ⟨trim name, some rs⟩
  | _ => none

def parseNeurons (s : String) : Option (List Neuron) :=
  let s := trim s
  if s.isEmpty then some [] else (s.splitOn ";").mapM parseNeuron

def showOpt : Option Int → String
  | none => "N"
  | some i => toString i

def parseOpt (s : String) : Option (Option Int) :=
  let s := trim s
  if s == "N" then some none else s.toInt?.map some

def showEdge (e : Edge) : String := s!"{e.cid}:{e.src}:{e.tgt}:{showOpt e.srcNode}:{showOpt e.tgtNode}"

def parseEdge (s : String) : Option Edge :=
  match (trim s).splitOn ":" with
  | [c, a, b, x, y] => do
    let c ← (trim c).toInt?; let x ← parseOpt x; let y ← parseOpt y
    pure ⟨c, trim a, trim b, x, y⟩
  | _ => none

def parseEdges (s : String) : Option (List Edge) :=
  let s := trim s
  if s.isEmpty then some [] else (s.splitOn ",").mapM parseEdge

def showSyn (x : Syn) : String := s!"{x.1}.{showOpt x.2.1}.{showOpt x.2.2}"

def b01 (b : Bool) : String := if b then "1" else "0"

def parseBool (s : String) : Option Bool :=
  match trim s with
  | "1" => some true
  | "0" => some false
  | _ => none

def runAll (io : Bool) (ns : List Neuron) : String :=
  let rows := flatRows ns
  let es := edges (build rows) io
  let names := neuronNames ns
  let idx := index names io
  let adj := adjDense idx es      -- `to_adjacency` as written (= `adjacency names io es`, Props/C20 `adjacency_as_written`)
  let dg := digraphEdges es
  let pairs := dedup (es.map Edge.key)
  let dgS := ",".intercalate (dg.map fun p =>
    s!"{p.1.1}>{p.1.2}:{digraphWeight es p.1.1 p.1.2}:" ++ "+".intercalate (p.2.map showSyn))
  let mgS := ",".intercalate ((multiEdges es).map fun p => s!"{p.1.1}>{p.1.2}:{showSyn p.2}")
  let wS := ",".intercalate (pairs.map fun p =>
    s!"{p.1}>{p.2}:{adjCell es p.1 p.2}:{digraphWeight es p.1 p.2}:{(multiBetween es p.1 p.2).length}")
  s!"pu={b01 (preUniqueB rows)}|edges={",".intercalate (es.map showEdge)}|index={",".intercalate idx}" ++
  s!"|adj={"/".intercalate (adj.map showNats)}|dg={dgS}|mg={mgS}|w={wS}"

/-! incremental construction, checker for navis' own views, network2nx -/

def runInc (io : Bool) (ns : List Neuron) : String :=
  let st := buildN ns
  s!"names={",".intercalate st.names}|edges={",".intercalate ((edges st.maps io).map showEdge)}"

def parseSyn (s : String) : Option Syn :=
  match (trim s).splitOn "." with
  | [c, a, b] => do
    let c ← (trim c).toInt?; let a ← parseOpt a; let b ← parseOpt b
    pure (c, a, b)
  | _ => none

def parsePairKey (s : String) : Option (String × String) :=
  match (trim s).splitOn ">" with
  | [a, b] => some (trim a, trim b)
  | _ => none

def parseDgEntry (s : String) : Option ((String × String) × Nat × List Syn) :=
  match (trim s).splitOn ":" with
  | [k, w, l] => do
    let k ← parsePairKey k; let w ← (trim w).toNat?
    let l ← if (trim l).isEmpty then some [] else ((trim l).splitOn "+").mapM parseSyn
    pure (k, w, l)
  | _ => none

def parseMgEntry (s : String) : Option ((String × String) × Syn) :=
  match (trim s).splitOn ":" with
  | [k, x] => do
    let k ← parsePairKey k; let x ← parseSyn x
    pure (k, x)
  | _ => none

def parseListOf {α} (f : String → Option α) (s : String) : Option (List α) :=
  let s := trim s
  if s.isEmpty then some [] else (s.splitOn ",").mapM f

def parseDense (s : String) : Option Dense :=
  let s := trim s
  if s.isEmpty then some [] else (s.splitOn "/").mapM natList?

def runViews (io : Bool) (ns : List Neuron) (es : List Edge) (v : Views) : String :=
  let names := neuronNames ns
  let idxOK := v.index.isPerm (index names io) && v.dgNodes.isPerm (index names io) && v.mgNodes.isPerm (index names io)
  let adjOK := decide (v.adj = cellsOf v.index fun s t => (between es s t).length)
  let dgk := decide (dkeys v.dg).Nodup
  let dge := v.dg.all (fun p => !p.2.2.isEmpty && decide (p.2.1 = p.2.2.length)
        && p.2.2.isPerm ((between es p.1.1 p.1.2).map Edge.syn))
  let dgc := es.all (fun e => (dkeys v.dg).contains e.key)
  let mgOK := v.mg.isPerm (multiEdges es)
  s!"ok={b01 (viewsOKB names io es v)} idx={b01 idxOK} adj={b01 adjOK} dgk={b01 dgk} dge={b01 dge} dgc={b01 dgc} mg={b01 mgOK}"

def runN2nx (th : Option Nat) (idx : List String) (M : Dense) : String :=
  let g := n2nx th idx M
  s!"nodes={",".intercalate (n2nxNodes th idx M)}|edges=" ++ ",".intercalate (g.map fun p => s!"{p.1.1}>{p.1.2}:{p.2}")

/-! group_matrix -/

def parseRat (s : String) : Option Rat :=
  match (trim s).splitOn ":" with
  | [n] => (trim n).toInt?.map fun i => (i : Rat)
  | [n, d] => do
    let n ← (trim n).toInt?; let d ← (trim d).toNat?
    if d == 0 then none else pure ((n : Rat) / (d : Rat))
  | _ => none

def showRat (r : Rat) : String := if r.den == 1 then toString r.num else s!"{r.num}:{r.den}"

def parseMethod (s : String) : Option Method := methodOfName (trim s)

def parsePair (s : String) : Option (String × String) :=
  match (trim s).splitOn ">" with
  | [k, v] => some (trim k, trim v)
  | _ => none

def parseGroups (s : String) : Option Groups :=
  let s := trim s
  if s.startsWith "N:" then
    let b := trim ((s.drop 2).toString)
    if b.isEmpty then some (.byNeuron []) else (b.splitOn ",").mapM parsePair |>.map .byNeuron
  else if s.startsWith "G:" then
    let b := trim ((s.drop 2).toString)
    if b.isEmpty then some (.byGroup [])
    else ((b.splitOn ",").mapM fun t => (parsePair t).map fun p =>
      (p.1, if p.2.isEmpty then [] else (p.2.splitOn "+").map trim)) |>.map .byGroup
  else none

def parseData (s : String) : Option (List (List Rat)) :=
  let s := trim s
  if s.isEmpty then some [] else (s.splitOn ";").mapM fun r =>
    let r := trim r
    if r.isEmpty then some [] else (r.splitOn ",").mapM parseRat

def mkMat (rows cols : List String) (data : List (List Rat)) : LMat :=
  ⟨rows, cols, fun r c => ((data.getD (rows.idxOf r) []).getD (cols.idxOf c) 0)⟩

def showMat (M : LMat) : String :=
  s!"{",".intercalate M.rows}|{",".intercalate M.cols}|" ++
  ";".intercalate (M.rows.map fun r => ",".intercalate (M.cols.map fun c => showRat (M.val r c))) ++
  s!"|{showRat (total M)}"

def run (cmd : String) (rest : String) : Option String :=
  match cmd with
  | "all" => match rest.splitOn "|" with
    | [io, ns] => do
      let io ← parseBool io; let ns ← parseNeurons ns
      pure (runAll io ns)
    | _ => none
  | "inc" => match rest.splitOn "|" with
    | [io, ns] => do
      let io ← parseBool io; let ns ← parseNeurons ns
      pure (runInc io ns)
    | _ => none
  | "views" => match rest.splitOn "|" with
    | [io, ns, es, idx, adj, dgn, dg, mgn, mg] => do
      let io ← parseBool io; let ns ← parseNeurons ns; let es ← parseEdges es
      let adj ← parseDense adj
      let dg ← parseListOf parseDgEntry dg; let mg ← parseListOf parseMgEntry mg
      pure (runViews io ns es ⟨strList idx, adj, strList dgn, dg, strList mgn, mg⟩)
    | _ => none
  | "n2nx" => match rest.splitOn "|" with
    | [th, idx, adj] => do
      let th ← if trim th == "N" then some none else (trim th).toNat?.map some
      let adj ← parseDense adj
      pure (runN2nx th (strList idx) adj)
    | _ => none
  | "check" => match rest.splitOn "|" with
    | [io, ns, es] => do
      let io ← parseBool io; let ns ← parseNeurons ns; let es ← parseEdges es
      let rows := flatRows ns
      pure s!"pu={b01 (preUniqueB rows)} ok={b01 (checkEdges io rows es)}"
    | _ => none
  | "gtotal" => match rest.splitOn "|" with
    | [drop, rows, cols, data, rg, cg, grows, gcols, gdata] => do
      let drop ← parseBool drop
      let data ← parseData data; let gdata ← parseData gdata
      let rg ← parseGroups rg; let cg ← parseGroups cg
      let M := mkMat (strList rows) (strList cols) data
      let G := mkMat (strList grows) (strList gcols) gdata
      pure s!"ok={b01 (groupTotalsOKB rg cg drop M G)} total={showRat (total G)} kept={showRat (keptTotal rg cg drop M)}"
    | _ => none
  | "group" => match rest.splitOn "|" with
    | [hd, rows, cols, data, rg, cg] => match words hd with
      | [m, drop] => do
        let m ← parseMethod m; let drop ← parseBool drop
        let data ← parseData data
        let rg ← parseGroups rg; let cg ← parseGroups cg
        let M := mkMat (strList rows) (strList cols) data
        pure (showMat (groupMatrix m rg cg drop M))
      | _ => none
    | _ => none
  | _ => none

end Navis.Drv.C20
