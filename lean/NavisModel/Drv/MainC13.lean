import NavisModel.Drv.C13
import NavisModel.Drv.Forest
/-! Development entry point: `NAVIS_DRV_MAIN=NavisModel/Drv/MainC13.lean ./check C13`. -/
def main : IO Unit := Navis.Proto.mainLoop fun head rest =>
  match head.splitOn "." with
  | ["c13", cmd] => Navis.Drv.C13.run cmd rest
  | ["f", cmd] => Navis.Drv.Forest.run cmd rest
  | _ => none
