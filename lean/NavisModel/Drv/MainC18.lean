import NavisModel.Drv.C18
/-! Development entry point: `NAVIS_DRV_MAIN=NavisModel/Drv/MainC18.lean ./check C18`. -/
def main : IO Unit := Navis.Proto.mainLoop fun head rest =>
  match head.splitOn "." with
  | ["c18", cmd] => Navis.Drv.C18.run cmd rest
  | _ => none
