import NavisModel.Model.Prune
import NavisModel.Drv.Forest
/-! Driver commands for pruning and Strahler (`p.<cmd>`). -/
namespace Navis.Drv.Prune
open Navis.Forest Navis.Proto Navis.Drv.Forest

def optInt (s : String) : Option (Option Int) := if s == "_" then some none else s.toInt?.map some

def parseSel (s : String) : Option SISel :=
  match s.splitOn ":" with
  | ["int", k] => k.toInt?.map SISel.int
  | ["list", ks] => (intList? ks).map SISel.list
  | ["range", a, b] => do pure (SISel.range (← a.toInt?) (← b.toInt?))
  | ["slice", a, b] => do pure (SISel.slice (← optInt a) (← optInt b))
  | _ => none

def run (cmd rest : String) : Option String :=
  match cmd with
  | "twigs" => do
    -- "size rounds mask|-" | table
    let (a, tb) ← split2 rest
    let t ← parseTable tb
    match words a with
    | [sz, rd, mk] => do
      let sz ← sz.toNat?; let rd ← rd.toNat?
      let mask ← if mk == "-" then some none else (intList? mk).map some
      pure (showTopo (pruneTwigs t (coordLen t) sz mask rd))
    | _ => none
  | "exact" => do
    -- "num/den" | table  →  id:parent:num/den ... sorted by id
    let (a, tb) ← split2 rest
    let t ← parseTable tb
    let size ← match a.splitOn "/" with
      | [n, d] => do pure ((← n.toInt? : Int) / ((← d.toNat?) : Rat) : Rat)
      | [n] => do pure ((← n.toInt? : Int) : Rat)
      | _ => none
    let rows := (exactPrune t (coordLen t) size).toArray.qsort (fun a b => a.1 < b.1) |>.toList
    pure (" ".intercalate (rows.map fun r => s!"{r.1}:{r.2.1}:{r.2.2.num}/{r.2.2.den}"))
  | "strahler" => do
    -- "greedy ign|- mintwig" | table
    let (a, tb) ← split2 rest
    let t ← parseTable tb
    match words a with
    | [g, ig, mt] => do
      let ign ← if ig == "-" then some [] else intList? ig
      let mt ← mt.toNat?
      let ign := if mt == 0 then ign else ign ++ shortTwigs t mt
      pure (" ".intercalate ((sortedInts (ids t)).map fun i => s!"{i}={strahler t (g == "1") ign i}"))
    | _ => none
  | "bystrahler" => do
    let (a, tb) ← split2 rest
    let t ← parseTable tb
    let sel ← parseSel a
    match pruneByStrahler t sel with
    | some r => pure (showTopo r)
    | none => pure "ERR"
  | "depth" => do
    -- "source depth weighted" | table
    let (a, tb) ← split2 rest
    let t ← parseTable tb
    match words a with
    | [s, d, w] => do
      let s ← s.toInt?; let d ← d.toNat?
      let len := if w == "1" then coordLen t else fun _ _ => 1
      pure (showTopo (pruneAtDepth t len s d))
    | _ => none
  | "longest" => do
    -- "lo hi inverse" | table     (segments[lo:hi])
    let (a, tb) ← split2 rest
    let t ← parseTable tb
    match words a with
    | [lo, hi, inv] => do
      let lo ← lo.toNat?; let hi ← hi.toNat?
      pure (showTopo (longestNeurite t (coordLen t) lo hi (inv == "1")))
    | _ => none
  | "relocate" => do
    -- kept | nodes | table
    match rest.splitOn "|" with
    | [k, ns, tb] => do
      let t ← parseTable tb
      let kept ← intList? k
      let ns ← intList? ns
      pure (" ".intercalate (ns.map fun n => match relocate t kept n with | some a => s!"{n}>{a}" | none => s!"{n}>none"))
    | _ => none
  | _ => none

end Navis.Drv.Prune
