import NavisModel.Drv.Forest
import NavisModel.Drv.ConnSub
/-! C10 has no driver commands of its own: it uses the shared forest commands (`f.*`, `Drv/Forest.lean`) and the
connected-subgraph commands (`cs.*`, `Drv/ConnSub.lean`).  This module only exists so that the development
build target `NavisModel.Drv.C10` (used by `./check C10` when `NAVIS_DRV_MAIN` is set) resolves. -/
