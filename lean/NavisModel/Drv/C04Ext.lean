import NavisModel.Drv.Proto
import NavisModel.Model.Forest
/-! Extension commands for C04 (line protocol prefix `c04x.`). -/
namespace Navis.Drv.C04Ext

def run (cmd _rest : String) : Option String :=
  match cmd with
  | "ping" => some "pong-c04x"
  | _ => none

end Navis.Drv.C04Ext
