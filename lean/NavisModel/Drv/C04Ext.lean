import NavisModel.Drv.Proto
import NavisModel.Drv.Forest
import NavisModel.Model.StrahlerSweep
/-! Extension commands for C04 (line protocol prefix `c04x.`). -/
namespace Navis.Drv.C04Ext
open Navis.Forest Navis.Proto Navis.Drv.Forest Navis.Sweep

def parsePick (s : String) : Option (St → Nat) :=
  match s.splitOn ":" with
  | ["first"] => some pickFirst
  | ["last"] => some pickLast
  | ["mix", k] => k.toNat?.map pickMix
  | _ => none

def showCol (t : Table) (f : Int → Nat) : String :=
  " ".intercalate ((sortedInts (ids t)).map fun i => s!"{i}={f i}")

def run (cmd rest : String) : Option String :=
  match cmd with
  | "ping" => some "pong-c04x"
  | "sweep" => do
    -- "greedy ign|- mintwig pick" | table (with the implementation's labels)
    --   → the Python Strahler sweep as written, under the given pop order; `ERR` = KeyError / no termination
    let (a, tb) ← split2 rest
    let t ← parseTable tb
    match words a with
    | [g, ig, mt, pk] => do
      let ign ← if ig == "-" then some [] else intList? ig
      let mt ← mt.toNat?
      let pick ← parsePick pk
      match sweep t (g == "1") (ignoreList t ign mt) pick with
      | some col => pure (showCol t col)
      | none => pure "ERR"
    | _ => none
  | _ => none

end Navis.Drv.C04Ext
