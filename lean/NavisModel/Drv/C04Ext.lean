import NavisModel.Drv.Proto
import NavisModel.Drv.Forest
import NavisModel.Model.StrahlerSweep
import NavisModel.Model.SegmentVariants
import NavisModel.Model.FlowVariants
import NavisModel.Model.ComponentVariants
/-! Extension commands for C04 (line protocol prefix `c04x.`). -/
namespace Navis.Drv.C04Ext
open Navis.Forest Navis.Proto Navis.Drv.Forest Navis.Sweep Navis.SegVar Navis.Flow Navis.FlowVar

def parsePick (s : String) : Option (St → Nat) :=
  match s.splitOn ":" with
  | ["first"] => some pickFirst
  | ["last"] => some pickLast
  | ["mix", k] => k.toNat?.map pickMix
  | _ => none

def showCol (t : Table) (f : Int → Nat) : String :=
  " ".intercalate ((sortedInts (ids t)).map fun i => s!"{i}={f i}")

def run (cmd rest : String) : Option String :=
  match cmd with
  | "ping" => some "pong-c04x"
  | "sweep" => do
    -- "greedy ign|- mintwig pick" | table (with the implementation's labels)
    --   → the Python Strahler sweep as written, under the given pop order; `ERR` = KeyError / no termination
    let (a, tb) ← split2 rest
    let t ← parseTable tb
    match words a with
    | [g, ig, mt, pk] => do
      let ign ← if ig == "-" then some [] else intList? ig
      let mt ← mt.toNat?
      let pick ← parsePick pk
      match sweep t (g == "1") (ignoreList t ign mt) pick with
      | some col => pure (showCol t col)
      | none => pure "ERR"
    | _ => none
  | "break" => do
    -- "igraph|nx" | table (with labels) → `_break_segments` of that Python variant as written (model order)
    let (a, tb) ← split2 rest
    let t ← parseTable tb
    match (if a == "igraph" then breakIgraph t else breakNx t) with
    | some ss => pure (showSegs ss)
    | none => pure "ERR"
  | "gen" => do
    -- "igraph|nx weighted" | table (with labels) → `_generate_segments` of that variant, exact order
    let (a, tb) ← split2 rest
    let t ← parseTable tb
    match words a with
    | [v, w] =>
      let len := if w == "1" then coordLen t else fun _ _ => 1
      match (if v == "igraph" then genIgraph t len else genNx t len) with
      | some ss => pure (showSegs ss)
      | none => pure "ERR"
    | _ => none
  | "sfcpy" =>
    -- mode | pre | post | table (with labels) → the Python path of synapse_flow_centrality as written
    -- (formula at branch/root/connector nodes, propagation along the small segments, fork rule)
    match (rest.splitOn "|").map trim with
    | [md, pr, po, tb] => do
      let t ← parseTable tb
      let pre ← intList? pr
      let post ← intList? po
      let m ← match md with
        | "centrifugal" => some Mode.centrifugal
        | "centripetal" => some Mode.centripetal
        | "sum" => some Mode.sum
        | _ => none
      match sfcPython t m pre post (smallSegments t) with
      | some col => pure (showCol t col)
      | none => pure "ERR"
    | _ => none
  | "components" => do
    -- table → components by root labels (fastcore) # by undirected closure (igraph / networkx); canonical sets
    let t ← parseTable rest
    let canon := fun (cs : List (List Int)) => canonSegs (cs.map sortedInts)
    pure (showSegs (canon (componentsByRoot t)) ++ " # " ++ showSegs (canon (componentsByClosure t)))
  | "georows" => do
    -- from | table → row labels of geodesic_matrix(from_=…): "python-order # fastcore-order"
    let (a, tb) ← split2 rest
    let t ← parseTable tb
    let fr ← intList? a
    pure (showInts (geoRowLabelsPython t fr) ++ " # " ++ showInts (geoRowLabelsFastcore t fr))
  | "rerootpath" => do
    -- node | table → igraph-variant path # networkx-variant path
    let (a, tb) ← split2 rest
    let t ← parseTable tb
    let r ← a.toInt?
    pure ((match rerootPathIgraph t r with | some p => showInts p | none => "ERR") ++ " # " ++ showInts (rerootPathNx t r))
  | _ => none

end Navis.Drv.C04Ext
