import NavisModel.Drv.Proto
import NavisModel.Model.Forest
/-! Extension commands for C10 (line protocol prefix `c10x.`). -/
namespace Navis.Drv.C10Ext

def run (cmd _rest : String) : Option String :=
  match cmd with
  | "ping" => some "pong-c10x"
  | _ => none

end Navis.Drv.C10Ext
