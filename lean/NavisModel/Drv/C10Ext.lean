import NavisModel.Drv.Proto
import NavisModel.Drv.Forest
import NavisModel.Model.Forest
import NavisModel.Model.TreeEdit
import NavisModel.Model.TreeCheck
/-! Extension commands for C10 (line protocol prefix `c10x.`).

Wire format of a neuron: `table | connectors | tags | soma` where `table` is as in `Drv/Forest.lean`,
connectors are blank-separated `cid:node:kind`, tags are `-` (None) or blank-separated `name=i,j,k`
entries (possibly none: the empty dict), soma is `-` or an id.  A printed neuron is
`topology # connector ids in table order # tags (sorted by name, ids in order) # soma`. -/
namespace Navis.Drv.C10Ext
open Navis.Forest Navis.Proto Navis.Drv.Forest Navis.TreeEdit

def parseConn (s : String) : Option Conn :=
  match s.splitOn ":" with
  | [c, n, k] => do pure { cid := ← c.toInt?, node := ← n.toInt?, kind := ← k.toNat? }
  | [c, n] => do pure { cid := ← c.toInt?, node := ← n.toInt? }
  | _ => none

def parseTags (s : String) : Option (Option Tags) :=
  let s := trim s
  if s == "-" then some none
  else do
    let es ← (words s).mapM fun e => match e.splitOn "=" with
      | [k, v] => do pure (k, ← intList? v)
      | _ => none
    pure (some es)

def parseSoma (s : String) : Option (Option Int) :=
  let s := trim s
  if s == "-" then some none else s.toInt?.map some

def parseNeuron (tb cn tg so : String) : Option Neuron := do
  let t ← parseTable tb
  let cs ← (words cn).mapM parseConn
  let tags ← parseTags tg
  let soma ← parseSoma so
  pure { nodes := t, conns := cs, tags := tags, soma := soma }

def showTags : Option Tags → String
  | none => "-"
  | some tg =>
    let es := tg.toArray.qsort (fun a b => a.1 < b.1) |>.toList
    " ".intercalate (es.map fun e => e.1 ++ "=" ++ showInts e.2)

def showNeuron (x : Neuron) : String :=
  showTopo x.nodes ++ " # " ++ showInts (x.conns.map (·.cid)) ++ " # " ++ showTags x.tags ++ " # " ++
    (match x.soma with | some s => toString s | none => "-")

def showErr : Err → String
  | .noTags => "ERR:no-tags" | .noTag => "ERR:no-tag" | .multiTag => "ERR:multi-tag"
  | .notFound => "ERR:not-found" | .isRoot => "ERR:is-root" | .multiTree => "ERR:multi-tree"
  | .gone => "ERR:gone" | .noEdge => "ERR:no-edge" | .badIndex => "ERR:bad-index"

def parseWhere (s : String) : Option (List Where) :=
  (strList s).mapM fun w =>
    if w.startsWith "t:" then some (Where.tag (w.drop 2).toString) else w.toInt?.map Where.id

def parseRet : String → Option Ret
  | "both" => some .both | "proximal" => some .proximal | "distal" => some .distal | _ => none

def parseMask (s : String) : Option (List Bool) :=
  (trim s).toList.mapM fun c => if c == '1' then some true else if c == '0' then some false else none

def showWGraph (g : WGraph) : String :=
  let es := g.toArray.qsort (fun a b => a.1 < b.1 || (a.1 == b.1 && a.2.1 < b.2.1)) |>.toList
  " ".intercalate (es.map fun e => s!"{e.1}>{e.2.1}:{e.2.2}")

def run (cmd rest : String) : Option String :=
  match cmd with
  | "ping" => some "pong-c10x"
  | "subsetn" => do
    -- "<ids|mask|pf|pfmask> <keep_disc_cn 0/1> <ids or mask>" | table | conns | tags | soma
    match rest.splitOn "|" with
    | [a, tb, cn, tg, so] => do
      let x ← parseNeuron tb cn tg so
      match words a with
      | ["ids", kd, l] => do
        let s ← intList? l
        pure (showNeuron (subsetNeuron x (fun i => s.contains i) (kd == "1")))
      | ["ids", kd] => pure (showNeuron (subsetNeuron x (fun _ => false) (kd == "1")))
      | ["mask", kd, m] => do
        let m ← parseMask m
        -- the mask form selects rows by position; the filters see the resulting table
        let t' := subsetMask x.nodes m
        pure (showNeuron { nodes := t', conns := if kd == "1" then x.conns else filterConns t' x.conns,
                           tags := x.tags.map (filterTags t'), soma := filterSoma t' x.soma })
      | ["pfmask", kd, m] => do
        -- prevent_fragments with a boolean mask: the mask is translated into ids first
        let m ← parseMask m
        pure (showNeuron (subsetNeuronPF x (maskIds x.nodes m) (kd == "1")))
      | ["pf", kd, l] => do
        let s ← intList? l
        pure (showNeuron (subsetNeuronPF x s (kd == "1")))
      | _ => none
    | _ => none
  | "cutskel" => do
    -- "<ret> <where-list>" | neuron
    match rest.splitOn "|" with
    | [a, tb, cn, tg, so] => do
      let x ← parseNeuron tb cn tg so
      match words a with
      | [r, w] => do
        let ret ← parseRet r
        let wh ← parseWhere w
        match cutSkeleton x wh ret with
        | .ok fs => pure (" || ".intercalate (fs.map showNeuron))
        | .error e => pure (showErr e)
      | _ => none
    | _ => none
  | "prune" => do
    -- "<distal|proximal> <where-list>" | neuron      (the method forms, several nodes)
    match rest.splitOn "|" with
    | [a, tb, cn, tg, so] => do
      let x ← parseNeuron tb cn tg so
      match words a with
      | [which, w] => do
        let wh ← parseWhere w
        let spec ← if which == "distal" then some refDistal else if which == "proximal" then some refProximal else none
        match pruneMethod spec x wh with
        | .ok y => pure (showNeuron y)
        | .error e => pure (showErr e)
      | _ => none
    | _ => none
  | "prunemany" => do
    -- "<distal|proximal> <ids>" | table               (specification: successive single prunes)
    let (a, tb) ← split2 rest
    let t ← parseTable tb
    match words a with
    | [which, l] => do
      let cs ← intList? l
      let step ← if which == "distal" then some pruneDistal1 else if which == "proximal" then some pruneProximal1 else none
      match pruneMany step t cs with
      | some t' => pure (showTopo t')
      | none => pure "ERR"
    | _ => none
  | "rerootn" => do
    -- "<where-list>" | neuron
    match rest.splitOn "|" with
    | [a, tb, cn, tg, so] => do
      let x ← parseNeuron tb cn tg so
      let wh ← parseWhere a
      match rerootNeuron x wh with
      | .ok y => pure (showNeuron y)
      | .error e => pure (showErr e)
    | _ => none
  | "rerootg" => do
    -- "<ig|nx> <r>" | table   → the edited weighted graph (weights = Euclidean edge lengths of the input)
    let (a, tb) ← split2 rest
    let t ← parseTable tb
    match words a with
    | [be, r] => do
      let r ← r.toInt?
      let g := graphOf t (coordLen t)
      match find? t r with
      | none => pure "ERR:not-found"
      | some nr =>
        if nr.parent < 0 then pure (showWGraph g)
        else if be == "ig" then pure (showWGraph (rerootGraphIg g (rootPath t r)))
        else pure (showWGraph (rerootGraphNxAW refNxWalkSpec g r))
    | _ => none
  | "rerootok" => do
    -- "<r>" | table before | table after     → Lean-side checker on the implementation's output (`rerootOKB`)
    match rest.splitOn "|" with
    | [a, tb, ta] => do
      let r ← (trim a).toInt?
      let t ← parseTable tb
      let t' ← parseTable ta
      pure (b2s (rerootOKB t t' r))
    | _ => none
  | "subsetok" => do
    -- "<ids>" | table before | table after   → `subsetOKB`
    match rest.splitOn "|" with
    | [a, tb, ta] => do
      let s ← intList? a
      let t ← parseTable tb
      let t' ← parseTable ta
      pure (b2s (subsetOKB t t' (fun i => s.contains i)))
    | _ => none
  | "fragsok" => do
    -- "<root> <cuts>" | table | frag || frag || …   → `fragsOKB` (fragments = the specified ones, any order)
    match rest.splitOn "|" with
    | a :: tb :: fr => do
      match words a with
      | [ro, cs] => do
        let ρ ← ro.toInt?
        let cs ← intList? cs
        let t ← parseTable tb
        -- fragments are separated by "||": the split on "|" leaves empty strings between them
        let frs ← (fr.filter fun s => !(trim s).isEmpty).mapM parseTable
        pure (b2s (fragsOKB t ρ cs frs))
      | _ => none
    | _ => none
  | "graphof" => do
    let t ← parseTable rest
    pure (showWGraph (graphOf t (coordLen t)))
  | _ => none

end Navis.Drv.C10Ext
