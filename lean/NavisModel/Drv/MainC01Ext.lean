import NavisModel.Drv.C01Ext
import NavisModel.Drv.Forest
/-! Development entry point for C01 (the native `navisdrv` dispatches `f.` and `c01x.` itself). -/
def main : IO Unit := Navis.Proto.mainLoop fun head rest =>
  match head.splitOn "." with
  | ["c01x", cmd] => Navis.Drv.C01Ext.run cmd rest
  | ["f", cmd] => Navis.Drv.Forest.run cmd rest
  | _ => none
