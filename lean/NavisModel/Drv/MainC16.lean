import NavisModel.Drv.C16
/-! Development entry point: `NAVIS_DRV_MAIN=NavisModel/Drv/MainC16.lean ./check C16`. -/
def main : IO Unit := Navis.Proto.mainLoop fun head rest =>
  match head.splitOn "." with
  | ["c16", cmd] => Navis.Drv.C16.run cmd rest
  | _ => none
