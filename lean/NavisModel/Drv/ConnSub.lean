import NavisModel.Model.ConnSub
import NavisModel.Drv.Forest
import NavisModel.Drv.Proto
/-! Driver commands for `connected_subgraph` / `subset_neuron(prevent_fragments=True)` (`cs.<cmd>`, C10).
Wire format of tables as in `Drv/Forest.lean`; payload = `ids | table`. -/
namespace Navis.Drv.ConnSub
open Navis.Forest Navis.Proto Navis.Drv.Forest

def run (cmd rest : String) : Option String :=
  match cmd with
  | "connsub" => do
    -- sorted ids of the connected subgraph ` # ` sorted new roots
    let (a, tb) ← split2 rest
    let t ← parseTable tb
    let ss ← intList? a
    let r := connectedSubgraph t ss
    pure (showInts (sortedInts r.1) ++ " # " ++ showInts (sortedInts r.2))
  | "subsetpf" => do
    let (a, tb) ← split2 rest
    let t ← parseTable tb
    let ss ← intList? a
    pure (showTopo (subsetPF t ss))
  | _ => none

end Navis.Drv.ConnSub
