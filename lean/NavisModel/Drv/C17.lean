import NavisModel.Model.Flow
import NavisModel.Model.SegAnalysis
import NavisModel.Model.StrahlerFc
import NavisModel.Drv.Forest
/-! Driver commands for C17 (`c17.<cmd>`).  Tables travel in the forest wire format
(`id:parent:x:y:z[:L]`), synapses as comma separated node ids (one per synapse), columns of the
implementation as `id=value` tokens. -/
namespace Navis.Drv.C17
open Navis.Forest Navis.Flow Navis.Proto Navis.Drv.Forest

def parseMode : String → Option Mode
  | "centrifugal" => some .centrifugal
  | "centripetal" => some .centripetal
  | "sum" => some .sum
  | _ => none

def parseKV (s : String) : Option (List (Int × Nat)) :=
  (words s).mapM fun tok =>
    match tok.splitOn "=" with
    | [a, b] => do pure (← a.toInt?, ← b.toNat?)
    | _ => none

def showCol (t : Table) (f : Int → Nat) : String :=
  " ".intercalate ((sortedInts (ids t)).map fun i => s!"{i}={f i}")

def parts (s : String) : List String := (s.splitOn "|").map trim

def parseFrags (s : String) : Option (List Frag) :=
  (words s).mapM fun tok =>
    match tok.splitOn ":" with
    | [a, b] => do pure { pre := ← a.toNat?, post := ← b.toNat? }
    | _ => none

def run (cmd rest : String) : Option String :=
  match cmd with
  | "sfc" =>
    -- "mode pertree" | pre | post | table
    match parts rest with
    | [a, pr, po, tb] => do
      let t ← parseTable tb
      let pre ← intList? pr
      let post ← intList? po
      match words a with
      | [m, pt] => do
        let m ← parseMode m
        pure (showCol t (sfc t (pt == "1") m pre post))
      | _ => none
    | _ => none
  | "sfcok" =>
    -- mode | pre | post | table | id=val …   → "1" or "0 id=<node> want=<spec> got=<impl>"
    match parts rest with
    | [m, pr, po, tb, kv] => do
      let t ← parseTable tb
      let pre ← intList? pr
      let post ← intList? po
      let m ← parseMode m
      let kv ← parseKV kv
      let v := lookup kv 0
      if sfcOKB t m pre post v then pure "1"
      else
        match t.find? (fun r => v r.id != sfcSpec t m pre post r.id) with
        | some r => pure s!"0 id={r.id} want={sfcSpec t m pre post r.id} got={v r.id}"
        | none => pure "0"
    | _ => none
  | "paths" =>
    -- mode | pre | post | table   → path-count definition per node (no fork rule)
    match parts rest with
    | [m, pr, po, tb] => do
      let t ← parseTable tb
      let pre ← intList? pr
      let post ← intList? po
      let m ← parseMode m
      pure (showCol t (pathCount t m pre post))
    | _ => none
  | "distal" =>
    -- pre | post | table → id=distalPre,distalPost,treePre,treePost
    match parts rest with
    | [pr, po, tb] => do
      let t ← parseTable tb
      let pre ← intList? pr
      let post ← intList? po
      pure (" ".intercalate ((sortedInts (ids t)).map fun i =>
        s!"{i}={distalCount t pre i},{distalCount t post i},{treeCount t pre i},{treeCount t post i}"))
    | _ => none
  | "fc" =>
    -- pertree | table → id=val : flow_centrality as written
    match parts rest with
    | [pt, tb] => do
      let t ← parseTable tb
      pure (showCol t (flowCentrality t (pt == "1")))
    | _ => none
  | "tips" =>
    -- table → id=tip-pair count by the definition (per tree, no fork rule) : leafFormula true
    do
      let t ← parseTable rest
      pure (showCol t (leafFormula t true))
  | "bend" =>
    match parts rest with
    | [pr, po, tb] => do
      let t ← parseTable tb
      let pre ← intList? pr
      let post ← intList? po
      pure (showCol t (bendingFlow t pre post))
    | _ => none
  | "bendpairs" =>
    match parts rest with
    | [pr, po, tb] => do
      let t ← parseTable tb
      let pre ← intList? pr
      let post ← intList? po
      pure (showCol t (bendPairs t pre post))
    | _ => none
  | "tort" => do
    -- table → exact-edges flag # first:last:arc:chordsq …
    let t ← parseTable rest
    pure (b2s (exactEdgesB t) ++ " # " ++ " ".intercalate ((tortParts t).map fun p =>
      s!"{p.1}:{p.2.1}:{p.2.2.1}:{p.2.2.2}"))
  | "strahlerok" =>
    -- greedy | table | id=val …
    match parts rest with
    | [g, tb, kv] => do
      let t ← parseTable tb
      let kv ← parseKV kv
      let v := lookup kv 0
      let g := g == "1"
      if strahlerOKB t g v then pure "1"
      else
        match t.find? (fun r => v r.id != strahlerRule g ((children t r.id).map v)) with
        | some r => pure s!"0 id={r.id} rule={strahlerRule g ((children t r.id).map v)} got={v r.id}"
        | none => pure "0"
    | _ => none
  | "bendspec" =>
    -- pre | post | table → number of post→pre tree paths that bend at each node (`bendSpec`)
    match parts rest with
    | [pr, po, tb] => do
      let t ← parseTable tb
      let pre ← intList? pr
      let post ← intList? po
      pure (showCol t (bendSpec t pre post))
    | _ => none
  | "fcspec" =>
    -- table → tip-path count with the fork rule (`fcSpec`), and per node whether it is off the terminal twigs
    do
      let t ← parseTable rest
      pure (showCol t (fcSpec t))
  | "strahlerfc" =>
    -- "greedy ign|- mintwig" | table → navis-fastcore as observed
    match parts rest with
    | [a, tb] => do
      let t ← parseTable tb
      match words a with
      | [g, ig, mt] => do
        let ign ← if ig == "-" then some [] else intList? ig
        let mt ← mt.toNat?
        pure (showCol t (strahlerFc t (g == "1") ign mt))
      | _ => none
    | _ => none
  | "twigsok" =>
    -- "ign|- mintwig" | table | id=val …  → "1" or "0 twig=<segment>"   (eff = ign ++ shortTwigs)
    match parts rest with
    | [a, tb, kv] => do
      let t ← parseTable tb
      match words a with
      | [ig, mt] => do
        let ign ← if ig == "-" then some [] else intList? ig
        let mt ← mt.toNat?
        let eff := if mt == 0 then ign else ign ++ shortTwigs t mt
        let kv ← parseKV kv
        let v := lookup kv 0
        if ignoredTwigsOKB t eff v then pure "1"
        else
          match (smallSegments t).find? (fun s => !twigOKB t eff v s) with
          | some s => pure s!"0 twig={showInts s}"
          | none => pure "0"
      | _ => none
    | _ => none
  | "sa" =>
    -- radii (id=val, NaN omitted) | table → rows "first:last:nodes:length:chordsq:rootdist:si:radcount:radsum:radmin:radmax:vol3"
    -- sorted by first, then " # cable totalvol3"
    match parts rest with
    | [rd, tb] => do
      let t ← parseTable tb
      let kv ← (words rd).mapM fun tok =>
        match tok.splitOn "=" with
        | [a, b] => do pure ((← a.toInt?), (← b.toInt?))
        | _ => none
      let rad : Int → Option Int := fun i => (kv.find? fun p => p.1 == i).map (·.2)
      let rows := (segAnalysis t rad).toArray.qsort (fun a b => a.first < b.first) |>.toList
      pure (" ".intercalate (rows.map fun r =>
        s!"{r.first}:{r.last}:{r.nodes}:{r.length}:{r.chordSq}:{r.rootDist}:{r.si}:{r.radCount}:{r.radSum}:{r.radMin}:{r.radMax}:{r.volume3}")
        ++ s!" # {cable t (coordLen t)} {totalVolume3 t rad}")
    | _ => none
  | "seg" => do
    -- "pre:post pre:post …" → 0 | 1 | ? | none
    let fs ← parseFrags rest
    if totPre fs + totPost fs = 0 then pure "none"
    else match segExact fs with
      | some k => pure (toString k)
      | none => pure "?"
  | _ => none

end Navis.Drv.C17
