import NavisModel.Drv.C05Ext
/-! Development entry point for the C05 extension commands (the native `navisdrv` dispatches `c05x.` itself). -/
def main : IO Unit := Navis.Proto.mainLoop fun head rest =>
  match head.splitOn "." with
  | ["c05x", cmd] => Navis.Drv.C05Ext.run cmd rest
  | ["f", cmd] => Navis.Drv.Forest.run cmd rest
  | _ => none
