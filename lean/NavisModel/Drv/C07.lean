import NavisModel.Model.Swc
import NavisModel.Model.SwcText
import NavisModel.Drv.Proto
/-!
Line protocol for C07.  Sections of a payload are separated by `|`; the lines of a file travel in the
*last* section, joined by the ASCII record separator `\x1e` (so a file may contain `|`).

* numbers     : Python `repr(float)` decimals (`12.0`, `0.01`, `1e-05`, `-1.0`), integers, `nan`
* nodes       : blank separated `id:parent:x:y:z:radius:type:custom:idx`, `type ∈ r e b s`
* options     : blank separated `labels=auto|zero|column|idx:k>v,k>v` `export=0|1`
                `meta=off|default|keys:a,b|dict:k>v;k>v` `soma=<int>|N` `conn=name:label,…` `readmeta=0|1` `delim=space|comma|tab`
* skeleton    : `<nodes> | soma=a,b hasconn=0|1 pre=… post=… | k=v;k=v` (attributes as `str(getattr(x,k))`)

Commands
* `c07.table <options> | <skeleton>`                → model only: `raises=…|rows=…|map=…|valid=…|cond=…|idtopo=…|histvalid=…|wf=…` (`hist…` = the former `sort_values("parent_id")` ordering)
* `c07.file  <options> | <skeleton> | <impl node map old>new,…> | <file>` → the Lean parser on the real bytes + checkers;
  option `hdrtext=none|c:<code points>` carries the `header=` string: `textok` (bytes = header as the source spells it / the user's
  string, non-comment lines commented, newline-terminated, then `str(k) …` row lines), `hdrok` (every header line `#…` or blank), `dl` (`SwcText.dataLines` of the
  file = the row lines), `hrows`, `norows`, `hdrprops`; `c07.table` also answers `asw` (table as written = model table) and `depthsw`
* `c07.parse <options> | <file>`                    → `parse=…|ncols=…|valid=…|rows=…|props=…|soma=…|conns=…|nhdr=…`
* `c07.sanitised <options> | <file>`                → rows after `sanitise_nodes` (same parser as `c07.parse`)
* `c07.idbits <precision> <lo> <hi>`                → integer width `read_swc` gives the ID columns (`idBits`)
* `c07.depths id:parent id:parent …`                → `_node_depths` as written (`nodeDepthsW`), comma separated
* `c07.fmtcheck <fmt> | <filename> | name=cp,cp;…`  → `1`/`0`: the checker `fmtConsistentB` on the values navis extracted (code points)
* `c07.fmt <fmt> | <filename>`                      → `file:str=<name>;name:str=<…>;…` or `NOMATCH`
-/
namespace Navis.Drv.C07
open Navis.Swc Navis.Forest Navis.Proto

def b01 (b : Bool) : String := if b then "1" else "0"

def pow10 (k : Nat) : Nat := 10 ^ k

/-- digit test / value of a digit string: the definitions of `Model/SwcText.lean` (`lexInt_intChars` is proved about them) -/
def isDigits (cs : List Char) : Bool := SwcText.isDigits cs

def digitsToNat (cs : List Char) : Nat := SwcText.digitsToNat cs

def splitAtChar (p : Char → Bool) (cs : List Char) : List Char × Option (List Char) :=
  match cs.span (fun c => !p c) with
  | (a, []) => (a, none)
  | (a, _ :: b) => (a, some b)

def nanWords : List String := ["nan", "NaN", "NAN", "None", "", "NA", "N/A", "n/a", "null", "NULL", "<NA>", "#N/A", "-nan", "-NaN"]

/-- Lex one field of a data row. -/
def lexTok (s : String) : Tok :=
  let s := trim s
  if nanWords.contains s then .nan else
  let cs := s.toList
  -- integer literals: the verified lexer of `Model/SwcText.lean` (`Props.C07.int_print_lex_round_trip`)
  match SwcText.lexInt? cs with
  | some i => .int i
  | none =>
  let (neg, cs) := match cs with
    | '-' :: r => (true, r)
    | '+' :: r => (false, r)
    | _ => (false, cs)
  let (mant, exp) := splitAtChar (fun c => c == 'e' || c == 'E') cs
  let (ip, fp) := splitAtChar (· == '.') mant
  let sgn : Int := if neg then -1 else 1
  match fp, exp with
  | none, none => if isDigits ip then .int (sgn * (digitsToNat ip : Int)) else .word s
  | _, _ =>
    let fpd := fp.getD []
    if (ip.isEmpty && fpd.isEmpty) || !(ip.all Char.isDigit) || !(fpd.all Char.isDigit) then .word s else
    let m : Int := sgn * ((digitsToNat (ip ++ fpd) : Nat) : Int)
    let e? : Option Int := match exp with
      | none => some 0
      | some ('-' :: d) => if isDigits d then some (-(digitsToNat d : Int)) else none
      | some ('+' :: d) => if isDigits d then some (digitsToNat d : Int) else none
      | some d => if isDigits d then some (digitsToNat d : Int) else none
    match e? with
    | none => .word s
    | some e =>
      let sh : Int := e - (fpd.length : Int)
      if sh ≥ 0 then .num (((m * (pow10 sh.toNat : Int) : Int) : Rat))
      else .num (mkRat m (pow10 (-sh).toNat))

def lexNum? (s : String) : Option Rat := tokNum? (lexTok s)
def lexOptNum? (s : String) : Option (Option Rat) :=
  match lexTok s with
  | .nan => some none
  | t => (tokNum? t).map some

def showRat (r : Rat) : String := if r.den == 1 then toString r.num else s!"{r.num}/{r.den}"
def showOptRat : Option Rat → String
  | none => "nan"
  | some r => showRat r
def showOptInt : Option Int → String
  | none => "nan"
  | some r => toString r

/-! flat JSON object `{"k": "v", "n": 5}` → key / value-as-text -/
def skipWs : List Char → List Char
  | c :: r => if c == ' ' || c == '\t' then skipWs r else c :: r
  | [] => []

/-- read a JSON string body after the opening quote; returns (content, rest after closing quote) -/
def jsonStr : Nat → List Char → List Char → Option (List Char × List Char)
  | 0, _, _ => none
  | _ + 1, _, [] => none
  | f + 1, acc, c :: r =>
    if c == '"' then some (acc.reverse, r)
    else if c == '\\' then
      match r with
      | 'n' :: r' => jsonStr f ('\n' :: acc) r'
      | 't' :: r' => jsonStr f ('\t' :: acc) r'
      | d :: r' => jsonStr f (d :: acc) r'
      | [] => none
    else jsonStr f (c :: acc) r

def jsonPairs : Nat → List Char → Option (List (String × String))
  | 0, _ => none
  | f + 1, cs =>
    match skipWs cs with
    | '}' :: _ => some []
    | ',' :: r => jsonPairs f r
    | '"' :: r =>
      match jsonStr (r.length + 1) [] r with
      | none => none
      | some (k, r) =>
        match skipWs r with
        | ':' :: r =>
          match skipWs r with
          | '"' :: r =>
            match jsonStr (r.length + 1) [] r with
            | none => none
            | some (v, r) => (jsonPairs f r).map fun l => (String.ofList k, String.ofList v) :: l
          | '[' :: r =>
            -- a JSON list (e.g. per-axis units): kept as its text, brackets included
            let (v, rest) := r.span (fun c => c != ']')
            (jsonPairs f (rest.drop 1)).map fun l => (String.ofList k, String.ofList ('[' :: v ++ [']'])) :: l
          | r =>
            let (v, rest) := r.span (fun c => c != ',' && c != '}')
            (jsonPairs f rest).map fun l => (String.ofList k, trim (String.ofList v)) :: l
        | _ => none
    | _ => none

def parseJsonFlat (s : String) : Option (List (String × String)) :=
  match skipWs (trim s).toList with
  | '{' :: r => jsonPairs (r.length + 2) r
  | _ => none

def lowerAscii (s : String) : String := String.ofList (s.toList.map Char.toLower)

/-- cut a trailing `# comment` off a data line (`read_csv(comment='#')`) -/
def stripComment (s : String) : String := String.ofList (s.toList.takeWhile (· != '#'))

/-- Lex one physical line (`delim` is the `delimiter` passed to `read_csv`, `skipinitialspace=True`). -/
def lexLine (delim : String) (raw : String) : Line :=
  let s := String.ofList (raw.toList.filter (· != '\r'))
  if s.startsWith "#" then
    if (lowerAscii s).startsWith "# meta:" then
      match parseJsonFlat (String.ofList (s.toList.drop 7)) with
      | some kv => .props kv
      | none => .comment s
    else .comment s
  else
    let body := stripComment s
    -- an empty line is skipped; a line of blanks only (or blanks before a `#`) is a row with one empty field
    if body.isEmpty then .blank
    else
      -- `delimiter=" ", skipinitialspace=True`: runs of blanks separate fields, leading blanks are dropped, trailing
      -- blanks open one more (empty) field
      let fields := if delim == " " then
          (let ws := words body
           if ws.isEmpty then [""] else if body.endsWith " " then ws ++ [""] else ws)
        else (body.splitOn delim).map trim
      .row (fields.map lexTok)

def fileSep : String := String.singleton (Char.ofNat 0x1e)

/-- The physical lines of a payload.  The harness appends a final piece `$` so that the protocol's trimming of the request
line cannot eat a trailing `\r` / blank of the last line. -/
def rawLines (s : String) : List String :=
  let ls := s.splitOn fileSep
  if ls.getLast? == some "$" then ls.dropLast else ls

def lexFile (delim : String) (s : String) : List Line := (rawLines s).map (lexLine delim)

/-! options -/
structure O where
  op : Opts := {}
  wm : WriteMeta := .default
  cfg : ReadCfg := {}
  delim : String := " "
  /-- `header=<str>` as code points; `none` = generated header -/
  hdr : Option (List Char) := none

def parseKV (s : String) : Option (String × String) :=
  match s.splitOn ">" with
  | [k, v] => some (trim k, trim v)
  | _ => none

def parseOpt (o : O) (w : String) : Option O :=
  match w.splitOn "=" with
  | ["labels", v] =>
    if v == "auto" then some { o with op := { o.op with labels := .auto } }
    else if v == "zero" then some { o with op := { o.op with labels := .zero } }
    else if v == "column" then some { o with op := { o.op with labels := .column } }
    else if v.startsWith "idx:" then
      let b := String.ofList (v.toList.drop 4)
      let ps := if b.isEmpty then some [] else (b.splitOn ",").mapM fun t => do
        let (k, v) ← parseKV t
        pure ((← k.toInt?), (← v.toInt?))
      ps.map fun m => { o with op := { o.op with labels := .byIndex m } }
    else none
  | ["export", v] => some { o with op := { o.op with exportConn := v == "1" } }
  | ["meta", v] =>
    if v == "off" then some { o with wm := .off }
    else if v == "default" then some { o with wm := .default }
    else if v.startsWith "keys:" then
      let b := String.ofList (v.toList.drop 5)
      some { o with wm := .keys (if b.isEmpty then [] else b.splitOn ",") }
    else if v.startsWith "dict:" then
      let b := String.ofList (v.toList.drop 5)
      let ps := if b.isEmpty then some [] else (b.splitOn ";").mapM parseKV
      ps.map fun kv => { o with wm := .dict kv }
    else none
  | ["soma", v] => if v == "N" then some { o with cfg := { o.cfg with somaLabel := none } }
    else v.toInt?.map fun i => { o with cfg := { o.cfg with somaLabel := some i } }
  | ["conn", v] =>
    let ps := if v.isEmpty then some [] else (v.splitOn ",").mapM fun t =>
      match t.splitOn ":" with
      | [n, l] => l.toInt?.map fun l => (n, l)
      | _ => none
    ps.map fun c => { o with cfg := { o.cfg with connLabels := c } }
  | ["hdrtext", v] =>
    if v == "none" then some { o with hdr := none }
    else if v.startsWith "c:" then
      let b := String.ofList (v.toList.drop 2)
      let cs := if b.isEmpty then some [] else (b.splitOn ",").mapM fun t => t.toNat?.map Char.ofNat
      cs.map fun cs => { o with hdr := some cs }
    else none
  | ["readmeta", v] => some { o with cfg := { o.cfg with readMeta := v == "1" } }
  | ["delim", v] => some { o with delim := if v == "comma" then "," else if v == "tab" then "\t" else if v == "semi" then ";" else " " }
  | _ => none

def parseOpts (s : String) : Option O := (words s).foldlM parseOpt {}

def parseLabel : String → Label
  | "r" => .root | "e" => .end_ | "b" => .branch | _ => .slab

def parseSNode (s : String) : Option SNode :=
  match s.splitOn ":" with
  | [i, p, x, y, z, r, t, c, k] => do
    pure { id := ← i.toInt?, parent := ← p.toInt?, x := ← lexNum? x, y := ← lexNum? y, z := ← lexNum? z,
           radius := ← lexOptNum? r, type := parseLabel t, custom := ← c.toInt?, idx := ← k.toInt? }
  | _ => none

def parseSkel (nodes extra attrs : String) : Option Skel := do
  let ns ← (words nodes).mapM parseSNode
  let kv := (words extra).filterMap fun w => match w.splitOn "=" with | [k, v] => some (k, v) | _ => none
  let get := fun k => ((kv.find? (·.1 == k)).map (·.2)).getD ""
  let soma ← intList? (get "soma")
  let pre ← intList? (get "pre")
  let post ← intList? (get "post")
  let at_ := ((trim attrs).splitOn ";").filterMap fun w =>
    match w.splitOn "=" with
    | k :: v :: rest => some (trim k, "=".intercalate (v :: rest))
    | _ => none
  pure { nodes := ns, soma := soma, hasConn := get "hasconn" == "1", pre := pre, post := post, attrs := at_ }

def showRow (r : SwcRow) : String :=
  s!"{r.id}:{showOptInt r.label}:{showRat r.x}:{showRat r.y}:{showRat r.z}:{showOptRat r.radius}:{r.parent}"

def showRows (rs : List SwcRow) : String := " ".intercalate (rs.map showRow)

def showMap (m : List (Int × Int)) : String := ",".intercalate (m.map fun p => s!"{p.1}>{p.2}")

def showProps (kv : List (String × String)) : String := ";".intercalate (kv.map fun p => s!"{p.1}={p.2}")

/-- The condition of `historical_sortByParent_valid_iff`: every node that has a child has `parent_id < node_id`. -/
def condB (t : List SNode) : Bool :=
  t.all fun p => !(t.any fun c => c.parent == p.id) || decide (p.parent < p.id)

/-- The sufficient condition "ids assigned parent-first": every `parent_id < node_id`. -/
def idTopoB (t : List SNode) : Bool := t.all fun n => decide (n.parent < n.id)

def sortedByParentB : List SNode → Bool
  | [] => true
  | [_] => true
  | a :: b :: l => decide (a.parent ≤ b.parent) && sortedByParentB (b :: l)

/-- depths are non-decreasing along the order (depths of the *table* `t`) -/
def sortedByDepthB (t : List SNode) (o : List SNode) : Bool :=
  let ds := o.map fun n => depth t n.id
  (ds.zip ds.tail).all fun p => decide (p.1 ≤ p.2)

/-- The order of the node table induced by the implementation's node map (`none` when the map is not a
bijection of the node ids onto `1..N`). -/
def orderFromMap (t : List SNode) (m : List (Int × Int)) : Option (List SNode) :=
  let n := t.length
  if m.length != n then none else
  (List.range n).mapM fun (k : Nat) =>
    match m.filter (fun p => p.2 == ((k : Nat) : Int) + 1) with
    | [p] => match t.filter (fun nd => nd.id == p.1) with
      | [nd] => some nd
      | _ => none
    | _ => none

def parseMap (s : String) : Option (List (Int × Int)) :=
  let s := trim s
  if s.isEmpty then some [] else (s.splitOn ",").mapM fun t => do
    let (k, v) ← parseKV t
    pure ((← k.toInt?), (← v.toInt?))

def lineKind : Line → String
  | .comment _ => "c" | .props _ => "m" | .row _ => "r" | .blank => "b"

def showFile (cfg : ReadCfg) (ls : List Line) : String :=
  let rows := dataRows ls
  let ncols := match rows with | [] => 0 | r :: _ => r.length
  match readBack cfg ls with
  | none => s!"parse=0|ncols={ncols}"
  | some r =>
    s!"parse=1|ncols={ncols}|valid={b01 (swcValidB r.nodes)}|rows={showRows r.nodes}|props={showProps r.props}" ++
    s!"|soma={showOptInt r.soma}|conns={",".intercalate (r.conns.map fun c => s!"{c.1}:{c.2}")}|nhdr={(headerOf ls).length}" ++
    s!"|labint={b01 (rows.all fun ts => match ts with | _ :: (.int _) :: _ => true | _ => false)}"

/-- A line of the generated header as the source spells it (`‹expr›` = an f-string hole, matches anything) vs a line of the file. -/
def matchHoles : Nat → List Char → List Char → Bool
  | 0, _, _ => false
  | _ + 1, [], line => line.isEmpty
  | f + 1, c :: r, line =>
    if c == '‹' then
      let after := (r.dropWhile (· != '›')).drop 1
      (List.range (line.length + 1)).any fun k => matchHoles f after (line.drop k)
    else match line with
      | d :: l => c == d && matchHoles f r l
      | [] => false

/-- The row lines of the text: `n` lines, line `j` starts with `str(j+1)` and the delimiter and ends with what precedes `\n` in
`csv.writer`'s line terminator (`\r`). -/
def rowsTextOK (rest : List (List Char)) (n : Nat) : Bool :=
  rest.length == n && rest.zipIdx.all fun (l, j) =>
    (SwcText.intChars ((j : Nat) + 1 : Int) ++ Gen.Swc.writeDelimiter.toList).isPrefixOf l && SwcText.eolPre.isSuffixOf l

/-- lex a `fmt` pattern: literal text and `{…}` groups (`{a,b:type}` → fields with optional type) -/
def lexFmt (fuel : Nat) (cs : List Char) (lit : List Char) (acc : List Seg) : List Seg :=
  match fuel with
  | 0 => acc.reverse
  | fuel + 1 =>
    match cs with
    | [] => (if lit.isEmpty then acc else (.lit lit.reverse :: acc)).reverse
    | '{' :: r =>
      let (inner, after) := r.span (· != '}')
      match after with
      | [] => lexFmt fuel r ('{' :: lit) acc     -- no closing brace: literal
      | _ :: after' =>
        let acc := if lit.isEmpty then acc else (.lit lit.reverse :: acc)
        let body := String.ofList (inner.filter (· != ' '))
        let fields := (body.splitOn ",").filterMap fun p =>
          if p.isEmpty then none else
          match p.splitOn ":" with
          | [n] => some (n, none)
          | [n, t] => some (n, some t)
          | _ => some (p, some "?")
        lexFmt fuel after' [] (.grp fields :: acc)
    | c :: r => lexFmt fuel r (c :: lit) acc

def lexFmtStr (fmt : String) : List Seg := lexFmt (fmt.length + 2) fmt.toList [] []

def splitN (s : String) (n : Nat) : List String :=
  -- split at the first `n` bars only
  let parts := s.splitOn "|"
  parts.take n ++ (if parts.length > n then ["|".intercalate (parts.drop n)] else [])

def run (cmd rest : String) : Option String :=
  match cmd with
  | "table" => match rest.splitOn "|" with
    | [o, nodes, extra, attrs] => do
      let o ← parseOpts o
      let sk ← parseSkel nodes extra attrs
      let tb := makeSwcTable o.op sk
      let th := makeSwcTableHist o.op sk
      pure (s!"raises={b01 (writeRaises o.op sk)}|rows={showRows tb}|map={showMap (nodeMap sk)}|valid={b01 (swcValidB tb)}" ++
        s!"|asw={b01 (makeSwcTableW o.op sk == tb)}|depthsw={showInts (nodeDepthsW sk.nodes)}" ++
        s!"|cond={b01 (condB sk.nodes)}|idtopo={b01 (idTopoB sk.nodes)}|histvalid={b01 (swcValidB th)}" ++
        s!"|wf={b01 (wfB (forest sk.nodes))}")
    | _ => none
  | "file" => match splitN rest 5 with
    | [o, nodes, extra, attrs, mp, file] => do
      let o ← parseOpts o
      let sk ← parseSkel nodes extra attrs
      let m ← parseMap mp
      let ls := lexFile o.delim file
      let base := showFile o.cfg ls
      -- header option: generated (with `write_meta`) or the user's string, lexed line by line
      let raw := (rawLines file).map (·.toList)
      let n := sk.nodes.length
      let metaWritten := (metaProps o.wm sk).isSome
      let (hlText, textHdrOK) : List (List Char) × Bool := match o.hdr with
        | some h =>
          let hl := SwcText.lines (SwcText.headerText h)
          (hl, raw.take hl.length == hl)
        | none =>
          let pats := (Gen.Swc.genericHeaderLines.zip Gen.Swc.genericHeaderGates).filterMap fun (l, g) =>
            if g == "" || (g == "write_meta" && metaWritten) || (g == "export_connectors" && o.op.exportConn) then some l.toList else none
          let got := raw.take pats.length
          (got, got.length == pats.length && (pats.zip got).all fun (p, l) => matchHoles (p.length + 1) p l)
      let rest := raw.drop hlText.length
      let textok := textHdrOK && rowsTextOK rest n
      let hdrok := hlText.all fun l => SwcText.isHdr l || SwcText.isBlank l
      let dl := SwcText.dataLines raw == rest
      let hrows := SwcText.hdrRows raw == SwcText.hdrRows hlText
      let hd : Header := match o.hdr with
        | some _ => .custom (hlText.map fun l => lexLine o.delim (String.ofList l))
        | none => .generated o.wm
      let hdrModel := headerFor hd o.op sk
      let hdrOK := (headerOf ls).map lineKind == (headerOf hdrModel).map lineKind && metaOf ls == metaOf hdrModel
      let agree := match orderFromMap sk.nodes m, parseSwc ls with
        | some ord, some f =>
          s!"mapok=1|sorted={b01 (sortedByDepthB sk.nodes ord)}|parentsorted={b01 (sortedByParentB ord)}|agree={b01 (f.rows == finish (labelOf o.op sk) ord)}" ++
          s!"|mapagree={b01 (m.all fun p => newId ord p.1 == p.2)}|stable={b01 (ord == sortByDepth sk.nodes)}" ++
          s!"|rt={b01 (some f.rows == (parseSwc (writeH hd o.op sk ord)).map (·.rows))}"
        | none, _ => "mapok=0"
        | _, none => "mapok=1|agree=0"
      pure (base ++ s!"|hdr={b01 hdrOK}|textok={b01 textok}|hdrok={b01 hdrok}|dl={b01 dl}|hrows={b01 hrows}|norows={b01 (noRows hdrModel)}" ++
        s!"|hdrprops={showProps ((metaOf hdrModel).getD [])}|cond={b01 (condB sk.nodes)}|wf={b01 (wfB (forest sk.nodes))}|" ++ agree)
    | _ => none
  | "idbits" =>
    -- `<precision> <lo> <hi>` → the integer width of the ID columns
    match (words rest).map String.toInt? with
    | [some p, some lo, some hi] => some (toString (idBits p.toNat lo hi))
    | _ => none
  | "depths" =>
    -- `_node_depths(ids, parents)` as written, on any table (`id:parent` tokens; cycles / dangling parents allowed)
    let toks := words rest
    (toks.mapM fun (w : String) => match w.splitOn ":" with
      | [i, p] => match i.toInt?, p.toInt? with
        | some i, some p => some ({ id := i, parent := p } : SNode)
        | _, _ => none
      | _ => none).map fun t => showInts (nodeDepthsW t)
  | "parse" => match splitN rest 1 with
    | [o, file] => do
      let o ← parseOpts o
      pure (showFile o.cfg (lexFile o.delim file))
    | _ => none
  | "sanitised" => match splitN rest 1 with
    | [o, file] => do
      let o ← parseOpts o
      match parseSwc (lexFile o.delim file) with
      | some f => pure s!"ok=1|rows={showRows f.rows}"
      | none => pure "ok=0"
    | _ => none
  | "fmt" => match splitN rest 1 with
    | [fmt, name] =>
      match matchFmt (lexFmtStr (trim fmt)) (trim name) with
      | none => some "NOMATCH"
      | some ps => some (";".intercalate (ps.map fun p => s!"{p.1}:{p.2.1}={p.2.2}"))
    | _ => none
  | "fmtcheck" =>
    -- `<fmt> | <filename> | name=c,c,c;name=c,c` : the proved checker `fmtConsistentB` on navis' own `parse_filename` values
    match splitN rest 2 with
    | [fmt, name, vals] =>
      let kv : Option (List (String × List Char)) := if (trim vals).isEmpty then some [] else
        ((trim vals).splitOn ";").mapM fun (t : String) => match t.splitOn "=" with
          | [k, v] => (if v.isEmpty then some [] else (v.splitOn ",").mapM fun (c : String) => c.toNat?.map Char.ofNat).map fun cs => (k, cs)
          | _ => none
      kv.map fun kv => b01 (fmtConsistentB (lexFmtStr (trim fmt)) (fun nm => (kv.find? (·.1 == nm)).map (·.2)) (trim name).toList)
    | _ => none
  | _ => none

end Navis.Drv.C07
