import NavisModel.Drv.Proto
import NavisModel.Model.Forest
/-! Extension commands for C05 (line protocol prefix `c05x.`). -/
namespace Navis.Drv.C05Ext

def run (cmd _rest : String) : Option String :=
  match cmd with
  | "ping" => some "pong-c05x"
  | _ => none

end Navis.Drv.C05Ext
