import NavisModel.Drv.Proto
import NavisModel.Drv.Forest
import NavisModel.Model.DistGen
import NavisModel.Model.MeshGeo
/-! Extension commands for C05 (line protocol prefix `c05x.`): the as-written models of `Model/DistX.lean`
instantiated with the facts extracted from the current navis source (`Model/DistGen.lean`). -/
namespace Navis.Drv.C05Ext
open Navis.Forest Navis.Proto Navis.DistX Navis.Drv.Forest

def parseLimit : String → Option LimitV
  | "none" => some .pyNone
  | "npinf" => some .npInf
  | "inf" => some .otherInf
  | s => s.toNat?.map .num

/-- `*` (not given), `s:<id>` (scalar), `l:<ids>` (list / array) -/
def parseFrom (s : String) : Option FromV :=
  if s == "*" then some .none
  else match s.splitOn ":" with
    | ["s", i] => i.toInt?.map .scalar
    | ["l", l] => (intList? l).map .list
    | _ => none

def showOpt : Option Nat → String
  | some x => toString x
  | none => "inf"

def showB (b : Bool) : String := if b then "1" else "0"

/-- rows in the frame's own order, then the entries under sorted row labels × sorted column labels -/
def showLMat {α : Type} (sh : α → String) (m : LMat α) : String :=
  let rs := sortedInts m.rows
  let cs := sortedInts m.cols
  s!"rows={showInts m.rows} cols={showInts m.cols} # " ++
  " ".intercalate (rs.map fun r => s!"{r}=" ++ ",".intercalate (cs.map fun c => match m.get? r c with | some v => sh v | none => "?"))

def lenOf (t : Table) (w : String) : Int → Int → Nat := if w == "1" then coordLen t else fun _ _ => 1

def split3 (s : String) : Option (String × String × String) :=
  match s.splitOn "|" with
  | [a, b, c] => some (trim a, trim b, trim c)
  | _ => none

def parseEdges (s : String) : Option (List (Nat × Nat × Nat)) :=
  (words s).mapM fun e => match e.splitOn ":" with
    | [a, b, w] => do pure ((← a.toNat?), (← b.toNat?), (← w.toNat?))
    | _ => none

def run (cmd rest : String) : Option String :=
  match cmd with
  | "ping" => some "pong-c05x"
  | "geow" => do
    -- "fc|sp directed weighted limit from" | table
    let (a, tb) ← split2 rest
    let t ← parseTable tb
    match words a with
    | [br, d, w, lim, fr] => do
      let cfg? := if br == "fc" then fcCfg? else spCfg?
      match cfg? with
      | none => pure "ERR:cfg"
      | some cfg =>
        let lim ← parseLimit lim
        let fr ← parseFrom fr
        match geoMatW cfg t (coordLen t) (w == "1") (d == "1") lim fr with
        | none => pure "ERR:not-present"
        | some m => pure (showLMat showOpt m)
    | _ => none
  | "sentinel" => do
    -- raw accelerator entries → decoded
    let raws ← intList? rest
    match fcSentinel? with
    | none => pure "ERR:cfg"
    | some (c, k) => pure (",".intercalate (raws.map fun r => showOpt (decodeFc c k r)))
  | "adjw" => do
    let t ← parseTable rest
    match adjCmp? with
    | none => pure "ERR:cfg"
    | some (c, k) =>
      if !adjShapeOK then pure "ERR:shape" else
      let m := adjMatW c k t
      let is := sortedInts (ids t)
      pure (s!"rows={showInts m.rows} cols={showInts m.cols} # " ++
        " ".intercalate (is.flatMap fun a => (is.filter fun b => m.get? a b == some true).map fun b => s!"{a}>{b}"))
  | "distal" => do
    -- "A ; B" | table   (A, B in the `from` syntax)
    let (a, tb) ← split2 rest
    let t ← parseTable tb
    match a.splitOn ";" with
    | [x, y] => do
      let A ← parseFrom (trim x)
      let B ← parseFrom (trim y)
      let m := distalW t A B
      match distalOut m with
      | .inl v => pure s!"S:{showB v}"
      | .inr m => pure (showLMat showB m)
    | _ => none
  | "distroot" => do
    -- "weighted idx" | table
    let (a, tb) ← split2 rest
    let t ← parseTable tb
    match words a with
    | [w, ix] =>
      let len := lenOf t w
      let d := if ix == "1" then distToRootIdxW t len else distToRootW t len
      let keys := sortedInts (Navis.Forest.dedup (d.map (·.1)))
      pure (" ".intercalate (keys.map fun k => s!"{k}={showOpt (dictGet d k)}"))
    | _ => none
  | "pdist" => do
    -- "nan|<n>" | table
    let (a, tb) ← split2 rest
    let t ← parseTable tb
    let rd ← if a == "nan" then some none else a.toNat?.map some
    match adjCmp? with
    | none => pure "ERR:cfg"
    | some (c, k) => pure (",".intercalate ((parentDistW c k t (coordLen t) rd).map fun o => match o with | some v => toString v | none => "nan"))
  | "cablemask" => do
    -- "0101…" | table
    let (a, tb) ← split2 rest
    let t ← parseTable tb
    let mask := a.toList.map (· == '1')
    match adjCmp? with
    | none => pure "ERR:cfg"
    | some (c, k) => pure (toString (cableMaskedW c k t (coordLen t) mask))
  | "seglen" => do
    -- "weighted" | table | segs   (weighted is always 1 in navis; 0 counts edges)
    let (a, tb, sg) ← split3 rest
    let t ← parseTable tb
    let segs ← parseSegs sg
    let len := lenOf t a
    pure (",".intercalate (segs.map fun s => match segLenW t len s with | some v => toString v | none => "ERR"))
  | "segsw" => do
    let (a, tb) ← split2 rest
    let t ← parseTable tb
    let len := lenOf t a
    match segCfg? with
    | none => pure "ERR:cfg"
    | some c =>
      let ss := segmentsW c t len
      pure (showSegs ss ++ " # " ++ ",".intercalate ((ss.map (pathLen len)).map toString))
  | "smallsegsw" => do
    let t ← parseTable rest
    match brkSeeds?, brkStops? with
    | some sd, some st => if brkShapeOK then pure (showSegs (canonSegs (smallSegmentsW sd st t))) else pure "ERR:shape"
    | _, _ => pure "ERR:cfg"
  | "shapes" => some s!"{showB pointShapeOK} {showB weightShapeOK} {showB viewsOK} {showB brkShapeOK} {showB adjShapeOK}"
  | "meshgeo" => do
    -- "n limit from" | edges a:b:w …   → rows from (sorted) × all vertices
    let (a, eg) ← split2 rest
    let es ← parseEdges eg
    match words a with
    | [n, lim, fr] => do
      let n ← n.toNat?
      let lim ← parseLimit lim
      let fr ← parseFrom fr
      let rows := match fr with
        | .none => List.range n
        | f => (npUnique f.toList).map Int.toNat
      pure (" ".intercalate (rows.map fun s => s!"{s}=" ++ ",".intercalate ((Navis.MeshGeo.sssp n es s).map fun d => showOpt (applyLimit lim.toOpt d))))
    | _ => none
  | _ => none

end Navis.Drv.C05Ext
