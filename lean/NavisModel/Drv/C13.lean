import NavisModel.Model.Resample
import NavisModel.Model.Sampling
import NavisModel.Drv.Forest
import NavisModel.Drv.Proto
/-!
Line protocol for C13 (sections separated by ` | `; tables in the forest wire format
`id:parent:x:y:z[:L]`; rationals `n` or `n/d`).

* `c13.resample <res> | <table> | <id=r,id=r,…>` →
  `exact=<0|1> max=<maxId> # first,last,k,base,collapsed,total@p p p … ; …`
  one entry per small segment (sorted by `first`), `p = x,y,z,r` the sampled points at positions
  `0 … k` of `np.linspace(0,total,k+2)` (the first anchor and the `k` fresh nodes).  `exact=1` iff every
  edge of the table has an integer Euclidean length (then `total` is the true arc length).
* `c13.struct <res> | <table>` → canonical topology of `resampleStruct` (the model's own fresh ids) and its `wfB`.
* `c13.nearest <tol> | <x,y,z x,y,z …> | <id:x,y,z …>` → for every query the admissible ids `a,b;c;…`
* `c13.dscheck <f|inf> <fix ids,> | <t> | <u>` → `1|0` (`dsCheck`)
* `c13.round <q>` → `roundHalfEven q`;  `c13.count <total> <res>` → `none | n`
* `c13.dsg <q|inf> <pres ids,|-|none> <soma ids,|-> | <t>` (`none` = `preserve_nodes=None`, `-` = empty) → `ERR:value` (factor ≤ 1) or the canonical topology of
  `downsampleNeuronG`/`downsampleG walkRule0` (the as-written model: float factor, `preserve_nodes=None`, soma list)
  followed by ` # ` and the topology of `downsample t ⌊q⌋ (pres ++ soma)` (equal by `Props.C13.gen_downsample_is_model`)
* `c13.attach <tol> | <old id:x,y,z …> | <new id:x,y,z …> | <somaA>/<somaB> | <connA>/<connB> | <tagsA>/<tagsB>` with
  lists `i,j,…` (`-` = None) and tags `name=i,j;name=…` → `exact=<attachOKB> tol=<tolerant> model=<reattachG = B> ties=<n>`
* `c13.nearestidx <d0,d1,…> | <s s …>` → per `s` the admissible knot indices of `kind='nearest'` (`j` or `j,j+1` half-way)
* `c13.interpcol <d0,d1,…> | <v0,v1,…> | <s s …>` → `interpCol` per `s`
-/
namespace Navis.Drv.C13
open Navis.Forest Navis.Resample Navis.Proto Navis.Drv.Forest Navis.Sampling

def parseRat (s : String) : Option Rat :=
  match (trim s).splitOn "/" with
  | [n] => (trim n).toInt?.map fun i => (i : Rat)
  | [n, d] => do
    let n ← (trim n).toInt?; let d ← (trim d).toNat?
    if d == 0 then none else pure ((n : Rat) / (d : Rat))
  | _ => none

def showRat (r : Rat) : String := if r.den == 1 then toString r.num else s!"{r.num}/{r.den}"

def showPt (p : Pt) : String := s!"{showRat p.x},{showRat p.y},{showRat p.z},{showRat p.r}"

def parseRadii (s : String) : Option (List (Int × Rat)) :=
  let s := trim s
  if s.isEmpty || s == "-" then some [] else
  (s.splitOn ",").mapM fun e =>
    match e.splitOn "=" with
    | [i, r] => do pure (← (trim i).toInt?, ← parseRat r)
    | _ => none

def radiusOf (rad : List (Int × Rat)) (i : Int) : Rat :=
  match rad.find? (fun e => e.1 == i) with
  | some e => e.2
  | none => 0

def ptOf (t : Table) (rad : List (Int × Rat)) (i : Int) : Pt :=
  match find? t i with
  | some n => ⟨n.x, n.y, n.z, radiusOf rad i⟩
  | none => default

def exactEdges (t : Table) : Bool :=
  t.all fun n => isRootNode n || (match find? t n.parent with
    | some p => isqrt (sqDist n p) * isqrt (sqDist n p) == sqDist n p
    | none => true)

def parseQ (s : String) : Option Pt :=
  match (trim s).splitOn "," with
  | [a, b, c] => do pure ⟨← parseRat a, ← parseRat b, ← parseRat c, 0⟩
  | _ => none

def parseIdPt (s : String) : Option (Int × Pt) :=
  match (trim s).splitOn ":" with
  | [i, p] => do pure (← (trim i).toInt?, ← parseQ p)
  | _ => none

def b2s (b : Bool) : String := if b then "1" else "0"

def parseRats (s : String) : Option (List Rat) :=
  let s := trim s
  if s.isEmpty || s == "-" then some [] else (s.splitOn ",").mapM parseRat

/-- `-` = None, empty = `[]`. -/
def parseOptInts (s : String) : Option (Option (List Int)) :=
  let s := trim s
  if s == "-" then some none else (intList? s).map some

def parseTags (s : String) : Option (Option (List (String × List Int))) :=
  let s := trim s
  if s == "-" then some none
  else if s.isEmpty then some (some [])
  else ((s.splitOn ";").mapM fun (e : String) =>
    match e.splitOn "=" with
    | [k, v] => (intList? v).map fun l => (trim k, l)
    | _ => none).map some

def parsePair (s : String) : Option (String × String) :=
  match s.splitOn "/" with
  | [a, b] => some (trim a, trim b)
  | _ => none

def attachIds (a : Attach) : List Int :=
  (a.soma.getD []) ++ (a.conn.getD []) ++ ((a.tags.getD []).flatMap (·.2))

def tolListB (tol : Rat) (old new : List (Int × Pt)) (a b : List Int) : Bool :=
  a.length == b.length && (a.zip b).all fun e => nearestTolB tol old new e.1 e.2

def attachTolB (tol : Rat) (old new : List (Int × Pt)) (a b : Attach) : Bool :=
  (match a.soma, b.soma with
    | none, none => true
    | some x, some y => tolListB tol old new x y
    | _, _ => false) &&
  (match a.conn, b.conn with
    | none, none => true
    | some x, some y => tolListB tol old new x y
    | _, _ => false) &&
  (match a.tags, b.tags with
    | none, none => true
    | some x, some y => x.length == y.length && (x.zip y).all fun e => e.1.1 == e.2.1 && tolListB tol old new e.1.2 e.2.2
    | _, _ => false)

def run (cmd rest : String) : Option String :=
  match cmd with
  | "resample" =>
    match rest.splitOn "|" with
    | [a, tb, rd] => do
      let res ← parseRat a
      let t ← parseTable tb
      let rad ← parseRadii rd
      let len := coordLen t
      let segs := smallSegments t
      let pl := planOf t (cntOf len res)
      let entries := (segs.zip pl).map fun (s, o) =>
        let total : Rat := ((pathLen len s : Nat) : Rat)
        let ks := segKnots (ptOf t rad) len s
        let collapsed := (cntOf len res s).isNone
        let pts := (List.range (o.k + 1)).map fun j => polyAt ks (samplePos total o.k j)
        (o.first, s!"{o.first},{o.last},{o.k},{o.base},{b2s collapsed},{showRat total}@" ++ " ".intercalate (pts.map showPt))
      let entries := entries.toArray.qsort (fun a b => a.1 < b.1) |>.toList
      pure (s!"exact={b2s (exactEdges t)} max={maxId t} # " ++ " ; ".intercalate (entries.map (·.2)))
    | _ => none
  | "struct" => do
    let (a, tb) ← split2 rest
    let res ← parseRat a
    let t ← parseTable tb
    let u := resampleStruct t (cntOf (coordLen t) res)
    pure (s!"{b2s (wfB u)} {b2s (labelsOKB u)} # " ++ showTopo u)
  | "nearest" =>
    match rest.splitOn "|" with
    | [a, qs, ns] => do
      let tol ← parseRat a
      let qs ← (words qs).mapM parseQ
      let ns ← (words ns).mapM parseIdPt
      pure (";".intercalate (qs.map fun q => showInts (nearestAll ns q tol)))
    | _ => none
  | "dscheck" =>
    match rest.splitOn "|" with
    | [a, tb, ub] => do
      let (f, fix) ← match words a with
        | [f] => some (f, "")
        | [f, fx] => some (f, fx)
        | _ => none
      let f ← if f == "inf" then some none else f.toNat?.map some
      let fix ← intList? fix
      let t ← parseTable tb
      let u ← parseTable ub
      pure (b2s (dsCheck t u f fix))
    | _ => none
  | "dsg" =>
    match rest.splitOn "|" with
    | [a, tb] => do
      let (q, pres, soma) ← match words a with
        | [q, p, s] => some (q, p, s)
        | _ => none
      let q ← if q == "inf" then some none else (parseRat q).map some
      let pres ← if pres == "none" then some none else if pres == "-" then some (some []) else (intList? pres).map some
      let soma ← if soma == "-" then some [] else intList? soma
      let t ← parseTable tb
      match downsampleNeuronG .le 1 walkRule0 t q pres soma with
      | none => pure "ERR:value"
      | some u =>
        pure (showTopo u ++ " # " ++ showTopo (downsample t (q.map floorNat) (pres.getD [] ++ soma)))
    | _ => none
  | "attach" =>
    match rest.splitOn "|" with
    | [a, od, nw, so, co, tg] => do
      let tol ← parseRat a
      let old ← (words od).mapM parseIdPt
      let new ← (words nw).mapM parseIdPt
      let (sa, sb) ← parsePair so
      let (ca, cb) ← parsePair co
      let (ta, tb) ← parsePair tg
      let A : Attach := { soma := ← parseOptInts sa, conn := ← parseOptInts ca, tags := ← parseTags ta }
      let B : Attach := { soma := ← parseOptInts sb, conn := ← parseOptInts cb, tags := ← parseTags tb }
      let M := reattachG attachRule0 old new A
      let ties := ((attachIds A).filter fun i => !(uniqueNearestB tol old new i)).length
      pure s!"exact={b2s (attachOKB old new A B)} tol={b2s (attachTolB tol old new A B)} model={b2s (decide (M = B))} ties={ties}"
    | _ => none
  | "nearestidx" => do
    let (a, b) ← split2 rest
    let ds ← parseRats a
    let ss ← (words b).mapM parseRat
    pure (" ".intercalate (ss.map fun s => showNats (nearestIdxSet ds s)))
  | "interpcol" =>
    match rest.splitOn "|" with
    | [a, b, c] => do
      let ds ← parseRats a
      let vs ← parseRats b
      let ss ← (words c).mapM parseRat
      pure (" ".intercalate (ss.map fun s => showRat (interpCol ds vs s)))
    | _ => none
  | "round" => do
    let q ← parseRat rest
    pure (toString (roundHalfEven q))
  | "count" =>
    match words rest with
    | [a, b] => do
      let total ← parseRat a; let res ← parseRat b
      pure (match sampleCount total res with | none => "none" | some n => toString n)
    | _ => none
  | _ => none

end Navis.Drv.C13
