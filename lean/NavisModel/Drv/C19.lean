import NavisModel.Model.Voxel
import NavisModel.Drv.Proto
/-!
Line protocol for C19.  Rationals are `n` or `n/d`; a 3-vector is `a,b,c`; lists of vectors use `;`; sections `|`.

* `c19.round q;q;…`                       → `i,i,…`                       (`roundHalfEven`)
* `c19.vox pitch | lo | hi | u | pts`     → `shape=a,b,c|off=…|units=…|ix=i,j,k;…|filled=i,j,k;…|counts=i,j,k,n;…`
                                             `|vcells=i,j,k;…|sum=n|inside=n|inb=n|cover=0/1|insideB=0/1`
* `c19.check pitch | lo | hi | u | pts | F` → `cover=0/1 inside=0/1`  (the proved checkers on navis' own voxel list `F`)
* `c19.tan id,parent,x,y,z;…`             → `px,py,pz,vx,vy,vz,len2;…` or `ERR:KeyError`
* `c19.kclip n k`                         → `min n k`
* `c19.alpha s1 s2 s3`                    → rational (`0` when the sum is not positive)
-/
namespace Navis.Drv.C19
open Navis.Voxel Navis.Proto

def parseRat (s : String) : Option Rat :=
  match (trim s).splitOn "/" with
  | [n] => (trim n).toInt?.map fun i => (i : Rat)
  | [n, d] => do
    let n ← (trim n).toInt?; let d ← (trim d).toNat?
    if d == 0 then none else pure ((n : Rat) / (d : Rat))
  | _ => none

def showRat (r : Rat) : String := if r.den == 1 then toString r.num else s!"{r.num}/{r.den}"

def parseP3 (s : String) : Option P3 :=
  match (trim s).splitOn "," with
  | [a, b, c] => do
    let a ← parseRat a; let b ← parseRat b; let c ← parseRat c
    pure ⟨a, b, c⟩
  | _ => none

def parseI3 (s : String) : Option I3 :=
  match (trim s).splitOn "," with
  | [a, b, c] => do
    let a ← (trim a).toInt?; let b ← (trim b).toInt?; let c ← (trim c).toInt?
    pure ⟨a, b, c⟩
  | _ => none

def parseList {α : Type} (f : String → Option α) (s : String) : Option (List α) :=
  let s := trim s
  if s.isEmpty then some [] else (s.splitOn ";").mapM f

def showP3 (p : P3) : String := s!"{showRat p.x},{showRat p.y},{showRat p.z}"
def showI3 (v : I3) : String := s!"{v.x},{v.y},{v.z}"
def b01 (b : Bool) : String := if b then "1" else "0"

def parseRow (s : String) : Option Row :=
  match (trim s).splitOn "," with
  | [i, p, x, y, z] => do
    let i ← (trim i).toInt?; let p ← (trim p).toInt?
    let x ← parseRat x; let y ← parseRat y; let z ← parseRat z
    pure ⟨i, p, ⟨x, y, z⟩⟩
  | _ => none

def showTangent (t : Tangent) : String := s!"{showP3 t.point},{showP3 t.vec},{showRat t.len2}"

def parseGrid (pitch lo hi u : String) : Option Grid := do
  let pitch ← parseP3 pitch; let lo ← parseP3 lo; let hi ← parseP3 hi; let u ← parseP3 u
  pure ⟨pitch, lo, hi, u⟩

def runVox (g : Grid) (pts : List P3) : String :=
  let cs := counts g pts
  let F := filled g pts
  s!"shape={showI3 (shape g)}|off={showP3 (gridOffset g)}|units={showP3 (gridUnits g)}" ++
  s!"|ix={";".intercalate ((pts.map (voxIx g)).map showI3)}" ++
  s!"|filled={";".intercalate (F.map showI3)}" ++
  s!"|counts={";".intercalate (cs.map fun e => s!"{showI3 e.1},{e.2}")}" ++
  s!"|vcells={";".intercalate ((vectorCells g pts).map showI3)}" ++
  s!"|sum={gridSum cs}|inside={nInside g pts}|inb={(pts.filter (inBounds g)).length}" ++
  s!"|cover={b01 (coversB g pts F)}|insideB={b01 (insideB g F)}"

def run (cmd : String) (rest : String) : Option String :=
  match cmd with
  | "round" => do
    let qs ← parseList parseRat rest
    pure (showInts (qs.map roundHalfEven))
  | "vox" => match rest.splitOn "|" with
    | [pitch, lo, hi, u, pts] => do
      let g ← parseGrid pitch lo hi u
      let pts ← parseList parseP3 pts
      pure (runVox g pts)
    | _ => none
  | "check" => match rest.splitOn "|" with
    | [pitch, lo, hi, u, pts, F] => do
      let g ← parseGrid pitch lo hi u
      let pts ← parseList parseP3 pts
      let F ← parseList parseI3 F
      pure s!"cover={b01 (coversB g pts F)} inside={b01 (insideB g F)}"
    | _ => none
  | "tan" => do
    let rows ← parseList parseRow rest
    match tangents rows with
    | none => pure "ERR:KeyError"
    | some ts => pure (";".intercalate (ts.map showTangent))
  | "kclip" => match words rest with
    | [n, k] => do
      let n ← n.toNat?; let k ← k.toNat?
      pure (toString (kClip n k))
    | _ => none
  | "alpha" => match words rest with
    | [a, b, c] => do
      let a ← parseRat a; let b ← parseRat b; let c ← parseRat c
      pure (showRat (alpha a b c))
    | _ => none
  | _ => none

end Navis.Drv.C19
