import NavisModel.Model.Voxel
import NavisModel.Model.Dotprops
import NavisModel.Drv.Proto
/-!
Line protocol for C19.  Rationals are `n` or `n/d`; a 3-vector is `a,b,c`; lists of vectors use `;`; sections `|`.

* `c19.round q;q;…`                       → `i,i,…`                       (`roundHalfEven`)
* `c19.vox pitch | lo | hi | u | pts`     → `shape=a,b,c|off=…|units=…|ix=i,j,k;…|filled=i,j,k;…|counts=i,j,k,n;…`
                                             `|vcells=i,j,k;…|sum=n|inside=n|inb=n|cover=0/1|insideB=0/1`
* `c19.check pitch | lo | hi | u | pts | F` → `cover=0/1 inside=0/1`  (the proved checkers on navis' own voxel list `F`)
* `c19.tan id,parent,x,y,z;…`             → `px,py,pz,vx,vy,vz,len2;…` or `ERR:KeyError`
* `c19.kclip n k`                         → `min n k`
* `c19.alpha s1 s2 s3`                    → rational (`0` when the sum is not positive)

Second pass (exact checkers of `Model/Dotprops.lean`, proved sound in `Props/C19`, evaluated on navis' own output):
* `c19.dots k εu εv εa | pts | vects | alphas` → `k=<kClip>|n=<points>|v=<verdict>;…`  (`amb` = neighbourhood not determined)
* `c19.knn k | p | pts`                   → `nb=x,y,z;…|amb=0/1`
* `c19.voxvec pitch | lo | hi | u | pts | i,j,k,vx,vy,vz,a;… | εu εv εa` → `v=<verdict>;…|n=<points per cell>,…`
* `c19.tancheck ε | rows | vx,vy,vz,L;…`  → `ok=0/1,…|sign=±1,…|n=<tangents>` or `ERR:KeyError`
* `c19.checkat pitch | lo | hi | u | off | units | pts | F` → `cover=0/1 sourced=0/1` (navis' *reported* offset / units)
* `c19.vmapidx nV nNodes | vm | need`     → `ok=0/1 covers=0/1`
* `c19.vmapid nV | vm | ids`              → `ok=0/1`
* `c19.bbox tol | V | P`                  → `ok=0/1`
* `c19.surf tol | off | units | shape | V | F` → `hugs=0/1 extent=0/1`
* `c19.mapunits q factor umag`            → `<pitch in neuron units> <reported voxel size>`
-/
namespace Navis.Drv.C19
open Navis.Voxel Navis.Proto

def parseRat (s : String) : Option Rat :=
  match (trim s).splitOn "/" with
  | [n] => (trim n).toInt?.map fun i => (i : Rat)
  | [n, d] => do
    let n ← (trim n).toInt?; let d ← (trim d).toNat?
    if d == 0 then none else pure ((n : Rat) / (d : Rat))
  | _ => none

def showRat (r : Rat) : String := if r.den == 1 then toString r.num else s!"{r.num}/{r.den}"

def parseP3 (s : String) : Option P3 :=
  match (trim s).splitOn "," with
  | [a, b, c] => do
    let a ← parseRat a; let b ← parseRat b; let c ← parseRat c
    pure ⟨a, b, c⟩
  | _ => none

def parseI3 (s : String) : Option I3 :=
  match (trim s).splitOn "," with
  | [a, b, c] => do
    let a ← (trim a).toInt?; let b ← (trim b).toInt?; let c ← (trim c).toInt?
    pure ⟨a, b, c⟩
  | _ => none

def parseList {α : Type} (f : String → Option α) (s : String) : Option (List α) :=
  let s := trim s
  if s.isEmpty then some [] else (s.splitOn ";").mapM f

def showP3 (p : P3) : String := s!"{showRat p.x},{showRat p.y},{showRat p.z}"
def showI3 (v : I3) : String := s!"{v.x},{v.y},{v.z}"
def b01 (b : Bool) : String := if b then "1" else "0"

def parseRow (s : String) : Option Row :=
  match (trim s).splitOn "," with
  | [i, p, x, y, z] => do
    let i ← (trim i).toInt?; let p ← (trim p).toInt?
    let x ← parseRat x; let y ← parseRat y; let z ← parseRat z
    pure ⟨i, p, ⟨x, y, z⟩⟩
  | _ => none

def showTangent (t : Tangent) : String := s!"{showP3 t.point},{showP3 t.vec},{showRat t.len2}"

def parseGrid (pitch lo hi u : String) : Option Grid := do
  let pitch ← parseP3 pitch; let lo ← parseP3 lo; let hi ← parseP3 hi; let u ← parseP3 u
  pure ⟨pitch, lo, hi, u⟩

def runVox (g : Grid) (pts : List P3) : String :=
  let cs := counts g pts
  let F := filled g pts
  s!"shape={showI3 (shape g)}|off={showP3 (gridOffset g)}|units={showP3 (gridUnits g)}" ++
  s!"|ix={";".intercalate ((pts.map (voxIx g)).map showI3)}" ++
  s!"|filled={";".intercalate (F.map showI3)}" ++
  s!"|counts={";".intercalate (cs.map fun e => s!"{showI3 e.1},{e.2}")}" ++
  s!"|vcells={";".intercalate ((vectorCells g pts).map showI3)}" ++
  s!"|sum={gridSum cs}|inside={nInside g pts}|inb={(pts.filter (inBounds g)).length}" ++
  s!"|cover={b01 (coversB g pts F)}|insideB={b01 (insideB g F)}"

def run (cmd : String) (rest : String) : Option String :=
  match cmd with
  | "round" => do
    let qs ← parseList parseRat rest
    pure (showInts (qs.map roundHalfEven))
  | "vox" => match rest.splitOn "|" with
    | [pitch, lo, hi, u, pts] => do
      let g ← parseGrid pitch lo hi u
      let pts ← parseList parseP3 pts
      pure (runVox g pts)
    | _ => none
  | "check" => match rest.splitOn "|" with
    | [pitch, lo, hi, u, pts, F] => do
      let g ← parseGrid pitch lo hi u
      let pts ← parseList parseP3 pts
      let F ← parseList parseI3 F
      pure s!"cover={b01 (coversB g pts F)} inside={b01 (insideB g F)}"
    | _ => none
  | "tan" => do
    let rows ← parseList parseRow rest
    match tangents rows with
    | none => pure "ERR:KeyError"
    | some ts => pure (";".intercalate (ts.map showTangent))
  | "kclip" => match words rest with
    | [n, k] => do
      let n ← n.toNat?; let k ← k.toNat?
      pure (toString (kClip n k))
    | _ => none
  | "alpha" => match words rest with
    | [a, b, c] => do
      let a ← parseRat a; let b ← parseRat b; let c ← parseRat c
      pure (showRat (alpha a b c))
    | _ => none
  | "dots" => match rest.splitOn "|" with
    | [hd, pts, vs, as] => match words hd with
      | [k, eu, ev, ea] => do
        let k ← k.toNat?; let eu ← parseRat eu; let ev ← parseRat ev; let ea ← parseRat ea
        let pts ← parseList parseP3 pts
        let vs ← parseList parseP3 vs
        let as ← parseList parseRat as
        if vs.length != pts.length || as.length != pts.length then none else
        let kc := kClip pts.length k
        let verdicts := (pts.zip (vs.zip as)).map fun (p, v, a) =>
          if knnAmbiguous pts p kc then "amb" else (judge (knn pts p kc) v a eu ev ea).toString
        pure s!"k={kc}|n={pts.length}|v={";".intercalate verdicts}"
      | _ => none
    | _ => none
  | "knn" => match rest.splitOn "|" with
    | [k, p, pts] => do
      let k ← (trim k).toNat?; let p ← parseP3 p; let pts ← parseList parseP3 pts
      pure s!"nb={";".intercalate ((knn pts p k).map showP3)}|amb={b01 (knnAmbiguous pts p k)}"
    | _ => none
  | "voxvec" => match rest.splitOn "|" with
    | [pitch, lo, hi, u, pts, cells, eps] => match words eps with
      | [eu, ev, ea] => do
        let g ← parseGrid pitch lo hi u
        let pts ← parseList parseP3 pts
        let eu ← parseRat eu; let ev ← parseRat ev; let ea ← parseRat ea
        let cells ← parseList (fun c => match (trim c).splitOn "," with
          | [i, j, k, vx, vy, vz, a] => do
            let i ← (trim i).toInt?; let j ← (trim j).toInt?; let k ← (trim k).toInt?
            let vx ← parseRat vx; let vy ← parseRat vy; let vz ← parseRat vz; let a ← parseRat a
            pure ((⟨i, j, k⟩ : I3), (⟨vx, vy, vz⟩ : P3), a)
          | _ => none) cells
        let res := cells.map fun (c, v, a) =>
          let nb := pointsIn g pts c
          ((judge nb v a eu ev ea).toString, nb.length)
        pure s!"v={";".intercalate (res.map (·.1))}|n={",".intercalate (res.map fun r => toString r.2)}"
      | _ => none
    | _ => none
  | "tancheck" => match rest.splitOn "|" with
    | [eps, rows, obs] => do
      let eps ← parseRat eps
      let rows ← parseList parseRow rows
      let obs ← parseList (fun c => match (trim c).splitOn "," with
        | [vx, vy, vz, l] => do
          let vx ← parseRat vx; let vy ← parseRat vy; let vz ← parseRat vz; let l ← parseRat l
          pure ((⟨vx, vy, vz⟩ : P3), l)
        | _ => none) obs
      match tangents rows with
      | none => pure "ERR:KeyError"
      | some ts =>
        if ts.length != obs.length then pure s!"ok=|sign=|n={ts.length}" else
        let r := (ts.zip obs).map fun (tg, v, l) => (b01 (tanOKB tg v l eps), toString (tanSign tg v))
        pure s!"ok={",".intercalate (r.map (·.1))}|sign={",".intercalate (r.map (·.2))}|n={ts.length}"
    | _ => none
  | "checkat" => match rest.splitOn "|" with
    | [pitch, lo, hi, u, off, un, pts, F] => do
      let g ← parseGrid pitch lo hi u
      let off ← parseP3 off; let un ← parseP3 un
      let pts ← parseList parseP3 pts
      let F ← parseList parseI3 F
      pure s!"cover={b01 (coversAtB g off un pts F)} sourced={b01 (sourcedAtB g off un pts F)}"
    | _ => none
  | "vmapidx" => match rest.splitOn "|" with
    | [hd, vm, need] => match words hd with
      | [nV, nN] => do
        let nV ← nV.toNat?; let nN ← nN.toNat?
        let vm ← intList? vm; let need ← intList? need
        pure s!"ok={b01 (vmapIndexOKB vm nV nN)} covers={b01 (vmapCoversB vm need)}"
      | _ => none
    | _ => none
  | "vmapid" => match rest.splitOn "|" with
    | [nV, vm, ids] => do
      let nV ← (trim nV).toNat?
      let vm ← intList? vm; let ids ← intList? ids
      pure s!"ok={b01 (vmapIdOKB vm nV ids)}"
    | _ => none
  | "bbox" => match rest.splitOn "|" with
    | [tol, V, P] => do
      let tol ← parseRat tol
      let V ← parseList parseP3 V; let P ← parseList parseP3 P
      pure s!"ok={b01 (bboxContainsB V P tol)}"
    | _ => none
  | "surf" => match rest.splitOn "|" with
    | [tol, off, un, sh, V, F] => do
      let tol ← parseRat tol
      let off ← parseP3 off; let un ← parseP3 un; let sh ← parseI3 sh
      let V ← parseList parseP3 V; let F ← parseList parseI3 F
      pure s!"hugs={b01 (surfaceHugsFastB off un tol V F)} extent={b01 (surfaceInExtentB off un sh tol V)}"
    | _ => none
  | "mapunits" => match words rest with
    | [q, f, u] => do
      let q ← parseRat q; let f ← parseRat f; let u ← parseRat u
      if u == 0 then none else
      pure s!"{showRat (mapUnits q f u)} {showRat (units1 (mapUnits q f u) u)}"
    | _ => none
  | _ => none

end Navis.Drv.C19
