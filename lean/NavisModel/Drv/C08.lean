import NavisModel.Model.Affine
import NavisModel.Model.Bridge
import NavisModel.Model.Tps
import NavisModel.Gen.Bridge
import NavisModel.Drv.Proto
/-!
Line protocol for C08 (`c08.<cmd> <payload>`).  Rationals travel as `n` or `n/d`, points as `x,y,z`
or `nan`, lists of items are `;`-separated, sections `|`-separated.  Templates are indices.

* `affine M | rows`                         → `det | -M or singular | rows·M | roundtrip rows`
* `seq ts | rows`  (`A:<12 rats>` / `C:<k>`) → rows after `TransformSequence.xform`
* `negseq ts | rows`                        → rows after `(-seq).xform` (or `ERR:singular`)
* `graph recip | regs`                      → edges `u,v,key,ridx,dir,weight` sorted by (u,v,key)
* `find mode recip | regs | s,t | via | avoid | shortest | enum` → path or `ERR:<kind>` (mode `s` = the CURRENT source:
  short-cut guard and loop body as extracted into `Gen/Bridge.lean`; `r` = repaired; `w` = HISTORICAL, as written before `0eaf94d`)
* `invertible <ClassName>` / `invertible seq:<Cls>,<Cls>,…` → `1` / `0`: the `invertible` flag `register_transform` of the
  current source gives such a transform (class table + `invertibleOf` from `Gen/Bridge.lean`), or `?`
* `seqnest items | rows` (items `;`-separated: a member token, or `[tok+tok+…]` = a sequence / list) → `<#members> | rows`
* `seqbuild members | rows` (`M:<12 rats>` mergeable / `A:<12 rats>` / `C:<k>`) → `<#members after merging> | rows`
* `tps eps | src | tgt | K | W | A | pts | Kp | out` → `<solvesB> <landmarks within eps> <xform rows within eps> <max residual>`
* `tpscache ops` (`M:s,t` / `U:i` / `C:i` / `N:i`) → `s>t` per use (whose coefficients were observed), then `N=<pool size>`
* `picks recip | regs | path`               → `ridx:dir,…` (choice among parallel edges as written)
* `check recip | regs | s,t | via | avoid | path` → `<checkPath> <#admissible> <minweight> <pathweight>`
* `xbrain recip | regs | frames | mats | path | rows` → `cons | direct rows | rows along the path`
* `cache ops` (`R:reg,skip` / `Q:recip`)    → graphs returned by the queries, `#`-separated, then `N=<#regs>`
-/
namespace Navis.Drv.C08
open Navis.Affine Navis.Bridge Navis.Proto

/-- Graph of the CURRENT source: weights as extracted. -/
def graphSrc {τ} (neg : τ → τ) (regs : List (Reg τ)) (recip : Option Rat) : List (GEdge τ) :=
  bridgingGraphOf Navis.Gen.Bridge.fwdWeight Navis.Gen.Bridge.revNumberWeight neg regs recip

def parseRat (s : String) : Option Rat :=
  match (trim s).splitOn "/" with
  | [n] => n.toInt?.map fun (i : Int) => (i : Rat)
  | [n, d] => do
    let n ← n.toInt?
    let d ← d.toNat?
    if d = 0 then none else pure (mkRat n d)
  | _ => none

def showRat (r : Rat) : String :=
  if r.den = 1 then toString r.num else s!"{r.num}/{r.den}"

def items (s : String) (sep : String) : List String :=
  let s := trim s
  if s.isEmpty then [] else (s.splitOn sep).map trim

def parseRow (s : String) : Option (Option Pt) :=
  if trim s == "nan" then some none else
  match items s "," with
  | [x, y, z] => do
    let x ← parseRat x; let y ← parseRat y; let z ← parseRat z
    pure (some (x, y, z))
  | _ => none

def parseRows (s : String) : Option (List (Option Pt)) := (items s ";").mapM parseRow

def showRow : Option Pt → String
  | none => "nan"
  | some (x, y, z) => s!"{showRat x},{showRat y},{showRat z}"

def showRows (l : List (Option Pt)) : String := ";".intercalate (l.map showRow)

def parseAff (s : String) : Option Aff := do
  let l ← (items s ",").mapM parseRat
  match l with
  | [a11, a12, a13, b1, a21, a22, a23, b2, a31, a32, a33, b3] =>
    pure ⟨a11, a12, a13, a21, a22, a23, a31, a32, a33, b1, b2, b3⟩
  | _ => none

/-- Row-major 3×4 `[A | b]`, the first three rows of navis' homogeneous matrix. -/
def showAff (T : Aff) : String :=
  ",".intercalate ([T.a11, T.a12, T.a13, T.b1, T.a21, T.a22, T.a23, T.b2, T.a31, T.a32, T.a33, T.b3].map showRat)

def parseNats (s : String) : Option (List Nat) := (items s ",").mapM (·.toNat?)

def parseRecip (s : String) : Option (Option Rat) :=
  if trim s == "off" then some none else (parseRat s).map some

def parseReg (s : String) : Option (Reg Nat) :=
  match items s "," with
  | [a, b, tid, k, inv, w] => do
    let a ← a.toNat?; let b ← b.toNat?; let tid ← tid.toNat?
    let k ← if k == "b" then some Kind.bridging else if k == "m" then some Kind.mirror else none
    let w ← parseRat w
    pure ⟨a, b, tid, k, inv == "1", w⟩
  | _ => none

def parseRegs (s : String) : Option (List (Reg Nat)) := (items s ";").mapM parseReg

/-- Key of every edge = number of earlier edges between the same pair (networkx' default keys). -/
def withKeys {τ} (G : List (GEdge τ)) : List (GEdge τ × Nat) :=
  (List.range G.length).filterMap fun i =>
    match G[i]? with
    | some e => some (e, ((G.take i).filter fun f => f.u == e.u && f.v == e.v).length)
    | none => none

def edgeLt (a b : GEdge Nat × Nat) : Bool :=
  a.1.u < b.1.u || (a.1.u == b.1.u && (a.1.v < b.1.v || (a.1.v == b.1.v && a.2 ≤ b.2)))

def showGraph (G : List (GEdge Nat)) : String :=
  let es := (withKeys G).mergeSort fun a b => edgeLt a b
  ";".intercalate (es.map fun (e, k) =>
    s!"{e.u},{e.v},{k},{e.ridx},{if e.inverted then "i" else "f"},{showRat e.weight}")

def showErr : FindErr → String
  | .noRegs => "ERR:no-regs"
  | .srcUnknown => "ERR:src-unknown"
  | .tgtUnknown => "ERR:tgt-unknown"
  | .viaUnknown => "ERR:via-unknown"
  | .noPath => "ERR:no-path"
  | .noGood => "ERR:no-good"

def parsePair (s : String) : Option (Nat × Nat) :=
  match items s "," with
  | [a, b] => do pure (← a.toNat?, ← b.toNat?)
  | _ => none

def showPicks {τ} (es : List (GEdge τ)) : String :=
  ",".intercalate (es.map fun e => s!"{e.ridx}:{if e.inverted then "i" else "f"}")

inductive Member where
  | aff (T : Aff)
  | cut (k : Rat)   -- rows with x > k come back as NaN

def parseMember (s : String) : Option Member :=
  match (trim s).splitOn ":" with
  | ["A", m] => (parseAff m).map .aff
  | ["C", k] => (parseRat k).map .cut
  | _ => none

def Member.fn : Member → Pt → Option Pt
  | .aff T => fun p => some (xform T p)
  | .cut k => fun p => if p.1 > k then none else some p

def lookupAff (tbl : List Aff) (i : Nat) : Aff := (tbl[i]?).getD Affine.one

def affRegs (mats : List Aff) (regs : List (Reg Nat)) : List (Reg Aff) :=
  regs.map fun r => ⟨r.src, r.tgt, lookupAff mats r.xf, r.kind, r.invertible, r.weight⟩

/-- Executable form of `Consistent` for affine frames. -/
def consistentB (frames : List Aff) (regs : List (Reg Aff)) : Bool :=
  frames.all (fun F => det F != 0) &&
  regs.all fun r => r.kind != Kind.bridging ||
    (r.xf == between (lookupAff frames r.src) (lookupAff frames r.tgt))

def parseOp (s : String) : Option (Op Nat) :=
  match (trim s).splitOn ":" with
  | ["Q", k] => (parseRecip k).map .query
  | ["R", r] =>
    match items r "," with
    | [a, b, tid, k, inv, w, sk] => do
      let reg ← parseReg (",".intercalate [a, b, tid, k, inv, w])
      pure (.reg reg (sk == "1"))
    | _ => none
  | _ => none

/-- Members for `seqbuild`: `mrg` members merge with a `mrg` predecessor (matrix product), the others never. -/
inductive MMember where
  | mrg (T : Aff)
  | plain (m : Member)

def parseMMember (s : String) : Option MMember :=
  match (trim s).splitOn ":" with
  | ["M", m] => (parseAff m).map .mrg
  | _ => (parseMember s).map .plain

def MMember.fn : MMember → Pt → Option Pt
  | .mrg T => fun p => some (xform T p)
  | .plain m => m.fn

/-- `a.append(b)`: succeeds for two mergeable members (`a` becomes "first `a`, then `b`"), `NotImplementedError` otherwise. -/
def mergeM : MMember → MMember → Option MMember
  | .mrg a, .mrg b => some (.mrg (comp a b))
  | _, _ => none

/-- `[tok+tok]` = a sequence (its members, already built with `seqBuild`) / a list; otherwise one member. -/
def parseItem (s : String) : Option (Item MMember) :=
  let s := trim s
  if s.startsWith "[" then do
    let inner := ((s.drop 1).dropEnd 1).copy
    let ms ← (items inner "+").mapM parseMMember
    pure (.many (seqBuild mergeM ms))
  else (parseMMember s).map .one

def parsePts (s : String) : Option (List Pt) := do
  let rows ← parseRows s
  rows.mapM id

def parseTpsOp (s : String) : Option Navis.Tps.Op :=
  match (trim s).splitOn ":" with
  | ["M", st] => (parsePair st).map fun (a, b) => .mk a b
  | ["U", i] => i.toNat?.map .use
  | ["C", i] => i.toNat?.map .copy
  | ["N", i] => i.toNat?.map .neg
  | _ => none

def run (cmd : String) (rest : String) : Option String :=
  let secs := (rest.splitOn "|").map trim
  match cmd, secs with
  | "affine", [m, rows] => do
    let T ← parseAff m
    let rows ← parseRows rows
    let negS := match neg? T with
      | some N => showAff N
      | none => "singular"
    let fwd := rows.map (Option.map (xform T))
    let back := fwd.map (Option.map (xform (neg T)))
    pure s!"{showRat (det T)} | {negS} | {showRows fwd} | {showRows back}"
  | "seq", [ts, rows] => do
    let ts ← (items ts ";").mapM parseMember
    let rows ← parseRows rows
    pure (showRows (seqXform (ts.map fun m => liftRow m.fn) rows))
  | "negseq", [ts, rows] => do
    let ts ← (items ts ";").mapM parseAff
    let rows ← parseRows rows
    if ts.any (fun T => det T == 0) then pure "ERR:singular" else
    pure (showRows (seqXform ((negSeq neg ts).map fun T => liftRow fun p => some (xform T p)) rows))
  | "graph", [recip, regs] => do
    let recip ← parseRecip recip
    let regs ← parseRegs regs
    pure (showGraph (graphSrc id regs recip))
  | "find", [hd, regs, st, via, avoid, sh, enum] => do
    let (mode, recip) ← match words hd with
      | [m, r] => some (m, r)
      | _ => none
    let recip ← parseRecip recip
    let regs ← parseRegs regs
    let (s, t) ← parsePair st
    let via ← parseNats via
    let avoid ← parseNats avoid
    let sh ← if sh == "-" then some none else (parseNats sh).map some
    let enum ← (items enum ";").mapM parseNats
    let G := bridgingGraph id regs recip
    let res := if mode == "s" then
        findPathG Navis.Gen.Bridge.shortcutTree (acceptOf Navis.Gen.Bridge.acceptTree) G s t via avoid sh enum
      else findPath (if mode == "w" then acceptAsWritten else acceptRepaired) G s t via avoid sh enum
    match res with
    | .ok p => pure (showNats p)
    | .error e => pure (showErr e)
  | "picks", [recip, regs, path] => do
    let recip ← parseRecip recip
    let regs ← parseRegs regs
    let path ← parseNats path
    match pathEdges (bridgingGraph id regs recip) path with
    | some es => pure (showPicks es)
    | none => pure "ERR:nochain"
  | "check", [recip, regs, st, via, avoid, path] => do
    let recip ← parseRecip recip
    let regs ← parseRegs regs
    let (s, t) ← parsePair st
    let via ← parseNats via
    let avoid ← parseNats avoid
    let path ← parseNats path
    let G := bridgingGraph id regs recip
    let ok := checkPath G s t via avoid path
    let nadm := (admissible G s t via avoid).length
    let mw := match minWeight G s t with
      | some w => showRat w
      | none => "none"
    let pw := match pathWeight G path with
      | some w => showRat w
      | none => "none"
    pure s!"{if ok then 1 else 0} {nadm} {mw} {pw}"
  | "xbrain", [recip, regs, frames, mats, path, rows] => do
    let recip ← parseRecip recip
    let regs ← parseRegs regs
    let frames ← (items frames ";").mapM parseAff
    let mats ← (items mats ";").mapM parseAff
    let path ← parseNats path
    let rows ← parseRows rows
    let aregs := affRegs mats regs
    let G := bridgingGraph neg aregs recip
    let cons := consistentB frames aregs
    let s ← path.head?
    let t ← path.getLast?
    let direct := rows.map (Option.map fun q => xform (lookupAff frames t) (xform (neg (lookupAff frames s)) q))
    let along := match pathEdges G path with
      | some es => showRows (seqXform (es.map fun (e : GEdge Aff) => liftRow fun q => some (xform e.xf q)) rows)
      | none => "ERR:nochain"
    pure s!"{if cons then 1 else 0} | {showRows direct} | {along}"
  | "invertible", [c] =>
    let c := trim c
    let tbl := Navis.Gen.Bridge.negClasses
    let seqNeg := (List.lookup "TransformSequence" tbl).getD false
    if c.startsWith "seq:" then
      match (items (c.drop 4).copy ",").mapM (fun x => List.lookup x tbl) with
      | some ms => pure (if recordInvertible Navis.Gen.Bridge.invertibleOf seqNeg (.seq ms) then "1" else "0")
      | none => pure "?"
    else
      match List.lookup c tbl with
      | some b => pure (if recordInvertible Navis.Gen.Bridge.invertibleOf seqNeg (.plain b) then "1" else "0")
      | none => pure "?"
  | "seqnest", [its, rows] => do
    let its ← (items its ";").mapM parseItem
    let rows ← parseRows rows
    let built := seqBuildItems mergeM its
    pure s!"{built.length} | {showRows (seqXform (built.map fun m => liftRow m.fn) rows)}"
  | "seqbuild", [ts, rows] => do
    let ts ← (items ts ";").mapM parseMMember
    let rows ← parseRows rows
    let built := seqBuild mergeM ts
    pure s!"{built.length} | {showRows (seqXform (built.map fun m => liftRow m.fn) rows)}"
  | "tps", [eps, src, tgt, K, W, A, pts, Kp, out] => do
    let eps ← parseRat eps
    let src ← parsePts src
    let tgt ← parsePts tgt
    let K ← (items K ";").mapM fun r => (items r ",").mapM parseRat
    let W ← parsePts W
    let A ← parsePts A
    let A ← match A with
      | [a0, a1, a2, a3] => some (Navis.Tps.AffCoef.mk a0 a1 a2 a3)
      | _ => none
    let pts ← parsePts pts
    let Kp ← (items Kp ";").mapM fun r => (items r ",").mapM parseRat
    let out ← parsePts out
    let solves := Navis.Tps.solvesB eps K src tgt W A
    let atLm := List.zipWith (fun kr s => Navis.Tps.add (Navis.Tps.affPart A s) (Navis.Tps.dotRows kr W)) K src
    let lmOk := Navis.Tps.closeAll eps atLm tgt
    let atPts := List.zipWith (fun kr p => Navis.Tps.add (Navis.Tps.affPart A p) (Navis.Tps.dotRows kr W)) Kp pts
    let ptsOk := Navis.Tps.closeAll eps atPts out
    let res := Navis.Tps.maxResidual (Navis.Tps.systemTop K src W A) tgt
    let b := fun (x : Bool) => if x then "1" else "0"
    pure s!"{b solves} {b lmOk} {b ptsOk} {showRat res}"
  | "tpscache", [ops] => do
    let ops ← (items ops ";").mapM parseTpsOp
    let (cs, pool) := Navis.Tps.run Navis.Gen.Bridge.tpsNegSwaps Navis.Gen.Bridge.tpsNegFresh
      Navis.Gen.Bridge.tpsCopyCarries (fun s t => (s, t)) [] ops
    pure (";".intercalate (cs.map (fun (c : Nat × Nat) => s!"{c.1}>{c.2}") ++ [s!"N={pool.length}"]))
  | "cache", [ops] => do
    let ops ← (items ops ";").mapM parseOp
    let (gs, st) := runOps id RegState.empty ops
    pure ("#".intercalate (gs.map showGraph ++ [s!"N={st.regs.length}"]))
  | _, _ => none

end Navis.Drv.C08
