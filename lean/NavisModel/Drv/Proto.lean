/-! Line-protocol helpers for the driver (import-free). -/
namespace Navis.Proto

def splitOn (s : String) (sep : String) : List String := s.splitOn sep

def trim (s : String) : String := s.trimAscii.toString

/-- Parse a comma separated list of naturals; the empty string is the empty list. -/
def natList? (s : String) : Option (List Nat) :=
  let s := trim s
  if s.isEmpty then some [] else (s.splitOn ",").mapM fun t => (trim t).toNat?

def intList? (s : String) : Option (List Int) :=
  let s := trim s
  if s.isEmpty then some [] else (s.splitOn ",").mapM fun t => (trim t).toInt?

def strList (s : String) : List String :=
  let s := trim s
  if s.isEmpty then [] else (s.splitOn ",").map trim

def showNats (l : List Nat) : String := ",".intercalate (l.map toString)
def showInts (l : List Int) : String := ",".intercalate (l.map toString)

def words (s : String) : List String := (s.splitOn " ").filter (· ≠ "")

end Navis.Proto

namespace Navis.Proto

/-- Split a request line into `(command, payload)`; the command is the first blank-separated word. -/
def headRest (line : String) : String × String :=
  let line := trim line
  match line.splitOn " " with
  | [] => ("", "")
  | h :: t => (h, " ".intercalate t)

/-- Generic request loop: `handle cmd payload` returns the answer line (`none` ⇒ `BAD-OP`). -/
partial def mainLoop (handle : String → String → Option String) : IO Unit := do
  let inp ← IO.getStdin
  let out ← IO.getStdout
  let rec go : IO Unit := do
    let line ← inp.getLine
    if line.isEmpty then return ()
    let (h, r) := headRest line
    out.putStrLn ((handle h r).getD "BAD-OP")
    out.flush
    go
  go

end Navis.Proto
