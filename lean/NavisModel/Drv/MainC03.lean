import NavisModel.Drv.C03
/-! Development entry point: `NAVIS_DRV_MAIN=NavisModel/Drv/MainC03.lean ./check C03`. -/
def main : IO Unit := Navis.Proto.mainLoop fun head rest =>
  match head.splitOn "." with
  | ["c03", cmd] => Navis.Drv.C03.run cmd rest
  | _ => none
