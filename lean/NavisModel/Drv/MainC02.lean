import NavisModel.Drv.C02
/-! Development entry point: `NAVIS_DRV_MAIN=NavisModel/Drv/MainC02.lean ./check C02`. -/
def main : IO Unit := Navis.Proto.mainLoop fun head rest =>
  match head.splitOn "." with
  | ["c02", cmd] => Navis.Drv.C02.run cmd rest
  | _ => none
