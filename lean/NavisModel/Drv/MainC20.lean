import NavisModel.Drv.C20
/-! Development entry point: `NAVIS_DRV_MAIN=NavisModel/Drv/MainC20.lean ./check C20`. -/
def main : IO Unit := Navis.Proto.mainLoop fun head rest =>
  match head.splitOn "." with
  | ["c20", cmd] => Navis.Drv.C20.run cmd rest
  | _ => none
