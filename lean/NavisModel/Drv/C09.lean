import NavisModel.Model.Partition
import NavisModel.Model.Zip
import NavisModel.Drv.Proto
namespace Navis.Drv.C09
open Navis.Partition Navis.Zip Navis.Proto

def showJob (j : Job) : String :=
  s!"{showNats j.qix};{showNats j.tix};{showNats (localQueries j)};{showNats (localTargets j)}"

def parseBlock (s : String) : List (List String) :=
  let s := trim s
  if s.isEmpty then [] else (s.splitOn "/").map strList

/-- `q..;t..;v00,v01/v10,v11` -/
def parseJobBlock (s : String) : Option (Job × List (List String)) :=
  match s.splitOn ";" with
  | [q, t, b] => do
    let q ← natList? q
    let t ← natList? t
    pure (⟨q, t⟩, parseBlock b)
  | _ => none

def showMat (nq nt : Nat) (m : Mat String) : String :=
  "/".intercalate ((List.range nq).map fun r =>
    ",".intercalate ((List.range nt).map fun c => (m r c).getD "EMPTY"))

def parseArg (s : String) : Option (Bool × Arg String) :=
  match (trim s).splitOn ":" with
  | [ex, "s", v] => some (ex == "1", .scalar v)
  | [ex, "m", vs] => some (ex == "1", .many (strList vs))
  | _ => none

def showArg : Arg String → String
  | .scalar v => s!"s:{v}"
  | .many vs => "m:" ++ ",".intercalate vs

def run (cmd : String) (rest : String) : Option String :=
  match cmd with
  | "split" => match words rest with
    | [n, k] => do
      let n ← n.toNat?; let k ← k.toNat?
      pure ("|".intercalate ((arraySplit n k).map showNats))
    | _ => none
  | "jobs" => match words rest with
    | [nq, nt, r, c] => do
      let nq ← nq.toNat?; let nt ← nt.toNat?; let r ← r.toNat?; let c ← c.toNat?
      pure ("|".intercalate ((jobs nq nt r c).map showJob))
    | _ => none
  | "allmap" => match rest.splitOn ";" with
    -- enumeration ; qix ; tix  → local queries ; local targets
    | [e, q, t] => do
      let e ← natList? e; let q ← natList? q; let t ← natList? t
      pure s!"{showNats (q.map fun g => e.idxOf g)};{showNats (t.map fun g => e.idxOf g)}"
    | _ => none
  | "assemble" => match rest.splitOn "|" with
    | hd :: blocks => match words hd with
      | [nq, nt] => do
        let nq ← nq.toNat?; let nt ← nt.toNat?
        let bs ← blocks.mapM parseJobBlock
        pure (showMat nq nt (assembleBlocks bs))
      | _ => none
    | _ => none
  | "optpart" => match words rest with
    | [n, nq, nt] => do
      let n ← n.toNat?; let nq ← nq.toNat?; let nt ← nt.toNat?
      match findOptimalPartition n nq nt with
      | some (r, c) => pure s!"{r} {c}"
      | none => pure "none"
    | _ => none
  | "batchpart" => match words rest with
    | [npb, nq, nt, nc] => do
      let npb ← npb.toNat?; let nq ← nq.toNat?; let nt ← nt.toNat?
      let nc ← if nc == "none" then some none else nc.toNat?.map some
      let (r, c) := findBatchPartition npb nq nt nc
      pure s!"{r} {c}"
    | _ => none
  | "zip" => match rest.splitOn "|" with
    -- "n omit cs fails.." | arg | arg ...   (cs = 0 ⇒ serial)
    | hd :: args => match words hd with
      | [n, om, cs, fails] => do
        let n ← n.toNat?; let cs ← cs.toNat?
        let fails ← if fails == "-" then some [] else natList? fails
        let args ← args.mapM parseArg
        let f := fun (x : Nat) (a : List (Arg String)) =>
          if x ∈ fails then none else some (s!"{x}(" ++ " ".intercalate (a.map showArg) ++ ")")
        let r := if cs == 0 then process f (List.range n) args (om == "1")
                 else processParallel f (List.range n) args (om == "1") cs
        match r with
        | some out => pure ("|".intercalate out)
        | none => pure "RAISE"
      | _ => none
    | _ => none
  | _ => none

end Navis.Drv.C09
