import NavisModel.Model.Partition
import NavisModel.Model.Zip
import NavisModel.Model.Smart
import NavisModel.Model.JobSpec
import NavisModel.Gen.NblastJobs
import NavisModel.Drv.Proto
namespace Navis.Drv.C09
open Navis.Partition Navis.Zip Navis.Proto

def showJob (j : Job) : String :=
  s!"{showNats j.qix};{showNats j.tix};{showNats (localQueries j)};{showNats (localTargets j)}"

def parseBlock (s : String) : List (List String) :=
  let s := trim s
  if s.isEmpty then [] else (s.splitOn "/").map strList

/-- `q..;t..;v00,v01/v10,v11` -/
def parseJobBlock (s : String) : Option (Job × List (List String)) :=
  match s.splitOn ";" with
  | [q, t, b] => do
    let q ← natList? q
    let t ← natList? t
    pure (⟨q, t⟩, parseBlock b)
  | _ => none

def showMat (nq nt : Nat) (m : Mat String) : String :=
  "/".intercalate ((List.range nq).map fun r =>
    ",".intercalate ((List.range nt).map fun c => (m r c).getD "EMPTY"))

def parseArg (s : String) : Option (Bool × Arg String) :=
  match (trim s).splitOn ":" with
  | [ex, "s", v] => some (ex == "1", .scalar v)
  | [ex, "m", vs] => some (ex == "1", .many (strList vs))
  | _ => none

def showArg : Arg String → String
  | .scalar v => s!"s:{v}"
  | .many vs => "m:" ++ ",".intercalate vs

def run1 (cmd : String) (rest : String) : Option String :=
  match cmd with
  | "split" => match words rest with
    | [n, k] => do
      let n ← n.toNat?; let k ← k.toNat?
      pure ("|".intercalate ((arraySplit n k).map showNats))
    | _ => none
  | "jobs" => match words rest with
    | [nq, nt, r, c] => do
      let nq ← nq.toNat?; let nt ← nt.toNat?; let r ← r.toNat?; let c ← c.toNat?
      pure ("|".intercalate ((jobs nq nt r c).map showJob))
    | _ => none
  | "allmap" => match rest.splitOn ";" with
    -- enumeration ; qix ; tix  → local queries ; local targets
    | [e, q, t] => do
      let e ← natList? e; let q ← natList? q; let t ← natList? t
      pure s!"{showNats (q.map fun g => e.idxOf g)};{showNats (t.map fun g => e.idxOf g)}"
    | _ => none
  | "assemble" => match rest.splitOn "|" with
    | hd :: blocks => match words hd with
      | [nq, nt] => do
        let nq ← nq.toNat?; let nt ← nt.toNat?
        let bs ← blocks.mapM parseJobBlock
        pure (showMat nq nt (assembleBlocks bs))
      | _ => none
    | _ => none
  | "optpart" => match words rest with
    | [n, nq, nt] => do
      let n ← n.toNat?; let nq ← nq.toNat?; let nt ← nt.toNat?
      match findOptimalPartition n nq nt with
      | some (r, c) => pure s!"{r} {c}"
      | none => pure "none"
    | _ => none
  | "batchpart" => match words rest with
    | [npb, nq, nt, nc] => do
      let npb ← npb.toNat?; let nq ← nq.toNat?; let nt ← nt.toNat?
      let nc ← if nc == "none" then some none else nc.toNat?.map some
      let (r, c) := findBatchPartition npb nq nt nc
      pure s!"{r} {c}"
    | _ => none
  | "zip" => match rest.splitOn "|" with
    -- "n omit cs fails.." | arg | arg ...   (cs = 0 ⇒ serial)
    | hd :: args => match words hd with
      | [n, om, cs, fails] => do
        let n ← n.toNat?; let cs ← cs.toNat?
        let fails ← if fails == "-" then some [] else natList? fails
        let args ← args.mapM parseArg
        let f := fun (x : Nat) (a : List (Arg String)) =>
          if x ∈ fails then none else some (s!"{x}(" ++ " ".intercalate (a.map showArg) ++ ")")
        let r := if cs == 0 then process f (List.range n) args (om == "1")
                 else processParallel f (List.range n) args (om == "1") cs
        match r with
        | some out => pure ("|".intercalate out)
        | none => pure "RAISE"
      | _ => none
    | _ => none
  | _ => none

/-! ### second pass -/
open Navis.JobSpec

def parseMask (s : String) : List (List Bool) :=
  let s := trim s
  if s.isEmpty then [] else (s.splitOn "/").map fun row => (trim row).toList.filterMap fun ch =>
    if ch == '1' then some true else if ch == '0' then some false else none

def maskFn (m : List (List Bool)) : Nat → Nat → Bool := fun r c => (m.getD r []).getD c false

def parseMat (s : String) : Nat → Nat → Option String :=
  let rows := parseBlock s
  fun r c => (rows[r]?).bind (·[c]?)

def showPairs (l : List (Nat × Nat)) : String := ",".intercalate (l.map fun p => s!"{p.1}:{p.2}")

/-- `q..;t..;v,v,v` -/
def parseJobVals (s : String) : Option (Job × List String) :=
  match s.splitOn ";" with
  | [q, t, b] => do
    let q ← natList? q
    let t ← natList? t
    pure (⟨q, t⟩, strList b)
  | _ => none

def program? : String → Option Program
  | "nblast" => some Gen.NblastJobs.nblast
  | "allbyall" => some Gen.NblastJobs.allbyall
  | "smartPre" => some Gen.NblastJobs.smartPre
  | "synblast" => some Gen.NblastJobs.synblast
  | "nblastAlign" => some Gen.NblastJobs.nblastAlign
  | _ => none

def showEnts (l : List Ent) : String :=
  ",".intercalate (l.map fun e => s!"{e.neuron.1}:{e.neuron.2}") ++ ";" ++
  ",".intercalate (l.map fun e => match e.selfHit with | some (n, i) => s!"{n}:{i}" | none => "-")

/-- value syntax: `N` | `a:<tok>` | `s:<tok,tok>` | `d:<k=v,k=v>:<others>` | `u` | `x:<len>` -/
def parseVal? (s : String) : Option (Val String) :=
  let s := trim s
  if s == "N" then some .pyNone
  else if s == "u" then some .unsized
  else match s.splitOn ":" with
    | ["a", v] => some (.atom v)
    | ["s", vs] => some (.seq (strList vs))
    | ["x", k] => k.toNat?.map .unindexable
    | ["d", kvs, o] => do
      let o ← o.toNat?
      let kvs ← (strList kvs).mapM fun kv => match kv.splitOn "=" with
        | [k, v] => k.toNat?.map fun k => (k, v)
        | _ => none
      pure (.dict kvs o)
    | _ => none

def showVal : Val String → String
  | .pyNone => "N"
  | .atom v => s!"a:{v}"
  | .seq vs => "s:" ++ ",".intercalate vs
  | .dict kvs o => "d:" ++ ",".intercalate (kvs.map fun kv => s!"{kv.1}={kv.2}") ++ s!":{o}"
  | .unsized => "u"
  | .unindexable k => s!"x:{k}"

def parseKw? (s : String) : Option (String × Val String) :=
  match (trim s).splitOn "~" with
  | [k, v] => (parseVal? v).map fun v => (trim k, v)
  | _ => none

def showCall (i : Nat) (c : Call Nat String) : String :=
  let first := match c.first with
    | .inl x => s!"n{x}"
    | .inr xs => "L" ++ showNats xs
  s!"{i}({first}|" ++ " ".intercalate (c.args.map showVal) ++ "|" ++
    " ".intercalate (c.kwargs.map fun kv => kv.1 ++ "~" ++ showVal kv.2) ++ ")"

def parseRet? (s : String) : Option (Ret String String) :=
  let s := trim s
  if s == "0" then some .nothing else
  match s.splitOn ":" with
  | ["n", x] => some (.neuron x)
  | ["l", xs] => some (.neurons (strList xs))
  | ["o", v] => some (.other v)
  | _ => none

def showRet : Ret String String → String
  | .neuron x => s!"n:{x}"
  | .neurons xs => "l:" ++ ",".intercalate xs
  | .nothing => "0"
  | .other v => s!"o:{v}"

def optBool? (s : String) : Option (Option Bool) :=
  if s == "-" then some none else if s == "1" then some (some true) else if s == "0" then some (some false) else none

def run2 (cmd : String) (rest : String) : Option String :=
  match cmd with
  | "assembleboth" => match rest.splitOn "|" with
    | hd :: blocks => match words hd with
      | [nq, nt] => do
        let nq ← nq.toNat?; let nt ← nt.toNat?
        let bs ← blocks.mapM parseJobBlock
        pure (showMat (2 * nq) nt (assembleBlocks (bs.map fun jb => (bothJob jb.1, jb.2))))
      | _ => none
    | _ => none
  | "choose" => match words rest with
    | [kind, nc, pg, p1, p2, nq, nt] => do
      let nc ← if nc == "none" then some none else nc.toNat?.map some
      let p1 ← p1.toNat?; let p2 ← p2.toNat?; let nq ← nq.toNat?; let nt ← nt.toNat?
      let r := if kind == "nblast" then chooseNblast nc (pg == "1") p1 p2 nq nt
               else chooseSimple nc (pg == "1") p1 nq nt
      match r with
      | some (r, c) => pure s!"{r} {c} {if multiJob nc r c then 1 else 0}"
      | none => pure "none"
    | _ => none
  | "npb" => match words rest with
    | [t, a, b] => do
      let t ← t.toNat?; let a ← a.toNat?; let b ← b.toNat?
      pure (toString (neuronsPerBatch t a b))
    | _ => none
  | "smartjob" => match rest.splitOn "|" with
    -- "nq nt" | mask | qix;tix    → pairs (model) ; pairs (source facts) ; cells of the job mask (model) ; … (source facts)
    | [hd, m, jt] => match words hd, jt.splitOn ";" with
      | [nq, nt], [q, t] => do
        let nq ← nq.toNat?; let nt ← nt.toNat?
        let q ← natList? q; let t ← natList? t
        let mask := maskFn (parseMask m)
        let j : Job := ⟨q, t⟩
        let cells := fun (jm : Option (Nat → Nat → Bool)) => match jm with
          | some jm => showPairs (Smart.maskCells nq nt jm)
          | none => "RAISE"
        pure (showPairs (Smart.pairs mask j) ++ ";" ++ showPairs (Gen.NblastJobs.smartFull.pairs mask j) ++ ";" ++
              cells (Smart.jobMask mask j) ++ ";" ++ cells (Gen.NblastJobs.smartFull.jobMask mask j))
      | _, _ => none
    | _ => none
  | "smartrefine" => match rest.splitOn "|" with
    -- "nq nt" | mask | scr matrix | q;t;vals | …
    | hd :: m :: scr :: blocks => match words hd with
      | [nq, nt] => do
        let nq ← nq.toNat?; let nt ← nt.toNat?
        let mask := maskFn (parseMask m)
        let bs ← blocks.mapM parseJobVals
        match Smart.refineBlocks mask nq nt (parseMat scr) bs with
        | some s => pure (showMat nq nt s)
        | none => pure "RAISE"
      | _ => none
    | _ => none
  | "prog" => match rest.splitOn ";" with
    -- name ; qix ; tix ; enum
    | [name, q, t, e] => do
      let p ← program? (trim name)
      let q ← natList? q; let t ← natList? t; let e ← natList? e
      let env := p.env e ⟨q, t⟩
      pure (showEnts (p.localList env) ++ ";" ++ showNats (p.submitQ.eval env) ++ ";" ++ showNats (p.submitT.eval env) ++ ";" ++
            showNats (p.placeRows.eval env) ++ ";" ++ showNats (p.placeCols.eval env) ++ ";" ++
            (match p.bothRows with | some b => showNats (b.eval env) | none => "-") ++ ";" ++
            s!"{p.indexRows}:{p.indexCols}:{p.submitMethod}:{p.submitScores}")
    | _ => none
  | "smartprog" => match rest.splitOn ";" with
    | [q, t] => do
      let q ← natList? q; let t ← natList? t
      pure (showEnts (Gen.NblastJobs.smartFull.localList ⟨q, t⟩))
    | _ => none
  | "zipw" => match rest.splitOn "|" with
    -- "n omit cs fails exclPos exclKw" | positional args (blank separated) | kwargs (blank separated k~v)
    | [hd, as, kws] => match words hd with
      | [n, om, cs, fails, ep, ek] => do
        let n ← n.toNat?; let cs ← cs.toNat?
        let fails ← if fails == "-" then some [] else natList? fails
        let ep ← if ep == "-" then some [] else natList? ep
        let ek := if ek == "-" then [] else strList ek
        let args ← (words as).mapM parseVal?
        let kwargs ← (words kws).mapM parseKw?
        let f := fun (i : Nat) (c : Call Nat String) => if i ∈ fails then none else some (showCall i c)
        let r := if cs == 0 then processW f (List.range n) ep ek args kwargs (om == "1")
                 else processWParallel f (List.range n) ep ek args kwargs (om == "1") cs
        match r with
        | some out => pure ("&".intercalate out)
        | none => pure "RAISE"
      | _ => none
    | _ => none
  | "finish" => do
    let rs ← (words rest).mapM parseRet?
    match finish rs with
    | .neuronlist xs => pure ("NL:" ++ ",".intercalate xs)
    | .nothing => pure "NONE"
    | .list rs => pure ("LIST:" ++ " ".intercalate (rs.map showRet))
  | "mapnl" => match rest.splitOn "|" with
    -- "canzip mustzip allowpar sighas sigdef n nargs parallel inplaceKw omitKw" | kwargs
    | [hd, kws] => match words hd with
      | [cz, mz, ap, sh, sd, n, na, par, ik, ok] => do
        let n ← n.toNat?; let na ← na.toNat?
        let ik ← optBool? ik; let ok ← optBool? ok
        let kwargs ← (words kws).mapM parseKw?
        let cfg : MapCfg := ⟨if cz == "-" then [] else strList cz, if mz == "-" then [] else strList mz,
                             ap == "1", sh == "1", sd == "1"⟩
        match mapNeuronlist cfg n na kwargs (par == "1") ik ok with
        | .ok p => pure (s!"OK pos={showNats p.exclPos} kw=" ++ ",".intercalate p.exclKw ++ " passed=" ++
                         ",".intercalate p.passed ++ s!" force={if p.forceInplace then 1 else 0} swap={match swapOf Gen.NblastJobs.swapFacts p.swapInplace (par == "1") with | some true => "1" | some false => "0" | none => "none"} omit={if p.omitFailures then 1 else 0}")
        | .error e => pure ("ERR " ++ (match e with
            | .noParallel => "noParallel" | .canZipLen => "canZipLen" | .mustZipLen => "mustZipLen" | .typeError => "typeError"))
      | _ => none
    | _ => none
  | "mapdf" => match words rest with
    -- n omit fails  → "id:resultOf" pairs as `map_neuronlist_df` labels them
    | [n, om, fails] => do
      let n ← n.toNat?
      let fails ← if fails == "-" then some [] else natList? fails
      match mapDfOf Gen.NblastJobs.dfFacts (fun (x : Nat) => if x ∈ fails then none else some x) (List.range n) (om == "1") with
      | some out => pure (",".intercalate (out.map fun p => s!"{p.1}:{p.2}"))
      | none => pure "RAISE"
    | _ => none
  | "facts" =>
    pure (s!"batchCores={Gen.NblastJobs.batchCalls.map (·.2)} maps={Gen.NblastJobs.mapSites.map (·.2)} " ++
          s!"exclStart={Gen.NblastJobs.exclPosStart} dfZip={Gen.NblastJobs.dfFacts.zipPartner} smartDecl={Gen.NblastJobs.smartFull.declOk} " ++
          s!"grid={[Gen.NblastJobs.nblast, Gen.NblastJobs.allbyall, Gen.NblastJobs.smartPre, Gen.NblastJobs.synblast, Gen.NblastJobs.nblastAlign].map (·.gridOk)}")
  | _ => none

def run (cmd : String) (rest : String) : Option String :=
  match run1 cmd rest with
  | some r => some r
  | none => run2 cmd rest

end Navis.Drv.C09
