import NavisModel.Drv.Proto
import NavisModel.Model.Forest
/-! Extension commands for C12 (line protocol prefix `c12x.`). -/
namespace Navis.Drv.C12Ext

def run (cmd _rest : String) : Option String :=
  match cmd with
  | "ping" => some "pong-c12x"
  | _ => none

end Navis.Drv.C12Ext
