import NavisModel.Drv.Proto
import NavisModel.Drv.Forest
import NavisModel.Model.PruneExt
/-! Extension commands for C12 (line protocol prefix `c12x.`): the pruning functions with their
option handling (`Model/PruneExt.lean`) and the Lean-side checkers evaluated on navis' own output. -/
namespace Navis.Drv.C12Ext
open Navis.Forest Navis.Proto Navis.Drv.Forest Navis.PruneX

def optInt (s : String) : Option (Option Int) := if s == "_" then some none else s.toInt?.map some

def parseRat (a : String) : Option Rat :=
  match a.splitOn "/" with
  | [n, d] => do pure ((← n.toInt? : Int) / ((← d.toNat?) : Rat) : Rat)
  | [n] => do pure ((← n.toInt? : Int) : Rat)
  | _ => none

def parseRec (s : String) : Option RecArg :=
  if s == "b0" then some (.bool false) else if s == "b1" then some (.bool true)
  else if s == "inf" then some .inf
  else if s.startsWith "i" then (s.drop 1).toString.toInt?.map RecArg.int else none

def parseMask (s : String) : Option MaskArg :=
  if s == "-" then some .none
  else match s.splitOn ":" with
    | ["ids", l] => (intList? l).map MaskArg.ids
    | ["bools", l] => (natList? l).map fun b => MaskArg.bools (b.map (· != 0))
    | _ => none

def parseOptMask (s : String) : Option (Option (List Int)) :=
  if s == "-" then some none
  else match s.splitOn ":" with
    | ["ids", l] => (intList? l).map some
    | _ => none

def parseSelX (s : String) : Option SISelX :=
  match s.splitOn ":" with
  | ["int", k] => k.toInt?.map SISelX.int
  | ["list", ks] => (intList? ks).map SISelX.list
  | ["range", a, b, st] => do pure (SISelX.range (← a.toInt?) (← b.toInt?) (← st.toInt?))
  | ["slice", a, b, st] => do pure (SISelX.slice (← optInt a) (← optInt b) (← st.toInt?))
  | _ => none

def parseNArg (s : String) : Option NArg :=
  match s.splitOn ":" with
  | ["int", k] => k.toInt?.map NArg.int
  | ["slice", a, b, st] => do pure (NArg.slice (← optInt a) (← optInt b) (← st.toInt?))
  | _ => none

/-- `a:b,c:d` → pairs -/
def parsePairs (s : String) : Option (List (Int × Int)) :=
  let s := trim s
  if s.isEmpty || s == "-" then some [] else
  (s.splitOn ",").mapM fun tok => match tok.splitOn ":" with
    | [a, b] => do pure ((← (trim a).toInt?), (← (trim b).toInt?))
    | _ => none

def showPairs (l : List (Int × Int)) : String := ",".intercalate (l.map fun p => s!"{p.1}:{p.2}")

/-- `key=value` words -/
def kv (ws : List String) (k : String) : Option String :=
  ws.findSome? fun w => match w.splitOn "=" with
    | [a, b] => if a == k then some b else none
    | _ => none

def parseSIOpts (s : String) : Option SIOpts := do
  let ws := words s
  let soma ← optInt ((kv ws "soma").getD "_")
  let col ← match kv ws "col" with
    | some c => (parsePairs c).map some
    | none => some none
  pure { rerootSoma := (kv ws "reroot").getD "1" == "1", soma := soma, force := (kv ws "force").getD "0" == "1",
         col := col, relocate := (kv ws "reloc").getD "0" == "1" }

def showExact (rows : List (Int × Int × Rat)) : String :=
  let rows := rows.toArray.qsort (fun a b => a.1 < b.1) |>.toList
  " ".intercalate (rows.map fun r => s!"{r.1}:{r.2.1}:{r.2.2.num}/{r.2.2.den}")

def sections (s : String) : List String := (s.splitOn "|").map trim

def run (cmd rest : String) : Option String :=
  match cmd with
  | "ping" => some "pong-c12x"
  | "twigs" =>
    -- size | rec | mask | table
    match sections rest with
    | [sz, rc, mk, tb] => do
      let t ← parseTable tb
      let sz ← sz.toNat?
      let rc ← parseRec rc
      let mk ← parseMask mk
      match pruneTwigsX t (coordLen t) sz mk rc with
      | some r => pure (showTopo r)
      | none => pure "ERR"
    | _ => none
  | "twigsfc" =>
    -- rootChains(0/1) size | rec | mask | table   (the navis-fastcore variant, for attribution only)
    match sections rest with
    | [a, rc, mk, tb] => do
      let t ← parseTable tb
      let rc ← parseRec rc
      let mk ← parseMask mk
      match words a with
      | [rcn, sz] => do
        let sz ← sz.toNat?
        match maskIds t mk with
        | some m => pure (showTopo (pruneTwigsFC (rcn == "1") t (coordLen t) sz m rc))
        | none => pure "ERR"
      | _ => none
    | _ => none
  | "exactm" =>
    -- num/den | mask | table
    match sections rest with
    | [a, mk, tb] => do
      let t ← parseTable tb
      let size ← parseRat a
      let mk ← parseOptMask mk
      pure (showExact (exactPruneM t (coordLen t) size mk))
    | _ => none
  | "inrange" =>
    -- num/den | table  →  as-written in-range test vs height test, per node
    match sections rest with
    | [a, tb] => do
      let t ← parseTable tb
      let size ← parseRat a
      let len := coordLen t
      pure (" ".intercalate ((sortedInts (ids t)).map fun i =>
        s!"{i}={b2s (inRangeAW t len size i)}{b2s (decide (((heightOf t len (t.length + 1) i : Nat) : Rat) ≤ size))}"))
    | _ => none
  | "bystrahler" =>
    -- sel | opts | connectors | table
    match sections rest with
    | [sl, op, cn, tb] => do
      let t ← parseTable tb
      let sel ← parseSelX sl
      let o ← parseSIOpts op
      let cn ← parsePairs cn
      match pruneByStrahlerX t o sel cn with
      | some (r, c) => pure s!"{showTopo r} # {showPairs c}"
      | none => pure "ERR"
    | _ => none
  | "conn" =>
    -- kept | relocate | connectors | table   (connector table after a subset to `kept`)
    match sections rest with
    | [k, rl, cn, tb] => do
      let t ← parseTable tb
      let kept ← intList? k
      let cn ← parsePairs cn
      pure (showPairs (connAfter t kept (rl == "1") cn))
    | _ => none
  | "depth" =>
    -- source|_  num/den | table
    match sections rest with
    | [a, tb] => do
      let t ← parseTable tb
      match words a with
      | [s, d] => do
        let s ← optInt s
        let d ← parseRat d
        match pruneAtDepthX .lt t (coordLen t) s d with
        | some r => pure (showTopo r)
        | none => pure "ERR"
      | _ => none
    | _ => none
  | "longest" =>
    -- n | reroot=0/1 soma=_/id fromroot=0/1 inverse=0/1 | table
    -- from_root: one answer; otherwise one answer per admissible start, separated by " ## "
    match sections rest with
    | [ns, op, tb] => do
      let t ← parseTable tb
      let n ← parseNArg ns
      let ws := words op
      let soma ← optInt ((kv ws "soma").getD "_")
      let o : LNOpts := { rerootSoma := (kv ws "reroot").getD "0" == "1", soma := soma,
                          fromRoot := (kv ws "fromroot").getD "1" == "1" }
      let inv := (kv ws "inverse").getD "0" == "1"
      let len := coordLen t
      let starts := if o.fromRoot then [0] else diamStarts t len
      let outs := starts.map fun s => match longestNeuriteX t len o s n inv with
        | some r => showTopo r
        | none => "ERR"
      pure (" ## ".intercalate outs)
    | _ => none
  | "diam" => do
    let t ← parseTable rest
    pure (showInts (diamStarts t (coordLen t)))
  | "greedy" =>
    -- segs | table   → greedy checker on the implementation's segment list, plus C05's checker
    match sections rest with
    | [sg, tb] => do
      let t ← parseTable tb
      let segs ← parseSegs sg
      let len := coordLen t
      pure s!"{b2s (greedyOKB t len segs)} {b2s (segmentsOKB t len segs)}"
    | _ => none
  | "fromsegs" =>
    -- n | inverse | segs | table  → node table kept when slicing the implementation's own segment list
    match sections rest with
    | [ns, iv, sg, tb] => do
      let t ← parseTable tb
      let n ← parseNArg ns
      let segs ← parseSegs sg
      match pickSegs .lt 1 segs n with
      | some sel => pure (showTopo (longestFromSegs t sel (iv == "1")))
      | none => pure "ERR"
    | _ => none
  | "fluff" =>
    -- keepsize nlargest|_ | kept | table
    match sections rest with
    | [a, k, tb] => do
      let t ← parseTable tb
      let kept ← intList? k
      match words a with
      | [ks, nl] => do
        let ks ← ks.toNat?
        let nl ← optInt nl
        pure (b2s (dropFluffOKB t ks (nl.map Int.toNat) kept))
      | _ => none
    | _ => none
  | "silist" =>
    -- max | sel
    match sections rest with
    | [m, sl] => do
      let m ← m.toInt?
      let sel ← parseSelX sl
      match siListX m sel with
      | some l => pure (showInts l)
      | none => pure "ERR"
    | _ => none
  | _ => none

end Navis.Drv.C12Ext
