import NavisModel.Model.Codec
import NavisModel.Model.Policy
import NavisModel.Drv.Proto
/-! Line protocol for C14: `c14.<cmd> <payload>`; bytes travel as lower-case hex. -/
namespace Navis.Drv.C14
open Navis.Codec Navis.Policy Navis.Proto

def hexDigit (c : Char) : Option Nat :=
  if '0' ≤ c ∧ c ≤ '9' then some (c.toNat - '0'.toNat)
  else if 'a' ≤ c ∧ c ≤ 'f' then some (c.toNat - 'a'.toNat + 10)
  else none

def hexToBytes (s : String) : Option (List Nat) :=
  let rec go : List Char → List Nat → Option (List Nat)
    | [], acc => some acc.reverse
    | a :: b :: r, acc => do
      let x ← hexDigit a
      let y ← hexDigit b
      go r ((16 * x + y) :: acc)
    | _, _ => none
  go (trim s).toList []

def hexChar (n : Nat) : Char := if n < 10 then Char.ofNat (n + 48) else Char.ofNat (n - 10 + 97)

def bytesToHex (bs : List Nat) : String :=
  String.ofList (bs.foldr (fun b acc => hexChar (b / 16 % 16) :: hexChar (b % 16) :: acc) [])

def colonNats? (s : String) : Option (List Nat) := ((trim s).splitOn ":").mapM fun t => (trim t).toNat?

def v3? (s : String) : Option V3 := do
  match ← colonNats? s with
  | [x, y, z] => some (x, y, z)
  | _ => none

def pair? (s : String) : Option (Nat × Nat) := do
  match ← colonNats? s with
  | [p, c] => some (p, c)
  | _ => none

def listOf? {α} (f : String → Option α) (s : String) : Option (List α) :=
  let s := trim s
  if s.isEmpty then some [] else (s.splitOn ",").mapM f

def spec? (s : String) : Option AttrSpec :=
  match (trim s).splitOn "/" with
  | [id, size, comps] => do some ⟨id, ← size.toNat?, ← comps.toNat?⟩
  | _ => none

def specsOK (specs : List AttrSpec) : Bool := specs.all fun sp => decide (0 < sp.size ∧ 0 < sp.comps)

/-- attribute columns: `v,v,v/v,v` (one `/`-separated list per attribute; `-` = no attributes) -/
def attrs? (s : String) : Option (List (List Nat)) :=
  let s := trim s
  if s == "-" || s.isEmpty then some [] else (s.splitOn "/").mapM natList?

def row? (s : String) : Option Row :=
  match (trim s).splitOn ":" with
  | [id, p, x, y, z, r] => do
    some ⟨← id.toInt?, ← p.toInt?, (← x.toNat?, ← y.toNat?, ← z.toNat?), ← r.toNat?⟩
  | _ => none

def showV3s (vs : List V3) : String := ",".intercalate (vs.map fun v => s!"{v.1}:{v.2.1}:{v.2.2}")
def showPairs (es : List (Nat × Nat)) : String := ",".intercalate (es.map fun e => s!"{e.1}:{e.2}")
def showAttrs (as : List (List Nat)) : String :=
  if as.isEmpty then "-" else "/".intercalate (as.map showNats)

def showSkel : Option Skel → String
  | none => "NONE"
  | some sk => s!"{showV3s sk.verts}|{showPairs sk.edges}|{showAttrs sk.attrs}|{showInts (readParents sk)}"

def showMesh : Option Mesh → String
  | none => "NONE"
  | some m => s!"{showV3s m.verts}|{showV3s m.faces}"

def flag? (s : String) : Option Bool :=
  match trim s with
  | "1" => some true
  | "0" => some false
  | _ => none

def showBatch : Option (List Nat) → String
  | none => "RAISE"
  | some l => "OK " ++ showNats l

def run (cmd : String) (rest : String) : Option String :=
  match cmd with
  -- table → bytes navis should write, and the parent column a reader should give back
  | "enc_skel" => match rest.splitOn "|" with
    | [rad, rows] => do
      let rad ← flag? rad
      let t ← listOf? row? rows
      let sk := toSkel t rad
      pure s!"{bytesToHex (encodeSkel (specsFor rad) sk)}|{showInts (relabelByRow t)}|{showPairs sk.edges}"
    | _ => none
  | "enc_raw" => match rest.splitOn "|" with
    | [specs, verts, edges, attrs] => do
      let specs ← listOf? spec? specs
      let sk : Skel := ⟨← listOf? v3? verts, ← listOf? pair? edges, ← attrs? attrs⟩
      pure (bytesToHex (encodeSkel specs sk))
    | _ => none
  | "dec_skel" => match rest.splitOn "|" with
    | [specs, hex] => do
      let specs ← listOf? spec? specs
      pure (showSkel (decodeSkel specs (← hexToBytes hex)))
    | _ => none
  | "navis_skel" => match rest.splitOn "|" with
    | [specs, hex] => do
      let specs ← listOf? spec? specs
      if !specsOK specs then none
      pure (showSkel (navisReadSkel specs (← hexToBytes hex)))
    | _ => none
  | "enc_mesh" => match rest.splitOn "|" with
    | [verts, faces] => do
      pure (bytesToHex (encodeMesh ⟨← listOf? v3? verts, ← listOf? v3? faces⟩))
    | _ => none
  | "dec_mesh" => do pure (showMesh (decodeMesh (← hexToBytes rest)))
  | "navis_mesh" => do pure (showMesh (navisReadMesh (← hexToBytes rest)))
  -- batch: `<errors> <dir|zip|par:k> <flags>`; file i is readable iff flag i = 1; answer = indices returned
  | "batch" => match words rest with
    | [e, kind, flags] => do
      let e ← Errors.ofString? e
      let fl ← listOf? flag? flags
      let files := List.range fl.length
      let read := fun i => if fl.getD i false then some i else none
      match kind.splitOn ":" with
      | ["dir"] => pure (showBatch (readBatch e read files))
      | ["zip"] => pure (showBatch (readZip e read files))
      | ["par", k] => do
        let k ← k.toNat?
        if k == 0 then none
        let chunks := (List.range ((files.length + k - 1) / k)).map fun c => (files.drop (c * k)).take k
        pure (showBatch ((readChunks e read chunks).map formatOutput))
      | _ => none
    | _ => none
  | "policy" => do
    let e ← Errors.ofString? (trim rest)
    pure (onError e).toString
  | "nrrd" => match words rest with
    | [kind, mx, my, mz] => do
      let h := nrrdWriteUnits (← mx.toNat?, ← my.toNat?, ← mz.toNat?) "u"
      let (m, _) ← match kind with
        | "voxels" => some (nrrdReadVoxelUnits h)
        | "dotprops" => some (nrrdReadDotpropsUnits h)
        | _ => none
      pure s!"{h.dirs.1}:{h.dirs.2.1}:{h.dirs.2.2} {m.1}:{m.2.1}:{m.2.2}"
    | _ => none
  | _ => none

end Navis.Drv.C14
