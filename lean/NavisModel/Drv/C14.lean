import NavisModel.Model.Codec
import NavisModel.Model.Policy
import NavisModel.Model.IoMeta
import NavisModel.Model.IoBatch
import NavisModel.Gen.IoReaders
import NavisModel.Drv.Proto
/-! Line protocol for C14: `c14.<cmd> <payload>`; bytes travel as lower-case hex. -/
namespace Navis.Drv.C14
open Navis.Codec Navis.Policy Navis.Proto

def hexDigit (c : Char) : Option Nat :=
  if '0' ≤ c ∧ c ≤ '9' then some (c.toNat - '0'.toNat)
  else if 'a' ≤ c ∧ c ≤ 'f' then some (c.toNat - 'a'.toNat + 10)
  else none

def hexToBytes (s : String) : Option (List Nat) :=
  let rec go : List Char → List Nat → Option (List Nat)
    | [], acc => some acc.reverse
    | a :: b :: r, acc => do
      let x ← hexDigit a
      let y ← hexDigit b
      go r ((16 * x + y) :: acc)
    | _, _ => none
  go (trim s).toList []

def hexChar (n : Nat) : Char := if n < 10 then Char.ofNat (n + 48) else Char.ofNat (n - 10 + 97)

def bytesToHex (bs : List Nat) : String :=
  String.ofList (bs.foldr (fun b acc => hexChar (b / 16 % 16) :: hexChar (b % 16) :: acc) [])

def colonNats? (s : String) : Option (List Nat) := ((trim s).splitOn ":").mapM fun t => (trim t).toNat?

def v3? (s : String) : Option V3 := do
  match ← colonNats? s with
  | [x, y, z] => some (x, y, z)
  | _ => none

def pair? (s : String) : Option (Nat × Nat) := do
  match ← colonNats? s with
  | [p, c] => some (p, c)
  | _ => none

def listOf? {α} (f : String → Option α) (s : String) : Option (List α) :=
  let s := trim s
  if s.isEmpty then some [] else (s.splitOn ",").mapM f

def spec? (s : String) : Option AttrSpec :=
  match (trim s).splitOn "/" with
  | [id, size, comps] => do some ⟨id, ← size.toNat?, ← comps.toNat?⟩
  | _ => none

def specsOK (specs : List AttrSpec) : Bool := specs.all fun sp => decide (0 < sp.size ∧ 0 < sp.comps)

/-- attribute columns: `v,v,v/v,v` (one `/`-separated list per attribute; `-` = no attributes) -/
def attrs? (s : String) : Option (List (List Nat)) :=
  let s := trim s
  if s == "-" || s.isEmpty then some [] else (s.splitOn "/").mapM natList?

def row? (s : String) : Option Row :=
  match (trim s).splitOn ":" with
  | [id, p, x, y, z, r] => do
    some ⟨← id.toInt?, ← p.toInt?, (← x.toNat?, ← y.toNat?, ← z.toNat?), ← r.toNat?⟩
  | _ => none

def showV3s (vs : List V3) : String := ",".intercalate (vs.map fun v => s!"{v.1}:{v.2.1}:{v.2.2}")
def showPairs (es : List (Nat × Nat)) : String := ",".intercalate (es.map fun e => s!"{e.1}:{e.2}")
def showAttrs (as : List (List Nat)) : String :=
  if as.isEmpty then "-" else "/".intercalate (as.map showNats)

def showSkel : Option Skel → String
  | none => "NONE"
  | some sk => s!"{showV3s sk.verts}|{showPairs sk.edges}|{showAttrs sk.attrs}|{showInts (readParents sk)}"

def showMesh : Option Mesh → String
  | none => "NONE"
  | some m => s!"{showV3s m.verts}|{showV3s m.faces}"

def flag? (s : String) : Option Bool :=
  match trim s with
  | "1" => some true
  | "0" => some false
  | _ => none

def showBatch : Option (List Nat) → String
  | none => "RAISE"
  | some l => "OK " ++ showNats l


/-! #### second pass: file selection, `info`, NRRD header, attribute columns -/
section Ext
open Navis.IoMeta Navis.IoBatch

def semis (s : String) : List String :=
  let s := trim s
  if s.isEmpty then [] else (s.splitOn ";").map trim

def rat? (s : String) : Option Rat :=
  match (trim s).splitOn "/" with
  | [n] => do some (mkRat (← n.toInt?) 1)
  | [n, d] => do
    let d ← d.toNat?
    if d == 0 then none else some (mkRat (← n.toInt?) d)
  | _ => none

def showRat (q : Rat) : String := if q.den == 1 then s!"{q.num}" else s!"{q.num}/{q.den}"

def v3r? (s : String) : Option V3R :=
  match semis s with
  | [a, b, c] => do some (← rat? a, ← rat? b, ← rat? c)
  | _ => none

def showV3R (v : V3R) : String := s!"{showRat v.1};{showRat v.2.1};{showRat v.2.2}"

def limit? (s : String) : Option Limit :=
  match (trim s).splitOn ":" with
  | ["none"] => some .none
  | ["int", n] => do some (.int (← n.toNat?))
  | ["slice", a, b] => do some (.slice (← a.toNat?) (← b.toNat?))
  | ["names", l] => some (.names (semis l))
  | ["names"] => some (.names [])
  | ["sub", t] => some (.substr t)
  | _ => none

/-- `pre` = precomputed filter (literals from the current source); `ext:.a;.b` = extension filter -/
def validOf? (s : String) : Option (String → Bool) :=
  match (trim s).splitOn ":" with
  | ["pre"] => some (validPrecomputed Gen.IoReaders.preRejectContains Gen.IoReaders.preRejectEquals Gen.IoReaders.preRejectEndsWith)
  | ["ext", e] => some (validBase Gen.IoReaders.hiddenPrefix (semis e))
  | _ => none

def hval? (s : String) : Option Val :=
  match (trim s).splitOn ":" with
  | ["int", n] => do some (.int (← n.toInt?))
  | ["dirs", a, b, c] => do some (.diag (← rat? a, ← rat? b, ← rat? c))
  | "units" :: l => some (.strs l)
  | _ => some (.other s)

/-- `key=val;key=val` (keys may contain blanks) -/
def header? (s : String) : Option Header :=
  (semis s).mapM fun kv =>
    match kv.splitOn "=" with
    | [k, v] => do some (trim k, ← hval? v)
    | _ => none

def runExt (cmd rest : String) : Option String :=
  match cmd with
  -- `select <dir|zip|tar> <pre|ext:.x;.y> <limit> | name,name,…`  →  `AW a,b|SPEC a,b`
  | "select" => match rest.splitOn "|" with
    | [hd, names] => match words hd with
      | [cont, rd, lim] => do
        let valid ← validOf? rd
        let limit ← limit? lim
        let listing := strList names
        let hidden := fun n => Gen.IoReaders.hiddenPrefix.any (IoBatch.startsWith n)
        let aw ← match cont with
          | "dir" => some (selectDirAW valid limit listing)
          | "zip" => some (selectZipAW hidden valid limit listing)
          | "tar" => some (selectTarAW hidden valid limit listing)
          | _ => none
        pure s!"AW {",".intercalate aw}|SPEC {",".intercalate (selectSpec valid limit listing)}"
      | _ => none
    | _ => none
  -- `info <container> <mesh 0/1> <radius 0/1> <nm a;b;c | ->`
  | "info" => match words rest with
    | [cont, mesh, rad, nm] => do
      let nm ← if nm == "-" then some none else (v3r? nm).map some
      let i := infoWritten Gen.IoReaders.infoCallPassesAddProps cont (← flag? mesh) nm (← flag? rad)
      let sc := match scaleOf i with | some v => showV3R v | none => "-"
      let att := match i.vertexAttrs with
        | none => "-"
        | some l => ",".intercalate (l.map fun (a : VAttr) => s!"{a.id}/{a.dtype}/{a.comps}")
      pure s!"{i.type.getD "-"}|{(datatypeOf i).getD "-"}|{sc}|{if i.transform.isSome then (if offDiagonalZero i then "1" else "0") else "-"}|{att}"
    | _ => none
  -- `nrrdhdr <dotprops 0/1> <k> <mags a;b;c> <unit> | old header | attrs`  →  what a reader finds
  | "nrrdhdr" => match rest.splitOn "|" with
    | [hd, old, attrs] => match words hd with
      | [dp, k, mags, unit] => do
        let x : Geo := ⟨← v3r? mags, unit, ← k.toInt?, ← flag? dp⟩
        let h := runOps Gen.IoReaders.nrrdWriteOps x (← header? old) (← header? attrs)
        let (vd, us) := readGeo h
        let u := match us with | some (a, b, c) => s!"{a};{b};{c}" | none => "-"
        let kk := match readK h with | some k => toString k | none => "-"
        pure s!"{showV3R vd}|{u}|{kk}|{",".intercalate (h.map (·.1))}"
      | _ => none
    | _ => none
  -- `cols <id> <comps> | v,v,v`  →  `name=v,v;name=v,v`
  | "cols" => match rest.splitOn "|" with
    | [hd, vals] => match words hd with
      | [id, comps] => do
        let c ← comps.toNat?
        if c == 0 then none
        let cs := attrColumns id c (← natList? vals)
        pure (";".intercalate (cs.map fun p => s!"{p.1}={showNats p.2}"))
      | _ => none
    | _ => none
  -- `jsonkeys k1,k2,…` (the neuron's `__dict__` keys)  →  keys written | keys that reach the neuron on read
  | "jsonkeys" =>
    let d := (strList rest).map fun k => (k, ())
    let w := jsonWrite Gen.IoReaders.jsonKeepPrivate Gen.IoReaders.jsonPrivatePrefix Gen.IoReaders.jsonIdKey () d
    let r := jsonRead Gen.IoReaders.jsonReadTables Gen.IoReaders.jsonReadSkipsSetattr w
    some s!"{",".intercalate (w.map (·.1))}|{",".intercalate (r.map (·.1))}"
  -- `h5meta units <- | q | a;b;c>` → per raw writer `writer=<attr>|<units_xyz read back>` (RAISE when the write raises);
  -- `h5meta soma <- | id>` → `<attr>` ; `h5meta name <0|1>` (1 = the neuron has a name) → `ok` / `absent` / `RAISE` ;
  -- `h5meta jsonacc <list 0/1> kind,kind` → `1` (accepted) / `0` (TypeError)
  | "h5meta" => match words rest with
    | ["units", m] => do
      let mag ← if m == "-" then some none else match semis m with
        | [q] => do some (some (Mag.scalar (← rat? q)))
        | [_, _, _] => do some (some (Mag.triple (← v3r? m)))
        | _ => none
      let showMag : Option Mag → String
        | none => "-"
        | some (.scalar q) => showRat q
        | some (.triple v) => showV3R v
      let one := fun (w : String × String) =>
        match h5UnitsAttr w.2 mag with
        | none => s!"{w.1}=RAISE"
        | some a =>
          let r := match h5ReadUnits Gen.IoReaders.h5ReaderArrayUnits a with
            | some (some v) => showV3R v
            | some none => "-"
            | none => "?"
          s!"{w.1}={showMag a}|{r}"
      pure (" ".intercalate (Gen.IoReaders.h5UnitsGuards.map one))
    | ["soma", v] => do
      let soma ← if v == "-" then some none else (v.toInt?).map some
      let g ← Gen.IoReaders.h5SomaGuards.lookup "write_treeneuron"
      match h5SomaAttr g soma with
      | some (some i) => pure (toString i)
      | some none => pure "-"
      | none => pure "?"
    | ["name", v] => do
      let name := if (← flag? v) then some "n" else none
      match h5NameAttr Gen.IoReaders.h5NameGuard name with
      | some (some _) => pure "ok"
      | some none => pure "absent"
      | none => pure "RAISE"
    | ["jsonacc", l, kinds] => do
      pure (if jsonAccepts Gen.IoReaders.jsonMembersChecked (← flag? l) (strList kinds) then "1" else "0")
    | _ => none
  -- `voxcache D2,V3,R,…` : assignments of fresh `_data` / `_values` versions and grid reads on a VoxelNeuron that starts at
  -- versions (1, 1), with the setter → clear facts of the CURRENT voxel.py  →  for every R the versions the grid was built from
  | "voxcache" => do
    let ops ← (strList rest).mapM fun t =>
      match t.toList with
      | 'D' :: n => (String.ofList n).toNat?.map VoxOp.setData
      | 'V' :: n => (String.ofList n).toNat?.map VoxOp.setValues
      | ['R'] => some VoxOp.read
      | _ => none
    let f := Gen.IoReaders.voxFacts
    let (_, out) := ops.foldl (fun (acc : VoxSt × List String) op =>
      match op with
      | .read => let r := voxRead f acc.1; (r.2, acc.2 ++ [s!"{r.1.1}:{r.1.2}"])
      | o => (voxStep f acc.1 o, acc.2)) ((⟨1, 1, 1, 1, none⟩ : VoxSt), [])
    pure (",".intercalate out)
  -- `thresh <t> | v,v,v` : VoxelNeuron.threshold on voxel coordinates 0..n-1 with these values → `kept voxel indices|kept values`
  | "thresh" => match rest.splitOn "|" with
    | [t, vals] => do
      let vals ← natList? vals
      let r := thresholdSparse (← (trim t).toNat?) (List.range vals.length) vals
      pure s!"{showNats r.1}|{showNats r.2}"
    | _ => none
  | _ => none

end Ext

def run (cmd : String) (rest : String) : Option String :=
  match cmd with
  | "select" | "info" | "nrrdhdr" | "cols" | "jsonkeys" | "h5meta" | "voxcache" | "thresh" => runExt cmd rest
  -- table → bytes navis should write, and the parent column a reader should give back
  | "enc_skel" => match rest.splitOn "|" with
    | [rad, rows] => do
      let rad ← flag? rad
      let t ← listOf? row? rows
      let sk := toSkel t rad
      pure s!"{bytesToHex (encodeSkel (specsFor rad) sk)}|{showInts (relabelByRow t)}|{showPairs sk.edges}"
    | _ => none
  | "enc_raw" => match rest.splitOn "|" with
    | [specs, verts, edges, attrs] => do
      let specs ← listOf? spec? specs
      let sk : Skel := ⟨← listOf? v3? verts, ← listOf? pair? edges, ← attrs? attrs⟩
      pure (bytesToHex (encodeSkel specs sk))
    | _ => none
  | "dec_skel" => match rest.splitOn "|" with
    | [specs, hex] => do
      let specs ← listOf? spec? specs
      pure (showSkel (decodeSkel specs (← hexToBytes hex)))
    | _ => none
  | "navis_skel" => match rest.splitOn "|" with
    | [specs, hex] => do
      let specs ← listOf? spec? specs
      if !specsOK specs then none
      pure (showSkel (navisReadSkel specs (← hexToBytes hex)))
    | _ => none
  | "enc_mesh" => match rest.splitOn "|" with
    | [verts, faces] => do
      pure (bytesToHex (encodeMesh ⟨← listOf? v3? verts, ← listOf? v3? faces⟩))
    | _ => none
  | "dec_mesh" => do pure (showMesh (decodeMesh (← hexToBytes rest)))
  | "navis_mesh" => do pure (showMesh (navisReadMesh (← hexToBytes rest)))
  -- batch: `<errors> <dir|zip|par:k> <flags>`; file i is readable iff flag i = 1; answer = indices returned
  | "batch" => match words rest with
    | [e, kind, flags] => do
      let e ← Errors.ofString? e
      let fl ← listOf? flag? flags
      let files := List.range fl.length
      let read := fun i => if fl.getD i false then some i else none
      match kind.splitOn ":" with
      | ["dir"] => pure (showBatch (readBatch e read files))
      | ["zip"] => pure (showBatch (readZip e read files))
      | ["par", k] => do
        let k ← k.toNat?
        if k == 0 then none
        let chunks := (List.range ((files.length + k - 1) / k)).map fun c => (files.drop (c * k)).take k
        pure (showBatch ((readChunks e read chunks).map formatOutput))
      | _ => none
    | _ => none
  | "policy" => do
    let e ← Errors.ofString? (trim rest)
    pure (onError e).toString
  | "nrrd" => match words rest with
    | [kind, mx, my, mz] => do
      let h := nrrdWriteUnits (← mx.toNat?, ← my.toNat?, ← mz.toNat?) "u"
      let (m, _) ← match kind with
        | "voxels" => some (nrrdReadVoxelUnits h)
        | "dotprops" => some (nrrdReadDotpropsUnits h)
        | _ => none
      pure s!"{h.dirs.1}:{h.dirs.2.1}:{h.dirs.2.2} {m.1}:{m.2.1}:{m.2.2}"
    | _ => none
  | _ => none

end Navis.Drv.C14
