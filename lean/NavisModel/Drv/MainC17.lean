import NavisModel.Drv.C17
import NavisModel.Drv.Prune
/-! Development entry point: `NAVIS_DRV_MAIN=NavisModel/Drv/MainC17.lean ./check C17`. -/
def main : IO Unit := Navis.Proto.mainLoop fun head rest =>
  match head.splitOn "." with
  | ["c17", cmd] => Navis.Drv.C17.run cmd rest
  | ["p", cmd] => Navis.Drv.Prune.run cmd rest
  | ["f", cmd] => Navis.Drv.Forest.run cmd rest
  | _ => none
