import NavisModel.Model.Nblast
import NavisModel.Model.DpCache
import NavisModel.Gen.Smat
import NavisModel.Gen.DpTree
import NavisModel.Drv.Proto
/-! Line protocol for C06 (NBLAST scoring).  Numbers travel as exact rationals `n` or `n/d`
(the harness converts doubles with `float.as_integer_ratio`), `inf`/`-inf`, `s<rat>` = square root of
a radicand, `nan`.  Top-level fields are separated by `|`. -/
namespace Navis.Drv.C06
open Navis.Nblast Navis.Proto Navis.DpCache

def parseRat (s : String) : Option Rat :=
  match (trim s).splitOn "/" with
  | [n] => (n.toInt?).map fun n => (n : Rat)
  | [n, d] => do
    let n ← n.toInt?; let d ← d.toNat?
    if d = 0 then none else pure (mkRat n d)
  | _ => none

def showRat (q : Rat) : String := if q.den = 1 then toString q.num else s!"{q.num}/{q.den}"

def parseX (s : String) : Option X :=
  match trim s with
  | "inf" => some .pinf
  | "-inf" => some .ninf
  | t => (parseRat t).map .fin

/-- `none` = malformed, `some none` = NaN -/
def parseVal (s : String) : Option (Option Val) :=
  let t := trim s
  if t == "nan" then some none
  else if t.startsWith "s" then (parseRat (t.drop 1).toString).map fun q => some (.sqrt q)
  else (parseX t).map fun x => some (.x x)

def sepList (sep : String) (s : String) : List String :=
  let s := trim s
  if s.isEmpty then [] else (s.splitOn sep).map trim

def parseBool (s : String) : Option Bool :=
  match trim s with
  | "1" => some true
  | "0" => some false
  | _ => none

def parseInterval (s : String) : Option Interval :=
  match s.splitOn ":" with
  | [lo, hi, r] => do
    let lo ← parseX lo; let hi ← parseX hi; let r ← parseBool r
    pure ⟨lo, hi, r⟩
  | _ => none

def parseIntervals (s : String) : Option (List Interval) := (sepList ";" s).mapM parseInterval

def parseCells (s : String) : Option (List (List Rat)) :=
  (sepList ";" s).mapM fun r => (sepList "," r).mapM parseRat

/-- `fcwb` | `fcwba` | `T<rows>#<cols>#<cells>`; inner `none` = navis raises while building the table. -/
def parseTable (s : String) : Option (Option Lookup2d) :=
  let t := trim s
  if t == "fcwb" then some Gen.Smat.fcwb
  else if t == "fcwba" then some Gen.Smat.fcwbAlpha
  else if t.startsWith "T" then
    match ((t.drop 1).toString).splitOn "#" with
    | [r, c, cells] => do
      let r ← parseIntervals r; let c ← parseIntervals c; let cells ← parseCells cells
      pure (Lookup2d.fromDataframe r c cells)
    | _ => none
  else none

def parsePt (s : String) : Option Pt :=
  match (sepList "," s).mapM parseRat with
  | some [x, y, z, vx, vy, vz, a] => some ⟨⟨x, y, z⟩, ⟨vx, vy, vz⟩, a⟩
  | _ => none

def parseCloud (s : String) : Option Cloud := (sepList ";" s).mapM parsePt

def parseDotprops (s : String) : Option Dotprops :=
  match s.splitOn "@" with
  | [i, c] => do
    let i ← (trim i).toInt?; let c ← parseCloud c
    pure ⟨i, c⟩
  | _ => none

def parseNeurons (s : String) : Option (List Dotprops) := (sepList "&" s).mapM parseDotprops

def parseBound (s : String) : Option (Option Rat) :=
  if trim s == "-" then some none else (parseRat s).map some

def parseMode (s : String) : Option Mode :=
  Mode.all.find? fun m => m.name == trim s

def showInts (l : List Int) : String := ",".intercalate (l.map toString)

def digitizeAll (d : Digitizer) (vs : List (Option Val)) : String :=
  showInts (vs.map fun v => match v with
    | some v => digitize d v
    | none => digitizeNaN d)

def showMatch (m : Match) : String :=
  s!"{m.idx}:{showRat m.d2}:{showRat m.dot}:{showRat m.alpha}:{if m.hit then 1 else 0}"

/-! tolerance comparison (in `Rat`) -/

def absFn (fn : ScoreFn) : ScoreFn := fun d v => (fn d v).map absR

def maxR (a b : Rat) : Rat := if a < b then b else a

/-- Size of the terms whose floating-point summation produced the forward score `q → t`. -/
def pairScale (fn : ScoreFn) (cfg : Cfg) (q t : Cloud) : Rat :=
  let ms := distDots q t cfg.bound
  let a := (ms.bind (rawScore (absFn fn) cfg.useAlpha)).getD 0
  if cfg.normalized then
    let sh := (selfHit fn cfg.useAlpha q).getD 1
    let sa := (selfHit (absFn fn) cfg.useAlpha q).getD 0
    let f := (ms.bind (rawScore fn cfg.useAlpha)).getD 0
    if sh = 0 then 0 else (a + absR f / absR sh * sa) / absR sh
  else a

def close (tol tolOut scale model impl : Rat) : Bool :=
  absR (impl - model) ≤ tol * maxR 1 (maxR (absR model) scale) + tolOut * absR model

/-- Compare the implementation's matrix (`nf` = non-finite) with the model's. -/
def compareVals (tol tolOut : Rat) (model : List (List Rat)) (scale : Nat → Nat → Rat)
    (impl : List (List (Option Rat))) : String :=
  if model.length ≠ impl.length ∨ (model.zip impl).any (fun (a, b) => a.length != b.length) then
    s!"SHAPE model={model.length}x{(model.head?.map List.length).getD 0} impl={impl.length}x{(impl.head?.map List.length).getD 0}"
  else
    let bad := ((model.zip impl).zipIdx.map fun ((mr, ir), r) =>
      ((mr.zip ir).zipIdx.filterMap fun ((m, i), c) =>
        match i with
        | none => some s!"DIFF {r} {c} model={showRat m} impl=nonfinite"
        | some i => if close tol tolOut (scale r c) m i then none
                    else some s!"DIFF {r} {c} model={showRat m} impl={showRat i}")).flatten
    match bad with
    | [] => "OK"
    | b :: _ => b

def parseImplVals (s : String) : Option (List (List (Option Rat))) :=
  (sepList ";" s).mapM fun r => (sepList "," r).mapM fun t =>
    if t == "nf" then some none else (parseRat t).map some

def showLabels (f : Frame) : String :=
  ",".intercalate (f.rows.map fun (i, k) => if k.isEmpty then toString i else s!"{i}:{k}") ++ "#" ++ showInts f.cols


/-! kd-tree cache histories (geometry = version number) -/

def parseMethod (s : String) : Option Method :=
  Method.all.find? fun m => m.name == trim s

def parseEv (s : String) : Option (Ev Nat) :=
  match words s with
  | ["u", i] => (i.toNat?).map .use
  | ["v", i] => (i.toNat?).map .vect
  | ["sv", i] => (i.toNat?).map .setVect
  | ["c", i] => (i.toNat?).map .copy
  | ["p", k, i] => do let k ← parseBool k; let i ← i.toNat?; pure (.pickle k i)
  | ["m", m, i, g] => do let m ← parseMethod m; let i ← i.toNat?; let g ← g.toNat?; pure (.mutate m i g)
  | _ => none

/-- per event: the logged `(used, current)` pairs -/
def runLog (inv : Method → Bool) : List (Obj Nat) → List (Ev Nat) → List (List (Nat × Nat))
  | _, [] => []
  | s, e :: es => let r := step inv s e; r.2 :: runLog inv r.1 es

def showObj (o : Obj Nat) : String :=
  s!"{o.geo}:{match o.tree with | some t => toString t | none => "-"}:{if o.lazy then 1 else 0}"

/-! nblast_smart cells -/

def parseMask (s : String) : Option (List (List Bool)) :=
  (sepList ";" s).mapM fun r => (sepList "," r).mapM parseBool

def smartVals (fn : ScoreFn) (cfg : Cfg) (mode : Mode) (q t : List Dotprops) (mask : List (List Bool)) :
    Option (List (List Rat)) :=
  allSome ((q.zipIdx).map fun (qn, i) => allSome ((t.zipIdx).map fun (tn, j) =>
    (smartCell fn cfg mode (((mask[i]?).bind (·[j]?)).getD false) qn.pts tn.pts).map Score.fwd))

def run (cmd rest : String) : Option String :=
  let fields := (rest.splitOn "|").map trim
  match cmd, fields with
  -- Digitizer(bounds, clip, right)(values)
  | "digmake", [hd, bounds, vals] =>
    match words hd with
    | [r, c0, c1] => do
      let r ← parseBool r; let c0 ← parseBool c0; let c1 ← parseBool c1
      let bs ← (sepList "," bounds).mapM parseX
      let vs ← (sepList "," vals).mapM parseVal
      match Digitizer.make bs (c0, c1) r with
      | none => pure "RAISE"
      | some d => pure s!"{d.nbins};{digitizeAll d vs}"
    | _ => none
  -- Digitizer.from_strings(labels)(values)
  | "digstr", [ivs, vals] => do
    let ivs ← parseIntervals ivs
    let vs ← (sepList "," vals).mapM parseVal
    match Digitizer.fromIntervals ivs with
    | none => pure "RAISE"
    | some d => pure s!"{d.nbins};{digitizeAll d vs}"
  -- Lean-side checker on the implementation's bins:  v:i,v:i,...
  | "binok", [ivs, pairs] => do
    let ivs ← parseIntervals ivs
    let ps ← (sepList "," pairs).mapM fun p => match p.splitOn ":" with
      | [v, i] => do let v ← parseX v; let i ← (trim i).toInt?; pure (v, i)
      | _ => none
    pure (",".intercalate (ps.map fun (v, i) => if binOK ivs i v then "1" else "0"))
  -- Lookup2d(dist, dot) for pairs  d:v,d:v
  | "lookup", [tab, pairs] => do
    let t ← parseTable tab
    let ps ← (sepList "," pairs).mapM fun p => match p.splitOn ":" with
      | [d, v] => do let d ← parseVal d; let v ← parseVal v; pure (d, v)
      | _ => none
    match t with
    | none => pure "RAISE"
    | some t => pure (",".intercalate (ps.map fun (d, v) =>
        let i := match d with | some d => digitize t.ax0 d | none => digitizeNaN t.ax0
        let j := match v with | some v => digitize t.ax1 v | none => digitizeNaN t.ax1
        match t.cell i j with
        | some c => showRat c
        | none => "ERR"))
  -- dist_dots
  | "match", [bound, q, t] => do
    let b ← parseBound bound; let q ← parseCloud q; let t ← parseCloud t
    match distDots q t b with
    | none => pure "RAISE"
    | some ms => pure (";".intercalate (ms.map showMatch))
  -- per-point table bins of the matched pairs
  | "bins", [tab, hd, q, t] =>
    match words hd with
    | [ua, bound] => do
      let tb ← parseTable tab; let ua ← parseBool ua; let b ← parseBound bound
      let q ← parseCloud q; let t ← parseCloud t
      match tb, distDots q t b with
      | some tb, some ms => pure (";".intercalate (ms.map fun m =>
          s!"{digitize tb.ax0 (matchArgs ua m).1}:{digitize tb.ax1 (matchArgs ua m).2}"))
      | _, _ => pure "RAISE"
    | _ => none
  -- calc_self_hit
  | "selfhit", [tab, ua, cloud, tol, impl] => do
    let tb ← parseTable tab; let ua ← parseBool ua; let c ← parseCloud cloud
    let tol ← parseRat tol; let impl ← parseRat impl
    match tb with
    | none => pure "RAISE"
    | some tb =>
      match selfHit tb.call ua c with
      | none => pure "RAISE"
      | some m =>
        let sa := (selfHit (absFn tb.call) ua c).getD 0
        pure (if close tol 0 sa m impl then "OK" else s!"DIFF model={showRat m} impl={showRat impl}")
  -- limit_dist='auto'
  | "autolimit", [tab, c105, tol, impl] => do
    let tb ← parseTable tab; let c ← parseRat c105; let tol ← parseRat tol; let impl ← parseRat impl
    match tb.bind (autoLimit · c) with
    | none => pure "RAISE"
    | some m => pure (if close tol 0 0 m impl then "OK" else s!"DIFF model={showRat m} impl={showRat impl}")
  -- nblast / nblast_allbyall, compared with the implementation's matrix
  | "nblast", [tab, hd, q, t, tols, impl] =>
    match words hd, words tols with
    | [fnName, ua, norm, bound, mode], [tol, tolOut] => do
      let tb ← parseTable tab; let ua ← parseBool ua; let norm ← parseBool norm; let b ← parseBound bound
      let mode ← parseMode mode
      let q ← parseNeurons q; let t ← parseNeurons t
      let tol ← parseRat tol; let tolOut ← parseRat tolOut
      let impl ← parseImplVals impl
      match tb with
      | none => pure "RAISE"
      | some tb =>
        let cfg : Cfg := ⟨ua, norm, b⟩
        let fn : ScoreFn := tb.call
        let (res, qs, ts, diagExact) :=
          if fnName == "allbyall" then (nblastAllByAll fn cfg q, q, q, true) else (nblast fn cfg q t mode, q, t, false)
        match res with
        | none => pure "UNDEF"
        | some f =>
          let both := mode == Mode.both && fnName != "allbyall"
          let scale := fun (r c : Nat) =>
            let r' := if both then r / 2 else r
            let qc := ((qs[r']?).map (·.pts)).getD []
            let tc := ((ts[c]?).map (·.pts)).getD []
            if diagExact && r' == c then (if norm then 0 else (selfHit (absFn fn) ua qc).getD 0)
            else pairScale fn cfg qc tc + (if mode == Mode.forward || fnName == "allbyall" then 0 else pairScale fn cfg tc qc)
          pure s!"{showLabels f}#{compareVals tol tolOut f.vals scale impl}"
    | _, _ => none
  -- kd-tree cache history:  <lazy flags 0/1,...>|ev;ev;...   (flags of the invalidating methods come from Gen/DpTree)
  | "hist", [objs, evs] => do
    let ls ← (sepList "," objs).mapM parseBool
    let es ← (sepList ";" evs).mapM parseEv
    let s0 : List (Obj Nat) := ls.map fun l => ⟨0, none, l⟩
    let logs := runLog Gen.DpTree.inval s0 es
    let fin := (DpCache.run Gen.DpTree.inval s0 es).1
    pure (";".intercalate (logs.map fun l => ",".intercalate (l.map fun (u, c) => s!"{u}:{c}")) ++ "#" ++
          ",".intercalate (fin.map showObj) ++ "#" ++ (if safe Gen.DpTree.inval es then "safe" else "unsafe"))
  | "invalflags", _ =>
    pure (",".intercalate (Method.all.map fun m => s!"{m.name}:{match Gen.DpTree.invalOpt m with | some true => "1" | some false => "0" | none => "?"}"))
  -- nblast_smart: value of every cell under the implementation's own mask, and the mask criterion='score' documents
  | "smart", [tab, hd, q, t, tols, mask, impl] =>
    match words hd, words tols with
    | [ua, norm, bound, mode, thr], [tol, tolOut, exact] => do
      let tb ← parseTable tab; let ua ← parseBool ua; let norm ← parseBool norm; let b ← parseBound bound
      let mode ← parseMode mode
      let thr ← parseBound thr
      let exact ← parseBool exact
      let q ← parseNeurons q; let t ← parseNeurons t
      let tol ← parseRat tol; let tolOut ← parseRat tolOut
      let mask ← parseMask mask
      let impl ← parseImplVals impl
      match tb with
      | none => pure "RAISE"
      | some tb =>
        let cfg : Cfg := ⟨ua, norm, b⟩
        let fn : ScoreFn := tb.call
        match smartVals fn cfg mode q t mask, smartVals fn cfg mode q t (q.map fun _ => t.map fun _ => false) with
        | some vals, some pre =>
          let scale := fun (r c : Nat) =>
            let sel := ((mask[r]?).bind (·[c]?)).getD false
            let qc := ((q[r]?).map (·.pts)).getD []
            let tc := ((t[c]?).map (·.pts)).getD []
            let qc := if sel then qc else downsampleSimple 10 qc
            let tc := if sel then tc else downsampleSimple 10 tc
            pairScale fn cfg qc tc + (if mode == Mode.forward then 0 else pairScale fn cfg tc qc)
          let crit := match thr with
            | none => "-"
            | some th => ";".intercalate (pre.map fun (row : List Rat) => ",".intercalate (row.map fun (v : Rat) =>
                if exact && v == th then "T"   -- `scr >= t`; sums of dyadic cells are exact in floating point
                else if absR (v - th) ≤ tol * maxR 1 (absR v) then "E" else if th ≤ v then "T" else "F"))
          pure s!"{compareVals tol tolOut vals scale impl}#{crit}"
        | _, _ => pure "UNDEF"
    | _, _ => none
  -- exact model values (used by replay / debugging)
  | "nblastval", [tab, hd, q, t] =>
    match words hd with
    | [fnName, ua, norm, bound, mode] => do
      let tb ← parseTable tab; let ua ← parseBool ua; let norm ← parseBool norm; let b ← parseBound bound
      let mode ← parseMode mode
      let q ← parseNeurons q; let t ← parseNeurons t
      match tb with
      | none => pure "RAISE"
      | some tb =>
        let cfg : Cfg := ⟨ua, norm, b⟩
        let res := if fnName == "allbyall" then nblastAllByAll tb.call cfg q else nblast tb.call cfg q t mode
        match res with
        | none => pure "UNDEF"
        | some f => pure s!"{showLabels f}#{";".intercalate (f.vals.map fun r => ",".intercalate (r.map showRat))}"
    | _ => none
  | _, _ => none

end Navis.Drv.C06
