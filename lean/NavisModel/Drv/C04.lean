import NavisModel.Drv.C04Ext
import NavisModel.Drv.Prune
/-! C04 talks to the shared forest / pruning commands (`f.`, `p.`) and to its own extension commands
(`c04x.`, `Drv/C04Ext.lean`).  This module only exists so that the development entry point
(`NAVIS_DRV_MAIN=NavisModel/Drv/MainC04Ext.lean ./check C04`) has a `Drv.C04` target to build. -/
namespace Navis.Drv.C04

def run (cmd rest : String) : Option String := Navis.Drv.C04Ext.run cmd rest

end Navis.Drv.C04
