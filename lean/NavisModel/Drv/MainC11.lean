import NavisModel.Drv.C11
/-! Development entry point: `NAVIS_DRV_MAIN=NavisModel/Drv/MainC11.lean ./check C11`. -/
def main : IO Unit := Navis.Proto.mainLoop fun head rest =>
  match head.splitOn "." with
  | ["c11", cmd] => Navis.Drv.C11.run cmd rest
  | ["f", cmd] => Navis.Drv.Forest.run cmd rest
  | _ => none
