import NavisModel.Model.Volume
import NavisModel.Model.VolCache
import NavisModel.Gen.VolCache
import NavisModel.Model.InVolumeShape
import NavisModel.Gen.InVolume
import NavisModel.Gen.SnapCast
import NavisModel.Drv.Proto
/-!
Line protocol for C18.  Segments are separated by `|`, blanks around separators are ignored.

* point `a,b,c` (query points: **doubled** coordinates); point list `a,b,c;a,b,c` (empty = no point)
* solid  `+x0,y0,z0,x1,y1,z1;-x0,…` (`+` add box, `-` carve box, mesh units), optionally prefixed by a pose
  `P:sx,sy,sz,fx,fy,fz,perm,tx,ty,tz@` (`perm` ∈ xyz|xzy|yxz|yzx|zxy|zyx, flips 0/1): the driver applies `Pose.solid`
* polytope `H:nx,ny,nz,d;nx,ny,nz,d;…` (half-spaces `n·x < d`, mesh units) — accepted wherever a solid is
* volumes `name=solid/name=solid`
* nodes `id:a,b,c;…`, tree connectors `cid:node;…`, positioned connectors `cid:a,b,c;…`, faces `i,j,k;…`

Commands
* `c18.mem solid | pts` → bit string
* `c18.chkmask solid | pts | bits` → `1`/`0`   (`checkMask` on navis' own mask)
* `c18.tree MODE | solid | nodes | conns` → `ids|cids`   (`inVolumeTreeAs` on the shape generated from the source;
  `c18.prune` = `TreeNeuron.prune_by_volume`, `c18.nlist` = a one-element `NeuronList`; `c18.shape` prints the shape as `1`/`0`/`-` per field)
* `c18.dots MODE | solid | pts | pconns` → `kept|cid:j,…`
* `c18.mesh MODE | solid | verts | faces | pconns` → `kept|subset|cid:j,…|nfaces|straddle(0/1)`
* `c18.dict MODE | volumes | nodes | conns` → `name:ids:cids/…`          (dict of volumes, one neuron)
* `c18.list MODE | volumes | nodes | conns` → same or `ERR:dup`            (list of named volumes)
* `c18.dictpts volumes | pts` → `name:bits/…`
* `c18.imat MODE | volumes | nodes~conns # nodes~conns …` → `name:n,n,…/…`   (`attr='n_nodes'`)
* `c18.imatlist MODE | volumes | trees` → same for a *list* of volumes, `ERR:dup` for duplicated names
* `c18.snap data | ids | queries` → `id:d2;…` (`ids` empty ⇒ row index)
* `c18.hist solid0 | op | op | …` → one `fresh:usedbits:curbits` per query op, `;`-separated.  A *volume history*: object 0
  starts as a fresh Volume with geometry `solid0`; ops (blank-separated words)
  `q i backend rays pts` (query object `i`), `m i mutator P:pose` / `m i mutator S:solid` (in-place mutator: pose the
  current solid / replace it), `c i P:pose` (copy-like derivation: new object, posed), `p i` (pickle round trip: new
  object).  The cache behaviour is `Navis.VolCache.step` run on the `Spec` **generated from the current source**
  (`Gen/VolCache.lean`); `usedbits` is the membership of `pts` in the geometry the answer is computed from, `curbits` in
  the current geometry of the object, `fresh` = `1` iff the two geometries are the same solid.
* `c18.cachespec` → the generated spec (`backend=attr/raysKeyed,…|mutator=clears+clears,…|drops`)
* `c18.vox MODE | solid | cells | values | ux,uy,uz | ox,oy,oz` → `cells|values` (VoxelNeuron; `cells` are voxel indices)
* `c18.chkvox MODE | solid | cells | values | units | offset | keptcells | keptvalues` → `1`/`0` (`checkVoxKept`)
* `c18.backend available,… | requested,…` → selected back-end or `ERR:none-available`
* `c18.rays default | n` (`n` an integer or `None`) → effective ray count or `ERR:value`
* `c18.pyoc bboxbits | raybits;raybits;…` → bits (`pyocLoop`: the per-ray verdicts of `in_volume_pyoc` combined)
* `c18.snapq CLASS isInt(0/1) | data | ids | q10;q10…` → `id:dd:nties;…` — `snapQ` with the cast GENERATED from the source for
  `CLASS` ∈ TreeNeuron|MeshNeuron|Dotprops; queries in tenths, `dd` = 100·dist² from the cast query, `nties` rows at that distance
* `c18.chknearq data | q10 | ix | num | den` → `1`/`0` (`checkNearestQ`: true nearest row, distance `num/den` within tolerance)
* `c18.snapcasts` → `TreeNeuron=float64,MeshNeuron=data,…`
* `c18.chkpart all | a | b`, `c18.chkconn conns | keptNodes | keptConns`, `c18.chknear data | p | ix | dd` → `1`/`0`
-/
namespace Navis.Drv.C18
open Navis.Volume Navis.Proto

def b01 (b : Bool) : String := if b then "1" else "0"

def bits (l : List Bool) : String := String.join (l.map b01)

def parseBits (s : String) : Option (List Bool) :=
  (trim s).toList.mapM fun c => if c == '1' then some true else if c == '0' then some false else none

def parseP3 (s : String) : Option P3 := do
  match ← intList? s with
  | [a, b, c] => pure ⟨a, b, c⟩
  | _ => none

def parseList {α} (sep : String) (f : String → Option α) (s : String) : Option (List α) :=
  let s := trim s
  if s.isEmpty then some [] else (s.splitOn sep).mapM f

def parsePts (s : String) : Option (List P3) := parseList ";" parseP3 s

def parsePerm (s : String) : Option Perm3 :=
  match trim s with
  | "xyz" => some .xyz | "xzy" => some .xzy | "yxz" => some .yxz
  | "yzx" => some .yzx | "zxy" => some .zxy | "zyx" => some .zyx
  | _ => none

def parseFlag (s : String) : Option Bool :=
  match trim s with
  | "1" => some true | "0" => some false | _ => none

def parsePose (s : String) : Option Pose :=
  match (trim s).splitOn "," with
  | [sx, sy, sz, fx, fy, fz, pm, tx, ty, tz] => do
    let sx ← (trim sx).toNat?; let sy ← (trim sy).toNat?; let sz ← (trim sz).toNat?
    let fx ← parseFlag fx; let fy ← parseFlag fy; let fz ← parseFlag fz
    let pm ← parsePerm pm
    let tx ← (trim tx).toInt?; let ty ← (trim ty).toInt?; let tz ← (trim tz).toInt?
    if sx == 0 || sy == 0 || sz == 0 then none else pure ⟨sx, sy, sz, fx, fy, fz, pm, ⟨tx, ty, tz⟩⟩
  | _ => none

def parseSBox (s : String) : Option (Bool × Box) :=
  let s := trim s
  let sign := if s.startsWith "+" then some true else if s.startsWith "-" then some false else none
  match sign with
  | none => none
  | some sg => do
    match ← intList? ((s.drop 1).toString) with
    | [a, b, c, d, e, f] => pure (sg, ⟨⟨a, b, c⟩, ⟨d, e, f⟩⟩)
    | _ => none

def parseSolid (s : String) : Option Solid :=
  let s := trim s
  if s.startsWith "P:" then
    match ((s.drop 2).toString).splitOn "@" with
    | [p, body] => do
      let π ← parsePose p
      let S ← parseList ";" parseSBox body
      pure (π.solid S)
    | _ => none
  else parseList ";" parseSBox s

def parseHalf (s : String) : Option HalfSpace := do
  match ← intList? s with
  | [a, b, c, d] => pure ⟨⟨a, b, c⟩, d⟩
  | _ => none

/-- the inside test of one volume: a box complex (optionally posed) or a convex polytope -/
def parseInside (s : String) : Option Inside :=
  let s := trim s
  if s.startsWith "H:" then (parseList ";" parseHalf ((s.drop 2).toString)).map memPoly
  else (parseSolid s).map mem

def parseVols (s : String) : Option (List (String × Inside)) :=
  parseList "/" (fun t => match (trim t).splitOn "=" with
    | [k, v] => (parseInside v).map fun S => (trim k, S)
    | _ => none) s

def parseMode (s : String) : Option Mode :=
  match trim s with
  | "IN" => some .IN | "OUT" => some .OUT | _ => none

def parseNode (s : String) : Option Node :=
  match (trim s).splitOn ":" with
  | [i, p] => do let i ← (trim i).toInt?; let p ← parseP3 p; pure ⟨i, p⟩
  | _ => none

def parseConn (s : String) : Option Conn :=
  match (trim s).splitOn ":" with
  | [c, n] => do let c ← (trim c).toInt?; let n ← (trim n).toInt?; pure ⟨c, n⟩
  | _ => none

def parsePConn (s : String) : Option PConn :=
  match (trim s).splitOn ":" with
  | [c, p] => do let c ← (trim c).toInt?; let p ← parseP3 p; pure ⟨c, p⟩
  | _ => none

def parseFace (s : String) : Option Face := do
  match ← natList? s with
  | [a, b, c] => pure ⟨a, b, c⟩
  | _ => none

def parseTree (nodes conns : String) : Option Tree := do
  let ns ← parseList ";" parseNode nodes
  let cs ← parseList ";" parseConn conns
  pure ⟨ns, cs⟩

def showTree (t : Tree) : String := s!"{showInts t.ids}|{showInts (t.conns.map (·.cid))}"
def showTree' (t : Tree) : String := s!"{showInts t.ids}:{showInts (t.conns.map (·.cid))}"

def showPairs (l : List (Int × Nat)) : String := ",".intercalate (l.map fun p => s!"{p.1}:{p.2}")

def showDict {β} (sh : β → String) (d : List (String × β)) : String :=
  "/".intercalate (d.map fun kv => s!"{kv.1}:{sh kv.2}")

/-! ### volume histories -/

open Navis.VolCache in
/-- geometry transformer of a mutator / derivation: `P:pose` poses the current solid, `S:solid` replaces it -/
def parseGeomFn (s : String) : Option (Solid → Solid) :=
  let s := trim s
  if s.startsWith "P:" then (parsePose ((s.drop 2).toString)).map fun π => π.solid
  else if s.startsWith "S:" then (parseSolid ((s.drop 2).toString)).map fun S => fun _ => S
  else none

inductive HOp where
  | q (i : Nat) (b : String) (rays : Nat) (pts : List P3)
  | o (op : Navis.VolCache.Op Solid)

def parseHOp (s : String) : Option HOp :=
  match words s with
  | ["q", i, b, r, pts] => do
    let i ← i.toNat?; let r ← r.toNat?; let pts ← parsePts pts
    pure (.q i b r pts)
  | ["q", i, b, r] => do
    let i ← i.toNat?; let r ← r.toNat?
    pure (.q i b r [])
  | ["m", i, m, g] => do
    let i ← i.toNat?; let f ← parseGeomFn g
    pure (.o (.mutate i m f))
  | ["c", i, g] => do
    let i ← i.toNat?; let f ← parseGeomFn g
    pure (.o (.copy i f))
  | ["p", i] => do
    let i ← i.toNat?
    pure (.o (.pickle i))
  | _ => none

/-- run the history with `VolCache.step` on the generated spec -/
def runHist (st : Navis.VolCache.Store Solid) : List HOp → List String
  | [] => []
  | .q i b r pts :: t =>
    let res := Navis.VolCache.step Navis.Gen.VolCache.spec st (.query i b r)
    match res.2 with
    | none => "none" :: runHist res.1 t
    | some a =>
      s!"{b01 (decide (a.used = a.current))}:{bits (inVolumePoints (mem a.used) pts)}:{bits (inVolumePoints (mem a.current) pts)}"
        :: runHist res.1 t
  | .o op :: t => runHist (Navis.VolCache.step Navis.Gen.VolCache.spec st op).1 t

def showSpec (s : Navis.VolCache.Spec) : String :=
  let bs := ",".intercalate (s.backends.map fun b => s!"{b.name}={b.attr.getD "-"}/{b01 b.raysKeyed}")
  let ms := ",".intercalate (s.mutators.map fun m => s!"{m.name}={"+".intercalate m.clears}")
  s!"{bs}|{ms}|{"+".intercalate s.pickleDrops}"

def run (cmd : String) (rest : String) : Option String :=
  let seg := (rest.splitOn "|").map trim
  match cmd, seg with
  | "hist", S0 :: ops => do
    let S0 ← parseSolid S0
    let ops ← ops.mapM parseHOp
    pure (";".intercalate (runHist [Navis.VolCache.Obj.fresh S0] ops))
  | "cachespec", _ => pure (showSpec Navis.Gen.VolCache.spec)
  | "vox", [mode, S, cells, vals, units, off] => do
    let mode ← parseMode mode; let S ← parseInside S; let cells ← parsePts cells; let vals ← intList? vals
    let u ← parseP3 units; let o ← parseP3 off
    let r := inVolumeVox S mode ⟨cells, vals, u, o⟩
    pure s!"{";".intercalate (r.cells.map fun c => s!"{c.x},{c.y},{c.z}")}|{showInts r.values}"
  | "chkvox", [mode, S, cells, vals, units, off, kc, kv] => do
    let mode ← parseMode mode; let S ← parseInside S; let cells ← parsePts cells; let vals ← intList? vals
    let u ← parseP3 units; let o ← parseP3 off; let kc ← parsePts kc; let kv ← intList? kv
    pure (b01 (kc.length == kv.length && checkVoxKept S mode ⟨cells, vals, u, o⟩ (kc.zip kv)))
  | "pyoc", [bb, rays] => do
    let bb ← parseBits bb
    let rays ← parseList ";" parseBits rays
    pure (bits (pyocLoop (fun i => bb.getD i false) (rays.map fun r => fun i => r.getD i false) (List.range bb.length)))
  | "backend", [av, req] =>
    let av := strList av
    match selectBackend (fun b => av.contains b) (strList req) with
    | some b => pure b
    | none => pure "ERR:none-available"
  | "rays", [d, n] => do
    let d ← (trim d).toNat?
    let n ← if trim n == "None" then pure none else (trim n).toInt?.map some
    match effRays d n with
    | .ok k => pure (toString k)
    | .valueError => pure "ERR:value"
  | "mem", [S, pts] => do
    let S ← parseInside S; let pts ← parsePts pts
    pure (bits (inVolumePoints S pts))
  | "chkmask", [S, pts, m] => do
    let S ← parseInside S; let pts ← parsePts pts; let m ← parseBits m
    pure (b01 (checkMask S pts m))
  | "tree", [mode, S, nodes, conns] => do
    let mode ← parseMode mode; let S ← parseInside S; let t ← parseTree nodes conns
    pure (showTree (inVolumeTreeAs Navis.Gen.InVolume.shape S mode t))
  | "prune", [mode, S, nodes, conns] => do
    let mode ← parseMode mode; let S ← parseInside S; let t ← parseTree nodes conns
    pure (showTree (pruneByVolumeAs Navis.Gen.InVolume.shape S mode t))
  | "nlist", [mode, S, nodes, conns] => do
    let mode ← parseMode mode; let S ← parseInside S; let t ← parseTree nodes conns
    pure (";".intercalate ((inVolumeListAs Navis.Gen.InVolume.shape S mode [t]).map showTree))
  | "shape", _ =>
    let s := Navis.Gen.InVolume.shape
    let o := fun (x : Option Bool) => match x with | none => "-" | some true => "1" | some false => "0"
    pure (",".intercalate [o s.invertBeforeShortcut, o s.invertOnOUT, o s.innerModeIN, o s.dictForwardsMode,
      o s.listForwardsMode, o s.pruneForwardsMode, o s.treeSubsetById, o s.defaultModeIN])
  | "dots", [mode, S, pts, conns] => do
    let mode ← parseMode mode; let S ← parseInside S; let pts ← parsePts pts
    let cs ← parseList ";" parsePConn conns
    let r := inVolumeDots S mode ⟨pts, cs⟩
    pure s!"{showNats r.kept}|{showPairs r.conns}"
  | "mesh", [mode, S, verts, faces, conns] => do
    let mode ← parseMode mode; let S ← parseInside S; let vs ← parsePts verts
    let fs ← parseList ";" parseFace faces
    let cs ← parseList ";" parsePConn conns
    let r := inVolumeMesh S mode ⟨vs, fs, cs⟩
    pure s!"{showNats r.kept}|{showNats r.subset}|{showPairs r.conns}|{r.faces.length}|{b01 (fs.any (·.straddles S vs))}"
  | "dict", [mode, vols, nodes, conns] => do
    let mode ← parseMode mode; let vols ← parseVols vols; let t ← parseTree nodes conns
    pure (showDict showTree' (inVolumeDict (fun S => inVolumeTreeAs Navis.Gen.InVolume.shape S
      (Navis.Gen.InVolume.shape.dictMode mode) t) (mkDict vols)))
  | "list", [mode, vols, nodes, conns] => do
    let mode ← parseMode mode; let vols ← parseVols vols; let t ← parseTree nodes conns
    match inVolumeNamed (fun S => inVolumeTreeAs Navis.Gen.InVolume.shape S (Navis.Gen.InVolume.shape.dictMode mode) t) vols with
    | none => pure "ERR:dup"
    | some d => pure (showDict showTree' d)
  | "dictpts", [vols, pts] => do
    let vols ← parseVols vols; let pts ← parsePts pts
    pure (showDict bits (inVolumeDict (fun S => inVolumePoints S pts) (mkDict vols)))
  | "imat", [mode, vols, trees] => do
    let mode ← parseMode mode; let vols ← parseVols vols
    let ts ← parseList "#" (fun t => match (trim t).splitOn "~" with
      | [n, c] => parseTree n c
      | _ => none) trees
    pure (showDict showNats (intersectionMatrix id (fun t => t.nodes.length) mode (mkDict vols) ts))
  | "imatlist", [mode, vols, trees] => do
    let mode ← parseMode mode; let vols ← parseVols vols
    let ts ← parseList "#" (fun t => match (trim t).splitOn "~" with
      | [n, c] => parseTree n c
      | _ => none) trees
    match intersectionMatrixList id (fun t => t.nodes.length) mode vols ts with
    | none => pure "ERR:dup"
    | some d => pure (showDict showNats d)
  | "snap", [data, ids, qs] => do
    let data ← parsePts data; let ids ← intList? ids; let qs ← parsePts qs
    let one := fun q =>
      if ids.isEmpty then (snapIdx data q).map fun r => s!"{r.1}:{r.2}"
      else (snapId ids data q).map fun r => s!"{r.1}:{r.2}"
    pure (";".intercalate (qs.map fun q => (one q).getD "none"))
  | "snapq", [hd, data, ids, qs] => do
    match words hd with
    | [cls, isInt] => do
      let isInt ← parseFlag isInt
      let data ← parsePts data; let ids ← intList? ids; let qs ← parsePts qs
      let c := Navis.Gen.SnapCast.castOf cls
      let one := fun q => (snapQ c isInt data q).map fun r =>
        s!"{if ids.isEmpty then (r.1 : Int) else ids.getD r.1 0}:{r.2}:{snapQTies c isInt data q}"
      pure (";".intercalate (qs.map fun q => (one q).getD "none"))
    | _ => none
  | "chknearq", [data, q, ix, num, den] => do
    let data ← parsePts data; let q ← parseP3 q; let ix ← ix.toNat?; let num ← num.toInt?; let den ← den.toInt?
    pure (b01 (checkNearestQ data q ix num den))
  | "snapcasts", _ =>
    pure (",".intercalate (Navis.Gen.SnapCast.casts.map fun x =>
      s!"{x.1}={match x.2 with | .float64 => "float64" | .data => "data" | .other => "other"}"))
  | "chkpart", [all, a, b] => do
    let all ← intList? all; let a ← intList? a; let b ← intList? b
    pure (b01 (checkPartition all a b))
  | "chkconn", [conns, kn, kc] => do
    let cs ← parseList ";" parseConn conns; let kn ← intList? kn; let kc ← intList? kc
    pure (b01 (checkOwnConns cs kn kc))
  | "chknear", [data, p, ix, dd] => do
    let data ← parsePts data; let p ← parseP3 p; let ix ← ix.toNat?; let dd ← dd.toInt?
    pure (b01 (checkNearest data p ix dd))
  | _, _ => none

end Navis.Drv.C18
