import NavisModel.Model.Volume
import NavisModel.Drv.Proto
/-!
Line protocol for C18.  Segments are separated by `|`, blanks around separators are ignored.

* point `a,b,c` (query points: **doubled** coordinates); point list `a,b,c;a,b,c` (empty = no point)
* solid  `+x0,y0,z0,x1,y1,z1;-x0,…` (`+` add box, `-` carve box, mesh units), optionally prefixed by a pose
  `P:sx,sy,sz,fx,fy,fz,perm,tx,ty,tz@` (`perm` ∈ xyz|xzy|yxz|yzx|zxy|zyx, flips 0/1): the driver applies `Pose.solid`
* polytope `H:nx,ny,nz,d;nx,ny,nz,d;…` (half-spaces `n·x < d`, mesh units) — accepted wherever a solid is
* volumes `name=solid/name=solid`
* nodes `id:a,b,c;…`, tree connectors `cid:node;…`, positioned connectors `cid:a,b,c;…`, faces `i,j,k;…`

Commands
* `c18.mem solid | pts` → bit string
* `c18.chkmask solid | pts | bits` → `1`/`0`   (`checkMask` on navis' own mask)
* `c18.tree MODE | solid | nodes | conns` → `ids|cids`
* `c18.dots MODE | solid | pts | pconns` → `kept|cid:j,…`
* `c18.mesh MODE | solid | verts | faces | pconns` → `kept|subset|cid:j,…|nfaces|straddle(0/1)`
* `c18.dict MODE | volumes | nodes | conns` → `name:ids:cids/…`          (dict of volumes, one neuron)
* `c18.list MODE | volumes | nodes | conns` → same or `ERR:dup`            (list of named volumes)
* `c18.dictpts volumes | pts` → `name:bits/…`
* `c18.imat MODE | volumes | nodes~conns # nodes~conns …` → `name:n,n,…/…`   (`attr='n_nodes'`)
* `c18.snap data | ids | queries` → `id:d2;…` (`ids` empty ⇒ row index)
* `c18.chkpart all | a | b`, `c18.chkconn conns | keptNodes | keptConns`, `c18.chknear data | p | ix | dd` → `1`/`0`
-/
namespace Navis.Drv.C18
open Navis.Volume Navis.Proto

def b01 (b : Bool) : String := if b then "1" else "0"

def bits (l : List Bool) : String := String.join (l.map b01)

def parseBits (s : String) : Option (List Bool) :=
  (trim s).toList.mapM fun c => if c == '1' then some true else if c == '0' then some false else none

def parseP3 (s : String) : Option P3 := do
  match ← intList? s with
  | [a, b, c] => pure ⟨a, b, c⟩
  | _ => none

def parseList {α} (sep : String) (f : String → Option α) (s : String) : Option (List α) :=
  let s := trim s
  if s.isEmpty then some [] else (s.splitOn sep).mapM f

def parsePts (s : String) : Option (List P3) := parseList ";" parseP3 s

def parsePerm (s : String) : Option Perm3 :=
  match trim s with
  | "xyz" => some .xyz | "xzy" => some .xzy | "yxz" => some .yxz
  | "yzx" => some .yzx | "zxy" => some .zxy | "zyx" => some .zyx
  | _ => none

def parseFlag (s : String) : Option Bool :=
  match trim s with
  | "1" => some true | "0" => some false | _ => none

def parsePose (s : String) : Option Pose :=
  match (trim s).splitOn "," with
  | [sx, sy, sz, fx, fy, fz, pm, tx, ty, tz] => do
    let sx ← (trim sx).toNat?; let sy ← (trim sy).toNat?; let sz ← (trim sz).toNat?
    let fx ← parseFlag fx; let fy ← parseFlag fy; let fz ← parseFlag fz
    let pm ← parsePerm pm
    let tx ← (trim tx).toInt?; let ty ← (trim ty).toInt?; let tz ← (trim tz).toInt?
    if sx == 0 || sy == 0 || sz == 0 then none else pure ⟨sx, sy, sz, fx, fy, fz, pm, ⟨tx, ty, tz⟩⟩
  | _ => none

def parseSBox (s : String) : Option (Bool × Box) :=
  let s := trim s
  let sign := if s.startsWith "+" then some true else if s.startsWith "-" then some false else none
  match sign with
  | none => none
  | some sg => do
    match ← intList? ((s.drop 1).toString) with
    | [a, b, c, d, e, f] => pure (sg, ⟨⟨a, b, c⟩, ⟨d, e, f⟩⟩)
    | _ => none

def parseSolid (s : String) : Option Solid :=
  let s := trim s
  if s.startsWith "P:" then
    match ((s.drop 2).toString).splitOn "@" with
    | [p, body] => do
      let π ← parsePose p
      let S ← parseList ";" parseSBox body
      pure (π.solid S)
    | _ => none
  else parseList ";" parseSBox s

def parseHalf (s : String) : Option HalfSpace := do
  match ← intList? s with
  | [a, b, c, d] => pure ⟨⟨a, b, c⟩, d⟩
  | _ => none

/-- the inside test of one volume: a box complex (optionally posed) or a convex polytope -/
def parseInside (s : String) : Option Inside :=
  let s := trim s
  if s.startsWith "H:" then (parseList ";" parseHalf ((s.drop 2).toString)).map memPoly
  else (parseSolid s).map mem

def parseVols (s : String) : Option (List (String × Inside)) :=
  parseList "/" (fun t => match (trim t).splitOn "=" with
    | [k, v] => (parseInside v).map fun S => (trim k, S)
    | _ => none) s

def parseMode (s : String) : Option Mode :=
  match trim s with
  | "IN" => some .IN | "OUT" => some .OUT | _ => none

def parseNode (s : String) : Option Node :=
  match (trim s).splitOn ":" with
  | [i, p] => do let i ← (trim i).toInt?; let p ← parseP3 p; pure ⟨i, p⟩
  | _ => none

def parseConn (s : String) : Option Conn :=
  match (trim s).splitOn ":" with
  | [c, n] => do let c ← (trim c).toInt?; let n ← (trim n).toInt?; pure ⟨c, n⟩
  | _ => none

def parsePConn (s : String) : Option PConn :=
  match (trim s).splitOn ":" with
  | [c, p] => do let c ← (trim c).toInt?; let p ← parseP3 p; pure ⟨c, p⟩
  | _ => none

def parseFace (s : String) : Option Face := do
  match ← natList? s with
  | [a, b, c] => pure ⟨a, b, c⟩
  | _ => none

def parseTree (nodes conns : String) : Option Tree := do
  let ns ← parseList ";" parseNode nodes
  let cs ← parseList ";" parseConn conns
  pure ⟨ns, cs⟩

def showTree (t : Tree) : String := s!"{showInts t.ids}|{showInts (t.conns.map (·.cid))}"
def showTree' (t : Tree) : String := s!"{showInts t.ids}:{showInts (t.conns.map (·.cid))}"

def showPairs (l : List (Int × Nat)) : String := ",".intercalate (l.map fun p => s!"{p.1}:{p.2}")

def showDict {β} (sh : β → String) (d : List (String × β)) : String :=
  "/".intercalate (d.map fun kv => s!"{kv.1}:{sh kv.2}")

def run (cmd : String) (rest : String) : Option String :=
  let seg := (rest.splitOn "|").map trim
  match cmd, seg with
  | "mem", [S, pts] => do
    let S ← parseInside S; let pts ← parsePts pts
    pure (bits (inVolumePoints S pts))
  | "chkmask", [S, pts, m] => do
    let S ← parseInside S; let pts ← parsePts pts; let m ← parseBits m
    pure (b01 (checkMask S pts m))
  | "tree", [mode, S, nodes, conns] => do
    let mode ← parseMode mode; let S ← parseInside S; let t ← parseTree nodes conns
    pure (showTree (pruneByVolume S mode t))
  | "dots", [mode, S, pts, conns] => do
    let mode ← parseMode mode; let S ← parseInside S; let pts ← parsePts pts
    let cs ← parseList ";" parsePConn conns
    let r := inVolumeDots S mode ⟨pts, cs⟩
    pure s!"{showNats r.kept}|{showPairs r.conns}"
  | "mesh", [mode, S, verts, faces, conns] => do
    let mode ← parseMode mode; let S ← parseInside S; let vs ← parsePts verts
    let fs ← parseList ";" parseFace faces
    let cs ← parseList ";" parsePConn conns
    let r := inVolumeMesh S mode ⟨vs, fs, cs⟩
    pure s!"{showNats r.kept}|{showNats r.subset}|{showPairs r.conns}|{r.faces.length}|{b01 (fs.any (·.straddles S vs))}"
  | "dict", [mode, vols, nodes, conns] => do
    let mode ← parseMode mode; let vols ← parseVols vols; let t ← parseTree nodes conns
    pure (showDict showTree' (inVolumeDict (fun S => inVolumeTree S mode t) (mkDict vols)))
  | "list", [mode, vols, nodes, conns] => do
    let mode ← parseMode mode; let vols ← parseVols vols; let t ← parseTree nodes conns
    match inVolumeNamed (fun S => inVolumeTree S mode t) vols with
    | none => pure "ERR:dup"
    | some d => pure (showDict showTree' d)
  | "dictpts", [vols, pts] => do
    let vols ← parseVols vols; let pts ← parsePts pts
    pure (showDict bits (inVolumeDict (fun S => inVolumePoints S pts) (mkDict vols)))
  | "imat", [mode, vols, trees] => do
    let mode ← parseMode mode; let vols ← parseVols vols
    let ts ← parseList "#" (fun t => match (trim t).splitOn "~" with
      | [n, c] => parseTree n c
      | _ => none) trees
    pure (showDict showNats (intersectionMatrix id (fun t => t.nodes.length) mode (mkDict vols) ts))
  | "snap", [data, ids, qs] => do
    let data ← parsePts data; let ids ← intList? ids; let qs ← parsePts qs
    let one := fun q =>
      if ids.isEmpty then (snapIdx data q).map fun r => s!"{r.1}:{r.2}"
      else (snapId ids data q).map fun r => s!"{r.1}:{r.2}"
    pure (";".intercalate (qs.map fun q => (one q).getD "none"))
  | "chkpart", [all, a, b] => do
    let all ← intList? all; let a ← intList? a; let b ← intList? b
    pure (b01 (checkPartition all a b))
  | "chkconn", [conns, kn, kc] => do
    let cs ← parseList ";" parseConn conns; let kn ← intList? kn; let kc ← intList? kc
    pure (b01 (checkOwnConns cs kn kc))
  | "chknear", [data, p, ix, dd] => do
    let data ← parsePts data; let p ← parseP3 p; let ix ← ix.toNat?; let dd ← dd.toInt?
    pure (b01 (checkNearest data p ix dd))
  | _, _ => none

end Navis.Drv.C18
