import NavisModel.Model.Units
import NavisModel.Model.UnitsHist
import NavisModel.Drv.Proto
/-!
Line protocol for C15 (sections are separated by ` | `).

* rational : `n` or `n/d`;  vector `a,b,c`;  point list: vectors separated by blanks, `-` = empty
* units    : `a,b,c@E` (`E` = decimal exponent of the base unit relative to metre) or `a,b,c@D` (dimensionless)
* neuron   : `K;pts;radii;conns;offset;units;name;id`, `K ∈ T M D V`, radii `r,r,…` or `-`
* factor   : `s:k` | `v3:a,b,c` | `v4:a,b,c,r`
* tolerance: `x` (exact) or `k` (relative `2^-k`, see `closeR`)

Commands
* `c15.arith <mul|div|add|sub> <factor> <p> <tolData> <tolUnits> | <in> | <out or ERR>` →
  `model=<neuron or ERR> corr=<ok|diff:fields> phys=<1|0|na> back=<1|0|na>`
  (`phys` for `add/sub`: world coordinates and connectors shifted by the same vector, radii and units
  untouched; for `mul/div`: `samePhysB` of input and the implementation's output — the property checker of
  `Props.C15.samePhysB_sound` — with the larger of the two tolerances, since pint's unit magnitudes are rounded; `back`: undoing the operation on the implementation's output with the model
  gives back the input)
* `c15.convert <tgt> <p> <tolData> <tolUnits> | <in> | <out or ERR>` → same shape, `back=` is
  `unit=<1|0>` (output unit has the physical value of one target unit)
* `c15.map <n:v | q:a@E> <tol> | <units> | <impl value or ERR>` → `model=<rat or ERR> corr=<ok|diff> exact=<1|0>`
* `c15.setunits <arg> <arg> … | <impl units or ERR>` (`arg`: `N`, `n:v`, `p:m@E`) → `model=… corr=…`
* `c15.meta <copy|oncopy|construct|pickle|rewrap|reinitcut> | <in>` → `units;name;id` or `ERR`
* `c15.reinit <D | arg arg …> | <in>` → `units;name;id` or `ERR`: `cls(x, units=…)` (`D` = the default `None`)
* `c15.fromtable <D | arg arg …>` → units or `ERR`: construction from a bare table
* `c15.same <tolData> <radii01> | <A> | <B>` → `1|0` (`samePhysB`)
* `c15.cmp <tolData> <tolUnits> | <A> | <B>` → `ok | diff:fields`
* `c15.addunits <class> <property> <tol> | <units> | <raw value> | <reported quantity in base units, x,y,z or ->` →
  `power=<d from the generated decorator sites> model=<raw × units^d per axis (metres^d)> ok=<1|0|na>` (`addUnitsB`)
* `c15.voxvol <tol> <nnz> <power of length of the reported quantity> | <units> | <reported volume in base units>` →
  `model=<nnz × product of the voxel sizes of the axes the source multiplies> ok=<1|0>` (`voxelVolumeB`)
* `c15.hist <tolData> <tolUnits> <scalar01> | <in> | <par rows, comma> | <step> <step> … | <out> | <keys> | <views>` →
  `model=<neuron or ERR> corr=… caches=<ok|diff:model-keys> views=<ok|diff:names|na> phys=<1|0|na>`
  (`step`: `w:a,b,…` — the cached attributes present after a warming step (absent ones are computed from the current
  table) —, `mul:<factor>:<p>`, `div:…`, `add:<factor>:0`, `sub:…`, `c:<tgt>:<p>`; `keys`: the cached attributes navis
  holds after the history; `views`: `name=v,v,…;…` with `_igraph`, `_graph_nx` (edge weight of every row), `d2r`
  (distance to root of every row), `_cable_length`; `views`: navis' values against `viewW elen` of the model's final state
  — the model keeps exactly the caches the *generated* exclude lists keep —; `phys`: the checkers `histPhysB / histPathB /
  histCableB` (sound by `Props.C15.histPhysB_sound …`) on navis' values against the neuron the history started from)
-/
namespace Navis.Drv.C15
open Navis.Units Navis.Proto

def parseRat (s : String) : Option Rat :=
  match (trim s).splitOn "/" with
  | [n] => (trim n).toInt?.map fun i => (i : Rat)
  | [n, d] => do
    let n ← (trim n).toInt?; let d ← (trim d).toNat?
    if d == 0 then none else pure ((n : Rat) / (d : Rat))
  | _ => none

def showRat (r : Rat) : String := if r.den == 1 then toString r.num else s!"{r.num}/{r.den}"

def parseV3 (s : String) : Option V3 :=
  match (trim s).splitOn "," with
  | [a, b, c] => do
    let a ← parseRat a; let b ← parseRat b; let c ← parseRat c
    pure ⟨a, b, c⟩
  | _ => none

def showV3 (v : V3) : String := s!"{showRat v.x},{showRat v.y},{showRat v.z}"

def parsePts (s : String) : Option (List V3) :=
  let s := trim s
  if s == "-" || s.isEmpty then some [] else (words s).mapM parseV3

def showPts (l : List V3) : String := if l.isEmpty then "-" else " ".intercalate (l.map showV3)

def parseRats (s : String) : Option (List Rat) :=
  let s := trim s
  if s == "-" || s.isEmpty then some [] else (s.splitOn ",").mapM parseRat

def showRats (l : List Rat) : String := if l.isEmpty then "-" else ",".intercalate (l.map showRat)

def parseBase (s : String) : Option Base :=
  let s := trim s
  if s == "D" then some .dimless else s.toInt?.map .metre

def showBase : Base → String
  | .dimless => "D"
  | .metre e => toString e

def parseUnits (s : String) : Option Units :=
  match (trim s).splitOn "@" with
  | [m, b] => do
    let m ← parseV3 m; let b ← parseBase b
    pure ⟨m, b⟩
  | _ => none

def showUnits (u : Units) : String := s!"{showV3 u.mag}@{showBase u.base}"

def parseKind (s : String) : Option Kind :=
  match trim s with
  | "T" => some .tree
  | "M" => some .mesh
  | "D" => some .dotprops
  | "V" => some .voxel
  | _ => none

def showKind : Kind → String
  | .tree => "T" | .mesh => "M" | .dotprops => "D" | .voxel => "V"

def parseNeuron (s : String) : Option Neuron :=
  match (trim s).splitOn ";" with
  | [k, pts, radii, conns, off, u, name, id] => do
    let k ← parseKind k; let pts ← parsePts pts; let radii ← parseRats radii; let conns ← parsePts conns
    let off ← parseV3 off; let u ← parseUnits u; let id ← (trim id).toInt?
    pure ⟨k, pts, radii, conns, off, u, trim name, id⟩
  | _ => none

def showNeuron (n : Neuron) : String :=
  s!"{showKind n.kind};{showPts n.pts};{showRats n.radii};{showPts n.conns};{showV3 n.offset};{showUnits n.units};{n.name};{n.id}"

def parseNeuron? (s : String) : Option (Option Neuron) :=
  if trim s == "ERR" then some none else (parseNeuron s).map some

def showNeuron? : Option Neuron → String
  | none => "ERR"
  | some n => showNeuron n

def parseFactor (s : String) : Option Factor :=
  match (trim s).splitOn ":" with
  | ["s", k] => (parseRat k).map .s
  | ["v3", v] => (parseV3 v).map .v3
  | ["v4", v] =>
    match (trim v).splitOn "," with
    | [a, b, c, r] => do
      let a ← parseRat a; let b ← parseRat b; let c ← parseRat c; let r ← parseRat r
      pure (.v4 ⟨a, b, c⟩ r)
    | _ => none
  | _ => none

def pow2 (k : Nat) : Rat := 1 / ((2 : Rat) ^ k)

def parseTol (s : String) : Option Rat :=
  if trim s == "x" then some 0 else (trim s).toNat?.map pow2

def b01 (b : Bool) : String := if b then "1" else "0"

/-- field-wise comparison; returns the names of the fields that differ -/
def diffFields (tolD tolU : Rat) (a b : Neuron) : List String :=
  (if a.kind == b.kind then [] else ["kind"]) ++
  (if closeL tolD a.pts b.pts then [] else ["pts"]) ++
  (if closeRL tolD a.radii b.radii then [] else ["radii"]) ++
  (if closeL tolD a.conns b.conns then [] else ["conns"]) ++
  (if closeV tolD a.offset b.offset then [] else ["offset"]) ++
  (if a.units.base == b.units.base then [] else ["unit-base"]) ++
  (if closeV tolU a.units.mag b.units.mag then [] else ["unit-mag"]) ++
  (if a.name == b.name then [] else ["name"]) ++
  (if a.id == b.id then [] else ["id"])

def showCorr (tolD tolU : Rat) : Option Neuron → Option Neuron → String
  | none, none => "ok"
  | some a, some b =>
    match diffFields tolD tolU a b with
    | [] => "ok"
    | l => "diff:" ++ ",".intercalate l
  | none, some _ => "diff:model-raises"
  | some _, none => "diff:impl-raises"

def basePrefix (n : Neuron) : Int :=
  match n.units.base with
  | .dimless => 0
  | .metre e => e

def runArith (op : String) (f : Factor) (p : Int) (tolD tolU : Rat) (x : Neuron) (out : Option Neuron) :
    Option String := do
  let model ← match op with
    | "mul" => some (mul x f p)
    | "div" => some (div x f p)
    | "add" => some (add x f)
    | "sub" => some (sub x f)
    | _ => none
  let scaling := op == "mul" || op == "div"
  let radii := decide (f.rad = f.xyz.x)
  let tolP := if tolD < tolU then tolU else tolD
  let phys := match out with
    | some o =>
      if scaling then b01 (samePhysB tolP radii x o)
      else
        -- shifts: world coordinates and connectors moved by the same vector; radii and units untouched
        let sh : V3 → V3 := fun c => if op == "add" then c.add f.xyz else c.sub f.xyz
        b01 (closeL tolD (worldPts o) ((worldPts x).map sh) && closeL tolD o.conns (x.conns.map sh)
              && closeRL 0 o.radii x.radii && decide (o.units = x.units))
    | none => "na"
  -- undo the operation on the implementation's output (returning to the input's prefix)
  let back := match out with
    | some o =>
      let r := match op with
        | "mul" => div o f (basePrefix x)
        | "div" => mul o f (basePrefix x)
        | "add" => sub o f
        | _ => add o f
      match r with
      | some r => b01 ((diffFields tolD tolU r x).isEmpty)
      | none => "0"
    | none => "na"
  pure s!"model={showNeuron? model} corr={showCorr tolD tolU model out} phys={phys} back={back}"

def runConvert (tgt p : Int) (tolD tolU : Rat) (x : Neuron) (out : Option Neuron) : String :=
  let model := convertUnits x tgt p
  let phys := match out with
    | some o => b01 (samePhysB tolD (x.units.iso) x o)
    | none => "na"
  let unit := match out with
    | some o => b01 (closeV tolU (o.units.phys.div (V3.rep (pow10 tgt))) (V3.rep 1))
    | none => "na"
  s!"model={showNeuron? model} corr={showCorr tolD tolU model out} phys={phys} unit={unit}"

def parseMapArg (s : String) : Option MapArg :=
  match (trim s).splitOn ":" with
  | ["n", v] => (parseRat v).map .number
  | ["q", q] =>
    match (trim q).splitOn "@" with
    | [a, b] => do
      let a ← parseRat a; let b ← parseBase b
      pure (.qty a b)
    | _ => none
  | _ => none

def parseRat? (s : String) : Option (Option Rat) :=
  if trim s == "ERR" then some none else (parseRat s).map some

def showRat? : Option Rat → String
  | none => "ERR"
  | some r => showRat r

def runMap (a : MapArg) (tol : Rat) (u : Units) (impl : Option Rat) : String :=
  let n : Neuron := { fresh .tree 0 with units := u }
  let model := mapUnits n a
  let corr := match model, impl with
    | none, none => "ok"
    | some m, some i => if closeR tol i m then "ok" else "diff"
    | none, some _ => "diff:model-raises"
    | some _, none => "diff:impl-raises"
  -- was the rounding the identity on the exact ratio?
  let exact := match a, u.base with
    | .qty q (.metre e), .metre _ => b01 (model == some (mapRatio u q e))
    | _, _ => "na"
  s!"model={showRat? model} corr={corr} exact={exact}"

def parseUnitArg (s : String) : Option UnitArg :=
  let s := trim s
  if s == "N" then some .none else
  match s.splitOn ":" with
  | ["n", v] => (parseRat v).map .number
  | ["p", q] =>
    match (trim q).splitOn "@" with
    | [a, b] => do
      let a ← parseRat a; let b ← parseBase b
      pure (.parsed a b)
    | _ => none
  | _ => none

def parseUnits? (s : String) : Option (Option Units) :=
  if trim s == "ERR" then some none else (parseUnits s).map some

def runSetUnits (args : List UnitArg) (tol : Rat) (impl : Option Units) : String :=
  let model := setUnits args
  let corr := match model, impl with
    | none, none => "ok"
    | some m, some i => if m.base == i.base && closeV tol i.mag m.mag then "ok" else "diff"
    | none, some _ => "diff:model-raises"
    | some _, none => "diff:impl-raises"
  s!"model={(model.map showUnits).getD "ERR"} corr={corr}"

def dropLast : DataEdit := ⟨fun l => l.dropLast, fun l => l.dropLast, fun l => l.dropLast⟩

def parseOp (s : String) : Option Op :=
  match trim s with
  | "copy" => some .copy
  | "oncopy" => some (.onCopy dropLast)
  | "construct" => some (.construct .dotprops dropLast)
  | "pickle" => some .pickle
  | "rewrap" => some .rewrap
  | "reinitcut" => some (.reinitAfterCut dropLast)
  | _ => none


/-! ### histories -/

def parseStep (tok : String) : Option Step :=
  match (trim tok).splitOn ":" with
  | ["w", attrs] => some (.warm (strList attrs))
  | ["w"] => some (.warm [])
  | ["c", tgt, p] => do
    let tgt ← (trim tgt).toInt?; let p ← (trim p).toInt?
    pure (.convert tgt p)
  | [op, sh, vals, p] => do
    let f ← parseFactor (sh ++ ":" ++ vals); let p ← (trim p).toInt?
    match op with
    | "mul" => pure (.scale false f p)
    | "div" => pure (.scale true f p)
    | "add" => pure (.shift false f)
    | "sub" => pure (.shift true f)
    | _ => none
  | _ => none

def parseViews (s : String) : Option (List (String × List Rat)) :=
  let s := trim s
  if s.isEmpty || s == "-" then some [] else
  (s.splitOn ";").mapM fun part =>
    match (trim part).splitOn "=" with
    | [k, v] => (parseRats v).map fun l => (trim k, l)
    | _ => none

def sortedKeys (l : List String) : List String := (l.toArray.qsort (· < ·)).toList

def runHistCmd (tolD tolU : Rat) (scalar : Bool) (x : Neuron) (par : List Int) (steps : List Step)
    (out : Option Neuron) (keys : List String) (views : List (String × List Rat)) : String :=
  let s0 : Skel := ⟨x, par, []⟩
  let model : Option Skel := runHist s0 steps
  let tolP := if tolD < tolU then tolU else tolD
  let corr := showCorr tolD tolU (model.map (·.nrn)) out
  let caches := match model with
    | some m =>
      let mk := sortedKeys ((m.cache.map (fun (e : String × List V3) => e.1)).filter (fun a => Gen.Units.treeTempAttr.contains a && a != "_memory_usage"))
      let ik := sortedKeys (keys.filter (· != "_memory_usage"))
      if mk == ik then "ok" else "diff:" ++ ",".intercalate mk
    | none => "na"
  let viewsR := match model with
    | some m =>
      if exactEdges m then
        let bad := views.filter fun (kv : String × List Rat) =>
          match kv.1 with
          | "_igraph" => !allClose tolP kv.2 (viewW elen m "_igraph")
          | "_graph_nx" => !allClose tolP kv.2 (viewW elen m "_graph_nx")
          | "d2r" => !allClose tolP kv.2 ((List.range par.length).map (pathToRoot (viewW elen m "_graph_nx") par par.length))
          | "_cable_length" => !allClose tolP kv.2 [cable (viewW elen m "_cable_length")]
          | _ => false
        if bad.isEmpty then "ok" else "diff:" ++ ",".intercalate (bad.map (fun (kv : String × List Rat) => kv.1))
      else "na"
    | none => "na"
  let phys := match out with
    | some o =>
      if scalar && isoPos o.units && x.units.iso && exactEdges s0 then
        b01 (views.all fun (kv : String × List Rat) =>
          match kv.1 with
          | "_igraph" => histPhysB tolP s0 o.units kv.2
          | "_graph_nx" => histPhysB tolP s0 o.units kv.2
          | "d2r" => histPathB tolP s0 o.units kv.2
          | "_cable_length" => match kv.2 with
            | [c] => histCableB tolP s0 o.units c
            | _ => false
          | _ => true)
      else "na"
    | none => "na"
  s!"model={showNeuron? (model.map (·.nrn))} corr={corr} caches={caches} views={viewsR} phys={phys}"

def sections (s : String) : List String := (s.splitOn "|").map trim

def run (cmd rest : String) : Option String :=
  match cmd, sections rest with
  | "arith", [hd, x, out] =>
    match words hd with
    | [op, f, p, tD, tU] => do
      let f ← parseFactor f; let p ← p.toInt?; let tD ← parseTol tD; let tU ← parseTol tU
      let x ← parseNeuron x; let out ← parseNeuron? out
      runArith op f p tD tU x out
    | _ => none
  | "convert", [hd, x, out] =>
    match words hd with
    | [tgt, p, tD, tU] => do
      let tgt ← tgt.toInt?; let p ← p.toInt?; let tD ← parseTol tD; let tU ← parseTol tU
      let x ← parseNeuron x; let out ← parseNeuron? out
      pure (runConvert tgt p tD tU x out)
    | _ => none
  | "map", [hd, u, impl] =>
    match words hd with
    | [a, t] => do
      let a ← parseMapArg a; let t ← parseTol t; let u ← parseUnits u; let impl ← parseRat? impl
      pure (runMap a t u impl)
    | _ => none
  | "setunits", [hd, impl] =>
    match words hd with
    | t :: args => do
      let t ← parseTol t; let args ← args.mapM parseUnitArg; let impl ← parseUnits? impl
      pure (runSetUnits args t impl)
    | _ => none
  | "meta", [op, x] => do
    let op ← parseOp op; let x ← parseNeuron x
    match applyOp x (1001, 1002, 1003) op with
    | some m => pure s!"{showUnits m.units};{m.name};{m.id}"
    | none => pure "ERR"
  | "reinit", [hd, x] => do
    let x ← parseNeuron x
    let arg ← if trim hd == "D" then some none else ((words hd).mapM parseUnitArg).map some
    match reinit x arg 1001 1002 with
    | some m => pure s!"{showUnits m.units};{m.name};{m.id}"
    | none => pure "ERR"
  | "fromtable", [hd] => do
    let arg ← if trim hd == "D" then some none else ((words hd).mapM parseUnitArg).map some
    match fromTable .tree [] [] [] arg "t" 1 with
    | some m => pure (showUnits m.units)
    | none => pure "ERR"
  | "same", [hd, a, b] =>
    match words hd with
    | [t, r] => do
      let t ← parseTol t; let a ← parseNeuron a; let b ← parseNeuron b
      pure (b01 (samePhysB t (r == "1") a b))
    | _ => none
  | "cmp", [hd, a, b] =>
    match words hd with
    | [tD, tU] => do
      let tD ← parseTol tD; let tU ← parseTol tU; let a ← parseNeuron a; let b ← parseNeuron b
      pure (showCorr tD tU (some a) (some b))
    | _ => none
  | "hist", [hd, x, par, steps, out, keys, views] =>
    match words hd with
    | [tD, tU, sc] => do
      let tD ← parseTol tD; let tU ← parseTol tU
      let x ← parseNeuron x; let par ← intList? par; let steps ← (words steps).mapM parseStep
      let out ← parseNeuron? out; let views ← parseViews views
      pure (runHistCmd tD tU (sc == "1") x par steps out (strList keys) views)
    | _ => none
  | "addunits", [hd, u, raw, q] =>
    match words hd with
    | [cls, prop, t] => do
      let t ← parseTol t; let u ← parseUnits u; let raw ← parseRat raw
      match addUnitsPower cls prop with
      | none => pure "power=none model=ERR ok=na"
      | some d =>
        let m := addUnitsPhys d u raw
        let ok := if trim q == "-" then "na" else match parseV3 q with
          | some qv => b01 (addUnitsB t d u raw qv)
          | none => "bad"
        pure s!"power={d} model={showV3 m} ok={ok}"
    | _ => none
  | "voxvol", [hd, u, q] =>
    match words hd with
    | [t, nnz, dim] => do
      let t ← parseTol t; let nnz ← nnz.toNat?; let dim ← dim.toNat?; let u ← parseUnits u; let q ← parseRat q
      pure s!"model={showRat (voxelVolume u nnz)} ok={b01 (voxelVolumeB t u nnz dim q)}"
    | _ => none
  | "round", [q] => do
    let q ← parseRat q
    pure (showRat? (roundSmart q))
  | _, _ => none

end Navis.Drv.C15
