import NavisModel.Model.Heap
import NavisModel.Model.HeapDeep
import NavisModel.Model.InputWrites
import NavisModel.Gen.CopySpec
import NavisModel.Gen.ParSpec
import NavisModel.Drv.Proto
/-!
Line protocol for C03 (heap model).  All payloads are blank-separated `key=value` words.

* attrs: `n` nodes, `c` conns, `g` graph (networkx), `i` igraph.  A receiver is described by
  `init=<n>,<c>,<g>,<i>,<info>` — the *contents* of the containers (`-` = attribute not bound).
* body tokens, `;`-separated: `wr:<attr>:<k>` (in-place: content += k), `rb:<attr>:<k>` (re-bind to a new container
  with content old + k), `meta:<k>` (info += k), `thaw`, `clr:<attr>`;  `-` = empty body.
* abs output: `<n>,<c>,<g>,<i>,<info>`.

* `c03.copy stale=<0|1> init=…` → `same=0 n=<fresh|none|alias> c=… g=… i=… view=<0|1> lock=<k> abs=<abs>`
* `c03.call ip=<0|1> stale=<0|1> init=… body=…` →
  `same=<0|1> ext=<0|1> frame=<0|1> wo=<0|1> in=<abs of the input afterwards> out=<abs of the result>`
* `c03.bad ip=<0|1> stale=<0|1> init=… pre=… body=…`  (statements `pre` run before the copy) → same fields
* `c03.maplist ip=<0|1> swap=<0|1> k=<members> [dup=<0|1>] init=… body=…` →
  `samelist=<0|1> ext=<0|1> recv=<m0.m1…> res=<…> in=<abs|abs…> out=<abs|…>`  (members as `s<i>` = the i-th input
  object, `f` = a fresh object)
* `c03.listop op=<add|sub|and|or|orl|orprefix> k=<members> present=<0|1> extra=<m>` →
  `newlist=<0|1> recv=<len of the receiver afterwards> res=<len of the result> ext=<0|1>`
* `c03.trace ip=<0|1> evs=<g|w|wi|d|b|ri|ld , …>` → `ok=<0|1> nwbg=<0|1> frame=<0|1> same=<0|1> eq=<0|1> fresh=<0|1>`
  (`eq`: in-place end state == state of the object the copying run returns; `fresh`: that object is new)
* `c03.deep mode=<shallow|deep1|cls.attr> kids=<v1,v2,…|-> edits=<i:<idx>:<v> | a:<v> | d:<idx> ; …|->` → two-level container
  (a dict of lists / a list of arrays with contents `v1, v2, …`) copied with the given mode (or the mode the generated
  `CopySpec.nestedMode` records for `cls.attr`, e.g. `TreeNeuron.tags`), then edited through the copy:
  `mode=<…> frame=<0|1> in=<contents of the input afterwards> out=<contents of the copy>`
* `c03.parmap ip=<0|1> k=<members> forced=<0|1|gen> pooled=<0|1|gen> init=… body=…` → the `map_neuronlist` wrapper called with
  `parallel=True` (`gen` = the value the translator extracted into `Gen/ParSpec`): same fields as `c03.maplist`
  (`samelist ext recv res in out`) plus `forced=<0|1> pooled=<0|1>`
* `c03.annot key=<file:function>` → `col=<a,b|-> attr=<…|-> via=<…|->` the documented annotations of that function
-/
namespace Navis.Drv.C03
open Navis.Heap Navis.Proto

def kv (rest : String) : List (String × String) :=
  (words rest).filterMap fun w => match w.splitOn "=" with
    | [k, v] => some (k, v)
    | [k] => some (k, "")
    | _ => none

def look (m : List (String × String)) (k : String) : Option String := (m.find? (·.1 == k)).map (·.2)

def b01 (b : Bool) : String := if b then "1" else "0"
def pBool (s : String) : Option Bool := match s with | "1" => some true | "0" => some false | _ => none

def pAttr (s : String) : Option Attr := match s with
  | "n" => some .nodes | "c" => some .conns | "g" => some .graph | "i" => some .igraph | _ => none

def pOptInt (s : String) : Option (Option Int) := if s == "-" then some none else s.toInt?.map some

def showOpt : Option Int → String
  | none => "-"
  | some v => toString v

def showAbs (a : Abs) : String :=
  s!"{showOpt a.nodes},{showOpt a.conns},{showOpt a.graph},{showOpt a.igraph},{a.info}"

/-- one object with the described contents, appended to store `s` -/
def addObj (s : Store) (vals : List (Option Int)) (info : Int) (lock : Nat := 0) : Store × Ref :=
  let bindOne (p : Store × List (Option Ref)) (v : Option Int) : Store × List (Option Ref) :=
    match v with
    | none => (p.1, p.2 ++ [none])
    | some c => let q := p.1.allocD c; (q.1, p.2 ++ [some q.2])
  let p := vals.foldl bindOne (s, [])
  let ob : Obj := { nodes := (p.2[0]?).join, conns := (p.2[1]?).join, graph := (p.2[2]?).join,
                    igraph := (p.2[3]?).join, info := info, lock := lock }
  p.1.allocObj ob

def pInit (s : String) : Option (List (Option Int) × Int) :=
  match s.splitOn "," with
  | [n, c, g, i, info] => do
    let n ← pOptInt n; let c ← pOptInt c; let g ← pOptInt g; let i ← pOptInt i; let info ← info.toInt?
    pure ([n, c, g, i], info)
  | _ => none

def pStmt (s : String) : Option Stmt :=
  match s.splitOn ":" with
  | ["wr", a, k] => do
    let a ← pAttr a; let k ← k.toInt?
    pure (.wr a fun x => (x.get a).getD 0 + k)
  | ["rb", a, k] => do
    let a ← pAttr a; let k ← k.toInt?
    pure (.rebind a fun x => (x.get a).getD 0 + k)
  | ["meta", k] => do
    let k ← k.toInt?
    pure (.setMeta fun x => x.info + k)
  | ["thaw"] => some .thaw
  | ["clr", a] => (pAttr a).map .clear
  | _ => none

def pBody (s : String) : Option (List Stmt) :=
  if s == "-" || s.isEmpty then some [] else (s.splitOn ";").mapM pStmt

def classify (old : Store) (before after : Option Ref) : String :=
  match after with
  | none => "none"
  | some r => if after == before then "alias" else if old.data.length ≤ r then "fresh" else "other"

def report (s : Store) (x : Ref) (p : Store × Ref) (wo : Bool) : String :=
  s!"same={b01 (p.2 == x)} ext={b01 (extendsB s p.1)} frame={b01 (frameB s p.1 x)} wo={b01 wo} " ++
  s!"in={showAbs (p.1.abs x)} out={showAbs (p.1.abs p.2)}"

def pEv (s : String) : Option Ev := match s with
  | "g" => some .guard | "w" => some .write | "wi" => some .writeIn | "d" => some .delegate | "b" => some .branch
  | "ri" => some .retIn | "ld" => some .lostDelegate
  | _ => none

def showMember (n : Nat) (r : Ref) : String := if r < n then s!"s{r}" else "f"

def run (cmd rest : String) : Option String :=
  let m := kv rest
  match cmd with
  | "copy" => do
    let stale ← (look m "stale") >>= pBool
    let (vals, info) ← (look m "init") >>= pInit
    let (s, x) := addObj {} vals info 3
    let p := copyObj s x stale
    let o := s.obj x
    let c := p.1.obj p.2
    pure (s!"same={b01 (p.2 == x)} n={classify s o.nodes c.nodes} c={classify s o.conns c.conns} " ++
      s!"g={classify s o.graph c.graph} i={classify s o.igraph c.igraph} view={b01 c.view} lock={c.lock} " ++
      s!"abs={showAbs (p.1.abs p.2)}")
  | "call" => do
    let ip ← (look m "ip") >>= pBool
    let stale ← (look m "stale") >>= pBool
    let (vals, info) ← (look m "init") >>= pInit
    let b ← (look m "body") >>= pBody
    let (s, x) := addObj {} vals info
    pure (report s x (call b s x ip stale) (writesOwn true b))
  | "bad" => do
    let ip ← (look m "ip") >>= pBool
    let stale := ((look m "stale") >>= pBool).getD false
    let (vals, info) ← (look m "init") >>= pInit
    let pre ← (look m "pre") >>= pBody
    let b ← (look m "body") >>= pBody
    let (s, x) := addObj {} vals info
    pure (report s x (badCall pre b s x ip stale) (writesOwn true b))
  | "maplist" => do
    let ip ← (look m "ip") >>= pBool
    let swap ← (look m "swap") >>= pBool
    let k ← (look m "k") >>= String.toNat?
    let (vals, info) ← (look m "init") >>= pInit
    let b ← (look m "body") >>= pBody
    -- k members with contents shifted by 100·i
    let build (p : Store × List Ref) (i : Nat) : Store × List Ref :=
      let q := addObj p.1 (vals.map fun v => v.map (· + 100 * (i : Int))) (info + i)
      (q.1, p.2 ++ [q.2])
    let p0 := (List.range k).foldl build (({} : Store), [])
    -- `dup=1`: the list holds the FIRST neuron k times (a degenerate NeuronList)
    let dup := ((look m "dup") >>= pBool).getD false
    let p : Store × List Ref := if dup then (p0.1, p0.2.map fun _ => p0.2.headD 0) else p0
    let q := p.1.allocLst p.2
    let s := q.1
    let l := q.2
    let r := if swap then mapList b s l ip else mapListNoSwap b s l ip
    let n := s.objs.length
    pure (s!"samelist={b01 (r.2 == l)} ext={b01 (extendsB s r.1)} " ++
      s!"recv={".".intercalate ((r.1.lst l).map (showMember n))} res={".".intercalate ((r.1.lst r.2).map (showMember n))} " ++
      s!"in={"|".intercalate (p.2.map fun x => showAbs (r.1.abs x))} " ++
      s!"out={"|".intercalate ((r.1.lst r.2).map fun x => showAbs (r.1.abs x))}")
  | "listop" => do
    let op ← look m "op"
    let k ← (look m "k") >>= String.toNat?
    let present ← (look m "present") >>= pBool
    let extra := ((look m "extra") >>= String.toNat?).getD 0
    let s0 : Store := { objs := List.replicate (k + extra + 1) {} }
    let q := s0.allocLst (List.range k)
    let s := q.1
    let l := q.2
    -- the other operand: member 0 when `present`, else the (non-member) object k
    let o := if present then 0 else k
    let r ← match op with
      | "add" => some (listAdd s l o)
      | "sub" => some (listFilter s l fun y => y != o)
      | "and" => some (listFilter s l fun y => y == o)
      | "or" => some (listOr s l o present)
      | "orprefix" => some (listOrPreFix s l o present)
      | "orl" => some (listOrList s l ((List.range extra).map (· + k)))
      | _ => none
    pure s!"newlist={b01 (r.2 != l)} recv={(r.1.lst l).length} res={(r.1.lst r.2).length} ext={b01 (extendsB s r.1)}"
  | "trace" => do
    let ip ← (look m "ip") >>= pBool
    let evs ← (look m "evs") >>= fun e => if e == "-" || e.isEmpty then some [] else (e.splitOn ",").mapM pEv
    let (s, x) := addObj {} [some 10, some 20, none, none] 1
    let p := runTrace bump evs s x ip
    -- `eq`: observable end state of the in-place run == observable state of the object the copying run hands back
    let pt := runTrace bump evs s x true
    let pf := runTrace bump evs s x false
    pure (s!"ok={b01 (okTrace evs)} nwbg={b01 (noWriteBeforeGuard evs)} frame={b01 (frameB s p.1 x)} same={b01 (p.2 == x)} " ++
      s!"eq={b01 (pt.1.abs pt.2 == pf.1.abs pf.2)} fresh={b01 (s.objs.length ≤ pf.2)}")
  | "deep" => do
    let modeS ← look m "mode"
    let mode ← match modeS with
      | "shallow" => some Navis.HeapDeep.CopyMode.shallow
      | "deep1" => some Navis.HeapDeep.CopyMode.deep1
      | other => match other.splitOn "." with
        | [c, a] => (Navis.Gen.CopySpec.nestedMode.find? fun e => e.1 == c && e.2.1 == a).map (·.2.2)
        | _ => none
    let kidsS ← look m "kids"
    let vals ← if kidsS == "-" || kidsS.isEmpty then some [] else (kidsS.splitOn ",").mapM String.toInt?
    let edS := (look m "edits").getD "-"
    let pEdit (t : String) : Option Navis.HeapDeep.Edit := match t.splitOn ":" with
      | ["i", i, v] => do let i ← i.toNat?; let v ← v.toInt?; pure (.inner i v)
      | ["a", v] => v.toInt?.map .add
      | ["d", i] => i.toNat?.map .del
      | _ => none
    let edits ← if edS == "-" || edS.isEmpty then some [] else (edS.splitOn ";").mapM pEdit
    -- store: the inner containers, then the outer one
    let s : Navis.HeapDeep.Store := vals.map Navis.HeapDeep.Cell.leaf ++ [Navis.HeapDeep.Cell.node (List.range vals.length)]
    let r := vals.length
    let p := Navis.HeapDeep.copyWith mode s r
    let t := Navis.HeapDeep.applyEdits p.1 p.2 edits
    let sh (l : List Int) : String := if l.isEmpty then "-" else ",".intercalate (l.map toString)
    let ms := match mode with | .shallow => "shallow" | .deep1 => "deep1"
    pure s!"mode={ms} frame={b01 (Navis.HeapDeep.frameB s t)} in={sh (Navis.HeapDeep.absOf t r)} out={sh (Navis.HeapDeep.absOf t p.2)}"
  | "parmap" => do
    let ip ← (look m "ip") >>= pBool
    let k ← (look m "k") >>= String.toNat?
    let flag (key : String) (gen : Bool) : Option Bool := match look m key with
      | some "gen" => some gen
      | some v => pBool v
      | none => some gen
    let forced ← flag "forced" Navis.Gen.ParSpec.forced
    let pooled ← flag "pooled" Navis.Gen.ParSpec.pooled
    let (vals, info) ← (look m "init") >>= pInit
    let b ← (look m "body") >>= pBody
    let build (p : Store × List Ref) (i : Nat) : Store × List Ref :=
      let q := addObj p.1 (vals.map fun v => v.map (· + 100 * (i : Int))) (info + i)
      (q.1, p.2 ++ [q.2])
    let p := (List.range k).foldl build (({} : Store), [])
    let q := p.1.allocLst p.2
    let s := q.1
    let l := q.2
    let r := mapListPar b s l ip true forced pooled
    let n := s.objs.length
    pure (s!"samelist={b01 (r.2 == l)} ext={b01 (extendsB s r.1)} forced={b01 forced} pooled={b01 pooled} " ++
      s!"recv={".".intercalate ((r.1.lst l).map (showMember n))} res={".".intercalate ((r.1.lst r.2).map (showMember n))} " ++
      s!"in={"|".intercalate (p.2.map fun x => showAbs (r.1.abs x))} " ++
      s!"out={"|".intercalate ((r.1.lst r.2).map fun x => showAbs (r.1.abs x))}")
  | "annot" => do
    let key ← look m "key"
    let sh (l : List String) : String := if l.isEmpty then "-" else ",".intercalate l
    pure s!"col={sh (Navis.InputWrites.annotationsOf key "col")} attr={sh (Navis.InputWrites.annotationsOf key "attr")} via={sh (Navis.InputWrites.annotationsOf key "via")}"
  | _ => none

end Navis.Drv.C03
