import NavisModel.Model.Xform
import NavisModel.Model.XformImage
import NavisModel.Drv.Proto
/-!
Line protocol for C16.  Rationals are `n` or `n/d`; sections are separated by `|`.

* transform `F` : `;`-separated steps applied in order, each `A:<12 rationals, row-major [A|t]>` (affine),
  `I:<12>` (the inverse of that affine map: an inverse bridging edge) or
  `Q:a,b,c` (the non-affine map `(x,y,z) ↦ (x + a·y·z, y + b·z², c·z)`) or `M:<axis>,<size>` (flip); empty = identity.
* rows `R` : `;`-separated `x,y,z,rest` (`rest` = opaque token for every other column, no blanks / `,;|=`).
* neuron `N` : blank-separated `key=value`:
  `kind=t|m|d pts=R rad=-|v,v,… vect=-|x,y,z;… alpha=-|v,… k=-|int res=r faces=a.b.c,… conns=-|R units=-|r soma=-|r info=tok`
  (`-` = None; `nan` inside `rad` = NaN).
* `c16.xform F | guess | N`            → `N'` or `RAISES`                     (`xformNeuron`)
* `c16.check F | guess | eps | N | N'` → `ok=1` / `ok=0`                      (`checkXform` on navis' own output)
* `c16.mirror F | N`                   → `N'` or `RAISES`                     (`mirrorNeuron`, `F` = flip [+ warp])
* `c16.table F | R`                    → `R'` or `RAISES`                     (`xformTable`)
* `c16.mesh F | R | faces`             → `R' | faces'`                        (`mirrorMesh`)
* `c16.symm lo,hi | G | G0 | R`        → `R'`                                 (`symmetrize`)
* `c16.symmn lo,hi | G | G0 | N`       → `N'` or `RAISES`                     (`symmetrizeNeuron`)
* `c16.tangents eps | dirs | vects`    → `ok=1` / `ok=0`                      (`tangentsOK`)
* `c16.size lo,hi`                     → `lo+hi`                              (`axisSize`)

`xform_brain` / `mirror_brain(via=…)`; `E` = `;`-separated edges of the bridging path in path order, each `a,<u>` (alias)
or `t,<u>` (transform), `<u>` = `_navis_units` magnitude of the template the edge leads to or `-`:
* `c16.checkm F | eps | N | N'`          → `ok=1` / `ok=0`                     (`checkMirror` on navis' own output)
* `c16.checks lo,hi | G | G0 | eps | N | N'` → `ok=1` / `ok=0`               (`checkSymm`)
* `c16.checkt F | R | R'`               → `ok=1` / `ok=0`                     (`checkTable`)
* `c16.checkmesh F | pts | faces | pts' | faces'` → `ok=1` / `ok=0`           (`checkMesh`)
* `c16.mag c`                           → `round(log10 c)` or `ERR`            (`roundLog10`)
* `c16.bunits E`                        → units override (`-` = none)          (`brainUnits`)
* `c16.xformb F | guess | E | N`        → `N'` or `RAISES`                     (`xformBrainNeuron`)
* `c16.checkb F | guess | eps | E | N | N'` → `ok=1` / `ok=0`                  (`checkXformBrain`)
* `c16.mirrorvia F1 | m1 | E1 | G | F2 | m2 | E2 | N` → `N'` or `RAISES`       (`mirrorViaNeuron`)

Image path (`Model/XformImage.lean`); `FA` = `;`-separated AFFINE steps `A:<12>` | `I:<12>` (the inverse of the given
matrix, as registered for an inverse bridging edge) | `M:<axis>,<size>`; `G` = `nx,ny,nz | ox,oy,oz | px,py,pz | VOX`,
`VOX` = `;`-separated `i,j,k,v` (non-zero voxels):
* `c16.image FA | G`                   → `off=… pitch=… vox=VOX'` or `RAISES`  (`imageOff/imagePitch/imageSparse`)
* `c16.imgcheck FA | eps | G | off' | pitch' | VOX'` → `ok=1` / `ok=0`         (`imageOK` on navis' own output)
* `c16.imgland FA | eps | G | off' | pitch' | VOX'`  → `ok=1 n=<landed>` / `ok=0 n=…` (`landsOK`, forward only)
* `c16.pullback FA | pts`              → `pts'` or `RAISES`                   (`seqApply (negSeq ts)`: `(-seq).xform`)
* `c16.forward FA | pts`               → `pts'`                               (`seqApply ts`)
-/
namespace Navis.Drv.C16
open Navis.Xform Navis.XformImage Navis.Proto

def parseRat (s : String) : Option Rat :=
  match (trim s).splitOn "/" with
  | [n] => n.toInt?.map fun (i : Int) => (i : Rat)
  | [n, d] => do
    let n ← n.toInt?
    let d ← d.toNat?
    if d = 0 then none else pure (mkRat n d)
  | _ => none

def showRat (r : Rat) : String :=
  if r.den = 1 then toString r.num else s!"{r.num}/{r.den}"

def items (s : String) (sep : String) : List String :=
  let s := trim s
  if s.isEmpty then [] else (s.splitOn sep).map trim

def parseAxis (s : String) : Option Axis :=
  match trim s with
  | "x" => some .x
  | "y" => some .y
  | "z" => some .z
  | _ => none

def quadFn (a b c : Rat) : RowFn := fun p => ⟨p.x + a * p.y * p.z, p.y + b * p.z * p.z, c * p.z⟩

def parseStep (s : String) : Option RowFn :=
  let s := trim s
  if s.startsWith "A:" then do
    let l ← (items (s.drop 2).toString ",").mapM parseRat
    match l with
    | [a11, a12, a13, t1, a21, a22, a23, t2, a31, a32, a33, t3] =>
      pure (Aff.apply ⟨a11, a12, a13, t1, a21, a22, a23, t2, a31, a32, a33, t3⟩)
    | _ => none
  else if s.startsWith "I:" then do
    let l ← (items (s.drop 2).toString ",").mapM parseRat
    match l with
    | [a11, a12, a13, t1, a21, a22, a23, t2, a31, a32, a33, t3] =>
      pure (Aff.apply (XformImage.inv ⟨a11, a12, a13, t1, a21, a22, a23, t2, a31, a32, a33, t3⟩))
    | _ => none
  else if s.startsWith "Q:" then do
    let l ← (items (s.drop 2).toString ",").mapM parseRat
    match l with
    | [a, b, c] => pure (quadFn a b c)
    | _ => none
  else if s.startsWith "M:" then
    match items (s.drop 2).toString "," with
    | [a, sz] => do
      let a ← parseAxis a; let sz ← parseRat sz
      pure (mirrorFn a sz none)
    | _ => none
  else none

def parseFn (s : String) : Option RowFn := do
  let steps ← (items s ";").mapM parseStep
  pure fun p => steps.foldl (fun q st => st q) p

def parseV3 (l : List String) : Option V3 :=
  match l with
  | [x, y, z] => do
    let x ← parseRat x; let y ← parseRat y; let z ← parseRat z
    pure ⟨x, y, z⟩
  | _ => none

def parseRow (s : String) : Option (V3 × String) :=
  match items s "," with
  | [x, y, z, r] => (parseV3 [x, y, z]).map fun p => (p, r)
  | _ => none

def parseTable (s : String) : Option (Table String) := do
  let rows ← (items s ";").mapM parseRow
  pure ⟨rows.map (·.1), rows.map (·.2)⟩

def parsePts (s : String) : Option (List V3) := (items s ";").mapM fun r => parseV3 (items r ",")

def showV3 (p : V3) : String := s!"{showRat p.x},{showRat p.y},{showRat p.z}"

def showTable (t : Table String) : String :=
  ";".intercalate (List.zipWith (fun p r => s!"{showV3 p},{r}") t.xyz t.cols)

def showPts (l : List V3) : String := ";".intercalate (l.map showV3)

def parseOptRat (s : String) : Option (Option Rat) :=
  if trim s == "-" then some none else (parseRat s).map some

def parseRadCell (s : String) : Option (Option Rat) :=
  if trim s == "nan" then some none else (parseRat s).map some

def showRadCell : Option Rat → String
  | none => "nan"
  | some r => showRat r

def showOptRat : Option Rat → String
  | none => "-"
  | some r => showRat r

def parseFace (s : String) : Option Face :=
  match (trim s).splitOn "." with
  | [a, b, c] => do
    let a ← a.toNat?; let b ← b.toNat?; let c ← c.toNat?
    pure ⟨a, b, c⟩
  | _ => none

def parseFaces (s : String) : Option (List Face) := (items s ",").mapM parseFace

def showFaces (l : List Face) : String := ",".intercalate (l.map fun f => s!"{f.a}.{f.b}.{f.c}")

abbrev N := Neuron String String String

def lookup (kv : List (String × String)) (k : String) : Option String := (kv.find? (·.1 == k)).map (·.2)

def parseKV (s : String) : List (String × String) :=
  (words s).filterMap fun w =>
    match w.splitOn "=" with
    | k :: rest => some (k, "=".intercalate rest)
    | [] => none

def parseNeuron (s : String) : Option N := do
  let kv := parseKV s
  let kind ← match (← lookup kv "kind") with
    | "t" => some Kind.tree
    | "m" => some Kind.mesh
    | "d" => some Kind.dots
    | _ => none
  let pts ← parseTable (← lookup kv "pts")
  let radS ← lookup kv "rad"
  let rad ← if radS == "-" then some none else ((items radS ",").mapM parseRadCell).map some
  let vectS ← lookup kv "vect"
  let vect ← if vectS == "-" then some none else (parsePts vectS).map some
  let alphaS ← lookup kv "alpha"
  let alpha ← if alphaS == "-" then some none else ((items alphaS ",").mapM parseRat).map some
  let kS ← lookup kv "k"
  let k ← if kS == "-" then some none else kS.toInt?.map some
  let res ← parseRat (← lookup kv "res")
  let faces ← parseFaces (← lookup kv "faces")
  let connsS ← lookup kv "conns"
  let conns ← if connsS == "-" then some none else (parseTable connsS).map some
  let units ← parseOptRat (← lookup kv "units")
  let soma ← parseOptRat (← lookup kv "soma")
  let info ← lookup kv "info"
  pure { kind := kind, pts := pts, radius := rad, vect := vect, alpha := alpha, k := k, res := res,
         faces := faces, conns := conns, units := units, somaRadius := soma, info := info }

def showNeuron (n : N) : String :=
  let kind := match n.kind with
    | .tree => "t"
    | .mesh => "m"
    | .dots => "d"
  let rad := match n.radius with
    | none => "-"
    | some c => ",".intercalate (c.map showRadCell)
  let vect := match n.vect with
    | none => "-"
    | some v => showPts v
  let alpha := match n.alpha with
    | none => "-"
    | some a => ",".intercalate (a.map showRat)
  let k := match n.k with
    | none => "-"
    | some k => toString k
  let conns := match n.conns with
    | none => "-"
    | some t => showTable t
  s!"kind={kind} pts={showTable n.pts} rad={rad} vect={vect} alpha={alpha} k={k} res={showRat n.res} " ++
  s!"faces={showFaces n.faces} conns={conns} units={showOptRat n.units} soma={showOptRat n.somaRadius} info={n.info}"

def b01 (b : Bool) : String := if b then "ok=1" else "ok=0"

def parseEdges (s : String) : Option (List (Bool × Option Rat)) :=
  (items s ";").mapM fun e =>
    match items e "," with
    | [k, u] => do
      let u ← parseOptRat u
      if k == "a" then pure (true, u) else if k == "t" then pure (false, u) else none
    | _ => none

/-! ### image path -/

def parseAff12 (s : String) : Option Aff := do
  let l ← (items s ",").mapM parseRat
  match l with
  | [a11, a12, a13, t1, a21, a22, a23, t2, a31, a32, a33, t3] =>
    pure ⟨a11, a12, a13, t1, a21, a22, a23, t2, a31, a32, a33, t3⟩
  | _ => none

def parseAffStep (s : String) : Option Aff :=
  let s := trim s
  if s.startsWith "A:" then parseAff12 (s.drop 2).toString
  else if s.startsWith "I:" then (parseAff12 (s.drop 2).toString).map XformImage.inv
  else if s.startsWith "M:" then
    match items (s.drop 2).toString "," with
    | [a, sz] => do
      let a ← parseAxis a; let sz ← parseRat sz
      pure (mirrorMat a sz)
    | _ => none
  else none

def parseAffSeq (s : String) : Option (List Aff) := (items s ";").mapM parseAffStep

def parseVox (s : String) : Option (List Vox) :=
  (items s ";").mapM fun r =>
    match items r "," with
    | [i, j, k, v] => do
      let i ← i.toInt?; let j ← j.toInt?; let k ← k.toInt?; let v ← parseRat v
      pure ⟨i, j, k, v⟩
    | _ => none

def showVox (l : List Vox) : String :=
  ";".intercalate (l.map fun c => s!"{c.i},{c.j},{c.k},{showRat c.v}")

def parseGrid (shape off pitch vox : String) : Option (Img × List Vox) := do
  let v ← parseVox vox
  let off ← parseV3 (items off ","); let pitch ← parseV3 (items pitch ",")
  match (items shape ",").mapM (·.toNat?) with
  | some [nx, ny, nz] => pure (⟨nx, ny, nz, off, pitch, sparseVal v⟩, v)
  | _ => none

def run (cmd : String) (rest : String) : Option String :=
  match cmd with
  | "xform" => match rest.splitOn "|" with
    | [f, g, n] => do
      let f ← parseFn f; let g ← (trim g).toInt?; let n ← parseNeuron n
      pure (match xformNeuron f g n with
        | some out => showNeuron out
        | none => "RAISES")
    | _ => none
  | "check" => match rest.splitOn "|" with
    | [f, g, eps, n, out] => do
      let f ← parseFn f; let g ← (trim g).toInt?; let eps ← parseRat eps
      let n ← parseNeuron n; let out ← parseNeuron out
      pure (b01 (checkXform eps f g n out))
    | _ => none
  | "mirror" => match rest.splitOn "|" with
    | [f, n] => do
      let f ← parseFn f; let n ← parseNeuron n
      pure (match mirrorNeuron f n with
        | some out => showNeuron out
        | none => "RAISES")
    | _ => none
  | "table" => match rest.splitOn "|" with
    | [f, t] => do
      let f ← parseFn f; let t ← parseTable t
      pure (match xformTable f t with
        | some out => showTable out
        | none => "RAISES")
    | _ => none
  | "mesh" => match rest.splitOn "|" with
    | [f, v, fs] => do
      let f ← parseFn f; let v ← parsePts v; let fs ← parseFaces fs
      let out := mirrorMesh f v fs
      pure s!"{showPts out.1} | {showFaces out.2}"
    | _ => none
  | "symm" => match rest.splitOn "|" with
    | [b, g, g0, r] => do
      let g ← parseFn g; let g0 ← parseFn g0; let r ← parsePts r
      match (items b ",").mapM parseRat with
      | some [lo, hi] => pure (showPts (symmetrize lo hi g g0 r))
      | _ => none
    | _ => none
  | "symmn" => match rest.splitOn "|" with
    | [b, g, g0, n] => do
      let g ← parseFn g; let g0 ← parseFn g0; let n ← parseNeuron n
      match (items b ",").mapM parseRat with
      | some [lo, hi] =>
        pure (match symmetrizeNeuron (symmetrize lo hi g g0) n with
          | some out => showNeuron out
          | none => "RAISES")
      | _ => none
    | _ => none
  | "tangents" => match rest.splitOn "|" with
    | [eps, d, v] => do
      let eps ← parseRat eps; let d ← parsePts d; let v ← parsePts v
      pure (b01 (tangentsOK eps d v))
    | _ => none
  | "checkm" => match rest.splitOn "|" with
    | [f, eps, n, out] => do
      let f ← parseFn f; let eps ← parseRat eps; let n ← parseNeuron n; let out ← parseNeuron out
      pure (b01 (checkMirror eps f n out))
    | _ => none
  | "checks" => match rest.splitOn "|" with
    | [b, g, g0, eps, n, out] => do
      let g ← parseFn g; let g0 ← parseFn g0; let eps ← parseRat eps; let n ← parseNeuron n; let out ← parseNeuron out
      match (items b ",").mapM parseRat with
      | some [lo, hi] => pure (b01 (checkSymm eps (symmetrize lo hi g g0) n out))
      | _ => none
    | _ => none
  | "checkt" => match rest.splitOn "|" with
    | [f, t, out] => do
      let f ← parseFn f; let t ← parseTable t; let out ← parseTable out
      pure (b01 (checkTable f t out))
    | _ => none
  | "checkmesh" => match rest.splitOn "|" with
    | [f, v, fs, v', fs'] => do
      let f ← parseFn f; let v ← parsePts v; let fs ← parseFaces fs; let v' ← parsePts v'; let fs' ← parseFaces fs'
      pure (b01 (checkMesh f v fs v' fs'))
    | _ => none
  | "mag" => (parseRat rest).map fun c => match roundLog10 c with
    | some m => toString m
    | none => "ERR"
  | "bunits" => (parseEdges rest).map fun e => showOptRat (brainUnits e)
  | "xformb" => match rest.splitOn "|" with
    | [f, g, e, n] => do
      let f ← parseFn f; let g ← (trim g).toInt?; let e ← parseEdges e; let n ← parseNeuron n
      pure (match xformBrainNeuron f g (brainUnits e) n with
        | some out => showNeuron out
        | none => "RAISES")
    | _ => none
  | "checkb" => match rest.splitOn "|" with
    | [f, g, eps, e, n, out] => do
      let f ← parseFn f; let g ← (trim g).toInt?; let eps ← parseRat eps; let e ← parseEdges e
      let n ← parseNeuron n; let out ← parseNeuron out
      pure (b01 (checkXformBrain eps f g (brainUnits e) n out))
    | _ => none
  | "mirrorvia" => match rest.splitOn "|" with
    | [f1, m1, e1, g, f2, m2, e2, n] => do
      let f1 ← parseFn f1; let m1 ← (trim m1).toInt?; let e1 ← parseEdges e1; let g ← parseFn g
      let f2 ← parseFn f2; let m2 ← (trim m2).toInt?; let e2 ← parseEdges e2; let n ← parseNeuron n
      pure (match mirrorViaNeuron f1 m1 (brainUnits e1) g f2 m2 (brainUnits e2) n with
        | some out => showNeuron out
        | none => "RAISES")
    | _ => none
  | "image" => match rest.splitOn "|" with
    | [f, shape, off, pitch, vox] => do
      let ts ← parseAffSeq f; let (g, _) ← parseGrid shape off pitch vox
      if !invertible ts then pure "RAISES" else
      pure s!"off={showV3 (imageOff ts g)} pitch={showV3 (imagePitch ts g)} vox={showVox (imageSparse ts g)}"
    | _ => none
  | "imgcheck" => match rest.splitOn "|" with
    | [f, eps, shape, off, pitch, vox, off', pitch', vox'] => do
      let ts ← parseAffSeq f; let eps ← parseRat eps; let (g, _) ← parseGrid shape off pitch vox
      let off' ← parseV3 (items off' ","); let pitch' ← parseV3 (items pitch' ","); let v' ← parseVox vox'
      pure (b01 (imageOK eps ts g off' pitch' (sparseVal v')))
    | _ => none
  | "imgland" => match rest.splitOn "|" with
    | [f, eps, shape, off, pitch, vox, off', pitch', vox'] => do
      let ts ← parseAffSeq f; let eps ← parseRat eps; let (g, src) ← parseGrid shape off pitch vox
      let off' ← parseV3 (items off' ","); let pitch' ← parseV3 (items pitch' ","); let v' ← parseVox vox'
      pure s!"{b01 (landsOK eps (seqApply ts) g src off' pitch' (sparseVal v'))} n={landCount (seqApply ts) g src off' pitch'}"
    | _ => none
  | "pullback" => match rest.splitOn "|" with
    | [f, pts] => do
      let ts ← parseAffSeq f; let pts ← parsePts pts
      if !invertible ts then pure "RAISES" else pure (showPts (pts.map (seqApply (negSeq ts))))
    | _ => none
  | "forward" => match rest.splitOn "|" with
    | [f, pts] => do
      let ts ← parseAffSeq f; let pts ← parsePts pts
      pure (showPts (pts.map (seqApply ts)))
    | _ => none
  | "size" => match (items rest ",").mapM parseRat with
    | some [lo, hi] => some (showRat (axisSize lo hi))
    | _ => none
  | _ => none

end Navis.Drv.C16
