import NavisModel.Drv.C08
/-! Development entry point: `NAVIS_DRV_MAIN=NavisModel/Drv/MainC08.lean ./check C08`. -/
def main : IO Unit := Navis.Proto.mainLoop fun head rest =>
  match head.splitOn "." with
  | ["c08", cmd] => Navis.Drv.C08.run cmd rest
  | _ => none
