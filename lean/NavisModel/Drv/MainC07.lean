import NavisModel.Drv.C07
/-! Development entry point: `NAVIS_DRV_MAIN=NavisModel/Drv/MainC07.lean ./check C07`. -/
def main : IO Unit := Navis.Proto.mainLoop fun head rest =>
  match head.splitOn "." with
  | ["c07", cmd] => Navis.Drv.C07.run cmd rest
  | _ => none
