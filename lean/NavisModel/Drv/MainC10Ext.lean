import NavisModel.Drv.C10Ext
import NavisModel.Drv.ConnSub
/-! Development entry point for the C10 extension commands (the native `navisdrv` dispatches `c10x.` itself). -/
def main : IO Unit := Navis.Proto.mainLoop fun head rest =>
  match head.splitOn "." with
  | ["c10x", cmd] => Navis.Drv.C10Ext.run cmd rest
  | ["cs", cmd] => Navis.Drv.ConnSub.run cmd rest
  | ["f", cmd] => Navis.Drv.Forest.run cmd rest
  | _ => none
