import NavisModel.Proofs.AffineLemmas
import NavisModel.Proofs.BridgeLemmas
/-!
# C08 — transforms, sequences and bridging paths map points as defined

Property theorems only; helper lemmas live in `Proofs/AffineLemmas.lean` and
`Proofs/BridgeLemmas.lean`, the models in `Model/Affine.lean` and `Model/Bridge.lean`.

* affine maps over exact rationals: matrix action, `-T` is the two-sided inverse (guard `det ≠ 0`);
* `TransformSequence`: members in order, NaN rows untouched, rows independent, `-seq` inverts;
* bridging: **telescoping** — if every registration is the change of frame between its two templates
  then every chain of edges of the bridging graph (forward or inverted, any parallel edge, any path,
  in particular the one navis picks) composes to `frame target ∘ (frame source)⁻¹`;
* `via` / `avoid`: the logic AS WRITTEN accepts a path lacking `via` (witness), the repaired logic
  honours both; `NetworkXNoPath` is only raised when no admissible path exists (with the
  enumerator proved sound AND complete);
* the `lru_cache` of `bridging_graph` is always coherent with the registered transforms.

Thin-plate-spline and moving-least-squares numerics are external (morphops / molesq): "landmarks map
to landmarks" is tested by the harness, not proved.
-/
namespace Navis.Props.C08
open Navis.Affine Navis.Bridge

/-! ## Affine transforms -/

/-- `AffineTransform.__neg__` is the exact inverse, in both orders, for every matrix with
non-zero determinant and every point. -/
theorem affine_neg_inverse (T : Aff) (h : det T ≠ 0) (p : Pt) :
    xform (neg T) (xform T p) = p ∧ xform T (xform (neg T) p) = p :=
  ⟨xform_neg_xform T h p, xform_xform_neg T h p⟩

/-- The matrix of `-T` is a two-sided matrix inverse and negating twice restores `T`. -/
theorem affine_neg_matrix (T : Aff) (h : det T ≠ 0) :
    comp T (neg T) = Affine.one ∧ comp (neg T) T = Affine.one ∧ neg (neg T) = T :=
  ⟨comp_neg T h, neg_comp T h, neg_neg T h⟩

/-- The homogeneous matrix product acts as "first `S`, then `T`". -/
theorem affine_product_is_composition (S T : Aff) (p : Pt) :
    xform (comp S T) p = xform T (xform S p) :=
  xform_comp S T p

/-- `__neg__` fails (numpy: singular matrix) exactly for determinant zero. -/
theorem affine_neg_defined_iff (T : Aff) : (neg? T).isSome = true ↔ det T ≠ 0 := by
  unfold neg?; split <;> simp_all

/-- The edge transform between two frames moves frame-`s` coordinates of any world point to its
frame-`t` coordinates. -/
theorem affine_between_frames (Fs Ft : Aff) (h : det Fs ≠ 0) (w : Pt) :
    xform (between Fs Ft) (xform Fs w) = xform Ft w :=
  between_maps Fs Ft h w

/-- Non-vacuity: a shear + axis swap + scaling with a translation (det = -2). -/
def exT : Aff := ⟨0, 2, 0, 1, 1, 0, 0, 0, 1, 3, -1, 1 / 2⟩
example : det exT ≠ 0 := by decide +kernel
example : xform (neg exT) (xform exT (1, 2, 3)) = (1, 2, 3) := by decide +kernel
example : xform exT (1, 2, 3) = (7, 2, 7 / 2) := by decide +kernel

/-! ## `TransformSequence` -/

/-- A sequence of row-wise members equals, row by row, the composition of the members applied in
order (a NaN produced on the way stops that row). -/
theorem seq_is_composition {π} (fs : List (π → Option π)) (rows : List (Option π)) :
    seqXform (fs.map liftRow) rows = rows.map fun r => fs.foldl (fun q f => q.bind f) r :=
  seqXform_liftRow fs rows

/-- The output has the shape of the input. -/
theorem seq_keeps_shape {π} (fs : List (π → Option π)) (rows : List (Option π)) :
    (seqXform (fs.map liftRow) rows).length = rows.length := by
  rw [seq_is_composition, List.length_map]

/-- Rows containing NaN are left alone. -/
theorem nan_rows_untouched {π} (fs : List (π → Option π)) (rows : List (Option π)) (i : Nat)
    (h : rows[i]? = some none) : (seqXform (fs.map liftRow) rows)[i]? = some none := by
  rw [seq_is_composition, List.getElem?_map, h]
  exact congrArg some (rowSeq_none fs)

/-- A row of the result depends on that row of the input only: NaN (or anything else) in other
rows does not contaminate it. -/
theorem rows_independent {π} (fs : List (π → Option π)) (rows rows' : List (Option π)) (i : Nat)
    (h : rows[i]? = rows'[i]?) :
    (seqXform (fs.map liftRow) rows)[i]? = (seqXform (fs.map liftRow) rows')[i]? := by
  rw [seq_is_composition, seq_is_composition, List.getElem?_map, List.getElem?_map, h]

/-- For affine members the sequence is the matrix product on every non-NaN row. -/
theorem seq_affine_is_product (ts : List InvAff) (rows : List (Option Pt)) :
    seqXform (ts.map fun T => liftRow fun q => some (xform T.1 q)) rows
      = rows.map (Option.map (xform (prod affGroup ts).1)) :=
  seqXform_affine ts rows

/-- `TransformSequence.__neg__` (members negated, order REVERSED) composes to the inverse, in any
group of transforms. -/
theorem seq_neg_is_inverse {τ} (g : TGroup τ) (ts : List τ) :
    g.mul (prod g ts) (prod g (negSeq g.inv ts)) = g.one ∧
    g.mul (prod g (negSeq g.inv ts)) (prod g ts) = g.one := by
  rw [prod_negSeq]; exact ⟨g.mul_inv _, g.inv_mul _⟩

/-- … hence `-seq` applied after `seq` restores every row (affine members). -/
theorem seq_neg_roundtrip (ts : List InvAff) (rows : List (Option Pt)) :
    seqXform ((negSeq affGroup.inv ts).map fun T => liftRow fun q => some (xform T.1 q))
      (seqXform (ts.map fun T => liftRow fun q => some (xform T.1 q)) rows) = rows := by
  rw [seq_affine_is_product, seq_affine_is_product, List.map_map, prod_negSeq]
  conv => rhs; rw [← List.map_id rows]
  apply List.map_congr_left
  intro r _
  cases r with
  | none => rfl
  | some p =>
    show some (xform (neg (prod affGroup ts).1) (xform (prod affGroup ts).1 p)) = some p
    rw [xform_neg_xform _ (prod affGroup ts).2]

/-- Non-vacuity / the order matters: negating the members WITHOUT reversing is not the inverse. -/
def exS : InvAff := ⟨⟨1, 0, 0, 0, 1, 0, 0, 0, 1, 1, 0, 0⟩, by decide +kernel⟩
def exR : InvAff := ⟨⟨2, 0, 0, 0, 1, 0, 0, 0, 1, 0, 0, 0⟩, by decide +kernel⟩
example : (prod affGroup ([exS, exR].map affGroup.inv)).1 ≠ (affGroup.inv (prod affGroup [exS, exR])).1 := by
  decide +kernel
example : seqXform ([exS, exR].map fun T => liftRow fun q => some (xform T.1 q))
    [some (1, 1, 1), none, some (0, 0, 0)] = [some (4, 1, 1), none, some (2, 0, 0)] := by
  decide +kernel

/-! ## The bridging graph and the telescoping theorem -/

/-- The edges of `bridging_graph(reciprocal)` are exactly: one forward edge per bridging
registration, and — only if `reciprocal` is on and the registration is invertible — one reverse
edge carrying the NEGATED transform with weight `weight * reciprocal`. -/
theorem graph_edges_exactly {τ} (neg : τ → τ) (regs : List (Reg τ)) (recip : Option Rat) (e : GEdge τ) :
    e ∈ bridgingGraph neg regs recip ↔
      ∃ r, regs[e.ridx]? = some r ∧ r.kind = Kind.bridging ∧
        ((e = ⟨r.src, r.tgt, r.xf, r.weight, e.ridx, false⟩) ∨
         (r.invertible = true ∧ ∃ k, recip = some k ∧ k ≠ 0 ∧
            e = ⟨r.tgt, r.src, neg r.xf, r.weight * k, e.ridx, true⟩)) := by
  constructor
  · intro h
    obtain ⟨r, h1, h2, h3 | h3⟩ := mem_bridgingGraph h
    · refine ⟨r, h1, h2, Or.inl ?_⟩
      obtain ⟨a, b, c, d, f⟩ := h3
      cases e; simp_all
    · obtain ⟨a, b, c, d, f, k, hk, hk0, hw⟩ := h3
      refine ⟨r, h1, h2, Or.inr ⟨b, k, hk, hk0, ?_⟩⟩
      cases e; simp_all
  · rintro ⟨r, h1, h2, h3 | ⟨hi, k, hk, hk0, h3⟩⟩
    · rw [h3]; exact fwd_mem_bridgingGraph neg recip h1 h2
    · rw [h3, hk]; exact rev_mem_bridgingGraph neg hk0 h1 h2 hi

/-- **Telescoping.** If every bridging registration is consistent with a (hidden) assignment of
frames, then EVERY chain of edges of the bridging graph from `s` to `t` — forward or inverted
edges, any of several parallel edges, any route, with or without cycles — composes to
`frame t ∘ (frame s)⁻¹`.  Holds in every group of transforms. -/
theorem path_maps_as_frames {τ} (g : TGroup τ) (frame : Nat → τ) (regs : List (Reg τ))
    (recip : Option Rat) (hc : Consistent g frame regs) {s t : Nat} {es : List (GEdge τ)}
    (h : EChain (bridgingGraph g.inv regs recip) s t es) :
    prod g (es.map (·.xf)) = g.mul (g.inv (frame s)) (frame t) :=
  telescope g frame _ (fun _ he => edge_consistent g hc he) h

/-- In particular for the transforms `find_bridging_path` collects along whatever node path it
settles on (shortest, first simple path, honouring `via` or not), with its choice among parallel
edges as written. -/
theorem found_path_maps_as_frames {τ} (g : TGroup τ) (frame : Nat → τ) (regs : List (Reg τ))
    (recip : Option Rat) (hc : Consistent g frame regs) {s t : Nat} {p : List Nat}
    {es : List (GEdge τ)} (hp : pathEdges (bridgingGraph g.inv regs recip) p = some es)
    (hs : p.head? = some s) (ht : p.getLast? = some t) :
    prod g (es.map (·.xf)) = g.mul (g.inv (frame s)) (frame t) :=
  path_maps_as_frames g frame regs recip hc (pathEdges_chain hp hs ht)

/-- Every node path of the graph does have transforms, and the edge chosen between two nodes is one
of their parallel edges, of maximal weight (as written: `sorted(...)[-1]`). -/
theorem path_transforms_exist {τ} (G : List (GEdge τ)) (p : List Nat) (h : isChain G p = true) :
    ∃ es, pathEdges G p = some es :=
  pathEdges_isSome h

theorem picked_edge_is_parallel_max {τ} (G : List (GEdge τ)) (a b : Nat) (e : GEdge τ)
    (h : pick G a b = some e) :
    e ∈ G ∧ e.u = a ∧ e.v = b ∧ ∀ e' ∈ G, e'.u = a → e'.v = b → e'.weight ≤ e.weight := by
  obtain ⟨h1, h2, h3⟩ := pick_mem h
  exact ⟨h1, h2, h3, fun e' he' hu hv => pick_max h e' (mem_parallel.mpr ⟨he', hu, hv⟩)⟩

/-- **`xform_brain` on points (affine instance).** With invertible affine frames and consistent
registrations, applying the `TransformSequence` of the found path to an array maps every non-NaN
row exactly as the direct change of frame `frame t ∘ (frame s)⁻¹` and leaves NaN rows alone. -/
theorem affine_path_maps_points (frame : Nat → InvAff) (regs : List (Reg InvAff)) (recip : Option Rat)
    (hc : Consistent affGroup frame regs) {s t : Nat} {p : List Nat} {es : List (GEdge InvAff)}
    (hp : pathEdges (bridgingGraph affGroup.inv regs recip) p = some es)
    (hs : p.head? = some s) (ht : p.getLast? = some t) (rows : List (Option Pt)) :
    seqXform (es.map fun e => liftRow fun q => some (xform e.xf.1 q)) rows
      = rows.map (Option.map fun q => xform (frame t).1 (xform (neg (frame s).1) q)) := by
  have h := found_path_maps_as_frames affGroup frame regs recip hc hp hs ht
  have e1 : (es.map fun e => liftRow fun q => some (xform e.xf.1 q))
      = (es.map (·.xf)).map fun (T : InvAff) => liftRow fun q => some (xform T.1 q) := by
    rw [List.map_map]; rfl
  rw [e1, seq_affine_is_product, h]
  apply List.map_congr_left
  intro r _
  cases r with
  | none => rfl
  | some q => exact congrArg some (xform_comp _ _ q)

/-- Non-vacuity: three templates with different frames, a forward-only and an invertible
registration, path `2 → 1 → 0` uses the inverted edge and the forward edge. -/
def exFrame : Nat → InvAff
  | 0 => exS
  | 1 => exR
  | _ => ⟨exT, by decide +kernel⟩
def exRegs : List (Reg InvAff) :=
  [⟨1, 0, affGroup.mul (affGroup.inv (exFrame 1)) (exFrame 0), Kind.bridging, false, 1⟩,
   ⟨1, 2, affGroup.mul (affGroup.inv (exFrame 1)) (exFrame 2), Kind.bridging, true, 2⟩]
example : Consistent affGroup exFrame exRegs := by
  intro r hr _
  simp only [exRegs, List.mem_cons, List.mem_nil_iff, or_false] at hr
  rcases hr with rfl | rfl <;> rfl
example : ((pathEdges (bridgingGraph affGroup.inv exRegs (some 1)) [2, 1, 0]).map
    fun es => es.map fun e => (e.ridx, e.inverted)) = some [(1, true), (0, false)] := by
  decide +kernel

/-! ## `via` / `avoid` -/

/-- The property checker the driver evaluates on the path navis returns is exact. -/
theorem check_sound {τ} (G : List (GEdge τ)) (s t : Nat) (via avoid p : List Nat) :
    checkPath G s t via avoid p = true ↔
      SimplePath G s t p ∧ (∀ v ∈ via, v ∈ p) ∧ (∀ v ∈ avoid, v ∉ p) :=
  checkPath_iff

/-- The model's enumerator yields exactly the simple paths (sound and complete), so `admissible`
is exactly the set of answers the property allows. -/
theorem enumerator_exact {τ} (G : List (GEdge τ)) (s t : Nat) (via avoid p : List Nat) :
    p ∈ admissible G s t via avoid ↔ checkPath G s t via avoid p = true :=
  mem_admissible_iff

/-- **Repaired logic honours `via` and `avoid`**: whatever sound enumeration of simple paths the
search runs over, an answer is a simple path from `s` to `t` with all `via` and no `avoid`. -/
theorem path_honours_via_avoid {τ} (G : List (GEdge τ)) (s t : Nat) (via avoid : List Nat)
    (sh : Option (List Nat)) (enum : List (List Nat)) (p : List Nat)
    (hsh : ∀ q, sh = some q → SimplePath G s t q) (henum : ∀ q ∈ enum, SimplePath G s t q)
    (h : findPath acceptRepaired G s t via avoid sh enum = .ok p) :
    checkPath G s t via avoid p = true := by
  unfold findPath at h
  split at h; · cases h
  split at h; · cases h
  split at h; · cases h
  split at h; · cases h
  split at h
  · rename_i hva
    simp only [Bool.and_eq_true, List.isEmpty_iff] at hva
    split at h
    · rename_i q
      cases h
      rw [checkPath_iff, hva.1, hva.2]
      exact ⟨hsh _ rfl, by simp, by simp⟩
    · cases h
  · obtain ⟨hm, ha⟩ := searchLoop_ok h
    rw [checkPath_iff]
    exact ⟨henum p hm, (acceptRepaired_iff via avoid p).mp ha⟩

/-- **The logic as written does not**: a registry (`0→3→2`, `0→1→2`, `2→4`) and the query
`0 → 2 via 1 avoid 4` for which it returns the path `0,3,2` that lacks `via`, although the
admissible path `0,1,2` exists (DESIGN §6 #9; reproduced on the real code by the harness). -/
def exG : List (GEdge Unit) :=
  [⟨0, 3, (), 1, 0, false⟩, ⟨3, 2, (), 1, 1, false⟩, ⟨0, 1, (), 1, 2, false⟩, ⟨1, 2, (), 1, 3, false⟩,
   ⟨2, 4, (), 1, 4, false⟩]

theorem asWritten_violates_via :
    ∃ (G : List (GEdge Unit)) (s t : Nat) (via avoid p : List Nat),
      findPath acceptAsWritten G s t via avoid none (simplePaths G s t) = .ok p ∧
      checkPath G s t via avoid p = false ∧ admissible G s t via avoid ≠ [] :=
  ⟨exG, 0, 2, [1], [4], [0, 3, 2], by decide +kernel, by decide +kernel, by decide +kernel⟩

/-- With only `via` or only `avoid` the code as written agrees with the property; with both it
ignores `via` altogether. -/
theorem asWritten_single_ok (l p : List Nat) (h : l ≠ []) :
    acceptAsWritten l [] p = acceptRepaired l [] p ∧ acceptAsWritten [] l p = acceptRepaired [] l p :=
  ⟨asWritten_eq_repaired_no_avoid l p h, asWritten_eq_repaired_no_via l p h⟩

theorem asWritten_both_ignores_via (via avoid p : List Nat) (hv : via ≠ []) (ha : avoid ≠ []) :
    acceptAsWritten via avoid p = acceptRepaired [] avoid p := by
  rw [asWritten_both via avoid p hv ha]; simp [acceptRepaired]

/-- **`no_path_error` soundness** (both for the code as written and repaired): if the search over
the simple paths ends in `NetworkXNoPath`, then no admissible path exists at all.  (`hsh`: the
assumption on `nx.shortest_path` that it only raises when there is no path.) -/
theorem no_path_error_sound {τ} (accept : List Nat → List Nat → List Nat → Bool)
    (hacc : ∀ via avoid p, (via ≠ [] ∨ avoid ≠ []) → acceptRepaired via avoid p = true →
      accept via avoid p = true)
    (G : List (GEdge τ)) (s t : Nat) (via avoid : List Nat) (sh : Option (List Nat)) (e : FindErr)
    (hsh : sh = none → simplePaths G s t = [])
    (he : e = .noPath ∨ e = .noGood)
    (h : findPath accept G s t via avoid sh (simplePaths G s t) = .error e) :
    ∀ p, checkPath G s t via avoid p = false := by
  intro p
  cases hcp : checkPath G s t via avoid p with
  | false => rfl
  | true =>
    exfalso
    have hadm : p ∈ admissible G s t via avoid := mem_admissible_iff.mpr hcp
    simp only [admissible, List.mem_filter] at hadm
    obtain ⟨hmem, hrep⟩ := hadm
    unfold findPath at h
    split at h; · cases h; rcases he with h | h <;> cases h
    split at h; · cases h; rcases he with h | h <;> cases h
    split at h; · cases h; rcases he with h | h <;> cases h
    split at h; · cases h; rcases he with h | h <;> cases h
    split at h
    · split at h
      · cases h
      · rw [hsh rfl] at hmem; cases hmem
    · rename_i hva
      have hne : via ≠ [] ∨ avoid ≠ [] := by
        simp only [Bool.and_eq_true, List.isEmpty_iff, not_and] at hva
        by_cases hv : via = []
        · exact Or.inr (hva hv)
        · exact Or.inl hv
      have := searchLoop_error h p hmem
      rw [hacc via avoid p hne hrep] at this
      cases this

/-- Both loop bodies qualify for `no_path_error_sound`. -/
theorem no_path_error_sound_applies :
    (∀ via avoid p, (via ≠ [] ∨ avoid ≠ []) → acceptRepaired via avoid p = true →
      acceptRepaired via avoid p = true) ∧
    (∀ via avoid p, (via ≠ [] ∨ avoid ≠ []) → acceptRepaired via avoid p = true →
      acceptAsWritten via avoid p = true) :=
  ⟨fun _ _ _ _ h => h, asWritten_of_repaired⟩

/-- Conversely the repaired search raises whenever no admissible path exists. -/
theorem error_when_inadmissible {τ} (G : List (GEdge τ)) (s t : Nat) (via avoid : List Nat)
    (sh : Option (List Nat)) (hsh : ∀ q, sh = some q → SimplePath G s t q)
    (hno : ∀ p, checkPath G s t via avoid p = false) :
    ∃ e, findPath acceptRepaired G s t via avoid sh (simplePaths G s t) = .error e := by
  cases h : findPath acceptRepaired G s t via avoid sh (simplePaths G s t) with
  | error e => exact ⟨e, rfl⟩
  | ok p =>
    have := path_honours_via_avoid G s t via avoid sh _ p hsh
      (fun q hq => mem_simplePaths_iff.mp hq) h
    rw [hno p] at this; cases this

example : findPath acceptRepaired exG 0 2 [1] [4] none (simplePaths exG 0 2) = .ok [0, 1, 2] := by
  decide +kernel
example : findPath acceptRepaired exG 0 2 [1] [1] none (simplePaths exG 0 2) = .error .noGood := by
  decide +kernel
example : findPath acceptRepaired exG 4 0 [] [3] none (simplePaths exG 4 0) = .error .noPath := by
  decide +kernel

/-! ## Registration and the memoised graph -/

/-- For EVERY history of registrations and graph queries starting from an empty registry, every
query returns the graph of the transforms registered at that moment (the memo table never serves a
stale graph). -/
theorem query_sees_current_registrations {τ} [DecidableEq τ] (neg : τ → τ) (ops : List (Op τ)) :
    (runOps neg RegState.empty ops).1 = runRef neg [] ops :=
  runOps_eq_runRef neg _ (coherent_empty neg) ops

/-- A query right after a registration sees the new bridging edge, whatever was memoised before
(`st` arbitrary, even incoherent) and whether or not `skip_existing` found an equal record. -/
theorem query_after_register_sees_edge {τ} [DecidableEq τ] (neg : τ → τ) (st : RegState τ)
    (r : Reg τ) (sk : Bool) (hk : r.kind = Kind.bridging) (k : Option Rat) :
    ∃ i, (⟨r.src, r.tgt, r.xf, r.weight, i, false⟩ : GEdge τ) ∈ (graphCached neg (register st r sk) k).1 := by
  obtain ⟨h1, _, _⟩ := graphCached_spec neg (register st r sk) (coherent_register neg st r sk) k
  rw [h1]
  have hmem : r ∈ (register st r sk).regs := by
    simp only [register]
    split
    · simp
    · rename_i h
      simp only [Bool.or_eq_true, Bool.not_eq_true', not_or, Bool.not_eq_false] at h
      simpa using h.2
  obtain ⟨i, hi⟩ := List.mem_iff_getElem?.mp hmem
  exact ⟨i, fwd_mem_bridgingGraph neg k hi hk⟩

/-- Non-vacuity: query, register, query — the second answer has the edge, the first has not. -/
example : (runOps (τ := Nat) id RegState.empty
    [.query (some 1), .reg ⟨0, 1, 7, Kind.bridging, false, 1⟩ true, .query (some 1)]).1
    = [[], [⟨0, 1, 7, 1, 0, false⟩]] := by
  decide +kernel

end Navis.Props.C08
