import NavisModel.Proofs.AffineLemmas
import NavisModel.Proofs.BridgeLemmas
import NavisModel.Proofs.TpsLemmas
import NavisModel.Gen.Bridge
/-!
# C08 — transforms, sequences and bridging paths map points as defined

Property theorems only; helper lemmas live in `Proofs/AffineLemmas.lean` and
`Proofs/BridgeLemmas.lean`, the models in `Model/Affine.lean` and `Model/Bridge.lean`.

* affine maps over exact rationals: matrix action, `-T` is the two-sided inverse (guard `det ≠ 0`);
* `TransformSequence`: members in order, NaN rows untouched, rows independent, `-seq` inverts;
* bridging: **telescoping** — if every registration is the change of frame between its two templates
  then every chain of edges of the bridging graph (forward or inverted, any parallel edge, any path,
  in particular the one navis picks) composes to `frame target ∘ (frame source)⁻¹`;
* `via` / `avoid`: the loop body of the CURRENT source (re-extracted into `Gen/Bridge.lean` on every
  run) is proved equal to "all `via`, no `avoid`" (`source_decision_is_repaired`), hence honours both;
  an error is raised EXACTLY when no admissible path exists (`no_path_error_iff`, with the enumerator
  proved sound AND complete).  The loop body as it was written before the repair `0eaf94d`
  (`acceptAsWritten`, HISTORICAL) accepts a path lacking `via` (witness);
* the `lru_cache` of `bridging_graph` is always coherent with the registered transforms;
* the source facts the models hard-wire (graph edges and weights, append condition, cache clearing,
  which classes are invertible, `TransformSequence.__neg__` / working copy / NaN mask, `TPStransform`
  negation and coefficient cache) are what the current source says (`source_*` theorems);
* merging of appendable members keeps the composition; sequences of sequences flatten; a registered
  sequence is marked invertible exactly when `-sequence` is defined (all members invertible);
* thin plate splines: coefficients solving the TPS system (exactly / up to ε) make the spline map every
  source landmark onto its target (exactly / up to ε), for every kernel; the coefficient cache under
  `copy()` / `__neg__` always serves the coefficients of the object's own landmarks.

`np.linalg.solve` (inside morphops) and the moving-least-squares numerics (molesq) are external: the
driver evaluates the residual of navis' own coefficients in `Rat`; MLS landmark interpolation is tested
by the harness with a tolerance, not proved (it is approximate by construction: molesq adds an epsilon
to every squared distance).
-/
namespace Navis.Props.C08
open Navis.Affine Navis.Bridge

/-! ## Affine transforms -/

/-- `AffineTransform.__neg__` is the exact inverse, in both orders, for every matrix with
non-zero determinant and every point. -/
theorem affine_neg_inverse (T : Aff) (h : det T ≠ 0) (p : Pt) :
    xform (neg T) (xform T p) = p ∧ xform T (xform (neg T) p) = p :=
  ⟨xform_neg_xform T h p, xform_xform_neg T h p⟩

/-- The matrix of `-T` is a two-sided matrix inverse and negating twice restores `T`. -/
theorem affine_neg_matrix (T : Aff) (h : det T ≠ 0) :
    comp T (neg T) = Affine.one ∧ comp (neg T) T = Affine.one ∧ neg (neg T) = T :=
  ⟨comp_neg T h, neg_comp T h, neg_neg T h⟩

/-- The homogeneous matrix product acts as "first `S`, then `T`". -/
theorem affine_product_is_composition (S T : Aff) (p : Pt) :
    xform (comp S T) p = xform T (xform S p) :=
  xform_comp S T p

/-- `__neg__` fails (numpy: singular matrix) exactly for determinant zero. -/
theorem affine_neg_defined_iff (T : Aff) : (neg? T).isSome = true ↔ det T ≠ 0 := by
  unfold neg?; split <;> simp_all

/-- The edge transform between two frames moves frame-`s` coordinates of any world point to its
frame-`t` coordinates. -/
theorem affine_between_frames (Fs Ft : Aff) (h : det Fs ≠ 0) (w : Pt) :
    xform (between Fs Ft) (xform Fs w) = xform Ft w :=
  between_maps Fs Ft h w

/-- Non-vacuity: a shear + axis swap + scaling with a translation (det = -2). -/
def exT : Aff := ⟨0, 2, 0, 1, 1, 0, 0, 0, 1, 3, -1, 1 / 2⟩
example : det exT ≠ 0 := by decide +kernel
example : xform (neg exT) (xform exT (1, 2, 3)) = (1, 2, 3) := by decide +kernel
example : xform exT (1, 2, 3) = (7, 2, 7 / 2) := by decide +kernel

/-! ## `TransformSequence` -/

/-- A sequence of row-wise members equals, row by row, the composition of the members applied in
order (a NaN produced on the way stops that row). -/
theorem seq_is_composition {π} (fs : List (π → Option π)) (rows : List (Option π)) :
    seqXform (fs.map liftRow) rows = rows.map fun r => fs.foldl (fun q f => q.bind f) r :=
  seqXform_liftRow fs rows

/-- The output has the shape of the input. -/
theorem seq_keeps_shape {π} (fs : List (π → Option π)) (rows : List (Option π)) :
    (seqXform (fs.map liftRow) rows).length = rows.length := by
  rw [seq_is_composition, List.length_map]

/-- Rows containing NaN are left alone. -/
theorem nan_rows_untouched {π} (fs : List (π → Option π)) (rows : List (Option π)) (i : Nat)
    (h : rows[i]? = some none) : (seqXform (fs.map liftRow) rows)[i]? = some none := by
  rw [seq_is_composition, List.getElem?_map, h]
  exact congrArg some (rowSeq_none fs)

/-- A row of the result depends on that row of the input only: NaN (or anything else) in other
rows does not contaminate it. -/
theorem rows_independent {π} (fs : List (π → Option π)) (rows rows' : List (Option π)) (i : Nat)
    (h : rows[i]? = rows'[i]?) :
    (seqXform (fs.map liftRow) rows)[i]? = (seqXform (fs.map liftRow) rows')[i]? := by
  rw [seq_is_composition, seq_is_composition, List.getElem?_map, List.getElem?_map, h]

/-- For affine members the sequence is the matrix product on every non-NaN row. -/
theorem seq_affine_is_product (ts : List InvAff) (rows : List (Option Pt)) :
    seqXform (ts.map fun T => liftRow fun q => some (xform T.1 q)) rows
      = rows.map (Option.map (xform (prod affGroup ts).1)) :=
  seqXform_affine ts rows

/-- `TransformSequence.__neg__` (members negated, order REVERSED) composes to the inverse, in any
group of transforms. -/
theorem seq_neg_is_inverse {τ} (g : TGroup τ) (ts : List τ) :
    g.mul (prod g ts) (prod g (negSeq g.inv ts)) = g.one ∧
    g.mul (prod g (negSeq g.inv ts)) (prod g ts) = g.one := by
  rw [prod_negSeq]; exact ⟨g.mul_inv _, g.inv_mul _⟩

/-- … hence `-seq` applied after `seq` restores every row (affine members). -/
theorem seq_neg_roundtrip (ts : List InvAff) (rows : List (Option Pt)) :
    seqXform ((negSeq affGroup.inv ts).map fun T => liftRow fun q => some (xform T.1 q))
      (seqXform (ts.map fun T => liftRow fun q => some (xform T.1 q)) rows) = rows := by
  rw [seq_affine_is_product, seq_affine_is_product, List.map_map, prod_negSeq]
  conv => rhs; rw [← List.map_id rows]
  apply List.map_congr_left
  intro r _
  cases r with
  | none => rfl
  | some p =>
    show some (xform (neg (prod affGroup ts).1) (xform (prod affGroup ts).1 p)) = some p
    rw [xform_neg_xform _ (prod affGroup ts).2]

/-- Non-vacuity / the order matters: negating the members WITHOUT reversing is not the inverse. -/
def exS : InvAff := ⟨⟨1, 0, 0, 0, 1, 0, 0, 0, 1, 1, 0, 0⟩, by decide +kernel⟩
def exR : InvAff := ⟨⟨2, 0, 0, 0, 1, 0, 0, 0, 1, 0, 0, 0⟩, by decide +kernel⟩
example : (prod affGroup ([exS, exR].map affGroup.inv)).1 ≠ (affGroup.inv (prod affGroup [exS, exR])).1 := by
  decide +kernel
example : seqXform ([exS, exR].map fun T => liftRow fun q => some (xform T.1 q))
    [some (1, 1, 1), none, some (0, 0, 0)] = [some (4, 1, 1), none, some (2, 0, 0)] := by
  decide +kernel

/-! ## The bridging graph and the telescoping theorem -/

/-- The edges of `bridging_graph(reciprocal)` are exactly: one forward edge per bridging
registration, and — only if `reciprocal` is on and the registration is invertible — one reverse
edge carrying the NEGATED transform with weight `weight * reciprocal`. -/
theorem graph_edges_exactly {τ} (neg : τ → τ) (regs : List (Reg τ)) (recip : Option Rat) (e : GEdge τ) :
    e ∈ bridgingGraph neg regs recip ↔
      ∃ r, regs[e.ridx]? = some r ∧ r.kind = Kind.bridging ∧
        ((e = ⟨r.src, r.tgt, r.xf, r.weight, e.ridx, false⟩) ∨
         (r.invertible = true ∧ ∃ k, recip = some k ∧ k ≠ 0 ∧
            e = ⟨r.tgt, r.src, neg r.xf, r.weight * k, e.ridx, true⟩)) := by
  constructor
  · intro h
    obtain ⟨r, h1, h2, h3 | h3⟩ := mem_bridgingGraph h
    · refine ⟨r, h1, h2, Or.inl ?_⟩
      obtain ⟨a, b, c, d, f⟩ := h3
      cases e; simp_all
    · obtain ⟨a, b, c, d, f, k, hk, hk0, hw⟩ := h3
      refine ⟨r, h1, h2, Or.inr ⟨b, k, hk, hk0, ?_⟩⟩
      cases e; simp_all
  · rintro ⟨r, h1, h2, h3 | ⟨hi, k, hk, hk0, h3⟩⟩
    · rw [h3]; exact fwd_mem_bridgingGraph neg recip h1 h2
    · rw [h3, hk]; exact rev_mem_bridgingGraph neg hk0 h1 h2 hi

/-- **Telescoping.** If every bridging registration is consistent with a (hidden) assignment of
frames, then EVERY chain of edges of the bridging graph from `s` to `t` — forward or inverted
edges, any of several parallel edges, any route, with or without cycles — composes to
`frame t ∘ (frame s)⁻¹`.  Holds in every group of transforms. -/
theorem path_maps_as_frames {τ} (g : TGroup τ) (frame : Nat → τ) (regs : List (Reg τ))
    (recip : Option Rat) (hc : Consistent g frame regs) {s t : Nat} {es : List (GEdge τ)}
    (h : EChain (bridgingGraph g.inv regs recip) s t es) :
    prod g (es.map (·.xf)) = g.mul (g.inv (frame s)) (frame t) :=
  telescope g frame _ (fun _ he => edge_consistent g hc he) h

/-- In particular for the transforms `find_bridging_path` collects along whatever node path it
settles on (shortest, first simple path, honouring `via` or not), with its choice among parallel
edges as written. -/
theorem found_path_maps_as_frames {τ} (g : TGroup τ) (frame : Nat → τ) (regs : List (Reg τ))
    (recip : Option Rat) (hc : Consistent g frame regs) {s t : Nat} {p : List Nat}
    {es : List (GEdge τ)} (hp : pathEdges (bridgingGraph g.inv regs recip) p = some es)
    (hs : p.head? = some s) (ht : p.getLast? = some t) :
    prod g (es.map (·.xf)) = g.mul (g.inv (frame s)) (frame t) :=
  path_maps_as_frames g frame regs recip hc (pathEdges_chain hp hs ht)

/-- Every node path of the graph does have transforms, and the edge chosen between two nodes is one
of their parallel edges, of maximal weight (as written: `sorted(...)[-1]`). -/
theorem path_transforms_exist {τ} (G : List (GEdge τ)) (p : List Nat) (h : isChain G p = true) :
    ∃ es, pathEdges G p = some es :=
  pathEdges_isSome h

theorem picked_edge_is_parallel_max {τ} (G : List (GEdge τ)) (a b : Nat) (e : GEdge τ)
    (h : pick G a b = some e) :
    e ∈ G ∧ e.u = a ∧ e.v = b ∧ ∀ e' ∈ G, e'.u = a → e'.v = b → e'.weight ≤ e.weight := by
  obtain ⟨h1, h2, h3⟩ := pick_mem h
  exact ⟨h1, h2, h3, fun e' he' hu hv => pick_max h e' (mem_parallel.mpr ⟨he', hu, hv⟩)⟩

/-- **`xform_brain` on points (affine instance).** With invertible affine frames and consistent
registrations, applying the `TransformSequence` of the found path to an array maps every non-NaN
row exactly as the direct change of frame `frame t ∘ (frame s)⁻¹` and leaves NaN rows alone. -/
theorem affine_path_maps_points (frame : Nat → InvAff) (regs : List (Reg InvAff)) (recip : Option Rat)
    (hc : Consistent affGroup frame regs) {s t : Nat} {p : List Nat} {es : List (GEdge InvAff)}
    (hp : pathEdges (bridgingGraph affGroup.inv regs recip) p = some es)
    (hs : p.head? = some s) (ht : p.getLast? = some t) (rows : List (Option Pt)) :
    seqXform (es.map fun e => liftRow fun q => some (xform e.xf.1 q)) rows
      = rows.map (Option.map fun q => xform (frame t).1 (xform (neg (frame s).1) q)) := by
  have h := found_path_maps_as_frames affGroup frame regs recip hc hp hs ht
  have e1 : (es.map fun e => liftRow fun q => some (xform e.xf.1 q))
      = (es.map (·.xf)).map fun (T : InvAff) => liftRow fun q => some (xform T.1 q) := by
    rw [List.map_map]; rfl
  rw [e1, seq_affine_is_product, h]
  apply List.map_congr_left
  intro r _
  cases r with
  | none => rfl
  | some q => exact congrArg some (xform_comp _ _ q)

/-- Non-vacuity: three templates with different frames, a forward-only and an invertible
registration, path `2 → 1 → 0` uses the inverted edge and the forward edge. -/
def exFrame : Nat → InvAff
  | 0 => exS
  | 1 => exR
  | _ => ⟨exT, by decide +kernel⟩
def exRegs : List (Reg InvAff) :=
  [⟨1, 0, affGroup.mul (affGroup.inv (exFrame 1)) (exFrame 0), Kind.bridging, false, 1⟩,
   ⟨1, 2, affGroup.mul (affGroup.inv (exFrame 1)) (exFrame 2), Kind.bridging, true, 2⟩]
example : Consistent affGroup exFrame exRegs := by
  intro r hr _
  simp only [exRegs, List.mem_cons, List.mem_nil_iff, or_false] at hr
  rcases hr with rfl | rfl <;> rfl
example : ((pathEdges (bridgingGraph affGroup.inv exRegs (some 1)) [2, 1, 0]).map
    fun es => es.map fun e => (e.ridx, e.inverted)) = some [(1, true), (0, false)] := by
  decide +kernel

/-! ## `via` / `avoid` -/

/-- The property checker the driver evaluates on the path navis returns is exact. -/
theorem check_sound {τ} (G : List (GEdge τ)) (s t : Nat) (via avoid p : List Nat) :
    checkPath G s t via avoid p = true ↔
      SimplePath G s t p ∧ (∀ v ∈ via, v ∈ p) ∧ (∀ v ∈ avoid, v ∉ p) :=
  checkPath_iff

/-- The model's enumerator yields exactly the simple paths (sound and complete), so `admissible`
is exactly the set of answers the property allows. -/
theorem enumerator_exact {τ} (G : List (GEdge τ)) (s t : Nat) (via avoid p : List Nat) :
    p ∈ admissible G s t via avoid ↔ checkPath G s t via avoid p = true :=
  mem_admissible_iff

/-- **Repaired logic honours `via` and `avoid`**: whatever sound enumeration of simple paths the
search runs over, an answer is a simple path from `s` to `t` with all `via` and no `avoid`. -/
theorem path_honours_via_avoid {τ} (G : List (GEdge τ)) (s t : Nat) (via avoid : List Nat)
    (sh : Option (List Nat)) (enum : List (List Nat)) (p : List Nat)
    (hsh : ∀ q, sh = some q → SimplePath G s t q) (henum : ∀ q ∈ enum, SimplePath G s t q)
    (h : findPath acceptRepaired G s t via avoid sh enum = .ok p) :
    checkPath G s t via avoid p = true := by
  unfold findPath at h
  split at h; · cases h
  split at h; · cases h
  split at h; · cases h
  split at h; · cases h
  split at h
  · rename_i hva
    simp only [Bool.and_eq_true, List.isEmpty_iff] at hva
    split at h
    · rename_i q
      cases h
      rw [checkPath_iff, hva.1, hva.2]
      exact ⟨hsh _ rfl, by simp, by simp⟩
    · cases h
  · obtain ⟨hm, ha⟩ := searchLoop_ok h
    rw [checkPath_iff]
    exact ⟨henum p hm, (acceptRepaired_iff via avoid p).mp ha⟩

/-- HISTORICAL — **the logic as written before the repair `0eaf94d` does not**: a registry (`0→3→2`, `0→1→2`, `2→4`) and the query
`0 → 2 via 1 avoid 4` for which it returns the path `0,3,2` that lacks `via`, although the
admissible path `0,1,2` exists (DESIGN §6 #9; reproduced on the real code by the harness). -/
def exG : List (GEdge Unit) :=
  [⟨0, 3, (), 1, 0, false⟩, ⟨3, 2, (), 1, 1, false⟩, ⟨0, 1, (), 1, 2, false⟩, ⟨1, 2, (), 1, 3, false⟩,
   ⟨2, 4, (), 1, 4, false⟩]

theorem asWritten_violates_via :
    ∃ (G : List (GEdge Unit)) (s t : Nat) (via avoid p : List Nat),
      findPath acceptAsWritten G s t via avoid none (simplePaths G s t) = .ok p ∧
      checkPath G s t via avoid p = false ∧ admissible G s t via avoid ≠ [] :=
  ⟨exG, 0, 2, [1], [4], [0, 3, 2], by decide +kernel, by decide +kernel, by decide +kernel⟩

/-- HISTORICAL: with only `via` or only `avoid` the code as written before the repair agrees with the
property; with both it ignores `via` altogether. -/
theorem asWritten_single_ok (l p : List Nat) (h : l ≠ []) :
    acceptAsWritten l [] p = acceptRepaired l [] p ∧ acceptAsWritten [] l p = acceptRepaired [] l p :=
  ⟨asWritten_eq_repaired_no_avoid l p h, asWritten_eq_repaired_no_via l p h⟩

theorem asWritten_both_ignores_via (via avoid p : List Nat) (hv : via ≠ []) (ha : avoid ≠ []) :
    acceptAsWritten via avoid p = acceptRepaired [] avoid p := by
  rw [asWritten_both via avoid p hv ha]; simp [acceptRepaired]

/-- **`no_path_error` soundness** (both for the code as written and repaired): if the search over
the simple paths ends in `NetworkXNoPath`, then no admissible path exists at all.  (`hsh`: the
assumption on `nx.shortest_path` that it only raises when there is no path.) -/
theorem no_path_error_sound {τ} (accept : List Nat → List Nat → List Nat → Bool)
    (hacc : ∀ via avoid p, (via ≠ [] ∨ avoid ≠ []) → acceptRepaired via avoid p = true →
      accept via avoid p = true)
    (G : List (GEdge τ)) (s t : Nat) (via avoid : List Nat) (sh : Option (List Nat)) (e : FindErr)
    (hsh : sh = none → simplePaths G s t = [])
    (he : e = .noPath ∨ e = .noGood)
    (h : findPath accept G s t via avoid sh (simplePaths G s t) = .error e) :
    ∀ p, checkPath G s t via avoid p = false := by
  intro p
  cases hcp : checkPath G s t via avoid p with
  | false => rfl
  | true =>
    exfalso
    have hadm : p ∈ admissible G s t via avoid := mem_admissible_iff.mpr hcp
    simp only [admissible, List.mem_filter] at hadm
    obtain ⟨hmem, hrep⟩ := hadm
    unfold findPath at h
    split at h; · cases h; rcases he with h | h <;> cases h
    split at h; · cases h; rcases he with h | h <;> cases h
    split at h; · cases h; rcases he with h | h <;> cases h
    split at h; · cases h; rcases he with h | h <;> cases h
    split at h
    · split at h
      · cases h
      · rw [hsh rfl] at hmem; cases hmem
    · rename_i hva
      have hne : via ≠ [] ∨ avoid ≠ [] := by
        simp only [Bool.and_eq_true, List.isEmpty_iff, not_and] at hva
        by_cases hv : via = []
        · exact Or.inr (hva hv)
        · exact Or.inl hv
      have := searchLoop_error h p hmem
      rw [hacc via avoid p hne hrep] at this
      cases this

/-- Both loop bodies qualify for `no_path_error_sound`. -/
theorem no_path_error_sound_applies :
    (∀ via avoid p, (via ≠ [] ∨ avoid ≠ []) → acceptRepaired via avoid p = true →
      acceptRepaired via avoid p = true) ∧
    (∀ via avoid p, (via ≠ [] ∨ avoid ≠ []) → acceptRepaired via avoid p = true →
      acceptAsWritten via avoid p = true) :=
  ⟨fun _ _ _ _ h => h, asWritten_of_repaired⟩

/-- Conversely the repaired search raises whenever no admissible path exists. -/
theorem error_when_inadmissible {τ} (G : List (GEdge τ)) (s t : Nat) (via avoid : List Nat)
    (sh : Option (List Nat)) (hsh : ∀ q, sh = some q → SimplePath G s t q)
    (hno : ∀ p, checkPath G s t via avoid p = false) :
    ∃ e, findPath acceptRepaired G s t via avoid sh (simplePaths G s t) = .error e := by
  cases h : findPath acceptRepaired G s t via avoid sh (simplePaths G s t) with
  | error e => exact ⟨e, rfl⟩
  | ok p =>
    have := path_honours_via_avoid G s t via avoid sh _ p hsh
      (fun q hq => mem_simplePaths_iff.mp hq) h
    rw [hno p] at this; cases this

example : findPath acceptRepaired exG 0 2 [1] [4] none (simplePaths exG 0 2) = .ok [0, 1, 2] := by
  decide +kernel
example : findPath acceptRepaired exG 0 2 [1] [1] none (simplePaths exG 0 2) = .error .noGood := by
  decide +kernel
example : findPath acceptRepaired exG 4 0 [] [3] none (simplePaths exG 4 0) = .error .noPath := by
  decide +kernel

/-! ## The CURRENT source (facts re-extracted by `translator/gen_bridge.py` on every run) -/

/-- **The loop body of `find_bridging_path` in the current source is the repaired logic.**
`Gen.Bridge.acceptTree` is the Boolean function read off the `if`/`elif` tree of the loop; whenever
the loop runs (`via` or `avoid` given) it accepts exactly the paths holding all `via` and no
`avoid`.  Any logically equivalent rewrite of the source keeps this theorem; the historical
`elif avoid and …` does not. -/
theorem source_decision_is_repaired (via avoid p : List Nat) (hne : via ≠ [] ∨ avoid ≠ []) :
    acceptOf Gen.Bridge.acceptTree via avoid p = acceptRepaired via avoid p :=
  acceptOf_eq_repaired _ (by decide) via avoid p hne

/-- The guard of the `nx.shortest_path` short cut is "neither `via` nor `avoid`", every accepted path
ends the loop, both arguments are normalised with `make_iterable` (a single name is one name),
`xform_brain` forwards `via` and `avoid`, and an error is raised when no path was accepted. -/
theorem source_find_facts :
    (∀ v a, Gen.Bridge.shortcutTree v a = (!v && !a)) ∧ Gen.Bridge.acceptBreaks = true
    ∧ Gen.Bridge.viaNormalised = true ∧ Gen.Bridge.avoidNormalised = true
    ∧ Gen.Bridge.raisesWhenNotGood = true
    ∧ Gen.Bridge.brainArgs = ["source", "target", "avoid=avoid", "via=via"]
    ∧ Gen.Bridge.enumArgs = ["source", "target"] ∧ "source" ∈ Gen.Bridge.shortestArgs ∧ "target" ∈ Gen.Bridge.shortestArgs :=
  ⟨by decide, rfl, rfl, rfl, rfl, rfl, rfl, by decide, by decide⟩

/-- `find_bridging_path` of the current source (short-cut guard and loop body as extracted) is the
repaired model, for every graph, query, `shortest_path` answer and enumeration. -/
theorem source_find_is_repaired {τ} (G : List (GEdge τ)) (s t : Nat) (via avoid : List Nat)
    (sh : Option (List Nat)) (enum : List (List Nat)) :
    findPathG Gen.Bridge.shortcutTree (acceptOf Gen.Bridge.acceptTree) G s t via avoid sh enum
      = findPath acceptRepaired G s t via avoid sh enum :=
  findPathG_eq _ _ _ source_find_facts.1 source_decision_is_repaired G s t via avoid sh enum

/-- … hence whatever it returns is a simple path from `s` to `t` through all `via` and clear of all
`avoid`. -/
theorem source_path_honours_via_avoid {τ} (G : List (GEdge τ)) (s t : Nat) (via avoid : List Nat)
    (sh : Option (List Nat)) (enum : List (List Nat)) (p : List Nat)
    (hsh : ∀ q, sh = some q → SimplePath G s t q) (henum : ∀ q ∈ enum, SimplePath G s t q)
    (h : findPathG Gen.Bridge.shortcutTree (acceptOf Gen.Bridge.acceptTree) G s t via avoid sh enum = .ok p) :
    checkPath G s t via avoid p = true := by
  rw [source_find_is_repaired] at h
  exact path_honours_via_avoid G s t via avoid sh enum p hsh henum h

/-- **An error is raised exactly when no admissible path exists.**  For known templates (`G` has
edges, `s`, `t` and every `via` are nodes; otherwise a `ValueError` names the unknown template), with
`nx.shortest_path` assumed to return a simple path when one exists and to raise only when none does,
and the search running over all simple paths: `find_bridging_path` fails iff no simple path from `s`
to `t` holds all `via` and no `avoid`; the failure then is `NetworkXNoPath`. -/
theorem no_path_error_iff {τ} (G : List (GEdge τ)) (s t : Nat) (via avoid : List Nat)
    (sh : Option (List Nat)) (hG : G ≠ []) (hs : s ∈ nodes G) (ht : t ∈ nodes G)
    (hv : ∀ v ∈ via, v ∈ nodes G)
    (hsh1 : ∀ q, sh = some q → SimplePath G s t q) (hsh2 : sh = none → simplePaths G s t = []) :
    ((∃ e, findPath acceptRepaired G s t via avoid sh (simplePaths G s t) = .error e) ↔
      ∀ p, checkPath G s t via avoid p = false) ∧
    (∀ e, findPath acceptRepaired G s t via avoid sh (simplePaths G s t) = .error e →
      e = .noPath ∨ e = .noGood) := by
  have hkind : ∀ e, findPath acceptRepaired G s t via avoid sh (simplePaths G s t) = .error e →
      e = .noPath ∨ e = .noGood := by
    intro e he
    unfold findPath at he
    split at he
    · rename_i h0; exact absurd (List.isEmpty_iff.mp h0) hG
    split at he
    · rename_i h0; simp [hs] at h0
    split at he
    · rename_i h0; simp [ht] at h0
    split at he
    · rename_i h0
      simp only [List.any_eq_true, Bool.not_eq_true', List.contains_eq_mem, decide_eq_false_iff_not] at h0
      obtain ⟨v, hv1, hv2⟩ := h0
      exact absurd (hv v hv1) hv2
    split at he
    · split at he
      · cases he
      · cases he; exact Or.inl rfl
    · unfold searchLoop at he
      split at he
      · cases he; exact Or.inl rfl
      · split at he
        · cases he
        · cases he; exact Or.inr rfl
  refine ⟨⟨?_, ?_⟩, hkind⟩
  · rintro ⟨e, he⟩
    exact no_path_error_sound acceptRepaired (fun _ _ _ _ h => h) G s t via avoid sh e hsh2 (hkind e he) he
  · intro hno
    exact error_when_inadmissible G s t via avoid sh hsh1 hno

/-- The same for the current source. -/
theorem source_no_path_error_iff {τ} (G : List (GEdge τ)) (s t : Nat) (via avoid : List Nat)
    (sh : Option (List Nat)) (hG : G ≠ []) (hs : s ∈ nodes G) (ht : t ∈ nodes G)
    (hv : ∀ v ∈ via, v ∈ nodes G)
    (hsh1 : ∀ q, sh = some q → SimplePath G s t q) (hsh2 : sh = none → simplePaths G s t = []) :
    (∃ e, findPathG Gen.Bridge.shortcutTree (acceptOf Gen.Bridge.acceptTree) G s t via avoid sh
        (simplePaths G s t) = .error e) ↔ ∀ p, checkPath G s t via avoid p = false := by
  rw [source_find_is_repaired]
  exact (no_path_error_iff G s t via avoid sh hG hs ht hv hsh1 hsh2).1

/-- Non-vacuity: `exG` has edges, `0`, `2`, `1` are nodes; with `avoid = [1]` and `via = [1]` nothing
is admissible and the source raises, with `avoid = [4]` it finds `0,1,2`. -/
example : ∃ e, findPathG Gen.Bridge.shortcutTree (acceptOf Gen.Bridge.acceptTree) exG 0 2 [1] [1] none
    (simplePaths exG 0 2) = .error e := ⟨.noGood, by decide +kernel⟩
example : findPathG Gen.Bridge.shortcutTree (acceptOf Gen.Bridge.acceptTree) exG 0 2 [1] [4] none
    (simplePaths exG 0 2) = .ok [0, 1, 2] := by decide +kernel

/-- HISTORICAL: the loop body before the repair is the tree `asWrittenTree`, and that tree is NOT the
one the current source has (so the witness `asWritten_violates_via` is about old code). -/
theorem asWritten_is_historical :
    (∀ via avoid p, acceptAsWritten via avoid p = acceptOf asWrittenTree via avoid p) ∧
    asWrittenTree true false true false ≠ Gen.Bridge.acceptTree true false true false :=
  ⟨acceptAsWritten_eq_acceptOf, by decide⟩

/-- **`bridging_graph` of the current source is the model graph**: the forward weight is the
registration's weight, the reverse weight is `weight * reciprocal` (numbers; `True` is a number) and
`weight` for any other truthy value; forward edges run over the `type == 'bridging'` records from
source to target with the transform itself, reverse edges over the INVERTIBLE bridging records from
target to source with the NEGATED transform, only under `if reciprocal:`. -/
theorem source_graph_is_model {τ} (neg : τ → τ) (regs : List (Reg τ)) (recip : Option Rat) :
    bridgingGraphOf Gen.Bridge.fwdWeight Gen.Bridge.revNumberWeight neg regs recip = bridgingGraph neg regs recip :=
  bridgingGraphOf_eq _ _ (fun _ => rfl) (fun _ _ => rfl) neg regs recip

theorem source_graph_facts :
    Gen.Bridge.fwdOver = ["self.transforms", "t.type == 'bridging'"]
    ∧ Gen.Bridge.fwdEnds = ["t.source", "t.target"] ∧ Gen.Bridge.fwdTransform = "t.transform"
    ∧ Gen.Bridge.revGuard = "reciprocal"
    ∧ Gen.Bridge.revNumberOver = ["self.transforms", "t.invertible", "t.type == 'bridging'"]
    ∧ Gen.Bridge.revNumberEnds = ["t.target", "t.source"] ∧ Gen.Bridge.revNumberTransform = "-t.transform"
    ∧ Gen.Bridge.revOtherOver = ["self.transforms", "t.invertible", "t.type == 'bridging'"]
    ∧ Gen.Bridge.revOtherEnds = ["t.target", "t.source"] ∧ Gen.Bridge.revOtherTransform = "-t.transform"
    ∧ (∀ w k, Gen.Bridge.revOtherWeight w k = w) :=
  ⟨rfl, rfl, rfl, rfl, rfl, rfl, rfl, rfl, rfl, rfl, fun _ _ => rfl⟩

/-- **`register_transform` of the current source is the model's `register`**: the record is appended
unless `skip_existing` and an equal record exists, and the caches are cleared unconditionally; every
memoised method of the registry is among those `clear_caches` clears. -/
theorem source_register_is_model {τ} [DecidableEq τ] (st : RegState τ) (r : Reg τ) (sk : Bool) :
    registerOf Gen.Bridge.appendCond Gen.Bridge.registerClears st r sk = register st r sk :=
  registerOf_eq _ (by decide) st r sk

theorem source_caches_cleared :
    (∀ c ∈ Gen.Bridge.cached, c ∈ Gen.Bridge.cleared) ∧ Gen.Bridge.registerClears = true
    ∧ (Gen.Bridge.graphCached = true → "bridging_graph" ∈ Gen.Bridge.cleared) :=
  ⟨by decide, rfl, by decide⟩

/-- Which registrations get reverse edges.  The `invertible` flag `register_transform` computes in the
current source is: for a plain transform "its class defines `__neg__`", for a `TransformSequence`
"EVERY member's class defines `__neg__`" (not: the sequence class has `__neg__`, which is always
true).  The classes that define `__neg__` are exactly these (`FunctionTransform` and
`ElastixTransform` do not). -/
theorem source_invertible_classes :
    (∀ selfNeg allNeg, Gen.Bridge.invertibleOf false selfNeg allNeg = selfNeg)
    ∧ (∀ selfNeg allNeg, Gen.Bridge.invertibleOf true selfNeg allNeg = allNeg)
    ∧ (Gen.Bridge.negClasses.filter (·.2)).map (·.1)
        = ["AffineTransform", "AliasTransform", "CMTKtransform", "H5JavaTransform", "H5transform",
           "MovingLeastSquaresTransform", "TPStransform", "TransformSequence"]
    ∧ (Gen.Bridge.negClasses.filter (!·.2)).map (·.1) = ["ElastixTransform", "FunctionTransform"] :=
  ⟨by decide, by decide, by decide, by decide⟩

/-- **A registered sequence is marked invertible exactly when `-sequence` is defined**, i.e. when
every member can be negated; a plain transform exactly when its class defines `__neg__`.  Together
with `graph_edges_exactly` (reverse edge ⇔ `invertible`): a sequence record has a reverse edge iff
all its members are invertible, `bridging_graph` never evaluates an undefined `-transform`, and a
non-invertible member removes that record's reverse edge only. -/
theorem seq_record_invertible_iff_neg_defined {τ : Type} (neg? : τ → Option τ) (ts : List τ) (seqNeg : Bool) :
    recordInvertible Gen.Bridge.invertibleOf seqNeg (.seq (ts.map fun t => (neg? t).isSome)) = true
      ↔ (negSeq? neg? ts).isSome = true := by
  rw [negSeq?_isSome_iff]
  show (List.all (ts.map fun t => (neg? t).isSome) id) = true ↔ _
  simp [List.all_eq_true]

theorem plain_record_invertible (h seqNeg : Bool) :
    recordInvertible Gen.Bridge.invertibleOf seqNeg (.plain h) = h := rfl

/-- `-seq`, when defined, is the reversed list of negated members (the model's `negSeq`), hence the
inverse (`seq_neg_is_inverse`). -/
theorem seq_neg_defined_is_negSeq {τ : Type} (neg : τ → τ) (ts : List τ) :
    negSeq? (fun t => some (neg t)) ts = some (negSeq neg ts) :=
  negSeq?_eq_negSeq neg ts

/-- Non-vacuity: members `[invertible, not invertible]` → no reverse edge; all invertible → one. -/
example : recordInvertible Gen.Bridge.invertibleOf true (.seq [true, false]) = false := by decide
example : recordInvertible Gen.Bridge.invertibleOf true (.seq [true, true]) = true := by decide
example : recordInvertible Gen.Bridge.invertibleOf true (.seq []) = true := by decide

/-- **`TransformSequence` of the current source**: `__neg__` negates the members in REVERSED order
(the model's `negSeq`); `xform` works on a fresh float64 copy of its input, masks rows with
`any(isnan, axis=1)` recomputed before every member, hands exactly the unmasked rows to each member of `self.transforms` in order,
writes the result back into exactly those rows, and skips a member when every row is masked. -/
theorem source_seq_neg_is_model {τ : Type} (neg : τ → τ) (ts : List τ) :
    negSeqOf Gen.Bridge.seqNegReverses Gen.Bridge.seqNegNegates neg ts = negSeq neg ts :=
  negSeqOf_eq neg ts

/-- `TransformSequence.copy()` exists and rebuilds the sequence from copies of its members (so a
sequence can be a member of / be registered and used through another sequence), `__init__` copies by
default; `append` unpacks a sequence argument into its members, type-checks and tests every MEMBER
(not the container) for `xform`, and tries to merge each member into the last one. -/
theorem source_seq_nesting_facts :
    Gen.Bridge.seqHasCopy = true ∧ Gen.Bridge.seqCopyCopiesMembers = true ∧ Gen.Bridge.seqInitCopyDefault = true
    ∧ Gen.Bridge.appendUnpacksSeq = true ∧ Gen.Bridge.appendTestsMember = true
    ∧ Gen.Bridge.appendIsinstanceOnMember = true ∧ Gen.Bridge.appendMergesIntoLast = true :=
  ⟨rfl, rfl, rfl, rfl, rfl, rfl, rfl⟩

theorem source_seq_xform_facts :
    Gen.Bridge.xfFresh = true ∧ Gen.Bridge.xfDtype = "float64" ∧ Gen.Bridge.xfLoopOver = "self.transforms"
    ∧ Gen.Bridge.nanMask = "np.any(np.isnan(XF), axis=1)" ∧ Gen.Bridge.maskPerMember = true
    ∧ Gen.Bridge.writeTargets = ["XF[~MASK]"] ∧ Gen.Bridge.writeArgs = ["XF[~MASK]"]
    ∧ Gen.Bridge.allNanSkip = ["all(MASK)"] :=
  ⟨rfl, rfl, rfl, rfl, rfl, rfl, rfl, rfl⟩

/-! ## Merging of appendable members -/

/-- **`TransformSequence(*members)` equals the composition of the members in order**, however many
members were merged into their predecessor by `append` (any group of transforms, any merge function
whose success means "is now the composition"). -/
theorem seq_build_is_composition {τ} (g : TGroup τ) (merge : τ → τ → Option τ)
    (hm : MergeSound g merge) (ts : List τ) :
    prod g (seqBuild merge ts) = prod g ts :=
  prod_seqBuild g merge hm ts

/-- **Sequences of sequences flatten**: `TransformSequence(*items)` with transforms, sequences and
lists mixed composes to the flattened list of members in order (merging still applies). -/
theorem seq_nested_is_flat_composition {τ} (g : TGroup τ) (merge : τ → τ → Option τ)
    (hm : MergeSound g merge) (items : List (Item τ)) :
    prod g (seqBuildItems merge items) = prod g (items.flatMap Item.members) :=
  prod_seqBuildItems g merge hm items

/-- `seq.copy()` (= `TransformSequence(*seq.transforms)`) composes to the same transform as `seq`. -/
theorem seq_copy_same_composition {τ} (g : TGroup τ) (merge : τ → τ → Option τ)
    (hm : MergeSound g merge) (ts : List τ) :
    prod g (seqBuild merge (seqBuild merge ts)) = prod g (seqBuild merge ts) :=
  prod_seqBuild g merge hm _

/-- … row by row for affine members. -/
theorem seq_build_affine_rows (merge : InvAff → InvAff → Option InvAff) (hm : MergeSound affGroup merge)
    (ts : List InvAff) (rows : List (Option Pt)) :
    seqXform ((seqBuild merge ts).map fun T => liftRow fun q => some (xform T.1 q)) rows
      = seqXform (ts.map fun T => liftRow fun q => some (xform T.1 q)) rows := by
  rw [seq_affine_is_product, seq_affine_is_product, seq_build_is_composition affGroup merge hm]

/-- Non-vacuity: merging everything (`merge a b = some (a·b)`) gives one member, merging nothing keeps
the list; both are sound. -/
example : MergeSound affGroup (fun a b => some (affGroup.mul a b)) := fun _ _ _ h => by cases h; rfl
example : MergeSound affGroup (fun _ _ => none) := fun _ _ _ h => by cases h
example : (seqBuild (fun a b => some (affGroup.mul a b)) [exS, exR, exS]).length = 1 := by decide +kernel
example : (seqBuild (fun (_ _ : InvAff) => none) [exS, exR, exS]).length = 3 := by decide +kernel

/-! ## Thin plate splines -/
section TPS
open Navis.Tps

/-- **Coefficients that solve the TPS system make the spline interpolate.**  For EVERY kernel: if
`(W, A)` satisfy the top block `K·W + P·A = Y` of the system `morphops.tps_coefs` solves, with `K` the
kernel matrix of the source landmarks, then `TPStransform.xform` (as written: `P@A + U@W`, `U` the
kernel between the points and the SOURCE landmarks) sends the `i`-th source landmark exactly to the
`i`-th target landmark. -/
theorem tps_interpolates (kern : Tps.Pt → Tps.Pt → Rat) (src tgt W : List Tps.Pt) (A : AffCoef)
    (h : Solves (kernelMatrix kern src) src tgt W A) :
    src.map (eval kern src W A) = tgt := by
  rw [← systemTop_kernelMatrix]; exact h.1

theorem tps_landmark_to_landmark (kern : Tps.Pt → Tps.Pt → Rat) (src tgt W : List Tps.Pt) (A : AffCoef)
    (h : Solves (kernelMatrix kern src) src tgt W A) (i : Nat) (s : Tps.Pt) (hs : src[i]? = some s) :
    tgt[i]? = some (eval kern src W A s) := by
  rw [← tps_interpolates kern src tgt W A h, List.getElem?_map, hs]; rfl

/-- **Checker soundness (what the driver evaluates on navis' own coefficients).**  If the residual
of the system is at most `ε` per coordinate then every source landmark is mapped to within `ε` of its
target, and there are as many targets as sources. -/
theorem tps_check_sound (eps : Rat) (kern : Tps.Pt → Tps.Pt → Rat) (src tgt W : List Tps.Pt) (A : AffCoef)
    (h : solvesB eps (kernelMatrix kern src) src tgt W A = true) :
    src.length = tgt.length ∧
    ∀ (i : Nat) s y, src[i]? = some s → tgt[i]? = some y → close eps (eval kern src W A s) y = true := by
  simp only [solvesB, Bool.and_eq_true] at h
  obtain ⟨hl, hc⟩ := closeAll_getElem? h.1
  rw [systemTop_kernelMatrix] at hl hc
  refine ⟨by simpa using hl, ?_⟩
  intro i s y hs hy
  exact hc i _ y (by rw [List.getElem?_map, hs]; rfl) hy

/-- The exact system passes the checker for every tolerance `ε ≥ 0` (the checker is not vacuous). -/
theorem tps_check_complete (eps : Rat) (he : 0 ≤ eps) (K : List (List Rat)) (src tgt W : List Tps.Pt) (A : AffCoef)
    (h : Solves K src tgt W A) : solvesB eps K src tgt W A = true := by
  have refl : ∀ l : List Tps.Pt, closeAll eps l l = true := by
    intro l
    induction l with
    | nil => rfl
    | cons p l ih => simp only [closeAll, Bool.and_eq_true]; exact ⟨close_refl_of_eq rfl he, ih⟩
  simp only [solvesB, Bool.and_eq_true]
  exact ⟨by rw [h.1]; exact refl _, by rw [h.2]; exact refl _⟩

/-- **Negation maps back**: `-T` is the spline of the swapped landmark sets, so coefficients solving
THAT system send every target landmark to its source landmark (`tps_interpolates` with the roles
swapped; stated for the model's `neg` with the flags of the current source). -/
theorem tps_neg_interpolates {γ} (kern : Tps.Pt → Tps.Pt → Rat) (lm : Nat → List Tps.Pt) (o : Obj γ)
    (W : List Tps.Pt) (A : AffCoef)
    (h : Solves (kernelMatrix kern (lm o.tgt)) (lm o.tgt) (lm o.src) W A) :
    let n := Tps.neg Gen.Bridge.tpsNegSwaps Gen.Bridge.tpsNegFresh o
    (lm n.src).map (eval kern (lm n.src) W A) = lm n.tgt ∧ n.cache = none :=
  ⟨tps_interpolates kern (lm o.tgt) (lm o.src) W A h, rfl⟩

/-- **The coefficient cache never serves coefficients of other landmarks.**  For every history of
constructions, uses (`xform`, `.W`, `.A`), `copy()` and `__neg__` over a pool of transforms — with
`__neg__`, `copy` as the CURRENT source has them — every use observes the coefficients of the used
object's own (source, target) pair, `-o` being the pair swapped. -/
theorem tps_cache_serves_own_landmarks {γ} (coefs : Nat → Nat → γ) (ops : List Tps.Op) :
    (Tps.run Gen.Bridge.tpsNegSwaps Gen.Bridge.tpsNegFresh Gen.Bridge.tpsCopyCarries coefs [] ops).1
      = Tps.runRef coefs [] ops :=
  run_eq_runRef coefs Gen.Bridge.tpsCopyCarries [] (fun _ h => by cases h) ops

/-- … and a `__neg__` that keeps the cache (built from `copy()`, seeded change C08_1) does not:
use, negate, use observes the coefficients of the UN-swapped pair. -/
theorem tps_neg_keeping_cache_is_wrong :
    (Tps.run (γ := Nat × Nat) true false true (fun s t => (s, t)) [] [.mk 0 1, .use 0, .neg 0, .use 1]).1
      ≠ Tps.runRef (fun s t => (s, t)) [] [.mk 0 1, .use 0, .neg 0, .use 1] := by decide

/-- Source facts of `TPStransform` / `MovingLeastSquaresTransform` the model hard-wires: the
constructor starts without coefficients, they are computed from `(source, target)` in this order,
the kernel is taken between the points and the SOURCE landmarks, the result is `P@A + U@W`; the MLS
negation flips `reverse` and `xform` passes it on. -/
theorem source_tps_facts :
    Gen.Bridge.tpsNegSwaps = true ∧ Gen.Bridge.tpsNegFresh = true ∧ Gen.Bridge.tpsInitEmpty = true
    ∧ Gen.Bridge.tpsCoefArgs = ["self.source", "self.target"]
    ∧ Gen.Bridge.tpsKernelArgs = ["points", "self.source"]
    ∧ Gen.Bridge.tpsEvalTerms = ["P @ self.A", "U @ self.W"]
    ∧ Gen.Bridge.mlsNegFlips = true ∧ Gen.Bridge.mlsPassesReverse = true :=
  ⟨rfl, rfl, rfl, rfl, rfl, rfl, rfl, rfl⟩

/-- Non-vacuity: one landmark pair on a line, kernel `|x − x'|`-like table: the affine spline
`p ↦ p + (1,0,0)` solves the system with `W = 0` and interpolates. -/
def exSrc : List Tps.Pt := [(0, 0, 0), (1, 0, 0), (0, 1, 0), (0, 0, 1)]
def exTgt : List Tps.Pt := [(1, 0, 0), (2, 0, 0), (1, 1, 0), (1, 0, 1)]
def exKern (p q : Tps.Pt) : Rat := absR (p.1 - q.1) + absR (p.2.1 - q.2.1) + absR (p.2.2 - q.2.2)
def exA : AffCoef := ⟨(1, 0, 0), (1, 0, 0), (0, 1, 0), (0, 0, 1)⟩
example : Solves (kernelMatrix exKern exSrc) exSrc exTgt [Tps.zero, Tps.zero, Tps.zero, Tps.zero] exA :=
  ⟨by decide +kernel, by decide +kernel⟩
example : solvesB (1 / 1000) (kernelMatrix exKern exSrc) exSrc exTgt [Tps.zero, Tps.zero, Tps.zero, Tps.zero] exA = true := by
  decide +kernel

end TPS

/-! ## Registration and the memoised graph -/

/-- For EVERY history of registrations and graph queries starting from an empty registry, every
query returns the graph of the transforms registered at that moment (the memo table never serves a
stale graph). -/
theorem query_sees_current_registrations {τ} [DecidableEq τ] (neg : τ → τ) (ops : List (Op τ)) :
    (runOps neg RegState.empty ops).1 = runRef neg [] ops :=
  runOps_eq_runRef neg _ (coherent_empty neg) ops

/-- A query right after a registration sees the new bridging edge, whatever was memoised before
(`st` arbitrary, even incoherent) and whether or not `skip_existing` found an equal record. -/
theorem query_after_register_sees_edge {τ} [DecidableEq τ] (neg : τ → τ) (st : RegState τ)
    (r : Reg τ) (sk : Bool) (hk : r.kind = Kind.bridging) (k : Option Rat) :
    ∃ i, (⟨r.src, r.tgt, r.xf, r.weight, i, false⟩ : GEdge τ) ∈ (graphCached neg (register st r sk) k).1 := by
  obtain ⟨h1, _, _⟩ := graphCached_spec neg (register st r sk) (coherent_register neg st r sk) k
  rw [h1]
  have hmem : r ∈ (register st r sk).regs := by
    simp only [register]
    split
    · simp
    · rename_i h
      simp only [Bool.or_eq_true, Bool.not_eq_true', not_or, Bool.not_eq_false] at h
      simpa using h.2
  obtain ⟨i, hi⟩ := List.mem_iff_getElem?.mp hmem
  exact ⟨i, fwd_mem_bridgingGraph neg k hi hk⟩

/-- Non-vacuity: query, register, query — the second answer has the edge, the first has not. -/
example : (runOps (τ := Nat) id RegState.empty
    [.query (some 1), .reg ⟨0, 1, 7, Kind.bridging, false, 1⟩ true, .query (some 1)]).1
    = [[], [⟨0, 1, 7, 1, 0, false⟩]] := by
  decide +kernel

end Navis.Props.C08
