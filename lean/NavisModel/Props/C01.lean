import NavisModel.Proofs.RerootLemmas
namespace Navis.Props.C01
open Navis.Forest
theorem placeholder : True := trivial
end Navis.Props.C01
