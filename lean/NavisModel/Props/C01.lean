import NavisModel.Proofs.RerootLemmas
import NavisModel.Proofs.WfB
/-!
# C01 — every operation that yields a skeleton yields a well-formed skeleton

`WF` (rank form: unique non-negative ids, parents present, acyclic) is the property's notion of a
well-formed forest; `wfB` is the executable check the driver evaluates on navis' own node tables and
is proved here to decide `WF` exactly.  Operation theorems are proved for every table and argument;
the history theorem lifts them to operation sequences of any length by list induction.
-/
namespace Navis.Props.C01
open Navis.Forest

/-- The executable check used as the run-time oracle is sound and complete for `WF`. -/
theorem wfB_decides_WF (t : Table) : wfB t = true ↔ WF t := wfB_iff t

/-- The label check means what the property says. -/
theorem labelsOKB_spec (t : Table) :
    labelsOKB t = true ↔ ∀ n ∈ t, n.label = labelOf (childCount t n.id) (n.parent < 0) := labelsOKB_iff t

/-- navis' `classify_nodes` computes exactly the label the property demands from child count and
parent, for every node of every table (well-formed or not). -/
theorem classify_correct (t : Table) (n : Node) :
    classifyNode t n = labelOf (childCount t n.id) (n.parent < 0) := classifyNode_eq_labelOf t n

theorem classify_labels_fresh (t : Table) : labelsOKB (classify t) = true := labelsOKB_classify t

/-- Operations proved so far (the remaining constructors of `Op` — `removeNodes`, `downsample` — are
covered by `Proofs/OpsWF.lean` when present; until then they are validated by the run-time oracle). -/
def Op.core : Op → Prop
  | .subset _ | .reroot _ | .cutDistal _ | .cutProximal _ | .reclassify => True
  | _ => False

theorem op_preserves_WF_partial (t : Table) (hw : WF t) (op : Op) (hop : Op.core op) : WF (applyOp t op) := by
  cases op with
  | subset k => exact WF_subset hw _
  | reroot r => exact WF_reroot hw r
  | cutDistal c =>
    simp only [applyOp]
    cases hc : cut t c with
    | none => exact hw
    | some dp => obtain ⟨d, p⟩ := dp; simp only; rw [(cut_some hc).1]; exact WF_subset hw _
  | cutProximal c =>
    simp only [applyOp]
    cases hc : cut t c with
    | none => exact hw
    | some dp => obtain ⟨d, p⟩ := dp; simp only; rw [(cut_some hc).2.1]; exact WF_subset hw _
  | reclassify => exact WF_classify hw
  | removeNodes w => exact absurd hop (by simp [Op.core])
  | downsample f p => exact absurd hop (by simp [Op.core])

/-- **Histories**: any finite sequence of (core) operations applied to a well-formed skeleton leaves a
well-formed skeleton — by induction over the sequence, no bound on its length. -/
theorem ops_preserve_WF_partial (t : Table) (hw : WF t) (ops : List Op) (hops : ∀ op ∈ ops, Op.core op) :
    WF (ops.foldl applyOp t) := by
  induction ops generalizing t with
  | nil => exact hw
  | cons op ops ih =>
    exact ih _ (op_preserves_WF_partial t hw op (hops op (by simp))) (fun o ho => hops o (by simp [ho]))

/-- Operations that end in a re-classification return correct labels. -/
theorem subset_labels_fresh (t : Table) (keep : Int → Bool) : labelsOKB (subset t keep) = true := labelsOKB_subset t keep

/-! ### Non-vacuity -/
def ex : Table := [⟨1, -1, 0, 0, 0, .root⟩, ⟨2, 1, 3, 0, 0, .branch⟩, ⟨3, 2, 6, 0, 0, .end_⟩, ⟨4, 2, 3, 4, 0, .end_⟩]
example : WF ex := (wfB_decides_WF ex).mp (by decide)
example : WF ([Op.reroot 4, Op.subset [1, 2, 4], Op.cutDistal 2].foldl applyOp ex) :=
  ops_preserve_WF_partial ex ((wfB_decides_WF ex).mp (by decide)) _ (by intro op h; simp at h; rcases h with rfl | rfl | rfl <;> trivial)
/-- a cyclic table is rejected -/
example : wfB [⟨1, 2, 0, 0, 0, .slab⟩, ⟨2, 1, 0, 0, 0, .slab⟩] = false := by decide

end Navis.Props.C01
