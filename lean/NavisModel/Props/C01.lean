import NavisModel.Proofs.RerootLemmas
import NavisModel.Proofs.WfB
import NavisModel.Proofs.OpsWF
/-!
# C01 — every operation that yields a skeleton yields a well-formed skeleton

`WF` (rank form: unique non-negative ids, parents present, acyclic) is the property's notion of a
well-formed forest; `wfB` is the executable check the driver evaluates on navis' own node tables and
is proved here to decide `WF` exactly.  Operation theorems are proved for every table and argument;
the history theorem lifts them to operation sequences of any length by list induction.
-/
namespace Navis.Props.C01
open Navis.Forest

/-- The executable check used as the run-time oracle is sound and complete for `WF`. -/
theorem wfB_decides_WF (t : Table) : wfB t = true ↔ WF t := wfB_iff t

/-- The label check means what the property says. -/
theorem labelsOKB_spec (t : Table) :
    labelsOKB t = true ↔ ∀ n ∈ t, n.label = labelOf (childCount t n.id) (n.parent < 0) := labelsOKB_iff t

/-- navis' `classify_nodes` computes exactly the label the property demands from child count and
parent, for every node of every table (well-formed or not). -/
theorem classify_correct (t : Table) (n : Node) :
    classifyNode t n = labelOf (childCount t n.id) (n.parent < 0) := classifyNode_eq_labelOf t n

theorem classify_labels_fresh (t : Table) : labelsOKB (classify t) = true := labelsOKB_classify t

/-- **Every operation preserves well-formedness**, for every table and every argument — all
constructors of `Op` (subset, reroot, both cut halves, `remove_nodes`, `downsample`, re-classification),
with no side condition beyond `WF t`. -/
theorem op_preserves_WF (t : Table) (hw : WF t) (op : Op) : WF (applyOp t op) := by
  cases op with
  | subset k => exact WF_subset hw _
  | reroot r => exact WF_reroot hw r
  | cutDistal c =>
    simp only [applyOp]
    cases hc : cut t c with
    | none => exact hw
    | some dp => obtain ⟨d, p⟩ := dp; simp only; rw [(cut_some hc).1]; exact WF_subset hw _
  | cutProximal c =>
    simp only [applyOp]
    cases hc : cut t c with
    | none => exact hw
    | some dp => obtain ⟨d, p⟩ := dp; simp only; rw [(cut_some hc).2.1]; exact WF_subset hw _
  | reclassify => exact WF_classify hw
  | removeNodes w => exact WF_removeNodes hw w
  | downsample f p => exact WF_downsample hw f p

/-- **Histories**: any finite sequence of operations applied to a well-formed skeleton leaves a
well-formed skeleton — by induction over the sequence, no bound on its length. -/
theorem ops_preserve_WF (t : Table) (hw : WF t) (ops : List Op) : WF (ops.foldl applyOp t) := by
  induction ops generalizing t with
  | nil => exact hw
  | cons op ops ih => exact ih _ (op_preserves_WF t hw op)

/-! ### `remove_nodes` -/

theorem removeNodes_preserves_WF (t : Table) (hw : WF t) (which : List Int) : WF (removeNodes t which) :=
  WF_removeNodes hw which

/-- `remove_nodes` returns exactly the rows not listed (when all listed ids exist; navis raises otherwise). -/
theorem removeNodes_ids (t : Table) (which : List Int) (hg : ∀ w ∈ which, w ∈ ids t) :
    ids (removeNodes t which) = (ids t).filter (fun i => !which.contains i) := ids_removeNodes hg

/-- The new parent of a kept node is the first node after itself on its *old* root path that is not
removed; if every ancestor is removed it becomes a root (negative parent). -/
theorem removeNodes_parent_is_nearest_kept_ancestor (t : Table) (hw : WF t) (which : List Int)
    (hg : ∀ w ∈ which, w ∈ ids t) (m : Node) (hm : m ∈ removeNodes t which) :
    m.id ∈ ids t ∧ m.id ∉ which ∧
    ((rootPath t m.id).tail.find? (fun a => !which.contains a) = some m.parent ∨
      ((rootPath t m.id).tail.find? (fun a => !which.contains a) = none ∧ m.parent < 0)) :=
  Navis.Forest.removeNodes_parent_is_nearest_kept_ancestor hw hg hm

/-! ### `downsample` -/

theorem downsample_preserves_WF (t : Table) (hw : WF t) (f : Option Nat) (pres : List Int) :
    WF (downsample t f pres) := WF_downsample hw f pres

/-- Kept nodes are original nodes with unchanged ids and coordinates. -/
theorem downsample_subset (t : Table) (f : Option Nat) (pres : List Int) :
    ∀ m ∈ downsample t f pres, ∃ n ∈ t, n.id = m.id ∧ n.x = m.x ∧ n.y = m.y ∧ n.z = m.z :=
  Navis.Forest.downsample_subset t f pres

/-- Every fix point — labelled non-slab (root, branch, end) or listed in `pres` (preserved nodes,
somas) — survives downsampling. -/
theorem downsample_keeps_fixpoints (t : Table) (hw : WF t) (f : Option Nat) (pres : List Int) (n : Node)
    (hn : n ∈ t) (hfix : n.label ≠ .slab ∨ n.id ∈ pres) : n.id ∈ ids (downsample t f pres) :=
  Navis.Forest.downsample_keeps_fixpoints hw f pres hn hfix

/-! ### `insert_nodes` -/

/-- New ids start above every existing id. -/
theorem insertNodes_ids_fresh (t : Table) : ∀ i ∈ ids t, i ≤ maxId t := fun _ hi => le_maxId hi

theorem insertNodes_ids (t : Table) (edgesPC : List (Int × Int)) (coords : List (Int × Int × Int)) :
    ids (insertNodes t edgesPC coords) =
      ids t ++ (List.range' 0 edgesPC.length).map fun (k : Nat) => maxId t + 1 + (k : Int) :=
  ids_insertNodes t edgesPC coords

/-- `insert_nodes` preserves well-formedness when every requested `(parent, child)` pair is an edge of
the skeleton (what navis validates before inserting); duplicates in the request are allowed. -/
theorem insertNodes_preserves_WF (t : Table) (hw : WF t) (edgesPC : List (Int × Int))
    (coords : List (Int × Int × Int)) (hg : ∀ e ∈ edgesPC, ∃ n ∈ t, n.id = e.2 ∧ n.parent = e.1) :
    WF (insertNodes t edgesPC coords) := WF_insertNodes hw edgesPC coords hg

theorem insertNodes_labels_fresh (t : Table) (edgesPC : List (Int × Int)) (coords : List (Int × Int × Int)) :
    labelsOKB (insertNodes t edgesPC coords) = true := labelsOKB_insertNodes t edgesPC coords

/-! ### labels -/

/-- Operations that end in a re-classification return correct labels. -/
theorem subset_labels_fresh (t : Table) (keep : Int → Bool) : labelsOKB (subset t keep) = true := labelsOKB_subset t keep

/-- Operations whose code path ends in `classify_nodes` (everything except `reroot`, which relabels
incrementally). -/
def Op.reclassifies : Op → Prop
  | .reroot _ => False
  | _ => True

/-- An operation that ends in `classify_nodes` either returns its input unchanged (the cases where navis
raises or returns early: cut at a root / absent node, `remove_nodes` with an unknown id, `downsample`
of a table with at most one row) or returns a table with correct labels. -/
theorem op_labels_fresh (t : Table) (op : Op) (hop : Op.reclassifies op) :
    applyOp t op = t ∨ labelsOKB (applyOp t op) = true := by
  cases op with
  | subset k => exact Or.inr (labelsOKB_subset t _)
  | reroot r => exact absurd hop (by simp [Op.reclassifies])
  | cutDistal c =>
    simp only [applyOp]
    cases hc : cut t c with
    | none => exact Or.inl rfl
    | some dp => obtain ⟨d, p⟩ := dp; simp only; rw [(cut_some hc).1]; exact Or.inr (labelsOKB_subset t _)
  | cutProximal c =>
    simp only [applyOp]
    cases hc : cut t c with
    | none => exact Or.inl rfl
    | some dp => obtain ⟨d, p⟩ := dp; simp only; rw [(cut_some hc).2.1]; exact Or.inr (labelsOKB_subset t _)
  | reclassify => exact Or.inr (labelsOKB_classify t)
  | removeNodes w => exact labelsOKB_removeNodes t w
  | downsample f p => exact labelsOKB_downsample t f p

/-- Hence correct labels are an invariant of every reclassifying operation. -/
theorem op_labels_ok (t : Table) (hl : labelsOKB t = true) (op : Op) (hop : Op.reclassifies op) :
    labelsOKB (applyOp t op) = true := by
  rcases op_labels_fresh t op hop with h | h
  · rw [h]; exact hl
  · exact h

/-! ### Non-vacuity -/
def ex : Table := [⟨1, -1, 0, 0, 0, .root⟩, ⟨2, 1, 3, 0, 0, .branch⟩, ⟨3, 2, 6, 0, 0, .end_⟩, ⟨4, 2, 3, 4, 0, .end_⟩]
/-- a chain 1 ← 2 ← 3 ← 4 ← 5 ← 6 with a side twig 7 at node 4 -/
def ex2 : Table := [⟨1, -1, 0, 0, 0, .root⟩, ⟨2, 1, 0, 0, 0, .slab⟩, ⟨3, 2, 0, 0, 0, .slab⟩, ⟨4, 3, 0, 0, 0, .branch⟩,
  ⟨5, 4, 0, 0, 0, .slab⟩, ⟨6, 5, 0, 0, 0, .end_⟩, ⟨7, 4, 0, 0, 0, .end_⟩]
example : WF ex := (wfB_decides_WF ex).mp (by decide)
example : WF ex2 := (wfB_decides_WF ex2).mp (by decide)
example : WF ([Op.reroot 4, Op.subset [1, 2, 4], Op.cutDistal 2, Op.removeNodes [2], Op.downsample (some 2) [],
    Op.reclassify].foldl applyOp ex) :=
  ops_preserve_WF ex ((wfB_decides_WF ex).mp (by decide)) _
/-- `remove_nodes` rewires across a run of removed nodes (3 and 2 removed: 4 hangs on 1) -/
example : (removeNodes ex2 [3, 2]).map (fun n => (n.id, n.parent)) = [(1, -1), (4, 1), (5, 4), (6, 5), (7, 4)] := by decide
/-- removing the root makes its child a root -/
example : (removeNodes ex [1]).map (fun n => (n.id, n.parent, n.label)) =
    [(2, -1, .root), (3, 2, .end_), (4, 2, .end_)] := by decide
/-- `downsample` keeps root, branch, ends; factor 1 skips one slab per step (as the navis loop does),
factor 2 two; `inf` keeps only the fix points; factor 0 (degenerate) keeps everything -/
example : (downsample ex2 (some 1) []).map (fun n => (n.id, n.parent)) = [(1, -1), (2, 1), (4, 2), (6, 4), (7, 4)] := by decide
example : (downsample ex2 (some 2) []).map (fun n => (n.id, n.parent)) = [(1, -1), (4, 1), (6, 4), (7, 4)] := by decide
example : (downsample ex2 (some 2) [3]).map (fun n => (n.id, n.parent)) = [(1, -1), (3, 1), (4, 3), (6, 4), (7, 4)] := by decide
example : (downsample ex2 (some 0) []).map (fun n => (n.id, n.parent)) = ex2.map (fun n => (n.id, n.parent)) := by decide
example : (downsample ex2 none []).map (fun n => (n.id, n.parent)) = [(1, -1), (4, 1), (6, 4), (7, 4)] := by decide
example : (downsample ex2 none [5]).map (fun n => (n.id, n.parent)) = [(1, -1), (4, 1), (5, 4), (6, 5), (7, 4)] := by decide
example : wfB (downsample ex2 (some 2) [3]) = true := by decide
/-- `insert_nodes` on two edges -/
example : (insertNodes ex [(2, 3), (1, 2)] []).map (fun n => (n.id, n.parent)) =
    [(1, -1), (2, 6), (3, 5), (4, 2), (5, 2), (6, 1)] := by decide
example : WF (insertNodes ex [(2, 3), (1, 2)] []) :=
  insertNodes_preserves_WF ex ((wfB_decides_WF ex).mp (by decide)) _ _ (by decide)
/-- the edge guard of `insertNodes_preserves_WF` is needed: a non-edge `(3, 2)` closes a cycle 2 → 5 → 3 → 2 -/
example : wfB (insertNodes ex [(3, 2)] []) = false := by decide
/-- the fall-back disjunct of `op_labels_fresh` is needed: with an unknown id `remove_nodes` returns its
input (navis raises), stale labels included -/
example : labelsOKB (applyOp [⟨1, -1, 0, 0, 0, .slab⟩] (.removeNodes [9])) = false := by decide
/-- a cyclic table is rejected -/
example : wfB [⟨1, 2, 0, 0, 0, .slab⟩, ⟨2, 1, 0, 0, 0, .slab⟩] = false := by decide

end Navis.Props.C01
