import NavisModel.Proofs.RerootLemmas
import NavisModel.Proofs.WfB
import NavisModel.Proofs.OpsWF
import NavisModel.Proofs.OpsAllLemmas
import NavisModel.Proofs.OpsXLemmas
import NavisModel.Proofs.SomaInterpLemmas
/-!
# C01 — every operation that yields a skeleton yields a well-formed skeleton

`WF` (rank form: unique non-negative ids, parents present, acyclic) is the property's notion of a
well-formed forest; `wfB` is the executable check the driver evaluates on navis' own node tables and
is proved here to decide `WF` exactly.  Operation theorems are proved for every table and argument;
the history theorem lifts them to operation sequences of any length by list induction.
-/
namespace Navis.Props.C01
open Navis.Forest

/-- The executable check used as the run-time oracle is sound and complete for `WF`. -/
theorem wfB_decides_WF (t : Table) : wfB t = true ↔ WF t := wfB_iff t

/-- The label check means what the property says. -/
theorem labelsOKB_spec (t : Table) :
    labelsOKB t = true ↔ ∀ n ∈ t, n.label = labelOf (childCount t n.id) (n.parent < 0) := labelsOKB_iff t

/-- navis' `classify_nodes` computes exactly the label the property demands from child count and
parent, for every node of every table (well-formed or not). -/
theorem classify_correct (t : Table) (n : Node) :
    classifyNode t n = labelOf (childCount t n.id) (n.parent < 0) := classifyNode_eq_labelOf t n

theorem classify_labels_fresh (t : Table) : labelsOKB (classify t) = true := labelsOKB_classify t

/-- **Every operation preserves well-formedness**, for every table and every argument — all
constructors of `Op` (subset, reroot, both cut halves, `remove_nodes`, `downsample`, re-classification),
with no side condition beyond `WF t`. -/
theorem op_preserves_WF (t : Table) (hw : WF t) (op : Op) : WF (applyOp t op) := by
  cases op with
  | subset k => exact WF_subset hw _
  | reroot r => exact WF_reroot hw r
  | cutDistal c =>
    simp only [applyOp]
    cases hc : cut t c with
    | none => exact hw
    | some dp => obtain ⟨d, p⟩ := dp; simp only; rw [(cut_some hc).1]; exact WF_subset hw _
  | cutProximal c =>
    simp only [applyOp]
    cases hc : cut t c with
    | none => exact hw
    | some dp => obtain ⟨d, p⟩ := dp; simp only; rw [(cut_some hc).2.1]; exact WF_subset hw _
  | reclassify => exact WF_classify hw
  | removeNodes w => exact WF_removeNodes hw w
  | downsample f p => exact WF_downsample hw f p

/-- **Histories**: any finite sequence of operations applied to a well-formed skeleton leaves a
well-formed skeleton — by induction over the sequence, no bound on its length. -/
theorem ops_preserve_WF (t : Table) (hw : WF t) (ops : List Op) : WF (ops.foldl applyOp t) := by
  induction ops generalizing t with
  | nil => exact hw
  | cons op ops ih => exact ih _ (op_preserves_WF t hw op)

/-! ### `remove_nodes` -/

theorem removeNodes_preserves_WF (t : Table) (hw : WF t) (which : List Int) : WF (removeNodes t which) :=
  WF_removeNodes hw which

/-- `remove_nodes` returns exactly the rows not listed (when all listed ids exist; navis raises otherwise). -/
theorem removeNodes_ids (t : Table) (which : List Int) (hg : ∀ w ∈ which, w ∈ ids t) :
    ids (removeNodes t which) = (ids t).filter (fun i => !which.contains i) := ids_removeNodes hg

/-- The new parent of a kept node is the first node after itself on its *old* root path that is not
removed; if every ancestor is removed it becomes a root (negative parent). -/
theorem removeNodes_parent_is_nearest_kept_ancestor (t : Table) (hw : WF t) (which : List Int)
    (hg : ∀ w ∈ which, w ∈ ids t) (m : Node) (hm : m ∈ removeNodes t which) :
    m.id ∈ ids t ∧ m.id ∉ which ∧
    ((rootPath t m.id).tail.find? (fun a => !which.contains a) = some m.parent ∨
      ((rootPath t m.id).tail.find? (fun a => !which.contains a) = none ∧ m.parent < 0)) :=
  Navis.Forest.removeNodes_parent_is_nearest_kept_ancestor hw hg hm

/-! ### `downsample` -/

theorem downsample_preserves_WF (t : Table) (hw : WF t) (f : Option Nat) (pres : List Int) :
    WF (downsample t f pres) := WF_downsample hw f pres

/-- Kept nodes are original nodes with unchanged ids and coordinates. -/
theorem downsample_subset (t : Table) (f : Option Nat) (pres : List Int) :
    ∀ m ∈ downsample t f pres, ∃ n ∈ t, n.id = m.id ∧ n.x = m.x ∧ n.y = m.y ∧ n.z = m.z :=
  Navis.Forest.downsample_subset t f pres

/-- Every fix point — labelled non-slab (root, branch, end) or listed in `pres` (preserved nodes,
somas) — survives downsampling. -/
theorem downsample_keeps_fixpoints (t : Table) (hw : WF t) (f : Option Nat) (pres : List Int) (n : Node)
    (hn : n ∈ t) (hfix : n.label ≠ .slab ∨ n.id ∈ pres) : n.id ∈ ids (downsample t f pres) :=
  Navis.Forest.downsample_keeps_fixpoints hw f pres hn hfix

/-! ### `insert_nodes` -/

/-- New ids start above every existing id. -/
theorem insertNodes_ids_fresh (t : Table) : ∀ i ∈ ids t, i ≤ maxId t := fun _ hi => le_maxId hi

theorem insertNodes_ids (t : Table) (edgesPC : List (Int × Int)) (coords : List (Int × Int × Int)) :
    ids (insertNodes t edgesPC coords) =
      ids t ++ (List.range' 0 edgesPC.length).map fun (k : Nat) => maxId t + 1 + (k : Int) :=
  ids_insertNodes t edgesPC coords

/-- `insert_nodes` preserves well-formedness when every requested `(parent, child)` pair is an edge of
the skeleton (what navis validates before inserting); duplicates in the request are allowed. -/
theorem insertNodes_preserves_WF (t : Table) (hw : WF t) (edgesPC : List (Int × Int))
    (coords : List (Int × Int × Int)) (hg : ∀ e ∈ edgesPC, ∃ n ∈ t, n.id = e.2 ∧ n.parent = e.1) :
    WF (insertNodes t edgesPC coords) := WF_insertNodes hw edgesPC coords hg

theorem insertNodes_labels_fresh (t : Table) (edgesPC : List (Int × Int)) (coords : List (Int × Int × Int)) :
    labelsOKB (insertNodes t edgesPC coords) = true := labelsOKB_insertNodes t edgesPC coords

/-! ### labels -/

/-- Operations that end in a re-classification return correct labels. -/
theorem subset_labels_fresh (t : Table) (keep : Int → Bool) : labelsOKB (subset t keep) = true := labelsOKB_subset t keep

/-- Operations whose code path ends in `classify_nodes` (everything except `reroot`, which relabels
incrementally). -/
def Op.reclassifies : Op → Prop
  | .reroot _ => False
  | _ => True

/-- An operation that ends in `classify_nodes` either returns its input unchanged (the cases where navis
raises or returns early: cut at a root / absent node, `remove_nodes` with an unknown id, `downsample`
of a table with at most one row) or returns a table with correct labels. -/
theorem op_labels_fresh (t : Table) (op : Op) (hop : Op.reclassifies op) :
    applyOp t op = t ∨ labelsOKB (applyOp t op) = true := by
  cases op with
  | subset k => exact Or.inr (labelsOKB_subset t _)
  | reroot r => exact absurd hop (by simp [Op.reclassifies])
  | cutDistal c =>
    simp only [applyOp]
    cases hc : cut t c with
    | none => exact Or.inl rfl
    | some dp => obtain ⟨d, p⟩ := dp; simp only; rw [(cut_some hc).1]; exact Or.inr (labelsOKB_subset t _)
  | cutProximal c =>
    simp only [applyOp]
    cases hc : cut t c with
    | none => exact Or.inl rfl
    | some dp => obtain ⟨d, p⟩ := dp; simp only; rw [(cut_some hc).2.1]; exact Or.inr (labelsOKB_subset t _)
  | reclassify => exact Or.inr (labelsOKB_classify t)
  | removeNodes w => exact labelsOKB_removeNodes t w
  | downsample f p => exact labelsOKB_downsample t f p

/-- Hence correct labels are an invariant of every reclassifying operation. -/
theorem op_labels_ok (t : Table) (hl : labelsOKB t = true) (op : Op) (hop : Op.reclassifies op) :
    labelsOKB (applyOp t op) = true := by
  rcases op_labels_fresh t op hop with h | h
  · rw [h]; exact hl
  · exact h

/-! ### Non-vacuity -/
def ex : Table := [⟨1, -1, 0, 0, 0, .root⟩, ⟨2, 1, 3, 0, 0, .branch⟩, ⟨3, 2, 6, 0, 0, .end_⟩, ⟨4, 2, 3, 4, 0, .end_⟩]
/-- a chain 1 ← 2 ← 3 ← 4 ← 5 ← 6 with a side twig 7 at node 4 -/
def ex2 : Table := [⟨1, -1, 0, 0, 0, .root⟩, ⟨2, 1, 0, 0, 0, .slab⟩, ⟨3, 2, 0, 0, 0, .slab⟩, ⟨4, 3, 0, 0, 0, .branch⟩,
  ⟨5, 4, 0, 0, 0, .slab⟩, ⟨6, 5, 0, 0, 0, .end_⟩, ⟨7, 4, 0, 0, 0, .end_⟩]
example : WF ex := (wfB_decides_WF ex).mp (by decide)
example : WF ex2 := (wfB_decides_WF ex2).mp (by decide)
example : WF ([Op.reroot 4, Op.subset [1, 2, 4], Op.cutDistal 2, Op.removeNodes [2], Op.downsample (some 2) [],
    Op.reclassify].foldl applyOp ex) :=
  ops_preserve_WF ex ((wfB_decides_WF ex).mp (by decide)) _
/-- `remove_nodes` rewires across a run of removed nodes (3 and 2 removed: 4 hangs on 1) -/
example : (removeNodes ex2 [3, 2]).map (fun n => (n.id, n.parent)) = [(1, -1), (4, 1), (5, 4), (6, 5), (7, 4)] := by decide
/-- removing the root makes its child a root -/
example : (removeNodes ex [1]).map (fun n => (n.id, n.parent, n.label)) =
    [(2, -1, .root), (3, 2, .end_), (4, 2, .end_)] := by decide
/-- `downsample` keeps root, branch, ends; factor 1 skips one slab per step (as the navis loop does),
factor 2 two; `inf` keeps only the fix points; factor 0 (degenerate) keeps everything -/
example : (downsample ex2 (some 1) []).map (fun n => (n.id, n.parent)) = [(1, -1), (2, 1), (4, 2), (6, 4), (7, 4)] := by decide
example : (downsample ex2 (some 2) []).map (fun n => (n.id, n.parent)) = [(1, -1), (4, 1), (6, 4), (7, 4)] := by decide
example : (downsample ex2 (some 2) [3]).map (fun n => (n.id, n.parent)) = [(1, -1), (3, 1), (4, 3), (6, 4), (7, 4)] := by decide
example : (downsample ex2 (some 0) []).map (fun n => (n.id, n.parent)) = ex2.map (fun n => (n.id, n.parent)) := by decide
example : (downsample ex2 none []).map (fun n => (n.id, n.parent)) = [(1, -1), (4, 1), (6, 4), (7, 4)] := by decide
example : (downsample ex2 none [5]).map (fun n => (n.id, n.parent)) = [(1, -1), (4, 1), (5, 4), (6, 5), (7, 4)] := by decide
example : wfB (downsample ex2 (some 2) [3]) = true := by decide
/-- `insert_nodes` on two edges -/
example : (insertNodes ex [(2, 3), (1, 2)] []).map (fun n => (n.id, n.parent)) =
    [(1, -1), (2, 6), (3, 5), (4, 2), (5, 2), (6, 1)] := by decide
example : WF (insertNodes ex [(2, 3), (1, 2)] []) :=
  insertNodes_preserves_WF ex ((wfB_decides_WF ex).mp (by decide)) _ _ (by decide)
/-- the edge guard of `insertNodes_preserves_WF` is needed: a non-edge `(3, 2)` closes a cycle 2 → 5 → 3 → 2 -/
example : wfB (insertNodes ex [(3, 2)] []) = false := by decide
/-- the fall-back disjunct of `op_labels_fresh` is needed: with an unknown id `remove_nodes` returns its
input (navis raises), stale labels included -/
example : labelsOKB (applyOp [⟨1, -1, 0, 0, 0, .slab⟩] (.removeNodes [9])) = false := by decide
/-- a cyclic table is rejected -/
example : wfB [⟨1, 2, 0, 0, 0, .slab⟩, ⟨2, 1, 0, 0, 0, .slab⟩] = false := by decide

/-! ## The whole modelled catalogue: `OpAll`

`OpAll` (`Model/OpsAll.lean`) has one constructor per modelled skeleton-returning operation: the seven of
`Op`, multi-cut (`cutFragment`), the pruning family (`pruneTwigs`, `pruneAtDepth`, `longestNeurite`,
`pruneByStrahler`), healing (`heal`, `healDrop`), `rewire`, fragments (`keepFragment`, `dropFluff`),
stitching with other skeletons (`stitchWith`), resampling (`resample`, `resampleCounts`) and `insertNodes`
(applied only under the edge guard navis validates).  `applyAll len` dispatches to the model functions; the
theorems hold for EVERY edge-length function `len` (no symmetry or positivity needed).

The only side condition is `OpAll.ok op`: the *foreign* skeletons an operation takes as further inputs
(only `stitchWith` has any) are themselves well-formed forests.  It is `True` for every other constructor,
decidable by `OpAll.okB`, and discharged at run time by `applyAllChecked`. -/

/-- The side condition is decided by the executable check. -/
theorem opAll_okB_decides_ok (op : OpAll) : op.okB = true ↔ op.ok := OpAll.okB_iff op

/-- … and holds trivially for every operation without foreign inputs (all but `stitchWith`). -/
theorem opAll_ok_of_no_operands (op : OpAll) (h : op.operands = []) : op.ok := OpAll.ok_of_operands_nil h

theorem opsAll_ok_of_okB (ops : List OpAll) (h : ops.all OpAll.okB = true) : ∀ op ∈ ops, op.ok :=
  fun op hop => (OpAll.okB_iff op).mp (List.all_eq_true.mp h op hop)

/-- The guard `applyAll` evaluates before `insert_nodes` is the hypothesis of `insertNodes_preserves_WF`. -/
theorem insertGuard_spec (t : Table) (edgesPC : List (Int × Int)) :
    insertGuard t edgesPC = true ↔ ∀ e ∈ edgesPC, ∃ n ∈ t, n.id = e.2 ∧ n.parent = e.1 := insertGuard_iff

/-- `OpAll` extends `Op`: histories over `Op` are histories over `OpAll` with the same result. -/
theorem opAll_extends_op (len : Int → Int → Nat) (t : Table) (ops : List Op) :
    (ops.map OpAll.ofOp).foldl (applyAll len) t = ops.foldl applyOp t := by
  induction ops generalizing t with
  | nil => rfl
  | cons op ops ih => simp only [List.map_cons, List.foldl_cons, applyAll_ofOp]; exact ih _

/-- **Every modelled operation preserves well-formedness** — one case per constructor of `OpAll`, each by
the lemma of the operation's home file; for every table, every argument and every `len`. -/
theorem opAll_preserves_WF (len : Int → Int → Nat) (t : Table) (hw : WF t) (op : OpAll) (hok : op.ok) :
    WF (applyAll len t op) := WF_applyAll len hw op hok

/-- With the side condition checked at run time there is no hypothesis besides `WF t`. -/
theorem opAllChecked_preserves_WF (len : Int → Int → Nat) (t : Table) (hw : WF t) (op : OpAll) :
    WF (applyAllChecked len t op) := by
  unfold applyAllChecked
  split
  · rename_i h; exact WF_applyAll len hw op ((OpAll.okB_iff op).mp h)
  · exact hw

/-- **Histories over the whole catalogue**: any finite sequence of modelled operations — of any length,
in any order, with any arguments — applied to a well-formed skeleton returns a well-formed skeleton,
provided every foreign skeleton stitched in along the way is well-formed. -/
theorem opsAll_preserve_WF (len : Int → Int → Nat) (t : Table) (hw : WF t) (ops : List OpAll)
    (hok : ∀ op ∈ ops, op.ok) : WF (ops.foldl (applyAll len) t) := by
  induction ops generalizing t with
  | nil => exact hw
  | cons op ops ih =>
    exact ih _ (opAll_preserves_WF len t hw op (hok op (List.mem_cons_self ..)))
      (fun o ho => hok o (List.mem_cons_of_mem _ ho))

/-- The same with no side condition at all, for the run-time-checked dispatcher. -/
theorem opsAllChecked_preserve_WF (len : Int → Int → Nat) (t : Table) (hw : WF t) (ops : List OpAll) :
    WF (ops.foldl (applyAllChecked len) t) := by
  induction ops generalizing t with
  | nil => exact hw
  | cons op ops ih => exact ih _ (opAllChecked_preserves_WF len t hw op)

/-- The same when the edge-length function is recomputed from the current table at every step
(`lenOf = coordLen`: Euclidean lengths of the current coordinates). -/
theorem opsAllG_preserve_WF (lenOf : Table → Int → Int → Nat) (t : Table) (hw : WF t) (ops : List OpAll)
    (hok : ∀ op ∈ ops, op.ok) : WF (ops.foldl (applyAllG lenOf) t) := by
  induction ops generalizing t with
  | nil => exact hw
  | cons op ops ih =>
    exact ih _ (opAll_preserves_WF (lenOf t) t hw op (hok op (List.mem_cons_self ..)))
      (fun o ho => hok o (List.mem_cons_of_mem _ ho))

/-! ### labels over the whole catalogue -/

/-- An operation that ends in `classify_nodes` (all constructors except `reroot`) returns its input
unchanged (where navis raises / returns early) or a table with correct labels — whatever the input's
labels were. -/
theorem opAll_labels_fresh (len : Int → Int → Nat) (t : Table) (op : OpAll) (hop : op.reclassifies) :
    applyAll len t op = t ∨ labelsOKB (applyAll len t op) = true := labels_applyAll len t op hop

/-- Correct labels are an invariant of EVERY operation on well-formed forests, `reroot` included (its
incremental relabelling is correct on a well-formed, correctly labelled input). -/
theorem opAll_labels_ok (len : Int → Int → Nat) (t : Table) (hw : WF t) (hl : labelsOKB t = true) (op : OpAll) :
    labelsOKB (applyAll len t op) = true := labelsOK_applyAll len hw hl op

/-- **Label invariant for histories**: from a well-formed, correctly labelled skeleton every history
returns a correctly labelled (and well-formed) skeleton. -/
theorem opsAll_labels_ok (len : Int → Int → Nat) (t : Table) (hw : WF t) (hl : labelsOKB t = true)
    (ops : List OpAll) (hok : ∀ op ∈ ops, op.ok) :
    WF (ops.foldl (applyAll len) t) ∧ labelsOKB (ops.foldl (applyAll len) t) = true := by
  induction ops generalizing t with
  | nil => exact ⟨hw, hl⟩
  | cons op ops ih =>
    exact ih _ (opAll_preserves_WF len t hw op (hok op (List.mem_cons_self ..))) (opAll_labels_ok len t hw hl op)
      (fun o ho => hok o (List.mem_cons_of_mem _ ho))

/-- **Histories whose last operation re-classifies** (anything but `reroot`): the result has correct
labels, or that last operation returned its input unchanged (navis raised / returned early) — no
assumption on the labels of the start table. -/
theorem opsAll_labels_last (len : Int → Int → Nat) (t : Table) (ops : List OpAll) (op : OpAll)
    (hop : op.reclassifies) :
    (ops ++ [op]).foldl (applyAll len) t = ops.foldl (applyAll len) t ∨
      labelsOKB ((ops ++ [op]).foldl (applyAll len) t) = true := by
  rw [List.foldl_append]
  exact opAll_labels_fresh len _ op hop

/-- **Strongest form without a label assumption on the input**: if somewhere in the history there is an
operation that re-classifies unconditionally (`subset`, `reclassify`, `pruneAtDepth`, `longestNeurite`,
`rewire`, `dropFluff`, `resample`, `resampleCounts` — `OpAll.alwaysFresh`), the final result has correct
labels, whatever comes before and after it (`reroot`s included). -/
theorem opsAll_labels (len : Int → Int → Nat) (t : Table) (hw : WF t) (pre post : List OpAll) (op : OpAll)
    (hfresh : op.alwaysFresh) (hok : ∀ o ∈ pre ++ op :: post, o.ok) :
    labelsOKB ((pre ++ op :: post).foldl (applyAll len) t) = true := by
  rw [List.foldl_append, List.foldl_cons]
  have hpre : WF (pre.foldl (applyAll len) t) :=
    opsAll_preserve_WF len t hw pre (fun o ho => hok o (List.mem_append_left _ ho))
  have hop : WF (applyAll len (pre.foldl (applyAll len) t) op) :=
    opAll_preserves_WF len _ hpre op (hok op (List.mem_append_right _ (List.mem_cons_self ..)))
  exact (opsAll_labels_ok len _ hop (labels_applyAll_fresh len _ op hfresh) post
    (fun o ho => hok o (List.mem_append_right _ (List.mem_cons_of_mem _ ho)))).2

/-! ### Non-vacuity for `OpAll` -/

/-- two fragments (a chain 1 ← 2 ← 3 with a twig 4 at node 2, and a chain 5 ← 6) -/
def exF : Table := [⟨1, -1, 0, 0, 0, .root⟩, ⟨2, 1, 3, 0, 0, .branch⟩, ⟨3, 2, 6, 0, 0, .end_⟩, ⟨4, 2, 3, 4, 0, .end_⟩,
  ⟨5, -1, 9, 0, 0, .root⟩, ⟨6, 5, 12, 0, 0, .end_⟩]
/-- a foreign skeleton (a fork 4 ← {6, 7}) whose ids clash with the running table -/
def exO : Table := [⟨4, -1, 20, 0, 0, .root⟩, ⟨6, 4, 23, 0, 0, .end_⟩, ⟨7, 4, 20, 3, 0, .end_⟩]
def unitLen : Int → Int → Nat := fun _ _ => 1

theorem exF_WF : WF exF := (wfB_decides_WF exF).mp (by decide)

/-- a mixed history over the whole catalogue -/
def hist : List OpAll :=
  [.heal {}, .reroot 4, .pruneTwigs 1 0 none, .resampleCounts [([6, 5, 3, 2, 4], some 4)], .insertNodes [(8, 7)] [],
   .removeNodes [7], .stitchWith [exO] .first (some {}), .cutFragment [9] 0, .keepFragment 0 0, .pruneByStrahler (.int 1),
   .longestNeurite 0 1 false, .rewire [(9, 10)], .downsample none [], .cutDistal 10]

example : WF (hist.foldl (applyAll unitLen) exF) :=
  opsAll_preserve_WF unitLen exF exF_WF hist (opsAll_ok_of_okB hist (by decide))
example : WF (hist.foldl (applyAllChecked unitLen) exF) := opsAllChecked_preserve_WF unitLen exF exF_WF hist
/-- `rewire` (12th operation) re-classifies unconditionally: labels are correct at the end -/
example : labelsOKB (hist.foldl (applyAll unitLen) exF) = true :=
  opsAll_labels unitLen exF exF_WF (hist.take 11) (hist.drop 12) (.rewire [(9, 10)]) trivial
    (opsAll_ok_of_okB hist (by decide))
/-- the history does something at every step — ids and parent links after each prefix:
heal hangs 5 on 3; reroot to 4; `prune_twigs` drops the one-edge twig 1; resampling the remaining chain
6 → 4 with 4 sample positions replaces 5, 3, 2 by the fresh nodes 7, 8; `insert_nodes` puts 9 on the edge
8 ← 7; `remove_nodes` takes 7 out again; stitching with `exO` renames its clashing ids 4, 6 to 10, 11
and hangs it on 6; cut at 9, first piece; `break_fragments`; Strahler index 1 (the two tips) pruned;
longest neurite; rewire on the single edge 9–10; downsample; the part distal to 10. -/
example : (List.range hist.length).map
      (fun k => ((hist.take (k + 1)).foldl (applyAll unitLen) exF).map fun n => (n.id, n.parent)) =
    [[(1, -1), (2, 1), (3, 2), (4, 2), (5, 3), (6, 5)],
     [(1, 2), (2, 4), (3, 2), (4, -1), (5, 3), (6, 5)],
     [(2, 4), (3, 2), (4, -1), (5, 3), (6, 5)],
     [(6, 7), (7, 8), (8, 4), (4, -1)],
     [(6, 7), (7, 9), (8, 4), (4, -1), (9, 8)],
     [(6, 9), (8, 4), (4, -1), (9, 8)],
     [(6, 9), (8, 4), (4, -1), (9, 8), (10, 6), (11, 10), (7, 10)],
     [(6, 9), (9, -1), (10, 6), (11, 10), (7, 10)],
     [(6, 9), (9, -1), (10, 6), (11, 10), (7, 10)],
     [(6, 9), (9, -1), (10, 6)],
     [(6, 9), (9, -1), (10, 6)],
     [(6, -1), (9, -1), (10, 9)],
     [(6, -1), (9, -1), (10, 9)],
     [(10, -1)]] := by
  decide
example : wfB (hist.foldl (applyAll unitLen) exF) = true ∧ labelsOKB (hist.foldl (applyAll unitLen) exF) = true := by
  decide

/-- a second history with Euclidean edge lengths recomputed from the current table at every step
(`coordLen`), `resample_skeleton(resample_to=2)`, depth pruning, `drop_fluff`, `heal(drop_disc=True)` -/
def hist2 : List OpAll :=
  [.heal { maxD2 := some 10 }, .resample 2, .pruneAtDepth 1 4, .dropFluff none none, .healDrop {}]
example : WF (hist2.foldl (applyAllG coordLen) exF) :=
  opsAllG_preserve_WF coordLen exF exF_WF hist2 (opsAll_ok_of_okB hist2 (by decide))
example : (List.range hist2.length).map
      (fun k => ((hist2.take (k + 1)).foldl (applyAllG coordLen) exF).map fun n => (n.id, n.parent)) =
    [[(1, -1), (2, 1), (3, 2), (4, 2), (5, 3), (6, 5)],               -- 3–5 (3² = 9 < 10) is bridged
     [(2, 1), (4, 2), (6, 11), (11, 12), (12, 2), (1, -1)],           -- 3 and 5 replaced by fresh 11, 12
     [(2, 1), (1, -1)], [(2, 1), (1, -1)], [(2, 1), (1, -1)]] := by
  decide +kernel
/-- the `insert_nodes` guard: a pair that is not an edge is refused (without the guard the result has a
cycle, see above), an edge is accepted -/
example : applyAll unitLen ex (.insertNodes [(3, 2)] []) = ex := by decide
example : (applyAll unitLen ex (.insertNodes [(2, 3)] [])).map (fun n => (n.id, n.parent)) =
    [(1, -1), (2, 1), (3, 5), (4, 2), (5, 2)] := by decide
/-- the side condition `OpAll.ok` is needed: stitching in a cyclic table yields a cyclic table;
`OpAll.okB` detects it and `applyAllChecked` refuses -/
def exBad : Table := [⟨8, 9, 0, 0, 0, .slab⟩, ⟨9, 8, 0, 0, 0, .slab⟩]
example : wfB (applyAll unitLen exF (.stitchWith [exBad] .first none)) = false := by decide
example : (OpAll.stitchWith [exBad] .first none).okB = false := by decide
example : applyAllChecked unitLen exF (.stitchWith [exBad] .first none) = exF := by decide
/-- `reroot` is rightly excluded from `OpAll.reclassifies`: it does not repair stale labels -/
example : labelsOKB (applyAll unitLen [⟨1, -1, 0, 0, 0, .root⟩, ⟨2, 1, 0, 0, 0, .slab⟩, ⟨3, 2, 0, 0, 0, .slab⟩]
    (.reroot 2)) = false := by decide
/-- the fall-back disjunct of `opsAll_labels_last` is needed: a last operation that returns early
(`heal` of a single fragment) leaves stale labels in place -/
example : labelsOKB ([OpAll.reroot 1, .heal {}].foldl (applyAll unitLen) [⟨1, -1, 0, 0, 0, .slab⟩]) = false := by decide

/-! ## Second layer: skeleton states (node table + soma bookkeeping), `OpX` / `OpS`

`Model/OpsX.lean` adds the constructors `OpAll` lacks — `resample_skeleton` with ANY interpolation
`method` and `skip_errors` (`resampleSkip`: per segment collapsed / interpolated / kept because
`interp1d` refused it), construction from a graph or edge list (`fromEdges`: `nx2neuron`, `edges2neuron`,
`TreeNeuron(nx.Graph | (vertices, edges))`), assignment of a node table (`setNodes`: `x.nodes = df`,
`TreeNeuron(DataFrame)`, `read_swc`), and the operations that leave ids / parents / labels alone
(`touch`: arithmetic, smoothing, copy, pickle) — and the soma bookkeeping as a state component. -/

/-! ### `resample_skeleton`, every `method=`, `skip_errors=True` -/

/-- Whatever segments `interp1d` refuses (`act` is arbitrary): the result is a well-formed forest. -/
theorem resampleSkip_preserves_WF (t : Table) (hw : WF t) (act : List Int → Resample.SegAct) :
    WF (Resample.resampleSkip t act) := Resample.WF_resampleSkip hw act

/-- … for ANY order in which the segments are visited (the order of `x.small_segments` depends on the
row order and on the back-end; fresh ids are handed out in that order). -/
theorem resampleSkipOn_preserves_WF (t : Table) (hw : WF t) (segs : List (List Int))
    (hp : segs.Perm (smallSegments t)) (act : List Int → Resample.SegAct) :
    WF (Resample.resampleSkipOn t segs act) := Resample.WF_resampleSkipOn hw hp act

/-- The rows collected by the loop never contain an id twice: the `~node_id.duplicated()` filter drops
nothing, in particular a kept segment contributes no second row for its proximal branch point. -/
theorem resampleSkipOn_no_duplicates (t : Table) (hw : WF t) (segs : List (List Int))
    (hp : segs.Perm (smallSegments t)) (act : List Int → Resample.SegAct) :
    (ids ((Resample.planX t act segs (maxId t + 1)).map (Resample.mkNode t) ++ t.filter isRootNode)).Nodup :=
  Resample.resampleSkipOn_nodup hw hp act

/-- Without failures the loop is the linear model of `Model/Resample.lean` (C13). -/
theorem resampleSkip_refines (t : Table) (cnt : List Int → Option Nat) :
    Resample.resampleSkip t (Resample.actOfCnt cnt) = Resample.resampleStruct t cnt :=
  Resample.resampleSkip_actOfCnt t cnt

/-- Every id of the result is an original id or a fresh one above the old maximum. -/
theorem resampleSkipOn_ids (t : Table) (hw : WF t) (segs : List (List Int)) (hp : segs.Perm (smallSegments t))
    (act : List Int → Resample.SegAct) :
    ∀ i ∈ ids (Resample.resampleSkipOn t segs act), i ∈ ids t ∨ maxId t < i :=
  Resample.ids_resampleSkipOn_sub hw hp act

/-! ### construction from a graph / an edge list -/

/-- Whatever the edge list (cycles, self loops, repeated edges, edges leaving the vertex set) and whatever
roots are requested: the parents derived by traversal form a well-formed forest on exactly the given
vertices (distinct, non-negative), with correct labels. -/
theorem fromEdges_WF (verts : List Int) (hv : WF (isoTable verts)) (E : List (Int × Int)) (roots : List Int) :
    WF (fromEdges verts E roots) ∧ labelsOKB (fromEdges verts E roots) = true ∧ ids (fromEdges verts E roots) = verts :=
  ⟨WF_fromEdges hv E roots, labelsOKB_fromEdges verts E roots, ids_fromEdges verts E roots⟩

/-! ### the whole second layer -/

theorem opX_okB_decides_ok (op : OpX) : op.okB = true ↔ op.ok := OpX.okB_iff op

/-- Every operation of the second layer preserves well-formedness (side condition: foreign inputs —
stitched skeletons, the vertex list of a graph, an assigned table — are well-formed). -/
theorem opX_preserves_WF (len : Int → Int → Nat) (t : Table) (hw : WF t) (op : OpX) (hok : op.ok) :
    WF (applyX len t op) := WF_applyX len hw op hok

theorem opX_labels_ok (len : Int → Int → Nat) (t : Table) (hw : WF t) (hl : labelsOKB t = true) (op : OpX) :
    labelsOKB (applyX len t op) = true := labelsOK_applyX len hw hl op

/-- Resampling (any method), construction and table assignment return freshly classified nodes whatever
the labels were before. -/
theorem opX_labels_fresh (len : Int → Int → Nat) (t : Table) (op : OpX) (h : op.fresh) :
    labelsOKB (applyX len t op) = true := labels_applyX_fresh len t op h

/-! ### "The soma it reports is always a node that exists" -/

/-- The run-time oracle clause is the property's clause. -/
theorem somaOKB_spec (t : Table) (l : List Int) : somaOKB t l = true ↔ ∀ i ∈ l, i ∈ ids t := somaOKB_iff t l

/-- The getter reports only existing nodes as long as the members of a stored id LIST exist (a stored
single id and a detection function are checked by the getter itself). -/
theorem soma_exists (s : St) (hok : SomaOK s.nodes s.soma) (l : List Int) (h : report s = some l) :
    ∀ i ∈ l, i ∈ ids s.nodes := report_mem hok h

/-- The hypothesis of `soma_exists` is needed: the getter returns a stored list as it is when at least one
member exists. -/
example : report { nodes := [⟨1, -1, 0, 0, 0, .root⟩], soma := .many [1, 7] } = some [1, 7] := by decide

/-- **Every table operation establishes the invariant**, whatever was stored before: each ends in the
clean-up of `_clear_temp_attr` or `_subset_treeneuron` evaluated on the NEW table (for resampling: after
re-attaching the soma to new nodes, whatever the nearest-neighbour map `nn` returns). -/
theorem soma_invariant_after_op (len : Int → Int → Nat) (s : St) (op : OpX) (nn : Int → Nat) (th : List Int) :
    SomaOK (stepS len s (.tab op nn th)).nodes (stepS len s (.tab op nn th)).soma :=
  SomaOK_stepSoma s _ nn _

/-- Hence after every table operation the reported soma exists — no hypothesis on the state before. -/
theorem soma_exists_after_op (len : Int → Int → Nat) (s : St) (op : OpX) (nn : Int → Nat) (th : List Int)
    (l : List Int) (h : report (stepS len s (.tab op nn th)) = some l) :
    ∀ i ∈ l, i ∈ ids (stepS len s (.tab op nn th)).nodes :=
  report_mem (soma_invariant_after_op len s op nn th) h

/-- A freshly constructed skeleton (detection function, no soma, or one validated id) satisfies the
invariant. -/
theorem soma_invariant_initial (t : Table) (s : Soma) (h : ∀ l, s ≠ .many l) : SomaOK t s := by
  cases s with
  | many l => exact absurd rfl (h l)
  | _ => trivial

/-- **Histories of states**: from a well-formed, correctly labelled skeleton whose stored soma satisfies
the invariant, every finite sequence of table operations (with any nearest-neighbour maps and detection
results), soma assignments and soma resets leaves a state that is well-formed, correctly labelled and
whose stored soma satisfies the invariant. -/
theorem states_stay_good (len : Int → Int → Nat) (s : St) (h : GoodSt s) (ops : List OpS) (hok : ∀ op ∈ ops, op.ok) :
    GoodSt (ops.foldl (stepS len) s) := by
  induction ops generalizing s with
  | nil => exact h
  | cons op ops ih =>
    exact ih _ (GoodSt_stepS len h op (hok op (List.mem_cons_self ..))) (fun o ho => hok o (List.mem_cons_of_mem _ ho))

/-- **The property's last sentence, for all histories**: whatever is done to a skeleton, every id its
`.soma` reports afterwards is a node of its table. -/
theorem soma_exists_history (len : Int → Int → Nat) (s : St) (h : GoodSt s) (ops : List OpS) (hok : ∀ op ∈ ops, op.ok)
    (l : List Int) (hr : report (ops.foldl (stepS len) s) = some l) : ∀ i ∈ l, i ∈ ids (ops.foldl (stepS len) s).nodes :=
  report_mem (states_stay_good len s h ops hok).soma hr

theorem opS_okB_decides_ok (op : OpS) : op.okB = true ↔ op.ok := OpS.okB_iff op

/-! ### Tie to the source: facts re-extracted on every run (`translator/gen_somaspec.py` → `Gen/SomaSpec.lean`)

The soma clean-up blocks of `TreeNeuron._clear_temp_attr` and `_subset_treeneuron` and the `skip_errors`
fall-back of `resample_skeleton` are re-read from the current source; the statements below are about the
GENERATED definitions and stop checking when the code changes what it does there (e.g. the stored id list is
no longer filtered by `np.isin`, or the fall-back copies `seg` instead of `seg[:-1]`). -/

/-- The block at the end of `TreeNeuron._clear_temp_attr`, as extracted, is the model's `filterSoma`. -/
theorem clearTemp_cleanup_is_filterSoma (t : Table) (s : Soma) :
    cleanUpBy Navis.Gen.SomaSpec.clearTemp t s = filterSoma t s := cleanUpBy_clearTemp t s

/-- The block in `_subset_treeneuron`, as extracted, is the model's `filterSomaSubset` (its guard excludes a
stored detection function, like the one of `_clear_temp_attr`). -/
theorem subset_cleanup_is_filterSomaSubset (t : Table) (s : Soma) :
    cleanUpBy Navis.Gen.SomaSpec.subsetTree t s = filterSomaSubset t s := cleanUpBy_subsetTree t s

/-- Hence both blocks, as they are written today, establish the invariant behind `soma_exists`. -/
theorem source_cleanups_establish_invariant (t : Table) (s : Soma) :
    SomaOK t (cleanUpBy Navis.Gen.SomaSpec.clearTemp t s) ∧
      SomaOK t (cleanUpBy Navis.Gen.SomaSpec.clearTemp t (cleanUpBy Navis.Gen.SomaSpec.subsetTree t s)) := by
  rw [cleanUpBy_clearTemp, cleanUpBy_clearTemp]
  exact ⟨SomaOK_filterSoma t s, SomaOK_filterSoma t _⟩

/-- The rows the `skip_errors` fall-back copies are those of `seg[:-1]`: the model's `.keep` outcome. -/
theorem resample_keep_rows_are_dropLast (t : Table) (s : List Int) (base : Int) :
    (Resample.segRowsX t s base .keep).1 =
      (t.filter fun m => (pySlice Navis.Gen.SomaSpec.keepSlice s).contains m.id).map (fun m => (m.id, m.parent)) := by
  rw [pySlice_keepSlice]; rfl

/-- The other facts of `resample_skeleton` the model relies on: the fall-back `continue`s without advancing the
id counter, duplicates are resolved in favour of the first row, the soma is re-attached to ids of the NEW
table (or reset when there is none), and the function ends in an unconditional `_clear_temp_attr()`. -/
theorem resample_source_facts :
    Navis.Gen.SomaSpec.keepContinues = true ∧ Navis.Gen.SomaSpec.dedupKeepsFirst = true ∧
    Navis.Gen.SomaSpec.pinsToNewIds = true ∧ Navis.Gen.SomaSpec.noSomaSetsNone = true ∧
    Navis.Gen.SomaSpec.endsWithClear = true := by decide

/-! ### Non-vacuity for the second layer -/

/-- a trunk 1 ← 2 ← 3 ← 4 (branch point) with the arms 4 ← 5 ← 6 ← 7 and 4 ← 8 ← 9; nodes 3 and 6 are thick -/
def exY : Table := [⟨9, 8, 0, 0, 0, .end_⟩, ⟨8, 4, 0, 0, 0, .slab⟩, ⟨7, 6, 0, 0, 0, .end_⟩, ⟨6, 5, 0, 0, 0, .slab⟩,
  ⟨5, 4, 0, 0, 0, .slab⟩, ⟨4, 3, 0, 0, 0, .branch⟩, ⟨3, 2, 0, 0, 0, .slab⟩, ⟨2, 1, 0, 0, 0, .slab⟩, ⟨1, -1, 0, 0, 0, .root⟩]
def sY : St := { nodes := exY, soma := .detect, thick := [3, 6] }
theorem sY_good : GoodSt sY := ⟨(wfB_decides_WF exY).mp (by decide), by decide, trivial⟩

/-- the segments of `exY` in table order (children before parents): the arm of 9, the arm of 7, the trunk -/
example : smallSegments exY = [[9, 8, 4], [7, 6, 5, 4], [4, 3, 2, 1]] := by decide

/-- the arm 7 → 4 is KEPT (interpolation refused), the arm of 9 collapses, the trunk gets two fresh nodes:
the kept rows 7, 6, 5 keep their parents and the branch point 4 has ONE row, pointing at fresh node 11 -/
def actsY : List (List Int × Resample.SegAct) := [([7, 6, 5, 4], .keep), ([4, 3, 2, 1], .fresh 4)]
example : (Resample.resampleSkip exY (Resample.actTable actsY)).map (fun n => (n.id, n.parent)) =
    [(9, 4), (7, 6), (6, 5), (5, 4), (4, 10), (10, 11), (11, 1), (1, -1)] := by decide
/-- the seeded defect `isin(seg)` instead of `isin(seg[:-1])` would add the stale row (4, 3) before (4, 10);
with "first occurrence wins" node 4 would point at the replaced node 3: not well-formed -/
example : wfB [⟨9, 4, 0, 0, 0, .end_⟩, ⟨7, 6, 0, 0, 0, .end_⟩, ⟨6, 5, 0, 0, 0, .slab⟩, ⟨5, 4, 0, 0, 0, .slab⟩, ⟨4, 3, 0, 0, 0, .branch⟩,
    ⟨10, 11, 0, 0, 0, .slab⟩, ⟨11, 1, 0, 0, 0, .slab⟩, ⟨1, -1, 0, 0, 0, .root⟩] = false := by decide

/-- a history of states: resample with a kept segment (pins the detected somas 6 and 3 to the new nodes
`nn` picks: here rows 2 and 5 of the new table, ids 6 and 10), then `remove_nodes([6])` drops one of the
two pinned ids, then a subset that drops the other, then a soma assignment, then construction from edges -/
def histS : List OpS :=
  [.tab (.resampleSkip actsY) (fun i => if i = 3 then 5 else 2) [],
   .tab (.base (.removeNodes [6])) (fun _ => 0) [],
   .tab (.base (.subset [1, 11, 5, 4, 9])) (fun _ => 0) [],
   .setSoma 9, .setSoma 77,
   .tab (.fromEdges [3, 1, 2] [(1, 2), (2, 3), (3, 1), (2, 2)] [2]) (fun _ => 0) [1]]
example : (List.range histS.length).map (fun k => ((histS.take (k + 1)).foldl (stepS unitLen) sY).soma) =
    [.many [6, 10], .many [10], .none, .one 9, .one 9, .detect] := by decide
example : (List.range histS.length).map (fun k => report ((histS.take (k + 1)).foldl (stepS unitLen) sY)) =
    [some [6, 10], some [10], none, some [9], some [9], some [1]] := by decide
example : GoodSt (histS.foldl (stepS unitLen) sY) :=
  states_stay_good unitLen sY sY_good histS (fun op hop => (opS_okB_decides_ok op).mp (by
    have : histS.all OpS.okB = true := by decide
    exact List.all_eq_true.mp this op hop))
/-- the cyclic edge list (1–2, 2–3, 3–1 and a self loop) is turned into a tree rooted at the requested node 2 -/
example : (fromEdges [3, 1, 2] [(1, 2), (2, 3), (3, 1), (2, 2)] [2]).map (fun n => (n.id, n.parent, n.label)) =
    [(3, 2, .end_), (1, 2, .end_), (2, -1, .root)] := by decide
/-- neither clean-up touches a stored detection FUNCTION: after a subset the surviving thick node is still
reported (before the repair of `_subset_treeneuron` the function was replaced by `None` there) -/
example : (stepS unitLen sY (.tab (.base (.subset [1, 2, 3])) (fun _ => 0) [3])).soma = .detect := by decide
example : report (stepS unitLen sY (.tab (.base (.subset [1, 2, 3])) (fun _ => 0) [3])) = some [3] := by decide
example : report (stepS unitLen sY (.tab (.base (.removeNodes [9])) (fun _ => 0) [3, 6])) = some [6, 3] := by decide
/-- the side conditions are needed: a vertex list with a repeated id / an assigned cyclic table -/
example : wfB (applyX unitLen exY (.fromEdges [1, 1] [] [])) = false := by decide
example : wfB (applyX unitLen exY (.setNodes exBad)) = false := by decide

end Navis.Props.C01
