import NavisModel.Proofs.VolumeLemmas
import NavisModel.Proofs.VolCacheLemmas
import NavisModel.Gen.VolCache
import NavisModel.Proofs.InVolumeShapeLemmas
import NavisModel.Gen.InVolume
import NavisModel.Gen.SnapCast
/-!
# C18 — inside/outside tests and nearest-neighbour snapping are geometrically exact

Property theorems only; helper lemmas live in `Proofs/VolumeLemmas.lean`, the executable model in
`Model/Volume.lean`.  Vocabulary:

* `Solid` — the solid bounded by a watertight mesh, as a CSG program over integer boxes; `mem S p` exact
  membership of the point with **doubled** coordinates `p` (half-integer points = odd entries, `Half p`).
* `Polytope` — a convex polytope in any orientation as a list of half-spaces with integer normals; `memPoly P p`.
* `μ : Inside` (= `P3 → Bool`) — the inside test of one volume.  Sections 2–3 are proved for **every** `μ`: for exact
  membership `mem S` / `memPoly P` of any solid, and equally for whatever a (deterministic) ray caster answers — the
  complementarity of `IN` and `OUT`, the connector bookkeeping and the independence of several volumes do not depend on
  the geometry at all.
* `inVolumePoints μ pts` — `navis.in_volume(points, vol)`; `inVolumeTree / inVolumeDots / inVolumeMesh μ mode x` —
  `navis.in_volume(x, vol, mode=mode)` for a skeleton / point cloud / mesh neuron (= `x.prune_by_volume`);
  `inVolumeDict f vols` — the loop over a dict of volumes; `intersectionMatrix`.
* `snapIdx data p` — `cKDTree(data).query(p)` as `(row, dist²)`; `snapTree t p` — `TreeNeuron.snap` `(node_id, dist²)`.

What is **not** proved here: that the external ray caster (`ncollpyde`) computes `mem S` / `memPoly P` for the mesh of
the solid.
That is the correspondence tested on every run by `harness/c18.py` (DESIGN §5 C18, Limits).
-/
namespace Navis.Props.C18
open Navis.Volume

/-! ## 1. exact membership -/

/-- **Query points are never on the surface.** For a half-integer point the open and the closed box agree, for
every box with integer corners: no tolerance is involved in "inside". -/
theorem half_integer_off_surface (b : Box) (p : P3) (h : Half p) : inBox b p = inBoxClosed b p :=
  inBox_eq_inBoxClosed b p h

example : Half ⟨3, -5, 1⟩ := by decide
/-- a point *on* a face (even doubled coordinate) does distinguish the two -/
example : inBox ⟨⟨0, 0, 0⟩, ⟨1, 1, 1⟩⟩ ⟨2, 1, 1⟩ = false ∧ inBoxClosed ⟨⟨0, 0, 0⟩, ⟨1, 1, 1⟩⟩ ⟨2, 1, 1⟩ = true := by
  decide

/-- **Union of boxes.** A point is in the union iff it is in some box. -/
theorem union_membership (bs : List Box) (p : P3) : mem (unionOf bs) p = true ↔ ∃ b ∈ bs, inBox b p = true := by
  rw [mem_unionOf, List.any_eq_true]

/-- Adding a box is set union, carving a box is set difference — for every solid built so far. -/
theorem add_is_union (S : Solid) (b : Box) (p : P3) : mem (S ++ [(true, b)]) p = (mem S p || inBox b p) :=
  mem_add S b p

theorem carve_is_difference (S : Solid) (b : Box) (p : P3) : mem (S ++ [(false, b)]) p = (mem S p && !inBox b p) :=
  mem_carve S b p

/-- In general the *last* box of the program that contains the point decides (nested shells). -/
theorem last_box_decides (S : Solid) (p : P3) :
    mem S p = match S.reverse.find? (fun sb => inBox sb.2 p) with
      | some sb => sb.1
      | none => false :=
  mem_eq_last S p

/-- nested shells: a 6-cube with a 4-cube cavity containing a 2-cube; centre inside, cavity outside, wall inside -/
example :
    let S : Solid := [(true, ⟨⟨0, 0, 0⟩, ⟨6, 6, 6⟩⟩), (false, ⟨⟨1, 1, 1⟩, ⟨5, 5, 5⟩⟩), (true, ⟨⟨2, 2, 2⟩, ⟨4, 4, 4⟩⟩)]
    mem S ⟨5, 5, 5⟩ = true ∧ mem S ⟨3, 3, 3⟩ = false ∧ mem S ⟨1, 1, 1⟩ = true ∧ mem S ⟨13, 1, 1⟩ = false := by
  decide

/-- **Voxel sets.** The centre of voxel `w` is inside the union of the unit cells `vs` iff `w ∈ vs`; every
such centre is a half-integer point. -/
theorem voxel_membership (vs : List P3) (w : P3) :
    mem (unionOf (vs.map cell)) (centre w) = vs.contains w ∧ Half (centre w) :=
  ⟨mem_voxels_centre vs w, half_centre w⟩

/-- **Convex polytopes in any orientation.** A point is inside iff it is strictly on the inner side of every face plane;
cutting with further planes is intersection; a point on no face plane is classified the same by the open and the closed
polytope (no tolerance); an axis-aligned box is the polytope of its six face planes. -/
theorem polytope_membership (P Q : Polytope) (p : P3) :
    (memPoly P p = true ↔ ∀ h ∈ P, dot h.n p < 2 * h.d)
    ∧ memPoly (P ++ Q) p = (memPoly P p && memPoly Q p)
    ∧ (offFaces P p = true → memPoly P p = memPolyClosed P p) :=
  ⟨memPoly_iff P p, memPoly_append P Q p, memPoly_eq_closed P p⟩

theorem box_is_polytope (b : Box) (p : P3) : memPoly (boxPoly b) p = inBox b p := memPoly_boxPoly b p

/-- the octahedron |x|+|y|+|z| < 3: centre-ish point inside, a point beyond a slanted face outside, both off all planes -/
def exOcta : Polytope :=
  [⟨⟨1, 1, 1⟩, 3⟩, ⟨⟨1, 1, -1⟩, 3⟩, ⟨⟨1, -1, 1⟩, 3⟩, ⟨⟨1, -1, -1⟩, 3⟩,
   ⟨⟨-1, 1, 1⟩, 3⟩, ⟨⟨-1, 1, -1⟩, 3⟩, ⟨⟨-1, -1, 1⟩, 3⟩, ⟨⟨-1, -1, -1⟩, 3⟩]
example : memPoly exOcta ⟨1, 1, 1⟩ = true ∧ memPoly exOcta ⟨3, 3, 1⟩ = false
    ∧ offFaces exOcta ⟨1, 1, 1⟩ = true ∧ offFaces exOcta ⟨3, 3, 1⟩ = true := by decide

/-- **Any integer pose.** Scaling by positive integers, flipping and permuting axes and translating the solid
and the query point together does not change the answer. -/
theorem membership_pose_invariant (π : Pose) (hπ : π.ok) (S : Solid) (hS : ∀ sb ∈ S, sb.2.ok) (p : P3) :
    mem (π.solid S) (π.pt p) = mem S p :=
  mem_pose π hπ S hS p

example : (⟨2, 1, 3, true, false, true, .zxy, ⟨5, -7, 11⟩⟩ : Pose).ok := by decide
example : (⟨⟨0, 0, 0⟩, ⟨2, 1, 1⟩⟩ : Box).ok := by decide

/-- the guard `Box.ok` is needed: re-sorting the corners of an inside-out (empty) box makes it non-empty -/
def badBox : Box := ⟨⟨3, 0, 0⟩, ⟨1, 2, 2⟩⟩
theorem pose_needs_proper_boxes :
    ¬ badBox.ok ∧ inBox badBox ⟨4, 1, 1⟩ = false
      ∧ inBox ((default : Pose).box badBox) ((default : Pose).pt ⟨4, 1, 1⟩) = true := by
  decide

/-- **Any chain of integer poses** (what a volume history does to one Volume object: `apply_translation`, `apply_scale`,
`apply_transform`, vertex assignment, `vol.vertices *= k`, `resize` … one after the other): the solid the model holds after
the chain contains the image of a point iff the original solid contained the point. -/
theorem membership_pose_chain_invariant (πs : List Pose) (hπ : ∀ π ∈ πs, π.ok) (S : Solid) (hS : ∀ sb ∈ S, sb.2.ok)
    (p : P3) : mem (poseChainSolid πs S) (poseChainPt πs p) = mem S p :=
  mem_poseChain πs hπ S hS p

/-- **`in_volume(points, vol)`** answers every point by itself, in order. -/
theorem mask_exact (μ : Inside) (pts : List P3) :
    (inVolumePoints μ pts).length = pts.length ∧ ∀ i : Nat, (inVolumePoints μ pts)[i]? = pts[i]?.map (μ) := by
  simp [inVolumePoints]

/-! ## 2. `mode='IN'` and `mode='OUT'` are complementary -/

/-- **in_out_partition (skeletons).** For every inside test `μ` (every solid) and every node table with unique ids: the nodes kept with
`IN` followed by the nodes kept with `OUT` are a permutation of all nodes, no node (and no id) is kept by both,
`IN` keeps exactly the nodes inside and `OUT` exactly the nodes outside. -/
theorem in_out_partition (μ : Inside) (t : Tree) (hn : t.ids.Nodup) :
    ((inVolumeTree μ .IN t).nodes ++ (inVolumeTree μ .OUT t).nodes).Perm t.nodes
    ∧ (∀ v ∈ (inVolumeTree μ .IN t).nodes, v ∉ (inVolumeTree μ .OUT t).nodes)
    ∧ (∀ i ∈ (inVolumeTree μ .IN t).ids, i ∉ (inVolumeTree μ .OUT t).ids)
    ∧ (∀ v, v ∈ (inVolumeTree μ .IN t).nodes ↔ v ∈ t.nodes ∧ μ v.pos = true)
    ∧ (∀ v, v ∈ (inVolumeTree μ .OUT t).nodes ↔ v ∈ t.nodes ∧ μ v.pos = false) := by
  rw [inVolumeTree_nodes μ .IN t hn, inVolumeTree_nodes μ .OUT t hn]
  have hout : (t.nodes.filter fun v => keepPred μ .OUT v.pos)
      = t.nodes.filter fun v => !(fun v : Node => keepPred μ .IN v.pos) v := rfl
  have hI : ∀ v, v ∈ (t.nodes.filter fun v => keepPred μ .IN v.pos) ↔ v ∈ t.nodes ∧ μ v.pos = true := by
    intro v; rw [List.mem_filter]; rfl
  have hO : ∀ v, v ∈ (t.nodes.filter fun v => keepPred μ .OUT v.pos) ↔ v ∈ t.nodes ∧ μ v.pos = false := by
    intro v; rw [List.mem_filter]; simp [keepPred]
  refine ⟨?_, ?_, ?_, hI, hO⟩
  · rw [hout]; exact List.filter_append_perm _ _
  · intro v hv hv'
    have h1 := (hI v).mp hv; have h2 := (hO v).mp hv'
    rw [h1.2] at h2; exact absurd h2.2 (by simp)
  · intro i hi hi'
    simp only [Tree.ids, inVolumeTree_nodes μ .IN t hn, inVolumeTree_nodes μ .OUT t hn] at hi hi'
    obtain ⟨v, hv, rfl⟩ := List.mem_map.mp hi
    obtain ⟨w, hw, hid⟩ := List.mem_map.mp hi'
    have h1 := (hI v).mp hv; have h2 := (hO w).mp hw
    have := eq_of_id_eq hn h2.1 h1.1 hid
    subst this
    rw [h1.2] at h2; exact absurd h2.2 (by simp)

/-- non-vacuity: sparse shuffled ids, an L-shaped solid, nodes on both sides -/
def exTree : Tree :=
  { nodes := [⟨70, ⟨1, 1, 1⟩⟩, ⟨3, ⟨3, 1, 1⟩⟩, ⟨12, ⟨3, 3, 1⟩⟩, ⟨5, ⟨1, 3, 1⟩⟩, ⟨9, ⟨-1, 1, 1⟩⟩],
    conns := [⟨100, 70⟩, ⟨101, 12⟩, ⟨102, 12⟩, ⟨103, 9⟩, ⟨104, 5⟩] }
def exL : Solid := unionOf [⟨⟨0, 0, 0⟩, ⟨2, 1, 1⟩⟩, ⟨⟨0, 1, 0⟩, ⟨1, 2, 1⟩⟩]

example : exTree.ids.Nodup ∧ Attached exTree := by
  refine ⟨by decide, ?_⟩
  intro c hc; revert c; decide
example : (inVolumeTree (mem exL) .IN exTree).ids = [70, 3, 5] ∧ (inVolumeTree (mem exL) .OUT exTree).ids = [12, 9] := by decide
example : (inVolumeTree (mem exL) .IN exTree).conns.map (·.cid) = [100, 104]
    ∧ (inVolumeTree (mem exL) .OUT exTree).conns.map (·.cid) = [101, 102, 103] := by decide

/-- the guard is needed: `node_id.isin(subset)` keeps *both* rows of a duplicated id on both sides -/
def dupTree : Tree := { nodes := [⟨1, ⟨1, 1, 1⟩⟩, ⟨1, ⟨9, 1, 1⟩⟩], conns := [] }
def unitCube : Solid := unionOf [⟨⟨0, 0, 0⟩, ⟨1, 1, 1⟩⟩]
theorem in_out_partition_needs_unique_ids :
    ¬ dupTree.ids.Nodup ∧ (inVolumeTree (mem unitCube) .IN dupTree).nodes = dupTree.nodes
      ∧ (inVolumeTree (mem unitCube) .OUT dupTree).nodes = dupTree.nodes := by
  decide

/-- **each_carries_own_connectors.** After `in_volume` (either mode) the connector table is exactly the rows of the
original table attached to a kept node — nothing else is dropped, nothing foreign is carried. -/
theorem each_carries_own_connectors (μ : Inside) (mode : Mode) (t : Tree) (hn : t.ids.Nodup) (ha : Attached t) :
    (inVolumeTree μ mode t).conns = t.conns.filter fun c => (inVolumeTree μ mode t).ids.contains c.node := by
  rw [inVolumeTree_eq_pruneBy μ mode t hn ha]
  rfl

/-- **… and the two modes partition the connectors as well.** -/
theorem connectors_partition (μ : Inside) (t : Tree) (hn : t.ids.Nodup) (ha : Attached t) :
    ((inVolumeTree μ .IN t).conns ++ (inVolumeTree μ .OUT t).conns).Perm t.conns
    ∧ ∀ c ∈ (inVolumeTree μ .IN t).conns, c ∉ (inVolumeTree μ .OUT t).conns := by
  have hdis := (in_out_partition μ t hn).2.2.1
  have eI := each_carries_own_connectors μ .IN t hn ha
  have eO := each_carries_own_connectors μ .OUT t hn ha
  constructor
  · rw [inVolumeTree_eq_pruneBy μ .IN t hn ha, inVolumeTree_eq_pruneBy μ .OUT t hn ha]
    simp only [pruneBy]
    have : (t.conns.filter fun c => ((t.nodes.filter fun v => keepPred μ .OUT v.pos).map (·.id)).contains c.node)
        = t.conns.filter fun c =>
            !(fun c : Conn => ((t.nodes.filter fun v => keepPred μ .IN v.pos).map (·.id)).contains c.node) c := by
      apply List.filter_congr
      intro c hc
      exact conn_out_eq_not_in t.nodes hn (fun v => keepPred μ .IN v.pos) c.node (ha c hc)
    rw [this]
    exact List.filter_append_perm _ _
  · intro c hc hc'
    rw [eI, List.mem_filter, List.contains_iff_mem] at hc
    rw [eO, List.mem_filter, List.contains_iff_mem] at hc'
    exact hdis _ hc.2 hc'.2

/-- the guard `Attached` is needed because of the `if not all(in_v)` shortcut: a connector on a non-existing node
survives when nothing is pruned (and is dropped as soon as one node is pruned) -/
def danglingTree : Tree := { nodes := [⟨1, ⟨1, 1, 1⟩⟩], conns := [⟨100, 7⟩] }
theorem own_connectors_needs_attached :
    ¬ Attached danglingTree ∧ (inVolumeTree (mem unitCube) .IN danglingTree).conns = [⟨100, 7⟩]
      ∧ (inVolumeTree (mem unitCube) .OUT danglingTree).conns = [] := by
  refine ⟨?_, by decide, by decide⟩
  intro h
  have := h ⟨100, 7⟩ (by decide)
  revert this; decide

/-- `x.prune_by_volume(v, mode)` *is* `in_volume(x, v, mode)` (it only forwards). -/
theorem prune_by_volume_is_in_volume (μ : Inside) (mode : Mode) (t : Tree) :
    pruneByVolume μ mode t = inVolumeTree μ mode t := rfl

/-- A `NeuronList` is pruned neuron by neuron. -/
theorem neuronlist_pointwise (μ : Inside) (mode : Mode) (ts : List Tree) (i : Nat) :
    (inVolumeList μ mode ts)[i]? = ts[i]?.map (inVolumeTree μ mode) := by
  simp [inVolumeList]

/-! ### point clouds (`Dotprops`) -/

/-- **in_out_partition (point clouds).** For every inside test: row indices kept by `IN` and by `OUT` partition `0..n-1`; `IN` keeps exactly
the points inside.  No hypothesis. -/
theorem dots_in_out_partition (μ : Inside) (d : Dots) :
    ((inVolumeDots μ .IN d).kept ++ (inVolumeDots μ .OUT d).kept).Perm (List.range d.pts.length)
    ∧ (∀ i ∈ (inVolumeDots μ .IN d).kept, i ∉ (inVolumeDots μ .OUT d).kept)
    ∧ (∀ i, i ∈ (inVolumeDots μ .IN d).kept ↔ ∃ q, d.pts[i]? = some q ∧ μ q = true)
    ∧ (∀ i, i ∈ (inVolumeDots μ .OUT d).kept ↔ ∃ q, d.pts[i]? = some q ∧ μ q = false) := by
  rw [inVolumeDots_kept, inVolumeDots_kept]
  refine ⟨selected_partition μ d.pts, selected_disjoint μ d.pts, ?_, ?_⟩
  · intro i; rw [mem_selected]; rfl
  · intro i; rw [mem_selected]; simp [keepPred]

/-- **each_carries_own_connectors (point clouds).** A connector belongs to its nearest point; the kept connectors are
exactly those whose point is kept, and the rewritten `point` column addresses that same point in the pruned cloud. -/
theorem dots_carry_own_connectors (μ : Inside) (mode : Mode) (d : Dots) (hne : d.pts ≠ []) :
    (inVolumeDots μ mode d).conns.map (·.1)
      = (d.conns.filter fun c => (inVolumeDots μ mode d).kept.contains (attach d.pts c)).map (·.cid)
    ∧ ∀ cj ∈ (inVolumeDots μ mode d).conns,
        ∃ c ∈ d.conns, c.cid = cj.1 ∧ (inVolumeDots μ mode d).kept[cj.2]? = some (attach d.pts c) :=
  ⟨inVolumeDots_conns μ mode d hne, fun cj h => inVolumeDots_reindex μ mode d hne cj h⟩

def exDots : Dots :=
  { pts := [⟨-3, 1, 1⟩, ⟨-1, 1, 1⟩, ⟨1, 1, 1⟩, ⟨3, 1, 1⟩, ⟨5, 1, 1⟩],
    conns := [⟨100, ⟨-3, 1, 1⟩⟩, ⟨101, ⟨1, 3, 1⟩⟩, ⟨102, ⟨1, 1, 1⟩⟩, ⟨103, ⟨5, 1, 1⟩⟩] }
def exBar : Solid := unionOf [⟨⟨0, 0, 0⟩, ⟨2, 1, 1⟩⟩]

example : inVolumeDots (mem exBar) .IN exDots = ⟨[2, 3], [(101, 0), (102, 0)]⟩
    ∧ inVolumeDots (mem exBar) .OUT exDots = ⟨[0, 1, 4], [(100, 0), (103, 2)]⟩ := by decide

/-! ### mesh neurons -/

/-- The vertices *selected* by the volume test (`subset`, before `submesh` looks at the faces) always partition, and the
connectors are split by the selection; the surviving vertices are a subset of the selected ones.  No hypothesis. -/
theorem mesh_selection_partition (μ : Inside) (m : Mesh) :
    ((inVolumeMesh μ .IN m).subset ++ (inVolumeMesh μ .OUT m).subset).Perm (List.range m.verts.length)
    ∧ (∀ i ∈ (inVolumeMesh μ .IN m).subset, i ∉ (inVolumeMesh μ .OUT m).subset)
    ∧ (∀ mode, ∀ i ∈ (inVolumeMesh μ mode m).kept, i ∈ (inVolumeMesh μ mode m).subset) := by
  rw [inVolumeMesh_subset, inVolumeMesh_subset]
  exact ⟨selected_partition μ m.verts, selected_disjoint μ m.verts, fun mode i h => inVolumeMesh_kept_sub μ mode m i h⟩

/-- **each_carries_own_connectors (meshes).**  A connector belongs to its nearest vertex; every pruned mesh carries exactly
the connectors whose vertex *survives* in it, and the rewritten `vertex_id` column addresses that same vertex in the pruned
mesh — for every mesh, with or without straddling faces (this is the behaviour since the `fix:` commit that re-indexes
against the surviving vertices; before, `vertex_id` was computed against `subset` and went stale). -/
theorem mesh_carries_own_connectors (μ : Inside) (mode : Mode) (m : Mesh) (hne : m.verts ≠ []) :
    (inVolumeMesh μ mode m).conns.map (·.1)
      = (m.conns.filter fun c => (inVolumeMesh μ mode m).kept.contains (attach m.verts c)).map (·.cid)
    ∧ ∀ cj ∈ (inVolumeMesh μ mode m).conns,
        ∃ c ∈ m.conns, c.cid = cj.1 ∧ (inVolumeMesh μ mode m).kept[cj.2]? = some (attach m.verts c) :=
  ⟨inVolumeMesh_conns μ mode m hne, fun cj h => inVolumeMesh_reindex μ mode m hne cj h⟩

/-- **in_out_partition (meshes) — partial.**  Full statement wanted by the property text:
`∀ μ m, (kept IN ++ kept OUT).Perm (range n)`.  That is *false* for the code (see `mesh_straddling_face_loses_vertices`):
`submesh` drops every face with vertices on both sides and then every vertex left without a face.  Proved here: on a mesh
without straddling faces, whose faces address existing vertices and whose vertices all carry a face, the surviving vertices
are exactly the selected ones, hence `IN` and `OUT` partition the vertices, `IN` keeping exactly those inside. -/
theorem mesh_in_out_partition_partial (μ : Inside) (m : Mesh) (hv : FacesValid m) (hr : Referenced m)
    (hs : NoStraddle μ m) :
    ((inVolumeMesh μ .IN m).kept ++ (inVolumeMesh μ .OUT m).kept).Perm (List.range m.verts.length)
    ∧ (∀ i ∈ (inVolumeMesh μ .IN m).kept, i ∉ (inVolumeMesh μ .OUT m).kept)
    ∧ (∀ i, i ∈ (inVolumeMesh μ .IN m).kept ↔ ∃ q, m.verts[i]? = some q ∧ μ q = true)
    ∧ (∀ mode, (inVolumeMesh μ mode m).kept = (inVolumeMesh μ mode m).subset) := by
  have eI := inVolumeMesh_kept_of_noStraddle μ .IN m hv hr hs
  have eO := inVolumeMesh_kept_of_noStraddle μ .OUT m hv hr hs
  refine ⟨?_, ?_, ?_, ?_⟩
  · rw [eI, eO]; exact selected_partition μ m.verts
  · rw [eI, eO]; exact selected_disjoint μ m.verts
  · intro i; rw [eI, mem_selected]; rfl
  · intro mode
    rw [inVolumeMesh_kept_of_noStraddle μ mode m hv hr hs, inVolumeMesh_subset]

/-- … and on such meshes the two modes partition the connectors as well (same partial scope: with straddling faces the
connectors of the lost vertices are in neither part, see the counter-example below). -/
theorem mesh_connectors_partition_partial (μ : Inside) (m : Mesh) (hv : FacesValid m) (hr : Referenced m)
    (hs : NoStraddle μ m) (hne : m.verts ≠ []) :
    ((inVolumeMesh μ .IN m).conns.map (·.1) ++ (inVolumeMesh μ .OUT m).conns.map (·.1)).Perm (m.conns.map (·.cid)) := by
  rw [(mesh_carries_own_connectors μ .IN m hne).1, (mesh_carries_own_connectors μ .OUT m hne).1,
    inVolumeMesh_kept_of_noStraddle μ .IN m hv hr hs, inVolumeMesh_kept_of_noStraddle μ .OUT m hv hr hs]
  have : (m.conns.filter fun c =>
        ((List.range m.verts.length).filter (inAt m.verts (keepPred μ .OUT))).contains (attach m.verts c))
      = m.conns.filter fun c => !(fun c : PConn =>
        ((List.range m.verts.length).filter (inAt m.verts (keepPred μ .IN))).contains (attach m.verts c)) c := by
    apply List.filter_congr
    intro c _
    have hlt := attach_lt m.verts c hne
    have hr' : attach m.verts c ∈ List.range m.verts.length := List.mem_range.mpr hlt
    have e : inAt m.verts (keepPred μ .OUT) (attach m.verts c) = !inAt m.verts (keepPred μ .IN) (attach m.verts c) :=
      inAt_not m.verts (keepPred μ .IN) _ hlt
    cases hin : inAt m.verts (keepPred μ .IN) (attach m.verts c)
    · have h1 : ((List.range m.verts.length).filter (inAt m.verts (keepPred μ .IN))).contains (attach m.verts c) = false := by
        apply Bool.eq_false_iff.mpr; intro hc
        rw [List.contains_iff_mem, List.mem_filter, hin] at hc
        exact absurd hc.2 (by simp)
      have h2 : ((List.range m.verts.length).filter (inAt m.verts (keepPred μ .OUT))).contains (attach m.verts c) = true := by
        rw [List.contains_iff_mem, List.mem_filter]
        exact ⟨hr', by rw [e, hin]; rfl⟩
      simp only [h1, h2, Bool.not_false]
    · have h1 : ((List.range m.verts.length).filter (inAt m.verts (keepPred μ .IN))).contains (attach m.verts c) = true := by
        rw [List.contains_iff_mem, List.mem_filter]
        exact ⟨hr', hin⟩
      have h2 : ((List.range m.verts.length).filter (inAt m.verts (keepPred μ .OUT))).contains (attach m.verts c) = false := by
        apply Bool.eq_false_iff.mpr; intro hc
        rw [List.contains_iff_mem, List.mem_filter, e, hin] at hc
        exact absurd hc.2 (by simp)
      simp only [h1, h2, Bool.not_true]
  rw [this, ← List.map_append]
  exact (List.filter_append_perm _ _).map _

/-- two triangles far apart, one inside, one outside -/
def exMesh : Mesh :=
  { verts := [⟨1, 1, 1⟩, ⟨3, 1, 1⟩, ⟨1, 3, 1⟩, ⟨21, 1, 1⟩, ⟨23, 1, 1⟩, ⟨21, 3, 1⟩],
    faces := [⟨0, 1, 2⟩, ⟨3, 4, 5⟩], conns := [⟨100, ⟨1, 1, 3⟩⟩, ⟨101, ⟨23, 1, 3⟩⟩] }
def exCube : Solid := unionOf [⟨⟨0, 0, 0⟩, ⟨2, 2, 2⟩⟩]

example : FacesValid exMesh ∧ Referenced exMesh ∧ NoStraddle (mem exCube) exMesh := by
  refine ⟨?_, ?_, ?_⟩
  · intro f hf; revert f; decide
  · intro i hi
    have : i ∈ List.range 6 := List.mem_range.mpr hi
    revert i; decide
  · intro f hf; revert f; decide
example : (inVolumeMesh (mem exCube) .IN exMesh).kept = [0, 1, 2] ∧ (inVolumeMesh (mem exCube) .OUT exMesh).kept = [3, 4, 5]
    ∧ (inVolumeMesh (mem exCube) .IN exMesh).conns = [(100, 0)] ∧ (inVolumeMesh (mem exCube) .OUT exMesh).conns = [(101, 1)] := by
  decide

/-- **Counter-example to the full statement (open finding).**  One triangle with one vertex inside the cube and two
outside: `IN` keeps no vertex, `OUT` keeps no vertex either (its only face straddles) — vertices 0 … 2 are in neither part,
and so is the connector on vertex 0 (it is dropped together with its vertex; no stale `vertex_id` is written any more). -/
def straddleMesh : Mesh :=
  { verts := [⟨1, 1, 1⟩, ⟨21, 1, 1⟩, ⟨21, 3, 1⟩], faces := [⟨0, 1, 2⟩], conns := [⟨100, ⟨1, 1, 3⟩⟩] }
theorem mesh_straddling_face_loses_vertices :
    ¬ NoStraddle (mem exCube) straddleMesh
    ∧ (inVolumeMesh (mem exCube) .IN straddleMesh).subset = [0] ∧ (inVolumeMesh (mem exCube) .OUT straddleMesh).subset = [1, 2]
    ∧ (inVolumeMesh (mem exCube) .IN straddleMesh).kept = [] ∧ (inVolumeMesh (mem exCube) .OUT straddleMesh).kept = []
    ∧ (inVolumeMesh (mem exCube) .IN straddleMesh).conns = [] ∧ (inVolumeMesh (mem exCube) .OUT straddleMesh).conns = [] := by
  refine ⟨?_, by decide, by decide, by decide, by decide, by decide, by decide⟩
  intro h
  have := h ⟨0, 1, 2⟩ (by decide)
  revert this; decide

/-! ## 3. several volumes are answered independently -/

/-- **volumes_independent.** For *any* single-volume answer `f` (mask of points, pruned neuron, pruned neuron list), any
number of volumes with distinct names, in any order: the result has exactly the given names in the given order and
under each name exactly the answer the volume would get on its own. -/
theorem volumes_independent {σ β : Type} (f : σ → β) (vols : List (String × σ)) (h : (vols.map (·.1)).Nodup) :
    inVolumeDict f vols = vols.map (fun kv => (kv.1, f kv.2))
    ∧ (∀ k S, (k, S) ∈ vols → dget (inVolumeDict f vols) k = some (f S))
    ∧ (∀ k, k ∉ vols.map (·.1) → dget (inVolumeDict f vols) k = none) := by
  have e := inVolumeDict_eq_map f vols h
  refine ⟨e, ?_, ?_⟩
  · intro k S hm
    rw [e, dget_map, dget_of_mem vols h k S hm]; rfl
  · intro k hk
    rw [e, dget_map, dget_none_of_not_mem vols k hk]; rfl

/-- the answers do not depend on the order in which the volumes are passed -/
theorem volumes_order_irrelevant {σ β : Type} (f : σ → β) (vols vols' : List (String × σ))
    (h : (vols.map (·.1)).Nodup) (hp : vols.Perm vols') (k : String) :
    dget (inVolumeDict f vols) k = dget (inVolumeDict f vols') k := by
  have h' : (vols'.map (·.1)).Nodup := (hp.map _).nodup_iff.mp h
  by_cases hk : k ∈ vols.map (·.1)
  · obtain ⟨⟨k', S⟩, hm, rfl⟩ := List.mem_map.mp hk
    rw [(volumes_independent f vols h).2.1 k' S hm, (volumes_independent f vols' h').2.1 k' S (hp.mem_iff.mp hm)]
  · have hk' : k ∉ vols'.map (·.1) := fun hm => hk ((hp.map _).mem_iff.mpr hm)
    rw [(volumes_independent f vols h).2.2 k hk, (volumes_independent f vols' h').2.2 k hk']

/-- a *list* of volumes is keyed by `Volume.name`: distinct names ⇒ same as the dict; a duplicated name is refused
(navis raises `ValueError`) instead of silently overwriting an answer -/
theorem volumes_list {σ β : Type} (f : σ → β) (vols : List (String × σ)) :
    ((vols.map (·.1)).Nodup → inVolumeNamed f vols = some (vols.map fun kv => (kv.1, f kv.2)))
    ∧ (¬ (vols.map (·.1)).Nodup → inVolumeNamed f vols = none) := by
  constructor
  · intro h
    unfold inVolumeNamed
    rw [if_pos h, mkDict_eq_self vols h, inVolumeDict_eq_map f vols h]
  · intro h
    unfold inVolumeNamed
    rw [if_neg h]

example : ((([("a", exL), ("b", exBar), ("c", exCube)] : List (String × Solid)).map (·.1))).Nodup := by decide

/-- **`intersection_matrix`**: the row of volume `k` holds, per neuron, the attribute of that neuron pruned to that
volume alone. -/
theorem intersection_matrix_cell {σ β : Type} (inside : σ → Inside) (attr : Tree → β) (mode : Mode)
    (vols : List (String × σ)) (h : (vols.map (·.1)).Nodup) (ts : List Tree) (k : String) (S : σ)
    (hm : (k, S) ∈ vols) :
    dget (intersectionMatrix inside attr mode vols ts) k
      = some (ts.map fun t => attr (inVolumeTree (inside S) mode t)) := by
  unfold intersectionMatrix
  rw [(volumes_independent (fun v => inVolumeList (inside v) mode ts) vols h).1, List.map_map]
  have : ((fun kv : String × List Tree => (kv.1, kv.2.map attr)) ∘ fun kv : String × σ =>
      (kv.1, inVolumeList (inside kv.2) mode ts))
      = fun kv => (kv.1, (fun v => (inVolumeList (inside v) mode ts).map attr) kv.2) := rfl
  rw [this]
  refine (dget_map (fun v => (inVolumeList (inside v) mode ts).map attr) vols k).trans ?_
  rw [dget_of_mem vols h k S hm]
  simp [inVolumeList, List.map_map, Function.comp_def]

/-! ## 4. `snap` returns the nearest row and its distance -/

/-- **snap_is_nearest.** Whatever `snap` returns — row `k`, squared distance `m` — `k` is a row of the data, `m` is the
squared distance from `p` to that row, no row is nearer, and every earlier row is strictly farther. -/
theorem snap_is_nearest (data : List P3) (p : P3) (k : Nat) (m : Int) (h : snapIdx data p = some (k, m)) :
    ∃ q, data[k]? = some q ∧ d2 p q = m ∧ (∀ r ∈ data, d2 p q ≤ d2 p r)
      ∧ ∀ j r, j < k → data[j]? = some r → d2 p q < d2 p r := by
  obtain ⟨q, hq, hd, hmin, hfirst⟩ := snapIdx_spec data p k m h
  subst hd
  exact ⟨q, hq, rfl, hmin, hfirst⟩

/-- `snap` answers whenever there is data. -/
theorem snap_total (data : List P3) (p : P3) (h : data ≠ []) : ∃ k m, snapIdx data p = some (k, m) :=
  snapIdx_isSome data p h

/-- **Uniqueness.** If row `j` is strictly nearer than every other row, `snap` returns `j` and its distance — so every
correct nearest-neighbour search (the kd-tree) must give the same answer, whatever its tie rule. -/
theorem snap_unique_nearest (data : List P3) (p : P3) (j : Nat) (q : P3) (hq : data[j]? = some q)
    (hs : ∀ i r, i ≠ j → data[i]? = some r → d2 p q < d2 p r) : snapIdx data p = some (j, d2 p q) :=
  snapIdx_of_strict data p j q hq hs

/-- **`TreeNeuron.snap` returns the id, not the row.** The returned id is the `node_id` of a nearest node. -/
theorem snap_returns_id_of_nearest (t : Tree) (p : P3) (i d : Int) (h : snapTree t p = some (i, d)) :
    ∃ v ∈ t.nodes, v.id = i ∧ d2 p v.pos = d ∧ ∀ w ∈ t.nodes, d ≤ d2 p w.pos := by
  unfold snapTree snapId at h
  split at h
  · cases h
  · rename_i ix dd hs
    injection h with h; injection h with h1 h2
    obtain ⟨q, hq, hd, hmin, _⟩ := snapIdx_spec _ p ix dd hs
    rw [List.getElem?_map] at hq
    cases hv : t.nodes[ix]? with
    | none => rw [hv] at hq; cases hq
    | some v =>
      rw [hv] at hq
      simp only [Option.map_some, Option.some.injEq] at hq
      refine ⟨v, List.mem_of_getElem? hv, ?_, ?_, ?_⟩
      · rw [← h1]
        simp [Tree.ids, List.getD_eq_getElem?_getD, List.getElem?_map, hv]
      · rw [← h2, ← hd, hq]
      · intro w hw
        rw [← h2]
        exact hmin _ (List.mem_map_of_mem hw)

/-- Snapping a node's own position returns distance 0 (and, positions being distinct, that node). -/
theorem snap_self (data : List P3) (j : Nat) (q : P3) (hq : data[j]? = some q)
    (hd : ∀ i r, i ≠ j → data[i]? = some r → r ≠ q) : snapIdx data q = some (j, 0) := by
  have := snapIdx_of_strict data q j q hq (by
    intro i r hi hr
    rw [d2_self]
    have h0 := d2_nonneg q r
    rcases Int.lt_or_eq_of_le h0 with h | h
    · exact h
    · exact absurd (d2_eq_zero q r h.symm).symm (hd i r hi hr))
  rw [d2_self] at this
  exact this

/-- sparse shuffled ids: the nearest node to (6,12,0) is the third row, id 12, at distance 4 -/
example : snapTree ⟨[⟨7, ⟨0, 0, 0⟩⟩, ⟨3, ⟨3, 4, 0⟩⟩, ⟨12, ⟨6, 8, 0⟩⟩], []⟩ ⟨6, 12, 0⟩ = some (12, 16) := by decide

/-! ## 5. the run-time checkers the driver evaluates on navis' own output are sound -/

theorem checkPartition_sound (all a b : List Int) :
    checkPartition all a b = true ↔ (a ++ b).Perm all ∧ ∀ i ∈ a, i ∉ b := by
  unfold checkPartition
  rw [Bool.and_eq_true, List.isPerm_iff, List.all_eq_true]
  simp

theorem checkOwnConns_sound (conns : List Conn) (keptNodes keptConns : List Int) :
    checkOwnConns conns keptNodes keptConns = true
      ↔ keptConns.Perm ((conns.filter fun c => c.node ∈ keptNodes).map (·.cid)) := by
  unfold checkOwnConns
  rw [List.isPerm_iff]
  have : (conns.filter fun c => keptNodes.contains c.node) = conns.filter fun c => decide (c.node ∈ keptNodes) := by
    apply List.filter_congr; intro c _; simp
  rw [this]

theorem checkNearest_sound (data : List P3) (p : P3) (ix : Nat) (dd : Int) :
    checkNearest data p ix dd = true ↔ ∃ q, data[ix]? = some q ∧ d2 p q = dd ∧ ∀ r ∈ data, dd ≤ d2 p r := by
  unfold checkNearest
  cases h : data[ix]? with
  | none => simp
  | some q => simp [List.all_eq_true]

theorem checkMask_sound (μ : Inside) (pts : List P3) (mask : List Bool) :
    checkMask μ pts mask = true ↔ mask = pts.map μ := by
  simp [checkMask, inVolumePoints]

/-! ## 6. the ray-casting structure cached on the Volume: an answer is computed from the *current* geometry

Vocabulary (`Model/VolCache.lean`): a `Spec` lists, per back-end, the plain attribute of the Volume object in which the
acceleration structure is kept between calls (if any), per in-place mutator the attributes it deletes, and what pickling
drops.  `exec s st ops` runs a history (queries, in-place mutators, copy-like derivations, pickle round trips — on any number
of Volume objects) and returns, per query, the geometry the answer was computed from (`used`) and the geometry of the queried
object at that moment (`current`).  `Gen.VolCache.spec` is re-extracted from the navis source on every run. -/

open Navis.VolCache in
/-- **cached_structure_answers_current.**  For every spec, every set `A` of attribute names, every store whose `A`-entries
are fresh and every history in which each queried back-end keeps its structure (if at all) under a name in `A` and each
in-place mutator deletes all of `A`: *every* answer is computed from the current geometry of the queried object — whatever
the geometries, ray counts, objects, copies and pickles involved. -/
theorem cached_structure_answers_current {G : Type} (s : Spec) (A : List String) (st : Store G) (ops : List (Op G))
    (h0 : StoreFresh A st)
    (hq : ∀ i b r, Op.query i b r ∈ ops → ∀ a, s.attrOf b = some a → a ∈ A)
    (hm : ∀ i m f, Op.mutate i m f ∈ ops → ∀ a ∈ A, a ∈ s.clearsOf m) :
    ∀ ans ∈ (exec s st ops).2, ans.used = ans.current := by
  refine (exec_spec s A ops st h0 ?_).2
  intro op hop
  cases op with
  | query i b r => exact hq i b r hop
  | mutate i m f => exact hm i m f hop
  | copy i f => trivial
  | pickle i => trivial

open Navis.VolCache in
/-- **Back-ends without a cache are always current** — from *any* store (even one carrying stale structures of other
back-ends) and under *any* mutators, listed or not. -/
theorem uncached_backends_always_current {G : Type} (s : Spec) (st : Store G) (ops : List (Op G))
    (hq : ∀ i b r, Op.query i b r ∈ ops → s.attrOf b = none) :
    ∀ ans ∈ (exec s st ops).2, ans.used = ans.current := by
  refine cached_structure_answers_current s [] st ops ?_ ?_ ?_
  · intro o _ e _ he; cases he
  · intro i b r h a ha; rw [hq i b r h] at ha; cases ha
  · intro i m f _ a ha; cases ha

open Navis.VolCache in
/-- **Covered back-ends are always current.**  If the decidable condition `coversB s bs` holds (every listed mutator deletes
the cache attribute of every back-end in `bs`), then every history that starts from fresh Volume objects, queries only
back-ends in `bs` and uses only listed mutators answers every query from the current geometry. -/
theorem covered_backends_always_current {G : Type} (s : Spec) (bs : List String) (hc : coversB s bs = true)
    (gs : List G) (ops : List (Op G))
    (hq : ∀ i b r, Op.query i b r ∈ ops → b ∈ bs)
    (hm : ∀ i m f, Op.mutate i m f ∈ ops → m ∈ s.mutatorNames) :
    ∀ ans ∈ (exec s (gs.map Obj.fresh) ops).2, ans.used = ans.current := by
  refine cached_structure_answers_current s (bs.filterMap s.attrOf) _ ops ?_ ?_ ?_
  · intro o ho
    obtain ⟨g, _, rfl⟩ := List.mem_map.mp ho
    exact freshFor_fresh _ g
  · intro i b r h a ha
    exact List.mem_filterMap.mpr ⟨b, hq i b r h, ha⟩
  · intro i m f h a ha
    obtain ⟨b, hb, hab⟩ := List.mem_filterMap.mp ha
    exact coversB_spec s bs hc b hb a hab m (hm i m f h)

open Navis.VolCache in
/-- **The converse: an uncovered pair has a stale history.**  If back-end `be` keeps its structure under attribute `a` and
mutator `m` does not delete `a`, then *query → `m` → query* on one fresh Volume answers the second query from the OLD
geometry `g` although the object now has geometry `f g` — for every geometry, every change `f` and every ray count.
(So freedom from stale answers is *equivalent* to coverage; with `vol.vertices *= k` among the mutators — an array write no
method can intercept — no unconditional cache on the object is sound.) -/
theorem stale_history_of_uncovered {G : Type} (s : Spec) (be : Backend) (a m : String) (r : Nat) (g : G) (f : G → G)
    (hb : s.backend be.name = some be) (hattr : be.attr = some a) (hm : a ∉ s.clearsOf m) :
    (exec s [Obj.fresh g] [.query 0 be.name r, .mutate 0 m f, .query 0 be.name r]).2 = [⟨g, g⟩, ⟨g, f g⟩] :=
  stale_history s be a m r g f hb hattr hm

/-! ### the facts extracted from the current source -/

open Navis.VolCache in
/-- **Tie to the source (translator).**  In the navis source as it is now, every listed in-place mutator of `Volume` (own and
inherited, including the array write `vol.vertices *= k`) deletes every attribute under which the `ncollpyde` and the `scipy`
back-end keep a structure on the Volume object.  (Today: they keep none.  Caching the `ncollpyde` structure on the volume
without keying it by the mesh makes this `decide` fail.) -/
theorem ncollpyde_scipy_cache_covered : coversB Navis.Gen.VolCache.spec ["ncollpyde", "scipy"] = true := by decide

/-- every attribute a back-end stores unconditionally on the volume is represented in the spec -/
theorem no_unmodelled_cache_attrs : Navis.Gen.VolCache.extraAttrs = [] := by decide

open Navis.VolCache in
/-- **ncollpyde / scipy answer for the current mesh, for every history** of queries (any ray counts), listed in-place
mutators, copies, `vol * k`, `resize`, pickling, on any number of Volume objects created fresh. -/
theorem ncollpyde_scipy_answers_current {G : Type} (gs : List G) (ops : List (Op G))
    (hq : ∀ i b r, Op.query i b r ∈ ops → b ∈ ["ncollpyde", "scipy"])
    (hm : ∀ i m f, Op.mutate i m f ∈ ops → m ∈ Navis.Gen.VolCache.spec.mutatorNames) :
    ∀ ans ∈ (exec Navis.Gen.VolCache.spec (gs.map Obj.fresh) ops).2, ans.used = ans.current :=
  covered_backends_always_current _ _ ncollpyde_scipy_cache_covered gs ops hq hm

/-- **Tie to the source (translator), all back-ends.**  No back-end of the current source re-uses a structure stored on the
Volume object without looking at the current mesh in a way some listed mutator could outdate: every listed in-place mutator
(own and inherited, including the array write `vol.vertices *= k`) deletes every such attribute.  (Today: there is none — the
`pyoctree` octree is compared with the current mesh before it is re-used, see `Gen.VolCache.keyedAttrs`.) -/
theorem all_backends_cache_covered :
    Navis.VolCache.coversB Navis.Gen.VolCache.spec (Navis.Gen.VolCache.spec.backends.map (·.name)) = true := by decide

open Navis.VolCache in
/-- **Every back-end answers for the current mesh, for every history** (the full statement; before fix d29361d only
`all_backends_current_under_clearing_mutators` held for `pyoctree`): queries by any back-end of the source and any ray count,
listed in-place mutators, copies, `vol * k`, `resize`, pickling, on any number of Volume objects created fresh. -/
theorem every_backend_answers_current {G : Type} (gs : List G) (ops : List (Op G))
    (hq : ∀ i b r, Op.query i b r ∈ ops → b ∈ Navis.Gen.VolCache.spec.backends.map (·.name))
    (hm : ∀ i m f, Op.mutate i m f ∈ ops → m ∈ Navis.Gen.VolCache.spec.mutatorNames) :
    ∀ ans ∈ (exec Navis.Gen.VolCache.spec (gs.map Obj.fresh) ops).2, ans.used = ans.current :=
  covered_backends_always_current _ _ all_backends_cache_covered gs ops hq hm

example : Navis.Gen.VolCache.spec.backends.map (·.name) = ["ncollpyde", "pyoctree", "scipy"] := by decide

/-- the mutators the histories of the harness use are all listed -/
example : ∀ m ∈ ["apply_translation", "apply_transform", "apply_scale", "vertices.setter", "faces.setter", "verts.setter",
    "vertices[in-place-array-op]", "resize"], m ∈ Navis.Gen.VolCache.spec.mutatorNames := by decide

open Navis.VolCache in
/-- **All back-ends under clearing mutators** (for every spec): histories whose in-place mutators all belong to
`clearingMutators s` (they delete the cache attribute of every back-end that keeps one unconditionally) answer every query —
by any back-end — from the current geometry.  (Until fix d29361d this was all that held for the `pyoctree` back-end of the
source: its octree was re-used by attribute name alone and only `Volume.resize` deleted it — `pyoctree_style_cache_goes_stale`.
Since the fix the octree is re-used only after comparing the mesh it was built from with the current one, and the full
statement `every_backend_answers_current` holds.) -/
theorem all_backends_current_under_clearing_mutators {G : Type} (s : Spec) (gs : List G) (ops : List (Op G))
    (hm : ∀ i m f, Op.mutate i m f ∈ ops → m ∈ clearingMutators s) :
    ∀ ans ∈ (exec s (gs.map Obj.fresh) ops).2, ans.used = ans.current := by
  refine cached_structure_answers_current s (s.backends.filterMap (·.attr)) _ ops ?_ ?_ ?_
  · intro o ho
    obtain ⟨g, _, rfl⟩ := List.mem_map.mp ho
    exact freshFor_fresh _ g
  · intro i b r _ a ha
    exact attrOf_mem_allAttrs s b a ha
  · intro i m f h a ha
    exact mem_clearingMutators s m (hm i m f h) a ha

/-- **Tie to the source:** `Volume.resize` — the one in-place mutator navis itself defines — deletes the cache attribute of
every back-end (dropping the `delattr` in `resize`, or renaming the attribute on one side only, breaks this). -/
theorem volume_resize_clears_every_cache : "resize" ∈ Navis.VolCache.clearingMutators Navis.Gen.VolCache.spec := by decide

open Navis.VolCache in
/-- the cache protocol of the source BEFORE fix d29361d, as a literal (historical; the generated spec no longer has a
`pyoctree` attribute re-used unconditionally) -/
def pyocSpec : Spec :=
  { backends := [⟨"ncollpyde", none, false⟩, ⟨"pyoctree", some "pyoctree", false⟩, ⟨"scipy", none, false⟩],
    mutators := [⟨"resize", ["pyoctree"]⟩, ⟨"apply_translation", []⟩], pickleDrops := [] }

open Navis.VolCache in
/-- **Historical counter-example (the defect repaired by fix d29361d; what an octree re-used by attribute name alone does).**
With the `pyoctree` back-end of `pyocSpec`: query, `apply_translation`
(geometry 0 ↦ 1), query again — the second answer is computed from geometry 0; after `resize` (1 ↦ 2) the answer is current
again; a pickled copy carries the structure along, a `copy()` does not. -/
theorem pyoctree_style_cache_goes_stale :
    (exec pyocSpec [Obj.fresh (0 : Nat)]
      [.query 0 "pyoctree" 1, .mutate 0 "apply_translation" (· + 1), .query 0 "pyoctree" 1,
       .pickle 0, .mutate 1 "apply_translation" (· + 10), .query 1 "pyoctree" 1,
       .copy 0 id, .query 2 "pyoctree" 1,
       .mutate 0 "resize" (· + 1), .query 0 "pyoctree" 1, .query 0 "ncollpyde" 3]).2.map (fun a => (a.used, a.current))
      = [(0, 0), (0, 1), (0, 11), (1, 1), (2, 2), (2, 2)] := by decide

/-- … while the same history is answered correctly throughout by a back-end without a cache -/
example :
    (Navis.VolCache.exec pyocSpec [Navis.VolCache.Obj.fresh (0 : Nat)]
      [.query 0 "ncollpyde" 3, .mutate 0 "apply_translation" (· + 1), .query 0 "ncollpyde" 3,
       .mutate 0 "vertices[in-place-array-op]" (· * 2), .query 0 "ncollpyde" 1]).2.map (fun a => (a.used, a.current))
      = [(0, 0), (1, 1), (2, 2)] := by decide

/-! ## 7. voxel neurons, back-end selection, ray counts, duplicate names in `intersection_matrix` -/

/-- **in_out_partition (voxel neurons).**  For every inside test and every voxel table: `IN` keeps exactly the voxels whose
centre (`voxel · units + units/2 + offset`) is inside, `OUT` exactly the others, in table order; together they are a
permutation of the table.  No hypothesis. -/
theorem vox_in_out_partition (μ : Inside) (v : Vox) :
    (inVolumeVox μ .IN v).cells = v.cells.filter (fun c => μ (v.centre2 c))
    ∧ (inVolumeVox μ .OUT v).cells = v.cells.filter (fun c => !μ (v.centre2 c))
    ∧ ((inVolumeVox μ .IN v).cells ++ (inVolumeVox μ .OUT v).cells).Perm v.cells := by
  have hI := inVolumeVox_cells μ .IN v
  have hO := inVolumeVox_cells μ .OUT v
  refine ⟨hI, hO, ?_⟩
  rw [hI, hO]
  exact List.filter_append_perm _ _

/-- **Each voxel keeps its own value.**  The kept `(voxel, value)` rows are exactly the rows of the input whose voxel is
kept — the two parallel arrays `x.voxels[in_v]`, `x.values[in_v]` stay aligned. -/
theorem vox_values_travel (μ : Inside) (mode : Mode) (v : Vox) (h : v.values.length = v.cells.length) :
    (inVolumeVox μ mode v).cells.zip (inVolumeVox μ mode v).values
      = (v.cells.zip v.values).filter fun cv => keepPred μ mode (v.centre2 cv.1) :=
  inVolumeVox_rows μ mode v h

/-- voxel centres are half-integer points — never on the surface of a box complex — whenever the voxel size is odd -/
theorem vox_centres_off_surface (v : Vox) (c : P3) (b : Box)
    (hu : v.units.x % 2 = 1 ∧ v.units.y % 2 = 1 ∧ v.units.z % 2 = 1) :
    inBox b (v.centre2 c) = inBoxClosed b (v.centre2 c) :=
  inBox_eq_inBoxClosed b _ (half_centre2 v c hu)

def exVox : Vox := ⟨[⟨0, 0, 0⟩, ⟨1, 0, 0⟩, ⟨5, 0, 0⟩, ⟨0, 1, 1⟩, ⟨-3, 0, 0⟩], [10, 20, 30, 40, 50], ⟨1, 1, 1⟩, ⟨0, 0, 0⟩⟩
example : exVox.values.length = exVox.cells.length := by decide
example : inVolumeVox (mem exCube) .IN exVox = ⟨[⟨0, 0, 0⟩, ⟨1, 0, 0⟩, ⟨0, 1, 1⟩], [10, 20, 40]⟩
    ∧ inVolumeVox (mem exCube) .OUT exVox = ⟨[⟨5, 0, 0⟩, ⟨-3, 0, 0⟩], [30, 50]⟩ := by decide

theorem checkVoxKept_sound (μ : Inside) (mode : Mode) (v : Vox) (kept : List (P3 × Int)) :
    checkVoxKept μ mode v kept = true
      ↔ kept = (v.cells.zip v.values).filter fun cv => keepPred μ mode (v.centre2 cv.1) := by
  unfold checkVoxKept
  cases mode <;> simp [keepPred]

/-- **Back-end selection.**  `in_volume` uses the first requested back-end that is available (`scipy` always is): everything
requested before it is unavailable; nothing is selected (navis raises `ValueError`) iff nothing requested is available. -/
theorem backend_selection_first_available (av : String → Bool) (bs : List String) :
    (∀ b, selectBackend av bs = some b →
      ∃ pre post, bs = pre ++ b :: post ∧ (b = "scipy" ∨ av b = true) ∧ ∀ c ∈ pre, c ≠ "scipy" ∧ av c = false)
    ∧ (selectBackend av bs = none ↔ ∀ c ∈ bs, c ≠ "scipy" ∧ av c = false) :=
  ⟨fun b h => selectBackend_spec av bs b h, selectBackend_none av bs⟩

/-- the default request `('ncollpyde', 'pyoctree')` with only ncollpyde installed, and a pyoctree-first request -/
example : selectBackend (· == "ncollpyde") ["ncollpyde", "pyoctree"] = some "ncollpyde"
    ∧ selectBackend (· == "ncollpyde") ["pyoctree", "ncollpyde"] = some "ncollpyde"
    ∧ selectBackend (· == "ncollpyde") ["pyoctree", "scipy"] = some "scipy"
    ∧ selectBackend (· == "ncollpyde") ["pyoctree"] = none := by decide

/-- **Ray counts.**  `None` means the back-end's default, a positive count is used as given, anything else is refused — no
request is silently replaced by another count. -/
theorem rays_as_requested (d : Nat) :
    effRays d none = .ok d ∧ (∀ n : Nat, 0 < n → effRays d (some (n : Int)) = .ok n)
    ∧ (∀ n : Int, n ≤ 0 → effRays d (some n) = .valueError) := by
  refine ⟨rfl, ?_, ?_⟩
  · intro n hn
    simp [effRays]
    omega
  · intro n hn
    simp [effRays, hn]

/-- **`intersection_matrix` with a *list* of volumes.**  Distinct names: exactly the matrix of the dict with those names (every
volume answered under its own name, `intersection_matrix_cell`); a duplicated name is refused (navis raises `ValueError`, as
`in_volume` does for a list — since fix 5cc1939) instead of silently dropping a volume. -/
theorem intersection_matrix_list {σ β : Type} (inside : σ → Inside) (attr : Tree → β) (mode : Mode)
    (vols : List (String × σ)) (ts : List Tree) :
    ((vols.map (·.1)).Nodup →
      intersectionMatrixList inside attr mode vols ts = some (intersectionMatrix inside attr mode vols ts)
      ∧ ∀ k S, (k, S) ∈ vols → dget (intersectionMatrix inside attr mode vols ts) k
          = some (ts.map fun t => attr (inVolumeTree (inside S) mode t)))
    ∧ (¬ (vols.map (·.1)).Nodup → intersectionMatrixList inside attr mode vols ts = none) := by
  constructor
  · intro h
    refine ⟨?_, fun k S hm => intersection_matrix_cell inside attr mode vols h ts k S hm⟩
    unfold intersectionMatrixList
    rw [if_pos h, mkDict_eq_self vols h]
  · intro h
    unfold intersectionMatrixList
    rw [if_neg h]

/-- **Historical (the defect repaired by fix 5cc1939): what building the dict without the check did.**  Of two volumes with
the same name only the last one was answered — in the position of the first; the list form now returns `none` here. -/
theorem intersection_matrix_list_drops_duplicate_name :
    intersectionMatrix mem (fun t => t.nodes.length) .IN
        (mkDict [("LH", exCube), ("MB", exBar), ("LH", exL)]) [exTree]
      = [("LH", [3]), ("MB", [2])]
    ∧ (inVolumeTree (mem exCube) .IN exTree).nodes.length = 4 := by decide

/-! ## 8. the shape of `in_volume` in the current source is the shape of the model

`Gen.InVolume.shape` is re-extracted on every run (tri-state facts: `none` = pattern not recognised, nothing claimed).  The
driver evaluates `inVolumeTreeAs Gen.InVolume.shape` etc. — the model *as the source is shaped* — and the theorems below say
that for the current source this is the model the sections above are about. -/

/-- **Tie to the source (translator).**  Nothing the translator recognises in `in_volume` / `prune_by_volume` deviates from
the model: the `OUT` inversion stands before the `if not all(in_v)` short-circuit and is triggered by `'OUT'`, the mask is
computed with `mode='IN'`, the loops over volumes / neurons and `prune_by_volume` forward `mode`, skeletons are subset by node
id, and the default mode is `'IN'`. -/
theorem source_shape_ok : Navis.Gen.InVolume.shape.ok = true := by decide

/-- … hence the as-extracted functions *are* the model functions of sections 2–3, for every input. -/
theorem source_shape_is_model (μ : Inside) (mode : Mode) :
    (∀ t, inVolumeTreeAs Navis.Gen.InVolume.shape μ mode t = inVolumeTree μ mode t)
    ∧ (∀ t, pruneByVolumeAs Navis.Gen.InVolume.shape μ mode t = pruneByVolume μ mode t)
    ∧ (∀ ts, inVolumeListAs Navis.Gen.InVolume.shape μ mode ts = inVolumeList μ mode ts)
    ∧ Navis.Gen.InVolume.shape.dictMode mode = mode :=
  ⟨fun t => inVolumeTreeAs_eq _ source_shape_ok μ mode t, fun t => pruneByVolumeAs_eq _ source_shape_ok μ mode t,
   fun ts => inVolumeListAs_eq _ source_shape_ok μ mode ts, dictMode_eq _ source_shape_ok mode⟩

/-- **in_out_partition for the source as it is shaped now** (same statement as `in_out_partition`, about the as-extracted
function). -/
theorem in_out_partition_source (μ : Inside) (t : Tree) (hn : t.ids.Nodup) :
    ((inVolumeTreeAs Navis.Gen.InVolume.shape μ .IN t).nodes
        ++ (inVolumeTreeAs Navis.Gen.InVolume.shape μ .OUT t).nodes).Perm t.nodes
    ∧ (∀ v, v ∈ (inVolumeTreeAs Navis.Gen.InVolume.shape μ .IN t).nodes ↔ v ∈ t.nodes ∧ μ v.pos = true)
    ∧ (∀ v, v ∈ (inVolumeTreeAs Navis.Gen.InVolume.shape μ .OUT t).nodes ↔ v ∈ t.nodes ∧ μ v.pos = false) := by
  rw [inVolumeTreeAs_eq _ source_shape_ok, inVolumeTreeAs_eq _ source_shape_ok]
  obtain ⟨h1, _, _, h4, h5⟩ := in_out_partition μ t hn
  exact ⟨h1, h4, h5⟩

/-- **Why the order matters.**  With the short-circuit evaluated *before* the inversion (the `OUT` inversion moved inside
`if not all(in_v)`), a skeleton lying completely inside the volume is returned unchanged for `mode='OUT'`: `IN` and `OUT`
both keep everything, they are not complementary. -/
theorem shortcut_before_inversion_breaks_partition :
    let s : Shape := { Shape.model with invertBeforeShortcut := some false }
    let t : Tree := { nodes := [⟨1, ⟨1, 1, 1⟩⟩, ⟨2, ⟨3, 1, 1⟩⟩], conns := [⟨100, 2⟩] }
    s.ok = false ∧ inVolumeTreeAs s (mem exCube) .IN t = t ∧ inVolumeTreeAs s (mem exCube) .OUT t = t
      ∧ inVolumeTree (mem exCube) .OUT t = ⟨[], []⟩ := by decide

/-- … and why skeletons must be subset by node id: by row position a sparse-id skeleton keeps the wrong rows -/
theorem subset_by_position_keeps_wrong_nodes :
    let s : Shape := { Shape.model with treeSubsetById := some false }
    (inVolumeTreeAs s (mem exL) .IN exTree).ids = [3] ∧ (inVolumeTree (mem exL) .IN exTree).ids = [70, 3, 5] := by decide

/-! ## 9. `in_volume_pyoc`: bounding box and ray consensus -/

/-- **n_rays consensus.**  The loop `is_out[~is_out] = is_even` over any number of rays answers, for every point: inside the
bounding box **and** every ray counted an odd number of crossings. -/
theorem pyoc_consensus {α : Type} (inBBox : α → Bool) (rays : List (α → Bool)) (pts : List α) :
    pyocLoop inBBox rays pts = pts.map fun p => inBBox p && rays.all fun r => r p :=
  pyocLoop_eq inBBox rays pts

/-- **Any number of exact rays is exact.**  If the solid lies in the bounding box and every ray is right about every point of
the box, the answer is the exact mask — for 1, 2, 3, … rays alike. -/
theorem pyoc_exact_of_exact_rays {α : Type} (μ inBBox : α → Bool) (rays : List (α → Bool)) (pts : List α)
    (hne : rays ≠ []) (hbb : ∀ p, μ p = true → inBBox p = true)
    (hr : ∀ r ∈ rays, ∀ p, inBBox p = true → r p = μ p) :
    pyocLoop inBBox rays pts = pts.map μ := by
  rw [pyoc_consensus]
  apply List.map_congr_left
  intro p _
  cases hb : inBBox p with
  | false =>
    cases hμ : μ p with
    | false => rfl
    | true => rw [hbb p hμ] at hb; cases hb
  | true =>
    have : (rays.all fun r => r p) = μ p := by
      cases rays with
      | nil => exact absurd rfl hne
      | cons r t =>
        have h1 : ∀ r' ∈ r :: t, r' p = μ p := fun r' h' => hr r' h' p hb
        cases hμ : μ p with
        | true =>
          apply List.all_eq_true.mpr
          intro r' h'; rw [h1 r' h', hμ]
        | false =>
          have := h1 r (List.mem_cons_self ..)
          simp [List.all_cons, this, hμ]
    simp [this]

/-- **More rays never add points**: a point reported inside with `rays ++ more` is reported inside with `rays`. -/
theorem pyoc_more_rays_never_add_points {α : Type} (inBBox : α → Bool) (rays more : List (α → Bool)) (pts : List α)
    (i : Nat) (h : (pyocLoop inBBox (rays ++ more) pts)[i]? = some true) :
    (pyocLoop inBBox rays pts)[i]? = some true := by
  rw [pyoc_consensus] at h ⊢
  rw [List.getElem?_map] at h ⊢
  cases hp : pts[i]? with
  | none => rw [hp] at h; cases h
  | some p =>
    rw [hp] at h
    simp only [Option.map_some, Option.some.injEq, Bool.and_eq_true, List.all_append] at h ⊢
    exact ⟨h.1, h.2.1⟩

example : pyocLoop (fun i : Nat => i < 3) [fun i => i != 1, fun i => i != 2] [0, 1, 2, 3] = [true, false, false, false] := by
  decide

/-! ## 10. `snap` with non-integer queries: the query must not be truncated

Queries in tenths (`q10 = 10·q`), integer data rows, `d2 q10 (scale10 v)` = 100 × squared Euclidean distance.  `snapQ c isInt`
is `snap` with the query cast the way the source casts it (`c`, re-extracted into `Gen.SnapCast`). -/

/-- **A query that is not cast to an integer dtype is answered exactly** — for every data table and every (decimal) query:
the returned row exists, the returned value is 100 × its squared distance to the TRUE query, and no row is nearer.  Holds when
the cast is `float64` / not the data's dtype, and — whatever the cast — when the data are floats. -/
theorem snap_query_not_truncated (c : QCast) (dataIsInt : Bool) (h : c ≠ .data ∨ dataIsInt = false) (data : List P3)
    (q10 : P3) (k : Nat) (m : Int) (hs : snapQ c dataIsInt data q10 = some (k, m)) :
    ∃ v, data[k]? = some v ∧ m = d2 q10 (scale10 v) ∧ ∀ r ∈ data, d2 q10 (scale10 v) ≤ d2 q10 (scale10 r) :=
  snapQ_spec c dataIsInt h data q10 k m hs

/-- **Tie to the source (translator).**  `TreeNeuron.snap` and `Dotprops.snap` cast the query to `np.float64`, never to the dtype
of the node table / point array (casting to the table's dtype truncates every non-integer query on integer tables). -/
theorem tree_and_dotprops_queries_are_not_truncated :
    Navis.Gen.SnapCast.castOf "TreeNeuron" = .float64 ∧ Navis.Gen.SnapCast.castOf "Dotprops" = .float64 := by decide

/-- **Tie to the source, all three implementations** (since fix f2bf081 `MeshNeuron.snap` casts to `np.float64` as well; before, it
cast to `self.vertices.dtype` and truncated every non-integer query on integer vertex arrays). -/
theorem no_snap_truncates_its_query :
    ∀ cls ∈ ["TreeNeuron", "MeshNeuron", "Dotprops"], Navis.Gen.SnapCast.castOf cls = .float64 := by decide

/-- **snap is exact for skeletons, meshes and point clouds of every coordinate dtype** (one statement over the regenerated
table): whatever the dtype of the node table / vertex array / point array — integer or float — every decimal query is
answered by a row that exists, with 100 × its squared distance to the TRUE query, and no row is nearer. -/
theorem snap_exact_for_every_neuron_type_and_dtype (cls : String) (hc : cls ∈ ["TreeNeuron", "MeshNeuron", "Dotprops"])
    (dataIsInt : Bool) (data : List P3) (q10 : P3) (k : Nat) (m : Int)
    (hs : snapQ (Navis.Gen.SnapCast.castOf cls) dataIsInt data q10 = some (k, m)) :
    ∃ v, data[k]? = some v ∧ m = d2 q10 (scale10 v) ∧ ∀ r ∈ data, d2 q10 (scale10 v) ≤ d2 q10 (scale10 r) := by
  refine snap_query_not_truncated _ dataIsInt (Or.inl ?_) data q10 k m hs
  rw [no_snap_truncates_its_query cls hc]; decide

/-- … in particular skeletons and point clouds (the statement proved before the mesh repair, kept). -/
theorem tree_and_dotprops_snap_exact (cls : String) (hc : cls = "TreeNeuron" ∨ cls = "Dotprops") (dataIsInt : Bool)
    (data : List P3) (q10 : P3) (k : Nat) (m : Int)
    (hs : snapQ (Navis.Gen.SnapCast.castOf cls) dataIsInt data q10 = some (k, m)) :
    ∃ v, data[k]? = some v ∧ m = d2 q10 (scale10 v) ∧ ∀ r ∈ data, d2 q10 (scale10 v) ≤ d2 q10 (scale10 r) := by
  refine snap_exact_for_every_neuron_type_and_dtype cls ?_ dataIsInt data q10 k m hs
  rcases hc with rfl | rfl <;> decide

/-- **Mesh neurons** (full since fix f2bf081; was `mesh_snap_exact_on_float_vertices_partial`, proved for float vertices only while
`MeshNeuron.snap` cast the query to `self.vertices.dtype`): exact for every vertex dtype. -/
theorem mesh_snap_exact_on_every_vertex_dtype (dataIsInt : Bool) (data : List P3) (q10 : P3) (k : Nat) (m : Int)
    (hs : snapQ (Navis.Gen.SnapCast.castOf "MeshNeuron") dataIsInt data q10 = some (k, m)) :
    ∃ v, data[k]? = some v ∧ m = d2 q10 (scale10 v) ∧ ∀ r ∈ data, d2 q10 (scale10 v) ≤ d2 q10 (scale10 r) :=
  snap_exact_for_every_neuron_type_and_dtype "MeshNeuron" (by decide) dataIsInt data q10 k m hs

/-- **What truncation does** (cast to the data's integer dtype — historical for `MeshNeuron.snap`, repaired by fix f2bf081; this
is what seed-like regressions of any `snap` would do): rows at x = 0, 1, 2, 3 and the query (2.9, 0, 0) — the answer is
the row at x = 2 "at distance 0" instead of the row at x = 3 at distance 0.1; negative coordinates truncate toward zero. -/
theorem truncated_query_snaps_to_wrong_node :
    let data : List P3 := [⟨0, 0, 0⟩, ⟨1, 0, 0⟩, ⟨2, 0, 0⟩, ⟨3, 0, 0⟩]
    snapQ .data true data ⟨29, 0, 0⟩ = some (2, 0) ∧ snapQ .float64 true data ⟨29, 0, 0⟩ = some (3, 1)
      ∧ snapQ .data false data ⟨29, 0, 0⟩ = some (3, 1) ∧ castQuery .data true ⟨-29, 16, 5⟩ = ⟨-20, 10, 0⟩ := by decide

theorem checkNearestQ_sound (data : List P3) (q10 : P3) (ix : Nat) (num den : Int) :
    checkNearestQ data q10 ix num den = true ↔
      ∃ v, data[ix]? = some v ∧ (∀ r ∈ data, d2 q10 (scale10 v) ≤ d2 q10 (scale10 r)) ∧ 0 < den
        ∧ (100 * (num * num) - d2 q10 (scale10 v) * (den * den)).natAbs * 2 ^ 32
            ≤ ((d2 q10 (scale10 v) * 2 ^ 20 + 100 * 2 ^ 12) * (den * den)).natAbs := by
  unfold checkNearestQ
  cases h : data[ix]? with
  | none => simp
  | some v => simp [List.all_eq_true, and_assoc]

end Navis.Props.C18
