import NavisModel.Proofs.ResampleLemmas
import NavisModel.Proofs.ResampleGeomLemmas
import NavisModel.Proofs.ResampleRealLemmas
import NavisModel.Proofs.DownsampleLemmas
import NavisModel.Proofs.BranchingLemmas
import NavisModel.Props.C01
/-!
# C13 — down- and resampling preserve branching structure and geometry

**Downsampling** (`Forest.downsample`, the line-by-line model of `_downsample_treeneuron`; `f = none`
is `factor = inf`; `pres` = preserved nodes and somas).  `DsSpec t u f fix` is the property's clause list
for an output table `u`; `downsample_satisfies_spec` proves it for the model for every well-formed,
correctly labelled forest, every factor and every preserved set; `dsCheck_sound` shows that the executable
checker the driver evaluates on navis' own output decides that same clause list.

**Resampling** (`Resample.resampleStruct` for ids / parent links, `Resample.polyAt` for positions and
radius over `Rat`): anchors are kept, between the two anchors of every small segment the result is a
chain of fresh ids, every sampled point lies on the original cable, no new edge is longer than the arc it
replaces (so cable length does not increase), the result is a well-formed forest, and the remap of
soma / connectors / tags picks a nearest node.

All theorems quantify over every table / factor / resolution / count function; no bound on sizes.
-/
namespace Navis.Props.C13
open Navis.Forest Navis.Resample

/-! ## Downsampling -/

/-- Kept nodes are original nodes with unchanged ids and coordinates. -/
theorem downsample_subset_ids_coords (t : Table) (f : Option Nat) (pres : List Int) :
    ∀ m ∈ downsample t f pres, ∃ n ∈ t, n.id = m.id ∧ n.x = m.x ∧ n.y = m.y ∧ n.z = m.z :=
  downsample_subset t f pres

/-- Every fix point — labelled non-slab, or listed in `pres` (preserved nodes, somas) — survives. -/
theorem downsample_keeps_fixpoints (t : Table) (hw : WF t) (f : Option Nat) (pres : List Int) (n : Node)
    (hn : n ∈ t) (hfix : n.label ≠ .slab ∨ n.id ∈ pres) : n.id ∈ ids (downsample t f pres) :=
  Navis.Forest.downsample_keeps_fixpoints hw f pres hn hfix

/-- With correct labels: roots, leafs and branch points (every node that is not a non-root with exactly
one child) survive, for every factor. -/
theorem downsample_keeps_roots_leafs_branches (t : Table) (hw : WF t) (hl : labelsOKB t = true)
    (f : Option Nat) (pres : List Int) (n : Node) (hn : n ∈ t)
    (ha : n.parent < 0 ∨ childCount t n.id ≠ 1) : n.id ∈ ids (downsample t f pres) := by
  apply Navis.Forest.downsample_keeps_fixpoints hw f pres hn
  left
  rw [(labelsOKB_iff t).mp hl n hn]
  unfold labelOf
  rcases ha with h | h
  · simp [h]
  · by_cases hp : n.parent < 0
    · simp [hp]
    · simp only [hp, decide_false, Bool.false_eq_true, if_false]
      split
      · simp
      · simp [h]

/-- The executable checker evaluated by the driver on navis' output decides the clause list `DsSpec`. -/
theorem dsCheck_sound (t u : Table) (f : Option Nat) (fix : List Int) (h : dsCheck t u f fix = true) :
    DsSpec t u f fix := dsCheck_sound' h

/-- **The model satisfies the whole downsampling clause list**, for every well-formed correctly labelled
forest, every factor (`none` = inf) and every preserved set: kept rows are original rows; all fix points
are kept; every kept node is linked to the first kept node on the tail of its old root path; with a
finite factor `k` at most `k` nodes are dropped in between. -/
theorem downsample_satisfies_spec (t : Table) (hw : WF t) (hl : labelsOKB t = true) (f : Option Nat)
    (pres : List Int) (fix : List Int)
    (hfix : ∀ i ∈ fix, ∃ n ∈ t, n.id = i ∧ (n.label ≠ .slab ∨ i ∈ pres)) :
    DsSpec t (downsample t f pres) f fix :=
  downsample_spec hw f pres (one_child_of_labels hw hl pres) fix hfix

/-- **Nearest kept ancestor**: the new parent of a kept node is negative (the node was a root) or a
*proper ancestor* of it in `t` that is itself kept, and no kept node lies strictly between the two. -/
theorem downsample_parent_is_kept_ancestor (t : Table) (hw : WF t) (hl : labelsOKB t = true)
    (f : Option Nat) (pres : List Int) (m : Node) (hm : m ∈ downsample t f pres) :
    m.parent < 0 ∨
    (m.parent ∈ ids (downsample t f pres) ∧
      ∃ between above, (rootPath t m.id).tail = between ++ m.parent :: above ∧
        ∀ x ∈ between, x ∉ ids (downsample t f pres)) := by
  obtain ⟨_, _, h3⟩ := downsample_satisfies_spec t hw hl f pres [] (by simp)
  rcases h3 m hm with ⟨_, h⟩ | ⟨a, hfd, hpa, _⟩
  · exact Or.inl h
  · right
    rw [List.find?_eq_some_iff_append] at hfd
    obtain ⟨hka, as, bs, hl', has⟩ := hfd
    rw [hpa]
    refine ⟨by simpa using hka, as, bs, hl', ?_⟩
    intro x hx
    simpa using has x hx

/-- **Gap ≤ factor**: with a finite factor `k` the new parent is among the first `k + 1` proper
ancestors, i.e. at most `k` original nodes are dropped between a kept node and its new parent. -/
theorem downsample_gap_le_factor (t : Table) (hw : WF t) (hl : labelsOKB t = true) (k : Nat)
    (pres : List Int) (m : Node) (hm : m ∈ downsample t (some k) pres) (hp : 0 ≤ m.parent) :
    m.parent ∈ (rootPath t m.id).tail ∧ (rootPath t m.id).tail.idxOf m.parent ≤ k := by
  obtain ⟨_, _, h3⟩ := downsample_satisfies_spec t hw hl (some k) pres [] (by simp)
  rcases h3 m hm with ⟨_, h⟩ | ⟨a, hfd, hpa, hgap⟩
  · omega
  · rw [hpa]
    exact ⟨List.mem_of_find?_eq_some hfd, hgap k rfl⟩

/-- Downsampling yields a well-formed forest with correct labels (or returns a ≤ 1-row input unchanged). -/
theorem downsample_WF (t : Table) (hw : WF t) (f : Option Nat) (pres : List Int) :
    WF (downsample t f pres) ∧ (downsample t f pres = t ∨ labelsOKB (downsample t f pres) = true) :=
  ⟨WF_downsample hw f pres, labelsOKB_downsample t f pres⟩

/-- **Branching structure unchanged**: every kept node has exactly as many children in the result as in
`t` — the children of a kept node `i` in the result are in bijection with the children of `i` in `t` (each
child's chain of dropped single-child nodes leads to exactly one kept node). -/
theorem downsample_branching_unchanged (t : Table) (hw : WF t) (hl : labelsOKB t = true) (f : Option Nat)
    (pres : List Int) (i : Int) (hi : i ∈ ids (downsample t f pres)) :
    childCount (downsample t f pres) i = childCount t i :=
  childCount_contract hw (downsample_contracts hw hl f pres) hi

/-- Hence the roots, tips and forks of the result are exactly those of `t`: a node is "not a non-root with
exactly one child" in the result iff it is so in `t` (same child count, same root status). -/
theorem downsample_same_forks_and_tips (t : Table) (hw : WF t) (hl : labelsOKB t = true) (f : Option Nat)
    (pres : List Int) (n : Node) (hn : n ∈ t) (ha : n.parent < 0 ∨ childCount t n.id ≠ 1) :
    ∃ m ∈ downsample t f pres, m.id = n.id ∧ childCount (downsample t f pres) m.id = childCount t n.id ∧
      (m.parent < 0 ↔ n.parent < 0) := by
  have hk := downsample_keeps_roots_leafs_branches t hw hl f pres n hn ha
  obtain ⟨m, hm, hmid⟩ := mem_ids.mp hk
  refine ⟨m, hm, hmid, by rw [hmid]; exact downsample_branching_unchanged t hw hl f pres n.id hk, ?_⟩
  have hf := find?_of_mem hw.1 hn
  constructor
  · intro hneg
    rcases downsample_parent_is_kept_ancestor t hw hl f pres m hm with _ | ⟨hpk, _⟩
    · -- a kept node with a negative new parent was a root: otherwise its old root is a kept ancestor
      apply Classical.byContradiction
      intro hnr
      obtain ⟨_, _, h3⟩ := downsample_satisfies_spec t hw hl f pres [] (by simp)
      rcases h3 m hm with ⟨hnone, _⟩ | ⟨a, ha', hpa, _⟩
      · -- the parent of `n` is on the tail and some ancestor (the root of the tree) is kept
        rw [hmid, rootPath_of_nonroot hw hf hnr] at hnone
        simp only [List.tail_cons] at hnone
        have hpin := WF_parent_mem hw hn hnr
        obtain ⟨r, nr, hlast, hfr, hrp⟩ := rootPath_ends hw n.parent hpin
        have hrmem : r ∈ rootPath t n.parent := List.mem_of_getLast? hlast
        have hrk : r ∈ ids (downsample t f pres) := by
          have := (find?_some hfr)
          rw [← this.2]
          exact downsample_keeps_roots_leafs_branches t hw hl f pres nr this.1 (Or.inl hrp)
        rw [List.find?_eq_none] at hnone
        exact hnone r hrmem (by simpa using hrk)
      · have hka : a ∈ ids (downsample t f pres) := by simpa using List.find?_some ha'
        have := ids_nonneg (WF_downsample hw f pres).2.1 hka
        omega
    · have := ids_nonneg (WF_downsample hw f pres).2.1 hpk
      omega
  · intro hneg
    obtain ⟨_, _, h3⟩ := downsample_satisfies_spec t hw hl f pres [] (by simp)
    rcases h3 m hm with ⟨_, h⟩ | ⟨a, ha', _, _⟩
    · exact h
    · rw [hmid, rootPath_of_root hf hneg] at ha'
      simp at ha'

/-! ## Downsampling after an arbitrary history

The downsampling theorems above assume correct labels because navis reads its current `type` column.  That
assumption is discharged along histories: every operation of the unified catalogue (`OpsAll`, C01) returns a
well-formed, correctly labelled skeleton, so the clause list holds wherever a downsample is applied. -/

/-- **The downsampling clause list holds after every history**: start from any well-formed, correctly
labelled skeleton, apply any finite sequence of catalogue operations (subset, reroot, cuts, pruning, healing,
stitching with well-formed foreign skeletons, resampling, earlier downsamplings, …) and downsample the
result with any factor and preserved set. -/
theorem downsample_spec_after_history (len : Int → Int → Nat) (t : Table) (hw : WF t) (hl : labelsOKB t = true)
    (ops : List OpAll) (hok : ∀ op ∈ ops, op.ok) (f : Option Nat) (pres : List Int) :
    let u := ops.foldl (applyAll len) t
    DsSpec u (downsample u f pres) f [] ∧ WF (downsample u f pres) ∧
      ∀ i ∈ ids (downsample u f pres), childCount (downsample u f pres) i = childCount u i := by
  intro u
  obtain ⟨hwu, hlu⟩ := Navis.Props.C01.opsAll_labels_ok len t hw hl ops hok
  exact ⟨downsample_satisfies_spec u hwu hlu f pres [] (by simp), (downsample_WF u hwu f pres).1,
    fun i hi => downsample_branching_unchanged u hwu hlu f pres i hi⟩

/-! ## Resampling: rounding and node count -/

/-- `roundHalfEven` is numpy's `round`: within ½ of the argument, the unique nearest integer when there
is one, and the even neighbour on an exact tie. -/
theorem roundHalfEven_spec (q : Rat) :
    (roundHalfEven q : Rat) - q ≤ 1 / 2 ∧ q - (roundHalfEven q : Rat) ≤ 1 / 2 ∧
    (∀ n : Int, (n : Rat) - q < 1 / 2 → q - (n : Rat) < 1 / 2 → roundHalfEven q = n) ∧
    ((q - (roundHalfEven q : Rat) = 1 / 2 ∨ (roundHalfEven q : Rat) - q = 1 / 2) → roundHalfEven q % 2 = 0) :=
  ⟨round_upper q, round_lower q, fun n h1 h2 => round_nearest q n h1 h2, round_tie_even q⟩

/-- Segments shorter than the target collapse to their end points; all others get
`round(total / res) ≥ 1` sample positions. -/
theorem sampleCount_spec (total res : Rat) (hres : 0 < res) :
    (total < res → sampleCount total res = none) ∧
    (res ≤ total → ∃ n, sampleCount total res = some n ∧ 1 ≤ n ∧ (n : Int) = roundHalfEven (total / res)) := by
  unfold sampleCount
  refine ⟨fun h => by rw [if_pos h], fun h => ?_⟩
  rw [if_neg (by exact not_lt.mpr h)]
  have h1 : 1 ≤ total / res := by rw [le_div_iff₀ hres]; linarith
  have := round_pos_of_ge_one _ h1
  exact ⟨_, rfl, by omega, by omega⟩

/-! ## Resampling: structure -/

/-- **Well-formedness**: the resampled node table is a well-formed forest, for every well-formed input
and every per-segment count function (in particular `cntOf len res` for every resolution). -/
theorem resample_WF (t : Table) (hw : WF t) (cnt : List Int → Option Nat) :
    WF (resampleStruct t cnt) ∧ labelsOKB (resampleStruct t cnt) = true :=
  ⟨WF_resampleStruct hw cnt, labelsOKB_classify _⟩

/-- **Anchors**: roots, leafs and branch points — i.e. the first and last node of every small segment —
keep their id and coordinates. -/
theorem resample_keeps_anchors (t : Table) (hw : WF t) (cnt : List Int → Option Nat) (n : Node) (hn : n ∈ t)
    (ha : n.parent < 0 ∨ childCount t n.id ≠ 1) :
    ∃ m ∈ resampleStruct t cnt, m.id = n.id ∧ m.x = n.x ∧ m.y = n.y ∧ m.z = n.z :=
  anchor_mem_resampleStruct hw cnt hn ha

/-- Roots stay roots. -/
theorem resample_keeps_roots (t : Table) (hw : WF t) (cnt : List Int → Option Nat) (n : Node) (hn : n ∈ t)
    (hp : n.parent < 0) : ∃ m ∈ resampleStruct t cnt, m.id = n.id ∧ m.parent = n.parent :=
  let ⟨m, hm, h1, h2, _⟩ := root_mem_resampleStruct hw cnt hn hp
  ⟨m, hm, h1, h2⟩

/-- The plan has one entry per small segment, in order, with that segment's two anchors and
`k = interior (cnt s)` fresh nodes. -/
theorem resample_plan_segments (t : Table) (cnt : List Int → Option Nat) :
    (planOf t cnt).length = (smallSegments t).length ∧
    (planOf t cnt).map (·.first) = (smallSegments t).map segFirst ∧
    ∀ o ∈ planOf t cnt, ∃ s ∈ smallSegments t, o.first = segFirst s ∧ o.last = segLast s ∧ o.k = interior (cnt s) := by
  refine ⟨plan_length _ _ _, plan_map_first _ _ _, ?_⟩
  intro o ho
  obtain ⟨s, hs, h1, h2, h3, _⟩ := mem_plan ho
  exact ⟨s, hs, h1, h2, h3⟩

/-- **Structure between two anchors**: for every small segment (plan entry `o`) the result contains the
chain `first → base → base+1 → … → base+k-1 → last` (for `k = 0`: `first → last`), and the `k` interior
ids are fresh (above every id of `t`). -/
theorem resample_structure (t : Table) (hw : WF t) (cnt : List Int → Option Nat) (o : SegOut)
    (ho : o ∈ planOf t cnt) :
    maxId t < o.base ∧
    (∃ m ∈ resampleStruct t cnt, m.id = o.first ∧ m.parent = (if o.k = 0 then o.last else o.base)) ∧
    (∀ j : Nat, j < o.k → ∃ m ∈ resampleStruct t cnt, m.id = o.base + (j : Int) ∧
      m.parent = (if j + 1 = o.k then o.last else o.base + (j : Int) + 1)) := by
  obtain ⟨rk, hrk, _⟩ := WF_rank_le hw
  refine ⟨(planOf_ok hw hrk cnt).base_gt o ho, ?_, ?_⟩
  · obtain ⟨m, hm, h1, h2, _⟩ := row_mem_resampleStruct hw cnt ho (linkPairs_first_mem o.first o.last o.base o.k)
    exact ⟨m, hm, h1, h2⟩
  · intro j hj
    obtain ⟨m, hm, h1, h2, _⟩ := row_mem_resampleStruct hw cnt ho (linkPairs_fresh_mem o.first o.last o.base o.k j hj)
    exact ⟨m, hm, h1, h2⟩

/-- **New ids are fresh and unique**: the ids of the result are exactly the first anchors with their fresh
interior ids, followed by the roots — a duplicate-free list; every interior id exceeds all ids of `t`, and
the id ranges of different segments are disjoint. -/
theorem resample_ids_fresh_unique (t : Table) (hw : WF t) (cnt : List Int → Option Nat) :
    ids (resampleStruct t cnt) = planIds (planOf t cnt) ++ ids (t.filter isRootNode) ∧
    (ids (resampleStruct t cnt)).Nodup ∧
    (∀ o ∈ planOf t cnt, ∀ i ∈ fresh o.base o.k, ∀ j ∈ ids t, j < i) ∧
    (planOf t cnt).Pairwise (fun o o' => o.base + (o.k : Int) ≤ o'.base) := by
  obtain ⟨rk, hrk, _⟩ := WF_rank_le hw
  have hok := planOf_ok hw hrk cnt
  refine ⟨ids_resampleStruct hw cnt, (WF_resampleStruct hw cnt).1, ?_, hok.disjoint⟩
  intro o ho i hi j hj
  have := hok.base_gt o ho
  have := (mem_fresh.mp hi).1
  have := le_maxId hj
  omega

/-- **Node count**: one node per segment (its first anchor) plus its interior nodes, plus the roots. -/
theorem resample_node_count (t : Table) (hw : WF t) (cnt : List Int → Option Nat) :
    (resampleStruct t cnt).length =
      (smallSegments t).length + ((planOf t cnt).map (·.k)).sum + (t.filter isRootNode).length :=
  length_resampleStruct hw cnt

/-! ## Resampling: geometry (over `Rat`) -/

/-- **On the cable**: every sampled point — in particular every new node — is `a + τ·(b − a)` with
`0 ≤ τ ≤ 1` for two *consecutive* nodes `a, b` of the original segment (all four columns x, y, z, radius
with the same `τ`). -/
theorem resample_on_cable (k0 k1 : Rat × Pt) (rest : List (Rat × Pt)) (s : Rat) :
    ∃ (pre post : List (Rat × Pt)) (a b : Rat × Pt) (τ : Rat),
      k0 :: k1 :: rest = pre ++ a :: b :: post ∧ 0 ≤ τ ∧ τ ≤ 1 ∧
      polyAt (k0 :: k1 :: rest) s = lerpPt a.2 b.2 τ :=
  polyAt_onCable k0 k1 rest s

/-- The same for the list of interior points of a segment. -/
theorem resample_interior_on_cable (k0 k1 : Rat × Pt) (rest : List (Rat × Pt)) (total : Rat) (k : Nat) :
    ∀ p ∈ interiorPts (k0 :: k1 :: rest) total k, OnCable (k0 :: k1 :: rest) p := by
  intro p hp
  unfold interiorPts at hp
  obtain ⟨j, _, rfl⟩ := List.mem_map.mp hp
  exact polyAt_onCable k0 k1 rest _

/-- The first sample is the first anchor's own position (`np.linspace` starts at 0), provided the arc
lengths do not under-estimate the edge lengths (then a zero arc step means coincident nodes). -/
theorem resample_first_sample_at_anchor (p : Pt) (ps : List Pt) (lens : List Rat) (h : LensOK (p :: ps) lens)
    (total : Rat) (k : Nat) :
    (polyAt (knots 0 (p :: ps) lens) (samplePos total k 0)).x = p.x ∧
    (polyAt (knots 0 (p :: ps) lens) (samplePos total k 0)).y = p.y ∧
    (polyAt (knots 0 (p :: ps) lens) (samplePos total k 0)).z = p.z := by
  rw [samplePos_zero]
  obtain ⟨tl, htl⟩ := knots_head 0 p ps lens
  have hok := knots_arcOK 0 (p :: ps) lens h
  rw [htl] at hok ⊢
  have := sqd_first_polyAt (0, p) tl hok 0 (le_refl _)
  have h0 : sqd p (polyAt ((0, p) :: tl) 0) = 0 := by
    have h1 := sqd_nonneg p (polyAt ((0, p) :: tl) 0)
    simp only [sub_self, mul_zero] at this
    linarith
  obtain ⟨hx, hy, hz⟩ := sqd_eq_zero h0
  exact ⟨hx.symm, hy.symm, hz.symm⟩

/-- **Chord ≤ arc** (squared form over `Rat`): consecutive samples of a segment are at most
`total / (k + 1)` apart — every new edge is no longer than the piece of cable it replaces.  Hypothesis:
the arc lengths used for the interpolation are non-negative and not smaller than the Euclidean edge lengths
(`LensOK`; for exact lengths: equality). -/
theorem resample_chord_le_arc (pts : List Pt) (lens : List Rat) (h : LensOK pts lens) (total : Rat)
    (ht : 0 ≤ total) (k j : Nat) :
    sqd (polyAt (knots 0 pts lens) (samplePos total k j)) (polyAt (knots 0 pts lens) (samplePos total k (j + 1))) ≤
      (total / ((k : Rat) + 1)) * (total / ((k : Rat) + 1)) :=
  chord_le_arc _ (knots_arcOK 0 pts lens h) total ht k j

/-- **Cable length does not increase** (real-valued): the Euclidean length of the chain through the
`k + 2` samples of a segment is at most the segment's arc length `total`. -/
theorem resample_not_longer (pts : List Pt) (lens : List Rat) (h : LensOK pts lens) (total : Rat)
    (ht : 0 ≤ total) (k : Nat) :
    chainLen (samples (knots 0 pts lens) total k) ≤ (total : ℝ) :=
  chainLen_samples_le _ (knots_arcOK 0 pts lens h) total ht k

/-- **Whole skeleton**: the resampled skeleton — the chains through the samples of all small segments,
with any number `kOf s` of interior nodes per segment — is at most as long as the original cable, whenever
the edge-length function never under-estimates the distance of two nodes (exact Euclidean lengths). -/
theorem resample_total_not_longer (t : Table) (hw : WF t) (pt : Int → Pt) (len : Int → Int → Nat)
    (hlen : ∀ a b, sqd (pt a) (pt b) ≤ ((len a b : Nat) : Rat) * ((len a b : Nat) : Rat)) (kOf : List Int → Nat) :
    ((smallSegments t).map fun s =>
        chainLen (samples (segKnots pt len s) ((pathLen len s : Nat) : Rat) (kOf s))).sum ≤ ((cable t len : Nat) : ℝ) := by
  have hall : ∀ s ∈ smallSegments t, isParentPath t s = true := by
    intro s hs
    have := smallSegments_shape hw s hs
    simp only [Bool.and_eq_true] at this
    exact this.1.1.1.1
  rw [← sum_pathLen_eq_cable hw.1 len (smallSegments t) hall (smallSegments_cover hw)]
  apply sum_chain_le
  intro s
  have := chainLen_samples_le (segKnots pt len s) (knots_arcOK 0 _ _ (lensOK_seg pt len hlen s))
    ((pathLen len s : Nat) : Rat) (by positivity) (kOf s)
  exact_mod_cast this

/-! ## Resampling: nearest-node remap -/

/-- Soma / connectors / tags are re-attached to a node of the new table with minimal squared distance
to the old position; such a node exists whenever the new table is non-empty. -/
theorem nearest_is_argmin (nodes : List (Int × Pt)) (q : Pt) :
    (nodes ≠ [] → (nearest nodes q).isSome) ∧
    ∀ i, nearest nodes q = some i → ∃ n ∈ nodes, n.1 = i ∧ ∀ n' ∈ nodes, sqd n.2 q ≤ sqd n'.2 q :=
  ⟨nearest_isSome q, fun _ h => nearest_spec h⟩

/-! ## Non-vacuity: concrete inputs meeting the hypotheses -/

/-- root 1 — 2 — 3 (branch) with tips 4 and 5–6–7–8, plus an isolated root 9; all edges have length 3 or 4. -/
def ex : Table :=
  [⟨1, -1, 0, 0, 0, .root⟩, ⟨2, 1, 3, 0, 0, .slab⟩, ⟨3, 2, 6, 0, 0, .branch⟩, ⟨4, 3, 9, 0, 0, .end_⟩,
   ⟨5, 3, 6, 4, 0, .slab⟩, ⟨6, 5, 6, 8, 0, .slab⟩, ⟨7, 6, 6, 12, 0, .slab⟩, ⟨8, 7, 6, 16, 0, .end_⟩, ⟨9, -1, 100, 0, 0, .root⟩]

theorem ex_WF : WF ex := wfB_sound (by decide)
example : labelsOKB ex = true := by decide
example : smallSegments ex = [[3, 2, 1], [4, 3], [8, 7, 6, 5, 3]] := by decide
-- downsampling by 2: 8 → 5 (two dropped: 7, 6), 5 is kept because the scan reaches the `(f+1)`-th ancestor
example : (downsample ex (some 2) []).map (fun n => (n.id, n.parent)) =
    [(1, -1), (3, 1), (4, 3), (5, 3), (8, 5), (9, -1)] := by decide
example : (downsample ex none []).map (fun n => (n.id, n.parent)) = [(1, -1), (3, 1), (4, 3), (8, 3), (9, -1)] := by decide
example : dsCheck ex (downsample ex (some 2) [6]) (some 2) [1, 3, 4, 8, 9, 6] = true := by decide
-- a table that violates the gap clause is rejected by the checker
example : dsCheck ex [⟨1, -1, 0, 0, 0, .root⟩, ⟨3, 1, 6, 0, 0, .branch⟩, ⟨4, 3, 9, 0, 0, .end_⟩, ⟨8, 3, 6, 16, 0, .end_⟩,
    ⟨9, -1, 100, 0, 0, .root⟩] (some 2) [] = false := by decide
-- resampling with one node every 2 units: 3→1 (length 6) gets 1 interior node, 4→3 (length 3) collapses to its ends
-- (round(1.5) = 2 sample positions), 8→3 (length 16) gets 6
example : (resampleStruct ex (cntOf (coordLen ex) 2)).map (fun n => (n.id, n.parent)) =
    [(3, 10), (10, 1), (4, 3), (8, 15), (15, 16), (16, 17), (17, 18), (18, 19), (19, 20), (20, 3), (1, -1), (9, -1)] := by
  decide +kernel
example : roundHalfEven (5 / 2) = 2 ∧ roundHalfEven (7 / 2) = 4 ∧ roundHalfEven (13 / 5) = 3 := by decide +kernel
example : sampleCount 3 2 = some 2 ∧ sampleCount 1 2 = none ∧ sampleCount 2 2 = some 1 := by decide +kernel
example : LensOK [⟨6, 0, 0, 1⟩, ⟨3, 0, 0, 2⟩, ⟨0, 0, 0, 4⟩] [3, 3] := by
  refine ⟨by norm_num, by norm_num [sqd], by norm_num, by norm_num [sqd], trivial⟩
example : interiorPts (knots 0 [⟨6, 0, 0, 1⟩, ⟨3, 0, 0, 2⟩, ⟨0, 0, 0, 4⟩] [3, 3]) 6 1 = [⟨3, 0, 0, 2⟩] := by
  decide +kernel
example : nearest [(1, ⟨0, 0, 0, 0⟩), (2, ⟨10, 0, 0, 0⟩), (3, ⟨4, 0, 0, 0⟩)] ⟨6, 0, 0, 0⟩ = some 3 := by decide +kernel

end Navis.Props.C13
