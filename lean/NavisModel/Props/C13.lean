import NavisModel.Proofs.ResampleLemmas
import NavisModel.Proofs.ResampleGeomLemmas
import NavisModel.Proofs.ResampleRealLemmas
import NavisModel.Proofs.DownsampleLemmas
import NavisModel.Proofs.BranchingLemmas
import NavisModel.Proofs.SamplingLemmas
import NavisModel.Proofs.SamplingGeomLemmas
import NavisModel.Proofs.SamplingStructLemmas
import NavisModel.Proofs.ResampleNormedLemmas
import NavisModel.Proofs.ResampleBranchLemmas
import NavisModel.Proofs.ResampleEuclidLemmas
import NavisModel.Gen.Sampling
import NavisModel.Props.C01
/-!
# C13 — down- and resampling preserve branching structure and geometry

**Downsampling** (`Forest.downsample`, the line-by-line model of `_downsample_treeneuron`; `f = none`
is `factor = inf`; `pres` = preserved nodes and somas).  `DsSpec t u f fix` is the property's clause list
for an output table `u`; `downsample_satisfies_spec` proves it for the model for every well-formed,
correctly labelled forest, every factor and every preserved set; `dsCheck_sound` shows that the executable
checker the driver evaluates on navis' own output decides that same clause list.

**Resampling** (`Resample.resampleStruct` for ids / parent links, `Resample.polyAt` for positions and
radius over `Rat`): anchors are kept, between the two anchors of every small segment the result is a
chain of fresh ids, every sampled point lies on the original cable, no new edge is longer than the arc it
replaces (so cable length does not increase), the result is a well-formed forest, and the remap of
soma / connectors / tags picks a nearest node.

All theorems quantify over every table / factor / resolution / count function; no bound on sizes.
-/
namespace Navis.Props.C13
open Navis.Forest Navis.Resample

/-! ## Downsampling -/

/-- Kept nodes are original nodes with unchanged ids and coordinates. -/
theorem downsample_subset_ids_coords (t : Table) (f : Option Nat) (pres : List Int) :
    ∀ m ∈ downsample t f pres, ∃ n ∈ t, n.id = m.id ∧ n.x = m.x ∧ n.y = m.y ∧ n.z = m.z :=
  downsample_subset t f pres

/-- Every fix point — labelled non-slab, or listed in `pres` (preserved nodes, somas) — survives. -/
theorem downsample_keeps_fixpoints (t : Table) (hw : WF t) (f : Option Nat) (pres : List Int) (n : Node)
    (hn : n ∈ t) (hfix : n.label ≠ .slab ∨ n.id ∈ pres) : n.id ∈ ids (downsample t f pres) :=
  Navis.Forest.downsample_keeps_fixpoints hw f pres hn hfix

/-- With correct labels: roots, leafs and branch points (every node that is not a non-root with exactly
one child) survive, for every factor. -/
theorem downsample_keeps_roots_leafs_branches (t : Table) (hw : WF t) (hl : labelsOKB t = true)
    (f : Option Nat) (pres : List Int) (n : Node) (hn : n ∈ t)
    (ha : n.parent < 0 ∨ childCount t n.id ≠ 1) : n.id ∈ ids (downsample t f pres) := by
  apply Navis.Forest.downsample_keeps_fixpoints hw f pres hn
  left
  rw [(labelsOKB_iff t).mp hl n hn]
  unfold labelOf
  rcases ha with h | h
  · simp [h]
  · by_cases hp : n.parent < 0
    · simp [hp]
    · simp only [hp, decide_false, Bool.false_eq_true, if_false]
      split
      · simp
      · simp [h]

/-- The executable checker evaluated by the driver on navis' output decides the clause list `DsSpec`. -/
theorem dsCheck_sound (t u : Table) (f : Option Nat) (fix : List Int) (h : dsCheck t u f fix = true) :
    DsSpec t u f fix := dsCheck_sound' h

/-- **The model satisfies the whole downsampling clause list**, for every well-formed correctly labelled
forest, every factor (`none` = inf) and every preserved set: kept rows are original rows; all fix points
are kept; every kept node is linked to the first kept node on the tail of its old root path; with a
finite factor `k` at most `k` nodes are dropped in between. -/
theorem downsample_satisfies_spec (t : Table) (hw : WF t) (hl : labelsOKB t = true) (f : Option Nat)
    (pres : List Int) (fix : List Int)
    (hfix : ∀ i ∈ fix, ∃ n ∈ t, n.id = i ∧ (n.label ≠ .slab ∨ i ∈ pres)) :
    DsSpec t (downsample t f pres) f fix :=
  downsample_spec hw f pres (one_child_of_labels hw hl pres) fix hfix

/-- **Nearest kept ancestor**: the new parent of a kept node is negative (the node was a root) or a
*proper ancestor* of it in `t` that is itself kept, and no kept node lies strictly between the two. -/
theorem downsample_parent_is_kept_ancestor (t : Table) (hw : WF t) (hl : labelsOKB t = true)
    (f : Option Nat) (pres : List Int) (m : Node) (hm : m ∈ downsample t f pres) :
    m.parent < 0 ∨
    (m.parent ∈ ids (downsample t f pres) ∧
      ∃ between above, (rootPath t m.id).tail = between ++ m.parent :: above ∧
        ∀ x ∈ between, x ∉ ids (downsample t f pres)) := by
  obtain ⟨_, _, h3⟩ := downsample_satisfies_spec t hw hl f pres [] (by simp)
  rcases h3 m hm with ⟨_, h⟩ | ⟨a, hfd, hpa, _⟩
  · exact Or.inl h
  · right
    rw [List.find?_eq_some_iff_append] at hfd
    obtain ⟨hka, as, bs, hl', has⟩ := hfd
    rw [hpa]
    refine ⟨by simpa using hka, as, bs, hl', ?_⟩
    intro x hx
    simpa using has x hx

/-- **Gap ≤ factor**: with a finite factor `k` the new parent is among the first `k + 1` proper
ancestors, i.e. at most `k` original nodes are dropped between a kept node and its new parent. -/
theorem downsample_gap_le_factor (t : Table) (hw : WF t) (hl : labelsOKB t = true) (k : Nat)
    (pres : List Int) (m : Node) (hm : m ∈ downsample t (some k) pres) (hp : 0 ≤ m.parent) :
    m.parent ∈ (rootPath t m.id).tail ∧ (rootPath t m.id).tail.idxOf m.parent ≤ k := by
  obtain ⟨_, _, h3⟩ := downsample_satisfies_spec t hw hl (some k) pres [] (by simp)
  rcases h3 m hm with ⟨_, h⟩ | ⟨a, hfd, hpa, hgap⟩
  · omega
  · rw [hpa]
    exact ⟨List.mem_of_find?_eq_some hfd, hgap k rfl⟩

/-- Downsampling yields a well-formed forest with correct labels (or returns a ≤ 1-row input unchanged). -/
theorem downsample_WF (t : Table) (hw : WF t) (f : Option Nat) (pres : List Int) :
    WF (downsample t f pres) ∧ (downsample t f pres = t ∨ labelsOKB (downsample t f pres) = true) :=
  ⟨WF_downsample hw f pres, labelsOKB_downsample t f pres⟩

/-- **Branching structure unchanged**: every kept node has exactly as many children in the result as in
`t` — the children of a kept node `i` in the result are in bijection with the children of `i` in `t` (each
child's chain of dropped single-child nodes leads to exactly one kept node). -/
theorem downsample_branching_unchanged (t : Table) (hw : WF t) (hl : labelsOKB t = true) (f : Option Nat)
    (pres : List Int) (i : Int) (hi : i ∈ ids (downsample t f pres)) :
    childCount (downsample t f pres) i = childCount t i :=
  childCount_contract hw (downsample_contracts hw hl f pres) hi

/-- Hence the roots, tips and forks of the result are exactly those of `t`: a node is "not a non-root with
exactly one child" in the result iff it is so in `t` (same child count, same root status). -/
theorem downsample_same_forks_and_tips (t : Table) (hw : WF t) (hl : labelsOKB t = true) (f : Option Nat)
    (pres : List Int) (n : Node) (hn : n ∈ t) (ha : n.parent < 0 ∨ childCount t n.id ≠ 1) :
    ∃ m ∈ downsample t f pres, m.id = n.id ∧ childCount (downsample t f pres) m.id = childCount t n.id ∧
      (m.parent < 0 ↔ n.parent < 0) := by
  have hk := downsample_keeps_roots_leafs_branches t hw hl f pres n hn ha
  obtain ⟨m, hm, hmid⟩ := mem_ids.mp hk
  refine ⟨m, hm, hmid, by rw [hmid]; exact downsample_branching_unchanged t hw hl f pres n.id hk, ?_⟩
  have hf := find?_of_mem hw.1 hn
  constructor
  · intro hneg
    rcases downsample_parent_is_kept_ancestor t hw hl f pres m hm with _ | ⟨hpk, _⟩
    · -- a kept node with a negative new parent was a root: otherwise its old root is a kept ancestor
      apply Classical.byContradiction
      intro hnr
      obtain ⟨_, _, h3⟩ := downsample_satisfies_spec t hw hl f pres [] (by simp)
      rcases h3 m hm with ⟨hnone, _⟩ | ⟨a, ha', hpa, _⟩
      · -- the parent of `n` is on the tail and some ancestor (the root of the tree) is kept
        rw [hmid, rootPath_of_nonroot hw hf hnr] at hnone
        simp only [List.tail_cons] at hnone
        have hpin := WF_parent_mem hw hn hnr
        obtain ⟨r, nr, hlast, hfr, hrp⟩ := rootPath_ends hw n.parent hpin
        have hrmem : r ∈ rootPath t n.parent := List.mem_of_getLast? hlast
        have hrk : r ∈ ids (downsample t f pres) := by
          have := (find?_some hfr)
          rw [← this.2]
          exact downsample_keeps_roots_leafs_branches t hw hl f pres nr this.1 (Or.inl hrp)
        rw [List.find?_eq_none] at hnone
        exact hnone r hrmem (by simpa using hrk)
      · have hka : a ∈ ids (downsample t f pres) := by simpa using List.find?_some ha'
        have := ids_nonneg (WF_downsample hw f pres).2.1 hka
        omega
    · have := ids_nonneg (WF_downsample hw f pres).2.1 hpk
      omega
  · intro hneg
    obtain ⟨_, _, h3⟩ := downsample_satisfies_spec t hw hl f pres [] (by simp)
    rcases h3 m hm with ⟨_, h⟩ | ⟨a, ha', _, _⟩
    · exact h
    · rw [hmid, rootPath_of_root hf hneg] at ha'
      simp at ha'

/-! ## Downsampling after an arbitrary history

The downsampling theorems above assume correct labels because navis reads its current `type` column.  That
assumption is discharged along histories: every operation of the unified catalogue (`OpsAll`, C01) returns a
well-formed, correctly labelled skeleton, so the clause list holds wherever a downsample is applied. -/

/-- **The downsampling clause list holds after every history**: start from any well-formed, correctly
labelled skeleton, apply any finite sequence of catalogue operations (subset, reroot, cuts, pruning, healing,
stitching with well-formed foreign skeletons, resampling, earlier downsamplings, …) and downsample the
result with any factor and preserved set. -/
theorem downsample_spec_after_history (len : Int → Int → Nat) (t : Table) (hw : WF t) (hl : labelsOKB t = true)
    (ops : List OpAll) (hok : ∀ op ∈ ops, op.ok) (f : Option Nat) (pres : List Int) :
    let u := ops.foldl (applyAll len) t
    DsSpec u (downsample u f pres) f [] ∧ WF (downsample u f pres) ∧
      ∀ i ∈ ids (downsample u f pres), childCount (downsample u f pres) i = childCount u i := by
  intro u
  obtain ⟨hwu, hlu⟩ := Navis.Props.C01.opsAll_labels_ok len t hw hl ops hok
  exact ⟨downsample_satisfies_spec u hwu hlu f pres [] (by simp), (downsample_WF u hwu f pres).1,
    fun i hi => downsample_branching_unchanged u hwu hlu f pres i hi⟩

/-! ## Resampling: rounding and node count -/

/-- `roundHalfEven` is numpy's `round`: within ½ of the argument, the unique nearest integer when there
is one, and the even neighbour on an exact tie. -/
theorem roundHalfEven_spec (q : Rat) :
    (roundHalfEven q : Rat) - q ≤ 1 / 2 ∧ q - (roundHalfEven q : Rat) ≤ 1 / 2 ∧
    (∀ n : Int, (n : Rat) - q < 1 / 2 → q - (n : Rat) < 1 / 2 → roundHalfEven q = n) ∧
    ((q - (roundHalfEven q : Rat) = 1 / 2 ∨ (roundHalfEven q : Rat) - q = 1 / 2) → roundHalfEven q % 2 = 0) :=
  ⟨round_upper q, round_lower q, fun n h1 h2 => round_nearest q n h1 h2, round_tie_even q⟩

/-- Segments shorter than the target collapse to their end points; all others get
`round(total / res) ≥ 1` sample positions. -/
theorem sampleCount_spec (total res : Rat) (hres : 0 < res) :
    (total < res → sampleCount total res = none) ∧
    (res ≤ total → ∃ n, sampleCount total res = some n ∧ 1 ≤ n ∧ (n : Int) = roundHalfEven (total / res)) := by
  unfold sampleCount
  refine ⟨fun h => by rw [if_pos h], fun h => ?_⟩
  rw [if_neg (by exact not_lt.mpr h)]
  have h1 : 1 ≤ total / res := by rw [le_div_iff₀ hres]; linarith
  have := round_pos_of_ge_one _ h1
  exact ⟨_, rfl, by omega, by omega⟩

/-! ## Resampling: structure -/

/-- **Well-formedness**: the resampled node table is a well-formed forest, for every well-formed input
and every per-segment count function (in particular `cntOf len res` for every resolution). -/
theorem resample_WF (t : Table) (hw : WF t) (cnt : List Int → Option Nat) :
    WF (resampleStruct t cnt) ∧ labelsOKB (resampleStruct t cnt) = true :=
  ⟨WF_resampleStruct hw cnt, labelsOKB_classify _⟩

/-- **Anchors**: roots, leafs and branch points — i.e. the first and last node of every small segment —
keep their id and coordinates. -/
theorem resample_keeps_anchors (t : Table) (hw : WF t) (cnt : List Int → Option Nat) (n : Node) (hn : n ∈ t)
    (ha : n.parent < 0 ∨ childCount t n.id ≠ 1) :
    ∃ m ∈ resampleStruct t cnt, m.id = n.id ∧ m.x = n.x ∧ m.y = n.y ∧ m.z = n.z :=
  anchor_mem_resampleStruct hw cnt hn ha

/-- Roots stay roots. -/
theorem resample_keeps_roots (t : Table) (hw : WF t) (cnt : List Int → Option Nat) (n : Node) (hn : n ∈ t)
    (hp : n.parent < 0) : ∃ m ∈ resampleStruct t cnt, m.id = n.id ∧ m.parent = n.parent :=
  let ⟨m, hm, h1, h2, _⟩ := root_mem_resampleStruct hw cnt hn hp
  ⟨m, hm, h1, h2⟩

/-- The plan has one entry per small segment, in order, with that segment's two anchors and
`k = interior (cnt s)` fresh nodes. -/
theorem resample_plan_segments (t : Table) (cnt : List Int → Option Nat) :
    (planOf t cnt).length = (smallSegments t).length ∧
    (planOf t cnt).map (·.first) = (smallSegments t).map segFirst ∧
    ∀ o ∈ planOf t cnt, ∃ s ∈ smallSegments t, o.first = segFirst s ∧ o.last = segLast s ∧ o.k = interior (cnt s) := by
  refine ⟨plan_length _ _ _, plan_map_first _ _ _, ?_⟩
  intro o ho
  obtain ⟨s, hs, h1, h2, h3, _⟩ := mem_plan ho
  exact ⟨s, hs, h1, h2, h3⟩

/-- **Structure between two anchors**: for every small segment (plan entry `o`) the result contains the
chain `first → base → base+1 → … → base+k-1 → last` (for `k = 0`: `first → last`), and the `k` interior
ids are fresh (above every id of `t`). -/
theorem resample_structure (t : Table) (hw : WF t) (cnt : List Int → Option Nat) (o : SegOut)
    (ho : o ∈ planOf t cnt) :
    maxId t < o.base ∧
    (∃ m ∈ resampleStruct t cnt, m.id = o.first ∧ m.parent = (if o.k = 0 then o.last else o.base)) ∧
    (∀ j : Nat, j < o.k → ∃ m ∈ resampleStruct t cnt, m.id = o.base + (j : Int) ∧
      m.parent = (if j + 1 = o.k then o.last else o.base + (j : Int) + 1)) := by
  obtain ⟨rk, hrk, _⟩ := WF_rank_le hw
  refine ⟨(planOf_ok hw hrk cnt).base_gt o ho, ?_, ?_⟩
  · obtain ⟨m, hm, h1, h2, _⟩ := row_mem_resampleStruct hw cnt ho (linkPairs_first_mem o.first o.last o.base o.k)
    exact ⟨m, hm, h1, h2⟩
  · intro j hj
    obtain ⟨m, hm, h1, h2, _⟩ := row_mem_resampleStruct hw cnt ho (linkPairs_fresh_mem o.first o.last o.base o.k j hj)
    exact ⟨m, hm, h1, h2⟩

/-- **New ids are fresh and unique**: the ids of the result are exactly the first anchors with their fresh
interior ids, followed by the roots — a duplicate-free list; every interior id exceeds all ids of `t`, and
the id ranges of different segments are disjoint. -/
theorem resample_ids_fresh_unique (t : Table) (hw : WF t) (cnt : List Int → Option Nat) :
    ids (resampleStruct t cnt) = planIds (planOf t cnt) ++ ids (t.filter isRootNode) ∧
    (ids (resampleStruct t cnt)).Nodup ∧
    (∀ o ∈ planOf t cnt, ∀ i ∈ fresh o.base o.k, ∀ j ∈ ids t, j < i) ∧
    (planOf t cnt).Pairwise (fun o o' => o.base + (o.k : Int) ≤ o'.base) := by
  obtain ⟨rk, hrk, _⟩ := WF_rank_le hw
  have hok := planOf_ok hw hrk cnt
  refine ⟨ids_resampleStruct hw cnt, (WF_resampleStruct hw cnt).1, ?_, hok.disjoint⟩
  intro o ho i hi j hj
  have := hok.base_gt o ho
  have := (mem_fresh.mp hi).1
  have := le_maxId hj
  omega

/-- **Node count**: one node per segment (its first anchor) plus its interior nodes, plus the roots. -/
theorem resample_node_count (t : Table) (hw : WF t) (cnt : List Int → Option Nat) :
    (resampleStruct t cnt).length =
      (smallSegments t).length + ((planOf t cnt).map (·.k)).sum + (t.filter isRootNode).length :=
  length_resampleStruct hw cnt

/-! ## Resampling: geometry (over `Rat`) -/

/-- **On the cable**: every sampled point — in particular every new node — is `a + τ·(b − a)` with
`0 ≤ τ ≤ 1` for two *consecutive* nodes `a, b` of the original segment (all four columns x, y, z, radius
with the same `τ`). -/
theorem resample_on_cable (k0 k1 : Rat × Pt) (rest : List (Rat × Pt)) (s : Rat) :
    ∃ (pre post : List (Rat × Pt)) (a b : Rat × Pt) (τ : Rat),
      k0 :: k1 :: rest = pre ++ a :: b :: post ∧ 0 ≤ τ ∧ τ ≤ 1 ∧
      polyAt (k0 :: k1 :: rest) s = lerpPt a.2 b.2 τ :=
  polyAt_onCable k0 k1 rest s

/-- The same for the list of interior points of a segment. -/
theorem resample_interior_on_cable (k0 k1 : Rat × Pt) (rest : List (Rat × Pt)) (total : Rat) (k : Nat) :
    ∀ p ∈ interiorPts (k0 :: k1 :: rest) total k, OnCable (k0 :: k1 :: rest) p := by
  intro p hp
  unfold interiorPts at hp
  obtain ⟨j, _, rfl⟩ := List.mem_map.mp hp
  exact polyAt_onCable k0 k1 rest _

/-- The first sample is the first anchor's own position (`np.linspace` starts at 0), provided the arc
lengths do not under-estimate the edge lengths (then a zero arc step means coincident nodes). -/
theorem resample_first_sample_at_anchor (p : Pt) (ps : List Pt) (lens : List Rat) (h : LensOK (p :: ps) lens)
    (total : Rat) (k : Nat) :
    (polyAt (knots 0 (p :: ps) lens) (samplePos total k 0)).x = p.x ∧
    (polyAt (knots 0 (p :: ps) lens) (samplePos total k 0)).y = p.y ∧
    (polyAt (knots 0 (p :: ps) lens) (samplePos total k 0)).z = p.z := by
  rw [samplePos_zero]
  obtain ⟨tl, htl⟩ := knots_head 0 p ps lens
  have hok := knots_arcOK 0 (p :: ps) lens h
  rw [htl] at hok ⊢
  have := sqd_first_polyAt (0, p) tl hok 0 (le_refl _)
  have h0 : sqd p (polyAt ((0, p) :: tl) 0) = 0 := by
    have h1 := sqd_nonneg p (polyAt ((0, p) :: tl) 0)
    simp only [sub_self, mul_zero] at this
    linarith
  obtain ⟨hx, hy, hz⟩ := sqd_eq_zero h0
  exact ⟨hx.symm, hy.symm, hz.symm⟩

/-- **Chord ≤ arc** (squared form over `Rat`): consecutive samples of a segment are at most
`total / (k + 1)` apart — every new edge is no longer than the piece of cable it replaces.  Hypothesis:
the arc lengths used for the interpolation are non-negative and not smaller than the Euclidean edge lengths
(`LensOK`; for exact lengths: equality). -/
theorem resample_chord_le_arc (pts : List Pt) (lens : List Rat) (h : LensOK pts lens) (total : Rat)
    (ht : 0 ≤ total) (k j : Nat) :
    sqd (polyAt (knots 0 pts lens) (samplePos total k j)) (polyAt (knots 0 pts lens) (samplePos total k (j + 1))) ≤
      (total / ((k : Rat) + 1)) * (total / ((k : Rat) + 1)) :=
  chord_le_arc _ (knots_arcOK 0 pts lens h) total ht k j

/-- **Cable length does not increase** (real-valued): the Euclidean length of the chain through the
`k + 2` samples of a segment is at most the segment's arc length `total`. -/
theorem resample_not_longer (pts : List Pt) (lens : List Rat) (h : LensOK pts lens) (total : Rat)
    (ht : 0 ≤ total) (k : Nat) :
    chainLen (samples (knots 0 pts lens) total k) ≤ (total : ℝ) :=
  chainLen_samples_le _ (knots_arcOK 0 pts lens h) total ht k

/-- **Whole skeleton**: the resampled skeleton — the chains through the samples of all small segments,
with any number `kOf s` of interior nodes per segment — is at most as long as the original cable, whenever
the edge-length function never under-estimates the distance of two nodes (exact Euclidean lengths). -/
theorem resample_total_not_longer (t : Table) (hw : WF t) (pt : Int → Pt) (len : Int → Int → Nat)
    (hlen : ∀ a b, sqd (pt a) (pt b) ≤ ((len a b : Nat) : Rat) * ((len a b : Nat) : Rat)) (kOf : List Int → Nat) :
    ((smallSegments t).map fun s =>
        chainLen (samples (segKnots pt len s) ((pathLen len s : Nat) : Rat) (kOf s))).sum ≤ ((cable t len : Nat) : ℝ) := by
  have hall : ∀ s ∈ smallSegments t, isParentPath t s = true := by
    intro s hs
    have := smallSegments_shape hw s hs
    simp only [Bool.and_eq_true] at this
    exact this.1.1.1.1
  rw [← sum_pathLen_eq_cable hw.1 len (smallSegments t) hall (smallSegments_cover hw)]
  apply sum_chain_le
  intro s
  have := chainLen_samples_le (segKnots pt len s) (knots_arcOK 0 _ _ (lensOK_seg pt len hlen s))
    ((pathLen len s : Nat) : Rat) (by positivity) (kOf s)
  exact_mod_cast this

/-! ## Resampling: nearest-node remap -/

/-- Soma / connectors / tags are re-attached to a node of the new table with minimal squared distance
to the old position; such a node exists whenever the new table is non-empty. -/
theorem nearest_is_argmin (nodes : List (Int × Pt)) (q : Pt) :
    (nodes ≠ [] → (nearest nodes q).isSome) ∧
    ∀ i, nearest nodes q = some i → ∃ n ∈ nodes, n.1 = i ∧ ∀ n' ∈ nodes, sqd n.2 q ≤ sqd n'.2 q :=
  ⟨nearest_isSome q, fun _ h => nearest_spec h⟩


/-! # Second pass

`Model/Sampling.lean` restates `_downsample_treeneuron` and the segment loop / re-attachment of `resample_skeleton`
*as written*, with every operator, constant and def-before-use decision as a parameter; `Gen/Sampling.lean` is
re-extracted from the navis source on every run (`translator/gen_sampling.py`).  The theorems of section 1 build the
rules from the extracted facts and prove that the as-written code with those rules **is** the hand-written model the
theorems above are about — an edit of one of the facts makes a theorem stop checking.  Sections 2–5 add the clauses the
first pass had only tested or stated in a weaker form. -/
open Navis.Sampling

/-! ## 1. The facts of the current source are what the model hard-wires -/

def labelOfName : String → Option Label
  | "slab" => some .slab | "root" => some .root | "end" => some .end_ | "branch" => some .branch | _ => none

/-- The walk rule read off `_downsample_treeneuron`; `none` when the code no longer has the shape the model assumes
(a two-way `or` of a membership test and a root test, `while True`, the scan stepping after the test, …). -/
def genWalkRule : Option WalkRule := do
  let smallCmp ← Cmp.ofName Gen.Sampling.smallGuardCmp
  let fixCmp ← Cmp.ofName Gen.Sampling.fixCmp
  let fixType ← labelOfName Gen.Sampling.fixType
  let contCmp ← Cmp.ofName Gen.Sampling.contCmp
  let loopCmp ← Cmp.ofName Gen.Sampling.loopCmp
  let stopRootCmp ← Cmp.ofName Gen.Sampling.stopRootCmp
  let factorRound ← (match Gen.Sampling.factorRound with
    | "none" => some FactorRound.asGiven | "floor" => some .floor | "trunc" => some .floor | "ceil" => some .ceil | _ => none)
  if Gen.Sampling.smallGuardAxis = 0 ∧ (factorRound = .asGiven ∨ Gen.Sampling.factorRoundSkipsInf = true)
      ∧ Gen.Sampling.factorRoundBeforeWalk = true ∧ Gen.Sampling.parentMapKey = "node_id" ∧ Gen.Sampling.parentMapValue = "parent_id"
      ∧ Gen.Sampling.fixColumn = "type" ∧ Gen.Sampling.presOp = "BitOr" ∧ Gen.Sampling.presColumn = "node_id"
      ∧ Gen.Sampling.presArgIsPreserveNodes = true ∧ Gen.Sampling.fixIdColumn = "node_id"
      ∧ Gen.Sampling.somaAppendsToFix = true ∧ Gen.Sampling.stopSetFromFix = true ∧ Gen.Sampling.startsFromFix = true
      ∧ Gen.Sampling.outerWhileTrue = true ∧ Gen.Sampling.rootBreaks = true ∧ Gen.Sampling.loopRhsIsFactor = true
      ∧ Gen.Sampling.loopStepOp = "Add" ∧ Gen.Sampling.stopBool = "Or" ∧ Gen.Sampling.stopMemLhsIsCand = true
      ∧ Gen.Sampling.stopRootLhsIsCand = true ∧ Gen.Sampling.stopRecords = true ∧ Gen.Sampling.stopBreaks = true
      ∧ Gen.Sampling.stepAfterStopTest = true ∧ Gen.Sampling.stoppedBreaksOuter = true
      ∧ Gen.Sampling.exhaustedRecordsAndMoves = true ∧ Gen.Sampling.flagResetEachRound = true
      ∧ Gen.Sampling.keepColumn = "node_id" ∧ Gen.Sampling.keepUsesKeys = true ∧ Gen.Sampling.mapColumn = "node_id"
      ∧ Gen.Sampling.mapTarget = "parent_id" then
    pure { factorRound := factorRound, smallCmp := smallCmp, smallK := Gen.Sampling.smallGuardK, sentinelKey := Gen.Sampling.sentinelKey,
           sentinelValue := Gen.Sampling.sentinelValue, fixCmp := fixCmp, fixType := fixType,
           presUnion := Gen.Sampling.presKeepsSelection, stopSetHasSoma := Gen.Sampling.stopSetHasSoma,
           startsHaveSoma := Gen.Sampling.startsHaveSoma, contCmp := contCmp, contK := Gen.Sampling.contK,
           rootRecord := Gen.Sampling.rootRecord, loopInit := Gen.Sampling.loopInit, loopCmp := loopCmp,
           loopStep := Gen.Sampling.loopStep, stopMem := Gen.Sampling.stopMemOp == "In", stopRootCmp := stopRootCmp,
           stopRootK := Gen.Sampling.stopRootK }
  else none

/-- The extracted walk rule is the one the model hard-wires: a finite factor is rounded down before the walk (`inf` is
left alone), fix points are the rows whose type is not `slab`,
preserved ids are OR-ed in, the soma ids reach both the start list and the membership test of the walk, the scan runs
`i = 0; while i < factor; i += 1`, stops on `new_p in fix or new_p < 0` and continues while `new_p >= 0`. -/
theorem gen_walk_rule : genWalkRule = some walkRule0 := by decide

/-- **`_downsample_treeneuron` as written today is the model `downsample`** — for every well-formed table, every
factor (`none` = inf; a float `q` acts as `⌊q⌋`), `preserve_nodes` given or `None`, and every soma list: the soma ids
are fix points of the walk exactly like preserved ids. -/
theorem gen_downsample_is_model (t : Table) (hw : WF t) (q : Option Rat) (pres : Option (List Int)) (soma : List Int)
    (hs : ∀ s ∈ soma, s ∈ ids t) :
    genWalkRule.map (fun r => downsampleG r t q pres soma) = some (downsample t (q.map floorNat) (pres.getD [] ++ soma)) := by
  rw [gen_walk_rule, Option.map_some, downsampleG_rule0 hw q pres soma hs]

/-- Hence the code as written satisfies the whole downsampling clause list, with the soma and the preserved nodes among
the fix points and at most `⌊factor⌋ ≤ factor` nodes dropped between a kept node and its new parent. -/
theorem gen_downsample_satisfies_spec (t : Table) (hw : WF t) (hl : labelsOKB t = true) (q : Option Rat)
    (pres : Option (List Int)) (soma : List Int) (hs : ∀ s ∈ soma, s ∈ ids t) (fix : List Int)
    (hfix : ∀ i ∈ fix, ∃ n ∈ t, n.id = i ∧ (n.label ≠ .slab ∨ i ∈ pres.getD [] ∨ i ∈ soma)) :
    ∀ r, genWalkRule = some r → DsSpec t (downsampleG r t q pres soma) (q.map floorNat) fix := by
  intro r hr
  rw [gen_walk_rule] at hr
  cases hr
  rw [downsampleG_rule0 hw q pres soma hs]
  apply downsample_satisfies_spec t hw hl _ _ fix
  intro i hi
  obtain ⟨n, hn, hid, hc⟩ := hfix i hi
  refine ⟨n, hn, hid, ?_⟩
  rcases hc with h | h | h
  · exact Or.inl h
  · exact Or.inr (List.mem_append_left _ h)
  · exact Or.inr (List.mem_append_right _ h)

/-- `downsample_neuron`: factors `<= 1` are rejected, the input is copied unless `inplace`, skeletons go to
`_downsample_treeneuron` with the factor and `preserve_nodes` forwarded, the (copied) neuron is returned; the other
neuron types have their own branches (the C13 statement is about skeletons only). -/
theorem gen_downsample_entry :
    Cmp.ofName Gen.Sampling.factorGuardCmp = some .le ∧ Gen.Sampling.factorGuardK = 1
    ∧ Gen.Sampling.dsCopiesUnlessInplace = true ∧ Gen.Sampling.dsReturnsX = true
    ∧ ("TreeNeuron", "_downsample_treeneuron") ∈ Gen.Sampling.dsDispatch
    ∧ Gen.Sampling.dsDispatch.map (·.1) = ["TreeNeuron", "Dotprops", "VoxelNeuron", "MeshNeuron"]
    ∧ Gen.Sampling.dsTreeArgs = ["downsampling_factor=downsampling_factor", "preserve_nodes=preserve_nodes"]
    ∧ ("inplace", "False") ∈ Gen.Sampling.dsDefaults ∧ ("preserve_nodes", "None") ∈ Gen.Sampling.dsDefaults
    ∧ "map_neuronlist" ∈ Gen.Sampling.dsDecorators ∧ Gen.Sampling.dsClearsCache = true
    ∧ Gen.Sampling.somaGuard = "not isinstance(X.soma, type(None))" := by decide

/-- With the extracted guard the entry point raises exactly for factors `≤ 1` (and never for `inf`). -/
theorem gen_factor_guard (r : WalkRule) (t : Table) (q : Option Rat) (pres : Option (List Int)) (soma : List Int) :
    (Cmp.ofName Gen.Sampling.factorGuardCmp).map (fun c => downsampleNeuronG c Gen.Sampling.factorGuardK r t q pres soma) =
      some (match q with
        | some f => if f ≤ 1 then none else some (downsampleG r t q pres soma)
        | none => some (downsampleG r t q pres soma)) := by
  have h1 : Cmp.ofName Gen.Sampling.factorGuardCmp = some .le := by decide
  have h2 : Gen.Sampling.factorGuardK = 1 := by decide
  rw [h1, h2, Option.map_some]
  unfold downsampleNeuronG
  cases q with
  | none => simp
  | some f => by_cases h : f ≤ 1 <;> simp [Cmp.evalRat, h]

/-- The segment-loop rule read off `resample_skeleton`. -/
def genResRule : Option ResRule := do
  let shortCmp ← Cmp.ofName Gen.Sampling.shortCmp
  let countFn ← CountFn.ofName Gen.Sampling.countFn
  let zipA ← Gen.Sampling.rowsZip[0]?
  let zipB ← Gen.Sampling.rowsZip[1]?
  let c0 ← Gen.Sampling.collapseIdx[0]?
  let c1 ← Gen.Sampling.collapseIdx[1]?
  if Gen.Sampling.rsLoopOver = "small_segments" ∧ Gen.Sampling.idBaseColumn = "node_id" ∧ Gen.Sampling.shortLhs = "dist[-1]"
      ∧ Gen.Sampling.shortRhsIsRes = true ∧ Gen.Sampling.countOp = "Div" ∧ Gen.Sampling.countLhs = "dist[-1]"
      ∧ Gen.Sampling.countRhsIsRes = true ∧ Gen.Sampling.linspaceArgs = ["dist[0]", "dist[-1]", "int(n)"]
      ∧ Gen.Sampling.distLeading = [0, 0] ∧ Gen.Sampling.distIsCumsumOfNorms = true
      ∧ Gen.Sampling.freshLhsIsCounter = true ∧ Gen.Sampling.freshRhsIsLoopVar = true ∧ Gen.Sampling.freshRangeOp = "Sub"
      ∧ Gen.Sampling.freshRangeLenOf = "new_dist" ∧ 0 ≤ Gen.Sampling.freshRangeK ∧ Gen.Sampling.advanceAfterNewIds = true
      ∧ Gen.Sampling.rowsZip.length = 2 ∧ Gen.Sampling.rowsEnumerated = true ∧ Gen.Sampling.rowsNodeParent = true
      ∧ Gen.Sampling.rowsValueIndexIsRowIndex = true ∧ Gen.Sampling.dedupColumn = "node_id"
      ∧ Gen.Sampling.dedupInverted = true ∧ Gen.Sampling.idBaseIsPyInt = true then
    pure { idBase := if Gen.Sampling.idBaseAgg = "max" then .maxId
                     else if Gen.Sampling.idBaseColumn = "X.nodes.shape[0]" then .rowCount else .other,
           idBasePlus := Gen.Sampling.idBasePlus, shortCmp := shortCmp, countFn := countFn,
           freshMinus := Gen.Sampling.freshRangeK.toNat,
           advance := if Gen.Sampling.advanceLenOf = "new_ids" then .newIds else .newDist,
           first := Gen.Sampling.newIdsFirst, last := Gen.Sampling.newIdsLast, zipA := zipA, zipB := zipB, c0 := c0, c1 := c1,
           rootRows := Gen.Sampling.rootRowsAdded, dedupFirst := Gen.Sampling.dedupKeep == "first" }
  else none

/-- The extracted rule is the one the model hard-wires: ids start at `int(node_id.max()) + 1`, a segment collapses when
`dist[-1] < resample_to`, otherwise gets `np.round(dist[-1] / resample_to)` sample positions, `range(len(new_dist) - 2)`
fresh ids between `seg[:1]` and `seg[-1:]`, the counter advances by `len(new_ids)`, rows are
`zip(new_ids[:-1], new_ids[1:])`, root rows are appended and duplicates dropped keeping the first occurrence. -/
theorem gen_res_rule : genResRule = some resRule0 := by decide

/-- **The segment loop of `resample_skeleton` as written today is the model `resampleStruct`**, and its per-segment
count function is `cntOf`. -/
theorem gen_resample_is_model (t : Table) (cnt : List Int → Option Nat) (len : Int → Int → Nat) (res : Rat) :
    genResRule.map (fun r => resampleStructG r t cnt) = some (resampleStruct t cnt)
    ∧ genResRule.map (fun r => cntG r len res) = some (cntOf len res) := by
  rw [gen_res_rule, Option.map_some, Option.map_some, resampleStructG_rule0, cntG_rule0]
  exact ⟨rfl, rfl⟩

/-- The glue around the loop: defaults, `map_units(resample_to, on_error='raise')`, copy unless `inplace`, non-skeletons
rejected, the numeric columns, `interp1d(dist, …, kind=method)` for numeric and `kind='nearest'` for categorical columns
evaluated at the `linspace` positions, the cubic clause of the collapse test, the `skip_errors` fall-back (the original
rows of `seg[:-1]`, counter untouched, `continue`; otherwise re-raise), caches cleared at the end. -/
theorem gen_resample_glue :
    (∀ d ∈ [("inplace", "False"), ("method", "'linear'"), ("map_columns", "None"), ("skip_errors", "True")], d ∈ Gen.Sampling.rsDefaults)
    ∧ "map_neuronlist" ∈ Gen.Sampling.rsDecorators
    ∧ Gen.Sampling.rsMapUnitsArg = true ∧ Gen.Sampling.rsMapUnitsOnError = "raise"
    ∧ Gen.Sampling.rsCopiesUnlessInplace = true ∧ Gen.Sampling.rsTypeGuardRaises = true
    ∧ Gen.Sampling.rsNumCols = ["x", "y", "z", "radius"]
    ∧ Gen.Sampling.interp = [("dist", "'nearest'"), ("dist", "method")]
    ∧ Gen.Sampling.interpLoops = [("cat", "'nearest'"), ("num", "method")]
    ∧ Gen.Sampling.sampledAtNewDist = true
    ∧ Gen.Sampling.shortOther = ["method == 'cubic' and len(seg) <= 3"]
    ∧ Gen.Sampling.collapseIdx = [0, -1, 0]
    ∧ Gen.Sampling.skipCatches = "ValueError" ∧ Gen.Sampling.skipContinues = true ∧ Gen.Sampling.skipElseRaises = true
    ∧ Gen.Sampling.skipRowsColumn = "node_id" ∧ Gen.Sampling.skipRowsSlice = (none, some (-1)) ∧ Gen.Sampling.skipAdvancesCounter = false
    ∧ Gen.Sampling.rsClearsCache = true := by decide

def guardOf (blocks : List (String × String × Nat × Nat × Bool × Bool × Bool × Bool)) (kind prev : String) : Guard :=
  if blocks.any (fun b => b.1 == kind) then .always
  else if blocks.any (fun b => b.1 == prev && b.2.2.2.1 > 0) then .unlessPrev
  else .never

/-- The re-attachment rule read off `resample_skeleton`: which of the three blocks are top-level `if`s (a block that
only occurs nested in the previous block's `else` is an `elif`), where the KD-tree and the query positions come from. -/
def genAttachRule : Option AttachRule :=
  let bs := Gen.Sampling.attachBlocks
  if Gen.Sampling.treeAfterDedup = true ∧ Gen.Sampling.treeColumns = ["x", "y", "z"] ∧ Gen.Sampling.oldIndexColumn = "node_id"
      ∧ Gen.Sampling.oldIndexBeforeAssign = true
      ∧ bs.all (fun b => b.2.2.1 == 1 && b.2.2.2.2.2.1 && b.2.2.2.2.2.2.1 && b.2.2.2.2.2.2.2) = true then
    some { soma := guardOf bs "soma" "", conn := guardOf bs "connectors" "soma", tags := guardOf bs "tags" "connectors",
           treeFromNew := Gen.Sampling.treeFromNew, posFromOld := bs.all (fun b => b.2.2.2.2.1),
           somaElseClears := Gen.Sampling.somaElseClears }
  else none

/-- Three independent top-level blocks (soma, connectors, tags), one tree query each, the tree built from the new node
table after the de-duplication, positions read from the old table, results indexing the new ids, all before the new
table is assigned to the neuron. -/
theorem gen_attach_rule : genAttachRule = some attachRule0 := by decide

/-- **The re-attachment as written today maps every soma, every connector and every tagged node to the nearest new
node** (`remap0`), each block independently of the other two. -/
theorem gen_reattach_is_model (old new : List (Int × Pt)) (a : Attach) :
    genAttachRule.map (fun r => reattachG r old new a) =
      some { soma := a.soma.map (·.map (remap0 old new)), conn := a.conn.map (·.map (remap0 old new)),
             tags := a.tags.map (·.map fun e => (e.1, e.2.map (remap0 old new))) } := by
  rw [gen_attach_rule, Option.map_some, reattachG_rule0]

/-- `TreeNeuron.downsample` / `.resample` call the functions above with their arguments forwarded; `.simple` is
`downsample(float('inf'))`. -/
theorem gen_methods :
    ("downsample", "downsample_neuron", ["factor", "inplace"], ["**kwargs", "factor", "inplace=True"], [("factor", "5"), ("inplace", "False")]) ∈ Gen.Sampling.methods
    ∧ ("resample", "resample_skeleton", ["resample_to", "inplace"], ["inplace=True", "resample_to"], [("inplace", "False")]) ∈ Gen.Sampling.methods
    ∧ ("simple", "downsample", [], ["float('inf')", "inplace=True"], []) ∈ Gen.Sampling.methods := by decide

/-! ## 2. Downsampling: float factors, inherited root paths -/

/-- **Gap ≤ factor for float factors**: a finite factor `q` is rounded down before the walk, so at most `⌊q⌋` — hence
at most `q` — nodes are dropped between a kept node and its new parent.  (Before navis' fix `5174d76` the unrounded
factor was compared with an integer counter and `⌈q⌉` nodes could be dropped.) -/
theorem downsample_gap_le_floor_factor (t : Table) (hw : WF t) (hl : labelsOKB t = true) (q : Rat) (hq : 0 ≤ q)
    (pres : Option (List Int)) (soma : List Int) (hs : ∀ s ∈ soma, s ∈ ids t) (m : Node)
    (hm : m ∈ downsampleG walkRule0 t (some q) pres soma) (hp : 0 ≤ m.parent) :
    m.parent ∈ (rootPath t m.id).tail ∧ (rootPath t m.id).tail.idxOf m.parent ≤ floorNat q ∧
    (((rootPath t m.id).tail.idxOf m.parent : Nat) : Rat) ≤ q := by
  rw [downsampleG_rule0 hw (some q) pres soma hs] at hm
  obtain ⟨h1, h2⟩ := downsample_gap_le_factor t hw hl (floorNat q) _ m hm hp
  refine ⟨h1, h2, ?_⟩
  have hf0 : 0 ≤ q.floor := Rat.le_floor_iff.mpr (by simpa using hq)
  have h3 : (((rootPath t m.id).tail.idxOf m.parent : Nat) : Int) ≤ q.floor := by
    unfold floorNat at h2
    omega
  calc (((rootPath t m.id).tail.idxOf m.parent : Nat) : Rat)
      = ((((rootPath t m.id).tail.idxOf m.parent : Nat) : Int) : Rat) := by push_cast; rfl
    _ ≤ (q.floor : Rat) := by exact_mod_cast h3
    _ ≤ q := Rat.floor_le q

/-- **Branching structure unchanged, full strength**: the root path of every kept node in the result is its old root
path restricted to the kept nodes. -/
theorem downsample_root_paths_inherited (t : Table) (hw : WF t) (hl : labelsOKB t = true) (f : Option Nat)
    (pres : List Int) (i : Int) (hi : i ∈ ids (downsample t f pres)) :
    rootPath (downsample t f pres) i = (rootPath t i).filter (fun a => (ids (downsample t f pres)).contains a) :=
  rootPath_contract hw (WF_downsample hw f pres) (downsample_contracts hw hl f pres) _ i hi (le_refl _)

/-- Hence the ancestor relation among kept nodes is exactly the old one: no branch is re-attached elsewhere, no two
branches are merged or swapped. -/
theorem downsample_ancestry_unchanged (t : Table) (hw : WF t) (hl : labelsOKB t = true) (f : Option Nat)
    (pres : List Int) (a d : Int) (ha : a ∈ ids (downsample t f pres)) (hd : d ∈ ids (downsample t f pres)) :
    a ∈ rootPath (downsample t f pres) d ↔ a ∈ rootPath t d := by
  rw [downsample_root_paths_inherited t hw hl f pres d hd, List.mem_filter]
  constructor
  · exact fun h => h.1
  · exact fun h => ⟨h, by simpa using ha⟩

/-! ## 3. Resampling: re-attachment of soma, connectors and tags -/

/-- The checker evaluated on navis' own output decides the clause "re-attaches soma, connectors and tags to the nearest
new node" (`AttachSpec`: shapes kept, every entry at minimal distance). -/
theorem attachCheck_sound (old new : List (Int × Pt)) (a b : Attach) (h : attachOKB old new a b = true) :
    AttachSpec old new a b := attachOKB_sound' h

/-- **All three re-attachments pick a nearest new node**: for the as-written model with today's rule, whenever the
new table is non-empty with unique ids and every attached id has an old position. -/
theorem reattach_all_nearest (old new : List (Int × Pt)) (hnd : (new.map (·.1)).Nodup) (hne : new ≠ []) (a : Attach)
    (hloc : a.located old) : AttachSpec old new a (reattachG attachRule0 old new a) :=
  attachOKB_sound' (attachOKB_reattach hnd hne a hloc)

/-- Each single id: `remap0` returns the id of a node of the new table that minimises the distance to the old position
(this ties `nearest_is_argmin` to the three blocks). -/
theorem reattach_id_is_argmin (old new : List (Int × Pt)) (i : Int) (q : Pt) (hq : posOf old i = some q) (hne : new ≠ []) :
    ∃ n ∈ new, n.1 = remap0 old new i ∧ ∀ n' ∈ new, sqd n.2 q ≤ sqd n'.2 q := remap0_nearest hq hne

/-! ## 4. Resampling: radius, mapped numeric columns, categorical columns -/

/-- **One bracket and one parameter for all columns**: x, y, z and the radius of a sampled point are each the
1-d interpolation `interpCol` of that column over the arc lengths — with the same knot pair and the same `τ ∈ [0, 1]`
(`locate`), which is also how any further numeric column passed in `map_columns` is computed. -/
theorem resample_columns_same_parameter (ks : List (Rat × Pt)) (s : Rat) :
    (polyAt ks s).x = interpCol (ks.map (·.1)) (ks.map (·.2.x)) s ∧
    (polyAt ks s).y = interpCol (ks.map (·.1)) (ks.map (·.2.y)) s ∧
    (polyAt ks s).z = interpCol (ks.map (·.1)) (ks.map (·.2.z)) s ∧
    (polyAt ks s).r = interpCol (ks.map (·.1)) (ks.map (·.2.r)) s ∧
    0 ≤ (locate (ks.map (·.1)) s).2 ∧ (locate (ks.map (·.1)) s).2 ≤ 1 :=
  ⟨(interpCol_x ks s).symm, (interpCol_y ks s).symm, (interpCol_z ks s).symm, (interpCol_r ks s).symm,
   locate_range _ s⟩

/-- A mapped numeric column never leaves the interval spanned by the two original values it is interpolated from. -/
theorem resample_column_between (ds vs : List Rat) (s : Rat) :
    (vs.getD (locate ds s).1 0 ≤ interpCol ds vs s ∧ interpCol ds vs s ≤ vs.getD ((locate ds s).1 + 1) 0) ∨
    (vs.getD ((locate ds s).1 + 1) 0 ≤ interpCol ds vs s ∧ interpCol ds vs s ≤ vs.getD (locate ds s).1 0) :=
  interpCol_between ds vs s

/-- **Categorical columns take the value of a nearest original node of the segment** (`kind='nearest'`): the picked
knot is at minimal arc distance from the sample position, exactly half-way the lower knot wins, and the value is an
original one (the code ↔ category translation is the identity). -/
theorem resample_categorical_nearest {α} [BEq α] [LawfulBEq α] [Inhabited α] (ds : List Rat) (hs : ds.Pairwise (· ≤ ·))
    (vs : List α) (hlen : vs.length = ds.length) (hne : ds ≠ []) (s : Rat) :
    ∃ h : nearestIdx ds s < vs.length, catCol ds vs s = vs[nearestIdx ds s] ∧
      ∀ d ∈ ds, (ds.getD (nearestIdx ds s) 0 - s) * (ds.getD (nearestIdx ds s) 0 - s) ≤ (d - s) * (d - s) := by
  have h : nearestIdx ds s < vs.length := hlen ▸ nearestIdx_lt ds s hne
  exact ⟨h, catCol_eq ds vs s h, nearestIdx_spec ds s hs⟩

/-! ## 5. Resampling never increases cable length — over ℝ, exact (irrational) edge lengths -/
open Navis.ResampleR in
/-- **Full strength**: for every polyline `pts` in a real normed space (ℝ³ with the Euclidean norm in particular),
with its exact arc lengths `dist pᵢ pᵢ₊₁`, the chain through the `k + 2` points sampled by arc-length linear
interpolation at `np.linspace(0, L, k + 2)` is at most `L = length of pts` long; the first sample is the first point. -/
theorem resample_not_longer_real {E : Type*} [NormedAddCommGroup E] [NormedSpace ℝ E] (pts : List E) (k : ℕ) :
    chainLenR (samplesR (knotsR 0 pts) (chainLenR pts) k) ≤ chainLenR pts ∧
    ∀ p ps, pts = p :: ps → polyAtR (knotsR 0 pts) 0 = p :=
  ⟨resample_segment_not_longer pts k, fun p ps h => h ▸ polyAtR_knotsR_zero p ps⟩

open Navis.ResampleR in
/-- … and summed over all small segments of a skeleton, with any number of interior nodes per segment. -/
theorem resample_total_not_longer_real {E : Type*} [NormedAddCommGroup E] [NormedSpace ℝ E] (segs : List (List E))
    (kOf : List E → ℕ) :
    (segs.map fun pts => chainLenR (samplesR (knotsR 0 pts) (chainLenR pts) (kOf pts))).sum ≤ (segs.map chainLenR).sum :=
  resample_skeleton_not_longer segs kOf

open Navis.ResampleR in
/-- The sampling map is 1-Lipschitz in the arc-length parameter: two samples are never further apart than the piece
of cable between them (the real-valued form of `resample_chord_le_arc`). -/
theorem resample_chord_le_arc_real {E : Type*} [NormedAddCommGroup E] [NormedSpace ℝ E] (pts : List E) (s s' : ℝ)
    (h : s ≤ s') : ‖polyAtR (knotsR 0 pts) s' - polyAtR (knotsR 0 pts) s‖ ≤ s' - s :=
  norm_polyAtR_sub_le _ (knotsR_arcOK 0 pts) s s' h

open Navis.ResampleR in
/-- **The real model is the executable model on rational data**: in Euclidean 3-space, interpolating cast knots at a cast
position gives the cast of `polyAt` (the function the harness compares with navis' output), the sample lists correspond,
and the real chain length of cast points is the chain length used in `resample_not_longer`. -/
theorem resample_real_model_is_executable_model (ks : List (Rat × Pt)) (s total : Rat) (k : ℕ) (l : List Pt) :
    polyAtR (ks.map castK) (s : ℝ) = toE (polyAt ks s) ∧
    samplesR (ks.map castK) (total : ℝ) k = (samples ks total k).map toE ∧
    chainLenR (l.map toE) = chainLen l :=
  ⟨polyAtR_cast ks s, samplesR_cast ks total k, chainLenR_map_toE l⟩

/-! ## 6. Resampling preserves the branching structure -/

/-- **Branching structure unchanged by resampling, full strength**: every root, leaf and branch point of `t` has exactly
as many children in the resampled table as in `t` (one chain per small segment ending in it), and every fresh node has
exactly one child — so the roots, tips and forks of the result are those of `t` and everything in between is a chain. -/
theorem resample_branching_unchanged (t : Table) (hw : WF t) (cnt : List Int → Option Nat) :
    (∀ n ∈ t, (n.parent < 0 ∨ childCount t n.id ≠ 1) → childCount (resampleStruct t cnt) n.id = childCount t n.id) ∧
    (∀ o ∈ planOf t cnt, ∀ i ∈ fresh o.base o.k, childCount (resampleStruct t cnt) i = 1) :=
  ⟨fun _ hn ha => childCount_resample_anchor hw cnt hn ha, fun _ ho _ hi => childCount_resample_fresh hw cnt ho hi⟩

/-- The children of a root or branch point are counted by the small segments ending in it (what both sides of
`resample_branching_unchanged` are compared through). -/
theorem children_are_segment_ends (t : Table) (hw : WF t) (a : Int) (ha0 : 0 ≤ a) (ha : isBranchOrRoot t a = true) :
    childCount t a = ((smallSegments t).map segLast).count a := childCount_eq_count_last hw ha0 ha

/-! ## 7. Resampling after an arbitrary history -/

/-- **The structural resampling clauses hold after every history** of catalogue operations: the result is a
well-formed, correctly labelled forest, every root / leaf / branch point of the current skeleton keeps id and
coordinates and its number of children, and the ids are the kept anchors plus fresh ids above every current id,
without duplicates. -/
theorem resample_spec_after_history (len : Int → Int → Nat) (t : Table) (hw : WF t) (hl : labelsOKB t = true)
    (ops : List OpAll) (hok : ∀ op ∈ ops, op.ok) (cnt : List Int → Option Nat) :
    let u := ops.foldl (applyAll len) t
    WF (resampleStruct u cnt) ∧ labelsOKB (resampleStruct u cnt) = true ∧
    (∀ n ∈ u, (n.parent < 0 ∨ childCount u n.id ≠ 1) →
      ∃ m ∈ resampleStruct u cnt, m.id = n.id ∧ m.x = n.x ∧ m.y = n.y ∧ m.z = n.z) ∧
    (ids (resampleStruct u cnt)).Nodup ∧
    (∀ o ∈ planOf u cnt, ∀ i ∈ fresh o.base o.k, ∀ j ∈ ids u, j < i) ∧
    (∀ n ∈ u, (n.parent < 0 ∨ childCount u n.id ≠ 1) → childCount (resampleStruct u cnt) n.id = childCount u n.id) := by
  intro u
  obtain ⟨hwu, _⟩ := Navis.Props.C01.opsAll_labels_ok len t hw hl ops hok
  obtain ⟨h1, h2⟩ := resample_WF u hwu cnt
  obtain ⟨_, h4, h5, _⟩ := resample_ids_fresh_unique u hwu cnt
  exact ⟨h1, h2, fun n hn ha => resample_keeps_anchors u hwu cnt n hn ha, h4, h5,
    (resample_branching_unchanged u hwu cnt).1⟩

/-! ## Non-vacuity: concrete inputs meeting the hypotheses -/

/-- root 1 — 2 — 3 (branch) with tips 4 and 5–6–7–8, plus an isolated root 9; all edges have length 3 or 4. -/
def ex : Table :=
  [⟨1, -1, 0, 0, 0, .root⟩, ⟨2, 1, 3, 0, 0, .slab⟩, ⟨3, 2, 6, 0, 0, .branch⟩, ⟨4, 3, 9, 0, 0, .end_⟩,
   ⟨5, 3, 6, 4, 0, .slab⟩, ⟨6, 5, 6, 8, 0, .slab⟩, ⟨7, 6, 6, 12, 0, .slab⟩, ⟨8, 7, 6, 16, 0, .end_⟩, ⟨9, -1, 100, 0, 0, .root⟩]

theorem ex_WF : WF ex := wfB_sound (by decide)
example : labelsOKB ex = true := by decide
example : smallSegments ex = [[3, 2, 1], [4, 3], [8, 7, 6, 5, 3]] := by decide
-- downsampling by 2: 8 → 5 (two dropped: 7, 6), 5 is kept because the scan reaches the `(f+1)`-th ancestor
example : (downsample ex (some 2) []).map (fun n => (n.id, n.parent)) =
    [(1, -1), (3, 1), (4, 3), (5, 3), (8, 5), (9, -1)] := by decide
example : (downsample ex none []).map (fun n => (n.id, n.parent)) = [(1, -1), (3, 1), (4, 3), (8, 3), (9, -1)] := by decide
example : dsCheck ex (downsample ex (some 2) [6]) (some 2) [1, 3, 4, 8, 9, 6] = true := by decide
-- a table that violates the gap clause is rejected by the checker
example : dsCheck ex [⟨1, -1, 0, 0, 0, .root⟩, ⟨3, 1, 6, 0, 0, .branch⟩, ⟨4, 3, 9, 0, 0, .end_⟩, ⟨8, 3, 6, 16, 0, .end_⟩,
    ⟨9, -1, 100, 0, 0, .root⟩] (some 2) [] = false := by decide
-- resampling with one node every 2 units: 3→1 (length 6) gets 1 interior node, 4→3 (length 3) collapses to its ends
-- (round(1.5) = 2 sample positions), 8→3 (length 16) gets 6
example : (resampleStruct ex (cntOf (coordLen ex) 2)).map (fun n => (n.id, n.parent)) =
    [(3, 10), (10, 1), (4, 3), (8, 15), (15, 16), (16, 17), (17, 18), (18, 19), (19, 20), (20, 3), (1, -1), (9, -1)] := by
  decide +kernel
example : roundHalfEven (5 / 2) = 2 ∧ roundHalfEven (7 / 2) = 4 ∧ roundHalfEven (13 / 5) = 3 := by decide +kernel
example : sampleCount 3 2 = some 2 ∧ sampleCount 1 2 = none ∧ sampleCount 2 2 = some 1 := by decide +kernel
example : LensOK [⟨6, 0, 0, 1⟩, ⟨3, 0, 0, 2⟩, ⟨0, 0, 0, 4⟩] [3, 3] := by
  refine ⟨by norm_num, by norm_num [sqd], by norm_num, by norm_num [sqd], trivial⟩
example : interiorPts (knots 0 [⟨6, 0, 0, 1⟩, ⟨3, 0, 0, 2⟩, ⟨0, 0, 0, 4⟩] [3, 3]) 6 1 = [⟨3, 0, 0, 2⟩] := by
  decide +kernel
example : nearest [(1, ⟨0, 0, 0, 0⟩), (2, ⟨10, 0, 0, 0⟩), (3, ⟨4, 0, 0, 0⟩)] ⟨6, 0, 0, 0⟩ = some 3 := by decide +kernel

-- second pass
example : downsampleG walkRule0 ex (some (5 / 2)) none [6] = downsample ex (some 2) [6] := by decide +kernel
example : downsampleG walkRule0 ex (some (7 / 2)) none [] = downsample ex (some 3) [] := by decide +kernel
example : downsampleNeuronG .le 1 walkRule0 ex (some 1) none [] = none := by decide +kernel
example : rootPath (downsample ex (some 2) []) 8 = [8, 5, 3, 1] ∧ rootPath ex 8 = [8, 7, 6, 5, 3, 2, 1] := by decide +kernel
example : resampleStructG resRule0 ex (cntOf (coordLen ex) 2) = resampleStruct ex (cntOf (coordLen ex) 2) := by decide +kernel
example : childCount (resampleStruct ex (cntOf (coordLen ex) 2)) 3 = 2 ∧ childCount ex 3 = 2 := by decide +kernel
-- soma on node 2, connectors on 2 and 3, a tag on 1; new table = nodes 1 and 3: node 2 is half-way (tie: the first wins)
example : reattachG attachRule0 [(1, ⟨0, 0, 0, 0⟩), (2, ⟨3, 0, 0, 0⟩), (3, ⟨6, 0, 0, 0⟩)] [(3, ⟨6, 0, 0, 0⟩), (1, ⟨0, 0, 0, 0⟩)]
    ⟨some [2], some [2, 3], some [("a", [1])]⟩ = ⟨some [3], some [3, 3], some [("a", [1])]⟩ := by decide +kernel
example : attachOKB [(1, ⟨0, 0, 0, 0⟩), (2, ⟨3, 0, 0, 0⟩), (3, ⟨6, 0, 0, 0⟩)] [(3, ⟨6, 0, 0, 0⟩), (1, ⟨0, 0, 0, 0⟩)]
    ⟨some [2], some [2, 3], none⟩ ⟨some [1], some [3, 3], none⟩ = true := by decide +kernel
example : attachOKB [(1, ⟨0, 0, 0, 0⟩), (2, ⟨4, 0, 0, 0⟩), (3, ⟨6, 0, 0, 0⟩)] [(3, ⟨6, 0, 0, 0⟩), (1, ⟨0, 0, 0, 0⟩)]
    ⟨some [2], none, none⟩ ⟨some [1], none, none⟩ = false := by decide +kernel
example : interpCol [0, 3, 6] [1, 2, 4] 5 = 10 / 3 ∧ nearestIdx [0, 3, 6] (3 / 2) = 0 ∧ nearestIdx [0, 3, 6] 2 = 1 := by decide +kernel
example : catCol [0, 3, 6] ["ax", "de", "ax"] 4 = "de" ∧ catCol [0, 3, 6] ["ax", "de", "ax"] 5 = "ax" := by decide +kernel

end Navis.Props.C13
