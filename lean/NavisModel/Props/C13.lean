import NavisModel.Model.Resample
namespace Navis.Props.C13
open Navis.Forest Navis.Resample

theorem fresh_length (base : Int) (k : Nat) : (fresh base k).length = k := by
  simp [fresh]

end Navis.Props.C13
