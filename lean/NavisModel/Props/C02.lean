import NavisModel.Proofs.CacheLemmas
import NavisModel.Gen.CacheSpec
/-!
# C02 — derived views always agree with the current node table

Property theorems only; helper lemmas are in `Proofs/CacheLemmas.lean`, the protocol model in
`Model/Cache.lean`, and `spec` (TEMP_ATTR, CORE_DATA, the `@temp_property` views, the `exclude` literal of
every `_clear_temp_attr` call site, the shapes of `is_stale` / `_clear_temp_attr` / the wrapper / `copy` /
`__getstate__`) is **generated from the navis source** (`Gen/CacheSpec.lean`), so every theorem below that
mentions `spec` is re-checked against what the code says now.

Reading guide.  A state records, for every cache entry, the content id it was computed from; `ver` is the
content of the hashed columns now; the hash is modelled as the identity on content ids (injective hash:
trusted base).  A read "returns a value computed before a change" iff the returned tag differs from `ver`.
-/
namespace Navis.Props.C02
open Navis.Cache Navis.Gen.CacheSpec

/-! ### Obligations over the generated spec -/

/-- The source-level obligations hold for the code as it is now: every cache attribute is registered in
`TEMP_ATTR`, no `exclude` literal of any `_clear_temp_attr` call site names a cache attribute (so every
effective clear drops every cache), `is_stale` recomputes the checksum comparison, `_clear_temp_attr`
re-stamps and deletes, and the `temp_property` wrapper is `if not locked: if is_stale: clear`. -/
theorem spec_sound : Sound spec := by unfold Sound; decide

/-- No call site keeps a cache across a clear (today the literals `"igraph"`, `"graph"`, `"segments"`, …
never match the attribute names `"_igraph"`, `"_graph_nx"`, `"_segments"`). -/
theorem excludes_retain_nothing : ∀ c ∈ spec.clearSites, ∀ v ∈ spec.views, exclMatches spec c.excl v.attr = false :=
  (sound_facts spec_sound).exclFree

/-- Every wrapped view is computed from hashed columns only: the checksum covers its inputs.  The one
exception is written into the statement: `simple` (a whole neuron) also carries `radius`, which no version
of `CORE_DATA` hashes — finding `TreeNeuron.simple/radius-not-in-CORE_DATA`; the exception is vacuous while
`simple` is not wrapped at all. -/
theorem deps_covered : ∀ v ∈ wrappedViews spec, ∀ c ∈ viewDeps v.name,
    c ∈ spec.coreCols ∨ (v.name = "simple" ∧ c = "radius") := by decide

/-- `simple` depends on a column outside the generated `CORE_DATA` (so even with the wrapper a direct edit
of `radius` is not noticed) — unless a later version hashes `radius`. -/
theorem simple_depends_on_unhashed_radius :
    "radius" ∈ spec.coreCols ∨ ∃ c ∈ viewDeps "simple", c ∉ spec.coreCols := by decide

/-- Every lazily cached view named by the property statement (graphs, segments, geodesic matrix, cable
length, adjacency) carries the staleness wrapper. -/
theorem wrapped_complete : ∀ n ∈ expectedWrapped, ∃ v ∈ spec.views, v.name = n ∧ v.wrapped = true := by decide

/-! ### Freshness for all histories -/

/-- One admissible primitive event preserves the invariant (`change` produces content not seen before,
clears use an `exclude` literal that occurs in the source, only registered attributes are written). -/
theorem step_preserves (s : St) (e : Ev) (h : J spec s) (ha : admB spec s e = true) : J spec (step spec s e) :=
  J_step (sound_facts spec_sound) h e ha

/-- **Main theorem.** After *any* admissible history — any interleaving, of any length, of `is_stale`
evaluations, clears (effective or swallowed by the lock), cache writes (reads, co-edited graphs),
content changes (direct edits, table replacement, mutations inside operations), lock / unlock, copies,
pickle round trips — if the stamp says "current" then every cache entry was computed from the
current content. -/
theorem history_fresh (es : List Ev) (ha : admAll spec init es = true) : Inv (run spec init es) :=
  (J_run (sound_facts spec_sound) es init (J_init spec) ha).inv

/-- A read of a wrapped view on an unlocked neuron returns a value computed from the current content,
whatever is in the cache. -/
theorem read_returns_current (s : St) (h : J spec s) (hl : s.lock = 0) (v : View) (hv : v ∈ wrappedViews spec) :
    readTag spec s v = some s.ver ∧ (readS spec s v).ver = s.ver :=
  read_current (sound_facts spec_sound) h hl (by simp [wrappedViews] at hv; exact hv.2)

/-- **A value computed before a change is never returned after it**: after any admissible history that
leaves the neuron unlocked, the next read of any wrapped view returns the view of the current content. -/
theorem never_returns_older_value (es : List Ev) (ha : admAll spec init es = true)
    (hl : (run spec init es).lock = 0) (v : View) (hv : v ∈ wrappedViews spec) :
    readTag spec (run spec init es) v = some (run spec init es).ver :=
  (read_returns_current _ (J_run (sound_facts spec_sound) es init (J_init spec) ha) hl v hv).1

/-- Every operation of the generated table — optional lock, reads under the lock, a change, more cache
writes (graphs edited in step / carried over), its `_clear_temp_attr(exclude=…)`, unlock — preserves the
invariant; in particular deleting the explicit clear (`withClear = false`) does not break it. -/
theorem operation_preserves (c : ClearSite) (hc : c ∈ spec.clearSites) (s : St) (h : J spec s)
    (pre post : List View) (hpre : ∀ v ∈ pre, v ∈ spec.views) (hpost : ∀ v ∈ post, v ∈ spec.views)
    (v t : Nat) (hv : s.hi ≤ v) (withClear : Bool) :
    J spec (run spec s ((if c.locked then [Ev.lock] else []) ++ pre.map (fun w => Ev.write w.attr) ++ [Ev.change v t]
      ++ post.map (fun w => Ev.write w.attr) ++ (if withClear then [Ev.clear c.excl] else [])
      ++ (if c.locked then [Ev.unlock] else []))) := by
  have hs := sound_facts spec_sound
  have hk : knownExcl spec c.excl = true := by
    unfold knownExcl; simp only [Bool.or_eq_true, List.any_eq_true]
    exact Or.inr ⟨c, hc, by simp⟩
  -- events that neither change the content nor need a side condition
  have safe : ∀ (es : List Ev), (∀ e ∈ es, e = .lock ∨ e = .unlock ∨ (∃ w ∈ spec.views, e = .write w.attr) ∨
      e = .clear c.excl) → ∀ s, J spec s → J spec (run spec s es) ∧ (run spec s es).hi = s.hi := by
    intro es
    induction es with
    | nil => intro _ s h; exact ⟨h, rfl⟩
    | cons e es ih =>
      intro he s h
      have h1 : J spec (step spec s e) ∧ (step spec s e).hi = s.hi := by
        rcases he e (by simp) with rfl | rfl | ⟨w, hw, rfl⟩ | rfl
        · exact ⟨⟨h.md5_lt, h.ver_lt, h.attrs, h.fresh⟩, rfl⟩
        · exact ⟨⟨h.md5_lt, h.ver_lt, h.attrs, h.fresh⟩, rfl⟩
        · exact ⟨J_put h (mem_cachedAttrs.mpr ⟨w, hw, rfl⟩), rfl⟩
        · refine ⟨J_clear hs h hk, ?_⟩
          simp only [step, clearS, clearBase, classifyS]
          split <;> split <;> rfl
      obtain ⟨a, b⟩ := ih (fun e' he' => he e' (by simp [he'])) _ h1.1
      exact ⟨a, b.trans h1.2⟩
  have hA : ∀ e ∈ (if c.locked then [Ev.lock] else []) ++ pre.map (fun w => Ev.write w.attr),
      e = .lock ∨ e = .unlock ∨ (∃ w ∈ spec.views, e = .write w.attr) ∨ e = .clear c.excl := by
    intro e he
    rw [List.mem_append] at he
    rcases he with he | he
    · split at he <;> simp at he; exact Or.inl he
    · obtain ⟨w, hw, rfl⟩ := List.mem_map.mp he
      exact Or.inr (Or.inr (Or.inl ⟨w, hpre w hw, rfl⟩))
  have hB : ∀ e ∈ post.map (fun w => Ev.write w.attr) ++ (if withClear then [Ev.clear c.excl] else [])
      ++ (if c.locked then [Ev.unlock] else []),
      e = .lock ∨ e = .unlock ∨ (∃ w ∈ spec.views, e = .write w.attr) ∨ e = .clear c.excl := by
    intro e he
    rw [List.mem_append, List.mem_append] at he
    rcases he with (he | he) | he
    · obtain ⟨w, hw, rfl⟩ := List.mem_map.mp he
      exact Or.inr (Or.inr (Or.inl ⟨w, hpost w hw, rfl⟩))
    · split at he <;> simp at he; exact Or.inr (Or.inr (Or.inr he))
    · split at he <;> simp at he; exact Or.inr (Or.inl he)
  have e : (if c.locked then [Ev.lock] else []) ++ pre.map (fun w => Ev.write w.attr) ++ [Ev.change v t]
      ++ post.map (fun w => Ev.write w.attr) ++ (if withClear then [Ev.clear c.excl] else [])
      ++ (if c.locked then [Ev.unlock] else []) =
      ((if c.locked then [Ev.lock] else []) ++ pre.map (fun w => Ev.write w.attr)) ++ ([Ev.change v t]
      ++ (post.map (fun w => Ev.write w.attr) ++ (if withClear then [Ev.clear c.excl] else [])
      ++ (if c.locked then [Ev.unlock] else []))) := by simp [List.append_assoc]
  rw [e, run_append, run_append]
  obtain ⟨j1, h1⟩ := safe _ hA s h
  have j2 := J_step hs j1 (.change v t) (by simp [admB, h1, hv])
  exact (safe _ hB _ j2).1

/-- `copy`: the copy of a stale neuron is re-stamped and carries no cache; entries are only carried over
together with a valid stamp. -/
theorem copy_of_stale_is_clean (s : St) (h : J spec s) (hst : (isStaleS spec s).stale = true) :
    (copyS spec s).md5 = s.ver ∧ (copyS spec s).stale = false ∧ (copyS spec s).cache = [] ∧ (copyS spec s).lock = 0 := by
  have hs := sound_facts spec_sound
  have hc : spec.copyClearsIfStale = true := by decide
  have hn : "_lock" ∈ spec.copyNoCopy := by decide
  have hu : unlocked spec s = { s with lock := 0 } := by simp [unlocked, hn]
  have hr : retained spec [] s.cache = [] := retained_nil hs (knownExcl_nil spec) h.attrs
  unfold copyS
  rw [if_pos hst, if_pos hc, hu]
  simp [clearS, clearBase, classifyS, hs.restamps, hs.deletes, hr]

/-- **Failed calls.** A call of a `@lock_neuron` function (reroot_skeleton, subset_neuron, dist_between, …)
that *raises* — after any reads / cache writes / changes in its body — leaves the lock counter where it
was (the generated spec says the release sits in a `finally:`), so an unlocked neuron stays unlocked and
`read_returns_current` keeps applying to it. -/
theorem failed_call_releases_lock (s : St) (body : List Ev) (hb : ∀ e ∈ body, lockNeutral e = true) (raises : Bool) :
    (run spec s (lockedCall spec body raises)).lock = s.lock :=
  lockedCall_lock (by decide) s body hb raises

/-- … and a call that raises before doing anything has no effect on the protocol state at all. -/
theorem failed_call_is_noop (s : St) : run spec s (lockedCall spec [] true) = s := by
  have hf : spec.lockFinally = true := by decide
  simp [lockedCall, hf, run, step]

/-- Edit / undo on an unlocked neuron: content may return to *any* earlier value (no freshness assumption
on `change`); as long as no operation holding the lock intervenes and only wrapped views are read, the
invariant holds after every history. -/
theorem edit_undo_fresh (us : List UEv) (hu : ∀ u ∈ us, UAdm spec u) : Inv (urun spec init us) :=
  (K_urun (sound_facts spec_sound) us init (K_init spec) hu).inv

/-! ### What is *not* true of the code as it is (negations, with concrete witnesses) -/

/-- A cached view *without* the wrapper (the generated spec lists `simple`) returns the value computed
before a change: read it, change the content, read it again. -/
theorem unwrapped_returns_stale (v : View) (hv : v ∈ unwrappedViews spec) (s : St) (habs : has s v.attr = false)
    (v' t : Nat) (hne : v' ≠ s.ver) :
    let s' := step spec (readS spec s v) (.change v' t)
    readTag spec s' v = some s.ver ∧ s'.ver = v' ∧ readTag spec s' v ≠ some s'.ver := by
  intro s'
  have hw : v.wrapped = false := by simp [unwrappedViews] at hv; simpa using hv.2
  obtain ⟨a, b⟩ := unwrapped_stale spec s v hw habs v' t
  refine ⟨a, b, ?_⟩
  rw [a, b]; intro h; exact hne (Option.some.inj h).symm

/-- The 3-event witness for `simple` (independent of the generated spec): read, change, read. -/
theorem simple_witness :
    let v : View := ⟨"simple", "_simple", false, true⟩
    let s := step spec (readS spec init v) (.change 1 0)
    readTag spec s v = some 0 ∧ s.ver = 1 := by decide

/-- Operation under the lock that writes a cache from the changed table (the graph `reroot_skeleton`
edits in step, the subgraph `subset_neuron` carries over) followed by restoring the *exact* earlier
content: the stamp says "current" and the wrapped read returns the graph of the other content.  This is the
ABA hole of a checksum taken only at effective clears; `history_fresh` excludes it by the freshness
hypothesis on `change`, `edit_undo_fresh` by excluding lock-holding operations. -/
theorem locked_coedit_aba_witness :
    let v : View := ⟨"igraph", "_igraph", true, false⟩
    let s := run spec init [.isStale, .write "_igraph", .lock, .change 1 1, .write "_igraph", .unlock,
                            .change 0 0, .classify]
    stampCurrent s = true ∧ readTag spec s v = some 1 ∧ s.ver = 0 := by decide

/-- The `type` column (leaf / branch / root sets): a direct in-place edit of `parent_id` followed by an
operation whose clear excludes `"classify_nodes"` (`x *= 2`) leaves the stamp current and the `type`
column computed from the old topology … -/
theorem type_stale_witness :
    let s := run spec init [.change 1 1, .clear ["classify_nodes"]]
    stampCurrent s = true ∧ s.typeVer ≠ s.tver := by decide

/-- … and no later read repairs it while the stamp stays current. -/
theorem type_stale_persists (s : St) (hst : s.stale = false) (hm : s.md5 = s.ver) (v : View) :
    (readS spec s v).typeVer = s.typeVer ∧ (readS spec s v).tver = s.tver ∧
    (readS spec s v).md5 = (readS spec s v).ver :=
  read_keeps_type spec hst hm v

/-! ### The `type` column: what does hold -/

/-- Every event other than a change of `node_id,parent_id` keeps a fresh `type` column fresh
(`classify_nodes` and every clear without `"classify_nodes"` establish it). -/
theorem type_kept_fresh (s : St) (e : Ev) (h : s.typeVer = s.tver) (he : ∀ v t, e = .change v t → t = s.tver) :
    (step spec s e).typeVer = (step spec s e).tver :=
  type_kept spec s e h he

/-- After a change of the hashed content the next wrapped read re-classifies. -/
theorem read_after_change_reclassifies (s : St) (hl : s.lock = 0) (hne : s.md5 ≠ s.ver) (v : View)
    (hv : v ∈ wrappedViews spec) : (readS spec s v).typeVer = (readS spec s v).tver :=
  read_reclassifies (sound_facts spec_sound) hl hne (by simp [wrappedViews] at hv; exact hv.2)

/-! ### Non-vacuity -/

-- a non-trivial admissible history: warm two caches, edit, read, locked operation, copy, pickle
example : admAll spec init
    [.enter "graph", .isStale, .write "_graph_nx", .exit "graph", .write "_segments", .change 1 1,
     .isStale, .clear [], .write "_segments", .lock, .change 2 2, .write "_igraph",
     .clear ["igraph", "classify_nodes"], .unlock, .copy, .pickle, .change 3 2, .clear ["classify_nodes"]] = true := by
  decide
example : 7 ≤ (wrappedViews spec).length := by decide
example : stampCurrent (run spec init [.isStale, .write "_segments"]) = true := by decide
example : UAdm spec (.read ⟨"segments", "_segments", true, false⟩) := ⟨by decide, rfl⟩
-- the locked operation above leaves old entries with an old stamp (premise of `Inv` false), the next read repairs
example : let s := run spec init [.write "_segments", .lock, .change 1 1, .clear ["graph", "classify_nodes"], .unlock]
    stampCurrent s = false ∧ tagOf s "_segments" = some 0 ∧
    readTag spec s ⟨"segments", "_segments", true, false⟩ = some 1 := by decide

end Navis.Props.C02
