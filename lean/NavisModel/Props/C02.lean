import NavisModel.Proofs.CacheLemmas
import NavisModel.Proofs.CacheTraceLemmas
import NavisModel.Gen.CacheSpec
/-!
# C02 — derived views always agree with the current node table

Property theorems only; helper lemmas are in `Proofs/CacheLemmas.lean`, the protocol model in
`Model/Cache.lean`, and `spec` (TEMP_ATTR, CORE_DATA, the `@temp_property` views, the `exclude` literal of
every `_clear_temp_attr` call site, the shapes of `is_stale` / `_clear_temp_attr` / the wrapper / `copy` /
`__getstate__`) is **generated from the navis source** (`Gen/CacheSpec.lean`), so every theorem below that
mentions `spec` is re-checked against what the code says now.

Reading guide.  A state records, for every cache entry, the content id it was computed from; `ver` is the
content of the hashed columns now; the hash is modelled as the identity on content ids (injective hash:
trusted base).  A read "returns a value computed before a change" iff the returned tag differs from `ver`.
-/
namespace Navis.Props.C02
open Navis.Cache Navis.Gen.CacheSpec

/-! ### Obligations over the generated spec -/

/-- The source-level obligations hold for the code as it is now: every cache attribute is registered in
`TEMP_ATTR`, no `exclude` literal of any `_clear_temp_attr` call site names a cache attribute (so every
effective clear drops every cache), `is_stale` recomputes the checksum comparison, `_clear_temp_attr`
re-stamps and deletes, and the `temp_property` wrapper is `if not locked: if is_stale: clear`. -/
theorem spec_sound : Sound spec := by unfold Sound; decide

/-- No call site keeps a cache across a clear (today the literals `"igraph"`, `"graph"`, `"segments"`, …
never match the attribute names `"_igraph"`, `"_graph_nx"`, `"_segments"`). -/
theorem excludes_retain_nothing : ∀ c ∈ spec.clearSites, ∀ v ∈ spec.views, exclMatches spec c.excl v.attr = false :=
  (sound_facts spec_sound).exclFree

/-- Every wrapped view is computed from hashed columns only: the checksum covers its inputs.  The one
exception is written into the statement: `simple` (a whole neuron) also carries `radius`, which no version
of `CORE_DATA` hashes — finding `TreeNeuron.simple/radius-not-in-CORE_DATA`; the exception is vacuous while
`simple` is not wrapped at all. -/
theorem deps_covered : ∀ v ∈ wrappedViews spec, ∀ c ∈ viewDeps v.name,
    c ∈ spec.coreCols ∨ (v.name = "simple" ∧ c = "radius") := by decide

/-- `simple` depends on a column outside the generated `CORE_DATA` (so even with the wrapper a direct edit
of `radius` is not noticed) — unless a later version hashes `radius`. -/
theorem simple_depends_on_unhashed_radius :
    "radius" ∈ spec.coreCols ∨ ∃ c ∈ viewDeps "simple", c ∉ spec.coreCols := by decide

/-- Every lazily cached view named by the property statement (graphs, segments, geodesic matrix, cable
length, adjacency) carries the staleness wrapper. -/
theorem wrapped_complete : ∀ n ∈ expectedWrapped, ∃ v ∈ spec.views, v.name = n ∧ v.wrapped = true := by decide

/-! ### Freshness for all histories -/

/-- One admissible primitive event preserves the invariant (`change` produces content not seen before,
clears use an `exclude` literal that occurs in the source, only registered attributes are written). -/
theorem step_preserves (s : St) (e : Ev) (h : J spec s) (ha : admB spec s e = true) : J spec (step spec s e) :=
  J_step (sound_facts spec_sound) h e ha

/-- **Main theorem.** After *any* admissible history — any interleaving, of any length, of `is_stale`
evaluations, clears (effective or swallowed by the lock), cache writes (reads, co-edited graphs),
content changes (direct edits, table replacement, mutations inside operations), lock / unlock, copies,
pickle round trips — if the stamp says "current" then every cache entry was computed from the
current content. -/
theorem history_fresh (es : List Ev) (ha : admAll spec init es = true) : Inv (run spec init es) :=
  (J_run (sound_facts spec_sound) es init (J_init spec) ha).inv

/-- A read of a wrapped view on an unlocked neuron returns a value computed from the current content,
whatever is in the cache. -/
theorem read_returns_current (s : St) (h : J spec s) (hl : s.lock = 0) (v : View) (hv : v ∈ wrappedViews spec) :
    readTag spec s v = some s.ver ∧ (readS spec s v).ver = s.ver :=
  read_current (sound_facts spec_sound) h hl (by simp [wrappedViews] at hv; exact hv.2)

/-- **A value computed before a change is never returned after it**: after any admissible history that
leaves the neuron unlocked, the next read of any wrapped view returns the view of the current content. -/
theorem never_returns_older_value (es : List Ev) (ha : admAll spec init es = true)
    (hl : (run spec init es).lock = 0) (v : View) (hv : v ∈ wrappedViews spec) :
    readTag spec (run spec init es) v = some (run spec init es).ver :=
  (read_returns_current _ (J_run (sound_facts spec_sound) es init (J_init spec) ha) hl v hv).1

/-- Every operation of the generated table — (for `@lock_neuron` functions) the wrapper's entry check and the
lock, reads under the lock, a change, more cache writes (graphs edited in step / carried over), its
`_clear_temp_attr(exclude=…)`, unlock — preserves the invariant; in particular deleting the explicit clear
(`withClear = false`) does not break it. -/
theorem operation_preserves (c : ClearSite) (hc : c ∈ spec.clearSites) (s : St) (h : J spec s)
    (pre post : List View) (hpre : ∀ v ∈ pre, v ∈ spec.views) (hpost : ∀ v ∈ post, v ∈ spec.views)
    (v t : Nat) (hv : s.hi ≤ v) (withClear : Bool) :
    J spec (run spec s (opPrims spec s c pre post v t withClear)) := by
  have hs := sound_facts spec_sound
  have hk : knownExcl spec c.excl = true := by
    unfold knownExcl; simp only [Bool.or_eq_true, List.any_eq_true]
    exact Or.inr ⟨c, hc, by simp⟩
  -- events that neither change the content nor need a side condition
  have safe : ∀ (es : List Ev), (∀ e ∈ es, e = .lock ∨ e = .unlock ∨ (∃ w ∈ spec.views, e = .write w.attr) ∨
      e = .clear c.excl ∨ e = .isStale ∨ e = .clear []) → ∀ s, J spec s → J spec (run spec s es) ∧ (run spec s es).hi = s.hi := by
    intro es
    induction es with
    | nil => intro _ s h; exact ⟨h, rfl⟩
    | cons e es ih =>
      intro he s h
      have h1 : J spec (step spec s e) ∧ (step spec s e).hi = s.hi := by
        rcases he e (by simp) with rfl | rfl | ⟨w, hw, rfl⟩ | rfl | rfl | rfl
        · exact ⟨⟨h.md5_lt, h.ver_lt, h.attrs, h.fresh⟩, rfl⟩
        · exact ⟨⟨h.md5_lt, h.ver_lt, h.attrs, h.fresh⟩, rfl⟩
        · exact ⟨J_put h (mem_cachedAttrs.mpr ⟨w, hw, rfl⟩), rfl⟩
        · refine ⟨J_clear hs h hk, ?_⟩
          simp only [step, clearS, clearBase, classifyS]
          split <;> split <;> rfl
        · exact ⟨J_isStale h, (isStaleS_fields spec s).2.1⟩
        · refine ⟨J_clear hs h (knownExcl_nil spec), ?_⟩
          simp only [step, clearS, clearBase, classifyS]
          split <;> split <;> rfl
      obtain ⟨a, b⟩ := ih (fun e' he' => he e' (by simp [he'])) _ h1.1
      exact ⟨a, b.trans h1.2⟩
  have hE : ∀ e ∈ lockEntryPrims spec s, e = Ev.isStale ∨ e = Ev.clear [] := by
    intro e he
    unfold lockEntryPrims at he
    split at he
    · simp at he
    · split at he <;> simp at he
      · exact he
      · exact Or.inl he
  have hA : ∀ e ∈ (if c.locked then lockEntryPrims spec s ++ [Ev.lock] else []) ++ pre.map (fun w => Ev.write w.attr),
      e = .lock ∨ e = .unlock ∨ (∃ w ∈ spec.views, e = .write w.attr) ∨ e = .clear c.excl ∨ e = .isStale ∨ e = .clear [] := by
    intro e he
    rw [List.mem_append] at he
    rcases he with he | he
    · split at he
      · rw [List.mem_append] at he
        rcases he with he | he
        · rcases hE e he with rfl | rfl
          · exact Or.inr (Or.inr (Or.inr (Or.inr (Or.inl rfl))))
          · exact Or.inr (Or.inr (Or.inr (Or.inr (Or.inr rfl))))
        · simp at he; exact Or.inl he
      · simp at he
    · obtain ⟨w, hw, rfl⟩ := List.mem_map.mp he
      exact Or.inr (Or.inr (Or.inl ⟨w, hpre w hw, rfl⟩))
  have hB : ∀ e ∈ post.map (fun w => Ev.write w.attr) ++ (if withClear then [Ev.clear c.excl] else [])
      ++ (if c.locked then [Ev.unlock] else []),
      e = .lock ∨ e = .unlock ∨ (∃ w ∈ spec.views, e = .write w.attr) ∨ e = .clear c.excl ∨ e = .isStale ∨ e = .clear [] := by
    intro e he
    rw [List.mem_append, List.mem_append] at he
    rcases he with (he | he) | he
    · obtain ⟨w, hw, rfl⟩ := List.mem_map.mp he
      exact Or.inr (Or.inr (Or.inl ⟨w, hpost w hw, rfl⟩))
    · split at he <;> simp at he; exact Or.inr (Or.inr (Or.inr (Or.inl he)))
    · split at he <;> simp at he; exact Or.inr (Or.inl he)
  have e : opPrims spec s c pre post v t withClear =
      ((if c.locked then lockEntryPrims spec s ++ [Ev.lock] else []) ++ pre.map (fun w => Ev.write w.attr)) ++ ([Ev.change v t]
      ++ (post.map (fun w => Ev.write w.attr) ++ (if withClear then [Ev.clear c.excl] else [])
      ++ (if c.locked then [Ev.unlock] else []))) := by simp [opPrims, List.append_assoc]
  rw [e, run_append, run_append]
  obtain ⟨j1, h1⟩ := safe _ hA s h
  have j2 := J_step hs j1 (.change v t) (by simp [admB, h1, hv])
  exact (safe _ hB _ j2).1

/-- `copy`: the copy of a stale neuron is re-stamped and carries no cache; entries are only carried over
together with a valid stamp. -/
theorem copy_of_stale_is_clean (s : St) (h : J spec s) (hst : (isStaleS spec s).stale = true) :
    (copyS spec s).md5 = s.ver ∧ (copyS spec s).stale = false ∧ (copyS spec s).cache = [] ∧ (copyS spec s).lock = 0 := by
  have hs := sound_facts spec_sound
  have hc : spec.copyClearsIfStale = true := by decide
  have hn : "_lock" ∈ spec.copyNoCopy := by decide
  have hu : unlocked spec s = { s with lock := 0 } := by simp [unlocked, hn]
  have hr : retained spec [] s.cache = [] := retained_nil hs (knownExcl_nil spec) h.attrs
  unfold copyS
  rw [if_pos hst, if_pos hc, hu]
  simp [clearS, clearBase, classifyS, hs.restamps, hs.deletes, hr]

/-- **Failed calls.** A call of a `@lock_neuron` function (reroot_skeleton, subset_neuron, dist_between, …)
that *raises* — after any reads / cache writes / changes in its body — leaves the lock counter where it
was (the generated spec says the release sits in a `finally:`), so an unlocked neuron stays unlocked and
`read_returns_current` keeps applying to it. -/
theorem failed_call_releases_lock (s : St) (body : List Ev) (hb : ∀ e ∈ body, lockNeutral e = true) (raises : Bool) :
    (run spec s (lockedCall spec s body raises)).lock = s.lock :=
  lockedCall_lock (by decide) s body hb raises

/-- … and a call that raises before doing anything has exactly the effect of the wrapper's entry check
(`is_stale`, and a clear if stale) — in particular it has no effect at all on a neuron that is locked or whose
stamp is current. -/
theorem failed_call_is_noop (s : St) :
    run spec s (lockedCall spec s [] true) = run spec s (lockEntryPrims spec s) ∧
    ((0 < s.lock ∨ (s.stale = false ∧ s.md5 = s.ver)) → run spec s (lockedCall spec s [] true) = s) := by
  have hf : spec.lockFinally = true := by decide
  have e1 : run spec s (lockedCall spec s [] true) = run spec s (lockEntryPrims spec s) := by
    have hlk := lockedCall_lock hf s [] (by simp) true
    unfold lockedCall at hlk ⊢
    simp only [hf, Bool.not_true, Bool.and_false, Bool.false_eq_true, if_false, List.append_nil] at hlk ⊢
    rw [List.append_assoc, run_append] at hlk ⊢
    have h0 := run_lock_neutral spec (lockEntryPrims spec s) s (lockEntryPrims_neutral spec s)
    generalize run spec s (lockEntryPrims spec s) = s0 at h0 hlk ⊢
    show { ({ s0 with lock := s0.lock + 1 } : St) with lock := s0.lock + 1 - 1 } = s0
    cases s0; simp
  refine ⟨e1, ?_⟩
  intro hc
  rw [e1]
  rcases hc with hl | ⟨hst, hm⟩
  · have : lockEntryPrims spec s = [] := by unfold lockEntryPrims; simp [hl]
    rw [this]; rfl
  · have hns : isStaleS spec s = s := by
      unfold isStaleS
      have h1 : spec.isStaleRecomputes = true := by decide
      simp only [hst, Bool.and_false, Bool.false_eq_true, if_false, h1, if_true]
      cases s; simp_all
    unfold lockEntryPrims
    split
    · rfl
    · rw [hns, hst]; simp only [Bool.false_eq_true, if_false]
      show isStaleS spec s = s
      exact hns

/-- A locked call whose body consists of admissible events preserves the invariant (the entry check is an
`is_stale` evaluation and possibly a clear with the default `exclude`: admissible). -/
theorem locked_call_preserves (s : St) (h : J spec s) (body : List Ev) (raises : Bool)
    (hb : admAll spec (run spec s (lockEntryPrims spec s ++ [Ev.lock])) body = true) :
    J spec (run spec s (lockedCall spec s body raises)) := by
  have hs := sound_facts spec_sound
  have j0 : J spec (run spec s (lockEntryPrims spec s ++ [Ev.lock])) := by
    rw [run_append]
    have := J_lockEntry hs h
    exact ⟨this.md5_lt, this.ver_lt, this.attrs, this.fresh⟩
  have j1 : J spec (run spec s (lockEntryPrims spec s ++ [Ev.lock] ++ body)) := by
    rw [run_append]; exact J_run hs body _ j0 hb
  unfold lockedCall
  rw [run_append]
  split
  · exact j1
  · exact ⟨j1.md5_lt, j1.ver_lt, j1.attrs, j1.fresh⟩

/-! ### Reads inside a locked operation (fix 4ae1633: `lock_neuron` validates the caches before locking) -/

/-- The generated spec says that `lock_neuron` evaluates `is_stale` (and clears if stale) on an unlocked neuron
before it increments the lock counter.  Reverting the fix turns this into `false` and the next three theorems
stop checking. -/
theorem lock_validates_before_locking : spec.lockChecksStale = true := by decide

/-- When a `@lock_neuron` function (reroot_skeleton, subset_neuron, dist_between, dist_to_root, distal_to,
segment_length, classify_nodes) is entered on an unlocked neuron, then at the moment the lock is taken the
content is what it was at entry and **every** cache entry — wrapped or not — was computed from that content,
whatever was cached before and however the table was edited before the call. -/
theorem lock_entry_establishes (s : St) (h : J spec s) (hl : s.lock = 0) :
    let s1 := run spec s (lockEntryPrims spec s ++ [Ev.lock])
    s1.ver = s.ver ∧ s1.lock = 1 ∧ (∀ p ∈ s1.cache, p.2 = s.ver) ∧ J spec s1 :=
  lockEntry_establishes (sound_facts spec_sound) lock_validates_before_locking h hl

/-- **A read of a cached view inside a locked operation that was entered on an unlocked neuron returns a value
computed from the content at entry** — for every view, after any number of earlier reads under the same lock
(the staleness wrapper is skipped while the lock is held, so this rests on the entry check alone). -/
theorem locked_read_returns_entry_content (s : St) (h : J spec s) (hl : s.lock = 0) (vs : List View) (v : View) :
    readTag spec (readsS spec (run spec s (lockEntryPrims spec s ++ [Ev.lock])) vs) v = some s.ver :=
  locked_read_entry (sound_facts spec_sound) lock_validates_before_locking h hl vs v

/-- … in particular after any admissible history that leaves the neuron unlocked (warm caches, direct in-place
edits, operations, copies, pickling in any order): the graph a locked operation works on is the graph of the
table it was called with. -/
theorem locked_read_after_any_history (es : List Ev) (ha : admAll spec init es = true)
    (hl : (run spec init es).lock = 0) (v : View) :
    let s := run spec init es
    readTag spec (run spec s (lockEntryPrims spec s ++ [Ev.lock])) v = some s.ver :=
  locked_read_returns_entry_content _ (J_run (sound_facts spec_sound) es init (J_init spec) ha) hl [] v

/-- **Negation for the code before the fix** (`lockChecksStale = false`, everything else as generated): warm the
networkx graph, edit the table in place, call a locked operation — the read under the lock returns the graph of
the OLD table (content 0) although the table has content 1.  This is the history of finding
`lock_neuron/no-staleness-check-before-lock` (read graph → `x.nodes.loc[…,'parent_id'] = …` → `x.reroot(…)`). -/
theorem unchecked_lock_witness :
    let sp := { spec with lockChecksStale := false }
    let v : View := ⟨"graph", "_graph_nx", true, false⟩
    let s := run sp (readS sp init v) [.change 1 1]
    s.lock = 0 ∧ s.ver = 1 ∧ readTag sp (run sp s (lockEntryPrims sp s ++ [Ev.lock])) v = some 0 := by decide

/-- … and in general: without the entry check a read under the lock returns whatever is cached. -/
theorem unchecked_lock_returns_cached (sp : Spec) (hf : sp.lockChecksStale = false) (s : St) (v : View) (old : Nat)
    (ht : tagOf s v.attr = some old) :
    readTag sp (run sp s (lockEntryPrims sp s ++ [Ev.lock])) v = some old :=
  unchecked_lock_reads_cache hf s v old ht

/-! ### Observed traces refine the primitive events

The `TreeNeuron` override of `_clear_temp_attr` calls `classify_nodes`, itself a `@lock_neuron` function; a trace of
the real object shows that nested call (`C: S L U Y`).  The driver's discipline check compares real traces with
the *observed* form of the model's event lists; these theorems say the observed form ends in the same state as
the primitive form the freshness theorems are about. -/

theorem clear_trace_refines (s : St) (excl : List String) :
    run spec s (clearTrace spec s excl) = step spec s (.clear excl) :=
  clearTrace_refines (sound_facts spec_sound).restamps s excl

theorem observed_trace_refines (es : List Ev) (s : St) : run spec s (expandClears spec s es) = run spec s es :=
  expandClears_refines (sound_facts spec_sound).restamps es s

/-! ### Cached objects shared between a neuron and its copy (fix 7a5fe2d)

`TreeNeuron.copy()` hands the copy a *view* of the original's networkx graph (`sharedOnCopy`, generated); the
generated `editors` are the functions that edit a cached graph object in place. -/

/-- Source-level obligation over the generated facts: every function that edits, in place, a cached object that
copies share (today: `reroot_skeleton` on `_graph_nx`) first re-binds the attribute to an independent object.
Reverting 7a5fe2d makes this fail to check. -/
theorem shared_objects_are_detached_before_editing :
    ∀ e ∈ spec.editors, (spec.sharedOnCopy.contains e.attr = true → e.detaches = true) :=
  aliasSafe_facts (by decide)

/-- **After copying, whatever is done to one side — reads, further copies, in-place operations that co-edit the
cached object, direct edits — each side's cached object keeps describing that side's own table**, for every
cache attribute and every in-place editor of the generated spec, for all histories. -/
theorem copy_views_independent (e : Editor) (he : e ∈ spec.editors) (es : List PEv) (v0 : Nat) :
    PairOK (prun (spec.sharedOnCopy.contains e.attr) e.detaches ⟨v0, v0, none, none, false⟩ es) :=
  (pairInv_run (shared_objects_are_detached_before_editing e he) es _
    ⟨⟨Or.inl rfl, Or.inl rfl⟩, by simp⟩).ok

/-- an attribute that copies do not share (`_igraph`: always deep-copied) may be edited in place -/
theorem unshared_objects_may_be_edited (detaches : Bool) (es : List PEv) (v0 : Nat) :
    PairOK (prun false detaches ⟨v0, v0, none, none, false⟩ es) :=
  (pairInv_run (shared := false) (by simp) es _ ⟨⟨Or.inl rfl, Or.inl rfl⟩, by simp⟩).ok

/-- Negation for the code before the fix (shared view, edited in place without detaching): read the graph, copy,
reroot the original — the COPY's graph now describes the original's new table (1), not the copy's own (0).
This is the history of finding `reroot_skeleton(networkx)/edits-_graph_nx-in-place`. -/
theorem shared_edit_witness :
    let p := prun true false ⟨0, 0, none, none, false⟩ [.warm false, .copy false, .edit false 1]
    p.verB = 0 ∧ p.tagB = some 1 ∧ ¬ PairOK p := by
  refine ⟨rfl, rfl, ?_⟩
  intro h
  have := h.2
  simp [prun, pstep] at this

/-! ### What the checksum is computed from (seeded change C02_4: a narrowing cast before hashing; finding
`core_md5/int64-ids-upcast-to-float64`, repaired: every column is hashed in its own dtype) -/

/-- `core_md5` restricts the table to the `CORE_DATA` columns, feeds **every column in its own dtype** to the hash
function and applies no dtype conversion of its own (the generated literal of the cast expression is empty). -/
theorem hash_no_narrowing_cast : spec.hashSelectsCols = true ∧ spec.hashNative = true ∧ spec.hashCast = "" := by decide

/-- What reaches the hash function determines the hashed cells — node ids of **any** size and every float
coordinate (cell = its significand): two rows with the same hash input are the same row.  Together with the
injectivity of the hash function itself (trusted base) the checksum distinguishes any two contents of the hashed
columns.  Hashing the table as one float array again (`hashNative = false`) makes this theorem fail to check. -/
theorem hash_input_injective (a b : List Int) (h : hashInput spec a = hashInput spec b) : a = b :=
  hashInput_injective_native (by decide) a b h

/-- For a table hashed as ONE floating array with `p` significand bits (the code before the repair: p = 53; a
float32 cast: p = 24) the same holds only for cells up to `2^p` … -/
theorem hash_input_injective_bounded (sp : Spec) (hn : sp.hashNative = false) (a b : List Int)
    (ha : ∀ n ∈ a, n.natAbs ≤ 2 ^ sp.hashBits) (hb : ∀ n ∈ b, n.natAbs ≤ 2 ^ sp.hashBits)
    (h : hashInput sp a = hashInput sp b) : a = b :=
  hashInput_injective hn a b ha hb h

/-- … negation for a float32 cast: the parent links `2^24` and `2^24 + 1` (and a coordinate move in the 25th
significant bit) reach the hash function as the same number … -/
theorem float32_cast_collides : roundBits 24 (2 ^ 24 + 1) = roundBits 24 (2 ^ 24) ∧ (2 : Int) ^ 24 + 1 ≠ 2 ^ 24 := by
  decide

/-- … and **historical** (the code before the repair of `core_md5`, `DataFrame.values` on the int64 / float64 node
table = one float64 array): node ids beyond `2^53` that differ in their low bits were hashed alike, whereas the
code as it is now tells them apart. -/
theorem float64_upcast_collided_above_2_53_historical :
    let old := { spec with hashNative := false, hashBits := 53 }
    hashInput old [2 ^ 53 + 1] = hashInput old [2 ^ 53] ∧ hashInput spec [2 ^ 53 + 1] ≠ hashInput spec [2 ^ 53] := by
  decide

/-- Edit / undo on an unlocked neuron: content may return to *any* earlier value (no freshness assumption
on `change`); as long as no operation holding the lock intervenes and only wrapped views are read, the
invariant holds after every history. -/
theorem edit_undo_fresh (us : List UEv) (hu : ∀ u ∈ us, UAdm spec u) : Inv (urun spec init us) :=
  (K_urun (sound_facts spec_sound) us init (K_init spec) hu).inv

/-! ### What is *not* true of the code as it is (negations, with concrete witnesses) -/

/-- A cached view *without* the wrapper (the generated spec lists `simple`) returns the value computed
before a change: read it, change the content, read it again. -/
theorem unwrapped_returns_stale (v : View) (hv : v ∈ unwrappedViews spec) (s : St) (habs : has s v.attr = false)
    (v' t : Nat) (hne : v' ≠ s.ver) :
    let s' := step spec (readS spec s v) (.change v' t)
    readTag spec s' v = some s.ver ∧ s'.ver = v' ∧ readTag spec s' v ≠ some s'.ver := by
  intro s'
  have hw : v.wrapped = false := by simp [unwrappedViews] at hv; simpa using hv.2
  obtain ⟨a, b⟩ := unwrapped_stale spec s v hw habs v' t
  refine ⟨a, b, ?_⟩
  rw [a, b]; intro h; exact hne (Option.some.inj h).symm

/-- The 3-event witness for `simple` (independent of the generated spec): read, change, read. -/
theorem simple_witness :
    let v : View := ⟨"simple", "_simple", false, true⟩
    let s := step spec (readS spec init v) (.change 1 0)
    readTag spec s v = some 0 ∧ s.ver = 1 := by decide

/-- Operation under the lock that writes a cache from the changed table (the graph `reroot_skeleton`
edits in step, the subgraph `subset_neuron` carries over) followed by restoring the *exact* earlier
content: the stamp says "current" and the wrapped read returns the graph of the other content.  This is the
ABA hole of a checksum taken only at effective clears; `history_fresh` excludes it by the freshness
hypothesis on `change`, `edit_undo_fresh` by excluding lock-holding operations. -/
theorem locked_coedit_aba_witness :
    let v : View := ⟨"igraph", "_igraph", true, false⟩
    let s := run spec init [.isStale, .write "_igraph", .lock, .change 1 1, .write "_igraph", .unlock,
                            .change 0 0, .classify]
    stampCurrent s = true ∧ readTag spec s v = some 1 ∧ s.ver = 0 := by decide

/-- **Historical** (the code before the in-place operators validated the caches, `iopValidates = false`): a
direct in-place edit of `parent_id` followed by `x *= 2` (its clear excludes `"classify_nodes"`) left the stamp
current and the `type` column (leaf / branch / root sets) computed from the old topology — finding
`nodes.type(…)/inplace-parent_id-edit-then-clear(exclude=classify_nodes)`.  With the code as it is the same history
ends with a current `type` column. -/
theorem type_stale_witness_historical :
    let old := { spec with iopValidates := false }
    let h : List UEv := [.edit 1 1, .arith 2 0 ["classify_nodes"]]
    (stampCurrent (urun old init h) = true ∧ (urun old init h).typeVer ≠ (urun old init h).tver) ∧
    (stampCurrent (urun spec init h) = true ∧ (urun spec init h).typeVer = (urun spec init h).tver) := by decide

/-- At the level of primitive events the hazard remains what it was: an *effective* clear that excludes
`"classify_nodes"` on a neuron whose topology changed since the last classification leaves the stamp current and
the `type` column old (this is why every caller of such a clear must validate first) … -/
theorem type_stale_primitive_witness :
    let s := run spec init [.change 1 1, .clear ["classify_nodes"]]
    stampCurrent s = true ∧ s.typeVer ≠ s.tver := by decide

/-- … and no later read repairs it while the stamp stays current. -/
theorem type_stale_persists (s : St) (hst : s.stale = false) (hm : s.md5 = s.ver) (v : View) :
    (readS spec s v).typeVer = s.typeVer ∧ (readS spec s v).tver = s.tver ∧
    (readS spec s v).md5 = (readS spec s v).ver :=
  read_keeps_type spec hst hm v

/-! ### The `type` column: what does hold -/

/-- Every event other than a change of `node_id,parent_id` keeps a fresh `type` column fresh
(`classify_nodes` and every clear without `"classify_nodes"` establish it). -/
theorem type_kept_fresh (s : St) (e : Ev) (h : s.typeVer = s.tver) (he : ∀ v t, e = .change v t → t = s.tver) :
    (step spec s e).typeVer = (step spec s e).tver :=
  type_kept spec s e h he

/-- After a change of the hashed content the next wrapped read re-classifies. -/
theorem read_after_change_reclassifies (s : St) (hl : s.lock = 0) (hne : s.md5 ≠ s.ver) (v : View)
    (hv : v ∈ wrappedViews spec) : (readS spec s v).typeVer = (readS spec s v).tver :=
  read_reclassifies (sound_facts spec_sound) hl hne (by simp [wrappedViews] at hv; exact hv.2)

/-- The generated spec says that the in-place operators validate the caches before they run.  Reverting the repair
turns this into `false` and `type_fresh_all_histories` stops checking. -/
theorem inplace_operators_validate_first : spec.iopValidates = true := by decide

/-- **The `type` column in every lock-free history.**  `τ` gives the topology (`node_id,parent_id`) contained in a
content of the hashed columns.  After any sequence of reads, direct in-place edits (to any content, also back to
an earlier one), table replacements, in-place arithmetic / unit conversion (which skip the re-classification),
copies and pickling: the `type` column was computed from the topology of the stamped content — hence **whenever
the stamp is current, leafs / branch points / roots are those of the current table**. -/
theorem type_fresh_all_histories (τ : Nat → Nat) (h0 : τ 0 = 0) (us : List UEv) (hu : uadmT spec τ init us) :
    let s := urun spec init us
    s.typeVer = τ s.md5 ∧ s.tver = τ s.ver ∧ (s.md5 = s.ver → s.typeVer = s.tver) := by
  intro s
  have h := TInv_urun (sound_facts spec_sound) lock_validates_before_locking inplace_operators_validate_first us init
    ⟨rfl, h0.symm, h0.symm⟩ hu
  exact ⟨h.typ, h.topo, h.current⟩

/-! ### Non-vacuity -/

-- a non-trivial admissible history: warm two caches, edit, read, locked operation, copy, pickle
example : admAll spec init
    [.enter "graph", .isStale, .write "_graph_nx", .exit "graph", .write "_segments", .change 1 1,
     .isStale, .clear [], .write "_segments", .lock, .change 2 2, .write "_igraph",
     .clear ["igraph", "classify_nodes"], .unlock, .copy, .pickle, .change 3 2, .clear ["classify_nodes"]] = true := by
  decide
example : 7 ≤ (wrappedViews spec).length := by decide
example : stampCurrent (run spec init [.isStale, .write "_segments"]) = true := by decide
example : UAdm spec (.read ⟨"segments", "_segments", true, false⟩) := ⟨by decide, rfl⟩
-- the locked operation above leaves old entries with an old stamp (premise of `Inv` false), the next read repairs
example : let s := run spec init [.write "_segments", .lock, .change 1 1, .clear ["graph", "classify_nodes"], .unlock]
    stampCurrent s = false ∧ tagOf s "_segments" = some 0 ∧
    readTag spec s ⟨"segments", "_segments", true, false⟩ = some 1 := by decide

-- the entry check of `lock_neuron` in a state with a warm cache and a pending in-place edit: `is_stale`, clear
example : lockEntryPrims spec (run spec init [.write "_graph_nx", .change 1 1]) = [.isStale, .clear []] := by decide
-- … and the read under the lock then returns the graph of the edited table (hypotheses of
-- `locked_read_returns_entry_content` are satisfiable; the value is the content at entry, 1)
example : let s := run spec init [.write "_graph_nx", .change 1 1]
    s.lock = 0 ∧ readTag spec (run spec s (lockEntryPrims spec s ++ [Ev.lock])) ⟨"graph", "_graph_nx", true, false⟩ = some 1 := by
  decide
-- a real trace (`x.graph; x.nodes = df; x.graph; x.nodes.loc[…] += 1; reroot_skeleton(x, 6, inplace=True)`) is
-- admissible and obeys the wrapper / lock-entry discipline …
example : let tr : List Ev := [.enter "graph", .isStale, .write "_graph_nx", .exit "graph", .change 1 0, .isStale, .clear [],
      .isStale, .lock, .unlock, .classify, .lock, .unlock, .classify, .enter "graph", .isStale, .write "_graph_nx", .exit "graph",
      .change 2 0, .isStale, .clear [], .isStale, .lock, .unlock, .classify, .lock, .enter "igraph", .write "_igraph",
      .exit "igraph", .change 3 1, .clear ["igraph", "classify_nodes"], .unlock, .write "_igraph", .retype 0]
    admAll spec init tr = true ∧ discipline spec init tr = [] := by decide
-- … whereas taking the lock over a stale cache without the entry check (the code before 4ae1633) is flagged
example : discipline spec init [.enter "graph", .isStale, .write "_graph_nx", .exit "graph", .change 1 0, .lock,
    .enter "graph", .exit "graph", .unlock] = [5] := by decide
example : (run spec init (lockedCall spec init [.write "_igraph", .change 1 1, .write "_igraph"] false)).lock = 0 := by decide
-- the generated facts are not empty: copies share the networkx graph, and reroot edits both graphs in place
example : ∃ e ∈ spec.editors, spec.sharedOnCopy.contains e.attr = true ∧ e.detaches = true := by decide
-- with the detaching editor the history of `shared_edit_witness` leaves the copy alone
example : let p := prun true true ⟨0, 0, none, none, false⟩ [.warm false, .copy false, .edit false 1]
    p.tagB = some 0 ∧ p.tagA = some 1 ∧ p.same = false := by decide

-- `type_fresh_all_histories` is not vacuous: edit the topology, scale in place, undo the edit, convert units, read
example : uadmT spec (fun v => v % 2) init
    [.edit 1 1, .arith 3 0 ["classify_nodes"], .edit 2 0, .arith 4 0 ["classify_nodes"], .edit 1 1,
     .read ⟨"segments", "_segments", true, false⟩, .setNodes 6 0, .copy, .pickle] := by
  simp [uadmT, UAdmT, ustep, uprims]; decide

/-! ### Final pass: every `TEMP_ATTR` view, nesting of locked calls, pickling, copying -/

/-- Every cached view of the generated spec — graphs, segments, geodesic matrix, cable length, adjacency **and
the simplified skeleton `_simple`** — carries the staleness wrapper and is registered in `TEMP_ATTR`. -/
theorem every_cached_view_wrapped_and_registered :
    ∀ v ∈ spec.views, v.wrapped = true ∧ v.attr ∈ spec.tempAttr := by decide

/-- **Freshness for every `TEMP_ATTR` view**: after any admissible history that leaves the neuron unlocked, the
next read of *any* cached view of the spec (not only the seven named in the statement: also `simple`) returns
the view of the current content. -/
theorem every_view_fresh_after_any_history (es : List Ev) (ha : admAll spec init es = true)
    (hl : (run spec init es).lock = 0) (v : View) (hv : v ∈ spec.views) :
    readTag spec (run spec init es) v = some (run spec init es).ver :=
  never_returns_older_value es ha hl v (by
    simp only [wrappedViews, List.mem_filter]
    exact ⟨hv, (every_cached_view_wrapped_and_registered v hv).1⟩)

/-- … and so does every read in a whole *sequence* of reads of cached views: after any number of earlier reads
(which warm or rebuild caches but never change the table) the next read still returns the current content, and the
neuron is still unlocked with the invariant intact. -/
theorem read_after_reads_current (s : St) (h : J spec s) (hl : s.lock = 0) (vs : List View)
    (hvs : ∀ v ∈ vs, v ∈ spec.views) (v : View) (hv : v ∈ spec.views) :
    readTag spec (readsS spec s vs) v = some s.ver ∧ J spec (readsS spec s vs) ∧ (readsS spec s vs).lock = 0 := by
  have hw : ∀ w ∈ spec.views, w.wrapped = true := fun w hw => (every_cached_view_wrapped_and_registered w hw).1
  obtain ⟨j, l, e⟩ := J_readsS (sound_facts spec_sound) vs h hl (fun w hw' => ⟨hvs w hw', hw w (hvs w hw')⟩)
  refine ⟨?_, j, l⟩
  rw [← e]
  exact (read_current (sound_facts spec_sound) j l (hw v hv)).1

/-- **Lock-free user histories: entries and `type` column together.**  After any sequence of reads, direct edits
(also back to earlier content), table replacements, validated in-place arithmetic, copies and pickling: if the
stamp is current, every cache entry was computed from the current content *and* leafs / branch points / roots are
those of the current table. -/
theorem user_history_fresh_and_typed (τ : Nat → Nat) (h0 : τ 0 = 0) (us : List UEv) (hu : ∀ u ∈ us, UAdm spec u)
    (ht : uadmT spec τ init us) :
    let s := urun spec init us
    Inv s ∧ (s.md5 = s.ver → s.typeVer = s.tver) :=
  ⟨edit_undo_fresh us hu, (type_fresh_all_histories τ h0 us ht).2.2⟩

/-- A `@lock_neuron` call nested inside a locked function skips the entry check (the staleness wrapper and the
entry check are both disabled while the lock is held) … -/
theorem nested_call_skips_entry_check (s : St) (hl : 0 < s.lock) : lockEntryPrims spec s = [] :=
  lockEntryPrims_locked spec hl

/-- … **nesting is balanced**: an outer locked call whose body contains a complete inner locked call (each of
them returning or raising, any lock-neutral events before, inside and after) leaves the lock counter where it
was — so an unlocked neuron is unlocked again and `read_returns_current` applies. -/
theorem nested_locked_calls_release_lock (s : St) (pre inner post : List Ev)
    (hpre : ∀ e ∈ pre, lockNeutral e = true) (hin : ∀ e ∈ inner, lockNeutral e = true)
    (hpost : ∀ e ∈ post, lockNeutral e = true) (ri ro : Bool) :
    let s1 := run spec s (lockEntryPrims spec s ++ [Ev.lock] ++ pre)
    (run spec s (lockedCall spec s (pre ++ lockedCall spec s1 inner ri ++ post) ro)).lock = s.lock :=
  nested_lockedCall_lock (by decide) s pre inner post hpre hin hpost ri ro

/-- … and a read of a cached view inside the *inner* call (entered while the outer call holds the lock, before any
change) still returns a value computed from the content at the entry of the OUTER call. -/
theorem nested_locked_read_returns_entry_content (s : St) (h : J spec s) (hl : s.lock = 0) (vs : List View) (v : View) :
    let s1 := readsS spec (run spec s (lockEntryPrims spec s ++ [Ev.lock])) vs
    readTag spec (run spec s1 (lockEntryPrims spec s1 ++ [Ev.lock])) v = some s.ver := by
  intro s1
  obtain ⟨a, b, c, _⟩ := lock_entry_establishes s h hl
  have h0 : AllCur (run spec s (lockEntryPrims spec s ++ [Ev.lock])) s.ver := ⟨a, by rw [b]; decide, c⟩
  have h1 : AllCur s1 s.ver := locked_reads vs h0
  have e : run spec s1 (lockEntryPrims spec s1 ++ [Ev.lock]) = step spec s1 .lock := by
    rw [lockEntryPrims_locked spec h1.locked]; rfl
  rw [e]
  exact (locked_read (AllCur_lock (sp := spec) h1) v).1

/-- **Unpickling**: the round trip drops exactly the entries `__getstate__` pops (the two graphs): none of them is
present afterwards, so the next read rebuilds them from the table that was pickled … -/
theorem unpickled_has_no_graphs (s : St) : ∀ a ∈ spec.getstateDrops, has (pickleS spec s) a = false :=
  fun _ ha => has_pickleS_drop spec s ha

/-- … and content, stamp and staleness flag travel unchanged. -/
theorem unpickled_keeps_stamp (s : St) :
    (pickleS spec s).ver = s.ver ∧ (pickleS spec s).md5 = s.md5 ∧ (pickleS spec s).stale = s.stale ∧
    (pickleS spec s).typeVer = s.typeVer := ⟨rfl, rfl, rfl, rfl⟩

/-- **Copying a neuron that is not stale** carries cache entries and stamp over unchanged (only the lock counter
is reset): together with `copy_of_stale_is_clean` this is the whole behaviour of `copy`. -/
theorem copy_of_current_carries_cache (s : St) (hst : (isStaleS spec s).stale = false) :
    (copyS spec s).cache = s.cache ∧ (copyS spec s).md5 = s.md5 ∧ (copyS spec s).ver = s.ver ∧ (copyS spec s).lock = 0 := by
  rw [copyS_not_stale spec hst]
  have hn : "_lock" ∈ spec.copyNoCopy := by decide
  simp [unlocked, hn]

/-- **After any sequence of catalogue operations** (any call sites of the generated table, in place or on the
result of a copy, with or without their explicit clear, locked or not, any reads under the lock and any graphs
carried over): the invariant holds — by induction over the list of operations. -/
theorem any_sequence_of_operations_preserves : ∀ (os : List OpCall) (s : St), J spec s → opsAdm spec s os →
    J spec (opsRun spec s os) ∧ Inv (opsRun spec s os) := by
  intro os
  induction os with
  | nil => intro s h _; exact ⟨h, h.inv⟩
  | cons o os ih =>
    intro s h ha
    obtain ⟨⟨hc, hpre, hpost, hv⟩, hrest⟩ := ha
    exact ih _ (operation_preserves o.c hc s h o.pre o.post hpre hpost o.v o.t hv o.withClear) hrest

/-- The source-level checker `soundB` is **complete** as well as sound: it accepts exactly the specs that satisfy
the six obligations (registered attributes, no retaining `exclude`, shapes of `is_stale` / clear / wrapper). -/
theorem soundB_iff (sp : Spec) : soundB sp = true ↔ SoundFacts sp :=
  ⟨fun h => sound_facts h, soundB_complete⟩

/-- … and so is the aliasing checker: `aliasSafeB` accepts exactly the specs in which every in-place editor of an
object that copies share detaches first. -/
theorem aliasSafeB_iff (sp : Spec) :
    aliasSafeB sp = true ↔ ∀ e ∈ sp.editors, (sp.sharedOnCopy.contains e.attr = true → e.detaches = true) :=
  ⟨fun h => aliasSafe_facts h, aliasSafeB_complete⟩

-- non-vacuity of `any_sequence_of_operations_preserves`: reroot (locked, keeps the igraph it edited), then `x *= 2`
example : opsAdm spec init
    [⟨⟨"graph.graph_utils.reroot_skeleton", ["igraph", "classify_nodes"], true⟩, [⟨"igraph", "_igraph", true, false⟩],
      [⟨"igraph", "_igraph", true, false⟩], 1, 1, true⟩,
     ⟨⟨"core.skeleton.TreeNeuron.__mul__", ["classify_nodes"], false⟩, [], [], 2, 1, true⟩] := by
  refine ⟨⟨by decide, by decide, by decide, by decide⟩, ⟨by decide, by decide, by decide, by decide⟩, trivial⟩

-- non-vacuity: a nested call on a concrete state; the hypotheses of `nested_locked_read_returns_entry_content`
example : let s := run spec init [.write "_graph_nx", .change 1 1]
    let s1 := readsS spec (run spec s (lockEntryPrims spec s ++ [Ev.lock])) [⟨"igraph", "_igraph", true, false⟩]
    s1.lock = 1 ∧ readTag spec (run spec s1 (lockEntryPrims spec s1 ++ [Ev.lock])) ⟨"graph", "_graph_nx", true, false⟩ = some 1 := by
  decide
example : (run spec init (lockedCall spec init ([.write "_igraph"] ++ lockedCall spec
    (run spec init (lockEntryPrims spec init ++ [Ev.lock] ++ [.write "_igraph"])) [.classify] false ++ [.change 1 1]) true)).lock = 0 := by
  decide

end Navis.Props.C02
