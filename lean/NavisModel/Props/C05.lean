import NavisModel.Proofs.DistLemmas
import NavisModel.Proofs.SegmentLemmas
import NavisModel.Proofs.DistX5Lemmas
import NavisModel.Proofs.EdgeDtypeLemmas
import NavisModel.Model.DistGen
/-!
# C05 — tree distances and segment decompositions match their definitions

The model *is* the definition (walk parent links, sum edge lengths); these theorems establish the
internal consistency of that definition and the meaning of the checkers that the driver evaluates on
navis' own `segments` / `small_segments` lists.  `len` is any edge-length function.
-/
namespace Navis.Props.C05
open Navis.Forest

/-- Directed distances are finite exactly when the target lies on the source's path to its root
(this is also the `distal_to` relation). -/
theorem geoDir_finite_iff_ancestor (t : Table) (len : Int → Int → Nat) (a b : Int) :
    (geo t len true a b).isSome ↔ b ∈ rootPath t a := geo_directed_isSome_iff t len a b

/-- Every present node is at distance 0 from itself. -/
theorem geo_self_zero (t : Table) (len : Int → Int → Nat) (d : Bool) (a : Int) (ha : a ∈ ids t) :
    geo t len d a a = some 0 := geo_self t len d a ha

/-- `limit` keeps distances equal to the limit and drops only strictly larger ones. -/
theorem limit_keeps_le (l v : Nat) : applyLimit (some l) (some v) = (if v ≤ l then some v else none) := by
  unfold applyLimit
  by_cases h : v ≤ l
  · have : ¬ v > l := by omega
    simp [h, this]
  · have : v > l := by omega
    simp [h, this]

/-- Adjacency is the parent relation. -/
theorem adjacency_iff_parent (t : Table) (a b : Int) :
    adjacent t a b = true ↔ ∃ n, find? t a = some n ∧ 0 ≤ n.parent ∧ n.parent = b := adjacent_iff t a b

/-- Cable length is the sum of child–parent distances over the non-root rows. -/
theorem cable_eq_sum_parent_dist (t : Table) (len : Int → Int → Nat) :
    cable t len = ((t.filter fun n => !isRootNode n).map fun n => len n.id n.parent).sum := rfl

/-- **Meaning of the `segments` checker**: a list accepted by `segmentsOKB` consists of child→parent
paths whose non-last elements are exactly the non-root nodes, each once (so every edge lies in
exactly one segment), ordered longest first, with the isolated nodes as the single-node segments. -/
theorem segmentsOKB_sound (t : Table) (len : Int → Int → Nat) (segs : List (List Int))
    (h : segmentsOKB t len segs = true) :
    (∀ s ∈ segs, s ≠ [] ∧ ∀ k (h1 : k + 1 < s.length), adjacent t (s[k]'(by omega)) (s[k+1]) = true) ∧
    (((segs.filter fun s => s.length > 1).flatMap fun s => s.dropLast).Perm ((t.filter fun n => !isRootNode n).map (·.id))) ∧
    (∀ k (h1 : k + 1 < (segs.map (pathLen len)).length), (segs.map (pathLen len))[k+1] ≤ (segs.map (pathLen len))[k]'(by omega)) ∧
    ((segs.filter fun s => s.length == 1).flatten.Perm ((t.filter fun n => isRootNode n && childCount t n.id == 0).map (·.id))) := by
  unfold segmentsOKB coversEdgesOnce at h
  simp only [Bool.and_eq_true, List.all_eq_true, beq_iff_eq] at h
  obtain ⟨⟨⟨h1, h2⟩, h3⟩, h4⟩ := h
  exact ⟨fun s hs => isParentPath_spec t s (h1 s hs), perm_of_sortedInts_eq h2, nonIncreasing_spec _ h3,
    perm_of_sortedInts_eq h4⟩

/-- **Meaning of the `small_segments` checker** (edge-partition clause). -/
theorem smallSegmentsOKB_sound (t : Table) (segs : List (List Int)) (h : smallSegmentsOKB t segs = true) :
    (∀ s ∈ segs, isParentPath t s = true ∧ s.length > 1 ∧
      (∃ l, s.getLast? = some l ∧ isBranchOrRoot t l = true) ∧
      (∀ i ∈ (s.drop 1).dropLast, childCount t i = 1 ∧ isBranchOrRoot t i = false)) ∧
    (((segs.filter fun s => s.length > 1).flatMap fun s => s.dropLast).Perm ((t.filter fun n => !isRootNode n).map (·.id))) := by
  unfold smallSegmentsOKB coversEdgesOnce at h
  simp only [Bool.and_eq_true, List.all_eq_true, beq_iff_eq, decide_eq_true_eq] at h
  obtain ⟨h1, h2⟩ := h
  refine ⟨?_, perm_of_sortedInts_eq h2⟩
  intro s hs
  obtain ⟨⟨⟨⟨ha, hb⟩, _⟩, hc⟩, hd⟩ := h1 s hs
  refine ⟨ha, hb, ?_, ?_⟩
  · cases hl : s.getLast? with
    | none => rw [hl] at hc; simp at hc
    | some l => rw [hl] at hc; exact ⟨l, rfl, hc⟩
  · intro i hi
    have := hd i hi
    simpa using this

/-! ### Undirected distances -/

/-- **Undirected distances are symmetric** (for any edge-length function, symmetric or not: both
sides walk *up* to the lowest common ancestor; absent nodes are at distance ∞ either way). -/
theorem geo_symm (t : Table) (hw : WF t) (len : Int → Int → Nat) (a b : Int) :
    geo t len false a b = geo t len false b a := geo_symm' hw len a b

/-- **Unreachable exactly across fragments**: the undirected distance of two present nodes is ∞ iff
they have different roots. -/
theorem geo_inf_iff_diff_tree (t : Table) (hw : WF t) (len : Int → Int → Nat) (a b : Int)
    (ha : a ∈ ids t) (hb : b ∈ ids t) : geo t len false a b = none ↔ rootOf t a ≠ rootOf t b :=
  geo_none_iff hw len ha hb

/-- **A finite undirected distance is the length of an explicit path**: a duplicate-free node list
from `a` to `b` whose consecutive nodes are adjacent (child→parent on the way up to the lowest
common ancestor, parent→child on the way down), with `d` the sum of its edge lengths. -/
theorem geo_eq_path_sum (t : Table) (hw : WF t) (len : Int → Int → Nat) (hs : ∀ a b, len a b = len b a)
    (a b : Int) (d : Nat) (h : geo t len false a b = some d) :
    ∃ p : List Int, p.head? = some a ∧ p.getLast? = some b ∧ p.Nodup ∧
      (∀ k (h1 : k + 1 < p.length),
        adjacent t (p[k]'(by omega)) (p[k+1]) = true ∨ adjacent t (p[k+1]) (p[k]'(by omega)) = true) ∧
      d = pathLen len p := by
  obtain ⟨p, h1, h2, h3, h4, h5⟩ := geo_path hw hs h
  exact ⟨p, h1, h2, h3, UChain_spec p h4, h5⟩

/-! ### Distance to the root and cable length -/

/-- The root distance of a non-root node is its parent edge plus the parent's root distance. -/
theorem distToRoot_parent (t : Table) (hw : WF t) (len : Int → Int → Nat) (n : Node) (hn : n ∈ t)
    (hp : ¬ n.parent < 0) : distToRoot t len n.id = len n.id n.parent + distToRoot t len n.parent :=
  Navis.Forest.distToRoot_parent hw len hn hp

/-- Roots are at distance 0 from the root. -/
theorem distToRoot_root (t : Table) (len : Int → Int → Nat) (n : Node) (hn : n ∈ t) (hnd : (ids t).Nodup)
    (hp : n.parent < 0) : distToRoot t len n.id = 0 :=
  Navis.Forest.distToRoot_root len (find?_of_mem hnd hn) hp

/-- **Segment lengths add up to the cable length**: any list of child→parent paths whose non-last
nodes are the non-root nodes once each (the soundness clauses of both checkers) has total length
`cable`. -/
theorem segment_lengths_sum_of_partition (t : Table) (hw : WF t) (len : Int → Int → Nat) (segs : List (List Int))
    (hall : ∀ s ∈ segs, isParentPath t s = true)
    (hperm : ((segs.filter fun s => s.length > 1).flatMap fun s => s.dropLast).Perm
      ((t.filter fun n => !isRootNode n).map (·.id))) :
    (segs.map (pathLen len)).sum = cable t len := sum_pathLen_eq_cable hw.1 len segs hall hperm

/-- Every list accepted by the `segments` checker has total length `cable`. -/
theorem segment_lengths_sum_to_cable (t : Table) (hw : WF t) (len : Int → Int → Nat) (segs : List (List Int))
    (h : segmentsOKB t len segs = true) : (segs.map (pathLen len)).sum = cable t len := by
  have hperm := (segmentsOKB_sound t len segs h).2.1
  unfold segmentsOKB at h
  simp only [Bool.and_eq_true, List.all_eq_true] at h
  exact sum_pathLen_eq_cable hw.1 len segs h.1.1.1 hperm

/-- Every list accepted by the `small_segments` checker has total length `cable`. -/
theorem small_segment_lengths_sum_to_cable (t : Table) (hw : WF t) (len : Int → Int → Nat) (segs : List (List Int))
    (h : smallSegmentsOKB t segs = true) : (segs.map (pathLen len)).sum = cable t len := by
  obtain ⟨h1, h2⟩ := smallSegmentsOKB_sound t segs h
  exact sum_pathLen_eq_cable hw.1 len segs (fun s hs => (h1 s hs).1) h2

/-! ### The model's small segments satisfy the property -/

/-- **Every non-root node is a non-last element of exactly one small segment** (⇒ each edge lies in
exactly one small segment). -/
theorem small_segments_partition (t : Table) (hw : WF t) :
    (((smallSegments t).filter fun s => s.length > 1).flatMap fun s => s.dropLast).Perm
      ((t.filter fun n => !isRootNode n).map (·.id)) := smallSegments_cover hw

/-- **`small_segments` is correct**: each segment starts at a non-root leaf/branch point, ends at the
first branch point/root above it, has only slabs in between, and the segments partition the edges. -/
theorem smallSegments_correct (t : Table) (hw : WF t) : smallSegmentsOKB t (smallSegments t) = true :=
  smallSegments_ok hw

/-- **Shape of the model's small segments**, readable form: child→parent paths of ≥ 2 nodes ending at a
branch point/root with only slabs strictly inside. -/
theorem small_segments_shape (t : Table) (hw : WF t) : ∀ s ∈ smallSegments t,
    isParentPath t s = true ∧ s.length > 1 ∧
      (∃ l, s.getLast? = some l ∧ isBranchOrRoot t l = true) ∧
      (∀ i ∈ (s.drop 1).dropLast, childCount t i = 1 ∧ isBranchOrRoot t i = false) :=
  (smallSegmentsOKB_sound t _ (smallSegments_correct t hw)).1

/-- The model's small segments add up to the cable length. -/
theorem smallSegments_sum_to_cable (t : Table) (hw : WF t) (len : Int → Int → Nat) :
    ((smallSegments t).map (pathLen len)).sum = cable t len :=
  small_segment_lengths_sum_to_cable t hw len _ (smallSegments_correct t hw)

/-! ### The model's greedy segments satisfy the property -/

/-- **`segments` is sorted longest first** (no hypothesis on the table needed). -/
theorem segments_sorted (t : Table) (len : Int → Int → Nat) :
    ∀ k (h1 : k + 1 < ((segments t len).map (pathLen len)).length),
      ((segments t len).map (pathLen len))[k+1] ≤ ((segments t len).map (pathLen len))[k]'(by omega) :=
  nonIncreasing_spec _ (segments_nonIncreasing t len)

/-- **The single-node segments are exactly the isolated nodes** (childless roots), in table order,
and they come last (no hypothesis on the table needed). -/
theorem segments_isolated (t : Table) (len : Int → Int → Nat) :
    ((segments t len).filter fun s => s.length == 1).flatten =
      (t.filter fun n => isRootNode n && childCount t n.id == 0).map (·.id) ∧
    ∃ long, segments t len = long ++ ((t.filter fun n => isRootNode n && childCount t n.id == 0).map fun n => [n.id]) ∧
      ∀ s ∈ long, s.length > 1 := by
  refine ⟨segments_single_eq_isolated t len, _, rfl, ?_⟩
  intro s hs
  have : s ∈ (segments t len).filter fun s => s.length > 1 := by
    rw [segments_filter_long]; exact hs
  simpa using (List.mem_filter.mp this).2

/-- **Every non-root node is a non-last element of exactly one segment** (⇒ each edge lies in exactly
one segment). -/
theorem segments_partition (t : Table) (hw : WF t) (len : Int → Int → Nat) :
    (((segments t len).filter fun s => s.length > 1).flatMap fun s => s.dropLast).Perm
      ((t.filter fun n => !isRootNode n).map (·.id)) :=
  (segmentsOKB_sound t len _ (segments_ok hw len)).2.1

/-- **`segments` is correct**: child→parent paths, an edge partition, longest first, isolated nodes
as the single-node segments. -/
theorem segments_correct (t : Table) (hw : WF t) (len : Int → Int → Nat) :
    segmentsOKB t len (segments t len) = true := segments_ok hw len

/-- The model's segments add up to the cable length. -/
theorem segments_sum_to_cable (t : Table) (hw : WF t) (len : Int → Int → Nat) :
    ((segments t len).map (pathLen len)).sum = cable t len :=
  segment_lengths_sum_to_cable t hw len _ (segments_correct t hw len)

/-! ### Non-vacuity -/
def ex : Table := [⟨1, -1, 0, 0, 0, .root⟩, ⟨2, 1, 3, 0, 0, .branch⟩, ⟨3, 2, 6, 0, 0, .end_⟩, ⟨4, 2, 3, 4, 0, .end_⟩, ⟨9, -1, 0, 0, 0, .root⟩]
example : geo ex (coordLen ex) false 3 4 = some 7 := by decide
example : geo ex (coordLen ex) true 3 4 = none ∧ geo ex (coordLen ex) false 3 9 = none := by decide
example : segments ex (coordLen ex) = [[4, 2, 1], [3, 2], [9]] := by decide
example : segmentsOKB ex (coordLen ex) (segments ex (coordLen ex)) = true := by decide
example : smallSegmentsOKB ex (smallSegments ex) = true := by decide
example : wfB ex = true := by decide
theorem ex_WF : WF ex := wfB_sound (by decide)
example : geo ex (coordLen ex) false 4 3 = geo ex (coordLen ex) false 3 4 := geo_symm ex ex_WF _ 4 3
example : rootOf ex 3 = some 1 ∧ rootOf ex 9 = some 9 ∧ geo ex (coordLen ex) false 3 9 = none := by decide
example : smallSegments ex = [[2, 1], [3, 2], [4, 2]] := by decide
example : ((segments ex (coordLen ex)).map (pathLen (coordLen ex))).sum = 10 ∧ cable ex (coordLen ex) = 10 ∧
    ((smallSegments ex).map (pathLen (coordLen ex))).sum = 10 := by decide
example : distToRoot ex (coordLen ex) 4 = coordLen ex 4 2 + distToRoot ex (coordLen ex) 2 ∧
    distToRoot ex (coordLen ex) 4 = 7 := by decide

/-! ## Second pass: the navis code around the definitions, as written, tied to the current source

`Model/DistX.lean` models the option handling, row selection, labelling, limit cut-off, fancy-index assignment,
dictionaries and sort keys of `navis/graph/graph_utils.py` / `navis/morpho/mmetrics.py` parametrised by facts;
`Gen/Dist.lean` holds the facts the translator extracts from the CURRENT source; `Model/DistGen.lean`
instantiates the models with them (that is what the driver runs against navis).  The theorems below state that
these instances ARE the definitions above, for all inputs; an edit of one of the facts (comparison operator,
guard, label expression, type set, sort direction, forwarded keyword …) makes the corresponding theorem stop
checking. -/
section AsWritten
open Navis.DistX

/-! ### `limit` -/

/-- No limit (`None`, `inf`): every distance is kept. -/
theorem limit_none_keeps_all (d : Option Nat) : applyLimit none d = d := applyLimit_none d

/-- **`limit` honoured, both directions**: an entry survives iff it was finite and `≤ limit`. -/
theorem limit_some_iff (l : Nat) (d : Option Nat) (v : Nat) : applyLimit (some l) d = some v ↔ d = some v ∧ v ≤ l :=
  applyLimit_some_iff l d v

/-- … and becomes infinite iff it was infinite or strictly above the limit. -/
theorem limit_inf_iff (l : Nat) (d : Option Nat) : applyLimit (some l) d = none ↔ d = none ∨ ∃ v, d = some v ∧ l < v :=
  applyLimit_eq_none_iff l d

/-- `limit = 0` is a limit: only zero distances (the node itself, coincident nodes) survive. -/
theorem limit_zero (v : Nat) : applyLimit (some 0) (some v) = (if v = 0 then some 0 else none) := by
  rw [limit_keeps_le]
  by_cases h : v = 0
  · subst h; rfl
  · have : ¬ v ≤ 0 := by omega
    simp [h, this]

/-- **The cut-off of the fastcore branch, with the guard and the comparison read from the source**
(`if limit is not None and limit is not np.inf: dmat[dmat > limit] = np.inf`), is the limit of the definition for
every kind of limit value (`None`, `np.inf`, another infinite float, any number incl. `0`) and every entry.
A truthiness guard (`if limit:`) or `>=` makes this theorem fail. -/
theorem limit_as_written :
    ∃ g c, Gen.Dist.fcLimitGuard.mapM GuardAtom.ofName = some g ∧ Cmp.ofName Gen.Dist.fcLimitCmp = some c ∧
      Gen.Dist.fcLimitValue = "np.inf" ∧ Gen.Dist.limitMapUnits = true ∧
      ∀ lim d, applyLimitW g c lim d = applyLimit lim.toOpt d :=
  ⟨_, _, rfl, rfl, rfl, rfl, applyLimitW_sound _ _ (by decide) rfl⟩

/-- What a truthiness guard would do: the limit `0` is ignored (the seeded change this pins). -/
theorem limit_truthy_guard_ignores_zero (v : Nat) (hv : 0 < v) :
    applyLimitW [.truthy] .gt (.num 0) (some v) ≠ applyLimit (LimitV.num 0).toOpt (some v) := by
  rw [applyLimitW_truthy_zero]
  have : v > 0 := hv
  simp [LimitV.toOpt, applyLimit, this]

/-- **Sentinel decoding as written** (`dmat[dmat < 0] = np.inf`, unconditionally, before the limit): the
accelerator's `-1` becomes infinite, every real distance — including `0` — is kept. -/
theorem sentinel_as_written :
    ∃ c k, fcSentinel? = some (c, k) ∧ (∀ raw : Int, raw < 0 → decodeFc c k raw = none) ∧ ∀ n : Nat, decodeFc c k n = some n :=
  ⟨_, _, rfl, decodeFc_neg, decodeFc_nat⟩

/-! ### `geodesic_matrix`: `from_`, `directed`, `weight`, `limit`, labels -/

/-- Both branches of `geodesic_matrix`, as configured by the current source, honour the options. -/
theorem geo_cfgs_ok : fcCfg?.map GeoCfg.okB = some true ∧ spCfg?.map GeoCfg.okB = some true := by decide

theorem fcCfg_ok {c : GeoCfg} (h : fcCfg? = some c) : c.okB = true := by
  have := geo_cfgs_ok.1; rw [h] at this; simpa using this

theorem spCfg_ok {c : GeoCfg} (h : spCfg? = some c) : c.okB = true := by
  have := geo_cfgs_ok.2; rw [h] at this; simpa using this

/-- **`geodesic_matrix(x, from_=…, directed=…, weight=…, limit=…)` as written, either branch (navis-fastcore or
scipy on the igraph / networkx graph)**, for any table with unique ids, any `from_` (scalar or list, duplicates,
any order) inside the table, both values of `directed` and `weight`, every limit value: the call succeeds, the
columns are the node ids in table order, the row labels are duplicate-free and are exactly the requested ids, and the
entry under labels `(a, b)` is the defined distance `geo` with the limit applied. -/
theorem geodesic_matrix_from_labelled (c : GeoCfg) (hc : fcCfg? = some c ∨ spCfg? = some c)
    (t : Table) (hnd : (ids t).Nodup) (len : Int → Int → Nat) (weighted directed : Bool) (lim : LimitV)
    (from_ : FromV) (hgiven : from_.toList ≠ [] ∨ ∃ l, from_ = .list l) (hsub : ∀ i ∈ from_.toList, i ∈ ids t) :
    ∃ M, geoMatW c t len weighted directed lim from_ = some M ∧ M.cols = ids t ∧ M.rows.Nodup ∧
      (∀ a, a ∈ M.rows ↔ a ∈ from_.toList) ∧
      ∀ a ∈ from_.toList, ∀ b ∈ ids t,
        M.get? a b = some (applyLimit lim.toOpt (geo t (effLen len weighted) directed a b)) :=
  geoMatW_from (hc.elim fcCfg_ok spCfg_ok) t len weighted directed lim from_ hgiven hnd hsub

/-- **All rows** (`from_` not given): rows and columns are the node ids in table order, entries as above. -/
theorem geodesic_matrix_all_labelled (c : GeoCfg) (hc : fcCfg? = some c ∨ spCfg? = some c)
    (t : Table) (len : Int → Int → Nat) (weighted directed : Bool) (lim : LimitV) :
    ∃ M, geoMatW c t len weighted directed lim .none = some M ∧ M.rows = ids t ∧ M.cols = ids t ∧
      ∀ a ∈ ids t, ∀ b ∈ ids t,
        M.get? a b = some (applyLimit lim.toOpt (geo t (effLen len weighted) directed a b)) :=
  geoMatW_all (hc.elim fcCfg_ok spCfg_ok) t len weighted directed lim

/-- **An id that is not in the table is refused** (`ValueError`) on both branches. -/
theorem geodesic_matrix_missing_id (c : GeoCfg) (hc : fcCfg? = some c ∨ spCfg? = some c)
    (t : Table) (len : Int → Int → Nat) (weighted directed : Bool) (lim : LimitV) (from_ : FromV) (i : Int)
    (hi : i ∈ from_.toList) (hn : i ∉ ids t) : geoMatW c t len weighted directed lim from_ = none :=
  geoMatW_missing (hc.elim fcCfg_ok spCfg_ok) t len weighted directed lim from_ hi hn

/-- **The two branches return the same labelled matrix** (they differ in row order only: sorted ids versus
table order): equal entries under equal labels. -/
theorem geodesic_matrix_branches_agree (cf cs : GeoCfg) (hf : fcCfg? = some cf) (hs : spCfg? = some cs)
    (t : Table) (hnd : (ids t).Nodup) (len : Int → Int → Nat) (weighted directed : Bool) (lim : LimitV)
    (from_ : FromV) (hgiven : from_.toList ≠ [] ∨ ∃ l, from_ = .list l) (hsub : ∀ i ∈ from_.toList, i ∈ ids t) :
    ∃ Mf Ms, geoMatW cf t len weighted directed lim from_ = some Mf ∧ geoMatW cs t len weighted directed lim from_ = some Ms ∧
      Mf.rows.Perm Ms.rows ∧ Mf.cols = Ms.cols ∧ ∀ a ∈ from_.toList, ∀ b ∈ ids t, Mf.get? a b = Ms.get? a b := by
  obtain ⟨Mf, h1, h2, h3, h4, h5⟩ := geoMatW_from (fcCfg_ok hf) t len weighted directed lim from_ hgiven hnd hsub
  obtain ⟨Ms, g1, g2, g3, g4, g5⟩ := geoMatW_from (spCfg_ok hs) t len weighted directed lim from_ hgiven hnd hsub
  refine ⟨Mf, Ms, h1, g1, ?_, by rw [h2, g2], fun a ha b hb => by rw [h5 a ha b hb, g5 a ha b hb]⟩
  exact (List.perm_ext_iff_of_nodup h3 g3).mpr fun a => by rw [h4, g4]

/-- What the seeded change `index = np.unique(from_)` on the scipy branch does: rows computed in table order but
labelled in sorted order — a wrong label as soon as the table is not sorted. -/
example : computedRows .whereIsin [5, 3, 9] [3, 5] = [5, 3] ∧ rowLabels .fromArg [5, 3, 9] [3, 5] = [3, 5] := by decide

/-- **`directed` honoured**: on ancestor pairs the directed distance is the undirected one; on all other pairs it is
infinite (`geoDir_finite_iff_ancestor`). -/
theorem directed_eq_undirected_on_ancestors (t : Table) (hw : WF t) (len : Int → Int → Nat) (a b : Int)
    (h : b ∈ rootPath t a) : geo t len true a b = geo t len false a b :=
  (geo_directed_eq_undirected hw len h).symm

/-! ### `distal_to` -/

/-- **`distal_to` as written** (`None` = all nodes, ids de-duplicated, matrix or scalar form): the entry under
labels `(x, y)` is "`y` lies on `x`'s path to the root". -/
theorem distal_to_labelled (t : Table) (a b : FromV) (x y : Int) (hx : x ∈ axisLabels t a) (hy : y ∈ axisLabels t b) :
    (distalW t a b).get? x y = some ((rootPath t x).contains y) := distalW_get t a b hx hy

/-- Labels: all ids (table order) when the argument is `None`, else exactly the given ids, without repetition. -/
theorem distal_to_labels (t : Table) (hnd : (ids t).Nodup) (f : FromV) :
    (axisLabels t f).Nodup ∧ (axisLabels t .none = ids t) ∧
    ((f.toList ≠ [] ∨ ∃ l, f = .list l) → ∀ x, x ∈ axisLabels t f ↔ x ∈ f.toList) :=
  ⟨axisLabels_nodup hnd f, rfl, fun h x => mem_axisLabels_given h x⟩

/-- Two single ids: a scalar. -/
theorem distal_to_scalar (t : Table) (i j : Int) :
    distalOut (distalW t (.scalar i) (.scalar j)) = .inl ((rootPath t i).contains j) := distalOut_scalar t i j

/-- **A node is distal to itself** (the definition "lies on the path to the root" includes the start; navis'
docstring says the same). -/
theorem distal_self (t : Table) (a : Int) (ha : a ∈ ids t) : (rootPath t a).contains a = true :=
  List.contains_iff_mem.mpr (mem_rootPath_self ha)

/-- **Unreachable pairs are `False`**: nodes of different trees are never distal to one another. -/
theorem distal_false_across_trees (t : Table) (hw : WF t) (a b : Int) (h : rootOf t a ≠ rootOf t b) :
    (rootPath t a).contains b = false := by
  cases hc : (rootPath t a).contains b with
  | false => rfl
  | true => exact absurd (rootOf_eq_of_mem_rootPath hw (List.contains_iff_mem.mp hc)) h

/-- Distal-to is antisymmetric: two different nodes are never distal to each other. -/
theorem distal_antisymm (t : Table) (hw : WF t) (a b : Int) (h1 : (rootPath t a).contains b = true)
    (h2 : (rootPath t b).contains a = true) : a = b :=
  ancestor_antisymm hw (List.contains_iff_mem.mp h1) (List.contains_iff_mem.mp h2)

/-- Distal-to is the finiteness of the directed distance (any weight). -/
theorem distal_iff_directed_finite (t : Table) (len : Int → Int → Nat) (a b : Int) :
    (rootPath t a).contains b = true ↔ (geo t len true a b).isSome :=
  ⟨fun h => (geoDir_finite_iff_ancestor t len a b).mpr (List.contains_iff_mem.mp h),
   fun h => List.contains_iff_mem.mpr ((geoDir_finite_iff_ancestor t len a b).mp h)⟩

/-! ### adjacency matrix -/

/-- **Every non-root filter in the code that decides which rows carry an edge** (`skeleton_adjacency_matrix`,
`neuron2nx`, `neuron2igraph`, `cable_length`, `TreeNeuron.edges`) **is `parent_id >= 0`** — the model's
`!isRootNode`.  (`> 0` would drop the children of node 0.) -/
theorem nonroot_filters_as_written :
    ∃ l, nonRootTests? = some l ∧ l.length ≥ 5 ∧ ∀ e ∈ l, ∀ n : Node, e.2.1.evalInt n.parent e.2.2 = !isRootNode n := by
  refine ⟨_, rfl, by decide, ?_⟩
  intro e he n
  have hb : nonRootCmpB e.2.1 e.2.2 = true := by
    revert e
    decide
  exact evalInt_eq_not_isRoot hb n

/-- **`skeleton_adjacency_matrix(sort=False)` as written** (mask `parent_id >= 0`, rows = positions of the filtered
nodes, columns = positions of their parents through the id → position map, both axes labelled by node id): the entry
under labels `(a, b)` is the parent relation. -/
theorem adjacency_matrix_labelled (t : Table) (hnd : (ids t).Nodup) (a b : Int) (ha : a ∈ ids t) (hb : b ∈ ids t) :
    ∃ c k, adjCmp? = some (c, k) ∧ adjShapeOK = true ∧ (adjMatW c k t).rows = ids t ∧ (adjMatW c k t).cols = ids t ∧
      (adjMatW c k t).get? a b = some (adjacent t a b) :=
  ⟨_, _, rfl, by decide, rfl, rfl, adjMatW_get (by decide) t hnd ha hb⟩

/-- **`sort=True` / `x.adjacency_matrix`**: re-indexing both axes by any label order that contains the ids shows
the same relation (the order itself, `node_label_sorting`, is not part of the property). -/
theorem adjacency_matrix_sorted_labelled (t : Table) (hnd : (ids t).Nodup) (p : List Int) (a b : Int)
    (ha : a ∈ p) (hb : b ∈ p) (ha' : a ∈ ids t) (hb' : b ∈ ids t) :
    ∃ c k, adjCmp? = some (c, k) ∧ (adjSorted c k t p).rows = p ∧ (adjSorted c k t p).cols = p ∧
      (adjSorted c k t p).get? a b = some (adjacent t a b) :=
  ⟨_, _, rfl, rfl, rfl, adjSorted_get (by decide) t hnd p ha hb ha' hb'⟩

/-! ### `dist_to_root`, `parent_dist`, `cable_length`, `segment_length` -/

/-- **`dist_to_root` as written** (shortest-path lengths to each root, merged over the roots): every node is mapped
to its root distance — also in forests, whichever root comes last. -/
theorem dist_to_root_dict (t : Table) (hw : WF t) (len : Int → Int → Nat) (i : Int) (hi : i ∈ ids t) :
    dictGet (distToRootW t len) i = some (distToRoot t len i) := distToRootW_get hw len hi

/-- Every entry of that dictionary belongs to a node and carries its root distance (no stray keys). -/
theorem dist_to_root_entries (t : Table) (hw : WF t) (len : Int → Int → Nat) (i : Int) (d : Nat) :
    (i, d) ∈ distToRootW t len ↔ i ∈ ids t ∧ d = distToRoot t len i := mem_distToRootW hw len i d

/-- `igraph_indices=True`: the same values under the row positions. -/
theorem dist_to_root_by_position (t : Table) (hw : WF t) (len : Int → Int → Nat) (i : Int) (hi : i ∈ ids t) :
    (Int.ofNat ((ids t).idxOf i), distToRoot t len i) ∈ distToRootIdxW t len := distToRootIdxW_mem hw len hi

/-- **`parent_dist(root_dist=0)` sums to the cable length**; entry `i` is the parent edge of row `i` (`root_dist`
for roots). -/
theorem parent_dist_as_written (t : Table) (len : Int → Int → Nat) :
    ∃ c k, adjCmp? = some (c, k) ∧
      ((parentDistW c k t len (some 0)).map fun o => o.getD 0).sum = cable t len ∧
      ∀ rd i (h : i < t.length), (parentDistW c k t len rd)[i]? =
        some (if isRootNode t[i] then rd else some (len t[i].id t[i].parent)) :=
  ⟨_, _, rfl, parentDistW_sum (by decide) t len, fun rd i h => parentDistW_entry (by decide) t len rd i h⟩

/-- **`cable_length(mask=…)`**: the cable length of the masked table with orphans re-rooted; without a mask the
cable length. -/
theorem cable_length_masked (t : Table) (hw : WF t) (len : Int → Int → Nat) (mask : List Bool) :
    ∃ c k, adjCmp? = some (c, k) ∧
      cableMaskedW c k t len mask = cable (orphansToRoots (maskRows t mask)) len ∧
      cableMaskedW c k t len (List.replicate t.length true) = cable t len :=
  ⟨_, _, rfl, cableMaskedW_eq (by decide) t len mask, cableMaskedW_all (by decide) hw len⟩

/-- **`segment_length` as written** (sum of the weights of the consecutive `(child, parent)` edges; `KeyError`
otherwise): defined exactly on child → parent paths, where it is the path length. -/
theorem segment_length_as_written (t : Table) (len : Int → Int → Nat) (s : List Int) (hs : s ≠ []) (d : Nat) :
    segLenW t len s = some d ↔ isParentPath t s = true ∧ d = pathLen len s := by
  constructor
  · exact segLenW_some t len s d hs
  · rintro ⟨h1, h2⟩; rw [h2]; exact segLenW_of_parentPath t len s h1

/-- The segments navis returns can be measured: every segment accepted by the checker has a `segment_length`, and
the lengths add up to the cable length. -/
theorem segment_length_of_segments (t : Table) (hw : WF t) (len : Int → Int → Nat) (segs : List (List Int))
    (h : segmentsOKB t len segs = true) :
    (∀ s ∈ segs, segLenW t len s = some (pathLen len s)) ∧ (segs.map (pathLen len)).sum = cable t len := by
  refine ⟨fun s hs => ?_, segment_lengths_sum_to_cable t hw len segs h⟩
  unfold segmentsOKB at h
  simp only [Bool.and_eq_true, List.all_eq_true] at h
  exact segLenW_of_parentPath t len s (h.1.1.1 s hs)

/-! ### the segment builders -/

/-- **`_generate_segments` (Python path) with the facts of the current source** — leaf filter `type == "end"`,
leafs sorted by root distance in descending order, the walk, the `len(sequence) > 1` filter, the final
`sorted(zip(lengths, sequences), reverse=True)`, isolated nodes appended last — **is the model's `segments`**,
hence an edge partition ordered longest first (`segments_correct`). -/
theorem generate_segments_as_written (t : Table) (len : Int → Int → Nat) :
    ∃ c, segCfg? = some c ∧ segmentsW c t len = segments t len :=
  ⟨_, rfl, segmentsW_eq (by decide) t len⟩

/-- … so what the source describes satisfies the property. -/
theorem generate_segments_as_written_correct (t : Table) (hw : WF t) (len : Int → Int → Nat) :
    ∃ c, segCfg? = some c ∧ segmentsOKB t len (segmentsW c t len) = true := by
  obtain ⟨c, h1, h2⟩ := generate_segments_as_written t len
  exact ⟨c, h1, h2 ▸ segments_correct t hw len⟩

/-- What sorting the leafs in ASCENDING order would do (a seeded change): the short twig is walked first and takes the
trunk, the result is no longer longest-first maximal — the decomposition differs from the model's. -/
example : segmentsW (SegCfg.mk .end_ true false true .gt 1 true true true true) ex (coordLen ex) ≠ segments ex (coordLen ex) := by
  decide

/-- **`_break_segments` (networkx branch) with the type sets of the current source** (seeds `branch`/`end`, stops
`branch`/`root`) **is the model's `smallSegments`**; loop condition, segment start and the igraph branch's degree
selectors / seed and stop formulas are the ones `Model/SegmentVariants.lean` (C04) models as written. -/
theorem break_segments_as_written (t : Table) :
    ∃ seeds stops, brkSeeds? = some seeds ∧ brkStops? = some stops ∧ brkShapeOK = true ∧
      smallSegmentsW seeds stops t = smallSegments t :=
  ⟨_, _, rfl, rfl, by decide, smallSegmentsW_eq (by decide) (by decide) t⟩

set_option maxRecDepth 8000 in
/-- Graph modes, weights, normalisations of the point queries; Euclidean edge weights in all graph builders; the
cached views call the functions above with default options. -/
theorem point_queries_and_weights_as_written : pointShapeOK = true ∧ weightShapeOK = true ∧ viewsOK = true := by decide

/-! ### edge lengths -/

/-- **Edge lengths are Euclidean**: whenever the child–parent distance is an integer `w` (`w² = dx² + dy² + dz²`; the
driver checks this for every edge of every generated case) the model's `coordLen` is `w`. -/
theorem edge_length_is_euclidean (t : Table) (a b : Int) (na nb : Node) (ha : find? t a = some na) (hb : find? t b = some nb)
    (w : Nat) (hw : sqDist na nb = w * w) : coordLen t a b = w := coordLen_exact ha hb w hw

/-- The integer square root used for it: `r² ≤ n < (r+1)²`, exact on perfect squares. -/
theorem isqrt_correct (n : Nat) : isqrt n * isqrt n ≤ n ∧ n < (isqrt n + 1) * (isqrt n + 1) ∧ isqrt (n * n) = n :=
  ⟨(isqrt_spec n).1, (isqrt_spec n).2, isqrt_sq n⟩

/-- **`weight=None` counts edges**: with unit weights the length of a path is its number of edges, the root
distance is the depth. -/
theorem unweighted_counts_edges (t : Table) (p : List Int) (i : Int) :
    pathLen (fun _ _ => 1) p = p.length - 1 ∧ distToRoot t (fun _ _ => 1) i = (rootPath t i).length - 1 :=
  ⟨pathLen_unit p, pathLen_unit _⟩

/-! ### the checkers accept exactly what the property demands -/

/-- **`segmentsOKB` is sound AND complete**: it accepts a list iff the list consists of child → parent paths, covers
every edge exactly once, is ordered longest first and lists exactly the isolated nodes as single-node segments — so the
checker can neither miss a violation of these clauses nor raise an alarm on a list that satisfies them (whatever the
order among ties). -/
theorem segmentsOKB_iff (t : Table) (len : Int → Int → Nat) (segs : List (List Int)) :
    segmentsOKB t len segs = true ↔
      (∀ s ∈ segs, isParentPath t s = true) ∧
      (((segs.filter fun s => s.length > 1).flatMap fun s => s.dropLast).Perm ((t.filter fun n => !isRootNode n).map (·.id))) ∧
      nonIncreasing (segs.map (pathLen len)) = true ∧
      ((segs.filter fun s => s.length == 1).flatten.Perm ((t.filter fun n => isRootNode n && childCount t n.id == 0).map (·.id))) := by
  unfold segmentsOKB coversEdgesOnce
  simp only [Bool.and_eq_true, List.all_eq_true, beq_iff_eq]
  constructor
  · rintro ⟨⟨⟨h1, h2⟩, h3⟩, h4⟩
    exact ⟨h1, perm_of_sortedInts_eq h2, h3, perm_of_sortedInts_eq h4⟩
  · rintro ⟨h1, h2, h3, h4⟩
    exact ⟨⟨⟨h1, sortedInts_eq_of_perm h2⟩, h3⟩, sortedInts_eq_of_perm h4⟩

/-- **Start of a small segment** (the clause `smallSegmentsOKB_sound` leaves out): every accepted segment starts at
a non-root node that is a leaf or a branch point (not a slab). -/
theorem smallSegmentsOKB_sound_head (t : Table) (segs : List (List Int)) (h : smallSegmentsOKB t segs = true) :
    ∀ s ∈ segs, ∃ hd n, s.head? = some hd ∧ find? t hd = some n ∧ ¬ n.parent < 0 ∧ childCount t hd ≠ 1 := by
  unfold smallSegmentsOKB at h
  simp only [Bool.and_eq_true, List.all_eq_true] at h
  intro s hs
  obtain ⟨⟨⟨_, hh⟩, _⟩, _⟩ := h.1 s hs
  cases hd : s.head? with
  | none => rw [hd] at hh; simp at hh
  | some a =>
    rw [hd] at hh
    simp only at hh
    cases hf : find? t a with
    | none => rw [hf] at hh; simp at hh
    | some n =>
      rw [hf] at hh
      simp only [Bool.and_eq_true, Bool.not_eq_true', decide_eq_false_iff_not, bne_iff_ne, ne_eq] at hh
      exact ⟨a, n, rfl, hf, hh.1, hh.2⟩

end AsWritten

/-! ### edge weights and integer-typed coordinate columns -/
section EdgeDtypes
open Navis.EdgeDtype Navis.DistX

/-- **Every Python site that computes an edge length takes the child − parent difference in float** (`neuron2nx`,
`neuron2igraph`, the node-table path of `cable_length`: both operands `.astype(float)`; `parent_dist`: the parent operand is
float by construction), as read from the current source — **and therefore computes the model's `coordLen` whatever the dtype of
the coordinate columns** (float, signed or unsigned integers of any width).  Dropping a cast makes this theorem fail. -/
theorem edge_weights_in_float_as_written :
    ([nxSite?, igSite?, clSite?, pdSite?].filterMap id).length = 4 ∧
      ∀ s ∈ [nxSite?, igSite?, clSite?, pdSite?].filterMap id, ∀ (col : Dt) (t : Table) (a b : Int),
        edgeLenAt s col t a b = coordLen t a b := by
  refine ⟨by decide, ?_⟩
  intro s hs col t a b
  have hall : ([nxSite?, igSite?, clSite?, pdSite?].filterMap id).all siteInFloatB = true := by decide
  exact edgeLenAt_eq_coordLen (List.all_eq_true.mp hall s hs) col t a b

/-- … hence the Euclidean distance whenever that is an integer `w` (`w² = dx² + dy² + dz²`), for every column dtype. -/
theorem edge_length_is_euclidean_as_written (t : Table) (a b : Int) (na nb : Node) (ha : find? t a = some na) (hb : find? t b = some nb)
    (w : Nat) (hw : sqDist na nb = w * w) (col : Dt) :
    ∀ s ∈ [nxSite?, igSite?, clSite?, pdSite?].filterMap id, edgeLenAt s col t a b = w := by
  intro s hs
  rw [edge_weights_in_float_as_written.2 s hs col t a b]
  exact coordLen_exact ha hb w hw

/-- The cast is REQUIRED, witness 1 (`cable_length`'s node-table path before navis commit 12b2794: difference of the raw
columns, `np.linalg.norm` squares in float): uint32 columns, child at x = 3, parent at x = 5 — the difference wraps to
2³² − 2 and that is the "length" (the Euclidean one is 2). -/
theorem uncast_unsigned_difference_wraps :
    edgeLenAt ⟨.raw, .raw, false⟩ (.uint 32) [⟨1, -1, 5, 0, 0, .root⟩, ⟨2, 1, 3, 0, 0, .end_⟩] 2 1 = 4294967294 ∧
    coordLen [⟨1, -1, 5, 0, 0, .root⟩, ⟨2, 1, 3, 0, 0, .end_⟩] 2 1 = 2 := by
  constructor
  · have e : (sqLenIn (diffDt .raw .raw (.uint 32)) false ⟨2, 1, 3, 0, 0, .end_⟩ ⟨1, -1, 5, 0, 0, .root⟩).toNat = 4294967294 * 4294967294 := by decide
    show isqrt (sqLenIn (diffDt .raw .raw (.uint 32)) false ⟨2, 1, 3, 0, 0, .end_⟩ ⟨1, -1, 5, 0, 0, .root⟩).toNat = 4294967294
    rw [e, isqrt_sq]
  · decide

/-- Witness 2 (`neuron2igraph` before navis commit 67e95bf, `neuron2nx` without its cast: difference AND squares in the
columns' dtype): uint16 columns, an edge of length 300 — 300² = 90000 overflows to 24464, the "length" is 156; int32 columns,
an edge of length 50000 — the square overflows to a negative number (numpy: NaN; here 0). -/
theorem uncast_squares_overflow :
    edgeLenAt ⟨.raw, .raw, true⟩ (.uint 16) [⟨1, -1, 0, 0, 0, .root⟩, ⟨2, 1, 300, 0, 0, .end_⟩] 2 1 = 156 ∧
    coordLen [⟨1, -1, 0, 0, 0, .root⟩, ⟨2, 1, 300, 0, 0, .end_⟩] 2 1 = 300 ∧
    edgeLenAt ⟨.raw, .raw, true⟩ (.sint 32) [⟨1, -1, 0, 0, 0, .root⟩, ⟨2, 1, 50000, 0, 0, .end_⟩] 2 1 = 0 ∧
    coordLen [⟨1, -1, 0, 0, 0, .root⟩, ⟨2, 1, 50000, 0, 0, .end_⟩] 2 1 = 50000 := by
  refine ⟨by decide, by decide, by decide, ?_⟩
  show isqrt (sqDist ⟨2, 1, 50000, 0, 0, .end_⟩ ⟨1, -1, 0, 0, 0, .root⟩) = 50000
  have e : sqDist ⟨2, 1, 50000, 0, 0, .end_⟩ ⟨1, -1, 0, 0, 0, .root⟩ = 50000 * 50000 := by decide
  rw [e, isqrt_sq]

/-- Small unsigned differences with the squares taken in the same dtype are benign (arithmetic modulo 2ᵇ squares
correctly): the wrap only shows once a square overflows — which is why the igraph weights were right on small uint32 tables
while `cable_length` was not. -/
example : edgeLenAt ⟨.raw, .raw, true⟩ (.uint 32) [⟨1, -1, 5, 0, 0, .root⟩, ⟨2, 1, 3, 0, 0, .end_⟩] 2 1 = 2 := by decide

/-- Every call that hands coordinates to the compiled accelerator's `parent_dist` — in `parent_dist`, `cable_length`,
`geodesic_matrix(weight='weight')` and `_generate_segments(weight='weight')` — casts them to a floating dtype first (facts
re-extracted from the current source).  The accelerator computes in the dtype it is handed, so integer columns overflowed
or wrapped there while the igraph / networkx sites (theorems above) were right: repaired defect ece9888.  Dropping the cast
at any of the four sites stops this theorem from checking, and the integer-dtype stream then exhibits the failing table. -/
theorem fastcore_parent_dist_receives_float_coordinates :
    Navis.Gen.Dist.pdFcCoords = ["cast"] ∧ Navis.Gen.Dist.clFcCoords = ["cast"] ∧
      Navis.Gen.Dist.gmFcCoords = ["cast"] ∧ Navis.Gen.Dist.sgFcCoords = ["cast"] := by decide

end EdgeDtypes

/-! ### Non-vacuity (second pass) -/
section ExamplesX
open Navis.DistX
def exCfg : GeoCfg := (fcCfg?).getD ⟨.truthy, false, false, .sourcesArg, .fromArg, false, false, false, false, .ignored⟩
example : fcCfg? = some exCfg := rfl
example : (geoMatW exCfg ex (coordLen ex) true false (.num 3) (.list [4, 2, 4])).map (fun m => (m.rows, m.cols, m.vals)) =
    some ([2, 4], [1, 2, 3, 4, 9], [[some 3, some 0, some 3, none, none], [none, none, none, some 0, none]]) := by decide
example : ((spCfg?).bind fun c => geoMatW c ex (coordLen ex) true true .npInf (.scalar 3)).map (fun m => (m.rows, m.vals)) =
    some ([3], [[some 6, some 3, some 0, none, none]]) := by decide
example : geoMatW exCfg ex (coordLen ex) true false .pyNone (.list [7]) = none := by decide
example : ((adjMatW .ge 0 ex).get? 3 2, (adjMatW .ge 0 ex).get? 2 3, (adjMatW .ge 0 ex).get? 9 9) = (some true, some false, some false) := by decide
/-- `sort=True` on a forest (two roots; navis sorts tree by tree since the `node_label_sorting` fix): same relation. -/
example : ((adjSorted .ge 0 ex [1, 2, 4, 3, 9]).rows, (adjSorted .ge 0 ex [1, 2, 4, 3, 9]).get? 4 2, (adjSorted .ge 0 ex [1, 2, 4, 3, 9]).get? 9 1) =
    ([1, 2, 4, 3, 9], some true, some false) := by decide
example : (distalW ex (.list [4, 3]) .none).vals = [[true, true, true, false, false], [true, true, false, true, false]] := by decide
example : dictGet (distToRootW ex (coordLen ex)) 4 = some 7 ∧ dictGet (distToRootW ex (coordLen ex)) 9 = some 0 := by decide
example : segLenW ex (coordLen ex) [4, 2, 1] = some 7 ∧ segLenW ex (coordLen ex) [4, 3] = none := by decide
example : cableMaskedW .ge 0 ex (coordLen ex) [true, false, true, true, true] = 0 ∧
    cableMaskedW .ge 0 ex (coordLen ex) [true, true, false, true, true] = 7 := by decide
end ExamplesX

end Navis.Props.C05
