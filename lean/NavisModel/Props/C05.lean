import NavisModel.Proofs.DistLemmas
import NavisModel.Proofs.SegmentLemmas
/-!
# C05 — tree distances and segment decompositions match their definitions

The model *is* the definition (walk parent links, sum edge lengths); these theorems establish the
internal consistency of that definition and the meaning of the checkers that the driver evaluates on
navis' own `segments` / `small_segments` lists.  `len` is any edge-length function.
-/
namespace Navis.Props.C05
open Navis.Forest

/-- Directed distances are finite exactly when the target lies on the source's path to its root
(this is also the `distal_to` relation). -/
theorem geoDir_finite_iff_ancestor (t : Table) (len : Int → Int → Nat) (a b : Int) :
    (geo t len true a b).isSome ↔ b ∈ rootPath t a := geo_directed_isSome_iff t len a b

/-- Every present node is at distance 0 from itself. -/
theorem geo_self_zero (t : Table) (len : Int → Int → Nat) (d : Bool) (a : Int) (ha : a ∈ ids t) :
    geo t len d a a = some 0 := geo_self t len d a ha

/-- `limit` keeps distances equal to the limit and drops only strictly larger ones. -/
theorem limit_keeps_le (l v : Nat) : applyLimit (some l) (some v) = (if v ≤ l then some v else none) := by
  unfold applyLimit
  by_cases h : v ≤ l
  · have : ¬ v > l := by omega
    simp [h, this]
  · have : v > l := by omega
    simp [h, this]

/-- Adjacency is the parent relation. -/
theorem adjacency_iff_parent (t : Table) (a b : Int) :
    adjacent t a b = true ↔ ∃ n, find? t a = some n ∧ 0 ≤ n.parent ∧ n.parent = b := adjacent_iff t a b

/-- Cable length is the sum of child–parent distances over the non-root rows. -/
theorem cable_eq_sum_parent_dist (t : Table) (len : Int → Int → Nat) :
    cable t len = ((t.filter fun n => !isRootNode n).map fun n => len n.id n.parent).sum := rfl

/-- **Meaning of the `segments` checker**: a list accepted by `segmentsOKB` consists of child→parent
paths whose non-last elements are exactly the non-root nodes, each once (so every edge lies in
exactly one segment), ordered longest first, with the isolated nodes as the single-node segments. -/
theorem segmentsOKB_sound (t : Table) (len : Int → Int → Nat) (segs : List (List Int))
    (h : segmentsOKB t len segs = true) :
    (∀ s ∈ segs, s ≠ [] ∧ ∀ k (h1 : k + 1 < s.length), adjacent t (s[k]'(by omega)) (s[k+1]) = true) ∧
    (((segs.filter fun s => s.length > 1).flatMap fun s => s.dropLast).Perm ((t.filter fun n => !isRootNode n).map (·.id))) ∧
    (∀ k (h1 : k + 1 < (segs.map (pathLen len)).length), (segs.map (pathLen len))[k+1] ≤ (segs.map (pathLen len))[k]'(by omega)) ∧
    ((segs.filter fun s => s.length == 1).flatten.Perm ((t.filter fun n => isRootNode n && childCount t n.id == 0).map (·.id))) := by
  unfold segmentsOKB coversEdgesOnce at h
  simp only [Bool.and_eq_true, List.all_eq_true, beq_iff_eq] at h
  obtain ⟨⟨⟨h1, h2⟩, h3⟩, h4⟩ := h
  exact ⟨fun s hs => isParentPath_spec t s (h1 s hs), perm_of_sortedInts_eq h2, nonIncreasing_spec _ h3,
    perm_of_sortedInts_eq h4⟩

/-- **Meaning of the `small_segments` checker** (edge-partition clause). -/
theorem smallSegmentsOKB_sound (t : Table) (segs : List (List Int)) (h : smallSegmentsOKB t segs = true) :
    (∀ s ∈ segs, isParentPath t s = true ∧ s.length > 1 ∧
      (∃ l, s.getLast? = some l ∧ isBranchOrRoot t l = true) ∧
      (∀ i ∈ (s.drop 1).dropLast, childCount t i = 1 ∧ isBranchOrRoot t i = false)) ∧
    (((segs.filter fun s => s.length > 1).flatMap fun s => s.dropLast).Perm ((t.filter fun n => !isRootNode n).map (·.id))) := by
  unfold smallSegmentsOKB coversEdgesOnce at h
  simp only [Bool.and_eq_true, List.all_eq_true, beq_iff_eq, decide_eq_true_eq] at h
  obtain ⟨h1, h2⟩ := h
  refine ⟨?_, perm_of_sortedInts_eq h2⟩
  intro s hs
  obtain ⟨⟨⟨⟨ha, hb⟩, _⟩, hc⟩, hd⟩ := h1 s hs
  refine ⟨ha, hb, ?_, ?_⟩
  · cases hl : s.getLast? with
    | none => rw [hl] at hc; simp at hc
    | some l => rw [hl] at hc; exact ⟨l, rfl, hc⟩
  · intro i hi
    have := hd i hi
    simpa using this

/-! ### Undirected distances -/

/-- **Undirected distances are symmetric** (for any edge-length function, symmetric or not: both
sides walk *up* to the lowest common ancestor; absent nodes are at distance ∞ either way). -/
theorem geo_symm (t : Table) (hw : WF t) (len : Int → Int → Nat) (a b : Int) :
    geo t len false a b = geo t len false b a := geo_symm' hw len a b

/-- **Unreachable exactly across fragments**: the undirected distance of two present nodes is ∞ iff
they have different roots. -/
theorem geo_inf_iff_diff_tree (t : Table) (hw : WF t) (len : Int → Int → Nat) (a b : Int)
    (ha : a ∈ ids t) (hb : b ∈ ids t) : geo t len false a b = none ↔ rootOf t a ≠ rootOf t b :=
  geo_none_iff hw len ha hb

/-- **A finite undirected distance is the length of an explicit path**: a duplicate-free node list
from `a` to `b` whose consecutive nodes are adjacent (child→parent on the way up to the lowest
common ancestor, parent→child on the way down), with `d` the sum of its edge lengths. -/
theorem geo_eq_path_sum (t : Table) (hw : WF t) (len : Int → Int → Nat) (hs : ∀ a b, len a b = len b a)
    (a b : Int) (d : Nat) (h : geo t len false a b = some d) :
    ∃ p : List Int, p.head? = some a ∧ p.getLast? = some b ∧ p.Nodup ∧
      (∀ k (h1 : k + 1 < p.length),
        adjacent t (p[k]'(by omega)) (p[k+1]) = true ∨ adjacent t (p[k+1]) (p[k]'(by omega)) = true) ∧
      d = pathLen len p := by
  obtain ⟨p, h1, h2, h3, h4, h5⟩ := geo_path hw hs h
  exact ⟨p, h1, h2, h3, UChain_spec p h4, h5⟩

/-! ### Distance to the root and cable length -/

/-- The root distance of a non-root node is its parent edge plus the parent's root distance. -/
theorem distToRoot_parent (t : Table) (hw : WF t) (len : Int → Int → Nat) (n : Node) (hn : n ∈ t)
    (hp : ¬ n.parent < 0) : distToRoot t len n.id = len n.id n.parent + distToRoot t len n.parent :=
  Navis.Forest.distToRoot_parent hw len hn hp

/-- Roots are at distance 0 from the root. -/
theorem distToRoot_root (t : Table) (len : Int → Int → Nat) (n : Node) (hn : n ∈ t) (hnd : (ids t).Nodup)
    (hp : n.parent < 0) : distToRoot t len n.id = 0 :=
  Navis.Forest.distToRoot_root len (find?_of_mem hnd hn) hp

/-- **Segment lengths add up to the cable length**: any list of child→parent paths whose non-last
nodes are the non-root nodes once each (the soundness clauses of both checkers) has total length
`cable`. -/
theorem segment_lengths_sum_of_partition (t : Table) (hw : WF t) (len : Int → Int → Nat) (segs : List (List Int))
    (hall : ∀ s ∈ segs, isParentPath t s = true)
    (hperm : ((segs.filter fun s => s.length > 1).flatMap fun s => s.dropLast).Perm
      ((t.filter fun n => !isRootNode n).map (·.id))) :
    (segs.map (pathLen len)).sum = cable t len := sum_pathLen_eq_cable hw.1 len segs hall hperm

/-- Every list accepted by the `segments` checker has total length `cable`. -/
theorem segment_lengths_sum_to_cable (t : Table) (hw : WF t) (len : Int → Int → Nat) (segs : List (List Int))
    (h : segmentsOKB t len segs = true) : (segs.map (pathLen len)).sum = cable t len := by
  have hperm := (segmentsOKB_sound t len segs h).2.1
  unfold segmentsOKB at h
  simp only [Bool.and_eq_true, List.all_eq_true] at h
  exact sum_pathLen_eq_cable hw.1 len segs h.1.1.1 hperm

/-- Every list accepted by the `small_segments` checker has total length `cable`. -/
theorem small_segment_lengths_sum_to_cable (t : Table) (hw : WF t) (len : Int → Int → Nat) (segs : List (List Int))
    (h : smallSegmentsOKB t segs = true) : (segs.map (pathLen len)).sum = cable t len := by
  obtain ⟨h1, h2⟩ := smallSegmentsOKB_sound t segs h
  exact sum_pathLen_eq_cable hw.1 len segs (fun s hs => (h1 s hs).1) h2

/-! ### The model's small segments satisfy the property -/

/-- **Every non-root node is a non-last element of exactly one small segment** (⇒ each edge lies in
exactly one small segment). -/
theorem small_segments_partition (t : Table) (hw : WF t) :
    (((smallSegments t).filter fun s => s.length > 1).flatMap fun s => s.dropLast).Perm
      ((t.filter fun n => !isRootNode n).map (·.id)) := smallSegments_cover hw

/-- **`small_segments` is correct**: each segment starts at a non-root leaf/branch point, ends at the
first branch point/root above it, has only slabs in between, and the segments partition the edges. -/
theorem smallSegments_correct (t : Table) (hw : WF t) : smallSegmentsOKB t (smallSegments t) = true :=
  smallSegments_ok hw

/-- **Shape of the model's small segments**, readable form: child→parent paths of ≥ 2 nodes ending at a
branch point/root with only slabs strictly inside. -/
theorem small_segments_shape (t : Table) (hw : WF t) : ∀ s ∈ smallSegments t,
    isParentPath t s = true ∧ s.length > 1 ∧
      (∃ l, s.getLast? = some l ∧ isBranchOrRoot t l = true) ∧
      (∀ i ∈ (s.drop 1).dropLast, childCount t i = 1 ∧ isBranchOrRoot t i = false) :=
  (smallSegmentsOKB_sound t _ (smallSegments_correct t hw)).1

/-- The model's small segments add up to the cable length. -/
theorem smallSegments_sum_to_cable (t : Table) (hw : WF t) (len : Int → Int → Nat) :
    ((smallSegments t).map (pathLen len)).sum = cable t len :=
  small_segment_lengths_sum_to_cable t hw len _ (smallSegments_correct t hw)

/-! ### The model's greedy segments satisfy the property -/

/-- **`segments` is sorted longest first** (no hypothesis on the table needed). -/
theorem segments_sorted (t : Table) (len : Int → Int → Nat) :
    ∀ k (h1 : k + 1 < ((segments t len).map (pathLen len)).length),
      ((segments t len).map (pathLen len))[k+1] ≤ ((segments t len).map (pathLen len))[k]'(by omega) :=
  nonIncreasing_spec _ (segments_nonIncreasing t len)

/-- **The single-node segments are exactly the isolated nodes** (childless roots), in table order,
and they come last (no hypothesis on the table needed). -/
theorem segments_isolated (t : Table) (len : Int → Int → Nat) :
    ((segments t len).filter fun s => s.length == 1).flatten =
      (t.filter fun n => isRootNode n && childCount t n.id == 0).map (·.id) ∧
    ∃ long, segments t len = long ++ ((t.filter fun n => isRootNode n && childCount t n.id == 0).map fun n => [n.id]) ∧
      ∀ s ∈ long, s.length > 1 := by
  refine ⟨segments_single_eq_isolated t len, _, rfl, ?_⟩
  intro s hs
  have : s ∈ (segments t len).filter fun s => s.length > 1 := by
    rw [segments_filter_long]; exact hs
  simpa using (List.mem_filter.mp this).2

/-- **Every non-root node is a non-last element of exactly one segment** (⇒ each edge lies in exactly
one segment). -/
theorem segments_partition (t : Table) (hw : WF t) (len : Int → Int → Nat) :
    (((segments t len).filter fun s => s.length > 1).flatMap fun s => s.dropLast).Perm
      ((t.filter fun n => !isRootNode n).map (·.id)) :=
  (segmentsOKB_sound t len _ (segments_ok hw len)).2.1

/-- **`segments` is correct**: child→parent paths, an edge partition, longest first, isolated nodes
as the single-node segments. -/
theorem segments_correct (t : Table) (hw : WF t) (len : Int → Int → Nat) :
    segmentsOKB t len (segments t len) = true := segments_ok hw len

/-- The model's segments add up to the cable length. -/
theorem segments_sum_to_cable (t : Table) (hw : WF t) (len : Int → Int → Nat) :
    ((segments t len).map (pathLen len)).sum = cable t len :=
  segment_lengths_sum_to_cable t hw len _ (segments_correct t hw len)

/-! ### Non-vacuity -/
def ex : Table := [⟨1, -1, 0, 0, 0, .root⟩, ⟨2, 1, 3, 0, 0, .branch⟩, ⟨3, 2, 6, 0, 0, .end_⟩, ⟨4, 2, 3, 4, 0, .end_⟩, ⟨9, -1, 0, 0, 0, .root⟩]
example : geo ex (coordLen ex) false 3 4 = some 7 := by decide
example : geo ex (coordLen ex) true 3 4 = none ∧ geo ex (coordLen ex) false 3 9 = none := by decide
example : segments ex (coordLen ex) = [[4, 2, 1], [3, 2], [9]] := by decide
example : segmentsOKB ex (coordLen ex) (segments ex (coordLen ex)) = true := by decide
example : smallSegmentsOKB ex (smallSegments ex) = true := by decide
example : wfB ex = true := by decide
theorem ex_WF : WF ex := wfB_sound (by decide)
example : geo ex (coordLen ex) false 4 3 = geo ex (coordLen ex) false 3 4 := geo_symm ex ex_WF _ 4 3
example : rootOf ex 3 = some 1 ∧ rootOf ex 9 = some 9 ∧ geo ex (coordLen ex) false 3 9 = none := by decide
example : smallSegments ex = [[2, 1], [3, 2], [4, 2]] := by decide
example : ((segments ex (coordLen ex)).map (pathLen (coordLen ex))).sum = 10 ∧ cable ex (coordLen ex) = 10 ∧
    ((smallSegments ex).map (pathLen (coordLen ex))).sum = 10 := by decide
example : distToRoot ex (coordLen ex) 4 = coordLen ex 4 2 + distToRoot ex (coordLen ex) 2 ∧
    distToRoot ex (coordLen ex) 4 = 7 := by decide

end Navis.Props.C05
