import NavisModel.Proofs.HealLemmas
import NavisModel.Proofs.HealMinLemmas
import NavisModel.Proofs.HealStitchLemmas
import NavisModel.Proofs.HealStitchWfLemmas
import NavisModel.Proofs.HealCheckerLemmas
import NavisModel.Proofs.HealHistoryLemmas
import NavisModel.Gen.Heal
/-!
# C11 — healing and stitching connect fragments minimally and lose nothing

Property theorems only; helper lemmas are in `Proofs/HealConnLemmas.lean` (connectivity, acyclic edge
lists), `Proofs/HealRewireLemmas.lean` (the traversal behind `rewire`), `Proofs/HealKruskalLemmas.lean`
(union–find invariant, cut property), `Proofs/HealMstLemmas.lean` (rank lemma of the graphic matroid,
optimality of Kruskal's forest), `Proofs/HealLemmas.lean` / `Proofs/HealMinLemmas.lean` (candidate edges,
assembled facts, fragments, minimality against arbitrary allowed connections) and
`Proofs/HealStitchLemmas.lean` / `Proofs/HealStitchWfLemmas.lean` (id-clash remap, disjoint union).

All statements hold for every table `t` (any size, labelling and row order) that is a well-formed
forest, every method / `max_dist` / `min_size` / `mask`, every list of skeletons.  Distances are
SQUARED integer distances (`sqDist`); "shorter" is the same for squared and true lengths.
-/
namespace Navis.Props.C11
open Navis.Forest Navis.Heal

/-! ### heal -/

/-- Healing never removes, adds, reorders or moves a node: ids and coordinates are unchanged, row by row. -/
theorem heal_keeps_nodes (t : Table) (o : Opts) :
    (heal t o).map (fun n => (n.id, n.x, n.y, n.z)) = t.map (fun n => (n.id, n.x, n.y, n.z)) :=
  coords_heal t o

/-- The healed table is a well-formed forest (no cycle, no dangling parent, unique ids). -/
theorem heal_wf (t : Table) (hw : WF t) (o : Opts) : WF (heal t o) := (heal_spec hw o).1

/-- `rewire` yields a well-formed, correctly labelled forest on the same rows for EVERY undirected edge
list — cyclic ones and ones mentioning unknown nodes included. -/
theorem rewire_wf (t : Table) (hw : WF t) (E : List (Int × Int)) :
    WF (rewire t E) ∧ labelsOKB (rewire t E) = true ∧
      (rewire t E).map (fun n => (n.id, n.x, n.y, n.z)) = t.map (fun n => (n.id, n.x, n.y, n.z)) :=
  ⟨WF_rewire hw E, by rw [rewire_eq]; exact labelsOKB_classify _, coords_rewire t E⟩

/-- For an acyclic edge list over the table's nodes, `rewire` realises exactly that edge list. -/
theorem rewire_exact (t : Table) (hw : WF t) (E : List (Int × Int))
    (hends : ∀ e ∈ E, e.1 ∈ ids t ∧ e.2 ∈ ids t) (hnorm : ∀ e ∈ E, uedge e.1 e.2 = e) (hac : Acyc E) :
    (uedges (rewire t E)).Perm E :=
  (rewire_spec hw hends hnorm hac).2

/-- Every undirected edge of the input is an undirected edge of the output. -/
theorem heal_keeps_edges (t : Table) (hw : WF t) (o : Opts) : ∀ e ∈ uedges t, e ∈ uedges (heal t o) := by
  intro e he
  exact (heal_spec hw o).2.mem_iff.mpr (List.mem_append_left _ he)

/-- The undirected edges of the output are the old ones plus the bridging edges, each exactly once;
hence #new edges = #bridging edges = #fragments before − #fragments after; and an edge of the output
is new iff it is one of the bridging edges. -/
theorem heal_adds_one_per_merge (t : Table) (hw : WF t) (o : Opts) :
    (uedges (heal t o)).Perm (uedges t ++ addedU (healAdded t o)) ∧
    (uedges (heal t o)).length = (uedges t).length + (healAdded t o).length ∧
    (roots (heal t o)).length + (healAdded t o).length = (roots t).length ∧
    ∀ e, (e ∈ uedges (heal t o) ∧ e ∉ uedges t) ↔ e ∈ addedU (healAdded t o) := by
  have hp := (heal_spec hw o).2
  refine ⟨hp, by simpa [addedU] using hp.length_eq, heal_roots_count hw o, ?_⟩
  intro e
  have hnd : (uedges t ++ addedU (healAdded t o)).Nodup := hp.nodup_iff.mp (Nodup_uedges (heal_spec hw o).1)
  rw [hp.mem_iff, List.mem_append]
  constructor
  · rintro ⟨h1 | h1, h2⟩
    · exact absurd h1 h2
    · exact h1
  · intro h
    exact ⟨Or.inr h, fun h' => (List.nodup_append.mp hnd).2.2 e h' e h rfl⟩

/-- With no `max_dist`, `min_size`, `mask` or node list, healing a non-empty forest yields exactly one
root — for `ALL` and for `LEAFS`. -/
theorem heal_single_tree (t : Table) (hw : WF t) (hne : t ≠ []) (o : Opts) (hmax : o.maxD2 = none)
    (hmin : o.minSize = none) (hmask : o.mask = none) (hmeth : o.method = .all ∨ o.method = .leafs) :
    (roots (heal t o)).length = 1 :=
  heal_single hw hne hmax hmin hmask hmeth

/-- Every bridging edge joins two ALLOWED nodes (size limit, `LEAFS` / node list, mask) of two different
original fragments, its recorded length is their squared distance, it is the shortest allowed connection
between those two fragments, and it is strictly shorter than `max_dist`. -/
theorem heal_maxdist (t : Table) (o : Opts) : ∀ e ∈ healAdded t o,
    (∃ na ∈ t, ∃ nb ∈ t, na.id = e.a ∧ nb.id = e.b ∧ isCand t o na = true ∧ isCand t o nb = true ∧
      fragOf t na.id = e.fa ∧ fragOf t nb.id = e.fb ∧ e.d2 = sqDist na nb) ∧
    (∀ na ∈ t, ∀ nb ∈ t, isCand t o na = true → isCand t o nb = true →
      fragOf t na.id = e.fa → fragOf t nb.id = e.fb → e.d2 ≤ sqDist na nb) ∧
    (∀ m, o.maxD2 = some m → e.d2 < m) := by
  intro e he
  have hq := healAdded_quot he
  obtain ⟨na, ha, nb, hb, ca, cb, fa, fb, heq⟩ := hq.ex
  refine ⟨⟨na, ha, nb, hb, by rw [heq], by rw [heq], ca, cb, fa, fb, by rw [heq]⟩, hq.nearest, ?_⟩
  intro m hm
  have := hq.within
  unfold withinMax at this
  rw [hm] at this
  simpa using this

/-- **`max_dist = 0` is a limit like any other**: no pair of nodes is strictly closer than 0, so healing adds no edge
and the result has exactly the edges (and roots) of the input. -/
theorem heal_zero_limit (t : Table) (hw : WF t) (o : Opts) (h0 : o.maxD2 = some 0) :
    healAdded t o = [] ∧ (uedges (heal t o)).Perm (uedges t) ∧ (roots (heal t o)).length = (roots t).length := by
  have hnil : healAdded t o = [] := by
    apply List.eq_nil_iff_forall_not_mem.mpr
    intro e he
    have := (heal_maxdist t o e he).2.2 0 h0
    omega
  have hp := (heal_spec hw o).2
  have hr := heal_roots_count hw o
  rw [hnil] at hp hr
  exact ⟨hnil, by simpa [addedU] using hp, by simpa using hr⟩

/-- The bridging edges form a spanning forest of the fragment quotient graph: they are candidate edges,
acyclic on the fragments (Kruskal's union–find invariant), and they connect the two fragments of every
candidate edge (no further candidate edge could be added). -/
theorem heal_is_spanning_forest_of_quotient (t : Table) (o : Opts) (h : 1 < (roots t).length) :
    (∀ e ∈ healAdded t o, e ∈ quotientEdges t o) ∧ Acyc (qE (healAdded t o)) ∧
    ∀ c ∈ quotientEdges t o, Conn (qE (healAdded t o)) c.fa c.fb := by
  have hA : healAdded t o = kruskal (quotientEdges t o) := by unfold healAdded; rw [if_neg (by omega)]
  rw [hA]
  exact ⟨kruskal_sub _, kruskal_acyc _, kruskal_spans _⟩

/-- … and, together with the old edges, an acyclic edge set on the nodes. -/
theorem heal_edges_acyclic (t : Table) (hw : WF t) (o : Opts) : Acyc (uedges (heal t o)) :=
  Acyc_uedges (heal_spec hw o).1

/-- **Minimal total length (MST optimality).**  Take ANY list `T` of allowed connections (pairs of allowed
nodes of two different fragments, strictly closer than `max_dist`) that joins whatever fragments the
allowed connections can join.  Then the bridging edges of `heal` weigh at most as much as `T`, for EVERY
monotone weight `w` of the squared length — e.g. `w = id` (sum of squared lengths), `w x = ⌊2ᵏ·√x⌋` for every
`k` (hence the sum of the true lengths), or `w x = [θ ≤ x]` (number of edges at least `θ` long).
Proof: union–find class counting gives the rank lemma of the graphic matroid (`acyclic_le_spanning`), the
sorted scan gives domination on every threshold (`kruskal_dominates`), a layer-cake sum gives the total. -/
theorem kruskal_minimal (t : Table) (hw : WF t) (o : Opts) (T : List CEdge) (hT : ∀ e ∈ T, Allowed t o e)
    (hspan : ∀ c ∈ quotientEdges t o, Conn (qE T) c.fa c.fb) (w : Nat → Nat) (hmono : ∀ x y, x ≤ y → w x ≤ w y) :
    ((healAdded t o).map fun e => w e.d2).sum ≤ (T.map fun e => w e.d2).sum :=
  healAdded_minimal hw o T hT hspan w hmono

/-- … in particular against every spanning subset of the quotient graph's candidate edges, and on every
threshold: for every length `θ`, `heal` adds at most as many edges of squared length ≥ `θ` as `T` has. -/
theorem kruskal_minimal_thresholds (t : Table) (o : Opts) (T : List CEdge) (hT : ∀ e ∈ T, e ∈ quotientEdges t o)
    (hspan : ∀ c ∈ quotientEdges t o, Conn (qE T) c.fa c.fb) (θ : Nat) :
    (healAdded t o).countP (fun e => decide (θ ≤ e.d2)) ≤ T.countP (fun e => decide (θ ≤ e.d2)) := by
  unfold healAdded
  split
  · simp
  · apply kruskal_dominates _ T hT hspan
    intro e f hef he
    simp only [decide_eq_true_eq] at he ⊢
    omega

/-- **Cut property.** For every bridging edge there is a cut of the fragments that it
crosses such that NO pair of allowed nodes on different sides of the cut (and closer than `max_dist`) is
closer than the bridging edge. -/
theorem heal_cut_property (t : Table) (hw : WF t) (o : Opts) : ∀ e ∈ healAdded t o,
    ∃ S : Int → Prop, S e.fa ∧ ¬ S e.fb ∧
      ∀ na ∈ t, ∀ nb ∈ t, isCand t o na = true → isCand t o nb = true →
        S (fragOf t na.id) → ¬ S (fragOf t nb.id) →
        withinMax o ⟨sqDist na nb, na.id, nb.id, fragOf t na.id, fragOf t nb.id⟩ = true →
        e.d2 ≤ sqDist na nb := by
  intro e he
  unfold healAdded at he
  split at he
  · simp at he
  · obtain ⟨S, h1, h2, h3⟩ := kruskal_cut _ e he
    refine ⟨S, h1, h2, ?_⟩
    intro na ha nb hb ca cb sa sb hmax
    have hra := fragOf_mem_roots hw (mem_ids_of_mem ha)
    have hrb := fragOf_mem_roots hw (mem_ids_of_mem hb)
    have hne : fragOf t na.id ≠ fragOf t nb.id := fun h => sb (h ▸ sa)
    rcases mem_pairs hra hrb hne with hp | hp
    · obtain ⟨c, hc, f1, f2, hle⟩ := quotientEdges_exists hp ha hb ca cb rfl rfl hmax
      have := CEdge.le_d2 (h3 c hc (by rw [f1, f2]; exact ⟨fun _ => sb, fun _ => sa⟩))
      omega
    · have hsym : sqDist nb na = sqDist na nb := sqDist_comm nb na
      have hmax' : withinMax o ⟨sqDist nb na, nb.id, na.id, fragOf t nb.id, fragOf t na.id⟩ = true :=
        withinMax_mono (e := ⟨sqDist nb na, nb.id, na.id, fragOf t nb.id, fragOf t na.id⟩)
          (f := ⟨sqDist na nb, na.id, nb.id, fragOf t na.id, fragOf t nb.id⟩) (Nat.le_of_eq hsym) hmax
      obtain ⟨c, hc, f1, f2, hle⟩ := quotientEdges_exists hp hb ha cb ca rfl rfl hmax'
      have := CEdge.le_d2 (h3 c hc (by rw [f1, f2]; exact ⟨fun h => absurd h sb, fun h => absurd sa h⟩))
      omega

/-- The Lean-side checker evaluated on navis' own output is sound: if it accepts `(t, u)`, then `u` has
the same rows, is a well-formed forest, keeps every old edge, has one new edge per merged fragment, and
no new edge is longer than `max_dist`. -/
theorem healOKB_sound (t u : Table) (m : Option Nat) (h : healOKB t u m = true) :
    u.map (fun n => (n.id, n.x, n.y, n.z)) = t.map (fun n => (n.id, n.x, n.y, n.z)) ∧ WF u ∧
    (∀ e ∈ uedges t, e ∈ uedges u) ∧
    (newEdges t u).length + (roots u).length = (roots t).length ∧
    ∀ e ∈ newEdges t u, ∃ d, edgeD2 t e = some d ∧ ∀ k, m = some k → d ≤ k := by
  unfold healOKB at h
  simp only [Bool.and_eq_true, List.all_eq_true, decide_eq_true_eq, List.contains_eq_mem] at h
  obtain ⟨⟨⟨⟨h1, h2⟩, h3⟩, h4⟩, h5⟩ := h
  refine ⟨?_, wfB_sound h2, h3, h4, ?_⟩
  · unfold sameCoords at h1
    exact (of_decide_eq_true (by simpa using h1) : _ = _).symm
  · intro e he
    have := h5 e he
    cases hd : edgeD2 t e with
    | none => rw [hd] at this; cases m <;> simp at this
    | some d =>
      rw [hd] at this
      refine ⟨d, rfl, ?_⟩
      intro k hk
      rw [hk] at this
      simpa using this

/-! ### break_fragments -/

/-- The fragments partition the node set (every id in exactly one fragment); two nodes are in the same
fragment iff they have the same root iff they are connected; `break_fragments` returns one well-formed,
single-rooted piece per fragment, and every edge lies in exactly the piece of its fragment. -/
theorem break_fragments_partition (t : Table) (hw : WF t) :
    (fragments t).flatten.Perm (ids t) ∧
    (∀ i ∈ ids t, ∀ j ∈ ids t, ((∃ f ∈ fragments t, i ∈ f ∧ j ∈ f) ↔ rootOf t i = rootOf t j) ∧
      (rootOf t i = rootOf t j ↔ Conn (uedges t) i j)) ∧
    (∀ k p, p ∈ breakFragments t k ↔ ∃ r ∈ roots t, k ≤ (fragment t r).length ∧ p = subsetIds t (fragment t r)) ∧
    (∀ r ∈ roots t, WF (subsetIds t (fragment t r)) ∧ ids (subsetIds t (fragment t r)) = fragment t r ∧
      ∀ x, x ∈ roots (subsetIds t (fragment t r)) ↔ x = r) ∧
    (∀ e, e ∈ edges t ↔ ∃ r ∈ roots t, e ∈ edges (subsetIds t (fragment t r))) :=
  ⟨fragments_perm hw,
   fun _ hi _ hj => ⟨same_fragment_iff hw hi hj, (Conn_iff_rootOf hw hi hj).symm⟩,
   fun _ _ => mem_breakFragments,
   fun r hr => ⟨WF_subset hw _, ids_piece r, roots_piece hw hr⟩,
   break_edges hw⟩

/-! ### stitch -/

/-- After the id-clash remap all node ids of the combined table are distinct — for any number of
skeletons, any clashes, any master. -/
theorem stitch_ids_unique (mIx : Nat) (l : List Skel) (hok : ∀ s ∈ l, SkelOK s) :
    (ids (combine mIx l).nodes).Nodup :=
  stitchRemap_nodup mIx l hok

/-- Each input reappears at its position under ONE id map that is injective on its ids, fixes root
markers and leaves the master untouched: same rows and coordinates, and a node is the parent of another
after the remap iff it was before. -/
theorem stitch_preserves_each_input (mIx : Nat) (l : List Skel) (hok : ∀ s ∈ l, SkelOK s) (k : Nat) (s : Skel)
    (hk : l[k]? = some s) :
    ∃ out m, (stitchRemap mIx l)[k]? = some out ∧ (k = mIx → out = s) ∧
      (∀ a ∈ ids s.nodes, ∀ b ∈ ids s.nodes, remapId m a = remapId m b → a = b) ∧
      out.nodes = s.nodes.map (remapNode m) ∧
      out.nodes.map (fun n => (n.x, n.y, n.z)) = s.nodes.map (fun n => (n.x, n.y, n.z)) ∧
      ids out.nodes = (ids s.nodes).map (remapId m) ∧
      edges out.nodes = (edges s.nodes).map (fun e => (remapId m e.1, remapId m e.2)) ∧
      (roots out.nodes) = (roots s.nodes).map (remapId m) := by
  obtain ⟨out, m, h1, h2, h3⟩ := stitchRemap_get mIx l hok hk
  have heq := h2.eq
  refine ⟨out, m, h1, ?_, h2.inj, by rw [heq]; rfl, by rw [heq]; exact coords_remapSkel m s,
    by rw [heq]; exact ids_remapSkel m s, by rw [heq]; exact edges_remap h2.neg h2.nonneg, ?_⟩
  · intro hkm; rw [heq, h3 hkm]; exact remapSkel_nil s
  · rw [heq]
    unfold roots remapSkel
    simp only [List.filter_map, List.map_map]
    congr 1
    apply List.filter_congr
    intro n _
    exact isRootNode_remapNode h2.neg h2.nonneg n

/-- Parents, connectors and tags follow the SAME id map as the node ids. -/
theorem stitch_remap_consistent (mIx : Nat) (l : List Skel) (hok : ∀ s ∈ l, SkelOK s) (k : Nat) (s : Skel)
    (hk : l[k]? = some s) :
    ∃ out m, (stitchRemap mIx l)[k]? = some out ∧
      out.nodes.map (fun n => (n.id, n.parent)) = s.nodes.map (fun n => (remapId m n.id, remapId m n.parent)) ∧
      out.conns = s.conns.map (fun c => (c.1, remapId m c.2)) ∧
      out.tags = s.tags.map (fun tg => (tg.1, tg.2.map (remapId m))) ∧
      (∀ a, a < 0 → remapId m a = a) := by
  obtain ⟨out, m, h1, h2, _⟩ := stitchRemap_get mIx l hok hk
  refine ⟨out, m, h1, ?_, by rw [h2.eq]; rfl, by rw [h2.eq]; rfl, h2.neg⟩
  rw [h2.eq]
  simp [remapSkel, remapNode, List.map_map, Function.comp_def]

/-- The combined table (`method = 'NONE'`, `combine_neurons`) and the stitched table are well-formed
forests whenever every input is. -/
theorem stitch_wf (mIx : Nat) (l : List Skel) (hw : ∀ s ∈ l, WF s.nodes) (o : Opts) :
    WF (combine mIx l).nodes ∧ WF (stitch mIx l o).nodes :=
  ⟨combine_WF mIx l hw, heal_wf _ (combine_WF mIx l hw) o⟩

/-- `method = 'NONE'` / `combine_neurons`: the combined tables are the concatenation of the remapped inputs. -/
theorem combine_is_concat (mIx : Nat) (l : List Skel) :
    (combine mIx l).nodes = (stitchRemap mIx l).flatMap (·.nodes) ∧
    (combine mIx l).conns = (stitchRemap mIx l).flatMap (·.conns) ∧
    (stitchRemap mIx l).length = l.length :=
  ⟨rfl, rfl, by unfold stitchRemap; exact stitchGo_length _ _ _ _⟩


/-! ### second pass: the algorithm as written, option handling, checkers on navis' own output -/

/-- **Candidate edges as written.**  `_stitch_mst` asks the kd-tree of fragment `a` for the nearest node of every
node of fragment `b` (`distance_upper_bound=max_dist`: strictly closer) and takes the `argmin` of the answers.
The pair it finds is an admissible pair that is minimal among ALL admissible node pairs of the two fragments, it
finds none exactly when no pair is admissible, and the quotient graph built this way IS the specification-style
quotient graph (`quotientEdges`: minimum over all node pairs, then the `max_dist` test) — hence every theorem above
about `healAdded` (spanning forest, `kruskal_minimal` against arbitrary allowed connections, cut property) is a
theorem about the algorithm as written. -/
theorem kd_candidates_refine (t : Table) (o : Opts) :
    quotientEdgesKD t o = quotientEdges t o ∧
    healAdded t o = (if (roots t).length ≤ 1 then [] else kruskal (quotientEdgesKD t o)) ∧
    (∀ ca cb fa fb r, kdPair ca cb fa fb o = some r →
      r ∈ pairEdges ca cb fa fb ∧ withinMax o r = true ∧
        ∀ e ∈ pairEdges ca cb fa fb, withinMax o e = true → r.d2 ≤ e.d2) ∧
    (∀ ca cb fa fb, kdPair ca cb fa fb o = none → ∀ e ∈ pairEdges ca cb fa fb, withinMax o e = false) := by
  refine ⟨quotientEdgesKD_eq t o, by rw [quotientEdgesKD_eq]; rfl, ?_, fun ca cb fa fb h => kdPair_none h⟩
  intro ca cb fa fb r h
  obtain ⟨h1, h2, h3⟩ := kdPair_some h
  exact ⟨h1, h2, fun e he hw => CEdge.le_d2 (h3 e he hw)⟩

/-- **The lightest edge between two fragments is the only one a minimum spanning forest needs**: any list of allowed
connections can be replaced, edge by edge, by nearest-pair (quotient) edges that are at most as long and join the
same fragments — so restricting the MST to one nearest pair per fragment pair loses nothing. -/
theorem nearest_pairs_suffice (t : Table) (hw : WF t) (o : Opts) (T' : List CEdge) (hT' : ∀ e ∈ T', Allowed t o e)
    (w : Nat → Nat) (hmono : ∀ x y, x ≤ y → w x ≤ w y) :
    ∃ T, (∀ q ∈ T, q ∈ quotientEdges t o) ∧ (∀ a b, Conn (qE T') a b → Conn (qE T) a b) ∧
      (T.map fun e => w e.d2).sum ≤ (T'.map fun e => w e.d2).sum := by
  obtain ⟨T, h1, h2, h3⟩ := allowed_list_to_quot hw w hmono T' hT'
  exact ⟨T, h1, fun a b h => h.mono h2, h3⟩

/-- `drop_disc=True`: the result is a well-formed forest with at most one root; it is the healed neuron when that is
one tree, otherwise the piece of a LARGEST remaining fragment. -/
theorem heal_drop_disc (t : Table) (hw : WF t) (o : Opts) :
    WF (healDrop t o) ∧ (roots (healDrop t o)).length ≤ 1 ∧
    ((roots (heal t o)).length ≤ 1 → healDrop t o = heal t o) ∧
    (1 < (roots (heal t o)).length → ∃ r ∈ roots (heal t o),
      healDrop t o = subsetIds (heal t o) (fragment (heal t o) r) ∧
      ∀ r' ∈ roots (heal t o), (fragment (heal t o) r').length ≤ (fragment (heal t o) r).length) :=
  healDrop_spec hw o

/-- `drop_fluff` keeps WHOLE connected components: each meets `keep_size`, they form a prefix of the eligible
components in decreasing size (no dropped eligible component is larger than a kept one), `n_largest` bounds their
number and the default keeps exactly the first. -/
theorem drop_fluff_whole_fragments (t : Table) (hw : WF t) (keep : Option (Nat × Nat)) (nl : Option Nat) :
    dropFluff t keep nl = subsetIds t (fluffSel t keep nl).flatten ∧ WF (dropFluff t keep nl) ∧
    (∀ f ∈ fluffSel t keep nl, f ∈ fragments t) ∧
    (∀ k, keep = some k → ∀ f ∈ fluffSel t keep nl, k.1 ≤ f.length * k.2) ∧
    (∃ n, fluffSel t keep nl =
      ((sortBySize (fragments t)).filter fun c => match keep with
        | some k => decide (k.1 ≤ c.length * k.2) | none => true).take n ∧
      (nl = none → keep = none → n = 1) ∧ (∀ m, nl = some m → n = m)) ∧
    (sortBySize (fragments t)).Pairwise (fun a b => b.length ≤ a.length) := by
  obtain ⟨h1, h2, h3, h4⟩ := fluffSel_spec t keep nl
  exact ⟨dropFluff_eq t keep nl, by rw [dropFluff_eq]; exact WF_subset hw _, h1, h2, h3, h4⟩

/-- Master selection of `stitch_skeletons`: `'FIRST'` is index 0; `'LARGEST'` (and `'SOMA'` when no neuron has a
soma) is the FIRST neuron of maximal node count; `'SOMA'` is the FIRST neuron with a soma. -/
theorem master_selection (m : MasterS) (l : List Skel) (hs : List Bool) (hne : l ≠ []) (hlen : hs.length = l.length) :
    ∃ s, l[masterIxS m l hs]? = some s ∧
      (m = .first → masterIxS m l hs = 0) ∧
      ((m = .largest ∨ (m = .soma ∧ ∀ b ∈ hs, b = false)) →
        (∀ x ∈ l, x.nodes.length ≤ s.nodes.length) ∧
        ∀ k x, k < masterIxS m l hs → l[k]? = some x → x.nodes.length < s.nodes.length) ∧
      ((m = .soma ∧ ∃ b ∈ hs, b = true) →
        hs[masterIxS m l hs]? = some true ∧ ∀ k, k < masterIxS m l hs → hs[k]? = some false) := by
  have htake : hs.take l.length = hs := by rw [← hlen]; exact List.take_length
  obtain ⟨sl, hl1, hl2, hl3⟩ := largestIx_spec l hne
  cases m with
  | first =>
    cases l with
    | nil => exact absurd rfl hne
    | cons s rest =>
      refine ⟨s, by simp [masterIxS], fun _ => rfl, ?_, ?_⟩
      · rintro (h | ⟨h, _⟩) <;> cases h
      · rintro ⟨h, _⟩; cases h
  | largest =>
    refine ⟨sl, hl1, fun h => (by cases h), fun _ => ⟨hl2, hl3⟩, ?_⟩
    rintro ⟨h, _⟩; cases h
  | soma =>
    cases hf : firstTrue hs with
    | none =>
      have hm : masterIxS .soma l hs = largestIx l := by simp [masterIxS, htake, hf]
      rw [hm]
      refine ⟨sl, hl1, fun h => (by cases h), fun _ => ⟨hl2, hl3⟩, ?_⟩
      rintro ⟨_, b, hb, rfl⟩
      exact absurd (firstTrue_none hf true hb) (by simp)
    | some i =>
      have hm : masterIxS .soma l hs = i := by simp [masterIxS, htake, hf]
      rw [hm]
      obtain ⟨h1, h2⟩ := firstTrue_some hf
      have hi : i < l.length := by
        rw [← hlen]
        exact (List.getElem?_eq_some_iff.mp h1).1
      refine ⟨l[i], by simp [hi], fun h => (by cases h), ?_, fun _ => ⟨h1, h2⟩⟩
      rintro (h | ⟨_, hall⟩)
      · cases h
      · have := hall true (List.mem_of_getElem? h1)
        simp at this

/-- `combine_neurons` on meshes (`trimesh.util.concatenate`): the faces of the `k`-th mesh reappear shifted by the
number of vertices of the meshes before it, and no face is added. -/
theorem combine_mesh_faces (meshes : List (Nat × List (Nat × Nat × Nat))) (k : Nat) (m : Nat × List (Nat × Nat × Nat))
    (hk : meshes[k]? = some m) :
    (∀ f ∈ m.2, (f.1 + ((meshes.take k).map (·.1)).sum, f.2.1 + ((meshes.take k).map (·.1)).sum,
        f.2.2 + ((meshes.take k).map (·.1)).sum) ∈ concatFaces 0 meshes) ∧
    (concatFaces 0 meshes).length = (meshes.map (·.2.length)).sum := by
  refine ⟨?_, length_concatFaces meshes 0⟩
  intro f hf
  simpa using mem_concatFaces meshes 0 k m hk f hf

/-! #### checkers evaluated by the driver on navis' own output -/

/-- `healOKPB` (no demand on the row order) is sound. -/
theorem healOKPB_checker_sound (t u : Table) (m : Option Nat) (h : healOKPB t u m = true) :
    (u.map key).Perm (t.map key) ∧ WF u ∧
    (∀ e ∈ uedges t, e ∈ uedges u) ∧
    (newEdges t u).length + (roots u).length = (roots t).length ∧
    ∀ e ∈ newEdges t u, ∃ d, edgeD2 t e = some d ∧ ∀ k, m = some k → d ≤ k :=
  healOKPB_sound t u m h

/-- **Minimality on navis' own output.**  If `healMinOKB` accepts navis' table `u` for the input `t`, then every edge
`u` has in addition to `t` is an allowed connection (allowed nodes of two different fragments, strictly closer than
`max_dist`), and their total weight is minimal — for every monotone weight of the squared length — among ALL lists of
allowed connections that join whatever the allowed connections can join. -/
theorem healMinOKB_checker_sound (t u : Table) (hw : WF t) (o : Opts) (h : healMinOKB t u o = true) :
    (∀ e ∈ newCE t u, Allowed t o e) ∧ (newCE t u).length = (newEdges t u).length ∧
    ((newCE t u).map (·.d2)).Perm ((healAdded t o).map (·.d2)) ∧
    ∀ (T : List CEdge), (∀ e ∈ T, Allowed t o e) → (∀ c ∈ quotientEdges t o, Conn (qE T) c.fa c.fb) →
      ∀ w : Nat → Nat, (∀ x y, x ≤ y → w x ≤ w y) →
        ((newCE t u).map fun e => w e.d2).sum ≤ (T.map fun e => w e.d2).sum :=
  healMinOKB_sound hw h

/-- **Stitch / combine on navis' own output** (`method='NONE'`, `combine_neurons`).  If `stitchOKB` accepts navis'
combined skeleton `out` for the inputs `l`, then there is ONE id map per input such that: all ids of `out` are
distinct; each map is injective on its input's ids, fixes root markers and is the identity on the master; every
input row reappears with its coordinates, its id and its parent under that map, every connector and every tag entry
under the same map; and `out` contains nothing else (its rows / connectors / tag entries are exactly the remapped
inputs'). -/
theorem stitchOKB_sound (l : List Skel) (mIx : Nat) (out : Skel) (md : Option Nat)
    (h : stitchOKB l mIx out false md = true) :
    ∃ maps : List (List (Int × Int)),
      (ids out.nodes).Nodup ∧ maps.length = l.length ∧
      (∀ k s m, l[k]? = some s → maps[k]? = some m →
        (∀ a ∈ ids s.nodes, ∀ b ∈ ids s.nodes, remapId m a = remapId m b → a = b) ∧
        (∀ a, a < 0 → remapId m a = a) ∧ (k = mIx → ∀ a ∈ ids s.nodes, remapId m a = a) ∧
        (∀ n ∈ s.nodes, (remapId m n.id, remapId m n.parent, n.x, n.y, n.z) ∈ out.nodes.map nkey) ∧
        (∀ c ∈ s.conns, (c.1, remapId m c.2) ∈ out.conns) ∧
        (∀ tg ∈ s.tags, ∀ i ∈ tg.2, (tg.1, remapId m i) ∈ tagPairs out.tags)) ∧
      (out.nodes.map nkey).Perm (((remapAll l maps).flatMap (·.nodes)).map nkey) ∧
      out.conns.Perm ((remapAll l maps).flatMap (·.conns)) ∧
      (tagPairs out.tags).Perm (tagPairs ((remapAll l maps).flatMap (·.tags))) := by
  unfold stitchOKB at h
  have hex : ∃ maps, stitchOKWith l maps mIx out false md = true := by
    rcases (Bool.or_eq_true _ _).mp h with h | h <;> exact ⟨_, h⟩
  obtain ⟨maps, hm⟩ := hex
  obtain ⟨h1, h2, h3, h4, h5, h6⟩ := stitchOKWith_sound hm
  refine ⟨maps, h1, h2, ?_, h4, h5, h6⟩
  intro k s m hs hmm
  obtain ⟨p1, p2, p3⟩ := stitch_input_present h4 h5 h6 hs hmm
  exact ⟨(h3 k s m hs hmm).inj, (h3 k s m hs hmm).neg, (h3 k s m hs hmm).master, p1, p2, p3⟩

/-- … and for `method ≠ 'NONE'`: the node table is an admissible healing (same rows, well-formed forest, every edge
of every input kept under its map, one new edge per merged fragment, no new edge longer than `max_dist`) of the
remapped inputs; connectors and tags as above. -/
theorem stitchOKB_sound_fused (l : List Skel) (mIx : Nat) (out : Skel) (md : Option Nat)
    (h : stitchOKB l mIx out true md = true) :
    ∃ maps : List (List (Int × Int)),
      (ids out.nodes).Nodup ∧ maps.length = l.length ∧
      (∀ k s m, l[k]? = some s → maps[k]? = some m →
        (∀ a ∈ ids s.nodes, ∀ b ∈ ids s.nodes, remapId m a = remapId m b → a = b) ∧
        (∀ a, a < 0 → remapId m a = a) ∧ (k = mIx → ∀ a ∈ ids s.nodes, remapId m a = a)) ∧
      ((out.nodes.map Heal.key).Perm (((remapAll l maps).flatMap (·.nodes)).map Heal.key) ∧ WF out.nodes ∧
        (∀ e ∈ uedges ((remapAll l maps).flatMap (·.nodes)), e ∈ uedges out.nodes) ∧
        (newEdges ((remapAll l maps).flatMap (·.nodes)) out.nodes).length + (roots out.nodes).length =
          (roots ((remapAll l maps).flatMap (·.nodes))).length ∧
        ∀ e ∈ newEdges ((remapAll l maps).flatMap (·.nodes)) out.nodes,
          ∃ d, edgeD2 ((remapAll l maps).flatMap (·.nodes)) e = some d ∧ ∀ k, md = some k → d ≤ k) ∧
      out.conns.Perm ((remapAll l maps).flatMap (·.conns)) ∧
      (tagPairs out.tags).Perm (tagPairs ((remapAll l maps).flatMap (·.tags))) := by
  unfold stitchOKB at h
  have hex : ∃ maps, stitchOKWith l maps mIx out true md = true := by
    rcases (Bool.or_eq_true _ _).mp h with h | h <;> exact ⟨_, h⟩
  obtain ⟨maps, hm⟩ := hex
  obtain ⟨h1, h2, h3, h4, h5, h6⟩ := stitchOKWith_sound_fused hm
  refine ⟨maps, h1, h2, ?_, healOKPB_sound _ _ _ h4, h5, h6⟩
  intro k s m hs hmm
  exact ⟨(h3 k s m hs hmm).inj, (h3 k s m hs hmm).neg, (h3 k s m hs hmm).master⟩

/-! #### facts re-extracted from the current source (`translator/gen_heal.py` → `Gen/Heal.lean`) -/

/-- `heal_skeleton`: the accepted methods (upper-cased first), the defaults, which `_stitch_mst` keyword receives
which argument (healing is done in place on the copy), `max_dist` is mapped through the neuron's units, `drop_disc`
keeps `x.subtrees[0]` when more than one tree is left. -/
theorem gen_heal_options :
    Gen.Heal.healMethods = ["LEAFS", "ALL"] ∧ Gen.Heal.healMethodUpper = true ∧
    Gen.Heal.healDefaults = [("method", "'ALL'"), ("max_dist", "None"), ("min_size", "None"), ("drop_disc", "False"),
      ("mask", "None"), ("inplace", "False")] ∧
    Gen.Heal.healForward = [("inplace", "True"), ("mask", "mask"), ("max_dist", "max_dist"), ("min_size", "min_size"),
      ("nodes", "method")] ∧
    Gen.Heal.healCopiesUnlessInplace = true ∧ Gen.Heal.healMaxDistMapUnits = true ∧
    Gen.Heal.dropDiscSource = "x.subtrees" ∧ Gen.Heal.dropDiscIndex = 0 ∧ Gen.Heal.dropDiscGuard = ">1" :=
  ⟨rfl, rfl, rfl, rfl, rfl, rfl, rfl, rfl, rfl⟩

/-- `_stitch_mst`: a boolean mask is turned into node IDS (not row positions), mask and node list are matched against
the `node_id` column, `'LEAFS'` means `type ∈ {end, root}`. -/
theorem gen_mask_and_methods :
    Gen.Heal.boolMaskColumn = "node_id" ∧ Gen.Heal.maskFilterColumn = "node_id" ∧
    Gen.Heal.listFilterColumn = "node_id" ∧ Gen.Heal.leafsLiteral = "LEAFS" ∧ Gen.Heal.leafColumn = "type" ∧
    Gen.Heal.leafTypes = ["end", "root"] ∧ Gen.Heal.leafsLiteral ∈ Gen.Heal.healMethods :=
  ⟨rfl, rfl, rfl, rfl, rfl, rfl, by decide⟩

/-- The `min_size` test of the source is the model's (`isCand`: `min_size ≤ size of the node's fragment`), sizes
are counted on all nodes before the method / mask filters. -/
theorem gen_min_size (t : Table) (o : Opts) (n : Node) (k : Nat) (hk : o.minSize = some k)
    (h : isCand t o n = true) :
    Gen.Heal.minSizeKeeps (fragSize t (fragOf t n.id)) k = true ∧ Gen.Heal.minSizeCountsAllNodes = true := by
  refine ⟨?_, rfl⟩
  unfold isCand at h
  rw [hk] at h
  simp only [Bool.and_eq_true, decide_eq_true_eq] at h
  unfold Gen.Heal.minSizeKeeps
  exact decide_eq_true h.1.1

theorem gen_min_size_iff (s k : Nat) : Gen.Heal.minSizeKeeps s k = decide (k ≤ s) := rfl

/-- The kd-tree query is bounded by `max_dist`, the pair is the `argmin` over the query distances with consistent
index bookkeeping, the quotient graph has one edge per fragment pair weighted by that distance, the MST runs on it,
and the added node-level edges are the recorded node pairs; a single component is returned untouched; only the
non-numeric sentinels `True` / `False` / `None` mean "no limit" — every number, 0 included, is a limit. -/
theorem gen_candidate_generation :
    Gen.Heal.queryUpperBound = "max_dist" ∧ Gen.Heal.argminOverQueryDistances = true ∧
    Gen.Heal.pairIndexing = true ∧ Gen.Heal.allFragmentPairs = true ∧ Gen.Heal.mstWeightIsDistance = true ∧
    Gen.Heal.addedEdgesFromPairNodes = true ∧ Gen.Heal.singleComponentReturnsInput = true ∧
    Gen.Heal.unlimitedMaxDist = ["True", "False", "None"] ∧ Gen.Heal.numericMaxDistIsLimit = true ∧
    Gen.Heal.rewireInplaceArg = "inplace" :=
  ⟨rfl, rfl, rfl, rfl, rfl, rfl, rfl, rfl, rfl, rfl⟩

/-- **The id-clash remap of the source is the model's `clashMap`**: clashing ids are `seen ∩ this`, the neuron's own
ids are united into the seen set BEFORE `max(seen)` is taken, the fresh ids are `max + 1, max + 2, …`, and the fresh
ids (not the clashing ones) are added to the seen set afterwards. -/
theorem gen_stitch_clash (seen this : List Int) :
    clashMap seen this =
      ((this.filter fun i => seen.contains i).zipIdx.map fun ck =>
        (ck.1, Gen.Heal.freshId (maxOf (seen ++ this)) ck.2)) ∧
    Gen.Heal.clashSet = "seen & this" ∧ Gen.Heal.ownIdsSeenBeforeMax = true ∧ Gen.Heal.freshMaxOf = "seen_tn" ∧
    Gen.Heal.freshCount = "len(non_unique)" ∧ Gen.Heal.newMap = "dict(zip(non_unique, new_tn))" ∧
    Gen.Heal.freshAddedToSeen = ["new_tn"] ∧ Gen.Heal.freshAddedAfterFormula = true ∧
    Gen.Heal.seenInit = "set(m.nodes.node_id)" ∧ Gen.Heal.skipMaster = true ∧
    Gen.Heal.duplicateGuardColumnIsNodeId = true := by
  refine ⟨?_, rfl, rfl, rfl, rfl, rfl, rfl, rfl, rfl, rfl, rfl⟩
  unfold clashMap
  apply List.map_congr_left
  intro ck _
  unfold Gen.Heal.freshId
  congr 1
  omega

/-- Node ids, connector node ids, tags and parent ids all go through `new_map.get(k, k)` (unknown keys — in
particular root markers — map to themselves); the tables are concatenated in list order over all neurons; tags are
appended. -/
theorem gen_stitch_remap :
    Gen.Heal.remapTargets = [("nodes.node_id", true, "node_id"), ("connectors.node_id", true, "node_id"),
      ("tags", true, "tags"), ("nodes.parent_id", true, "parent_id")] ∧
    Gen.Heal.concatNodes = ("n.nodes", "nl") ∧ Gen.Heal.concatConnectors = ("n.connectors", "nl") ∧
    Gen.Heal.tagsAppended = true ∧ Gen.Heal.stitchCopiesInputs = true :=
  ⟨rfl, rfl, rfl, rfl, rfl⟩

/-- Master names, defaults and picks are the model's `masterIxS`; `'NONE'` returns before `_stitch_mst`, which otherwise
receives `nodes=method`, `max_dist`; `combine_neurons` is `stitch_skeletons(method='NONE', master='FIRST')`. -/
theorem gen_master_and_methods :
    Gen.Heal.allowedMaster = ["SOMA", "LARGEST", "FIRST"] ∧ Gen.Heal.masterUpper = true ∧
    Gen.Heal.stitchDefaults = [("method", "'ALL'"), ("master", "'SOMA'"), ("max_dist", "None")] ∧
    Gen.Heal.somaPick = "first-with-soma" ∧ Gen.Heal.somaFallsBackToLargest = true ∧
    Gen.Heal.largestKey = "n_nodes" ∧ Gen.Heal.largestReverse = true ∧ Gen.Heal.largestIndex = 0 ∧
    Gen.Heal.firstIndex = 0 ∧ Gen.Heal.noneLiteral = "NONE" ∧
    Gen.Heal.stitchForward = [("inplace", "False"), ("max_dist", "max_dist"), ("nodes", "method")] ∧
    Gen.Heal.combineArgs = [("master", "FIRST"), ("method", "NONE")] :=
  ⟨rfl, rfl, rfl, rfl, rfl, rfl, rfl, rfl, rfl, rfl, rfl, rfl⟩

/-- `break_fragments` / `drop_fluff`: largest first; a component is kept iff `min_size ≤ size` / `keep_size ≤ size`
(the model's tests); `keep_size < 1` is a fraction of the node count; `n_largest` takes a prefix; the default keeps
component 0; `drop_fluff` keeps disconnected connectors. -/
theorem gen_fragment_sizes (size k num den : Nat) :
    Gen.Heal.breakLargestFirst = true ∧ Gen.Heal.fluffLargestFirst = true ∧
    Gen.Heal.breakKeeps size k = decide (k ≤ size) ∧ Gen.Heal.fluffKeeps size k = decide (k ≤ size * 1) ∧
    Gen.Heal.fluffIsFraction num den = decide (num < den) ∧ Gen.Heal.fluffFractionOfNodeCount = true ∧
    Gen.Heal.fluffPrefixSlice = true ∧ Gen.Heal.fluffDefaultIndex = 0 ∧ Gen.Heal.fluffKeepDiscCn = "True" := by
  refine ⟨rfl, rfl, rfl, ?_, ?_, rfl, rfl, rfl, rfl⟩
  · unfold Gen.Heal.fluffKeeps; simp
  · unfold Gen.Heal.fluffIsFraction; simp


/-! ### final pass: histories, the `min_size` clause of `break_fragments`, checker completeness -/

/-- **Any history of healing calls** (arbitrary options each time) keeps every node where it is, keeps every edge of
the ORIGINAL skeleton, never increases the number of fragments, yields a well-formed forest, and every fragment it
loses is paid for by exactly one new edge (#edges + #roots is invariant). -/
theorem heal_history (t : Table) (hw : WF t) (os : List Opts) :
    WF (healSeq t os) ∧
    (healSeq t os).map (fun n => (n.id, n.x, n.y, n.z)) = t.map (fun n => (n.id, n.x, n.y, n.z)) ∧
    (∀ e ∈ uedges t, e ∈ uedges (healSeq t os)) ∧
    (roots (healSeq t os)).length ≤ (roots t).length ∧
    (uedges (healSeq t os)).length + (roots (healSeq t os)).length = (uedges t).length + (roots t).length :=
  healSeq_spec hw os

/-- Healing is idempotent once one tree is reached: after an unlimited healing (no `max_dist`, `min_size`, `mask`, node
list) every further history of healing calls — with any options — returns the same table. -/
theorem heal_idempotent_after_unlimited (t : Table) (hw : WF t) (hne : t ≠ []) (o : Opts) (hmax : o.maxD2 = none)
    (hmin : o.minSize = none) (hmask : o.mask = none) (hmeth : o.method = .all ∨ o.method = .leafs) (os : List Opts) :
    healSeq (heal t o) os = heal t o ∧ (breakFragments (heal t o) 0).length = 1 := by
  have h1 := heal_single_tree t hw hne o hmax hmin hmask hmeth
  exact ⟨healSeq_of_single (by omega) os, by rw [breakFragments_length, h1]⟩

/-- A skeleton that is already one tree (or empty) is returned unchanged by every healing call. -/
theorem heal_single_fragment_untouched (t : Table) (h : (roots t).length ≤ 1) (o : Opts) : heal t o = t :=
  heal_of_single h o

/-- **`break_fragments(min_size=k)`: the size test is the source's `len(cc) >= min_size`** (`Gen.Heal.breakKeeps`,
re-extracted): a piece is returned iff its component has AT LEAST `k` nodes — a component of exactly `k` nodes is
kept — and the number of pieces is the number of such components. -/
theorem break_fragments_min_size (t : Table) (k : Nat) :
    (∀ p, p ∈ breakFragments t k ↔
      ∃ r ∈ roots t, Gen.Heal.breakKeeps (fragment t r).length k = true ∧ p = subsetIds t (fragment t r)) ∧
    (∀ r ∈ roots t, (fragment t r).length = k → subsetIds t (fragment t r) ∈ breakFragments t k) ∧
    (breakFragments t k).length = ((roots t).filter fun r => Gen.Heal.breakKeeps (fragment t r).length k).length := by
  refine ⟨?_, ?_, ?_⟩
  · intro p
    rw [mem_breakFragments]
    constructor
    · rintro ⟨r, hr, hk, rfl⟩; exact ⟨r, hr, decide_eq_true hk, rfl⟩
    · rintro ⟨r, hr, hk, rfl⟩; exact ⟨r, hr, of_decide_eq_true hk, rfl⟩
  · intro r hr hk
    exact mem_breakFragments.mpr ⟨r, hr, by omega, rfl⟩
  · exact breakFragments_count t k

/-- **Checker completeness on the model**: `healOKB` accepts the table the modelled algorithm computes, for every
well-formed forest and all options (so the checker is satisfiable on every input and never rejects the algorithm as
written). -/
theorem healOKB_complete_on_model (t : Table) (hw : WF t) (o : Opts) : healOKB t (heal t o) o.maxD2 = true :=
  healOKB_complete hw o

/-- … and so does the minimality checker `healMinOKB`: every bridging edge of the model passes the "allowed
connection" test and the length multiset test, for every well-formed forest and all options. Together with
`healMinOKB_checker_sound` the checker accepts the algorithm as written and only minimal healings. -/
theorem healMinOKB_complete_on_model (t : Table) (hw : WF t) (o : Opts) : healMinOKB t (heal t o) o = true :=
  healMinOKB_complete hw o

/-- The edges the model's result has in addition to the input are exactly the bridging edges. -/
theorem heal_new_edges (t : Table) (hw : WF t) (o : Opts) :
    (newEdges t (heal t o)).Perm (addedU (healAdded t o)) :=
  newEdges_heal hw o

/-! ### Non-vacuity -/

/-- three fragments: a 3-chain, a 2-chain, an isolated node -/
def ex : Table :=
  [⟨5, -1, 0, 0, 0, .root⟩, ⟨6, 5, 3, 0, 0, .slab⟩, ⟨7, 6, 6, 0, 0, .end_⟩,
   ⟨1, -1, 6, 10, 0, .root⟩, ⟨2, 1, 9, 10, 0, .end_⟩, ⟨3, -1, 40, 0, 0, .root⟩]

example : wfB ex = true := by decide
example : ex ≠ [] := by decide
example : (healAdded ex {}).map (fun e => (e.a, e.b, e.d2)) = [(7, 1, 100), (2, 3, 1061)] := by decide
example : (heal ex {}).map (fun n => (n.id, n.parent)) = [(5, -1), (6, 5), (7, 6), (1, 7), (2, 1), (3, 2)] := by decide
example : (roots (heal ex {})).length = 1 := by decide
/-- `max_dist = 10` excludes the pair at distance exactly 10, `max_dist² = 101` admits it -/
example : healAdded ex { maxD2 := some 100 } = [] := by decide
example : (healAdded ex { maxD2 := some 101 }).map (fun e => (e.a, e.b)) = [(7, 1)] := by decide
/-- `max_dist = 0` connects nothing -/
example : healAdded ex { maxD2 := some 0 } = [] ∧ (heal ex { maxD2 := some 0 }).map (fun n => (n.id, n.parent)) = ex.map (fun n => (n.id, n.parent)) := by decide
example : (healAdded ex { method := .leafs, mask := some [5, 6, 1, 3] }).map (fun e => (e.a, e.b, e.d2)) =
    [(5, 1, 136), (1, 3, 1256)] := by decide
example : healOKB ex (heal ex {}) none = true := by decide
/-- a competitor for `kruskal_minimal`: the spanning tree 5–1–3 of the quotient graph via other node pairs -/
def exT : List CEdge := [⟨136, 5, 1, 5, 1⟩, ⟨1256, 1, 3, 1, 3⟩]
example : ∀ e ∈ exT, Allowed ex {} e := by
  intro e he
  simp only [exT, List.mem_cons, List.not_mem_nil, or_false] at he
  rcases he with rfl | rfl
  · exact ⟨⟨⟨5, -1, 0, 0, 0, .root⟩, by decide, ⟨1, -1, 6, 10, 0, .root⟩, by decide, by decide, by decide, by decide, by decide, by decide⟩,
      by decide, by decide⟩
  · exact ⟨⟨⟨1, -1, 6, 10, 0, .root⟩, by decide, ⟨3, -1, 40, 0, 0, .root⟩, by decide, by decide, by decide, by decide, by decide, by decide⟩,
      by decide, by decide⟩
example : ∀ c ∈ quotientEdges ex {}, Conn (qE exT) c.fa c.fb := by
  have hq : quotientEdges ex {} = [⟨100, 7, 1, 5, 1⟩, ⟨1156, 7, 3, 5, 3⟩, ⟨1061, 2, 3, 1, 3⟩] := by decide
  have h51 : Conn (qE exT) 5 1 := Conn.single (Or.inl (by decide))
  have h13 : Conn (qE exT) 1 3 := Conn.single (Or.inl (by decide))
  intro c hc
  rw [hq] at hc
  simp only [List.mem_cons, List.not_mem_nil, or_false] at hc
  rcases hc with rfl | rfl | rfl
  · exact h51
  · exact h51.trans h13
  · exact h13
example : ((healAdded ex {}).map fun e => e.d2).sum = 1161 ∧ (exT.map fun e => e.d2).sum = 1392 := by decide
example : (fragments ex) = [[5, 6, 7], [1, 2], [3]] := by decide
example : (breakFragments ex 2).length = 2 := by decide

/-- two 3-node skeletons with clashing ids, connectors and tags on clashing nodes -/
def sa : Skel := ⟨[⟨1, -1, 0, 0, 0, .root⟩, ⟨2, 1, 3, 0, 0, .slab⟩, ⟨3, 2, 6, 0, 0, .end_⟩], [(100, 3), (101, 1)], [(1, [3]), (2, [1])]⟩
def sb : Skel := ⟨[⟨1, -1, 0, 20, 0, .root⟩, ⟨2, 1, 3, 20, 0, .slab⟩, ⟨3, 2, 6, 21, 0, .end_⟩], [(200, 3), (201, 2)], [(1, [3]), (3, [2])]⟩

example : ∀ s ∈ [sa, sb], SkelOK s := by
  intro s hs
  simp at hs
  rcases hs with rfl | rfl <;> exact ⟨by decide, by decide⟩
example : (combine 0 [sa, sb]).nodes.map (fun n => (n.id, n.parent)) = [(1, -1), (2, 1), (3, 2), (4, -1), (5, 4), (6, 5)] := by decide
example : (combine 0 [sa, sb]).conns = [(100, 3), (101, 1), (200, 6), (201, 5)] := by decide
example : (combine 0 [sa, sb]).tags = [(1, [3, 6]), (2, [1]), (3, [5])] := by decide
/- Historical (before the `fix:` commit for C11): navis returned `{1: [3, 3, 3], 2: [1, 1], 3: [2]}` here — the
tagged node of the second skeleton was not remapped and the master's lists were doubled. -/

/-- `method = [3, 6]` (ids of the combined table): only the bridge between the two listed nodes is allowed -/
example : (healAdded (combine 0 [sa, sb]).nodes { method := .list [3, 6] }).map (fun e => (e.a, e.b, e.d2)) = [(3, 6, 441)] := by decide
example : (healAdded (combine 0 [sa, sb]).nodes {}).map (fun e => (e.a, e.b, e.d2)) = [(1, 4, 400)] := by decide

/-! second pass -/
example : quotientEdgesKD ex {} = quotientEdges ex {} := by decide
example : (quotientEdgesKD ex { maxD2 := some 1062 }).map (fun e => (e.a, e.b, e.d2)) = [(7, 1, 100), (2, 3, 1061)] := by decide
example : healMinOKB ex (heal ex {}) {} = true := by decide
example : healMinOKB ex (heal ex { maxD2 := some 101 }) { maxD2 := some 101 } = true := by decide
/-- a healing that is admissible for `healOKB` but NOT minimal (5–1, squared length 136, instead of 7–1, 100) -/
def exBad : Table :=
  [⟨5, -1, 0, 0, 0, .root⟩, ⟨6, 5, 3, 0, 0, .branch⟩, ⟨7, 6, 6, 0, 0, .end_⟩,
   ⟨1, 5, 6, 10, 0, .slab⟩, ⟨2, 1, 9, 10, 0, .slab⟩, ⟨3, 2, 40, 0, 0, .end_⟩]
example : healOKB ex exBad none = true ∧ healOKPB ex exBad.reverse none = true ∧ healMinOKB ex exBad {} = false := by decide
/-- an edge that uses a node outside the mask is rejected -/
example : healMinOKB ex (heal ex {}) { mask := some [5, 6, 1, 2, 3] } = false := by decide
example : (roots (healDrop ex { maxD2 := some 101 })).length = 1 ∧ (healDrop ex { maxD2 := some 101 }).length = 5 := by decide
example : fluffSel ex none none = [[5, 6, 7]] ∧ fluffSel ex (some (2, 1)) none = [[5, 6, 7], [1, 2]] ∧
    fluffSel ex none (some 2) = [[5, 6, 7], [1, 2]] := by decide
example : stitchOKB [sa, sb] 0 (combine 0 [sa, sb]) false none = true := by decide
example : stitchOKB [sa, sb] 0 (stitch 0 [sa, sb] {}) true none = true := by decide
example : stitchOKB [sa, sb] 1 (combine 0 [sa, sb]) false none = false := by decide   -- the master's ids were changed
/-- partial clash, the non-master neuron owns larger non-clashing ids (seeded change C11_2): the model's fresh ids
avoid them; the table navis produced under that change (`4, 5` handed out twice) is rejected. -/
def pa : Skel := ⟨[⟨1, -1, 0, 0, 0, .root⟩, ⟨2, 1, 1, 0, 0, .slab⟩, ⟨3, 2, 2, 0, 0, .end_⟩], [], []⟩
def pb : Skel := ⟨[⟨2, -1, 0, 10, 0, .root⟩, ⟨3, 2, 1, 10, 0, .slab⟩, ⟨4, 3, 2, 10, 0, .branch⟩, ⟨5, 4, 3, 10, 0, .end_⟩,
  ⟨6, 4, 4, 10, 0, .end_⟩], [(9, 3)], [(1, [2, 6])]⟩
example : ids (combine 0 [pa, pb]).nodes = [1, 2, 3, 7, 8, 4, 5, 6] ∧ (combine 0 [pa, pb]).conns = [(9, 8)] ∧
    (combine 0 [pa, pb]).tags = [(1, [7, 6])] := by decide
example : stitchOKB [pa, pb] 0 (combine 0 [pa, pb]) false none = true := by decide
example : stitchOKB [pa, pb] 0
    ⟨[⟨1, -1, 0, 0, 0, .root⟩, ⟨2, 1, 1, 0, 0, .slab⟩, ⟨3, 2, 2, 0, 0, .end_⟩, ⟨4, -1, 0, 10, 0, .root⟩, ⟨5, 4, 1, 10, 0, .slab⟩,
      ⟨4, 5, 2, 10, 0, .branch⟩, ⟨5, 4, 3, 10, 0, .end_⟩, ⟨6, 4, 4, 10, 0, .end_⟩], [(9, 5)], [(1, [4, 6])]⟩ false none = false := by decide
/-- three inputs, two of them clashing with what was seen before (seeded change C01_1); inputs 0 and 2 coincide in space, so the
id maps are read off by row position -/
example : (ids (combine 0 [sa, sb, sa]).nodes).Nodup ∧ stitchOKB [sa, sb, sa] 0 (combine 0 [sa, sb, sa]) false none = true := by decide
example : masterIxS .soma [sa, pb, sb] [false, false, true] = 2 ∧ masterIxS .soma [sa, pb, sb] [false, false, false] = 1 ∧
    masterIxS .largest [sa, pb, sb] [true, false, false] = 1 ∧ masterIxS .first [sa, pb, sb] [false, true, false] = 0 := by decide
example : concatFaces 0 [(3, [(0, 1, 2)]), (4, [(0, 1, 2), (1, 2, 3)])] = [(0, 1, 2), (3, 4, 5), (4, 5, 6)] := by decide

/-! final pass -/
example : healSeq ex [{ maxD2 := some 101 }, { method := .leafs }, {}] = heal (heal ex { maxD2 := some 101 }) { method := .leafs } := by decide
example : (breakFragments ex 2).length = 2 ∧ (breakFragments ex 3).length = 1 ∧ (breakFragments ex 4).length = 0 := by decide
example : healOKB ex (heal ex { maxD2 := some 101, method := .leafs }) (some 101) = true := by decide
example : healMinOKB ex (heal ex { maxD2 := some 101, method := .leafs }) { maxD2 := some 101, method := .leafs } = true := by decide

end Navis.Props.C11
