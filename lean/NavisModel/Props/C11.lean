import NavisModel.Proofs.HealLemmas
import NavisModel.Proofs.HealMinLemmas
import NavisModel.Proofs.HealStitchLemmas
import NavisModel.Proofs.HealStitchWfLemmas
/-!
# C11 — healing and stitching connect fragments minimally and lose nothing

Property theorems only; helper lemmas are in `Proofs/HealConnLemmas.lean` (connectivity, acyclic edge
lists), `Proofs/HealRewireLemmas.lean` (the traversal behind `rewire`), `Proofs/HealKruskalLemmas.lean`
(union–find invariant, cut property), `Proofs/HealMstLemmas.lean` (rank lemma of the graphic matroid,
optimality of Kruskal's forest), `Proofs/HealLemmas.lean` / `Proofs/HealMinLemmas.lean` (candidate edges,
assembled facts, fragments, minimality against arbitrary allowed connections) and
`Proofs/HealStitchLemmas.lean` / `Proofs/HealStitchWfLemmas.lean` (id-clash remap, disjoint union).

All statements hold for every table `t` (any size, labelling and row order) that is a well-formed
forest, every method / `max_dist` / `min_size` / `mask`, every list of skeletons.  Distances are
SQUARED integer distances (`sqDist`); "shorter" is the same for squared and true lengths.
-/
namespace Navis.Props.C11
open Navis.Forest Navis.Heal

/-! ### heal -/

/-- Healing never removes, adds, reorders or moves a node: ids and coordinates are unchanged, row by row. -/
theorem heal_keeps_nodes (t : Table) (o : Opts) :
    (heal t o).map (fun n => (n.id, n.x, n.y, n.z)) = t.map (fun n => (n.id, n.x, n.y, n.z)) :=
  coords_heal t o

/-- The healed table is a well-formed forest (no cycle, no dangling parent, unique ids). -/
theorem heal_wf (t : Table) (hw : WF t) (o : Opts) : WF (heal t o) := (heal_spec hw o).1

/-- `rewire` yields a well-formed, correctly labelled forest on the same rows for EVERY undirected edge
list — cyclic ones and ones mentioning unknown nodes included. -/
theorem rewire_wf (t : Table) (hw : WF t) (E : List (Int × Int)) :
    WF (rewire t E) ∧ labelsOKB (rewire t E) = true ∧
      (rewire t E).map (fun n => (n.id, n.x, n.y, n.z)) = t.map (fun n => (n.id, n.x, n.y, n.z)) :=
  ⟨WF_rewire hw E, by rw [rewire_eq]; exact labelsOKB_classify _, coords_rewire t E⟩

/-- For an acyclic edge list over the table's nodes, `rewire` realises exactly that edge list. -/
theorem rewire_exact (t : Table) (hw : WF t) (E : List (Int × Int))
    (hends : ∀ e ∈ E, e.1 ∈ ids t ∧ e.2 ∈ ids t) (hnorm : ∀ e ∈ E, uedge e.1 e.2 = e) (hac : Acyc E) :
    (uedges (rewire t E)).Perm E :=
  (rewire_spec hw hends hnorm hac).2

/-- Every undirected edge of the input is an undirected edge of the output. -/
theorem heal_keeps_edges (t : Table) (hw : WF t) (o : Opts) : ∀ e ∈ uedges t, e ∈ uedges (heal t o) := by
  intro e he
  exact (heal_spec hw o).2.mem_iff.mpr (List.mem_append_left _ he)

/-- The undirected edges of the output are the old ones plus the bridging edges, each exactly once;
hence #new edges = #bridging edges = #fragments before − #fragments after; and an edge of the output
is new iff it is one of the bridging edges. -/
theorem heal_adds_one_per_merge (t : Table) (hw : WF t) (o : Opts) :
    (uedges (heal t o)).Perm (uedges t ++ addedU (healAdded t o)) ∧
    (uedges (heal t o)).length = (uedges t).length + (healAdded t o).length ∧
    (roots (heal t o)).length + (healAdded t o).length = (roots t).length ∧
    ∀ e, (e ∈ uedges (heal t o) ∧ e ∉ uedges t) ↔ e ∈ addedU (healAdded t o) := by
  have hp := (heal_spec hw o).2
  refine ⟨hp, by simpa [addedU] using hp.length_eq, heal_roots_count hw o, ?_⟩
  intro e
  have hnd : (uedges t ++ addedU (healAdded t o)).Nodup := hp.nodup_iff.mp (Nodup_uedges (heal_spec hw o).1)
  rw [hp.mem_iff, List.mem_append]
  constructor
  · rintro ⟨h1 | h1, h2⟩
    · exact absurd h1 h2
    · exact h1
  · intro h
    exact ⟨Or.inr h, fun h' => (List.nodup_append.mp hnd).2.2 e h' e h rfl⟩

/-- With no `max_dist`, `min_size`, `mask` or node list, healing a non-empty forest yields exactly one
root — for `ALL` and for `LEAFS`. -/
theorem heal_single_tree (t : Table) (hw : WF t) (hne : t ≠ []) (o : Opts) (hmax : o.maxD2 = none)
    (hmin : o.minSize = none) (hmask : o.mask = none) (hmeth : o.method = .all ∨ o.method = .leafs) :
    (roots (heal t o)).length = 1 :=
  heal_single hw hne hmax hmin hmask hmeth

/-- Every bridging edge joins two ALLOWED nodes (size limit, `LEAFS` / node list, mask) of two different
original fragments, its recorded length is their squared distance, it is the shortest allowed connection
between those two fragments, and it is strictly shorter than `max_dist`. -/
theorem heal_maxdist (t : Table) (o : Opts) : ∀ e ∈ healAdded t o,
    (∃ na ∈ t, ∃ nb ∈ t, na.id = e.a ∧ nb.id = e.b ∧ isCand t o na = true ∧ isCand t o nb = true ∧
      fragOf t na.id = e.fa ∧ fragOf t nb.id = e.fb ∧ e.d2 = sqDist na nb) ∧
    (∀ na ∈ t, ∀ nb ∈ t, isCand t o na = true → isCand t o nb = true →
      fragOf t na.id = e.fa → fragOf t nb.id = e.fb → e.d2 ≤ sqDist na nb) ∧
    (∀ m, o.maxD2 = some m → e.d2 < m) := by
  intro e he
  have hq := healAdded_quot he
  obtain ⟨na, ha, nb, hb, ca, cb, fa, fb, heq⟩ := hq.ex
  refine ⟨⟨na, ha, nb, hb, by rw [heq], by rw [heq], ca, cb, fa, fb, by rw [heq]⟩, hq.nearest, ?_⟩
  intro m hm
  have := hq.within
  unfold withinMax at this
  rw [hm] at this
  simpa using this

/-- The bridging edges form a spanning forest of the fragment quotient graph: they are candidate edges,
acyclic on the fragments (Kruskal's union–find invariant), and they connect the two fragments of every
candidate edge (no further candidate edge could be added). -/
theorem heal_is_spanning_forest_of_quotient (t : Table) (o : Opts) (h : 1 < (roots t).length) :
    (∀ e ∈ healAdded t o, e ∈ quotientEdges t o) ∧ Acyc (qE (healAdded t o)) ∧
    ∀ c ∈ quotientEdges t o, Conn (qE (healAdded t o)) c.fa c.fb := by
  have hA : healAdded t o = kruskal (quotientEdges t o) := by unfold healAdded; rw [if_neg (by omega)]
  rw [hA]
  exact ⟨kruskal_sub _, kruskal_acyc _, kruskal_spans _⟩

/-- … and, together with the old edges, an acyclic edge set on the nodes. -/
theorem heal_edges_acyclic (t : Table) (hw : WF t) (o : Opts) : Acyc (uedges (heal t o)) :=
  Acyc_uedges (heal_spec hw o).1

/-- **Minimal total length (MST optimality).**  Take ANY list `T` of allowed connections (pairs of allowed
nodes of two different fragments, strictly closer than `max_dist`) that joins whatever fragments the
allowed connections can join.  Then the bridging edges of `heal` weigh at most as much as `T`, for EVERY
monotone weight `w` of the squared length — e.g. `w = id` (sum of squared lengths), `w x = ⌊2ᵏ·√x⌋` for every
`k` (hence the sum of the true lengths), or `w x = [θ ≤ x]` (number of edges at least `θ` long).
Proof: union–find class counting gives the rank lemma of the graphic matroid (`acyclic_le_spanning`), the
sorted scan gives domination on every threshold (`kruskal_dominates`), a layer-cake sum gives the total. -/
theorem kruskal_minimal (t : Table) (hw : WF t) (o : Opts) (T : List CEdge) (hT : ∀ e ∈ T, Allowed t o e)
    (hspan : ∀ c ∈ quotientEdges t o, Conn (qE T) c.fa c.fb) (w : Nat → Nat) (hmono : ∀ x y, x ≤ y → w x ≤ w y) :
    ((healAdded t o).map fun e => w e.d2).sum ≤ (T.map fun e => w e.d2).sum :=
  healAdded_minimal hw o T hT hspan w hmono

/-- … in particular against every spanning subset of the quotient graph's candidate edges, and on every
threshold: for every length `θ`, `heal` adds at most as many edges of squared length ≥ `θ` as `T` has. -/
theorem kruskal_minimal_thresholds (t : Table) (o : Opts) (T : List CEdge) (hT : ∀ e ∈ T, e ∈ quotientEdges t o)
    (hspan : ∀ c ∈ quotientEdges t o, Conn (qE T) c.fa c.fb) (θ : Nat) :
    (healAdded t o).countP (fun e => decide (θ ≤ e.d2)) ≤ T.countP (fun e => decide (θ ≤ e.d2)) := by
  unfold healAdded
  split
  · simp
  · apply kruskal_dominates _ T hT hspan
    intro e f hef he
    simp only [decide_eq_true_eq] at he ⊢
    omega

/-- **Cut property.** For every bridging edge there is a cut of the fragments that it
crosses such that NO pair of allowed nodes on different sides of the cut (and closer than `max_dist`) is
closer than the bridging edge. -/
theorem heal_cut_property (t : Table) (hw : WF t) (o : Opts) : ∀ e ∈ healAdded t o,
    ∃ S : Int → Prop, S e.fa ∧ ¬ S e.fb ∧
      ∀ na ∈ t, ∀ nb ∈ t, isCand t o na = true → isCand t o nb = true →
        S (fragOf t na.id) → ¬ S (fragOf t nb.id) →
        withinMax o ⟨sqDist na nb, na.id, nb.id, fragOf t na.id, fragOf t nb.id⟩ = true →
        e.d2 ≤ sqDist na nb := by
  intro e he
  unfold healAdded at he
  split at he
  · simp at he
  · obtain ⟨S, h1, h2, h3⟩ := kruskal_cut _ e he
    refine ⟨S, h1, h2, ?_⟩
    intro na ha nb hb ca cb sa sb hmax
    have hra := fragOf_mem_roots hw (mem_ids_of_mem ha)
    have hrb := fragOf_mem_roots hw (mem_ids_of_mem hb)
    have hne : fragOf t na.id ≠ fragOf t nb.id := fun h => sb (h ▸ sa)
    rcases mem_pairs hra hrb hne with hp | hp
    · obtain ⟨c, hc, f1, f2, hle⟩ := quotientEdges_exists hp ha hb ca cb rfl rfl hmax
      have := CEdge.le_d2 (h3 c hc (by rw [f1, f2]; exact ⟨fun _ => sb, fun _ => sa⟩))
      omega
    · have hsym : sqDist nb na = sqDist na nb := sqDist_comm nb na
      have hmax' : withinMax o ⟨sqDist nb na, nb.id, na.id, fragOf t nb.id, fragOf t na.id⟩ = true :=
        withinMax_mono (e := ⟨sqDist nb na, nb.id, na.id, fragOf t nb.id, fragOf t na.id⟩)
          (f := ⟨sqDist na nb, na.id, nb.id, fragOf t na.id, fragOf t nb.id⟩) (Nat.le_of_eq hsym) hmax
      obtain ⟨c, hc, f1, f2, hle⟩ := quotientEdges_exists hp hb ha cb ca rfl rfl hmax'
      have := CEdge.le_d2 (h3 c hc (by rw [f1, f2]; exact ⟨fun h => absurd h sb, fun h => absurd sa h⟩))
      omega

/-- The Lean-side checker evaluated on navis' own output is sound: if it accepts `(t, u)`, then `u` has
the same rows, is a well-formed forest, keeps every old edge, has one new edge per merged fragment, and
no new edge is longer than `max_dist`. -/
theorem healOKB_sound (t u : Table) (m : Option Nat) (h : healOKB t u m = true) :
    u.map (fun n => (n.id, n.x, n.y, n.z)) = t.map (fun n => (n.id, n.x, n.y, n.z)) ∧ WF u ∧
    (∀ e ∈ uedges t, e ∈ uedges u) ∧
    (newEdges t u).length + (roots u).length = (roots t).length ∧
    ∀ e ∈ newEdges t u, ∃ d, edgeD2 t e = some d ∧ ∀ k, m = some k → d ≤ k := by
  unfold healOKB at h
  simp only [Bool.and_eq_true, List.all_eq_true, decide_eq_true_eq, List.contains_eq_mem] at h
  obtain ⟨⟨⟨⟨h1, h2⟩, h3⟩, h4⟩, h5⟩ := h
  refine ⟨?_, wfB_sound h2, h3, h4, ?_⟩
  · unfold sameCoords at h1
    exact (of_decide_eq_true (by simpa using h1) : _ = _).symm
  · intro e he
    have := h5 e he
    cases hd : edgeD2 t e with
    | none => rw [hd] at this; cases m <;> simp at this
    | some d =>
      rw [hd] at this
      refine ⟨d, rfl, ?_⟩
      intro k hk
      rw [hk] at this
      simpa using this

/-! ### break_fragments -/

/-- The fragments partition the node set (every id in exactly one fragment); two nodes are in the same
fragment iff they have the same root iff they are connected; `break_fragments` returns one well-formed,
single-rooted piece per fragment, and every edge lies in exactly the piece of its fragment. -/
theorem break_fragments_partition (t : Table) (hw : WF t) :
    (fragments t).flatten.Perm (ids t) ∧
    (∀ i ∈ ids t, ∀ j ∈ ids t, ((∃ f ∈ fragments t, i ∈ f ∧ j ∈ f) ↔ rootOf t i = rootOf t j) ∧
      (rootOf t i = rootOf t j ↔ Conn (uedges t) i j)) ∧
    (∀ k p, p ∈ breakFragments t k ↔ ∃ r ∈ roots t, k ≤ (fragment t r).length ∧ p = subsetIds t (fragment t r)) ∧
    (∀ r ∈ roots t, WF (subsetIds t (fragment t r)) ∧ ids (subsetIds t (fragment t r)) = fragment t r ∧
      ∀ x, x ∈ roots (subsetIds t (fragment t r)) ↔ x = r) ∧
    (∀ e, e ∈ edges t ↔ ∃ r ∈ roots t, e ∈ edges (subsetIds t (fragment t r))) :=
  ⟨fragments_perm hw,
   fun _ hi _ hj => ⟨same_fragment_iff hw hi hj, (Conn_iff_rootOf hw hi hj).symm⟩,
   fun _ _ => mem_breakFragments,
   fun r hr => ⟨WF_subset hw _, ids_piece r, roots_piece hw hr⟩,
   break_edges hw⟩

/-! ### stitch -/

/-- After the id-clash remap all node ids of the combined table are distinct — for any number of
skeletons, any clashes, any master. -/
theorem stitch_ids_unique (mIx : Nat) (l : List Skel) (hok : ∀ s ∈ l, SkelOK s) :
    (ids (combine mIx l).nodes).Nodup :=
  stitchRemap_nodup mIx l hok

/-- Each input reappears at its position under ONE id map that is injective on its ids, fixes root
markers and leaves the master untouched: same rows and coordinates, and a node is the parent of another
after the remap iff it was before. -/
theorem stitch_preserves_each_input (mIx : Nat) (l : List Skel) (hok : ∀ s ∈ l, SkelOK s) (k : Nat) (s : Skel)
    (hk : l[k]? = some s) :
    ∃ out m, (stitchRemap mIx l)[k]? = some out ∧ (k = mIx → out = s) ∧
      (∀ a ∈ ids s.nodes, ∀ b ∈ ids s.nodes, remapId m a = remapId m b → a = b) ∧
      out.nodes = s.nodes.map (remapNode m) ∧
      out.nodes.map (fun n => (n.x, n.y, n.z)) = s.nodes.map (fun n => (n.x, n.y, n.z)) ∧
      ids out.nodes = (ids s.nodes).map (remapId m) ∧
      edges out.nodes = (edges s.nodes).map (fun e => (remapId m e.1, remapId m e.2)) ∧
      (roots out.nodes) = (roots s.nodes).map (remapId m) := by
  obtain ⟨out, m, h1, h2, h3⟩ := stitchRemap_get mIx l hok hk
  have heq := h2.eq
  refine ⟨out, m, h1, ?_, h2.inj, by rw [heq]; rfl, by rw [heq]; exact coords_remapSkel m s,
    by rw [heq]; exact ids_remapSkel m s, by rw [heq]; exact edges_remap h2.neg h2.nonneg, ?_⟩
  · intro hkm; rw [heq, h3 hkm]; exact remapSkel_nil s
  · rw [heq]
    unfold roots remapSkel
    simp only [List.filter_map, List.map_map]
    congr 1
    apply List.filter_congr
    intro n _
    exact isRootNode_remapNode h2.neg h2.nonneg n

/-- Parents, connectors and tags follow the SAME id map as the node ids. -/
theorem stitch_remap_consistent (mIx : Nat) (l : List Skel) (hok : ∀ s ∈ l, SkelOK s) (k : Nat) (s : Skel)
    (hk : l[k]? = some s) :
    ∃ out m, (stitchRemap mIx l)[k]? = some out ∧
      out.nodes.map (fun n => (n.id, n.parent)) = s.nodes.map (fun n => (remapId m n.id, remapId m n.parent)) ∧
      out.conns = s.conns.map (fun c => (c.1, remapId m c.2)) ∧
      out.tags = s.tags.map (fun tg => (tg.1, tg.2.map (remapId m))) ∧
      (∀ a, a < 0 → remapId m a = a) := by
  obtain ⟨out, m, h1, h2, _⟩ := stitchRemap_get mIx l hok hk
  refine ⟨out, m, h1, ?_, by rw [h2.eq]; rfl, by rw [h2.eq]; rfl, h2.neg⟩
  rw [h2.eq]
  simp [remapSkel, remapNode, List.map_map, Function.comp_def]

/-- The combined table (`method = 'NONE'`, `combine_neurons`) and the stitched table are well-formed
forests whenever every input is. -/
theorem stitch_wf (mIx : Nat) (l : List Skel) (hw : ∀ s ∈ l, WF s.nodes) (o : Opts) :
    WF (combine mIx l).nodes ∧ WF (stitch mIx l o).nodes :=
  ⟨combine_WF mIx l hw, heal_wf _ (combine_WF mIx l hw) o⟩

/-- `method = 'NONE'` / `combine_neurons`: the combined tables are the concatenation of the remapped inputs. -/
theorem combine_is_concat (mIx : Nat) (l : List Skel) :
    (combine mIx l).nodes = (stitchRemap mIx l).flatMap (·.nodes) ∧
    (combine mIx l).conns = (stitchRemap mIx l).flatMap (·.conns) ∧
    (stitchRemap mIx l).length = l.length :=
  ⟨rfl, rfl, by unfold stitchRemap; exact stitchGo_length _ _ _ _⟩

/-! ### Non-vacuity -/

/-- three fragments: a 3-chain, a 2-chain, an isolated node -/
def ex : Table :=
  [⟨5, -1, 0, 0, 0, .root⟩, ⟨6, 5, 3, 0, 0, .slab⟩, ⟨7, 6, 6, 0, 0, .end_⟩,
   ⟨1, -1, 6, 10, 0, .root⟩, ⟨2, 1, 9, 10, 0, .end_⟩, ⟨3, -1, 40, 0, 0, .root⟩]

example : wfB ex = true := by decide
example : ex ≠ [] := by decide
example : (healAdded ex {}).map (fun e => (e.a, e.b, e.d2)) = [(7, 1, 100), (2, 3, 1061)] := by decide
example : (heal ex {}).map (fun n => (n.id, n.parent)) = [(5, -1), (6, 5), (7, 6), (1, 7), (2, 1), (3, 2)] := by decide
example : (roots (heal ex {})).length = 1 := by decide
/-- `max_dist = 10` excludes the pair at distance exactly 10, `max_dist² = 101` admits it -/
example : healAdded ex { maxD2 := some 100 } = [] := by decide
example : (healAdded ex { maxD2 := some 101 }).map (fun e => (e.a, e.b)) = [(7, 1)] := by decide
example : (healAdded ex { method := .leafs, mask := some [5, 6, 1, 3] }).map (fun e => (e.a, e.b, e.d2)) =
    [(5, 1, 136), (1, 3, 1256)] := by decide
example : healOKB ex (heal ex {}) none = true := by decide
/-- a competitor for `kruskal_minimal`: the spanning tree 5–1–3 of the quotient graph via other node pairs -/
def exT : List CEdge := [⟨136, 5, 1, 5, 1⟩, ⟨1256, 1, 3, 1, 3⟩]
example : ∀ e ∈ exT, Allowed ex {} e := by
  intro e he
  simp only [exT, List.mem_cons, List.not_mem_nil, or_false] at he
  rcases he with rfl | rfl
  · exact ⟨⟨⟨5, -1, 0, 0, 0, .root⟩, by decide, ⟨1, -1, 6, 10, 0, .root⟩, by decide, by decide, by decide, by decide, by decide, by decide⟩,
      by decide, by decide⟩
  · exact ⟨⟨⟨1, -1, 6, 10, 0, .root⟩, by decide, ⟨3, -1, 40, 0, 0, .root⟩, by decide, by decide, by decide, by decide, by decide, by decide⟩,
      by decide, by decide⟩
example : ∀ c ∈ quotientEdges ex {}, Conn (qE exT) c.fa c.fb := by
  have hq : quotientEdges ex {} = [⟨100, 7, 1, 5, 1⟩, ⟨1156, 7, 3, 5, 3⟩, ⟨1061, 2, 3, 1, 3⟩] := by decide
  have h51 : Conn (qE exT) 5 1 := Conn.single (Or.inl (by decide))
  have h13 : Conn (qE exT) 1 3 := Conn.single (Or.inl (by decide))
  intro c hc
  rw [hq] at hc
  simp only [List.mem_cons, List.not_mem_nil, or_false] at hc
  rcases hc with rfl | rfl | rfl
  · exact h51
  · exact h51.trans h13
  · exact h13
example : ((healAdded ex {}).map fun e => e.d2).sum = 1161 ∧ (exT.map fun e => e.d2).sum = 1392 := by decide
example : (fragments ex) = [[5, 6, 7], [1, 2], [3]] := by decide
example : (breakFragments ex 2).length = 2 := by decide

/-- two 3-node skeletons with clashing ids, connectors and tags on clashing nodes -/
def sa : Skel := ⟨[⟨1, -1, 0, 0, 0, .root⟩, ⟨2, 1, 3, 0, 0, .slab⟩, ⟨3, 2, 6, 0, 0, .end_⟩], [(100, 3), (101, 1)], [(1, [3]), (2, [1])]⟩
def sb : Skel := ⟨[⟨1, -1, 0, 20, 0, .root⟩, ⟨2, 1, 3, 20, 0, .slab⟩, ⟨3, 2, 6, 21, 0, .end_⟩], [(200, 3), (201, 2)], [(1, [3]), (3, [2])]⟩

example : ∀ s ∈ [sa, sb], SkelOK s := by
  intro s hs
  simp at hs
  rcases hs with rfl | rfl <;> exact ⟨by decide, by decide⟩
example : (combine 0 [sa, sb]).nodes.map (fun n => (n.id, n.parent)) = [(1, -1), (2, 1), (3, 2), (4, -1), (5, 4), (6, 5)] := by decide
example : (combine 0 [sa, sb]).conns = [(100, 3), (101, 1), (200, 6), (201, 5)] := by decide
example : (combine 0 [sa, sb]).tags = [(1, [3, 6]), (2, [1]), (3, [5])] := by decide
/- Historical (before the `fix:` commit for C11): navis returned `{1: [3, 3, 3], 2: [1, 1], 3: [2]}` here — the
tagged node of the second skeleton was not remapped and the master's lists were doubled. -/

/-- `method = [3, 6]` (ids of the combined table): only the bridge between the two listed nodes is allowed -/
example : (healAdded (combine 0 [sa, sb]).nodes { method := .list [3, 6] }).map (fun e => (e.a, e.b, e.d2)) = [(3, 6, 441)] := by decide
example : (healAdded (combine 0 [sa, sb]).nodes {}).map (fun e => (e.a, e.b, e.d2)) = [(1, 4, 400)] := by decide

end Navis.Props.C11
