import NavisModel.Proofs.PartitionLemmas
import NavisModel.Proofs.ZipLemmas
import NavisModel.Proofs.SmartLemmas
import NavisModel.Proofs.JobSpecLemmas
import NavisModel.Gen.NblastJobs
/-!
# C09 — results are independent of cores, job partitioning and completion order

Property theorems only.  Helper lemmas live in `Proofs/PartitionLemmas.lean`, `Proofs/ZipLemmas.lean`.
`f r c` is the score of query `r` against target `c` (any type, any function): the theorems do not
look inside it, so they hold for every score mode and every scoring table.
-/
namespace Navis.Props.C09
open Navis.Partition Navis.Zip

/-- `np.array_split(np.arange(n), k)` concatenates back to `arange(n)` for every `n` and `k ≥ 1`. -/
theorem arraySplit_concat (n k : Nat) (hk : 0 < k) : (arraySplit n k).flatten = List.range n :=
  arraySplit_flatten n k hk

/-- **Main theorem (nblast).** For every number of queries and targets, every partition
`rows × cols` (both ≥ 1) and *every order in which the jobs complete* (any permutation of the job
list), the assembled matrix holds exactly `f r c` in every cell `(r, c)` of the matrix and nothing
outside it. -/
theorem assemble_any_order {α} (f : Nat → Nat → α) (nq nt rows cols : Nat) (hr : 0 < rows) (hc : 0 < cols)
    (done : List Job) (hperm : done.Perm (jobs nq nt rows cols)) (r c : Nat) :
    assemble f done r c = if r < nq ∧ c < nt then some (f r c) else none := by
  unfold assemble
  rw [fold_place f (jobResult f) (fun j a b ha hb => jobResult_get f j a b ha hb)]
  by_cases h : r < nq ∧ c < nt
  · rw [if_pos h, if_pos]
    obtain ⟨j, hj, hjc⟩ := cell_covered nq nt rows cols hr hc h.1 h.2
    exact ⟨j, hperm.mem_iff.mpr hj, hjc⟩
  · rw [if_neg h, if_neg]; · rfl
    rintro ⟨j, hj, hjc⟩
    exact h (job_in_range nq nt rows cols hr hc (hperm.mem_iff.mp hj) hjc)

/-- Hence any two partitions and any two completion orders give the same matrix; in particular
every parallel run equals the serial `1 × 1` run. -/
theorem partition_and_order_irrelevant {α} (f : Nat → Nat → α) (nq nt rows cols rows' cols' : Nat)
    (hr : 0 < rows) (hc : 0 < cols) (hr' : 0 < rows') (hc' : 0 < cols')
    (done done' : List Job) (h : done.Perm (jobs nq nt rows cols)) (h' : done'.Perm (jobs nq nt rows' cols')) :
    assemble f done = assemble f done' := by
  funext r c
  rw [assemble_any_order f nq nt rows cols hr hc done h, assemble_any_order f nq nt rows' cols' hr' hc' done' h']

/-- **All-by-all.** The job-local list is *any* enumeration `enum j` of `set(qix) | set(tix)` (Python
set order is arbitrary): as long as it contains the job's indices, the local remap `ixmap` addresses
the right neurons and the assembled matrix is `f`. -/
theorem allbyall_any_enumeration {α} (f : Nat → Nat → α) (n rows cols : Nat) (hr : 0 < rows) (hc : 0 < cols)
    (enum : Job → List Nat)
    (henum : ∀ j ∈ jobs n n rows cols, (∀ x ∈ j.qix, x ∈ enum j) ∧ (∀ x ∈ j.tix, x ∈ enum j))
    (done : List Job) (hperm : done.Perm (jobs n n rows cols)) (r c : Nat) :
    assembleAll f enum done r c = if r < n ∧ c < n then some (f r c) else none := by
  unfold assembleAll
  -- replace the blocks of jobs outside the grid by correct ones (they are never used)
  let blk : Job → List (List α) := fun j =>
    if j ∈ jobs n n rows cols then jobResultAll f (enum j) j else jobResult f j
  have hfold : ∀ (ds : List Job) (m : Mat α), (∀ j ∈ ds, j ∈ jobs n n rows cols) →
      ds.foldl (fun m j => place m j (jobResultAll f (enum j) j)) m =
      ds.foldl (fun m j => place m j (blk j)) m := by
    intro ds
    induction ds with
    | nil => intros; rfl
    | cons d ds ih =>
      intro m hm
      simp only [List.foldl_cons]
      have hd : blk d = jobResultAll f (enum d) d := by
        simp only [blk]; rw [if_pos (hm d (by simp))]
      rw [hd]; exact ih _ (fun j hj => hm j (by simp [hj]))
  rw [hfold done _ (fun j hj => hperm.mem_iff.mp hj)]
  rw [fold_place f blk]
  · by_cases h : r < n ∧ c < n
    · rw [if_pos h, if_pos]
      obtain ⟨j, hj, hjc⟩ := cell_covered n n rows cols hr hc h.1 h.2
      exact ⟨j, hperm.mem_iff.mpr hj, hjc⟩
    · rw [if_neg h, if_neg]; · rfl
      rintro ⟨j, hj, hjc⟩
      exact h (job_in_range n n rows cols hr hc (hperm.mem_iff.mp hj) hjc)
  · intro j a b ha hb
    simp only [blk]
    split
    · rename_i hj
      exact jobResultAll_get f (enum j) j (henum j hj).1 (henum j hj).2 a b ha hb
    · exact jobResult_get f j a b ha hb

/-- All-by-all equals query-against-itself for every partition and order of either. -/
theorem allbyall_eq_nblast_self {α} (f : Nat → Nat → α) (n rows cols rows' cols' : Nat)
    (hr : 0 < rows) (hc : 0 < cols) (hr' : 0 < rows') (hc' : 0 < cols')
    (enum : Job → List Nat)
    (henum : ∀ j ∈ jobs n n rows cols, (∀ x ∈ j.qix, x ∈ enum j) ∧ (∀ x ∈ j.tix, x ∈ enum j))
    (done done' : List Job) (h : done.Perm (jobs n n rows cols)) (h' : done'.Perm (jobs n n rows' cols')) :
    assembleAll f enum done = assemble f done' := by
  funext r c
  rw [allbyall_any_enumeration f n rows cols hr hc enum henum done h,
      assemble_any_order f n n rows' cols' hr' hc' done' h']

/-- The partition chosen by `find_optimal_partition` is always usable: `1 ≤ rows ≤ nq`, `1 ≤ cols ≤ nt`,
whatever the core count. -/
theorem optimal_partition_in_range (N nq nt r c : Nat) (hnt : 0 < nt)
    (h : findOptimalPartition N nq nt = some (r, c)) : 1 ≤ r ∧ r ≤ nq ∧ 1 ≤ c ∧ c ≤ nt :=
  findOptimalPartition_range N nq nt r c hnt h

/-- … and it exists whenever there is at least one query and one core. -/
theorem optimal_partition_exists (N nq nt : Nat) (hN : 0 < N) (hq : 0 < nq) :
    (findOptimalPartition N nq nt).isSome :=
  findOptimalPartition_isSome N nq nt hN hq

/-! ### Mapping a function over a NeuronList -/

/-- Per-neuron arguments are matched to the right neuron: neuron `i` receives element `i` of every
zipped argument, the whole value of every other argument. -/
theorem zip_args_matched {β} (n i : Nat) (hi : i < n) (args : List (Bool × Arg β)) :
    (parseArgs n args)[i]? = some (args.map fun (ex, a) =>
      if ex then a else match a with
        | .scalar v => .scalar v
        | .many vs => if vs.length = n then (match vs[i]? with | some v => .scalar v | none => .many vs) else .many vs) :=
  parseArgs_get n i hi args

/-- Results come back in list order: when nothing fails the `k`-th result is `f` of the `k`-th neuron
with the `k`-th argument vector. -/
theorem zip_results_in_order {ν β γ} (f : ν → List (Arg β) → Res γ) (nl : List ν) (args : List (Bool × Arg β))
    (omitF : Bool) (out : List γ) (hall : ∀ k (hk : k < nl.length), (f nl[k] ((parseArgs nl.length args).getD k [])).isSome)
    (h : process f nl args omitF = some out) :
    out.length = nl.length ∧ ∀ k (hk : k < nl.length), (f nl[k] ((parseArgs nl.length args).getD k [])) = out[k]? :=
  process_in_order f nl args omitF out hall h

/-- `omit_failures=True` removes exactly the failing neurons and keeps the others in order. -/
theorem omit_failures_removes_only_failures {ν β γ} (f : ν → List (Arg β) → Res γ) (nl : List ν)
    (args : List (Bool × Arg β)) :
    process f nl args true =
      some ((nl.zip (parseArgs nl.length args)).filterMap fun (x, a) => f x a) :=
  process_omit f nl args

/-- Serial and parallel execution agree for every chunk size (ordered `imap`). -/
theorem serial_eq_parallel {ν β γ} (f : ν → List (Arg β) → Res γ) (nl : List ν) (args : List (Bool × Arg β))
    (omitF : Bool) (cs : Nat) : processParallel f nl args omitF cs = process f nl args omitF :=
  processParallel_eq f nl args omitF cs

/-! ### Non-vacuity: concrete instances meet the hypotheses -/

example : (jobs 5 3 2 2).reverse.Perm (jobs 5 3 2 2) := List.reverse_perm _
example : jobs 5 3 2 2 = [⟨[0,1,2],[0,1]⟩, ⟨[0,1,2],[2]⟩, ⟨[3,4],[0,1]⟩, ⟨[3,4],[2]⟩] := by decide
example : assemble (fun r c => 10*r+c) (jobs 5 3 2 2).reverse 4 2 = some 42 := by decide
example : findOptimalPartition 4 3 5 = some (2, 2) := by decide
example : process (fun (x : Nat) (a : List (Arg Nat)) => if x = 2 then none else some (x, a)) [1,2,3]
    [(false, .many [7,8,9]), (true, .many [7,8,9])] true =
    some [(1, [.scalar 7, .many [7,8,9]]), (3, [.scalar 9, .many [7,8,9]])] := by decide

/-! # Second pass

## A. The index expressions of the *current source* (translator: `Gen/NblastJobs.lean`)

`Gen.NblastJobs.nblast` … are the job loops of `navis/nbl/*.py` as re-extracted on this run: which array
each append loop walks, whether neuron / self hit are looked up by element or by counter, the expressions
behind `this.queries`, `this.targets`, `q_idx=`, `t_idx=`, the rows / columns of the `.iloc` placement,
which lists give the matrix its shape and labels.  `Program.run` interprets them with jobs completing in
an arbitrary order; `f x y` is the score of blaster entry `x` against `y` (an entry = which neuron of which
list + whose pre-computed self hit), so the statements cover values *and* the self hit used to
normalise them. -/
section Source
open Navis.JobSpec Navis.Gen.NblastJobs

theorem nblast_source_sound : Sound nblast true (fun _ _ => True) :=
  sound_concat nblast true "query_dps" "target_dps" rfl rfl rfl rfl rfl rfl rfl (by decide)

theorem allbyall_source_sound : Sound allbyall true ValidEnum :=
  sound_union allbyall true "dps" rfl rfl rfl rfl rfl rfl rfl rfl (by decide)

theorem smartPre_source_sound : Sound smartPre true (fun _ _ => True) :=
  sound_concat smartPre true "query_dps_simp" "target_dps_simp" rfl rfl rfl rfl rfl rfl rfl (by decide)

theorem synblast_source_sound : Sound synblast true (fun _ _ => True) :=
  sound_concat synblast true "query" "target" rfl rfl rfl rfl rfl rfl rfl (by decide)

theorem nblastAlign_source_sound : Sound nblastAlign false (fun _ _ => True) :=
  sound_concat nblastAlign false "query" "target" rfl rfl rfl rfl rfl rfl rfl (by decide)

/-- **`nblast` as written today**: for every partition and every completion order the matrix assembled
through the source's own index expressions holds, in cell `(r, c)`, the score of query `r` (with query
`r`'s self hit) against target `c` (with target `c`'s self hit) — rows and columns in input order. -/
theorem nblast_source_any_order {α} (f : Ent → Ent → α) (nq nt rows cols : Nat) (hr : 0 < rows) (hc : 0 < cols)
    (enum : Job → List Nat) (done : List Job) (hperm : done.Perm (jobs nq nt rows cols)) (r c : Nat) :
    nblast.run f enum done r c =
      if r < nq ∧ c < nt then some (some (f (mkEnt true "query_dps" r) (mkEnt true "target_dps" c))) else none :=
  run_sound nblast true _ nblast_source_sound f nq nt rows cols hr hc enum (fun _ _ => trivial) done hperm r c

/-- **`nblast_allbyall` as written today**, for every order in which Python enumerates
`set(qix) | set(tix)` inside each job. -/
theorem allbyall_source_any_order {α} (f : Ent → Ent → α) (n rows cols : Nat) (hr : 0 < rows) (hc : 0 < cols)
    (enum : Job → List Nat) (henum : ∀ j ∈ jobs n n rows cols, ValidEnum (enum j) j)
    (done : List Job) (hperm : done.Perm (jobs n n rows cols)) (r c : Nat) :
    allbyall.run f enum done r c =
      if r < n ∧ c < n then some (some (f (mkEnt true "dps" r) (mkEnt true "dps" c))) else none :=
  run_sound allbyall true _ allbyall_source_sound f n n rows cols hr hc enum henum done hperm r c

/-- **pre-NBLAST of `nblast_smart` as written today** (on the simplified dotprops, with *their* self hits). -/
theorem smartPre_source_any_order {α} (f : Ent → Ent → α) (nq nt rows cols : Nat) (hr : 0 < rows) (hc : 0 < cols)
    (enum : Job → List Nat) (done : List Job) (hperm : done.Perm (jobs nq nt rows cols)) (r c : Nat) :
    smartPre.run f enum done r c =
      if r < nq ∧ c < nt then
        some (some (f (mkEnt true "query_dps_simp" r) (mkEnt true "target_dps_simp" c))) else none :=
  run_sound smartPre true _ smartPre_source_sound f nq nt rows cols hr hc enum (fun _ _ => trivial) done hperm r c

/-- **`synblast` as written today.** -/
theorem synblast_source_any_order {α} (f : Ent → Ent → α) (nq nt rows cols : Nat) (hr : 0 < rows) (hc : 0 < cols)
    (enum : Job → List Nat) (done : List Job) (hperm : done.Perm (jobs nq nt rows cols)) (r c : Nat) :
    synblast.run f enum done r c =
      if r < nq ∧ c < nt then some (some (f (mkEnt true "query" r) (mkEnt true "target" c))) else none :=
  run_sound synblast true _ synblast_source_sound f nq nt rows cols hr hc enum (fun _ _ => trivial) done hperm r c

/-- **`nblast_align` as written today** (no pre-computed self hits are passed). -/
theorem nblastAlign_source_any_order {α} (f : Ent → Ent → α) (nq nt rows cols : Nat) (hr : 0 < rows) (hc : 0 < cols)
    (enum : Job → List Nat) (done : List Job) (hperm : done.Perm (jobs nq nt rows cols)) (r c : Nat) :
    nblastAlign.run f enum done r c =
      if r < nq ∧ c < nt then some (some (f (mkEnt false "query" r) (mkEnt false "target" c))) else none :=
  run_sound nblastAlign false _ nblastAlign_source_sound f nq nt rows cols hr hc enum (fun _ _ => trivial) done hperm r c

/-- The hand-written model of the first pass (`assemble`, `jobResult`) and the interpreted source agree. -/
theorem nblast_source_agrees_with_model {α} (g : Nat → Nat → α) (nq nt rows cols : Nat) (hr : 0 < rows) (hc : 0 < cols)
    (enum : Job → List Nat) (done done' : List Job) (h : done.Perm (jobs nq nt rows cols))
    (h' : done'.Perm (jobs nq nt rows cols)) (r c : Nat) :
    nblast.run (fun x y => g x.neuron.2 y.neuron.2) enum done r c = (assemble g done' r c).map some := by
  rw [nblast_source_any_order _ nq nt rows cols hr hc enum done h, assemble_any_order g nq nt rows cols hr hc done' h']
  by_cases hrc : r < nq ∧ c < nt
  · rw [if_pos hrc, if_pos hrc]; rfl
  · rw [if_neg hrc, if_neg hrc]; rfl

/-- The rows the source uses for `scores='both'` are `2q, 2q+1` for each query `q` of the job, the matrix has
twice as many rows as queries. -/
theorem nblast_source_both_rows :
    nblast.bothFactor = some 2 ∧
    ∃ e, nblast.bothRows = some e ∧ ∀ env : Env, e.eval env = env.j.qix.flatMap fun q => [2 * q, 2 * q + 1] :=
  ⟨rfl, _, rfl, fun env => by rw [both_rows_eval, bothRows_eq]⟩

/-- Only `nblast` has a `both` mode that is assembled from jobs. -/
theorem other_sources_have_no_both :
    allbyall.bothRows = none ∧ smartPre.bothRows = none ∧ synblast.bothRows = none ∧ nblastAlign.bothRows = none :=
  ⟨rfl, rfl, rfl, rfl⟩

/-- Full phase of `nblast_smart` as written today: the extracted expressions for `this.pairs`, `this.mask`
and the job's neuron list are those of the model (`Smart.pairs`, `Smart.jobMask`, `qix ++ tix`), and the
declarative facts hold (`np.where` order, `pairs=this.pairs`, `scr[this.mask] = res` for the job that owns
the future, the single-job path uses the global mask). -/
theorem smart_source_facts :
    smartFull.declOk = true ∧
    (∀ mask j, smartFull.pairs mask j = Smart.pairs mask j) ∧
    (∀ mask j, smartFull.jobMask mask j = Smart.jobMask mask j) ∧
    (∀ j, smartFull.localList j = j.qix.map (mkEnt true "query_dps") ++ j.tix.map (mkEnt true "target_dps")) ∧
    smartFull.outerLen = "query_dps" ∧ smartFull.innerLen = "target_dps" :=
  ⟨by decide, smart_pairs_eq smartFull rfl rfl rfl rfl, smart_jobMask_eq smartFull rfl rfl,
   smart_local_eq smartFull "query_dps" "target_dps" rfl, rfl, rfl⟩

/-- `nblast_smart` — whose job loop reads `qix[0]` and therefore needs non-empty row blocks — never hands
`n_cores` to `find_batch_partition` (with it the row count may exceed the number of queries, see
`batch_partition_cores_may_exceed`; `nblast` itself tolerates empty blocks). -/
theorem smart_batch_never_gets_cores :
    (∃ sc ∈ batchCalls, sc.1 = "nblast_funcs.py:nblast_smart") ∧
    ∀ sc ∈ batchCalls, sc.1 = "nblast_funcs.py:nblast_smart" → sc.2 = false := by decide

/-- Every pool map whose results are consumed by position is an ordered one. -/
theorem ordered_maps_in_source : ∀ sm ∈ mapSites, sm.2 = "imap" ∨ sm.2 = "map" := by decide

/-- `NeuronProcessor.__call__` applies, to positional and keyword arguments alike, the rule modelled by
`Zip.parseVal`: excluded ⇒ whole; not iterable or `len(a) != len(self.nl)` ⇒ whole; else `a[i]` with `i` the
position of the neuron. -/
theorem zip_rule_in_source :
    zipOver = "self.nl" ∧ zipRules.map (·.kind) = ["args", "kwargs"] ∧
    ∀ rl ∈ zipRules, rl.excludeTestsLoopKey = true ∧ rl.iterableAndLenShape = true ∧ rl.lenOp = "NotEq" ∧
      rl.lenOf = "self.nl" ∧ rl.excludedGetsWhole = true ∧ rl.unzippedGetsWhole = true ∧
      rl.zippedIndexedByNeuronCounter = true := by decide

/-- `map_neuronlist` excludes exactly the positions of the positional arguments *after* the neuron list
(`proc(nl, *args, **kwargs)`: position 0 is the list), as `Zip.mapNeuronlist` does, and keeps a keyword
zippable only if it is named in `can_zip` / `must_zip`. -/
theorem map_neuronlist_excl_in_source (nargs : Nat) :
    procCalledWithListFirst = true ∧ exclKeywordUnlessIn = ["can_zip", "must_zip"] ∧
    List.range' exclPosStart (nargs + exclPosStopPlus - exclPosStart) = List.range' 1 nargs :=
  ⟨rfl, rfl, by simp [exclPosStart, exclPosStopPlus]⟩

end Source

/-! ## B. `scores='both'` -/

/-- **`nblast(scores='both')`**: every job returns the `hstack` + `reshape` interleaving of its forward and
reverse blocks and it is written to rows `np.repeat(2·qix, 2)` with `[1::2] += 1`.  For every partition and
completion order row `2r` of the result is the forward, row `2r+1` the reverse score of query `r`. -/
theorem assemble_both_any_order {α} (f : Nat → Nat → α × α) (nq nt rows cols : Nat) (hr : 0 < rows) (hc : 0 < cols)
    (done : List Job) (hperm : done.Perm (jobs nq nt rows cols)) (R c : Nat) :
    assembleBoth f done R c =
      if R < 2 * nq ∧ c < nt then some (if R % 2 = 0 then (f (R / 2) c).1 else (f (R / 2) c).2) else none := by
  unfold assembleBoth assembleBlocks
  rw [fold_place_pairs (fun R c => if R % 2 = 0 then (f (R / 2) c).1 else (f (R / 2) c).2)]
  · have hiff : (∃ jr ∈ done.map (fun j => (bothJob j, jobResultBoth f j)), R ∈ jr.1.qix ∧ c ∈ jr.1.tix) ↔
        (∃ j ∈ done, R / 2 ∈ j.qix ∧ c ∈ j.tix) := by
      constructor
      · rintro ⟨jr, hjr, h⟩
        rw [List.mem_map] at hjr
        obtain ⟨j, hj, rfl⟩ := hjr
        exact ⟨j, hj, mem_bothRows.mp h.1, h.2⟩
      · rintro ⟨j, hj, h⟩
        exact ⟨(bothJob j, jobResultBoth f j), List.mem_map.mpr ⟨j, hj, rfl⟩, mem_bothRows.mpr h.1, h.2⟩
    by_cases h : R < 2 * nq ∧ c < nt
    · rw [if_pos h, if_pos]
      obtain ⟨j, hj, hjc⟩ := cell_covered nq nt rows cols hr hc (show R / 2 < nq by omega) h.2
      exact hiff.mpr ⟨j, hperm.mem_iff.mpr hj, hjc⟩
    · rw [if_neg h, if_neg]; · rfl
      intro hex
      obtain ⟨j, hj, hjc⟩ := hiff.mp hex
      have := job_in_range nq nt rows cols hr hc (hperm.mem_iff.mp hj) hjc
      exact h ⟨by omega, this.2⟩
  · intro jr hjr a b ha hb
    rw [List.mem_map] at hjr
    obtain ⟨j, _, rfl⟩ := hjr
    exact jobResultBoth_get f j a b ha hb

/-- … hence independent of partition and order, and equal to the single-job result. -/
theorem both_partition_and_order_irrelevant {α} (f : Nat → Nat → α × α) (nq nt rows cols rows' cols' : Nat)
    (hr : 0 < rows) (hc : 0 < cols) (hr' : 0 < rows') (hc' : 0 < cols')
    (done done' : List Job) (h : done.Perm (jobs nq nt rows cols)) (h' : done'.Perm (jobs nq nt rows' cols')) :
    assembleBoth f done = assembleBoth f done' := by
  funext R c
  rw [assemble_both_any_order f nq nt rows cols hr hc done h, assemble_both_any_order f nq nt rows' cols' hr' hc' done' h']

/-! ## C. smart NBLAST -/
section SmartSec
open Navis.Smart

/-- **Full phase of `nblast_smart`.** For *every* selection mask, every partition with `1 ≤ rows ≤ |q|`,
`1 ≤ cols ≤ |t|` and every completion order, navis does not raise and each refined score lands in its own
`(query, target)` cell; unselected cells keep their pre-NBLAST score. -/
theorem smart_refine_any_order {α} (g : Nat → Nat → α) (mask : Nat → Nat → Bool) (nq nt rows cols : Nat)
    (hr : 0 < rows) (hrq : rows ≤ nq) (hc : 0 < cols) (hct : cols ≤ nt) (scr : Mat α)
    (done : List Job) (hperm : done.Perm (jobs nq nt rows cols)) :
    ∃ s, refine g mask nq nt scr done = some s ∧
      ∀ r c, s r c = if r < nq ∧ c < nt ∧ mask r c = true then some (g r c) else scr r c := by
  obtain ⟨s, hs, hspec⟩ := refine_fold g mask nq nt rows cols hr hrq hc hct done
    (fun j hj => hperm.mem_iff.mp hj) scr
  refine ⟨s, hs, ?_⟩
  intro r c
  rw [hspec]
  by_cases h : r < nq ∧ c < nt ∧ mask r c = true
  · rw [if_pos h, if_pos]
    obtain ⟨j, hj, hjc⟩ := cell_covered nq nt rows cols hr hc h.1 h.2.1
    exact ⟨⟨j, hperm.mem_iff.mpr hj, hjc⟩, h.2.2⟩
  · rw [if_neg h, if_neg]
    rintro ⟨⟨j, hj, hjc⟩, hm⟩
    have := job_in_range nq nt rows cols hr hc (hperm.mem_iff.mp hj) hjc
    exact h ⟨this.1, this.2, hm⟩

/-- The single-job path (`scr[mask] = this.pair_query_target(this.pairs)`) gives the same matrix. -/
theorem smart_refine_serial {α} (g : Nat → Nat → α) (mask : Nat → Nat → Bool) (nq nt : Nat) (scr : Mat α) (r c : Nat) :
    refineSerial g mask nq nt scr r c = if r < nq ∧ c < nt ∧ mask r c = true then some (g r c) else scr r c := by
  unfold refineSerial
  have hj : (⟨List.range nq, List.range nt⟩ : Job) = blockJob 0 nq 0 nt := by
    simp [blockJob, List.range_eq_range']
  have hjm : ∀ r c, (fun r c => decide (0 ≤ r ∧ r < 0 + nq ∧ 0 ≤ c ∧ c < 0 + nt) && mask r c) r c =
      (decide (0 ≤ r ∧ r < 0 + nq ∧ 0 ≤ c ∧ c < 0 + nt) && mask r c) := fun _ _ => rfl
  have hcells : maskCells nq nt mask =
      maskCells nq nt (fun r c => decide (0 ≤ r ∧ r < 0 + nq ∧ 0 ≤ c ∧ c < 0 + nt) && mask r c) := by
    unfold maskCells
    apply flatMap_congr'
    intro r hr
    apply filterMap_congr'
    intro c hc
    rw [List.mem_range] at hr hc
    have : decide (0 ≤ r ∧ r < 0 + nq ∧ 0 ≤ c ∧ c < 0 + nt) = true := by simp; omega
    simp only [this, Bool.true_and]
  have hvals : jobScores g mask ⟨List.range nq, List.range nt⟩ = (maskCells nq nt mask).map fun x => g x.1 x.2 := by
    rw [hj, jobScores_block, hcells, maskCells_block mask nq nt 0 nq 0 nt (by omega) (by omega) _ hjm, List.map_map]
    apply List.map_congr_left
    intro ab _
    simp
  rw [placeMask_spec scr nq nt mask (fun x => g x.1 x.2) _ hvals]

/-- **`nblast_smart` end to end**: pre-NBLAST assembled from jobs finishing in order `done1` (any partition),
selection by *any* function of the pre-NBLAST matrix (percentile, score, top-N …), refinement from jobs
finishing in order `done2` (any admissible partition): the result is fixed by the inputs alone. -/
theorem smart_any_partition_any_order {α} (pre g : Nat → Nat → α) (select : Mat α → Nat → Nat → Bool)
    (nq nt rows1 cols1 rows2 cols2 : Nat) (hr1 : 0 < rows1) (hc1 : 0 < cols1)
    (hr2 : 0 < rows2) (hrq2 : rows2 ≤ nq) (hc2 : 0 < cols2) (hct2 : cols2 ≤ nt)
    (done1 done2 : List Job) (h1 : done1.Perm (jobs nq nt rows1 cols1)) (h2 : done2.Perm (jobs nq nt rows2 cols2)) :
    ∃ s, smart pre g select nq nt done1 done2 = some s ∧
      ∀ r c, s r c =
        if r < nq ∧ c < nt then
          some (if select (fun r c => if r < nq ∧ c < nt then some (pre r c) else none) r c = true
                then g r c else pre r c)
        else none := by
  unfold smart
  have hscr : assemble pre done1 = fun r c => if r < nq ∧ c < nt then some (pre r c) else none := by
    funext r c; exact assemble_any_order pre nq nt rows1 cols1 hr1 hc1 done1 h1 r c
  rw [hscr]
  obtain ⟨s, hs, hspec⟩ := smart_refine_any_order g
    (select fun r c => if r < nq ∧ c < nt then some (pre r c) else none) nq nt rows2 cols2 hr2 hrq2 hc2 hct2
    (fun r c => if r < nq ∧ c < nt then some (pre r c) else none) done2 h2
  refine ⟨s, hs, ?_⟩
  intro r c
  rw [hspec]
  by_cases hrc : r < nq ∧ c < nt
  · by_cases hm : select (fun r c => if r < nq ∧ c < nt then some (pre r c) else none) r c = true
    · simp only [hrc, hm, and_self, if_true]
    · simp only [hrc, hm, and_false, and_self, if_true, if_false, Bool.false_eq_true]
  · rw [if_neg hrc, if_neg (fun h => hrc ⟨h.1, h.2.1⟩), if_neg hrc]

/-- An empty row block makes navis raise (`qix[0]`): the range theorems of section D are needed. -/
example : refine (fun r c => r + c) (fun _ _ => true) 1 2 emptyMat (jobs 1 2 2 1) = none := by decide

example : (refine (fun r c => 10 * r + c) (fun r c => r == c) 3 3 (fun _ _ => some 0) (jobs 3 3 2 2).reverse).map
    (fun s => [s 0 0, s 0 1, s 1 1, s 2 2, s 2 1]) = some [some 0, some 0, some 11, some 22, some 0] := by decide

end SmartSec

/-! ## D. The partition functions -/

/-- The `while (n_rows * n_cols) % n_cores: n_rows += 1` loop of `find_batch_partition` ends after fewer
than `n_cores` increments, on a multiple of `n_cores`. -/
theorem batch_loop_terminates (cols n rows : Nat) (hn : 0 < n) :
    (batchRowsLoop cols n n rows * cols) % n = 0 ∧ batchRowsLoop cols n n rows < rows + n :=
  batchRowsLoop_terminates cols n rows hn

/-- `find_batch_partition` as navis calls it (without `n_cores`): `1 ≤ rows ≤ |q|`, `1 ≤ cols ≤ |t|` for
every timing measurement. -/
theorem batch_partition_in_range (npb nq nt : Nat) (hq : 0 < nq) (ht : 0 < nt) :
    1 ≤ (findBatchPartition npb nq nt none).1 ∧ (findBatchPartition npb nq nt none).1 ≤ nq ∧
    1 ≤ (findBatchPartition npb nq nt none).2 ∧ (findBatchPartition npb nq nt none).2 ≤ nt :=
  findBatchPartition_range_none npb nq nt hq ht

/-- With `n_cores`: columns unchanged; rows only grow, by less than `n_cores`, to the *first* count that
makes the number of jobs a multiple of `n_cores` — and only if there are more jobs than cores. -/
theorem batch_partition_cores (npb nq nt n : Nat) :
    let base := max 1 (nq / npb)
    let cols := max 1 (nt / npb)
    let rc := findBatchPartition npb nq nt (some n)
    rc.2 = cols ∧ base ≤ rc.1 ∧
      (n ≠ 0 ∧ base * cols > n → (rc.1 * rc.2) % n = 0 ∧ rc.1 < base + n ∧
          ∀ r, base ≤ r → r < rc.1 → (r * cols) % n ≠ 0) ∧
      (¬ (n ≠ 0 ∧ base * cols > n) → rc.1 = base) :=
  findBatchPartition_cores npb nq nt n

/-- … in which case `rows ≤ |q|` is *not* guaranteed (3 queries, 4 cores ⇒ 4 row blocks). -/
theorem batch_partition_cores_may_exceed : findBatchPartition 1 3 3 (some 4) = (4, 3) := by decide

/-- `find_optimal_partition`: `rows` divides `n_cores`, `cols = min(n_cores / rows, |t|)`, never more jobs
than cores. -/
theorem optimal_partition_cores (N nq nt r c : Nat) (h : findOptimalPartition N nq nt = some (r, c)) :
    N % r = 0 ∧ c = min (N / r) nt ∧ r * c ≤ N :=
  findOptimalPartition_cores N nq nt r c h

/-- Whatever `n_cores`, `progress` and the timing measurement: the partition `nblast` ends up with exists
and satisfies `1 ≤ rows ≤ |q|`, `1 ≤ cols ≤ |t|`. -/
theorem nblast_partition_in_range (ncores : Option Nat) (progress : Bool) (npbP npbM nq nt : Nat)
    (hq : 0 < nq) (ht : 0 < nt) :
    ∃ r c, chooseNblast ncores progress npbP npbM nq nt = some (r, c) ∧ 1 ≤ r ∧ r ≤ nq ∧ 1 ≤ c ∧ c ≤ nt := by
  have h := chooseNblast_isSome ncores progress npbP npbM nq nt hq
  cases hch : chooseNblast ncores progress npbP npbM nq nt with
  | none => rw [hch] at h; simp at h
  | some rc => exact ⟨rc.1, rc.2, rfl, chooseNblast_range ncores progress npbP npbM nq nt rc.1 rc.2 hq ht hch⟩

/-- Same for `nblast_allbyall`, `nblast_smart`, `synblast`. -/
theorem simple_partition_in_range (ncores : Option Nat) (progress : Bool) (npbP nq nt : Nat)
    (hq : 0 < nq) (ht : 0 < nt) :
    ∃ r c, chooseSimple ncores progress npbP nq nt = some (r, c) ∧ 1 ≤ r ∧ r ≤ nq ∧ 1 ≤ c ∧ c ≤ nt := by
  have h := chooseSimple_isSome ncores progress npbP nq nt hq
  cases hch : chooseSimple ncores progress npbP nq nt with
  | none => rw [hch] at h; simp at h
  | some rc => exact ⟨rc.1, rc.2, rfl, chooseSimple_range ncores progress npbP nq nt rc.1 rc.2 hq ht hch⟩

/-- `n_cores`, `progress` and timing never change the `nblast` result (placement theorem + range theorem). -/
theorem nblast_cores_irrelevant {α} (f : Nat → Nat → α) (nq nt : Nat) (hq : 0 < nq) (ht : 0 < nt)
    (nc nc' : Option Nat) (pg pg' : Bool) (p1 p2 p1' p2' : Nat) :
    ∃ r c r' c', chooseNblast nc pg p1 p2 nq nt = some (r, c) ∧ chooseNblast nc' pg' p1' p2' nq nt = some (r', c') ∧
      ∀ done done', done.Perm (jobs nq nt r c) → done'.Perm (jobs nq nt r' c') → assemble f done = assemble f done' := by
  obtain ⟨r, c, h, h1, _, h3, _⟩ := nblast_partition_in_range nc pg p1 p2 nq nt hq ht
  obtain ⟨r', c', h', h1', _, h3', _⟩ := nblast_partition_in_range nc' pg' p1' p2' nq nt hq ht
  exact ⟨r, c, r', c', h, h', fun done done' hd hd' =>
    partition_and_order_irrelevant f nq nt r c r' c' h1 h3 h1' h3' done done' hd hd'⟩

/-! ## E. `NeuronProcessor.__call__` / `map_neuronlist` as written -/

/-- The zip rule for sequences (list, tuple, ndarray, NeuronList): one element per neuron ⇒ neuron `i` gets
element `i`; any other length ⇒ every neuron gets the whole value. -/
theorem zip_rule_seq {β} (n i : Nat) (vs : List β) (hi : i < n) :
    (∀ h : vs.length = n, parseVal n i false (.seq vs) = some (.atom (vs[i]'(by omega)))) ∧
    (vs.length ≠ n → parseVal n i false (.seq vs) = some (.seq vs)) :=
  ⟨fun h => parseVal_seq_match n i vs h hi, parseVal_seq_other n i vs⟩

/-- `None`, numbers, strings (whatever their length), DataFrames and everything listed in `exclude_zip` are
passed to every neuron unchanged. -/
theorem zip_rule_whole {β} (n i : Nat) (a : Val β) :
    parseVal n i true a = some a ∧ (a.isIterable = false → ∀ ex, parseVal n i ex a = some a) :=
  ⟨parseVal_excluded n i a, fun h ex => parseVal_not_iterable n i ex a h⟩

/-- A dict with as many keys as neurons is looked up *by key* `i` (a missing key makes the call raise before
any neuron is processed); generators and sets of matching size raise as well. -/
theorem zip_rule_dict {β} (n i : Nat) (kvs : List (Nat × β)) (o : Nat) (h : kvs.length + o = n) :
    parseVal n i false (.dict kvs o) = (kvs.lookup i).map .atom ∧
    parseVal n i false (Val.unsized : Val β) = none ∧ parseVal n i false (Val.unindexable n : Val β) = none :=
  ⟨parseVal_dict_match n i kvs o h, by simp [parseVal, Val.isIterable, Val.len?],
   by simp [parseVal, Val.isIterable, Val.len?, Val.index?]⟩

/-- What neuron `i`'s call looks like: unless position 0 is excluded the first argument is neuron `i`
itself; positional argument `k` (counted after the list) and every keyword follow the zip rule. -/
theorem zipW_call_spec {ν β} (nl : List ν) (exclPos : List Nat) (exclKw : List String)
    (args : List (Val β)) (kwargs : List (String × Val β)) (i : Nat) (c : Call ν β)
    (h : parseCall nl exclPos exclKw args kwargs i = some c) :
    (0 ∉ exclPos → c.first = (nl[i]?).elim (.inr []) .inl ∧ (nl[i]?).isSome) ∧
    c.args.length = args.length ∧
    (∀ k (hk : k < args.length), c.args[k]? = parseVal nl.length i (decide (k + 1 ∈ exclPos)) args[k]) ∧
    c.kwargs.length = kwargs.length ∧
    (∀ k (hk : k < kwargs.length), c.kwargs[k]? =
        (parseVal nl.length i (decide (kwargs[k].1 ∈ exclKw)) kwargs[k].2).map fun v => (kwargs[k].1, v)) :=
  parseCall_spec nl exclPos exclKw args kwargs i c h

/-- Results in list order, each from its own function and its own call. -/
theorem zipW_results_in_order {ν β γ} (f : Nat → Call ν β → Res γ) (nl : List ν) (exclPos : List Nat)
    (exclKw : List String) (args : List (Val β)) (kwargs : List (String × Val β)) (omitF : Bool)
    (calls : List (Call ν β)) (hcalls : (List.range nl.length).mapM (parseCall nl exclPos exclKw args kwargs) = some calls)
    (hall : ∀ k (hk : k < calls.length), (f k calls[k]).isSome) (out : List γ)
    (h : processW f nl exclPos exclKw args kwargs omitF = some out) :
    out.length = nl.length ∧ ∀ k (hk : k < calls.length), f k calls[k] = out[k]? :=
  processW_in_order f nl exclPos exclKw args kwargs omitF calls hcalls hall out h

/-- `omit_failures=True`: exactly the failing runs disappear, the rest keeps its order. -/
theorem zipW_omit_failures {ν β γ} (f : Nat → Call ν β → Res γ) (nl : List ν) (exclPos : List Nat)
    (exclKw : List String) (args : List (Val β)) (kwargs : List (String × Val β)) :
    processW f nl exclPos exclKw args kwargs true =
      ((List.range nl.length).mapM (parseCall nl exclPos exclKw args kwargs)).map fun calls =>
        calls.zipIdx.filterMap fun p => f p.2 p.1 :=
  processW_omit f nl exclPos exclKw args kwargs

/-- `parallel=True` (ordered `imap`) with any chunk size — and any number of workers, which the model does
not even mention — returns what the serial loop returns, failures and exceptions included. -/
theorem zipW_serial_eq_parallel {ν β γ} (f : Nat → Call ν β → Res γ) (nl : List ν) (exclPos : List Nat)
    (exclKw : List String) (args : List (Val β)) (kwargs : List (String × Val β)) (omitF : Bool) (cs : Nat) :
    processWParallel f nl exclPos exclKw args kwargs omitF cs = processW f nl exclPos exclKw args kwargs omitF :=
  processWParallel_eq f nl exclPos exclKw args kwargs omitF cs

/-- When every run returns a neuron the result is the NeuronList of those neurons in that order. -/
theorem finish_neurons_in_order {ν γ} (xs : List ν) : finish (xs.map (Ret.neuron (γ := γ))) = .neuronlist xs :=
  finish_all_neurons xs

/-- `map_neuronlist`: if the wrapper gets as far as calling the processor, (1) the positions excluded from
zipping are exactly `1 … nargs` — never position 0, the list itself; (2) no `can_zip` / `must_zip` keyword is
excluded; (3) every `must_zip` value has one entry per neuron; (4) every iterable `can_zip` value has. -/
theorem map_neuronlist_plan {β} (cfg : MapCfg) (n nargs : Nat) (kwargs : List (String × Val β)) (parallel : Bool)
    (inplaceKw omitKw : Option Bool) (plan : MapPlan)
    (h : mapNeuronlist cfg n nargs kwargs parallel inplaceKw omitKw = .ok plan) :
    plan.exclPos = List.range' 1 nargs ∧ 0 ∉ plan.exclPos ∧
    (∀ k ∈ plan.exclKw, ¬ k ∈ cfg.canZip ∧ ¬ k ∈ cfg.mustZip) ∧
    (∀ p ∈ cfg.mustZip, ∀ v, kwargs.lookup p = some v → v ≠ .pyNone → v.makeIterableLen = some n) ∧
    (∀ p ∈ cfg.canZip, ∀ v, kwargs.lookup p = some v → v.isIterable = true → v.len? = some n) := by
  obtain ⟨h1, h2, h3, h4⟩ := mapNeuronlist_ok cfg n nargs kwargs parallel inplaceKw omitKw plan h
  refine ⟨h1, ?_, h2, h3, h4⟩
  rw [h1, List.mem_range'_1]; omega

/-- Hence a `must_zip` list survives validation only with one value per neuron, is not excluded, and neuron
`i` receives value `i`. -/
theorem map_neuronlist_mustzip_matched {β} (cfg : MapCfg) (n nargs : Nat) (kwargs : List (String × Val β))
    (parallel : Bool) (inplaceKw omitKw : Option Bool) (plan : MapPlan)
    (h : mapNeuronlist cfg n nargs kwargs parallel inplaceKw omitKw = .ok plan)
    (p : String) (hp : p ∈ cfg.mustZip) (vs : List β) (hv : kwargs.lookup p = some (.seq vs)) (i : Nat) (hi : i < n) :
    ∃ hlen : vs.length = n,
      parseVal n i (decide (p ∈ plan.exclKw)) (.seq vs) = some (.atom (vs[i]'(by omega))) := by
  obtain ⟨_, _, h2, h3, _⟩ := map_neuronlist_plan cfg n nargs kwargs parallel inplaceKw omitKw plan h
  have hlen : vs.length = n := by
    have := h3 p hp _ hv (by simp)
    simpa [Val.makeIterableLen] using this
  refine ⟨hlen, ?_⟩
  have hne : ¬ p ∈ plan.exclKw := fun hk => (h2 p hk).2 hp
  rw [decide_eq_false hne]
  exact parseVal_seq_match n i vs hlen hi

/-! ### Non-vacuity (second pass) -/

example : (jobs 4 3 2 2).reverse.Perm (jobs 4 3 2 2) := List.reverse_perm _
example : assembleBoth (fun r c => (10 * r + c, 100 + 10 * r + c)) (jobs 3 2 2 1).reverse 5 1 = some 121 := by decide
example : assembleBoth (fun r c => (10 * r + c, 100 + 10 * r + c)) (jobs 3 2 2 1).reverse 4 1 = some 21 := by decide
example : bothRows [3, 4] = [6, 7, 8, 9] := by decide
example : Navis.JobSpec.ValidEnum [5, 3, 4, 9] ⟨[3, 4], [5]⟩ := ⟨by decide, by decide⟩
example : chooseNblast (some 4) false 3 1 3 5 = some (3, 5) := by decide
example : chooseNblast (some 8) false 3 9 3 5 = some (2, 4) := by decide
example : findBatchPartition 2 9 9 (some 5) = (5, 4) := by decide
example : mapNeuronlist (β := Nat) ⟨["cz"], ["mz"], true, true, false⟩ 3 2
    [("mz", .seq [1, 2, 3]), ("other", .seq [1, 2, 3])] true none none =
    .ok ⟨[1, 2], ["other", "inplace"], ["mz", "other", "inplace"], true, false, false⟩ := by rfl
example : mapNeuronlist (β := Nat) ⟨["cz"], ["mz"], true, true, false⟩ 3 0
    [("mz", .seq [1, 2])] false none none = .error .mustZipLen := by rfl
example : processW (fun i (c : Call Nat Nat) => if i = 1 then none else some (c.first, c.args)) [7, 8, 9] [2] []
    [.seq [1, 2, 3], .seq [1, 2, 3], .atom 5] [] true =
    some [(.inl 7, [.atom 1, .seq [1, 2, 3], .atom 5]), (.inl 9, [.atom 3, .seq [1, 2, 3], .atom 5])] := by decide

/-! ### `map_neuronlist_df` (`segment_analysis` on a NeuronList)

Since fix 88dbed7 the surviving frames are zipped with the *surviving* neurons
(`ok = [n for n, failed in zip(nl, proc.failed) if not failed]`). -/

/-- **Full strength**: with `omit_failures=True`, for every failure pattern, each surviving neuron's frame
carries that neuron's own id, in list order; failing neurons remove only themselves (if nothing survives
`pd.concat([])` raises). -/
theorem mapdf_labels {ν γ} (f : ν → Res γ) (nl : List ν) :
    mapDfW f nl true =
      if (nl.filterMap f).isEmpty then none else some (nl.filterMap fun x => (f x).map fun v => (x, v)) :=
  mapDfW_omit f nl

/-- Without failures the same holds whatever `omit_failures` is … -/
theorem mapdf_labels_no_failure {ν γ} (g : ν → γ) (nl : List ν) (hne : nl ≠ []) (omitF : Bool) :
    mapDfW (fun x => some (g x)) nl omitF = some (nl.map fun x => (x, g x)) :=
  mapDfW_no_failure g nl hne omitF

/-- … and without `omit_failures` one failing neuron makes the whole call raise. -/
theorem mapdf_strict_failure {ν γ} (f : ν → Res γ) (nl : List ν) (h : ∃ x ∈ nl, f x = none) :
    mapDfW f nl false = none :=
  mapDfW_strict_failure f nl h

/-- **Tie to the source**: what the translator reads off the *current* `map_neuronlist_df` /
`NeuronProcessor.__call__` (zip partner of the results = the survivors, computed from `proc.failed`, which the
processor records before dropping the failed runs) labels correctly for every failure pattern.  Reverting
fix 88dbed7 turns `Gen.NblastJobs.dfFacts.zipPartner` into `"list"`, `mapDfOf` into `mapDfPreFix`, and this
theorem stops checking. -/
theorem mapdf_source_labels {ν γ} (f : ν → Res γ) (nl : List ν) :
    mapDfOf Navis.Gen.NblastJobs.dfFacts f nl true =
      if (nl.filterMap f).isEmpty then none else some (nl.filterMap fun x => (f x).map fun v => (x, v)) := by
  have : mapDfOf Navis.Gen.NblastJobs.dfFacts f nl true = mapDfW f nl true := by
    unfold mapDfOf
    rw [if_pos (by decide)]
  rw [this]; exact mapDfW_omit f nl

/-- HISTORICAL witness (the labelling before fix 88dbed7 was wrong): neurons 0, 1, 2, neuron 1 fails —
`zip(nl, res)` labels neuron 2's frame (value 20) with id 1 and loses id 2; the repaired code does not. -/
theorem mapdf_labels_counterexample :
    mapDfPreFix (fun x => if x = 1 then none else some (10 * x)) [0, 1, 2] true = some [(0, 0), (1, 20)] ∧
    mapDfW (fun x => if x = 1 then none else some (10 * x)) [0, 1, 2] true = some [(0, 0), (2, 20)] := by
  decide

/-! ### The in-place swap of `map_neuronlist` (tie to the source)

`Gen.NblastJobs.swapFacts` is the `if` guarding `nl.neurons = res.neurons` as it stands in the source. -/

/-- The swap happens exactly when `inplace` is true — for serial and parallel runs alike — and otherwise the
result list is returned: no combination of the flags leaves the input list untouched *and* returned. -/
theorem map_neuronlist_swap_in_source :
    Navis.Gen.NblastJobs.swapFacts.swapAssignsResultNeurons = true ∧
    Navis.Gen.NblastJobs.swapFacts.elseReturnsResult = true ∧
    ∀ inplace parallel, swapOf Navis.Gen.NblastJobs.swapFacts inplace parallel = some inplace := by
  refine ⟨rfl, rfl, ?_⟩
  intro i p; cases i <;> cases p <;> rfl

/-- Hence, for every input list and every processor result `res` (the survivors' results in list order, see
`zipW_omit_failures`): the returned list holds exactly `res`; it *is* the input list iff `inplace`; the input
list afterwards holds `res` iff `inplace` and is unchanged otherwise — whatever `parallel` is. -/
theorem map_neuronlist_swap_outcome {ν} (inplace parallel : Bool) (nl res : List ν) :
    swapOutcome (swapOf Navis.Gen.NblastJobs.swapFacts inplace parallel) nl res =
      (inplace, res, if inplace then res else nl) := by
  rw [map_neuronlist_swap_in_source.2.2 inplace parallel]
  cases inplace <;> rfl

/-- Serial and parallel runs end in the same observable state. -/
theorem map_neuronlist_swap_serial_eq_parallel {ν} (inplace : Bool) (nl res : List ν) :
    swapOutcome (swapOf Navis.Gen.NblastJobs.swapFacts inplace false) nl res =
    swapOutcome (swapOf Navis.Gen.NblastJobs.swapFacts inplace true) nl res := by
  rw [map_neuronlist_swap_outcome, map_neuronlist_swap_outcome]

/-- The plan computed by the wrapper model and the extracted swap test agree. -/
theorem map_neuronlist_plan_swap {β} (cfg : MapCfg) (n nargs : Nat) (kwargs : List (String × Val β)) (parallel : Bool)
    (inplaceKw omitKw : Option Bool) (plan : MapPlan)
    (_h : mapNeuronlist cfg n nargs kwargs parallel inplaceKw omitKw = .ok plan) :
    swapOf Navis.Gen.NblastJobs.swapFacts plan.swapInplace parallel = some plan.swapInplace :=
  map_neuronlist_swap_in_source.2.2 _ _

/-- What a guard `inplace and parallel` / `elif not inplace` would do to a serial in-place run: neither branch. -/
example : swapOf ⟨.and .inplace .parallel, some (.not .inplace), true, true⟩ true false = none := by decide
example : swapOutcome (none : Option Bool) [1, 2, 3] [1, 3] = (true, [1, 2, 3], [1, 2, 3]) := by decide

end Navis.Props.C09
