import NavisModel.Proofs.PartitionLemmas
import NavisModel.Proofs.ZipLemmas
/-!
# C09 — results are independent of cores, job partitioning and completion order

Property theorems only.  Helper lemmas live in `Proofs/PartitionLemmas.lean`, `Proofs/ZipLemmas.lean`.
`f r c` is the score of query `r` against target `c` (any type, any function): the theorems do not
look inside it, so they hold for every score mode and every scoring table.
-/
namespace Navis.Props.C09
open Navis.Partition Navis.Zip

/-- `np.array_split(np.arange(n), k)` concatenates back to `arange(n)` for every `n` and `k ≥ 1`. -/
theorem arraySplit_concat (n k : Nat) (hk : 0 < k) : (arraySplit n k).flatten = List.range n :=
  arraySplit_flatten n k hk

/-- **Main theorem (nblast).** For every number of queries and targets, every partition
`rows × cols` (both ≥ 1) and *every order in which the jobs complete* (any permutation of the job
list), the assembled matrix holds exactly `f r c` in every cell `(r, c)` of the matrix and nothing
outside it. -/
theorem assemble_any_order {α} (f : Nat → Nat → α) (nq nt rows cols : Nat) (hr : 0 < rows) (hc : 0 < cols)
    (done : List Job) (hperm : done.Perm (jobs nq nt rows cols)) (r c : Nat) :
    assemble f done r c = if r < nq ∧ c < nt then some (f r c) else none := by
  unfold assemble
  rw [fold_place f (jobResult f) (fun j a b ha hb => jobResult_get f j a b ha hb)]
  by_cases h : r < nq ∧ c < nt
  · rw [if_pos h, if_pos]
    obtain ⟨j, hj, hjc⟩ := cell_covered nq nt rows cols hr hc h.1 h.2
    exact ⟨j, hperm.mem_iff.mpr hj, hjc⟩
  · rw [if_neg h, if_neg]; · rfl
    rintro ⟨j, hj, hjc⟩
    exact h (job_in_range nq nt rows cols hr hc (hperm.mem_iff.mp hj) hjc)

/-- Hence any two partitions and any two completion orders give the same matrix; in particular
every parallel run equals the serial `1 × 1` run. -/
theorem partition_and_order_irrelevant {α} (f : Nat → Nat → α) (nq nt rows cols rows' cols' : Nat)
    (hr : 0 < rows) (hc : 0 < cols) (hr' : 0 < rows') (hc' : 0 < cols')
    (done done' : List Job) (h : done.Perm (jobs nq nt rows cols)) (h' : done'.Perm (jobs nq nt rows' cols')) :
    assemble f done = assemble f done' := by
  funext r c
  rw [assemble_any_order f nq nt rows cols hr hc done h, assemble_any_order f nq nt rows' cols' hr' hc' done' h']

/-- **All-by-all.** The job-local list is *any* enumeration `enum j` of `set(qix) | set(tix)` (Python
set order is arbitrary): as long as it contains the job's indices, the local remap `ixmap` addresses
the right neurons and the assembled matrix is `f`. -/
theorem allbyall_any_enumeration {α} (f : Nat → Nat → α) (n rows cols : Nat) (hr : 0 < rows) (hc : 0 < cols)
    (enum : Job → List Nat)
    (henum : ∀ j ∈ jobs n n rows cols, (∀ x ∈ j.qix, x ∈ enum j) ∧ (∀ x ∈ j.tix, x ∈ enum j))
    (done : List Job) (hperm : done.Perm (jobs n n rows cols)) (r c : Nat) :
    assembleAll f enum done r c = if r < n ∧ c < n then some (f r c) else none := by
  unfold assembleAll
  -- replace the blocks of jobs outside the grid by correct ones (they are never used)
  let blk : Job → List (List α) := fun j =>
    if j ∈ jobs n n rows cols then jobResultAll f (enum j) j else jobResult f j
  have hfold : ∀ (ds : List Job) (m : Mat α), (∀ j ∈ ds, j ∈ jobs n n rows cols) →
      ds.foldl (fun m j => place m j (jobResultAll f (enum j) j)) m =
      ds.foldl (fun m j => place m j (blk j)) m := by
    intro ds
    induction ds with
    | nil => intros; rfl
    | cons d ds ih =>
      intro m hm
      simp only [List.foldl_cons]
      have hd : blk d = jobResultAll f (enum d) d := by
        simp only [blk]; rw [if_pos (hm d (by simp))]
      rw [hd]; exact ih _ (fun j hj => hm j (by simp [hj]))
  rw [hfold done _ (fun j hj => hperm.mem_iff.mp hj)]
  rw [fold_place f blk]
  · by_cases h : r < n ∧ c < n
    · rw [if_pos h, if_pos]
      obtain ⟨j, hj, hjc⟩ := cell_covered n n rows cols hr hc h.1 h.2
      exact ⟨j, hperm.mem_iff.mpr hj, hjc⟩
    · rw [if_neg h, if_neg]; · rfl
      rintro ⟨j, hj, hjc⟩
      exact h (job_in_range n n rows cols hr hc (hperm.mem_iff.mp hj) hjc)
  · intro j a b ha hb
    simp only [blk]
    split
    · rename_i hj
      exact jobResultAll_get f (enum j) j (henum j hj).1 (henum j hj).2 a b ha hb
    · exact jobResult_get f j a b ha hb

/-- All-by-all equals query-against-itself for every partition and order of either. -/
theorem allbyall_eq_nblast_self {α} (f : Nat → Nat → α) (n rows cols rows' cols' : Nat)
    (hr : 0 < rows) (hc : 0 < cols) (hr' : 0 < rows') (hc' : 0 < cols')
    (enum : Job → List Nat)
    (henum : ∀ j ∈ jobs n n rows cols, (∀ x ∈ j.qix, x ∈ enum j) ∧ (∀ x ∈ j.tix, x ∈ enum j))
    (done done' : List Job) (h : done.Perm (jobs n n rows cols)) (h' : done'.Perm (jobs n n rows' cols')) :
    assembleAll f enum done = assemble f done' := by
  funext r c
  rw [allbyall_any_enumeration f n rows cols hr hc enum henum done h,
      assemble_any_order f n n rows' cols' hr' hc' done' h']

/-- The partition chosen by `find_optimal_partition` is always usable: `1 ≤ rows ≤ nq`, `1 ≤ cols ≤ nt`,
whatever the core count. -/
theorem optimal_partition_in_range (N nq nt r c : Nat) (hnt : 0 < nt)
    (h : findOptimalPartition N nq nt = some (r, c)) : 1 ≤ r ∧ r ≤ nq ∧ 1 ≤ c ∧ c ≤ nt :=
  findOptimalPartition_range N nq nt r c hnt h

/-- … and it exists whenever there is at least one query and one core. -/
theorem optimal_partition_exists (N nq nt : Nat) (hN : 0 < N) (hq : 0 < nq) :
    (findOptimalPartition N nq nt).isSome :=
  findOptimalPartition_isSome N nq nt hN hq

/-! ### Mapping a function over a NeuronList -/

/-- Per-neuron arguments are matched to the right neuron: neuron `i` receives element `i` of every
zipped argument, the whole value of every other argument. -/
theorem zip_args_matched {β} (n i : Nat) (hi : i < n) (args : List (Bool × Arg β)) :
    (parseArgs n args)[i]? = some (args.map fun (ex, a) =>
      if ex then a else match a with
        | .scalar v => .scalar v
        | .many vs => if vs.length = n then (match vs[i]? with | some v => .scalar v | none => .many vs) else .many vs) :=
  parseArgs_get n i hi args

/-- Results come back in list order: when nothing fails the `k`-th result is `f` of the `k`-th neuron
with the `k`-th argument vector. -/
theorem zip_results_in_order {ν β γ} (f : ν → List (Arg β) → Res γ) (nl : List ν) (args : List (Bool × Arg β))
    (omitF : Bool) (out : List γ) (hall : ∀ k (hk : k < nl.length), (f nl[k] ((parseArgs nl.length args).getD k [])).isSome)
    (h : process f nl args omitF = some out) :
    out.length = nl.length ∧ ∀ k (hk : k < nl.length), (f nl[k] ((parseArgs nl.length args).getD k [])) = out[k]? :=
  process_in_order f nl args omitF out hall h

/-- `omit_failures=True` removes exactly the failing neurons and keeps the others in order. -/
theorem omit_failures_removes_only_failures {ν β γ} (f : ν → List (Arg β) → Res γ) (nl : List ν)
    (args : List (Bool × Arg β)) :
    process f nl args true =
      some ((nl.zip (parseArgs nl.length args)).filterMap fun (x, a) => f x a) :=
  process_omit f nl args

/-- Serial and parallel execution agree for every chunk size (ordered `imap`). -/
theorem serial_eq_parallel {ν β γ} (f : ν → List (Arg β) → Res γ) (nl : List ν) (args : List (Bool × Arg β))
    (omitF : Bool) (cs : Nat) : processParallel f nl args omitF cs = process f nl args omitF :=
  processParallel_eq f nl args omitF cs

/-! ### Non-vacuity: concrete instances meet the hypotheses -/

example : (jobs 5 3 2 2).reverse.Perm (jobs 5 3 2 2) := List.reverse_perm _
example : jobs 5 3 2 2 = [⟨[0,1,2],[0,1]⟩, ⟨[0,1,2],[2]⟩, ⟨[3,4],[0,1]⟩, ⟨[3,4],[2]⟩] := by decide
example : assemble (fun r c => 10*r+c) (jobs 5 3 2 2).reverse 4 2 = some 42 := by decide
example : findOptimalPartition 4 3 5 = some (2, 2) := by decide
example : process (fun (x : Nat) (a : List (Arg Nat)) => if x = 2 then none else some (x, a)) [1,2,3]
    [(false, .many [7,8,9]), (true, .many [7,8,9])] true =
    some [(1, [.scalar 7, .many [7,8,9]]), (3, [.scalar 9, .many [7,8,9]])] := by decide

end Navis.Props.C09
