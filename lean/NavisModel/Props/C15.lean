import NavisModel.Proofs.UnitsLemmas
import NavisModel.Proofs.UnitsHistLemmas
import NavisModel.Proofs.UnitsEuclid
import NavisModel.Proofs.UnitsSpecLemmas
/-!
# C15 — coordinate arithmetic and units keep physical quantities consistent

Property theorems only; helper lemmas live in `Proofs/UnitsLemmas.lean`, the executable model in
`Model/Units.lean`.  Everything is over `Rat` (exact): on the real code the statements hold up to IEEE rounding.
Vocabulary:

* `Units = (mag : V3, base)`: what `.units_xyz` returns, `base = metre e` (`10^e` m) or `dimless`;
  `u.phys` = metres per coordinate step per axis.  `Units.compact u p` is pint's `to_compact()` with the
  prefix `10^p` m; `p` is pint's choice and universally quantified in every theorem.
* `mul n f p`, `div n f p`, `add n o`, `sub n o : Option Neuron` — `TreeNeuron / MeshNeuron / Dotprops /
  VoxelNeuron .__mul__/__truediv__/__add__/__sub__`; `none` = the call raises (unsupported operand shape, zero
  factor).  `Factor = s k | v3 f | v4 f r`.
* `physPts n`, `physConns n`, `physRadii n` — coordinates / connectors / radii × units (metres).
* `convertUnits n tgt p` — `convert_units`; `mapUnits n a` — `map_units` / `to_neuron_space`;
  `roundSmart` — `utils.round_smart`.
* `applyOp n ids op` — the `(units, name, id)` flow of the non-scaling operations (`ids` are the fresh uuids
  `BaseNeuron.__init__` draws on the way); `reinit n arg`, `fromTable … arg` — `cls(x, units=arg)` and
  construction from a table, with `assignUnits` = the guarded `self.units = units` of navis commit 4ae0b05.

**VoxelNeuron.** Its arithmetic is a different design: the integer voxel indices cannot be scaled, so `x * k`
multiplies the *units* (the voxel size), the offset and the connectors.  The consistency that holds is
`voxel_scale_world` (unconditionally since navis 881c0e3); physical invariance and `convert_units` do **not** hold for voxels
(`voxel_scale_not_invariant`, `voxel_convert_units_wrong`) — the harness reports these as known findings.
-/
set_option linter.unusedSimpArgs false

namespace Navis.Props.C15
open Navis.Units

/-! ## 1. scaling keeps physical quantities -/

/-- **scale_physical_invariant.** For every skeleton, mesh or dotprops `n`, every operand `f` (number,
per-axis 3-vector, x/y/z/radius 4-vector) that `__mul__` accepts with all components non-zero (that is what
`mul n f p = some m` says, see `mul_defined_iff`) and every prefix `p` that `to_compact` may pick:
coordinates × units and connectors × units are unchanged, per axis. -/
theorem scale_physical_invariant {n m : Neuron} {f : Factor} {p : Int} (hk : n.kind ≠ .voxel)
    (h : mul n f p = some m) : physPts m = physPts n ∧ physConns m = physConns n :=
  mul_phys hk h

/-- The same for division. -/
theorem scale_physical_invariant_div {n m : Neuron} {f : Factor} {p : Int} (hk : n.kind ≠ .voxel)
    (h : div n f p = some m) : physPts m = physPts n ∧ physConns m = physConns n :=
  div_phys hk h

/-- Hence every quantity computed from physical coordinates (cable length × units, bounding box × units …)
is unchanged by scaling. -/
theorem scale_derived_invariant {α : Type} (g : List V3 → α) {n m : Neuron} {f : Factor} {p : Int}
    (hk : n.kind ≠ .voxel) (h : mul n f p = some m ∨ div n f p = some m) : g (physPts m) = g (physPts n) := by
  rcases h with h | h
  · rw [(mul_phys hk h).1]
  · rw [(div_phys hk h).1]

/-- Radii × units are unchanged too whenever the radius factor equals the x factor (numbers; 4-vectors
`(a, b, c, a)`). -/
theorem scale_physical_radii {n m : Neuron} {f : Factor} {p : Int} (hk : n.kind ≠ .voxel)
    (h : mul n f p = some m ∨ div n f p = some m) (hr : f.rad = f.xyz.x) : physRadii m = physRadii n := by
  rcases h with h | h
  · exact mul_physRadii hk h hr
  · exact div_physRadii hk h hr

/-- When the operation is defined (non-vacuity of the hypotheses above): exactly when the neuron type accepts
the operand shape and no component is zero. -/
theorem mul_defined_iff (n : Neuron) (f : Factor) (p : Int) :
    ((mul n f p).isSome = true ↔ acceptsScale n.kind f = true ∧ f.nz = true) ∧
    ((div n f p).isSome = true ↔ acceptsScale n.kind f = true ∧ f.nz = true) :=
  ⟨mul_isSome_iff n f p, div_isSome_iff n f p⟩

/-- `to_compact` (any prefix) never changes the physical value of the unit. -/
theorem compact_keeps_physical (u : Units) (p : Int) : (u.compact p).phys = u.phys :=
  compact_phys u p

/-! ## 2. `x * f / f = x`, `x + o - o = x` -/

/-- **mul_div_cancel.** For every neuron type (voxels included), operand and prefixes: `x * f / f` has the
coordinates, radii, connectors, offset, name and id of `x` and units of the same physical value; when the last
`to_compact` returns to the original prefix (`backTo`: always true for dimensionless units) it *is* `x`. -/
theorem mul_div_cancel {n m n' : Neuron} {f : Factor} {p p' : Int}
    (h1 : mul n f p = some m) (h2 : div m f p' = some n') :
    n'.kind = n.kind ∧ n'.pts = n.pts ∧ n'.radii = n.radii ∧ n'.conns = n.conns ∧ n'.offset = n.offset ∧
      n'.name = n.name ∧ n'.id = n.id ∧ n'.units.phys = n.units.phys ∧ (backTo n.units.base p' → n' = n) :=
  mul_div_cancel_all h1 h2

theorem div_mul_cancel {n m n' : Neuron} {f : Factor} {p p' : Int}
    (h1 : div n f p = some m) (h2 : mul m f p' = some n') :
    n'.kind = n.kind ∧ n'.pts = n.pts ∧ n'.radii = n.radii ∧ n'.conns = n.conns ∧ n'.offset = n.offset ∧
      n'.name = n.name ∧ n'.id = n.id ∧ n'.units.phys = n.units.phys ∧ (backTo n.units.base p' → n' = n) :=
  div_mul_cancel_all h1 h2

/-- If `x * f` is defined so is `(x * f) / f` (the guard of `mul_div_cancel` is satisfiable). -/
theorem mul_then_div_defined {n m : Neuron} {f : Factor} {p : Int} (h : mul n f p = some m) (p' : Int) :
    (div m f p').isSome = true := by
  have h1 := (mul_isSome_iff n f p).mp (by rw [h]; rfl)
  rw [div_isSome_iff]
  refine ⟨?_, h1.2⟩
  by_cases hk : n.kind = .voxel
  · obtain ⟨_, rfl⟩ := mul_voxel hk h; exact h1.1
  · obtain ⟨_, rfl⟩ := mul_nonvoxel hk h; exact h1.1

/-- **add_sub_cancel.** `x + o - o = x` and `x - o + o = x`, every type, every accepted offset. -/
theorem add_sub_cancel {n m : Neuron} {o : Factor} :
    (add n o = some m → sub m o = some n) ∧ (sub n o = some m → add m o = some n) :=
  ⟨add_sub_cancel_all, sub_add_cancel_all⟩

theorem shift_defined_iff (n : Neuron) (o : Factor) :
    ((add n o).isSome = true ↔ acceptsShift o = true) ∧ ((sub n o).isSome = true ↔ acceptsShift o = true) :=
  ⟨add_isSome_iff n o, sub_isSome_iff n o⟩

/-! ## 3. connectors follow the coordinates; radii only scale -/

/-- **connectors_follow (scaling).** Skeletons / meshes / dotprops: nodes and connectors are mapped by the
*same* per-axis function. -/
theorem connectors_follow_scale {n m : Neuron} {f : Factor} {p : Int} (hk : n.kind ≠ .voxel) :
    (mul n f p = some m → m.pts = n.pts.map (fun c => c.mul f.xyz) ∧ m.conns = n.conns.map (fun c => c.mul f.xyz)) ∧
    (div n f p = some m → m.pts = n.pts.map (fun c => c.div f.xyz) ∧ m.conns = n.conns.map (fun c => c.div f.xyz)) := by
  constructor
  · intro h; obtain ⟨_, rfl⟩ := mul_nonvoxel hk h; exact ⟨rfl, rfl⟩
  · intro h; obtain ⟨_, rfl⟩ := div_nonvoxel hk h; exact ⟨rfl, rfl⟩

/-- **connectors_follow (shifts).** Every type: world coordinates (for voxels `index × voxel size + offset`)
and connectors are shifted by the same vector; units, radii, name, id untouched. -/
theorem connectors_follow_shift {n m : Neuron} {o : Factor} :
    (add n o = some m → worldPts m = (worldPts n).map (fun c => c.add o.xyz) ∧
        m.conns = n.conns.map (fun c => c.add o.xyz) ∧ m.units = n.units ∧ m.radii = n.radii ∧
        m.name = n.name ∧ m.id = n.id) ∧
    (sub n o = some m → worldPts m = (worldPts n).map (fun c => c.sub o.xyz) ∧
        m.conns = n.conns.map (fun c => c.sub o.xyz) ∧ m.units = n.units ∧ m.radii = n.radii ∧
        m.name = n.name ∧ m.id = n.id) := by
  constructor
  · intro h
    obtain ⟨_, rfl⟩ := add_spec h
    by_cases hk : n.kind = .voxel
    · rw [if_pos hk, worldPts_voxel (by simpa using hk), worldPts_voxel hk]
      refine ⟨?_, rfl, rfl, rfl, rfl, rfl⟩
      simp only [List.map_map]
      apply List.map_congr_left; intro v _
      apply V3.ext' <;> simp [V3.add, V3.mul] <;> ring
    · rw [if_neg hk, worldPts_nonvoxel (by simpa using hk), worldPts_nonvoxel hk]
      exact ⟨rfl, rfl, rfl, rfl, rfl, rfl⟩
  · intro h
    obtain ⟨_, rfl⟩ := sub_spec h
    by_cases hk : n.kind = .voxel
    · rw [if_pos hk, worldPts_voxel (by simpa using hk), worldPts_voxel hk]
      refine ⟨?_, rfl, rfl, rfl, rfl, rfl⟩
      simp only [List.map_map]
      apply List.map_congr_left; intro v _
      apply V3.ext' <;> simp [V3.sub, V3.add, V3.mul] <;> ring
    · rw [if_neg hk, worldPts_nonvoxel (by simpa using hk), worldPts_nonvoxel hk]
      exact ⟨rfl, rfl, rfl, rfl, rfl, rfl⟩

/-- **voxel_scale_world.** VoxelNeuron: world coordinates `index × voxel size + offset` and connectors are multiplied
by the same per-axis factor, and the voxel size keeps its SI prefix (since navis 881c0e3 the scaled voxel size is no
longer passed through `to_compact`, which used to re-express it in a new prefix while offset and connectors stayed in
the old one: the statement then needed the hypothesis that the prefix is kept). -/
theorem voxel_scale_world {n m : Neuron} {f : Factor} {p : Int} (hk : n.kind = .voxel)
    (h : mul n f p = some m) :
    worldPts m = (worldPts n).map (fun c => c.mul f.xyz) ∧ m.conns = n.conns.map (fun c => c.mul f.xyz) ∧
      m.units.base = n.units.base := by
  obtain ⟨_, rfl⟩ := mul_voxel hk h
  rw [worldPts_voxel (by simpa using hk), worldPts_voxel hk]
  refine ⟨?_, rfl, rfl⟩
  simp only [List.map_map]
  apply List.map_congr_left; intro v _
  apply V3.ext' <;> simp [V3.add, V3.mul] <;> ring

/-- **radius_scales_only_on_mul_div.** The radius column is multiplied / divided by the radius factor
(`k` for a number, the 4th entry of a 4-vector) when scaling and is untouched by `+` / `-`. -/
theorem radius_scales_only_on_mul_div {n m : Neuron} {f : Factor} {p : Int} (hk : n.kind ≠ .voxel) :
    (mul n f p = some m → m.radii = n.radii.map (fun r => r * f.rad)) ∧
    (div n f p = some m → m.radii = n.radii.map (fun r => r / f.rad)) ∧
    (add n f = some m → m.radii = n.radii) ∧ (sub n f = some m → m.radii = n.radii) := by
  refine ⟨?_, ?_, ?_, ?_⟩
  · intro h; obtain ⟨_, rfl⟩ := mul_nonvoxel hk h; rfl
  · intro h; obtain ⟨_, rfl⟩ := div_nonvoxel hk h; rfl
  · intro h; exact (connectors_follow_shift.1 h).2.2.2.1
  · intro h; exact (connectors_follow_shift.2 h).2.2.2.1

/-! ## 4. convert_units -/

/-- **convert_units_spec.** For skeletons, meshes, dotprops with a length unit (isometric or per axis): the resulting
unit has the physical value of exactly one target unit on every axis — and is literally `1 <target>` when
`to_compact` lands on the target prefix —, physical coordinates and connectors are preserved, radii too (radius ×
x-unit: for per-axis units the radius column is converted like x, navis 549685a), name and id are kept. -/
theorem convert_units_spec {n m : Neuron} {tgt p : Int} (hk : n.kind ≠ .voxel)
    (h : convertUnits n tgt p = some m) :
    m.units.phys = V3.rep (pow10 tgt) ∧ (p = tgt → m.units = ⟨V3.rep 1, .metre tgt⟩) ∧
      physPts m = physPts n ∧ physConns m = physConns n ∧
      physRadii m = physRadii n ∧ m.name = n.name ∧ m.id = n.id :=
  convert_spec hk h

/-- `convert_units` is defined for every skeleton, mesh and dotprops with non-zero length units, per-axis units
included (skeletons since navis 549685a: `TreeNeuron.__mul__` accepts the x/y/z array of conversion factors). -/
theorem convert_units_defined {n : Neuron} {tgt p e : Int} (hk : n.kind ≠ .voxel)
    (hb : n.units.base = .metre e) (hnz : n.units.mag.nz = true) :
    (convertUnits n tgt p).isSome = true :=
  convert_isSome hk hb hnz

/-- Dimensionless neurons cannot be converted (pint raises `DimensionalityError`). -/
theorem convert_units_dimensionless (n : Neuron) (tgt p : Int) (h : n.units.base = .dimless) :
    convertUnits n tgt p = none := by
  simp [convertUnits, convFactor, h]

/-! ## 5. map_units -/

/-- **map_units_physical.** For a neuron with isometric units `m × 10^en` metres, `m > 0`, and a length
`a × 10^e` metres: the mapped number times the neuron's unit is the given length, up to `round_smart`'s
rounding of the ratio to `d = smartDecimals ratio` decimals (half a unit of the last kept decimal). -/
theorem map_units_physical {n : Neuron} {a r : Rat} {e : Int} (h : mapUnits n (.qty a (.metre e)) = some r)
    (hm : 0 < n.units.mag.x) :
    let d := smartDecimals (mapRatio n.units a e)
    a * pow10 e - n.units.phys.x / (2 * (10 : Rat) ^ d) ≤ r * n.units.phys.x ∧
      r * n.units.phys.x ≤ a * pow10 e + n.units.phys.x / (2 * (10 : Rat) ^ d) := by
  intro d
  obtain ⟨hd, _, hr⟩ := mapUnits_qty h
  obtain ⟨en, hb⟩ := not_dimensionless hd
  obtain ⟨h1, h2⟩ := roundSmart_spec hr
  have hP : 0 < n.units.phys.x := by
    simp only [Units.phys, V3.mul, V3.rep]; exact mul_pos hm (scale_pos _)
  have hq : mapRatio n.units a e * n.units.phys.x = a * pow10 e := by
    rw [mapRatio_metre hb]; field_simp
  have hT := ten_pow_pos d
  have e1 : (mapRatio n.units a e - 1 / (2 * (10 : Rat) ^ d)) * n.units.phys.x
      = a * pow10 e - n.units.phys.x / (2 * (10 : Rat) ^ d) := by rw [sub_mul, hq]; field_simp
  have e2 : (mapRatio n.units a e + 1 / (2 * (10 : Rat) ^ d)) * n.units.phys.x
      = a * pow10 e + n.units.phys.x / (2 * (10 : Rat) ^ d) := by rw [add_mul, hq]; field_simp
  constructor
  · rw [← e1]; exact mul_le_mul_of_nonneg_right h1 (le_of_lt hP)
  · rw [← e2]; exact mul_le_mul_of_nonneg_right h2 (le_of_lt hP)

/-- **map_units_exact.** When the exact ratio has no more decimals than `round_smart` keeps (the usual case:
`'5 microns'` on an `8 nm` neuron is `625`), the mapping is exact: result × neuron unit = the length. -/
theorem map_units_exact {n : Neuron} {a : Rat} {e en : Int} (hb : n.units.base = .metre en)
    (hiso : n.units.iso = true) (hm : 0 < n.units.mag.x) (z : Int)
    (hz : mapRatio n.units a e * (10 : Rat) ^ smartDecimals (mapRatio n.units a e) = z) :
    ∃ r, mapUnits n (.qty a (.metre e)) = some r ∧ r * n.units.phys.x = a * pow10 e := by
  have hP : 0 < n.units.phys.x := by
    simp only [Units.phys, V3.mul, V3.rep]; exact mul_pos hm (scale_pos _)
  refine ⟨mapRatio n.units a e, ?_, ?_⟩
  · simp only [mapUnits, Units.dimensionless, hb, hiso]
    exact roundSmart_exact z hz
  · rw [mapRatio_metre hb]; field_simp

/-- **map_units_unit_independent.** The mapping depends on the neuron only through the *physical* value of
its unit: neurons in `1 um`, `1000 nm`, `0.001 mm` map every length to the same number. -/
theorem map_units_unit_independent {n1 n2 : Neuron} {e1 e2 : Int} (h1 : n1.units.base = .metre e1)
    (h2 : n2.units.base = .metre e2) (hiso : n1.units.iso = n2.units.iso) (hp : n1.units.phys.x = n2.units.phys.x)
    (a : MapArg) : mapUnits n1 a = mapUnits n2 a := by
  cases a with
  | number v => rfl
  | qty a b =>
    cases b with
    | dimless => simp [mapUnits, Units.dimensionless, h1, h2, hiso]
    | metre e =>
      simp only [mapUnits, Units.dimensionless, h1, h2, hiso, mapRatio_metre h1, mapRatio_metre h2, hp]

/-
History: up to navis df8a1f3 `utils.round_smart` started with `math.log10(num)`, so `to_neuron_space` raised
`ValueError: math domain error` for every length of zero or below (`'0 nm'`, `'-5 nm'`) although the plain numbers pass
through (then stated as `map_units_nonpositive_raises`).  Repaired in navis 0b634c2 (zero has no digits before the
decimal, the sign is ignored when counting them); the model follows the repaired code and the positive statement holds.
-/

/-- **map_units_nonpositive.** On every neuron with isometric length units a length string / quantity of *any* sign
is mapped: zero of any unit is `0` — the same as the plain number `0` —, and a negative length maps like the
positive one with the sign kept (so `heal_skeleton(max_dist='0 nm')`, `prune_twigs(x, '0 um')` … reach their code). -/
theorem map_units_nonpositive {n : Neuron} {e en : Int} (hb : n.units.base = .metre en) (hiso : n.units.iso = true)
    (a : Rat) :
    (mapUnits n (.qty a (.metre e))).isSome = true ∧
    mapUnits n (.qty 0 (.metre e)) = some 0 ∧ mapUnits n (.number 0) = some 0 ∧
    mapUnits n (.qty (-a) (.metre e)) = (mapUnits n (.qty a (.metre e))).map (fun r => -r) := by
  have hneg : mapRatio n.units (-a) e = -(mapRatio n.units a e) := by
    simp only [mapRatio, hb]; ring
  have hz : mapRatio n.units 0 e = 0 := by simp [mapRatio, hb]
  refine ⟨?_, ?_, rfl, ?_⟩
  · simp [mapUnits, Units.dimensionless, hb, hiso, roundSmart]
  · simp only [mapUnits, Units.dimensionless, hb, hiso, hz]; exact roundSmart_zero
  · simp only [mapUnits, Units.dimensionless, hb, hiso, hneg]; exact roundSmart_neg _

/-- Plain numbers pass through; dimensionless or non-isometric neurons reject quantities. -/
theorem map_units_guards (n : Neuron) (v a : Rat) (b : Base) :
    mapUnits n (.number v) = some v ∧
    (n.units.dimensionless = true → mapUnits n (.qty a b) = none) ∧
    (n.units.iso = false → mapUnits n (.qty a b) = none) := by
  refine ⟨rfl, ?_, ?_⟩
  · intro h; simp [mapUnits, h]
  · intro h; simp [mapUnits, h]

/-- `round_smart` is defined for every number (navis 0b634c2) and stays within half a unit of the last decimal it
keeps. -/
theorem round_smart_bound {q r : Rat} (h : roundSmart q = some r) :
    q - 1 / (2 * (10 : Rat) ^ smartDecimals q) ≤ r ∧ r ≤ q + 1 / (2 * (10 : Rat) ^ smartDecimals q) :=
  roundSmart_spec h

theorem round_smart_total (q : Rat) : (roundSmart q).isSome = true ∧ roundSmart (-q) = (roundSmart q).map (fun r => -r) :=
  ⟨roundSmart_isSome q, roundSmart_neg q⟩

/-! ## 6. unit spellings are normalised equivalently -/

/-- **units_normalised.** One unit and the same unit given per axis coincide; `None` is `1 dimensionless`; a
number `v` is `v dimensionless`; per-axis units with different base units are rejected.  (Strings, `pint.Unit`
and `pint.Quantity` all reach the model as `parsed mag base` — pint's parser is external.) -/
theorem units_normalised (a : UnitArg) (v : Rat) :
    setUnits [a, a, a] = setUnits [a] ∧
    setUnits [.none] = setUnits [.parsed 1 .dimless] ∧
    setUnits [.number v] = setUnits [.parsed v .dimless] ∧
    setUnits [.none] = some Units.none ∧
    (∀ b c : UnitArg, a.q.2 ≠ b.q.2 → setUnits [a, b, c] = none) := by
  refine ⟨?_, rfl, rfl, rfl, ?_⟩
  · simp [setUnits, V3.rep]
  · intro b c h; simp [setUnits, h]

/-- Handing a neuron's own units back to the setter (as `units=x.units`) reproduces them. -/
theorem units_roundtrip (u : Units) : setUnits (unitsAsArg u) = some u :=
  setUnits_unitsAsArg u

/-! ## 7. non-scaling operations keep (units, name, id) -/

/-
History: up to navis 37e0d53 the last statement of `TreeNeuron.__init__` / `MeshNeuron.__init__` was an
unconditional `self.units = units`, so `TreeNeuron(x)`, `MeshNeuron(x)`, `prune_distal_to`, `prune_proximal_to`
returned `1 dimensionless` (DESIGN §6 #12; then only a `metadata_preserved_partial` was provable).  Fixed in navis
commit 4ae0b05 (`if units is not None or not hasattr(self, '_unit_str')`); the model follows the repaired code
(`assignUnits`) and the full statement holds.
-/

/-- **metadata_preserved.** Every non-scaling operation class — copying, functions and methods working on a
copy (reroot, cut, subset, prune_*, heal, stitch, re- and downsample …), construction with passed-on metadata
(make_dotprops …), pickling, re-wrapping in the own class, re-initialisation after a cut
(`prune_distal_to` / `prune_proximal_to`) — is defined and returns a neuron with the units, name and id of its
input: for all neurons, all data edits, all fresh uuids drawn on the way. -/
theorem metadata_preserved (n : Neuron) (ids : Int × Int × Int) (op : Op) :
    ∃ m, applyOp n ids op = some m ∧ m.metadata = n.metadata := by
  cases op with
  | copy => exact ⟨_, rfl, rfl⟩
  | onCopy e => exact ⟨_, rfl, rfl⟩
  | construct k e =>
    simp only [applyOp, setUnits_unitsAsArg]
    exact ⟨_, rfl, rfl⟩
  | pickle => exact ⟨_, rfl, rfl⟩
  | rewrap => exact ⟨_, rfl, rfl⟩
  | reinitAfterCut e => exact ⟨_, rfl, rfl⟩

/-- **reinit_explicit_units_override.** `cls(x, units=u)` still overrides: the result carries exactly the
units the setter makes of the argument, and the name and id of `x`. -/
theorem reinit_explicit_units_override (n : Neuron) (a : List UnitArg) (u : Units) (i j : Int)
    (h : setUnits a = some u) :
    ∃ m, reinit n (some a) i j = some m ∧ m.units = u ∧ m.name = n.name ∧ m.id = n.id ∧ m.pts = n.pts := by
  simp only [reinit, assignUnits, h]
  exact ⟨_, rfl, rfl, rfl, rfl, rfl⟩

/-- **from_table_units.** Construction from a bare table: the default gives `1 dimensionless`, an explicit
`units=` gives what the setter makes of it, `name=` / `id=` are taken over. -/
theorem from_table_units (k : Kind) (pts : List V3) (radii : List Rat) (conns : List V3) (name : String) (id : Int) :
    (∃ m, fromTable k pts radii conns none name id = some m ∧ m.units = Units.none ∧ m.name = name ∧ m.id = id) ∧
    (∀ a u, setUnits a = some u →
      ∃ m, fromTable k pts radii conns (some a) name id = some m ∧ m.units = u ∧ m.name = name ∧ m.id = id) := by
  constructor
  · exact ⟨_, rfl, rfl, rfl, rfl⟩
  · intro a u h
    simp only [fromTable, assignUnits, h]
    exact ⟨_, rfl, rfl, rfl, rfl⟩

/-! ## 8. the driver's exact comparison is sound -/

/-- `samePhysB 0` (what the driver evaluates on navis' own output for dyadic data) decides equality of the
physical observables. -/
theorem samePhysB_sound (radii : Bool) (a b : Neuron) :
    samePhysB 0 radii a b = true ↔
      physPts a = physPts b ∧ physConns a = physConns b ∧ (radii = true → physRadii a = physRadii b) := by
  unfold samePhysB
  cases radii <;> simp [closeL_zero, closeRL_zero, and_assoc]

/-! ## 10. physical quantities after a *history* (cached distance views, path sums)

`Skel` = skeleton + parent rows + cached views (`Model/UnitsHist.lean`); `step` / `runHist` = warming views,
`* / *= /= + - += -=` with any accepted operand, `convert_units`, in any order and number.  Which cached attributes an
operator deletes is read from the **generated** `Gen.Units.opFacts` / `Gen.Units.treeTempAttr` (the literals of the
current source): `gen_clears_distance_caches` is the proof obligation that stops checking when an operator starts
to keep a distance-carrying view (e.g. `exclude=[…, '_igraph', '_graph_nx']`).
-/

/-- **gen_clears_distance_caches** (over the generated operator table).  In the current source, the
`_clear_temp_attr` that ends `TreeNeuron.__mul__ / __truediv__` is applied to the returned object and deletes every
cached view whose content depends on edge lengths or coordinates (`_igraph`, `_graph_nx`, `_geodesic_matrix`,
`_cable_length`, `_segments`, `_adjacency_matrix`, `_simple`: each is in `TEMP_ATTR` and not in the literal
`exclude`); the one that ends `__add__ / __sub__` deletes the coordinate-carrying `_simple`. -/
theorem gen_clears_distance_caches : GenFacts := ⟨by decide, by decide, by decide, by decide⟩

/-- a freshly built skeleton (no cached view) is coherent -/
theorem fresh_coherent (n : Neuron) (par : List Int) : Coherent ⟨n, par, []⟩ := by
  intro e he; simp at he

/-- **history_invariant.** For every skeleton, every history (any number of steps; numbers, 4-vectors, offsets,
any `to_compact` prefix, `convert_units`, views warmed at any point): if the history is defined, the cached views
of the result all reflect the result's node table, and the *physical* edge vectors (child − parent) × units — per
axis — are those of the neuron the history started from; topology, name and id are untouched. -/
theorem history_invariant {s s' : Skel} {h : List Step} (hk : s.nrn.kind ≠ .voxel) (hc : Coherent s)
    (hr : runHist s h = some s') :
    Coherent s' ∧ physEdges s' = physEdges s ∧ s'.par = s.par ∧ s'.nrn.name = s.nrn.name ∧ s'.nrn.id = s.nrn.id := by
  obtain ⟨i, c⟩ := runHist_inv gen_clears_distance_caches hk hr
  exact ⟨c hc, i.phys, i.par, i.name, i.id⟩

/-- **history_distance_views.** Edge weights seen through *any* distance view (`.igraph`, `.graph`,
`.geodesic_matrix`, `.cable_length`, `.segments`, cached before, during or after the history) of the result, times
the result's unit, equal the weights of the original times its unit — for every edge-length function `len` that is
homogeneous on the edges (`len (k·d) = k · len d`, `k` = the unit: the Euclidean norm, see `history_euclid`), whenever
both ends of the history have isometric units. -/
theorem history_distance_views {α : Type} [Semiring α] (cast : Rat → α) (len : V3 → α) {s s' : Skel} {h : List Step}
    (hk : s.nrn.kind ≠ .voxel) (hc : Coherent s) (hr : runHist s h = some s')
    (hiso : s.nrn.units.iso = true) (hiso' : s'.nrn.units.iso = true)
    (hlen : ∀ d ∈ edgeVecs s.nrn.pts s.par, len (d.mul (V3.rep s.nrn.units.phys.x)) = cast s.nrn.units.phys.x * len d)
    (hlen' : ∀ d ∈ edgeVecs s'.nrn.pts s'.par, len (d.mul (V3.rep s'.nrn.units.phys.x)) = cast s'.nrn.units.phys.x * len d)
    {a b : String} (ha : a ∈ weightViews) (hb : b ∈ weightViews) :
    (viewW len s' a).map (fun w => cast s'.nrn.units.phys.x * w) = (viewW len s b).map (fun w => cast s.nrn.units.phys.x * w) := by
  obtain ⟨hc', hp, _⟩ := history_invariant hk hc hr
  rw [viewW_of_coherent len hc' ha, viewW_of_coherent len hc hb, ← weights_phys cast len s' hlen' hiso',
    ← weights_phys cast len s hlen hiso, hp]

/-- **history_path_sums.** Hence every *linear* distance observable `g` (sums of edge weights along paths:
`dist_to_root`, `dist_between`, rows of the geodesic matrix, segment lengths, cable length — `pathToRoot_linear`,
`cable_linear`, closed under `+` and `−`) of the result, times the result's unit, equals that of the original times
its unit. -/
theorem history_path_sums {α : Type} [Semiring α] (cast : Rat → α) (len : V3 → α) {s s' : Skel} {h : List Step}
    (hk : s.nrn.kind ≠ .voxel) (hc : Coherent s) (hr : runHist s h = some s')
    (hiso : s.nrn.units.iso = true) (hiso' : s'.nrn.units.iso = true)
    (hlen : ∀ d ∈ edgeVecs s.nrn.pts s.par, len (d.mul (V3.rep s.nrn.units.phys.x)) = cast s.nrn.units.phys.x * len d)
    (hlen' : ∀ d ∈ edgeVecs s'.nrn.pts s'.par, len (d.mul (V3.rep s'.nrn.units.phys.x)) = cast s'.nrn.units.phys.x * len d)
    {a b : String} (ha : a ∈ weightViews) (hb : b ∈ weightViews) (g : List α → α) (hg : LinearObs g) :
    cast s'.nrn.units.phys.x * g (viewW len s' a) = cast s.nrn.units.phys.x * g (viewW len s b) := by
  rw [← hg, ← hg, history_distance_views cast len hk hc hr hiso hiso' hlen hlen' ha hb]

/-- distance to the root of every row and the cable length are such observables -/
theorem path_sums_are_linear {α : Type} [Semiring α] (par : List Int) (fuel i : Nat) :
    LinearObs (fun w : List α => pathToRoot w par fuel i) ∧ LinearObs (cable (α := α)) :=
  ⟨pathToRoot_linear par fuel i, cable_linear⟩

/-- **history_euclid.** The statement for the real Euclidean edge length: for units of positive size the
homogeneity hypotheses hold, so after any history `√(Δx²+Δy²+Δz²)`-path sums × units are unchanged. -/
theorem history_euclid {s s' : Skel} {h : List Step} (hk : s.nrn.kind ≠ .voxel) (hc : Coherent s)
    (hr : runHist s h = some s') (hiso : s.nrn.units.iso = true) (hiso' : s'.nrn.units.iso = true)
    (hpos : 0 < s.nrn.units.phys.x) (hpos' : 0 < s'.nrn.units.phys.x)
    {a b : String} (ha : a ∈ weightViews) (hb : b ∈ weightViews) (g : List ℝ → ℝ) (hg : LinearObs g) :
    (s'.nrn.units.phys.x : ℝ) * g (viewW enorm s' a) = (s.nrn.units.phys.x : ℝ) * g (viewW enorm s b) :=
  history_path_sums (fun q : Rat => (q : ℝ)) enorm hk hc hr hiso hiso'
    (fun d _ => enorm_homog d hpos) (fun d _ => enorm_homog d hpos') ha hb g hg

/-- **scale_euclid_any_sign.** One multiplication by a number `k ≠ 0` of *either sign* (a negative factor mirrors the
neuron and makes the unit negative): every Euclidean edge length — hence every path sum — times the *absolute* unit
is unchanged. -/
theorem scale_euclid_any_sign {n m : Neuron} {k : Rat} {p : Int} (hk : n.kind ≠ .voxel) (h : mul n (.s k) p = some m)
    (par : List Int) :
    (weights enorm ⟨m, par, []⟩).map (fun w => w * |((m.units.phys.x : Rat) : ℝ)|) =
      (weights enorm ⟨n, par, []⟩).map (fun w => w * |((n.units.phys.x : Rat) : ℝ)|) :=
  mul_scalar_weights_abs hk h par

/-- The executable edge length `elen` (exact rational root) is the Euclidean norm on vectors of rational length
and is homogeneous there — this is what the driver evaluates on the harness' integer-length edges. -/
theorem elen_is_euclid {v : V3} {r : Rat} (hr : 0 ≤ r) (hv : normSq v = r * r) :
    enorm v = ((elen v : Rat) : ℝ) ∧ ∀ k : Rat, 0 < k → elen (v.mul (V3.rep k)) = k * elen v :=
  ⟨enorm_eq_elen hr hv, fun _ hk => elen_homog hr hv hk⟩

/-- **histPhysB_sound.** The checker the driver evaluates on navis' own edge weights `w` (tolerance 0) says exactly:
`w × unit of the result` = lengths of the physical edge vectors of the original. -/
theorem histPhysB_sound (s0 : Skel) (u : Units) (w : List Rat) :
    histPhysB 0 s0 u w = true ↔ w.map (fun x => x * u.phys.x) = (physEdges s0).map elen := by
  unfold histPhysB; exact allClose_zero _ _

theorem histPathB_sound (s0 : Skel) (u : Units) (d : List Rat) :
    histPathB 0 s0 u d = true ↔ d.map (fun x => x * u.phys.x) =
      (List.range s0.par.length).map (pathToRoot ((physEdges s0).map elen) s0.par s0.par.length) := by
  unfold histPathB; exact allClose_zero _ _

theorem histCableB_sound (s0 : Skel) (u : Units) (c : Rat) :
    histCableB 0 s0 u c = true ↔ c * u.phys.x = cable ((physEdges s0).map elen) := by
  unfold histCableB; exact relClose_zero _ _

/-- **model_passes_histPhysB.** The model's own views pass the checker after every history: for a coherent start
with rational edge lengths at both ends and isometric positive units at the end, the weights any distance view of
the result returns satisfy `histPhysB 0` against the start. -/
theorem model_passes_histPhysB {s s' : Skel} {h : List Step} (hk : s.nrn.kind ≠ .voxel) (hc : Coherent s)
    (hr : runHist s h = some s') (hiso' : s'.nrn.units.iso = true) (hpos' : 0 < s'.nrn.units.phys.x)
    (hx' : exactEdges s' = true) {a : String} (ha : a ∈ weightViews) :
    histPhysB 0 s s'.nrn.units (viewW elen s' a) = true := by
  obtain ⟨hc', hp, _⟩ := history_invariant hk hc hr
  rw [histPhysB_sound, viewW_of_coherent elen hc' ha, ← hp,
    weights_phys (fun q => q) elen s' (elen_homog_on_exact hx' hpos') hiso']
  apply List.map_congr_left; intro w _; exact mul_comm _ _

/-! ## 11. the operators as extracted from the current source are the model operators

`Gen.Units.opFacts` is regenerated from `navis/core/{skeleton,mesh,dotprop,voxel}.py` on every check: per class and
operator, which data are rewritten with which arithmetic operator, what is done to the connector columns and to
`.units` (`n.units = (n.units <op> other).to_compact()`), the operand-length guard, `other = other[:3]`, the returned
object.  `applyFact` (Model/UnitsSpec.lean) interprets a row on the C15 neuron model. -/

/-- **gen_operator_table.** The semantic fields of the 16 extracted rows are exactly the table that the
hand-written `mul / div / add / sub` implement: coordinates (and `radius` for skeletons when scaling) and
connectors rewritten with the operator, units rescaled with the *inverse* operator and compacted (voxels: the same
operator — the known deviation), `+`/`-` leave radii and units alone, skeletons demand 4 (scaling) / 3 (shift)
components — 3 scaling components are padded with the x component for the radius (navis 549685a) — and drop the 4th
before the connectors. -/
theorem gen_operator_table : Gen.Units.opFacts.map factCore = expectedTable := by decide

/-- **operators_as_extracted.** For every extracted row `f` of class `k` and operator `op`, every neuron of that
class (with a radius column only on skeletons), every operand and prefix: interpreting the row gives exactly the model
operator — so sections 1–4 and 10 are statements about the operators as written in the current source. -/
theorem operators_as_extracted {f : Gen.Units.OpFact} (hf : f ∈ Gen.Units.opFacts) {k : Kind} {op : OpK}
    (hc : f.cls = clsOf k) (ho : f.op = op.name) (n : Neuron) (a : Factor) (p : Int) (hk : n.kind = k)
    (hr : RadiiOnlyOnTrees n) : applyFact f n a p = modelOp op n a p :=
  table_rows_are_model gen_operator_table hf hc ho n a p hk hr

/-- every (class, operator) pair has a row (the statement above is not vacuous) -/
theorem operator_rows_complete (k : Kind) (op : OpK) :
    ∃ f ∈ Gen.Units.opFacts, f.cls = clsOf k ∧ f.op = op.name := by
  cases k <;> cases op <;> decide

/-- **gen_dotprops_drop_kdtree.** Every `Dotprops` operator deletes the cached KD-tree (`delattr(n, '_tree')`) of the
object it returns — `Dotprops` has no content hash that would catch a stale tree after `x *= k`. -/
theorem gen_dotprops_drop_kdtree : ∀ f ∈ Gen.Units.opFacts, f.cls = "Dotprops" → f.dropsKdTree = true := by decide

/-! ## 12. `config.add_units = True`: unit-carrying properties -/

/-- **gen_add_units.** In the current source the `add_units` wrapper multiplies the raw value by
`np.power(self.units, power)` — the *quantity* (magnitude included), not the bare unit —, only for neurons with
non-dimensionless units, and compacts under `if compact:`; the decorated properties carry the power of their
dimension: cable length 1, surface area 2, volumes 3.  `VoxelNeuron.volume` returns a quantity by itself and is *not*
decorated (since navis afa4901; before, the units were applied twice: length⁶). -/
theorem gen_add_units :
    Gen.Units.addUnitsFactor = "np.power(self.units, power)" ∧
    Gen.Units.addUnitsGuard = "config.add_units and self.has_units and (not self.units.dimensionless)" ∧
    Gen.Units.addUnitsCompactsWhenAsked = true ∧
    addUnitsPower "TreeNeuron" "cable_length" = some 1 ∧ addUnitsPower "TreeNeuron" "surface_area" = some 2 ∧
    addUnitsPower "TreeNeuron" "volume" = some 3 ∧ addUnitsPower "MeshNeuron" "volume" = some 3 ∧
    addUnitsPower "VoxelNeuron" "volume" = none := by decide

/-- **add_units_scale_invariant.** A quantity of dimension length^`d` (its raw value scales with `k^d` when the
coordinates are multiplied / divided by a number `k ≠ 0`) is reported by an `@add_units(power=d)` property as the same
physical quantity before and after scaling — per axis too —, for every prefix `to_compact` picks. -/
theorem add_units_scale_invariant {n m : Neuron} {k : Rat} {p : Int} (hk : n.kind ≠ .voxel) (d : Nat) (raw : Rat) :
    (mul n (.s k) p = some m → addUnitsPhys d m.units (raw * k ^ d) = addUnitsPhys d n.units raw) ∧
    (div n (.s k) p = some m → addUnitsPhys d m.units (raw / k ^ d) = addUnitsPhys d n.units raw) :=
  ⟨fun h => addUnitsPhys_mul hk h d raw, fun h => addUnitsPhys_div hk h d raw⟩

/-
History: up to navis 3dcd5b6 `VoxelNeuron.volume` multiplied the voxel count by `units_xyz[0] * units_xyz[2] * units_xyz[2]`
(y ignored, z twice) and was additionally wrapped in `@add_units(power=3)` although it already returns a quantity (length⁶
with `config.add_units = True`).  Repaired in navis b141c1f and afa4901; the generated facts follow the repaired source.
-/

/-- **voxel_volume_spec.** With the axes the current source multiplies (`[0, 1, 2]`, each once) the volume of a
VoxelNeuron is `nnz · ux · uy · uz` in metres³ — per-axis voxel sizes included —, the property carries exactly three
powers of length and is independent of `config.add_units` (it is not an `add_units` site). -/
theorem voxel_volume_spec (u : Units) (nnz : Nat) :
    Gen.Units.voxelVolumeAxes = [0, 1, 2] ∧ Gen.Units.voxelVolumeCount = "self.nnz" ∧
    voxelVolume u nnz = (nnz : Rat) * u.phys.x * u.phys.y * u.phys.z ∧
    addUnitsPower "VoxelNeuron" "volume" = none := by
  refine ⟨by decide, by decide, ?_, by decide⟩
  simp [voxelVolume, voxelVolumeBy, Gen.Units.voxelVolumeAxes, V3.axis]

/-- `x * k` on a VoxelNeuron (which scales the voxel size, see `voxel_scale_world`) multiplies the volume by `k³`. -/
theorem voxel_volume_scales {n m : Neuron} {k : Rat} {p : Int} (hk : n.kind = .voxel) (h : mul n (.s k) p = some m)
    (nnz : Nat) : voxelVolume m.units nnz = k ^ 3 * voxelVolume n.units nnz := by
  obtain ⟨_, rfl⟩ := mul_voxel hk h
  simp [voxelVolume, voxelVolumeBy, Gen.Units.voxelVolumeAxes, V3.axis, Units.phys, V3.mul, V3.rep, Factor.xyz]
  ring

/-- the checker the driver evaluates on the reported voxel volume is exact at tolerance 0 -/
theorem voxelVolumeB_sound (u : Units) (nnz dim : Nat) (q : Rat) :
    voxelVolumeB 0 u nnz dim q = true ↔ dim = 3 ∧ q = (nnz : Rat) * u.phys.x * u.phys.y * u.phys.z := by
  unfold voxelVolumeB
  rw [(voxel_volume_spec u nnz).2.2.1]
  simp [relClose_zero, Gen.Units.voxelVolumeAxes]

-- one voxel of `(4, 8, 40) nm`: 1280 nm³ (was 6400 with x·z·z)
example : voxelVolume ⟨⟨4, 8, 40⟩, .metre (-9)⟩ 1 = 1280 * pow10 (-9) ^ 3 := by decide +kernel

/-- the checker the driver evaluates on the reported quantity (converted to base units by pint) is exact at tolerance 0 -/
theorem addUnitsB_sound (d : Nat) (u : Units) (raw : Rat) (q : V3) :
    addUnitsB 0 d u raw q = true ↔ q = addUnitsPhys d u raw :=
  addUnitsB_zero d u raw q

-- the seeded change `res * self.units.units ** power` (bare unit) on an `8 nm` skeleton with raw cable length 5:
-- 5 nm instead of 40 nm
example : addUnitsPhys 1 ⟨V3.rep 8, .metre (-9)⟩ 5 = V3.rep (40 * pow10 (-9)) ∧
    addUnitsPhys 1 ⟨V3.rep 1, .metre (-9)⟩ 5 ≠ addUnitsPhys 1 ⟨V3.rep 8, .metre (-9)⟩ 5 := by decide +kernel

/-- **gen_make_dotprops_metadata.** In `make_dotprops` every neuron branch hands `name` and `id` (and `units`, for
skeletons, meshes and dotprops; the voxel branch re-expresses the unit) to the new Dotprops *before* its first `return`
— the `k = 0 / None` early return of the skeleton branch included — which is the `construct` class of
`metadata_preserved`. -/
theorem gen_make_dotprops_metadata :
    (∀ c ∈ ["TreeNeuron", "MeshNeuron", "Dotprops"], ∃ e ∈ Gen.Units.makeDotpropsMeta,
      e.1 = c ∧ e.2.1 = true ∧ "units" ∈ e.2.2 ∧ "name" ∈ e.2.2 ∧ "id" ∈ e.2.2) ∧
    (∃ e ∈ Gen.Units.makeDotpropsMeta, e.1 = "VoxelNeuron" ∧ e.2.1 = true ∧ "name" ∈ e.2.2 ∧ "id" ∈ e.2.2) := by
  decide

/-- **gen_unit_handling.** Further literals of the current source that the model hard-wires and the property depends
on: `convert_units` multiplies by `n.units.to(to).magnitude`; `to_neuron_space` converts the length to
`neuron.units`, divides by `neuron.units.magnitude` and rounds with `round_smart` (default precision 8), and rejects
dimensionless and non-isometric neurons; the units setter accepts 1 or 3 entries, rewrites `micron(s)` to `um` (in any order:
pint reads `ums` as the plural) and turns a number `v` into `"v dimensionless"`; `TreeNeuron.__init__` / `MeshNeuron.__init__` assign `units` last and
only when given or not yet present (navis 4ae0b05). -/
theorem gen_unit_handling :
    Gen.Units.convertOp = "*" ∧ Gen.Units.convertFactor = "n.units.to(to).magnitude" ∧
    Gen.Units.mapToTarget = "neuron.units" ∧ Gen.Units.mapDivisor = "neuron.units.magnitude" ∧
    Gen.Units.mapRounding = "round_smart" ∧ Gen.Units.roundSmartPrec = 8 ∧
    Gen.Units.mapDimlessGuard = true ∧ Gen.Units.mapIsoGuard = true ∧
    Gen.Units.unitsAllowedLens = [1, 3] ∧ ("micron", "um") ∈ Gen.Units.unitsSpellingFix ∧
    (∀ kv ∈ Gen.Units.unitsSpellingFix, kv.2 = "um" ∧ (kv.1 = "micron" ∨ kv.1 = "microns")) ∧
    Gen.Units.unitsNumberTemplate = "{} dimensionless" ∧
    (∀ e ∈ Gen.Units.initUnits, (e.1 = "TreeNeuron" ∨ e.1 = "MeshNeuron") →
      e.2.1 = true ∧ e.2.2.1 = true ∧ e.2.2.2 = "units is not None or not hasattr(self, '_unit_str')") := by
  decide

/-! ## 9. non-vacuity and witnesses (concrete data, evaluated by the kernel) -/

section Examples

/-- 3-node skeleton in `8 nm`, one connector, radii 1/100. -/
def exTree : Neuron :=
  ⟨.tree, [⟨0, 0, 0⟩, ⟨4, 0, 0⟩, ⟨4, 3, 5⟩], [1/100, 1/100, 1/50], [⟨4, 1, 0⟩], V3.rep 0,
   ⟨V3.rep 8, .metre (-9)⟩, "n", 77⟩

def exMeshAniso : Neuron :=
  ⟨.mesh, [⟨0, 0, 0⟩, ⟨4, 0, 0⟩, ⟨0, 4, 0⟩, ⟨0, 0, 4⟩], [], [⟨4, 1, 0⟩], V3.rep 0,
   ⟨⟨4, 4, 40⟩, .metre (-9)⟩, "m", 78⟩

def exVoxel : Neuron :=
  ⟨.voxel, [⟨0, 0, 0⟩, ⟨1, 0, 0⟩, ⟨0, 2, 3⟩], [], [⟨4, 1, 0⟩], ⟨10, 20, 30⟩,
   ⟨V3.rep 8, .metre (-9)⟩, "v", 80⟩

-- the operations are defined on these inputs (hypotheses of the theorems above are satisfiable)
example : (mul exTree (.s (5/2)) (-9)).isSome = true := by decide +kernel
example : (mul exTree (.v4 ⟨2, 4, 8⟩ 2) (-9)).isSome = true := by decide +kernel
example : (mul exMeshAniso (.v3 ⟨2, 4, 8⟩) (-9)).isSome = true := by decide +kernel
example : (div exTree (.s 1000) (-6)).isSome = true := by decide +kernel
example : (add exTree (.v3 ⟨1, 2, 3⟩)).isSome = true := by decide +kernel
example : (convertUnits exTree (-6) (-6)).isSome = true := by decide +kernel
example : (convertUnits exMeshAniso (-6) (-6)).isSome = true := by decide +kernel
-- '5 microns' on the 8 nm skeleton is 625
example : mapUnits exTree (.qty 5 (.metre (-6))) = some 625 := by decide +kernel
-- `8 nm` → `um`: unit is `1 um`, x of node 2 is 4·8/1000
example : (convertUnits exTree (-6) (-6)).map (fun m => (m.units, m.pts.map (·.x))) =
    some (⟨V3.rep 1, .metre (-6)⟩, [0, 4 * 8 / 1000, 4 * 8 / 1000]) := by decide +kernel
-- operand shapes that raise: 4-vectors on meshes, zero factors, 4-vector offsets
example : mul exMeshAniso (.v4 ⟨2, 4, 8⟩ 2) (-9) = none ∧ mul exTree (.s 0) (-9) = none ∧
    add exTree (.v4 ⟨1, 2, 3⟩ 4) = none := by decide +kernel
-- x/y/z operands on a skeleton (navis 549685a): the radius follows x
example : (mul exTree (.v3 ⟨2, 4, 8⟩) (-9)).map (fun m => (m.radii, m.units.mag)) =
    some ([2 / 100, 2 / 100, 2 / 50], ⟨4, 2, 1⟩) := by decide +kernel

/-
History: up to navis df8a1f3 `TreeNeuron.__mul__` accepted only numbers and 4-vectors, so `convert_units` (which
multiplies by the x/y/z array of conversion factors) raised for every skeleton with per-axis units (then the witness
`convert_units_tree_anisotropic_raises`).  Repaired in navis 549685a (3 multipliers are x/y/z, the radius is scaled
like x); the model follows the repaired code.
-/

/-- **convert_units_tree_anisotropic (witness).** A skeleton with units `(4, 4, 40) nm` converts to `1 um` on every
axis: `z` is scaled ten times as much as `x`, `y`; the radius like `x`. -/
theorem convert_units_tree_anisotropic :
    (convertUnits { exTree with units := ⟨⟨4, 4, 40⟩, .metre (-9)⟩ } (-6) (-6)).map
      (fun m => (m.units, m.pts, m.radii)) =
    some (⟨V3.rep 1, .metre (-6)⟩, [⟨0, 0, 0⟩, ⟨4 * 4 / 1000, 0, 0⟩, ⟨4 * 4 / 1000, 3 * 4 / 1000, 5 * 40 / 1000⟩],
          [1 / 100 * (4 / 1000), 1 / 100 * (4 / 1000), 1 / 50 * (4 / 1000)]) := by decide +kernel

/-- **rewrap_witness.** On the `8 nm` skeleton: `TreeNeuron(x)` and the `prune_distal_to` flow keep `8 nm`;
`TreeNeuron(x, units='1 um')` gives `1 um`; a bare table gives `1 dimensionless`, a table with
`units='8 nm'` gives `8 nm`. -/
theorem rewrap_witness :
    (applyOp exTree (1, 2, 3) .rewrap).map (·.units) = some exTree.units ∧
    (applyOp exTree (1, 2, 3) (.reinitAfterCut ⟨fun l => l.take 2, fun l => l.take 2, id⟩)).map (·.units)
      = some exTree.units ∧
    (reinit exTree (some [.parsed 1 (.metre (-6))]) 1 2).map (·.units) = some ⟨V3.rep 1, .metre (-6)⟩ ∧
    (fromTable .tree exTree.pts exTree.radii [] none "t" 5).map (·.units) = some Units.none ∧
    (fromTable .tree exTree.pts exTree.radii [] (some [.parsed 8 (.metre (-9))]) "t" 5).map (·.units)
      = some exTree.units := by decide +kernel

/-- **voxel_scale_not_invariant (witness, known finding).** For a `VoxelNeuron`, `x * 2` doubles the physical
world coordinates (units `8 nm → 16 nm`, same indices) instead of keeping them. -/
theorem voxel_scale_not_invariant :
    (mul exVoxel (.s 2) (-9)).map physPts ≠ some (physPts exVoxel) ∧
    (mul exVoxel (.s 2) (-9)).map (fun m => m.units.mag) = some (V3.rep 16) := by decide +kernel

/-- **voxel_convert_units_wrong (witness, known finding).** `convert_units('um')` on an `8 nm` VoxelNeuron
yields a voxel size of `0.064 nm` (64 pm) — neither `um` nor the original voxel size. -/
theorem voxel_convert_units_wrong :
    (convertUnits exVoxel (-6) (-12)).map (fun m => m.units) = some ⟨V3.rep (64 / 1000), .metre (-9)⟩ := by decide +kernel

/-
History: up to navis df8a1f3 `VoxelNeuron.__mul__/__truediv__` applied `to_compact()` to the scaled voxel size; `x * 1000`
on an `8 nm` neuron with offset 10 gave a voxel size of `8 um` with offset and connectors still numerically in nm
(witness `voxel_compact_mixes_prefixes`).  Repaired in navis 881c0e3; the model follows the repaired code.
-/

/-- **voxel_scale_keeps_prefix (witness).** `x * 1000` on the `8 nm` VoxelNeuron with offset `(10, 20, 30)`: voxel size
`8000 nm`, offset `(10000, 20000, 30000)` nm, world coordinates exactly the old ones times 1000. -/
theorem voxel_scale_keeps_prefix :
    (mul exVoxel (.s 1000) (-6)).map (fun m => (m.units, m.offset)) =
      some (⟨V3.rep 8000, .metre (-9)⟩, ⟨10000, 20000, 30000⟩) ∧
    (mul exVoxel (.s 1000) (-6)).map worldPts = some ((worldPts exVoxel).map (fun c => c.mul (V3.rep 1000))) := by
  decide +kernel

end Examples

end Navis.Props.C15
