import NavisModel.Proofs.VoxelLemmas
import NavisModel.Proofs.DotpropsLemmas
import NavisModel.Gen.Conv
/-!
# C19 — conversions between representations are geometrically faithful

Property theorems only; helper lemmas live in `Proofs/VoxelLemmas.lean`, the executable model in
`Model/Voxel.lean`.  Vocabulary:

* `roundHalfEven q` — numpy's `round`; `Grid` — per-axis `pitch`, bounds `lo`/`hi` (default: the neuron's bounding
  box) and the unit magnitudes `u` of the input neuron; `PosGrid g` — all pitches and unit magnitudes positive.
* `voxIdx g p` — the voxel index `neuron2voxels` computes for point `p`: `round(p/pitch) − round(lo/pitch)` per axis;
  `shape g` — `ceil(hi/pitch) − floor(lo/pitch) + 1`; `inGrid g v` — `0 ≤ v < shape`; `filled g pts` — the distinct
  in-grid voxels (the `True` cells); `counts g pts` — the same voxels with the number of points per voxel.
* `coord g v = gridOffset g + v · gridUnits g` — where the resulting `VoxelNeuron` puts voxel `v`
  (`offset = lo/pitch·pitch·u`, `units = pitch·u`); a point `p` of the input sits at `u · p` in that space.
* `tangents t` — `neuron2tangents` on a node table `t` before normalisation.

Validated by correspondence only (external numerics): KD-tree neighbour search, SVD (principal axis and singular
values), the normalisation `vect / |vect|`, marching cubes, tube meshing, skeletonisation.
-/
namespace Navis.Props.C19
open Navis.Voxel

/-! ## 1. rounding -/

/-- **roundHalfEven_spec.** The rounded value is within ½ of the argument, exact ties go to the even neighbour,
and whenever an integer is strictly nearer than ½ it is the result. -/
theorem roundHalfEven_spec (q : Rat) :
    ((roundHalfEven q : Rat) - q ≤ 1 / 2 ∧ q - (roundHalfEven q : Rat) ≤ 1 / 2) ∧
    (q - (q.floor : Rat) = 1 / 2 → roundHalfEven q % 2 = 0) ∧
    (∀ n : Int, (n : Rat) - q < 1 / 2 → q - (n : Rat) < 1 / 2 → roundHalfEven q = n) :=
  ⟨⟨round_upper q, round_lower q⟩, round_tie_even q, fun n h1 h2 => round_nearest q n h1 h2⟩

/-- Rounding is monotone and fixes integers (the two facts the index bounds rest on). -/
theorem roundHalfEven_mono_fix : (∀ a b : Rat, a ≤ b → roundHalfEven a ≤ roundHalfEven b) ∧
    (∀ n : Int, roundHalfEven (n : Rat) = n) :=
  ⟨fun _ _ h => round_mono h, round_intCast⟩

example : roundHalfEven (1 / 2) = 0 ∧ roundHalfEven (3 / 2) = 2 ∧ roundHalfEven (5 / 2) = 2 ∧
    roundHalfEven (-1 / 2) = 0 ∧ roundHalfEven (-3 / 2) = -2 ∧ roundHalfEven (7 / 4) = 2 ∧
    roundHalfEven (-5 / 4) = -1 := by decide +kernel

/-! ## 2. voxelisation -/

/-- **voxel_within_pitch.** Every point — inside the bounds or not — lies, on every axis, within one voxel size of
the coordinate at which the `VoxelNeuron` places the voxel computed for it (both measured in the grid's space:
the point at `u·p`, the voxel at `offset + idx·units`).  The bound is one full pitch, not half, because the code
rounds the point and the lower bound separately and does not snap the offset to the grid. -/
theorem voxel_within_pitch (g : Grid) (hg : PosGrid g) (p : P3) :
    (g.u.x * p.x - (coord g (voxIdx g p)).x ≤ (gridUnits g).x ∧ -(gridUnits g).x ≤ g.u.x * p.x - (coord g (voxIdx g p)).x) ∧
    (g.u.y * p.y - (coord g (voxIdx g p)).y ≤ (gridUnits g).y ∧ -(gridUnits g).y ≤ g.u.y * p.y - (coord g (voxIdx g p)).y) ∧
    (g.u.z * p.z - (coord g (voxIdx g p)).z ≤ (gridUnits g).z ∧ -(gridUnits g).z ≤ g.u.z * p.z - (coord g (voxIdx g p)).z) :=
  ⟨within1 _ _ _ _ hg.1.1 hg.2.1, within1 _ _ _ _ hg.1.2.1 hg.2.2.1, within1 _ _ _ _ hg.1.2.2 hg.2.2.2⟩

/-- **voxel_in_bounds.** A point inside the requested bounds (inclusive) gets an index inside the grid:
`0 ≤ idx < shape` on every axis, so it is never dropped. -/
theorem voxel_in_bounds (g : Grid) (hg : PosGrid g) (p : P3) (h : inBounds g p = true) :
    (0 ≤ (voxIdx g p).x ∧ (voxIdx g p).x < (shape g).x) ∧ (0 ≤ (voxIdx g p).y ∧ (voxIdx g p).y < (shape g).y) ∧
    (0 ≤ (voxIdx g p).z ∧ (voxIdx g p).z < (shape g).z) :=
  (inGrid_iff g _).mp (inGrid_of_inBounds g hg p h)

/-- **voxel_covers.** Every point inside the bounds is within one voxel size (per axis) of a *filled* voxel of the
resulting grid. -/
theorem voxel_covers (g : Grid) (hg : PosGrid g) (pts : List P3) (p : P3) (hp : p ∈ pts) (h : inBounds g p = true) :
    ∃ v ∈ filled g pts, nearB g p v = true :=
  ⟨voxIdx g p, (mem_filled g pts _).mpr ⟨⟨p, hp, rfl⟩, inGrid_of_inBounds g hg p h⟩, near_own g hg p⟩

/-- **filled_stays_inside.** The grid stays inside the requested bounds: every filled voxel comes from a point,
has an index in `[0, shape)`, and its coordinate lies in `[u·lo, u·(hi + 2·pitch))` on every axis. -/
theorem filled_stays_inside (g : Grid) (hg : PosGrid g) (pts : List P3) (v : I3) (hv : v ∈ filled g pts) :
    (∃ p ∈ pts, voxIdx g p = v) ∧ inGrid g v = true ∧
    (g.u.x * g.lo.x ≤ (coord g v).x ∧ (coord g v).x < g.u.x * (g.hi.x + 2 * g.pitch.x)) ∧
    (g.u.y * g.lo.y ≤ (coord g v).y ∧ (coord g v).y < g.u.y * (g.hi.y + 2 * g.pitch.y)) ∧
    (g.u.z * g.lo.z ≤ (coord g v).z ∧ (coord g v).z < g.u.z * (g.hi.z + 2 * g.pitch.z)) := by
  obtain ⟨hsrc, hin⟩ := (mem_filled g pts v).mp hv
  obtain ⟨⟨x0, x1⟩, ⟨y0, y1⟩, ⟨z0, z1⟩⟩ := (inGrid_iff g v).mp hin
  exact ⟨hsrc, hin, coord1_extent _ _ _ _ _ hg.1.1 hg.2.1 x0 x1, coord1_extent _ _ _ _ _ hg.1.2.1 hg.2.2.1 y0 y1,
    coord1_extent _ _ _ _ _ hg.1.2.2 hg.2.2.2 z0 z1⟩

/-- The executable checkers the driver evaluates on navis' own grid mean what they say, and the model's grid
passes them. -/
theorem checkers_sound (g : Grid) (pts : List P3) (F : List I3) :
    (coversB g pts F = true ↔ ∀ p ∈ pts, inBounds g p = true → ∃ v ∈ F, nearB g p v = true) ∧
    (insideB g F = true ↔ ∀ v ∈ F, inGrid g v = true) := by
  constructor
  · unfold coversB
    rw [List.all_eq_true]
    constructor
    · intro h p hp hb
      have := h p hp
      rw [hb] at this
      simpa using this
    · intro h p hp
      by_cases hb : inBounds g p = true
      · obtain ⟨v, hv, hn⟩ := h p hp hb
        have : (F.any fun v => nearB g p v) = true := List.any_eq_true.mpr ⟨v, hv, hn⟩
        simp [this]
      · simp [hb]
  · unfold insideB; exact List.all_eq_true

theorem model_passes_checkers (g : Grid) (hg : PosGrid g) (pts : List P3) :
    coversB g pts (filled g pts) = true ∧ insideB g (filled g pts) = true :=
  ⟨covers_filled g hg pts, inside_filled g pts⟩

/-- **counts_conserved.** With `counts=True` (each filled voxel holds its number of points) the
grid total is exactly the number of points whose voxel lies inside the grid; every entry is the number of points
that share that voxel. -/
theorem counts_conserved (g : Grid) (pts : List P3) :
    gridSum (counts g pts) = nInside g pts ∧
    (∀ e ∈ counts g pts, e.2 = (pts.filter fun p => voxIdx g p = e.1).length ∧ 0 < e.2) := by
  refine ⟨counts_sum g pts, ?_⟩
  intro e he
  unfold counts at he
  obtain ⟨v, hv, rfl⟩ := List.mem_map.mp he
  have hc : (allIdx g pts).count v = (pts.filter fun p => voxIdx g p = v).length := by
    unfold allIdx
    rw [List.count_eq_length_filter, List.filter_map, List.length_map]
    congr 1
  refine ⟨hc, ?_⟩
  obtain ⟨⟨p, hp, rfl⟩, _⟩ := (mem_filled g pts v).mp hv
  exact List.count_pos_iff.mpr (List.mem_map.mpr ⟨p, hp, rfl⟩)

/-- Consequences: no point inside the bounds is lost, and when all points are inside the bounds (in particular
with the default bounds = bounding box) the total is the number of points. -/
theorem counts_conserved_in_bounds (g : Grid) (hg : PosGrid g) (pts : List P3) :
    (pts.filter (inBounds g)).length ≤ gridSum (counts g pts) ∧
    ((∀ p ∈ pts, inBounds g p = true) → gridSum (counts g pts) = pts.length) := by
  rw [counts_sum]
  unfold nInside
  constructor
  · apply List.Sublist.length_le
    apply List.monotone_filter_right
    intro p hb
    exact inGrid_of_inBounds g hg p hb
  · intro h
    rw [List.filter_eq_self.mpr (fun p hp => inGrid_of_inBounds g hg p (h p hp))]

/-- **vectors_stay_inside.** With `vectors=True` / `alphas=True` the voxels that receive a vector / alpha value are
exactly the filled voxels of the grid: nothing is written for a point whose voxel lies outside the requested bounds. -/
theorem vectors_stay_inside (g : Grid) (pts : List P3) :
    vectorCells g pts = filled g pts ∧ (∀ v ∈ vectorCells g pts, inGrid g v = true) ∧
    ((∀ p ∈ pts, inGrid g (voxIdx g p) = true) → vectorCells g pts = dedup (allIdx g pts)) :=
  ⟨rfl, fun v hv => ((mem_filled g pts v).mp hv).2, fun h => filled_of_all_inside g pts h⟩

/-- A concrete grid: pitch ½/1/2, bounds `[0,3]×[0,2]×[0,4]`, units 8. -/
def gEx : Grid := ⟨⟨1 / 2, 1, 2⟩, ⟨0, 0, 0⟩, ⟨3, 2, 4⟩, ⟨8, 8, 8⟩⟩
def ptsEx : List P3 := [⟨1 / 4, 1 / 2, 1⟩, ⟨3 / 4, 3 / 2, 3⟩, ⟨3, 2, 4⟩, ⟨1 / 4, 1 / 2, 1⟩, ⟨7 / 2, 0, 0⟩]

example : PosGrid gEx := by unfold PosGrid gEx; norm_num
/-- ties: `¼/½ = ½ → 0`, `¾/½ = 3/2 → 2`, `½ → 0`, `3/2 → 2`; the last point is outside the bounds and is clipped
(`7 ≥ shape.x = 7`). -/
example : shape gEx = ⟨7, 3, 3⟩ ∧ allIdx gEx ptsEx = [⟨0, 0, 0⟩, ⟨2, 2, 2⟩, ⟨6, 2, 2⟩, ⟨0, 0, 0⟩, ⟨7, 0, 0⟩] ∧
    counts gEx ptsEx = [(⟨2, 2, 2⟩, 1), (⟨6, 2, 2⟩, 1), (⟨0, 0, 0⟩, 2)] ∧ nInside gEx ptsEx = 4 ∧
    (ptsEx.filter (inBounds gEx)).length = 4 := by decide +kernel
/-- (Historical: before the fix `neuron2voxels(counts=True)` raised `shape mismatch` on this input, because the counts
were not filtered together with the clipped voxel `⟨7, 0, 0⟩`; the repaired code returns `counts gEx ptsEx`, total 4.) -/
example : gridSum (counts gEx ptsEx) = 4 ∧ vectorCells gEx ptsEx = [⟨2, 2, 2⟩, ⟨6, 2, 2⟩, ⟨0, 0, 0⟩] := by decide +kernel

/-! ## 3. skeleton → tangents (`make_dotprops(skeleton, k=0)`) -/

/-- **tangent_midpoint_and_length.** If every parent id resolves (`edgePairs t = some es`, otherwise pandas raises
`KeyError`), the tangents are, in row order, exactly one per child/parent pair at *different* positions
(zero-length edges are dropped, nothing else), and for each of them: the point is the midpoint `(child+parent)/2`,
equidistant from both ends; the (un-normalised) vector is `child − parent`, which is parallel to the
child→parent vector `parent − child` (cross product zero).  Tangents are unoriented directions (NBLAST uses `|dot|`,
the k > 0 path returns an arbitrary sign), so the sign is not part of the property; for the record the code's
orientation is `child − parent = −(parent − child)`.  The recorded squared length is `|child − parent|² > 0`. -/
theorem tangent_midpoint_and_length (t : List Row) (es : List (P3 × P3)) (h : edgePairs t = some es) :
    ∃ ts, tangents t = some ts ∧
      ts = (es.filter fun e => decide (e.1 ≠ e.2)).map (fun e => edgeTangent e.1 e.2) ∧
      ts.length = (es.filter fun e => decide (e.1 ≠ e.2)).length ∧
      ∀ e ∈ es, e.1 ≠ e.2 →
        edgeTangent e.1 e.2 ∈ ts ∧
        (edgeTangent e.1 e.2).point = half (add e.1 e.2) ∧
        norm2 (sub (edgeTangent e.1 e.2).point e.1) = norm2 (sub (edgeTangent e.1 e.2).point e.2) ∧
        (edgeTangent e.1 e.2).vec = sub e.1 e.2 ∧
        cross (edgeTangent e.1 e.2).vec (sub e.2 e.1) = ⟨0, 0, 0⟩ ∧
        (edgeTangent e.1 e.2).vec = scale (-1) (sub e.2 e.1) ∧
        (edgeTangent e.1 e.2).len2 = norm2 (sub e.1 e.2) ∧ 0 < (edgeTangent e.1 e.2).len2 := by
  refine ⟨_, tangents_eq t es h, rfl, by rw [List.length_map], ?_⟩
  intro e he hne
  have hm : (edgeTangent e.1 e.2).point = half (add e.1 e.2) := midpoint_eq e.1 e.2
  refine ⟨List.mem_map.mpr ⟨e, List.mem_filter.mpr ⟨he, by simpa using hne⟩, rfl⟩, hm, ?_, rfl,
    cross_self_neg e.1 e.2, sub_neg e.1 e.2, rfl, ?_⟩
  · rw [hm, (midpoint_equidistant e.1 e.2).1, (midpoint_equidistant e.1 e.2).2]
  · show 0 < norm2 (sub e.1 e.2)
    have h0 := norm2_nonneg (sub e.1 e.2)
    have h1 : norm2 (sub e.1 e.2) ≠ 0 := fun hz =>
      hne ((sub_eq_zero_iff _ _).mp ((norm2_eq_zero_iff _).mp hz))
    exact lt_of_le_of_ne h0 (Ne.symm h1)

/-- Rows: 1 root, 2 → 1 (length 3), 3 → 2 coincident (dropped), 4 → 3 (length 7), 5 a second root. -/
def tEx : List Row := [⟨1, -1, ⟨0, 0, 0⟩⟩, ⟨2, 1, ⟨1, 2, 2⟩⟩, ⟨3, 2, ⟨1, 2, 2⟩⟩, ⟨4, 3, ⟨3, 5, 8⟩⟩, ⟨5, -1, ⟨9, 9, 9⟩⟩]

example : edgePairs tEx = some [(⟨1, 2, 2⟩, ⟨0, 0, 0⟩), (⟨1, 2, 2⟩, ⟨1, 2, 2⟩), (⟨3, 5, 8⟩, ⟨1, 2, 2⟩)] ∧
    tangents tEx = some [⟨⟨1 / 2, 1, 1⟩, ⟨1, 2, 2⟩, 9⟩, ⟨⟨2, 7 / 2, 5⟩, ⟨2, 3, 6⟩, 49⟩] := by decide +kernel
/-- A dangling parent id is the `KeyError` case. -/
example : tangents [⟨1, 7, ⟨0, 0, 0⟩⟩] = none := by decide +kernel

/-! ## 4. point cloud → dotprops (`make_dotprops(points, k)`) -/

/-- **k_clipped.** The number of neighbours actually used is `min n k`: never more than the number of points,
never more than requested, and exactly `k` when enough points exist. -/
theorem k_clipped (n k : Nat) :
    kClip n k = min n k ∧ kClip n k ≤ n ∧ kClip n k ≤ k ∧ (k ≤ n → kClip n k = k) ∧ (n ≤ k → kClip n k = n) := by
  unfold kClip
  omega

example : kClip 5 20 = 5 ∧ kClip 30 20 = 20 := by decide

/-- **alpha_range.** For all singular values `s₁ ≥ s₂ ≥ s₃ ≥ 0` — including the all-zero spectrum of a neighbourhood
whose points coincide, where the guarded division yields `0` — `alpha` lies in `[0, 1]`.  When they are not all zero it
is `1` exactly for a collinear neighbourhood (`s₂ = s₃ = 0`) and `0` exactly when the two leading values tie. -/
theorem alpha_range (s1 s2 s3 : Rat) (h12 : s2 ≤ s1) (h23 : s3 ≤ s2) (h3 : 0 ≤ s3) :
    (0 ≤ alpha s1 s2 s3 ∧ alpha s1 s2 s3 ≤ 1) ∧
    (0 < s1 + s2 + s3 → (alpha s1 s2 s3 = (s1 - s2) / (s1 + s2 + s3)) ∧ (alpha s1 s2 s3 = 1 ↔ s2 = 0 ∧ s3 = 0) ∧
      (alpha s1 s2 s3 = 0 ↔ s1 = s2)) ∧
    (¬ 0 < s1 + s2 + s3 → alpha s1 s2 s3 = 0) :=
  ⟨alpha_bounds_all s1 s2 s3 h12 h23 h3,
   fun hpos => ⟨by unfold alpha; rw [if_pos hpos], alpha_eq_one_iff s1 s2 s3 h23 h3 hpos, alpha_eq_zero_iff s1 s2 s3 hpos⟩,
   alpha_zero_sum s1 s2 s3⟩

example : alpha 5 2 1 = 3 / 8 ∧ alpha 4 0 0 = 1 ∧ alpha 2 2 1 = 0 ∧ alpha 0 0 0 = 0 := by decide +kernel

/-- **finite_points.** Rows with a non-finite coordinate (NaN or ±inf, modelled as `none`) are dropped and nothing else: the points of the result are the
finite rows, in order, one each. -/
theorem finite_points (l : List (Option P3)) :
    (finitePts l).length = (l.filter Option.isSome).length ∧ (∀ p, p ∈ finitePts l ↔ some p ∈ l) ∧
    (finitePts l).map some = l.filter Option.isSome := by
  unfold finitePts
  refine ⟨?_, ?_, ?_⟩
  · induction l with
    | nil => rfl
    | cons a l ih => cases a <;> simp_all
  · intro p; simp [List.mem_filterMap]
  · induction l with
    | nil => rfl
    | cons a l ih => cases a <;> simp_all

/-- **collinear_principal_axis.** For a collinear neighbourhood (centred points `tᵢ·d`) the inertia matrix has `d`
as an eigenvector with eigenvalue `(Σtᵢ²)|d|²` and kills every vector orthogonal to `d`: the principal axis is the
line direction and the other two singular values vanish (so `alpha = 1` by `alpha_range`). -/
theorem collinear_principal_axis (d : P3) (ts : List Rat) :
    inertiaApply (ts.map fun t => scale t d) d = scale ((ts.map fun t => t * t).sum * norm2 d) d ∧
    ∀ w, dot d w = 0 → inertiaApply (ts.map fun t => scale t d) w = ⟨0, 0, 0⟩ := by
  refine ⟨inertia_collinear d ts d, ?_⟩
  intro w hw
  rw [inertia_collinear, hw]
  unfold scale
  simp

example : inertiaApply ([-2, -1, 0, 1, 2].map fun t => scale t ⟨1, 2, 2⟩) ⟨1, 2, 2⟩ = scale 90 ⟨1, 2, 2⟩ := by
  decide +kernel

/-! # Second pass

## 5. voxelisation: unit strings, default bounds, shape, reported offset / units, per-voxel point sets -/

/-- **voxel_size_physical.** A pitch given as a unit string (`'q unit'`, `unit = factor ·` base unit) on an isometric neuron whose
own unit is `umag ·` base unit is mapped to `q·factor/umag` neuron units, and the voxel size the `VoxelNeuron` reports
(`units = pitch · umag`) is exactly the requested physical length `q · factor`. -/
theorem voxel_size_physical (q factor umag : Rat) (hu : umag ≠ 0) :
    units1 (mapUnits q factor umag) umag = q * factor :=
  mapUnits_size q factor umag hu

example : mapUnits 1 1000 8 = 125 ∧ units1 (mapUnits 1 1000 8) 8 = 1000 := by decide +kernel

/-- **shape_positive.** Non-empty bounds give a non-empty grid on every axis. -/
theorem shape_positive (g : Grid) (hg : PosGrid g) (hx : g.lo.x ≤ g.hi.x) (hy : g.lo.y ≤ g.hi.y) (hz : g.lo.z ≤ g.hi.z) :
    1 ≤ (shape g).x ∧ 1 ≤ (shape g).y ∧ 1 ≤ (shape g).z :=
  ⟨shape1_pos _ _ _ hg.1.1 hx, shape1_pos _ _ _ hg.1.2.1 hy, shape1_pos _ _ _ hg.1.2.2 hz⟩

/-- **same_voxel_within_pitch.** Two points that end up in the same voxel are at most one pitch apart on every axis (the grid
does not merge distant points). -/
theorem same_voxel_within_pitch (g : Grid) (hg : PosGrid g) (p q : P3) (h : voxIdx g p = voxIdx g q) :
    (p.x - q.x ≤ g.pitch.x ∧ q.x - p.x ≤ g.pitch.x) ∧ (p.y - q.y ≤ g.pitch.y ∧ q.y - p.y ≤ g.pitch.y) ∧
    (p.z - q.z ≤ g.pitch.z ∧ q.z - p.z ≤ g.pitch.z) := by
  have hx : idx1 g.pitch.x g.lo.x p.x = idx1 g.pitch.x g.lo.x q.x := congrArg V3.x h
  have hy : idx1 g.pitch.y g.lo.y p.y = idx1 g.pitch.y g.lo.y q.y := congrArg V3.y h
  have hz : idx1 g.pitch.z g.lo.z p.z = idx1 g.pitch.z g.lo.z q.z := congrArg V3.z h
  unfold idx1 at hx hy hz
  exact ⟨same_ix_close _ _ _ hg.1.1 (by omega), same_ix_close _ _ _ hg.1.2.1 (by omega), same_ix_close _ _ _ hg.1.2.2 (by omega)⟩

/-- **default_bounds_keep_everything.** With bounds that contain every point — the default `x.bbox`, which is the bounding box
of the points possibly enlarged by connectors — nothing is clipped: the filled voxels are all distinct voxels of the points,
`counts=True` adds up to the number of points, and the `vectors`/`alphas` loop visits every voxel. -/
theorem default_bounds_keep_everything (g : Grid) (hg : PosGrid g) (pts : List P3) (h : boxContains g pts = true) :
    filled g pts = dedup (allIdx g pts) ∧ gridSum (counts g pts) = pts.length ∧ vectorCells g pts = dedup (allIdx g pts) := by
  have hall : ∀ p ∈ pts, inBounds g p = true := List.all_eq_true.mp h
  have hin : ∀ p ∈ pts, inGrid g (voxIdx g p) = true := fun p hp => inGrid_of_inBounds g hg p (hall p hp)
  exact ⟨filled_of_all_inside g pts hin, (counts_conserved_in_bounds g hg pts).2 hall, filled_of_all_inside g pts hin⟩

/-- The checkers evaluated on the offset / units the `VoxelNeuron` *reports* mean what they say, and with the model's own offset /
units they coincide with `coversB` (so `voxel_covers` transfers). -/
theorem reported_checkers_sound (g : Grid) (off un : P3) (pts : List P3) (F : List I3) :
    (coversAtB g off un pts F = true ↔ ∀ p ∈ pts, inBounds g p = true → ∃ v ∈ F, nearAtB off un g.u p v = true) ∧
    (sourcedAtB g off un pts F = true ↔ ∀ v ∈ F, ∃ p ∈ pts, nearAtB off un g.u p v = true) ∧
    coversAtB g (gridOffset g) (gridUnits g) pts F = coversB g pts F := by
  refine ⟨?_, ?_, ?_⟩
  · unfold coversAtB
    rw [List.all_eq_true]
    constructor
    · intro h p hp hb
      have := h p hp
      rw [hb] at this
      simpa using this
    · intro h p hp
      by_cases hb : inBounds g p = true
      · obtain ⟨v, hv, hn⟩ := h p hp hb
        have : (F.any fun v => nearAtB off un g.u p v) = true := List.any_eq_true.mpr ⟨v, hv, hn⟩
        simp [this]
      · simp [hb]
  · unfold sourcedAtB
    rw [List.all_eq_true]
    constructor
    · intro h v hv; exact List.any_eq_true.mp (h v hv)
    · intro h v hv; exact List.any_eq_true.mpr (h v hv)
  · unfold coversAtB coversB
    simp only [nearAtB_model]

theorem model_passes_reported_checkers (g : Grid) (hg : PosGrid g) (pts : List P3) :
    coversAtB g (gridOffset g) (gridUnits g) pts (filled g pts) = true ∧
    sourcedAtB g (gridOffset g) (gridUnits g) pts (filled g pts) = true := by
  refine ⟨by rw [(reported_checkers_sound g (gridOffset g) (gridUnits g) pts (filled g pts)).2.2]; exact covers_filled g hg pts, ?_⟩
  rw [(reported_checkers_sound g (gridOffset g) (gridUnits g) pts (filled g pts)).2.1]
  intro v hv
  obtain ⟨⟨p, hp, rfl⟩, _⟩ := (mem_filled g pts v).mp hv
  exact ⟨p, hp, by rw [nearAtB_model]; exact near_own g hg p⟩

/-- **points_in_voxel.** The point set the `vectors`/`alphas` loop hands to the SVD for voxel `v` is exactly the points whose
index is `v`, in input order; its size is the `counts=True` value of that voxel. -/
theorem points_in_voxel (g : Grid) (pts : List P3) (v : I3) :
    (∀ p, p ∈ pointsIn g pts v ↔ p ∈ pts ∧ voxIdx g p = v) ∧ (pointsIn g pts v).length = (allIdx g pts).count v := by
  unfold pointsIn
  refine ⟨fun p => by simp [List.mem_filter], ?_⟩
  unfold allIdx
  rw [List.count_eq_length_filter, List.filter_map, List.length_map]
  congr 1

example : pointsIn gEx ptsEx ⟨0, 0, 0⟩ = [⟨1 / 4, 1 / 2, 1⟩, ⟨1 / 4, 1 / 2, 1⟩] := by decide +kernel

/-! ## 6. skeleton → tangents: lookup by id, roots and zero-length edges dropped, the normalised vector -/

/-- **parent_lookup_by_id.** With unique node ids the parent position is found by *id*: it is the position of the one row
carrying that id, whatever the row order (unsorted, shuffled, reversed tables give the same answer). -/
theorem parent_lookup_by_id (t : List Row) (hn : (t.map (·.id)).Nodup) (i : Int) :
    (∀ p, lookup t i = some p ↔ ∃ r ∈ t, r.id = i ∧ r.p = p) ∧
    (∀ t', t.Perm t' → lookup t' i = lookup t i) :=
  ⟨fun p => lookup_eq_some_iff t hn i p, fun t' hp => (lookup_perm t t' hp hn i).symm⟩

/-- **tangents_characterised.** When every parent id resolves, a tangent is produced exactly for the rows that (a) are not roots
(`parent_id ≥ 0`), and (b) do not sit at their parent's position; it is the `edgeTangent` of the row's and the looked-up parent's
positions.  Nothing else is produced; roots and zero-length edges produce nothing.  The count is the number of non-root rows
minus the number of zero-length edges. -/
theorem tangents_characterised (t : List Row) (es : List (P3 × P3)) (h : edgePairs t = some es) :
    (∀ tg, tg ∈ (es.filter fun e => decide (e.1 ≠ e.2)).map (fun e => edgeTangent e.1 e.2) ↔
      ∃ r ∈ t, 0 ≤ r.parent ∧ ∃ q, lookup t r.parent = some q ∧ r.p ≠ q ∧ tg = edgeTangent r.p q) ∧
    tangents t = some ((es.filter fun e => decide (e.1 ≠ e.2)).map fun e => edgeTangent e.1 e.2) ∧
    es.length = (t.filter fun r => 0 ≤ r.parent).length ∧
    ((es.filter fun e => decide (e.1 ≠ e.2)).map fun e => edgeTangent e.1 e.2).length
      = (t.filter fun r => 0 ≤ r.parent).length - (es.filter fun e => decide (e.1 = e.2)).length := by
  refine ⟨?_, tangents_eq t es h, edgePairs_length t es h, ?_⟩
  · intro tg
    rw [List.mem_map]
    constructor
    · rintro ⟨e, he, rfl⟩
      obtain ⟨he1, he2⟩ := List.mem_filter.mp he
      obtain ⟨r, hr, hpar, hl, hp⟩ := (edgePairs_mem t es h e).mp he1
      exact ⟨r, hr, hpar, e.2, hl, by rw [hp]; simpa using he2, by rw [hp]⟩
    · rintro ⟨r, hr, hpar, q, hl, hne, rfl⟩
      refine ⟨(r.p, q), List.mem_filter.mpr ⟨(edgePairs_mem t es h (r.p, q)).mpr ⟨r, hr, hpar, hl, rfl⟩, by simpa using hne⟩, rfl⟩
  · rw [List.length_map, ← edgePairs_length t es h]
    have : ∀ l : List (P3 × P3), (l.filter fun e => decide (e.1 ≠ e.2)).length + (l.filter fun e => decide (e.1 = e.2)).length = l.length := by
      intro l
      induction l with
      | nil => rfl
      | cons e l ih =>
        by_cases he : e.1 = e.2
        · simp only [List.filter_cons, he, ne_eq, not_true_eq_false, decide_false, decide_true, if_true, List.length_cons] at *
          simp at ih ⊢; omega
        · simp only [List.filter_cons, he, ne_eq, not_false_eq_true, decide_true, decide_false, if_true, List.length_cons] at *
          simp at ih ⊢; omega
    have := this es
    omega

/-- **tanOKB_sound.** What the checker applied to navis' normalised vector `v` and length `L` certifies against the exact
tangent: `|v|² = 1 ± ε`, `|v × w|² ≤ ε²|v|²|w|²` — by Lagrange's identity `(v·w)² ≥ (1 − ε²)|v|²|w|²`, i.e. the angle between `v` and
the edge has `sin² ≤ ε²` — `L > 0` and `L² = |w|² (1 ± ε)`. -/
theorem tanOKB_sound (tg : Tangent) (v : P3) (L ε : Rat) (h : tanOKB tg v L ε = true) :
    (norm2 v - 1 ≤ ε ∧ -ε ≤ norm2 v - 1) ∧
    dot v tg.vec * dot v tg.vec ≥ (1 - ε * ε) * (norm2 v * norm2 tg.vec) ∧
    0 < L ∧ (L * L - tg.len2 ≤ ε * tg.len2 ∧ -(ε * tg.len2) ≤ L * L - tg.len2) := by
  unfold tanOKB unitB at h
  simp only [Bool.and_eq_true, decide_eq_true_eq, absLe_iff] at h
  obtain ⟨⟨⟨hu, hc⟩, hL⟩, hl⟩ := h
  refine ⟨hu, ?_, hL, hl⟩
  have := lagrange v tg.vec
  nlinarith

/-- **normalised_tangent_exact.** For an edge of rational length `m` (`|child − parent|² = m²`, e.g. the integer-length edges of
the generator) the exactly normalised vector `(child − parent)/m` and `L = m` pass the checker with tolerance `0`. -/
theorem normalised_tangent_exact (c q : P3) (m : Rat) (hm : 0 < m) (hl : norm2 (sub c q) = m * m) :
    tanOKB (edgeTangent c q) (scale (1 / m) (sub c q)) m 0 = true := by
  have hn : norm2 (scale (1 / m) (sub c q)) = 1 := by
    have : norm2 (scale (1 / m) (sub c q)) = (1 / m) * (1 / m) * norm2 (sub c q) := by unfold norm2 dot scale; ring
    rw [this, hl]; field_simp
  have hc : cross (scale (1 / m) (sub c q)) (sub c q) = ⟨0, 0, 0⟩ := by unfold cross scale; congr 1 <;> ring
  unfold tanOKB unitB
  simp only [Bool.and_eq_true, decide_eq_true_eq, absLe_iff]
  have hv : (edgeTangent c q).vec = sub c q := rfl
  have hl2 : (edgeTangent c q).len2 = norm2 (sub c q) := rfl
  have h0 : norm2 (⟨0, 0, 0⟩ : P3) = 0 := by unfold norm2 dot; norm_num
  rw [hv, hl2, hn, hc, hl, h0]
  norm_num
  exact hm

example : tanOKB (edgeTangent ⟨1, 2, 2⟩ ⟨0, 0, 0⟩) ⟨1 / 3, 2 / 3, 2 / 3⟩ 3 0 = true ∧
    tanOKB (edgeTangent ⟨1, 2, 2⟩ ⟨0, 0, 0⟩) ⟨2 / 3, 1 / 3, 2 / 3⟩ 3 (1 / 100) = false := by decide +kernel

/-! ## 7. point cloud → dotprops: neighbour selection, scatter matrix, principal axis, alpha -/

/-- **knn_spec.** The neighbourhood of `p` consists of `min k n` points of the cloud (never more than there are), every one of
them at most as far from `p` as every point left out, selected and left-out points together are the cloud, and for `k ≥ 1` it
contains `p` itself (the self-hit). -/
theorem knn_spec (pts : List P3) (p : P3) (k : Nat) :
    (knn pts p k).length = min k pts.length ∧ (∀ q ∈ knn pts p k, q ∈ pts) ∧
    (∀ a ∈ knn pts p k, ∀ b ∈ (sortBy (dist2 p) pts).drop k, dist2 p a ≤ dist2 p b) ∧
    (knn pts p k ++ (sortBy (dist2 p) pts).drop k).Perm pts ∧
    (p ∈ pts → 1 ≤ k → p ∈ knn pts p k) :=
  ⟨knn_length pts p k, knn_mem pts p k, fun a ha b hb => knn_nearest pts p k a b ha hb, knn_partition pts p k,
   knn_self pts p k⟩

/-- **neighbourhoods_never_exceed_cloud.** `make_dotprops` forms one neighbourhood per (finite) point, each of exactly
`min n k` points — all `n` points when `k > n`, the single point itself when `n = 1`. -/
theorem neighbourhoods_never_exceed_cloud (pts : List P3) (k : Nat) :
    (neighbourhoods pts k).length = pts.length ∧
    (∀ nb ∈ neighbourhoods pts k, nb.length = min pts.length k ∧ nb.length ≤ pts.length ∧ ∀ q ∈ nb, q ∈ pts) ∧
    (pts.length ≤ k → ∀ nb ∈ neighbourhoods pts k, nb.Perm pts) := by
  unfold neighbourhoods
  refine ⟨List.length_map _, ?_, ?_⟩
  · intro nb hnb
    obtain ⟨p, _, rfl⟩ := List.mem_map.mp hnb
    have hl := knn_length pts p (kClip pts.length k)
    unfold kClip at *
    refine ⟨by omega, by omega, knn_mem pts p _⟩
  · intro hk nb hnb
    obtain ⟨p, _, rfl⟩ := List.mem_map.mp hnb
    unfold knn kClip
    rw [Nat.min_eq_left hk, List.take_of_length_le (by rw [(sortBy_perm _ pts).length_eq])]
    exact sortBy_perm _ pts

example : knn [⟨0, 0, 0⟩, ⟨5, 0, 0⟩, ⟨1, 0, 0⟩, ⟨0, 2, 0⟩] ⟨0, 0, 0⟩ 3 = [⟨0, 0, 0⟩, ⟨1, 0, 0⟩, ⟨0, 2, 0⟩] ∧
    knnAmbiguous [⟨0, 0, 0⟩, ⟨5, 0, 0⟩, ⟨1, 0, 0⟩, ⟨0, 2, 0⟩] ⟨0, 0, 0⟩ 3 = false ∧
    knnAmbiguous [⟨0, 0, 0⟩, ⟨0, 1, 0⟩, ⟨1, 0, 0⟩] ⟨0, 0, 0⟩ 2 = true ∧
    knnAmbiguous [⟨0, 0, 0⟩, ⟨1, 0, 0⟩, ⟨1, 0, 0⟩] ⟨0, 0, 0⟩ 2 = false := by decide +kernel

/-- **scatter_matrix_spec.** The 3×3 matrix navis hands to the SVD (`cptᵀ @ cpt`) acts as `w ↦ Σ (cᵢ·w) cᵢ`, its trace is
`Σ |cᵢ|²`, its quadratic form is `Σ (cᵢ·w)² ≥ 0` (positive semi-definite, so singular values = eigenvalues ≥ 0). -/
theorem scatter_matrix_spec (cs : List P3) (w : P3) :
    (inertiaMat cs).mulVec w = inertiaApply cs w ∧ (inertiaMat cs).trace = (cs.map norm2).sum ∧
    (inertiaMat cs).quad w = (cs.map fun c => dot c w * dot c w).sum ∧ 0 ≤ (inertiaMat cs).quad w ∧ 0 ≤ (inertiaMat cs).trace :=
  ⟨mulVec_inertiaMat cs w, trace_inertiaMat cs, quad_inertiaMat cs w, quad_inertiaMat_nonneg cs w, trace_inertiaMat_nonneg cs⟩

/-- **degenerate_iff_coincident.** The scatter matrix of a neighbourhood has trace `0` — the case in which navis' guarded
division returns `alpha = 0` — exactly when all its points coincide (duplicates with multiplicity ≥ k, a single point, `k = 1`). -/
theorem degenerate_iff_coincident (nb : List P3) :
    ((nbInertia nb).trace = 0 ↔ ∀ q ∈ nb, q = centre nb) ∧
    (∀ s1 s2 s3 : Rat, s1 + s2 + s3 = (nbInertia nb).trace → (∀ q ∈ nb, q = centre nb) → alpha s1 s2 s3 = 0) := by
  refine ⟨trace_nbInertia_eq_zero_iff nb, ?_⟩
  intro s1 s2 s3 hs hall
  have : (nbInertia nb).trace = 0 := (trace_nbInertia_eq_zero_iff nb).mpr hall
  unfold alpha
  rw [hs, this, if_neg (lt_irrefl 0)]

example : (nbInertia [⟨1, 1, 1⟩, ⟨1, 1, 1⟩, ⟨1, 1, 1⟩]).trace = 0 ∧ (nbInertia [⟨7, 2, 3⟩]).trace = 0 ∧
    nbInertia [⟨0, 0, 0⟩, ⟨2, 0, 0⟩, ⟨1, 3, 0⟩] = ⟨2, 0, 0, 6, 0, 0⟩ := by decide +kernel

/-- **scatter_invariances.** The scatter matrix of a neighbourhood — hence the principal axis and alpha — depends neither on the order
in which the KD-tree lists the neighbours nor on where the cloud sits: a common offset drops out (tangents of a `VoxelNeuron`'s voxels
are the same with or without its `offset`). -/
theorem scatter_invariances (nb : List P3) :
    (∀ nb', nb.Perm nb' → nbInertia nb' = nbInertia nb) ∧ (∀ t, nbInertia (nb.map (add t)) = nbInertia nb) :=
  ⟨fun _ h => (nbInertia_perm h).symm, fun t => nbInertia_translate t nb⟩

example : nbInertia [⟨10, 20, 30⟩, ⟨12, 20, 30⟩, ⟨11, 23, 30⟩] = nbInertia [⟨0, 0, 0⟩, ⟨2, 0, 0⟩, ⟨1, 3, 0⟩] ∧
    nbInertia [⟨1, 3, 0⟩, ⟨0, 0, 0⟩, ⟨2, 0, 0⟩] = nbInertia [⟨0, 0, 0⟩, ⟨2, 0, 0⟩, ⟨1, 3, 0⟩] := by decide +kernel

/-- **principal_axis_variational.** `v` maximises the Rayleigh quotient `wᵀAw / wᵀw` if and only if `A v = λ v` with `λ = vᵀAv/vᵀv`
and no direction exceeds `λ` — "the principal axis is the eigenvector of the largest eigenvalue".  Every eigenvalue is a root
of the characteristic polynomial `det (t·I − A)`. -/
theorem principal_axis_variational (A : Sym3) (v : P3) (hv : norm2 v ≠ 0) :
    ((∀ w, A.quad w * norm2 v ≤ A.quad v * norm2 w) ↔
      (A.mulVec v = scale (rayleigh A v) v ∧ ∀ w, A.quad w ≤ rayleigh A v * norm2 w)) ∧
    (∀ lam, A.mulVec v = scale lam v → A.charpoly lam = 0) := by
  have hpos : 0 < norm2 v := lt_of_le_of_ne (norm2_nonneg v) (Ne.symm hv)
  have hq := quad_eq_rayleigh A v hv
  refine ⟨⟨?_, ?_⟩, ?_⟩
  · intro h
    have htop : ∀ w, A.quad w ≤ rayleigh A v * norm2 w := by
      intro w
      have := h w
      rw [hq] at this
      have e : rayleigh A v * norm2 v * norm2 w = (rayleigh A v * norm2 w) * norm2 v := by ring
      rw [e] at this
      exact le_of_mul_le_mul_right this hpos
    exact ⟨rayleigh_max_eigen A v _ hq htop, htop⟩
  · rintro ⟨_, htop⟩ w
    rw [hq]
    have := mul_le_mul_of_nonneg_right (htop w) (le_of_lt hpos)
    linarith
  · intro lam h
    exact eigen_root A v lam (fun e => hv (by rw [e]; unfold norm2 dot; norm_num)) h

/-- **axis_checker_sound.** If `axisOKB A v ε` accepts navis' tangent `v`, then `v` is an eigenvector up to a residual of
`ε·tr(A)·|v|` and no direction has a Rayleigh quotient more than `ε·tr(A)` above that of `v`.  Conversely an exact eigenvector for
the largest eigenvalue is accepted for every `ε` with `ε·tr(A) > 0` (no false alarm on exact data). -/
theorem axis_checker_sound (A : Sym3) (v : P3) (ε : Rat) :
    (axisOKB A v ε = true →
      norm2 (sub (A.mulVec v) (scale (rayleigh A v) v)) ≤ (ε * A.trace) * (ε * A.trace) * norm2 v ∧
      ∀ w, A.quad w ≤ (rayleigh A v + ε * A.trace) * norm2 w) ∧
    (∀ lam, norm2 v ≠ 0 → A.mulVec v = scale lam v → (∀ w, A.quad w ≤ lam * norm2 w) → 0 < ε * A.trace → axisOKB A v ε = true) :=
  ⟨axisOKB_sound A v ε, fun lam hv he ht hε => axisOKB_complete A v lam ε hv he ht hε⟩

/-- Points `(±2,0,0), (0,±1,0)`: scatter matrix `diag(8, 2, 0)`; the x axis passes, the y axis (an eigenvector, but not of the largest
eigenvalue) and a tilted vector fail. -/
example : axisOKB ⟨8, 0, 0, 2, 0, 0⟩ ⟨1, 0, 0⟩ (1 / 1000) = true ∧ axisOKB ⟨8, 0, 0, 2, 0, 0⟩ ⟨0, 1, 0⟩ (1 / 1000) = false ∧
    axisOKB ⟨8, 0, 0, 2, 0, 0⟩ ⟨4 / 5, 3 / 5, 0⟩ (1 / 1000) = false := by decide +kernel

/-- **alpha_checker_sound.** If `alphaOKB A l1 a ε` accepts navis' `a`, then with `l2 = l1 − a·tr`, `l3 = tr − l1 − l2`:
`l1 + l2 + l3 = tr(A)` exactly (the denominator of alpha is the trace), `a = (l1 − l2)/(l1 + l2 + l3)`, the three values are
ordered `l1 ≳ l2 ≳ l3 ≳ 0` up to `ε·tr`, and `(t − l1)(t − l2)(t − l3)` differs from the characteristic polynomial of `A` by at most
`ε·tr²·|t| + ε·tr³` for every `t` — they are, up to the tolerance, the eigenvalues of `A`. -/
theorem alpha_checker_sound (A : Sym3) (lam a ε : Rat) (h : alphaOKB A lam a ε = true) :
    lam + impliedL2 A lam a + impliedL3 A lam a = A.trace ∧
    (A.trace ≠ 0 → a = (lam - impliedL2 A lam a) / (lam + impliedL2 A lam a + impliedL3 A lam a)) ∧
    (∀ t, |A.charpoly t - (t - lam) * (t - impliedL2 A lam a) * (t - impliedL3 A lam a)| ≤
        ε * A.trace * A.trace * |t| + ε * A.trace * A.trace * A.trace) ∧
    impliedL2 A lam a ≤ lam + ε * A.trace ∧ impliedL3 A lam a ≤ impliedL2 A lam a + ε * A.trace ∧
    -(ε * A.trace) ≤ impliedL3 A lam a :=
  ⟨implied_sum A lam a, implied_alpha A lam a, (alphaOKB_sound A lam a ε h).1, (alphaOKB_sound A lam a ε h).2⟩

/-- **alpha_checker_exact.** With tolerance `0` the accepted values are *exactly* the roots of the characteristic polynomial,
ordered and non-negative, and `a` is the property's `(l1 − l2)/(l1 + l2 + l3) ∈ [0, 1]`. -/
theorem alpha_checker_exact (A : Sym3) (lam a : Rat) (h : alphaOKB A lam a 0 = true) (htr : 0 < A.trace) :
    (∀ t, A.charpoly t = (t - lam) * (t - impliedL2 A lam a) * (t - impliedL3 A lam a)) ∧
    a = alpha lam (impliedL2 A lam a) (impliedL3 A lam a) ∧ 0 ≤ a ∧ a ≤ 1 := by
  obtain ⟨hs, ha, hc, o1, o2, o3⟩ := alpha_checker_sound A lam a 0 h
  simp only [zero_mul, add_zero, neg_zero] at hc o1 o2 o3
  have hcp : ∀ t, A.charpoly t = (t - lam) * (t - impliedL2 A lam a) * (t - impliedL3 A lam a) := by
    intro t
    have := hc t
    have h0 : A.charpoly t - (t - lam) * (t - impliedL2 A lam a) * (t - impliedL3 A lam a) = 0 :=
      abs_eq_zero.mp (le_antisymm (by simpa using this) (abs_nonneg _))
    linarith
  have hal : a = alpha lam (impliedL2 A lam a) (impliedL3 A lam a) := by
    unfold alpha
    rw [if_pos (by rw [hs]; exact htr)]
    exact ha (ne_of_gt htr)
  have hr := (alpha_range lam (impliedL2 A lam a) (impliedL3 A lam a) o1 o2 o3).1
  exact ⟨hcp, hal, by rw [hal]; exact hr.1, by rw [hal]; exact hr.2⟩

/-- **alpha_checker_complete.** Conversely the exact eigenvalues `l1 ≥ l2 ≥ l3 ≥ 0` (the roots of the characteristic polynomial) and the
exact `alpha = (l1 − l2)/tr` are accepted with tolerance `0`: on exact data the checker raises no false alarm. -/
theorem alpha_checker_complete (A : Sym3) (l1 l2 l3 : Rat) (h12 : l2 ≤ l1) (h23 : l3 ≤ l2) (h3 : 0 ≤ l3)
    (hcp : ∀ t, A.charpoly t = (t - l1) * (t - l2) * (t - l3)) (htr : A.trace ≠ 0) :
    alphaOKB A l1 ((l1 - l2) / A.trace) 0 = true :=
  alphaOKB_complete A l1 l2 l3 h12 h23 h3 hcp htr

/-- `diag(8, 2, 0)`: alpha `= (8 − 2)/10`; `(8 − 0)/10` (second and third singular value swapped) and `2/10` are rejected. -/
example : alphaOKB ⟨8, 0, 0, 2, 0, 0⟩ 8 (3 / 5) 0 = true ∧ alphaOKB ⟨8, 0, 0, 2, 0, 0⟩ 8 (4 / 5) (1 / 1000) = false ∧
    alphaOKB ⟨8, 0, 0, 2, 0, 0⟩ 8 (1 / 5) (1 / 1000) = false := by decide +kernel

/-- **judge_ok_sound.** The verdict `ok` for a point means all three: unit tangent, principal axis of the exact scatter matrix of its
neighbourhood, alpha from that matrix' eigenvalues; `degenerate` means coincident neighbourhood, unit tangent and `alpha = 0`. -/
theorem judge_ok_sound (nb : List P3) (v : P3) (a εu εv εa : Rat) :
    (judge nb v a εu εv εa = .ok →
      unitB v εu = true ∧ (nbInertia nb).trace ≠ 0 ∧ axisOKB (nbInertia nb) v εv = true ∧
      alphaOKB (nbInertia nb) (rayleigh (nbInertia nb) v) a εa = true) ∧
    (judge nb v a εu εv εa = .degenerate → unitB v εu = true ∧ (∀ q ∈ nb, q = centre nb) ∧ a = 0) := by
  unfold judge
  constructor
  · intro h
    split at h
    · cases h
    · rename_i hu
      split at h
      · split at h <;> cases h
      · rename_i ht
        split at h
        · cases h
        · rename_i hax
          split at h
          · cases h
          · rename_i hal
            exact ⟨by simpa using hu, ht, by simpa using hax, by simpa using hal⟩
  · intro h
    split at h
    · cases h
    · rename_i hu
      split at h
      · rename_i ht
        split at h
        · rename_i ha
          exact ⟨by simpa using hu, (trace_nbInertia_eq_zero_iff nb).mp ht, ha⟩
        · cases h
      · split at h
        · cases h
        · split at h <;> cases h

example : judge [⟨-2, 0, 0⟩, ⟨2, 0, 0⟩, ⟨0, -1, 0⟩, ⟨0, 1, 0⟩] ⟨1, 0, 0⟩ (3 / 5) (1 / 1000) (1 / 1000) (1 / 1000) = .ok ∧
    judge [⟨-2, 0, 0⟩, ⟨2, 0, 0⟩, ⟨0, -1, 0⟩, ⟨0, 1, 0⟩] ⟨0, 1, 0⟩ (3 / 5) (1 / 1000) (1 / 1000) (1 / 1000) = .badAxis ∧
    judge [⟨1, 1, 1⟩, ⟨1, 1, 1⟩] ⟨1, 0, 0⟩ 0 (1 / 1000) (1 / 1000) (1 / 1000) = .degenerate := by decide +kernel

/-! ## 8. meshes: the exact sub-claims of the oracle-only clauses -/

/-- **mesh_checkers_sound.** The checkers the driver evaluates on navis' meshes / skeletons mean what they say: every vertex is
mapped (`vertex_map` has one entry per vertex) to a node index in range / to an existing node id; every required node occurs in
the map; every point lies in the (tight) bounding box of the vertex set widened by `tol`. -/
theorem mesh_checkers_sound (vm : List Int) (nV nNodes : Nat) (ids need : List Int) (V P : List P3) (tol : Rat) :
    (vmapIndexOKB vm nV nNodes = true ↔ vm.length = nV ∧ ∀ i ∈ vm, 0 ≤ i ∧ i < (nNodes : Int)) ∧
    (vmapIdOKB vm nV ids = true ↔ vm.length = nV ∧ ∀ i ∈ vm, i ∈ ids) ∧
    (vmapCoversB vm need = true ↔ ∀ i ∈ need, i ∈ vm) ∧
    (bboxContainsB V P tol = true → V ≠ [] → ∀ p ∈ P,
      (∃ a ∈ V, a.x - tol ≤ p.x) ∧ (∃ b ∈ V, p.x ≤ b.x + tol) ∧ (∃ a ∈ V, a.y - tol ≤ p.y) ∧ (∃ b ∈ V, p.y ≤ b.y + tol) ∧
      (∃ a ∈ V, a.z - tol ≤ p.z) ∧ (∃ b ∈ V, p.z ≤ b.z + tol)) := by
  refine ⟨?_, ?_, ?_, ?_⟩
  · unfold vmapIndexOKB
    simp only [Bool.and_eq_true, decide_eq_true_eq, List.all_eq_true]
  · unfold vmapIdOKB
    simp only [Bool.and_eq_true, decide_eq_true_eq, List.all_eq_true, List.contains_iff_mem]
  · unfold vmapCoversB
    simp only [List.all_eq_true, List.contains_iff_mem]
  · intro h hV p hp
    unfold bboxContainsB at h
    cases hb : bboxOf V with
    | none => cases V with
      | nil => exact absurd rfl hV
      | cons q l => simp [bboxOf] at hb
    | some lh =>
      obtain ⟨lo, hi⟩ := lh
      rw [hb] at h
      have hin := (inBoxB_iff lo hi tol p).mp (List.all_eq_true.mp h p hp)
      obtain ⟨_, ⟨ax, hax, eax⟩, ⟨bx, hbx, ebx⟩, ⟨ay, hay, eay⟩, ⟨by', hby, eby⟩, ⟨az, haz, eaz⟩, ⟨bz, hbz, ebz⟩⟩ :=
        bboxOf_spec V lo hi hb
      exact ⟨⟨ax, hax, by rw [eax]; exact hin.1.1⟩, ⟨bx, hbx, by rw [ebx]; exact hin.1.2⟩,
             ⟨ay, hay, by rw [eay]; exact hin.2.1.1⟩, ⟨by', hby, by rw [eby]; exact hin.2.1.2⟩,
             ⟨az, haz, by rw [eaz]; exact hin.2.2.1⟩, ⟨bz, hbz, by rw [ebz]; exact hin.2.2.2⟩⟩

/-- **hugging_surface_stays_in_extent.** A surface whose every vertex lies within half a voxel (plus `tol`) of a filled voxel of the
grid, in the grid's coordinates `offset + index · units`, lies within the grid's extent
`[offset − units/2, offset + (shape − 1)·units + units/2]` (± `tol·units`): the first oracle implies the clause of the statement. -/
theorem hugging_surface_stays_in_extent (off un : P3) (sh : I3) (tol : Rat) (V : List P3) (F : List I3)
    (hun : 0 < un.x ∧ 0 < un.y ∧ 0 < un.z)
    (hF : ∀ v ∈ F, (0 ≤ v.x ∧ v.x < sh.x) ∧ (0 ≤ v.y ∧ v.y < sh.y) ∧ (0 ≤ v.z ∧ v.z < sh.z))
    (h : surfaceHugsB off un tol V F = true) : surfaceInExtentB off un sh tol V = true := by
  unfold surfaceInExtentB
  rw [List.all_eq_true]
  intro q hq
  obtain ⟨v, hv, hh⟩ := List.any_eq_true.mp (List.all_eq_true.mp h q hq)
  unfold hugsB at hh
  simp only [Bool.and_eq_true] at hh
  obtain ⟨⟨hx, hy⟩, hz⟩ := hh
  obtain ⟨⟨x0, x1⟩, ⟨y0, y1⟩, ⟨z0, z1⟩⟩ := hF v hv
  have ex := hug_extent1 off.x un.x tol q.x v.x sh.x hun.1 x0 x1 hx
  have ey := hug_extent1 off.y un.y tol q.y v.y sh.y hun.2.1 y0 y1 hy
  have ez := hug_extent1 off.z un.z tol q.z v.z sh.z hun.2.2 z0 z1 hz
  simp only [Bool.and_eq_true, decide_eq_true_eq]
  exact ⟨⟨⟨⟨⟨ex.1, ex.2⟩, ey.1⟩, ey.2⟩, ez.1⟩, ez.2⟩

/-- The candidate-voxel evaluation the driver uses is sound: it accepts only surfaces that `surfaceHugsB` accepts. -/
theorem surface_fast_sound (off un : P3) (tol : Rat) (V : List P3) (F : List I3)
    (h : surfaceHugsFastB off un tol V F = true) : surfaceHugsB off un tol V F = true := by
  unfold surfaceHugsFastB at h
  unfold surfaceHugsB
  rw [List.all_eq_true] at *
  intro q hq
  obtain ⟨v, _, hv⟩ := List.any_eq_true.mp (h q hq)
  simp only [Bool.and_eq_true, List.contains_iff_mem] at hv
  exact List.any_eq_true.mpr ⟨v, hv.1, hv.2⟩

example : surfaceHugsFastB ⟨10, 20, 30⟩ ⟨1 / 2, 1 / 4, 2⟩ 0 [⟨45 / 4, 81 / 4, 31⟩] [⟨2, 1, 0⟩] = true := by decide +kernel

example : surfaceHugsB ⟨10, 20, 30⟩ ⟨1 / 2, 1 / 4, 2⟩ 0 [⟨45 / 4, 81 / 4, 31⟩] [⟨2, 1, 0⟩] = true ∧
    surfaceInExtentB ⟨10, 20, 30⟩ ⟨1 / 2, 1 / 4, 2⟩ ⟨4, 4, 4⟩ 0 [⟨45 / 4, 81 / 4, 31⟩] = true ∧
    surfaceInExtentB ⟨10, 20, 30⟩ ⟨1 / 2, 1 / 4, 2⟩ ⟨4, 4, 4⟩ 0 [⟨9, 21, 31⟩] = false := by decide +kernel

/-! ## 9. facts re-extracted from the current navis source (`Gen/Conv.lean`, regenerated on every run)

`envOf` assigns scalars to the names of an extracted expression (numpy arithmetic is elementwise: one coordinate suffices). -/
section source
open Navis.ConvExpr Navis.Gen.Conv

def envOf (l : List (String × Rat)) : String → Rat := fun n => ((l.find? fun e => e.1 = n).map (·.2)).getD 0

/-- **src_voxel_index.** The index expressions in `_make_voxels` / `neuron2voxels` — for the unique voxels *and* for the per-point
indices used by the `vectors`/`alphas` loop — evaluate to the model's `round(p/pitch) − round(lo/pitch)` (numpy `round`, half to even,
for both terms). -/
theorem src_voxel_index (p pitch lo : Rat) :
    eval (envOf [("pts", p), ("pitch", pitch), ("lo", lo)]) rawIndexE = (ix1 pitch p : Rat) ∧
    eval (envOf [("pts", p), ("pitch", pitch), ("lo", lo)]) voxelIndexE = (idx1 pitch lo p : Rat) ∧
    eval (envOf [("pts", p), ("pitch", pitch), ("lo", lo)]) pointIndexE = (idx1 pitch lo p : Rat) ∧
    interpreted rawIndexE = true ∧ interpreted voxelIndexE = true ∧ interpreted pointIndexE = true := by
  refine ⟨?_, ?_, ?_, by decide, by decide, by decide⟩ <;>
    simp [rawIndexE, voxelIndexE, pointIndexE, eval, envOf, idx1, ix1]

/-- **src_shape_offset_units.** Grid shape `ceil(ceil(hi/pitch) − floor(lo/pitch)) + 1`, `offset = lo/pitch·pitch·u`,
`units = pitch·u` — the `shape=` of the grid array and the `offset=` / `units=` handed to `VoxelNeuron(...)` — are the model's `shape1`,
`offset1`, `units1`. -/
theorem src_shape_offset_units (pitch lo hi u : Rat) :
    eval (envOf [("pitch", pitch), ("lo", lo), ("hi", hi), ("u", u)]) shapeE = (shape1 pitch lo hi : Rat) ∧
    eval (envOf [("pitch", pitch), ("lo", lo), ("hi", hi), ("u", u)]) offsetE = offset1 pitch lo u ∧
    eval (envOf [("pitch", pitch), ("lo", lo), ("hi", hi), ("u", u)]) unitsE = units1 pitch u ∧
    interpreted shapeE = true ∧ interpreted offsetE = true ∧ interpreted unitsE = true := by
  refine ⟨?_, ?_, ?_, by decide, by decide, by decide⟩
  · simp only [shapeE, eval, envOf, shape1, List.find?, Option.map, Option.getD]
    simp
    rw [← Int.cast_sub, Rat.ceil_intCast]
  · first | (simp [offsetE, eval, envOf, offset1]; done) | (simp [offsetE, eval, envOf, offset1]; ring)
  · first | (simp [unitsE, eval, envOf, units1]; done) | (simp [unitsE, eval, envOf, units1]; ring)

/-- **src_clipping.** The mask that keeps a voxel is `idx ≥ 0 ∧ idx < shape` (`inGrid`), it is applied to the voxels and — under
`counts` — to the counts; the `vectors`/`alphas` loop runs over the shifted per-point indices and skips exactly the complement
(`idx < 0 ∨ idx ≥ shape`); `_make_voxels` is called without stripping; a `(2, 3)` bounds array is transposed; the default bounds are
`x.bbox`.  (`idx` is the array that indexes `grid[...] = True` and `grid[...] = counts` — the same array in both branches, or the
translator fails — and `shape` the `shape=` of the grid.) -/
theorem src_clipping :
    inBoundsMask = [⟨"idx.min", ">=", "0"⟩, ⟨"idx", "<", "shape"⟩] ∧ voxelsFiltered = true ∧ countsFiltered = true ∧
    loopSkip = [⟨"idx", "<", "0"⟩, ⟨"idx", ">=", "shape"⟩] ∧ loopSelects = "inverse==i" ∧ makeVoxelsStrip = false ∧
    transposes23 = true ∧ defaultBounds = "x.bbox" := by decide

/-- **src_midpoint_vector.** `points = child + (parent − child)/2` evaluates to the midpoint `(child + parent)/2`; the tangent is
`±(child − parent)` (its square is pinned, the orientation is not part of the property); the length is `sqrt(Σ vect²)`; rows are
kept when `parent_id ≥ 0`; the parent is looked up with `.loc[parent_id]` on the `node_id` index; all three arrays are filtered with
`length ≠ 0`; the vector is divided by its norm (`points`, `vect`, `length` are the three positions of the `return`). -/
theorem src_midpoint_vector (c q : Rat) :
    eval (envOf [("child", c), ("parent", q)]) midpointE = (c + q) / 2 ∧
    eval (envOf [("child", c), ("parent", q)]) tangentVectE * eval (envOf [("child", c), ("parent", q)]) tangentVectE
      = (c - q) * (c - q) ∧
    interpreted midpointE = true ∧ interpreted tangentVectE = true ∧
    lengthE = .op1 "sqrt" (.op1 "sum" (.mul tangentVectE tangentVectE)) ∧
    normalisedE = .div (.var "vect") (.op1 "norm" (.var "vect")) ∧
    rootFilter = ⟨"parent_id", ">=", "0"⟩ ∧ parentIndexColumn = "node_id" ∧ parentLookupKey = "parent_id" ∧
    zeroLengthFilters = [("points", ⟨"length", "!=", "0"⟩), ("vect", ⟨"length", "!=", "0"⟩), ("length", ⟨"length", "!=", "0"⟩)] := by
  refine ⟨?_, ?_, by decide, by decide, by decide, by decide, by decide, by decide, by decide, by decide⟩
  · first | (simp [midpointE, eval, envOf]; done) | (simp [midpointE, eval, envOf]; ring)
  · first | (simp [tangentVectE, eval, envOf]; done) | (simp [tangentVectE, eval, envOf]; ring)

/-- **src_alpha.** The alpha expressions of `make_dotprops`, `Dotprops.recalculate_tangents` and of the voxel loop all evaluate to
the model's `alpha s₀ s₁ s₂ = (s₀ − s₁)/(s₀ + s₁ + s₂)` guarded by `sum > 0`; in all three the tangent is row `0` of `vh` (the first
right-singular vector) of the SVD of `cptᵀ @ cpt` with `cpt = pt − mean(pt)`. -/
theorem src_alpha (s0 s1 s2 : Rat) :
    eval (envOf [("s[:,0]", s0), ("s[:,1]", s1), ("s[:,2]", s2)]) dotsAlphaE = alpha s0 s1 s2 ∧
    eval (envOf [("s[:,0]", s0), ("s[:,1]", s1), ("s[:,2]", s2)]) recalcAlphaE = alpha s0 s1 s2 ∧
    eval (envOf [("s[:,0]", s0), ("s[:,1]", s1), ("s[:,2]", s2)]) voxelAlphaE = alpha s0 s1 s2 ∧
    interpreted dotsAlphaE = true ∧ interpreted recalcAlphaE = true ∧ interpreted voxelAlphaE = true ∧
    dotsVectIndex = ":,0,:" ∧ recalcVectIndex = ":,0,:" ∧ voxelVectIndex = ":,0,:" ∧
    dotsSvdOfInertia = true ∧ recalcSvdOfInertia = true ∧
    dotsInertiaE = .op2 "matmul" (.op1 "T" (.sub (.var "pt") (.op1 "mean" (.var "pt")))) (.sub (.var "pt") (.op1 "mean" (.var "pt"))) ∧
    recalcInertiaE = dotsInertiaE ∧ voxelInertiaE = dotsInertiaE := by
  refine ⟨?_, ?_, ?_, by decide, by decide, by decide, by decide, by decide, by decide, by decide, by decide, by decide, by decide,
    by decide⟩ <;>
    simp [dotsAlphaE, recalcAlphaE, voxelAlphaE, eval, envOf, alpha]

/-- **src_k_clipping.** `k = min(n_points, k)` evaluates to `kClip`; non-finite rows are dropped *before* the points are counted,
the count before the clip, the clip before the KD-tree query; the tree is built on and queried with the same points (self-hits
included) using the clipped `k`; the same (filtered) points are returned; the clipped `k` is what the `Dotprops` stores; the default `k`
is positive; `recalculate_tangents` refuses `n < k`; skeletons with `k ≤ 0` / `None` go through `neuron2tangents` whose three results
feed `points=`, `vect=`, `length=` in this order, with `k = None`. -/
theorem src_k_clipping (n k : Nat) :
    eval (envOf [("n", (n : Rat)), ("k", (k : Rat))]) clippedKE = ((kClip n k : Nat) : Rat) ∧ interpreted clippedKE = true ∧
    0 < defaultK ∧ dotsOrderOK = true ∧ dotsQuery = ("x", "x", "k") ∧ dotsReturnsPoints = "x" ∧ dotsStoresClippedK = true ∧
    recalcRaises = ⟨"n", "<", "k"⟩ ∧ recalcQuery = ("x.points", "k") ∧
    skeletonBranchCmp = ⟨"k", "<=", "0"⟩ ∧ skeletonBranchAlsoNone = true ∧ skeletonBranchFeeds = [0, 1, 2] ∧
    skeletonBranchK = "None" := by
  refine ⟨?_, by decide, by decide, by decide, by decide, by decide, by decide, by decide, by decide, by decide, by decide,
    by decide, by decide⟩
  simp [clippedKE, eval, envOf, kClip]
  split
  · rename_i h; exact (min_eq_left (by exact_mod_cast h)).symm
  · rename_i h; exact (min_eq_right (by have := not_le.mp h; exact_mod_cast le_of_lt this)).symm

/-- **set_points_invalidates_tree.** With the `points` setter as it is in the current source (it resets `_tree` on every path) and
`kdtree` rebuilding from the current points when there is no tree: after `dp.points = B` — whatever tree was cached before, same
shape or not — every KD-tree query (`recalculate_tangents`, lazy `vect` / `alpha`, `sampling_resolution`, `snap`) searches `B`, and the
tree cached by that query is a tree of `B`.  A setter that keeps the tree would search the old cloud (second part). -/
theorem set_points_invalidates_tree (s : DpState) (B : List P3) :
    queriedCloud (setPoints pointsSetterResetsTree s B) = B ∧
    (touchTree (setPoints pointsSetterResetsTree s B)).tree = some B ∧
    pointsSetterStores = true ∧ kdtreeRebuildsWhenInvalid = true ∧ kdtreeBuiltFrom = "self.points" ∧
    (∀ A, queriedCloud (setPoints false ⟨A, some A⟩ B) = A) := by
  refine ⟨?_, ?_, by decide, by decide, by decide, fun A => rfl⟩
  · have h : pointsSetterResetsTree = true := by decide
    rw [h]; rfl
  · have h : pointsSetterResetsTree = true := by decide
    rw [h]; rfl

example : queriedCloud (setPoints true ⟨[⟨0, 0, 0⟩], some [⟨0, 0, 0⟩]⟩ [⟨5, 5, 5⟩]) = [⟨5, 5, 5⟩] ∧
    queriedCloud (setPoints false ⟨[⟨0, 0, 0⟩], some [⟨0, 0, 0⟩]⟩ [⟨5, 5, 5⟩]) = [⟨0, 0, 0⟩] := by decide +kernel

/-- **src_mesh_vertices.** Marching-cubes vertices are placed at `(index − pad + voxel offset)·spacing` in the single-pass path and at
`(index + voxel offset)·spacing` in the chunked path (`index` in voxels), i.e. on the grid `index·units` of the `VoxelNeuron`, to which
`voxels2mesh` adds `vox.offset`; the spacing is the neuron's `units_xyz.magnitude`; the iso level is ½.  The tube mesh repeats every
node of a segment `tube_points` times in its `vertex_map` (segments addressed by row position, no vertex merging); a single-node
segment, for which `make_tube` produces nothing, becomes a sphere of the node's radius (× scale factor) centred on the node whose
vertices are all mapped to that node; `mesh2skeleton` takes `vertex_map` from skeletor's `mesh_map` and re-maps shaved bristles to their parents. -/
theorem src_mesh_vertices (m o s : Rat) :
    eval (envOf [("verts", m * s), ("offset", o), ("spacing", s)]) singleVertsE = (m - (singlePad : Rat) + o) * s ∧
    eval (envOf [("verts", m), ("offset", o), ("spacing", s)]) chunkedVertsE = (m + o) * s ∧
    interpreted singleVertsE = true ∧ interpreted chunkedVertsE = true ∧
    voxelMeshAddsOffset = true ∧ voxelMeshAutoSpacing = "vox.units_xyz.magnitude" ∧ singleMarchingSpacing = "spacing" ∧
    marchingLevel = "0.5" ∧
    tubeVertexMapRepeat = "tube_points" ∧ tubeVertexMapConds = [⟨"len(segment)", ">", "1"⟩] ∧ tubeMeshProcess = false ∧
    tubeSegmentsByPosition = true ∧ tubeSingleNodeSegments = "sphere" ∧
    skeletonVertexMapFrom = "skeleton.mesh_map" ∧ skeletonBristleRemap = true := by
  refine ⟨?_, ?_, by decide, by decide, by decide, by decide, by decide, by decide, by decide, by decide, by decide, by decide,
    by decide, by decide, by decide⟩
  · first | (simp [singleVertsE, singlePad, eval, envOf]; done) | (simp [singleVertsE, singlePad, eval, envOf]; ring)
  · first | (simp [chunkedVertsE, eval, envOf]; done) | (simp [chunkedVertsE, eval, envOf]; ring)

end source

end Navis.Props.C19
