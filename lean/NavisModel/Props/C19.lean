import NavisModel.Proofs.VoxelLemmas
/-!
# C19 — conversions between representations are geometrically faithful

Property theorems only; helper lemmas live in `Proofs/VoxelLemmas.lean`, the executable model in
`Model/Voxel.lean`.  Vocabulary:

* `roundHalfEven q` — numpy's `round`; `Grid` — per-axis `pitch`, bounds `lo`/`hi` (default: the neuron's bounding
  box) and the unit magnitudes `u` of the input neuron; `PosGrid g` — all pitches and unit magnitudes positive.
* `voxIdx g p` — the voxel index `neuron2voxels` computes for point `p`: `round(p/pitch) − round(lo/pitch)` per axis;
  `shape g` — `ceil(hi/pitch) − floor(lo/pitch) + 1`; `inGrid g v` — `0 ≤ v < shape`; `filled g pts` — the distinct
  in-grid voxels (the `True` cells); `counts g pts` — the same voxels with the number of points per voxel.
* `coord g v = gridOffset g + v · gridUnits g` — where the resulting `VoxelNeuron` puts voxel `v`
  (`offset = lo/pitch·pitch·u`, `units = pitch·u`); a point `p` of the input sits at `u · p` in that space.
* `tangents t` — `neuron2tangents` on a node table `t` before normalisation.

Validated by correspondence only (external numerics): KD-tree neighbour search, SVD (principal axis and singular
values), the normalisation `vect / |vect|`, marching cubes, tube meshing, skeletonisation.
-/
namespace Navis.Props.C19
open Navis.Voxel

/-! ## 1. rounding -/

/-- **roundHalfEven_spec.** The rounded value is within ½ of the argument, exact ties go to the even neighbour,
and whenever an integer is strictly nearer than ½ it is the result. -/
theorem roundHalfEven_spec (q : Rat) :
    ((roundHalfEven q : Rat) - q ≤ 1 / 2 ∧ q - (roundHalfEven q : Rat) ≤ 1 / 2) ∧
    (q - (q.floor : Rat) = 1 / 2 → roundHalfEven q % 2 = 0) ∧
    (∀ n : Int, (n : Rat) - q < 1 / 2 → q - (n : Rat) < 1 / 2 → roundHalfEven q = n) :=
  ⟨⟨round_upper q, round_lower q⟩, round_tie_even q, fun n h1 h2 => round_nearest q n h1 h2⟩

/-- Rounding is monotone and fixes integers (the two facts the index bounds rest on). -/
theorem roundHalfEven_mono_fix : (∀ a b : Rat, a ≤ b → roundHalfEven a ≤ roundHalfEven b) ∧
    (∀ n : Int, roundHalfEven (n : Rat) = n) :=
  ⟨fun _ _ h => round_mono h, round_intCast⟩

example : roundHalfEven (1 / 2) = 0 ∧ roundHalfEven (3 / 2) = 2 ∧ roundHalfEven (5 / 2) = 2 ∧
    roundHalfEven (-1 / 2) = 0 ∧ roundHalfEven (-3 / 2) = -2 ∧ roundHalfEven (7 / 4) = 2 ∧
    roundHalfEven (-5 / 4) = -1 := by decide +kernel

/-! ## 2. voxelisation -/

/-- **voxel_within_pitch.** Every point — inside the bounds or not — lies, on every axis, within one voxel size of
the coordinate at which the `VoxelNeuron` places the voxel computed for it (both measured in the grid's space:
the point at `u·p`, the voxel at `offset + idx·units`).  The bound is one full pitch, not half, because the code
rounds the point and the lower bound separately and does not snap the offset to the grid. -/
theorem voxel_within_pitch (g : Grid) (hg : PosGrid g) (p : P3) :
    (g.u.x * p.x - (coord g (voxIdx g p)).x ≤ (gridUnits g).x ∧ -(gridUnits g).x ≤ g.u.x * p.x - (coord g (voxIdx g p)).x) ∧
    (g.u.y * p.y - (coord g (voxIdx g p)).y ≤ (gridUnits g).y ∧ -(gridUnits g).y ≤ g.u.y * p.y - (coord g (voxIdx g p)).y) ∧
    (g.u.z * p.z - (coord g (voxIdx g p)).z ≤ (gridUnits g).z ∧ -(gridUnits g).z ≤ g.u.z * p.z - (coord g (voxIdx g p)).z) :=
  ⟨within1 _ _ _ _ hg.1.1 hg.2.1, within1 _ _ _ _ hg.1.2.1 hg.2.2.1, within1 _ _ _ _ hg.1.2.2 hg.2.2.2⟩

/-- **voxel_in_bounds.** A point inside the requested bounds (inclusive) gets an index inside the grid:
`0 ≤ idx < shape` on every axis, so it is never dropped. -/
theorem voxel_in_bounds (g : Grid) (hg : PosGrid g) (p : P3) (h : inBounds g p = true) :
    (0 ≤ (voxIdx g p).x ∧ (voxIdx g p).x < (shape g).x) ∧ (0 ≤ (voxIdx g p).y ∧ (voxIdx g p).y < (shape g).y) ∧
    (0 ≤ (voxIdx g p).z ∧ (voxIdx g p).z < (shape g).z) :=
  (inGrid_iff g _).mp (inGrid_of_inBounds g hg p h)

/-- **voxel_covers.** Every point inside the bounds is within one voxel size (per axis) of a *filled* voxel of the
resulting grid. -/
theorem voxel_covers (g : Grid) (hg : PosGrid g) (pts : List P3) (p : P3) (hp : p ∈ pts) (h : inBounds g p = true) :
    ∃ v ∈ filled g pts, nearB g p v = true :=
  ⟨voxIdx g p, (mem_filled g pts _).mpr ⟨⟨p, hp, rfl⟩, inGrid_of_inBounds g hg p h⟩, near_own g hg p⟩

/-- **filled_stays_inside.** The grid stays inside the requested bounds: every filled voxel comes from a point,
has an index in `[0, shape)`, and its coordinate lies in `[u·lo, u·(hi + 2·pitch))` on every axis. -/
theorem filled_stays_inside (g : Grid) (hg : PosGrid g) (pts : List P3) (v : I3) (hv : v ∈ filled g pts) :
    (∃ p ∈ pts, voxIdx g p = v) ∧ inGrid g v = true ∧
    (g.u.x * g.lo.x ≤ (coord g v).x ∧ (coord g v).x < g.u.x * (g.hi.x + 2 * g.pitch.x)) ∧
    (g.u.y * g.lo.y ≤ (coord g v).y ∧ (coord g v).y < g.u.y * (g.hi.y + 2 * g.pitch.y)) ∧
    (g.u.z * g.lo.z ≤ (coord g v).z ∧ (coord g v).z < g.u.z * (g.hi.z + 2 * g.pitch.z)) := by
  obtain ⟨hsrc, hin⟩ := (mem_filled g pts v).mp hv
  obtain ⟨⟨x0, x1⟩, ⟨y0, y1⟩, ⟨z0, z1⟩⟩ := (inGrid_iff g v).mp hin
  exact ⟨hsrc, hin, coord1_extent _ _ _ _ _ hg.1.1 hg.2.1 x0 x1, coord1_extent _ _ _ _ _ hg.1.2.1 hg.2.2.1 y0 y1,
    coord1_extent _ _ _ _ _ hg.1.2.2 hg.2.2.2 z0 z1⟩

/-- The executable checkers the driver evaluates on navis' own grid mean what they say, and the model's grid
passes them. -/
theorem checkers_sound (g : Grid) (pts : List P3) (F : List I3) :
    (coversB g pts F = true ↔ ∀ p ∈ pts, inBounds g p = true → ∃ v ∈ F, nearB g p v = true) ∧
    (insideB g F = true ↔ ∀ v ∈ F, inGrid g v = true) := by
  constructor
  · unfold coversB
    rw [List.all_eq_true]
    constructor
    · intro h p hp hb
      have := h p hp
      rw [hb] at this
      simpa using this
    · intro h p hp
      by_cases hb : inBounds g p = true
      · obtain ⟨v, hv, hn⟩ := h p hp hb
        have : (F.any fun v => nearB g p v) = true := List.any_eq_true.mpr ⟨v, hv, hn⟩
        simp [this]
      · simp [hb]
  · unfold insideB; exact List.all_eq_true

theorem model_passes_checkers (g : Grid) (hg : PosGrid g) (pts : List P3) :
    coversB g pts (filled g pts) = true ∧ insideB g (filled g pts) = true :=
  ⟨covers_filled g hg pts, inside_filled g pts⟩

/-- **counts_conserved.** With `counts=True` (each filled voxel holds its number of points) the
grid total is exactly the number of points whose voxel lies inside the grid; every entry is the number of points
that share that voxel. -/
theorem counts_conserved (g : Grid) (pts : List P3) :
    gridSum (counts g pts) = nInside g pts ∧
    (∀ e ∈ counts g pts, e.2 = (pts.filter fun p => voxIdx g p = e.1).length ∧ 0 < e.2) := by
  refine ⟨counts_sum g pts, ?_⟩
  intro e he
  unfold counts at he
  obtain ⟨v, hv, rfl⟩ := List.mem_map.mp he
  have hc : (allIdx g pts).count v = (pts.filter fun p => voxIdx g p = v).length := by
    unfold allIdx
    rw [List.count_eq_length_filter, List.filter_map, List.length_map]
    congr 1
  refine ⟨hc, ?_⟩
  obtain ⟨⟨p, hp, rfl⟩, _⟩ := (mem_filled g pts v).mp hv
  exact List.count_pos_iff.mpr (List.mem_map.mpr ⟨p, hp, rfl⟩)

/-- Consequences: no point inside the bounds is lost, and when all points are inside the bounds (in particular
with the default bounds = bounding box) the total is the number of points. -/
theorem counts_conserved_in_bounds (g : Grid) (hg : PosGrid g) (pts : List P3) :
    (pts.filter (inBounds g)).length ≤ gridSum (counts g pts) ∧
    ((∀ p ∈ pts, inBounds g p = true) → gridSum (counts g pts) = pts.length) := by
  rw [counts_sum]
  unfold nInside
  constructor
  · apply List.Sublist.length_le
    apply List.monotone_filter_right
    intro p hb
    exact inGrid_of_inBounds g hg p hb
  · intro h
    rw [List.filter_eq_self.mpr (fun p hp => inGrid_of_inBounds g hg p (h p hp))]

/-- **vectors_stay_inside.** With `vectors=True` / `alphas=True` the voxels that receive a vector / alpha value are
exactly the filled voxels of the grid: nothing is written for a point whose voxel lies outside the requested bounds. -/
theorem vectors_stay_inside (g : Grid) (pts : List P3) :
    vectorCells g pts = filled g pts ∧ (∀ v ∈ vectorCells g pts, inGrid g v = true) ∧
    ((∀ p ∈ pts, inGrid g (voxIdx g p) = true) → vectorCells g pts = dedup (allIdx g pts)) :=
  ⟨rfl, fun v hv => ((mem_filled g pts v).mp hv).2, fun h => filled_of_all_inside g pts h⟩

/-- A concrete grid: pitch ½/1/2, bounds `[0,3]×[0,2]×[0,4]`, units 8. -/
def gEx : Grid := ⟨⟨1 / 2, 1, 2⟩, ⟨0, 0, 0⟩, ⟨3, 2, 4⟩, ⟨8, 8, 8⟩⟩
def ptsEx : List P3 := [⟨1 / 4, 1 / 2, 1⟩, ⟨3 / 4, 3 / 2, 3⟩, ⟨3, 2, 4⟩, ⟨1 / 4, 1 / 2, 1⟩, ⟨7 / 2, 0, 0⟩]

example : PosGrid gEx := by unfold PosGrid gEx; norm_num
/-- ties: `¼/½ = ½ → 0`, `¾/½ = 3/2 → 2`, `½ → 0`, `3/2 → 2`; the last point is outside the bounds and is clipped
(`7 ≥ shape.x = 7`). -/
example : shape gEx = ⟨7, 3, 3⟩ ∧ allIdx gEx ptsEx = [⟨0, 0, 0⟩, ⟨2, 2, 2⟩, ⟨6, 2, 2⟩, ⟨0, 0, 0⟩, ⟨7, 0, 0⟩] ∧
    counts gEx ptsEx = [(⟨2, 2, 2⟩, 1), (⟨6, 2, 2⟩, 1), (⟨0, 0, 0⟩, 2)] ∧ nInside gEx ptsEx = 4 ∧
    (ptsEx.filter (inBounds gEx)).length = 4 := by decide +kernel
/-- (Historical: before the fix `neuron2voxels(counts=True)` raised `shape mismatch` on this input, because the counts
were not filtered together with the clipped voxel `⟨7, 0, 0⟩`; the repaired code returns `counts gEx ptsEx`, total 4.) -/
example : gridSum (counts gEx ptsEx) = 4 ∧ vectorCells gEx ptsEx = [⟨2, 2, 2⟩, ⟨6, 2, 2⟩, ⟨0, 0, 0⟩] := by decide +kernel

/-! ## 3. skeleton → tangents (`make_dotprops(skeleton, k=0)`) -/

/-- **tangent_midpoint_and_length.** If every parent id resolves (`edgePairs t = some es`, otherwise pandas raises
`KeyError`), the tangents are, in row order, exactly one per child/parent pair at *different* positions
(zero-length edges are dropped, nothing else), and for each of them: the point is the midpoint `(child+parent)/2`,
equidistant from both ends; the (un-normalised) vector is `child − parent`, which is parallel to the
child→parent vector `parent − child` (cross product zero).  Tangents are unoriented directions (NBLAST uses `|dot|`,
the k > 0 path returns an arbitrary sign), so the sign is not part of the property; for the record the code's
orientation is `child − parent = −(parent − child)`.  The recorded squared length is `|child − parent|² > 0`. -/
theorem tangent_midpoint_and_length (t : List Row) (es : List (P3 × P3)) (h : edgePairs t = some es) :
    ∃ ts, tangents t = some ts ∧
      ts = (es.filter fun e => decide (e.1 ≠ e.2)).map (fun e => edgeTangent e.1 e.2) ∧
      ts.length = (es.filter fun e => decide (e.1 ≠ e.2)).length ∧
      ∀ e ∈ es, e.1 ≠ e.2 →
        edgeTangent e.1 e.2 ∈ ts ∧
        (edgeTangent e.1 e.2).point = half (add e.1 e.2) ∧
        norm2 (sub (edgeTangent e.1 e.2).point e.1) = norm2 (sub (edgeTangent e.1 e.2).point e.2) ∧
        (edgeTangent e.1 e.2).vec = sub e.1 e.2 ∧
        cross (edgeTangent e.1 e.2).vec (sub e.2 e.1) = ⟨0, 0, 0⟩ ∧
        (edgeTangent e.1 e.2).vec = scale (-1) (sub e.2 e.1) ∧
        (edgeTangent e.1 e.2).len2 = norm2 (sub e.1 e.2) ∧ 0 < (edgeTangent e.1 e.2).len2 := by
  refine ⟨_, tangents_eq t es h, rfl, by rw [List.length_map], ?_⟩
  intro e he hne
  have hm : (edgeTangent e.1 e.2).point = half (add e.1 e.2) := midpoint_eq e.1 e.2
  refine ⟨List.mem_map.mpr ⟨e, List.mem_filter.mpr ⟨he, by simpa using hne⟩, rfl⟩, hm, ?_, rfl,
    cross_self_neg e.1 e.2, sub_neg e.1 e.2, rfl, ?_⟩
  · rw [hm, (midpoint_equidistant e.1 e.2).1, (midpoint_equidistant e.1 e.2).2]
  · show 0 < norm2 (sub e.1 e.2)
    have h0 := norm2_nonneg (sub e.1 e.2)
    have h1 : norm2 (sub e.1 e.2) ≠ 0 := fun hz =>
      hne ((sub_eq_zero_iff _ _).mp ((norm2_eq_zero_iff _).mp hz))
    exact lt_of_le_of_ne h0 (Ne.symm h1)

/-- Rows: 1 root, 2 → 1 (length 3), 3 → 2 coincident (dropped), 4 → 3 (length 7), 5 a second root. -/
def tEx : List Row := [⟨1, -1, ⟨0, 0, 0⟩⟩, ⟨2, 1, ⟨1, 2, 2⟩⟩, ⟨3, 2, ⟨1, 2, 2⟩⟩, ⟨4, 3, ⟨3, 5, 8⟩⟩, ⟨5, -1, ⟨9, 9, 9⟩⟩]

example : edgePairs tEx = some [(⟨1, 2, 2⟩, ⟨0, 0, 0⟩), (⟨1, 2, 2⟩, ⟨1, 2, 2⟩), (⟨3, 5, 8⟩, ⟨1, 2, 2⟩)] ∧
    tangents tEx = some [⟨⟨1 / 2, 1, 1⟩, ⟨1, 2, 2⟩, 9⟩, ⟨⟨2, 7 / 2, 5⟩, ⟨2, 3, 6⟩, 49⟩] := by decide +kernel
/-- A dangling parent id is the `KeyError` case. -/
example : tangents [⟨1, 7, ⟨0, 0, 0⟩⟩] = none := by decide +kernel

/-! ## 4. point cloud → dotprops (`make_dotprops(points, k)`) -/

/-- **k_clipped.** The number of neighbours actually used is `min n k`: never more than the number of points,
never more than requested, and exactly `k` when enough points exist. -/
theorem k_clipped (n k : Nat) :
    kClip n k = min n k ∧ kClip n k ≤ n ∧ kClip n k ≤ k ∧ (k ≤ n → kClip n k = k) ∧ (n ≤ k → kClip n k = n) := by
  unfold kClip
  omega

example : kClip 5 20 = 5 ∧ kClip 30 20 = 20 := by decide

/-- **alpha_range.** For all singular values `s₁ ≥ s₂ ≥ s₃ ≥ 0` — including the all-zero spectrum of a neighbourhood
whose points coincide, where the guarded division yields `0` — `alpha` lies in `[0, 1]`.  When they are not all zero it
is `1` exactly for a collinear neighbourhood (`s₂ = s₃ = 0`) and `0` exactly when the two leading values tie. -/
theorem alpha_range (s1 s2 s3 : Rat) (h12 : s2 ≤ s1) (h23 : s3 ≤ s2) (h3 : 0 ≤ s3) :
    (0 ≤ alpha s1 s2 s3 ∧ alpha s1 s2 s3 ≤ 1) ∧
    (0 < s1 + s2 + s3 → (alpha s1 s2 s3 = (s1 - s2) / (s1 + s2 + s3)) ∧ (alpha s1 s2 s3 = 1 ↔ s2 = 0 ∧ s3 = 0) ∧
      (alpha s1 s2 s3 = 0 ↔ s1 = s2)) ∧
    (¬ 0 < s1 + s2 + s3 → alpha s1 s2 s3 = 0) :=
  ⟨alpha_bounds_all s1 s2 s3 h12 h23 h3,
   fun hpos => ⟨by unfold alpha; rw [if_pos hpos], alpha_eq_one_iff s1 s2 s3 h23 h3 hpos, alpha_eq_zero_iff s1 s2 s3 hpos⟩,
   alpha_zero_sum s1 s2 s3⟩

example : alpha 5 2 1 = 3 / 8 ∧ alpha 4 0 0 = 1 ∧ alpha 2 2 1 = 0 ∧ alpha 0 0 0 = 0 := by decide +kernel

/-- **finite_points.** Rows with a non-finite coordinate (NaN or ±inf, modelled as `none`) are dropped and nothing else: the points of the result are the
finite rows, in order, one each. -/
theorem finite_points (l : List (Option P3)) :
    (finitePts l).length = (l.filter Option.isSome).length ∧ (∀ p, p ∈ finitePts l ↔ some p ∈ l) ∧
    (finitePts l).map some = l.filter Option.isSome := by
  unfold finitePts
  refine ⟨?_, ?_, ?_⟩
  · induction l with
    | nil => rfl
    | cons a l ih => cases a <;> simp_all
  · intro p; simp [List.mem_filterMap]
  · induction l with
    | nil => rfl
    | cons a l ih => cases a <;> simp_all

/-- **collinear_principal_axis.** For a collinear neighbourhood (centred points `tᵢ·d`) the inertia matrix has `d`
as an eigenvector with eigenvalue `(Σtᵢ²)|d|²` and kills every vector orthogonal to `d`: the principal axis is the
line direction and the other two singular values vanish (so `alpha = 1` by `alpha_range`). -/
theorem collinear_principal_axis (d : P3) (ts : List Rat) :
    inertiaApply (ts.map fun t => scale t d) d = scale ((ts.map fun t => t * t).sum * norm2 d) d ∧
    ∀ w, dot d w = 0 → inertiaApply (ts.map fun t => scale t d) w = ⟨0, 0, 0⟩ := by
  refine ⟨inertia_collinear d ts d, ?_⟩
  intro w hw
  rw [inertia_collinear, hw]
  unfold scale
  simp

example : inertiaApply ([-2, -1, 0, 1, 2].map fun t => scale t ⟨1, 2, 2⟩) ⟨1, 2, 2⟩ = scale 90 ⟨1, 2, 2⟩ := by
  decide +kernel

end Navis.Props.C19
