import NavisModel.Proofs.HeapLemmas
import NavisModel.Proofs.HeapTraceLemmas
import NavisModel.Gen.InplaceSpec
import NavisModel.Proofs.HeapDeepLemmas
import NavisModel.Model.InputWrites
import NavisModel.Gen.InputWrites
import NavisModel.Gen.CopySpec
import NavisModel.Proofs.HeapParLemmas
import NavisModel.Gen.ParSpec
import NavisModel.Proofs.HeapHistLemmas
/-!
# C03 — inputs are never modified unless `inplace=True`; inplace is equivalent

Property theorems only; helper lemmas live in `Proofs/HeapLemmas.lean`, the executable model in `Model/Heap.lean`,
the per-function facts extracted from the navis source in `Gen/InplaceSpec.lean`.

What is proved is the **pattern** navis uses in every manipulation function —
`if not inplace: x = x.copy()` ; body(x) ; `return x` — over a heap model with object identity, shallow
per-attribute copies and the networkx graph handed to the copy as a *view* (alias).  It is proved for every store,
every receiver and every body (a list of in-place writes / re-bindings with arbitrary value functions) subject to
the syntactic discipline `writesOwn` (no in-place graph write while the graph may still be a view).  The individual
function bodies are *not* modelled: that each public function follows the pattern is (i) checked syntactically by the
translator (`all_guarded`, over the generated table) and (ii) tested by the catalogue sweep of `harness/c03.py`.

Vocabulary: `Ext s t` — every data / object / list cell of `s` is present and unchanged in `t`;
`Sep s x` — `x` is a valid object bound to valid, pairwise distinct containers; `s.abs x` — the address-free
observable state of `x`; `aexec a b` — the address-free semantics of body `b` from state `a`.
-/
namespace Navis.Props.C03
open Navis.Heap Navis.Gen.InplaceSpec

/-! ## 1. frame: a non-inplace call modifies nothing that existed before -/

/-- **noninplace_frame.** For every store, receiver, staleness and every body that respects `writesOwn`, the call
without `inplace` only allocates: every cell of the old store — in particular the input object and every container
reachable from it — is unchanged. -/
theorem noninplace_frame (b : List Stmt) (s : Store) (x : Ref) (stale : Bool) (hw : writesOwn true b = true) :
    Ext s (call b s x false stale).1 :=
  call_ext b s x stale hw

/-- The same, read from the input: its `__dict__`, every container reachable from it and its observable state are
what they were (and the executable checker `frameB` the driver runs says so). -/
theorem noninplace_frame_input (b : List Stmt) (s : Store) (x : Ref) (stale : Bool) (hw : writesOwn true b = true)
    (hx : Sep s x) :
    let t := (call b s x false stale).1
    t.objs[x]? = s.objs[x]? ∧ (∀ r, r ∈ (s.obj x).refs → t.data[r]? = s.data[r]?) ∧ t.abs x = s.abs x ∧
      frameB s t x = true := by
  intro t
  obtain ⟨h1, h2, h3⟩ := (noninplace_frame b s x stale hw).frame hx
  exact ⟨h1, h2, h3, (frameB_iff s t x).mpr ⟨h1, h2⟩⟩

/-- `@lock_neuron` increments `_lock` on the *input* and decrements it afterwards: the net effect on the input is
nil, so the frame survives the decorator. -/
theorem lock_restored (b : List Stmt) (s : Store) (x : Ref) (hx : x < s.objs.length) (hw : writesOwn true b = true) :
    Ext s (callLocked b s x false).1 :=
  callLocked_ext b s x hx hw

/-! ## 2. no leak: later edits of the result never reach the input -/

/-- **no_leak.** After a non-inplace call, any later sequence of edits `b'` of the *result* leaves the old store
unchanged, provided the combined sequence respects `writesOwn` (a later in-place graph edit must be preceded —
in `b` or in `b'` — by a thaw / re-bind / clear of the graph view). -/
theorem no_leak (b b' : List Stmt) (s : Store) (x : Ref) (stale : Bool) (hw : writesOwn true (b ++ b') = true) :
    Ext s (exec (call b s x false stale).1 (call b s x false stale).2 b') := by
  have := call_ext (b ++ b') s x stale hw
  rw [call_append] at this
  exact this

/-- In particular every edit of the result's tables, arrays, igraph and metadata (anything but an in-place edit
of the networkx graph) is harmless after any well-behaved body: no shared tables. -/
theorem no_leak_tables (b b' : List Stmt) (s : Store) (x : Ref) (stale : Bool) (hw : writesOwn true b = true)
    (hb' : ∀ st ∈ b', st.needsOwnGraph = false) :
    Ext s (exec (call b s x false stale).1 (call b s x false stale).2 b') := by
  apply no_leak
  rw [writesOwn_append, hw, writesOwn_noGraphWrite _ b' hb']; rfl

/-- The aliasing case, for the `reroot_skeleton` body as navis writes it.  networkx branch:
`if nx.is_frozen(g): x._graph_nx = g = nx.DiGraph(g)` ; `g.remove_edge(..)/g.add_edges_from(..)` ; node table
edits ; `_clear_temp_attr(exclude=['graph', …])`.  igraph branch: edits of the (deep-copied) igraph, node table
edits, `_clear_temp_attr(exclude=['igraph', …])`.  Both respect `writesOwn`, for all value functions. -/
def rerootNx (f g : Abs → Int) : List Stmt := [.thaw, .wr .graph f, .wr .nodes g, .clear .igraph]
def rerootIg (f g : Abs → Int) : List Stmt := [.wr .igraph f, .wr .nodes g, .clear .graph]

theorem reroot_writesOwn (f g : Abs → Int) :
    writesOwn true (rerootNx f g) = true ∧ writesOwn true (rerootIg f g) = true := ⟨rfl, rfl⟩

theorem reroot_frame (f g : Abs → Int) (s : Store) (x : Ref) :
    Ext s (call (rerootNx f g) s x false).1 ∧ Ext s (call (rerootIg f g) s x false).1 :=
  ⟨noninplace_frame _ s x false rfl, noninplace_frame _ s x false rfl⟩

/-- Without the thaw the same body is rejected by `writesOwn` … -/
theorem reroot_without_thaw_rejected (f g : Abs → Int) :
    writesOwn true [.wr .graph f, .wr .nodes g, .clear .igraph] = false := rfl

/-! ## 3. inplace: same object, same final state -/

/-- **inplace_identity.** With `inplace=True` the very object passed in is returned; without, a fresh object
(one that did not exist in the old store, hence different from every old object). -/
theorem inplace_identity (b : List Stmt) (s : Store) (x : Ref) (stale : Bool) :
    (call b s x true stale).2 = x ∧
    (call b s x false stale).2 = s.objs.length ∧ (x < s.objs.length → (call b s x false stale).2 ≠ x) := by
  refine ⟨rfl, call_snd_false b s x stale, ?_⟩
  intro hx; rw [call_snd_false]; exact Nat.ne_of_gt hx

/-- **inplace_equiv.** For every body (no `writesOwn` needed) and every separated receiver whose graphs are not
stale, the observable state of the object after the in-place call equals the observable state of the result of the
non-inplace call; both equal the address-free run of the body on the input's state. -/
theorem inplace_equiv (b : List Stmt) (s : Store) (x : Ref) (hx : Sep s x) :
    (call b s x true).1.abs (call b s x true).2 = (call b s x false).1.abs (call b s x false).2 ∧
    (call b s x true).1.abs (call b s x true).2 = aexec (s.abs x) b := by
  have h1 := (call_abs_inplace b hx false).2
  have h2 := (call_abs_copy b hx false).2
  simp only [Bool.false_eq_true, if_false] at h2
  exact ⟨h1.trans h2.symm, h1⟩

/-- For a stale receiver `copy` drops the cached graphs; the two calls still agree for every body that (like all
navis bodies, through `_clear_temp_attr`) starts by dropping the cached graphs itself. -/
theorem inplace_equiv_stale (b : List Stmt) (s : Store) (x : Ref) (hx : Sep s x) :
    let b' := Stmt.clear .graph :: Stmt.clear .igraph :: b
    (call b' s x true true).1.abs (call b' s x true true).2 = (call b' s x false true).1.abs (call b' s x false true).2 := by
  intro b'
  rw [(call_abs_inplace b' hx true).2, (call_abs_copy b' hx true).2]
  simp only [if_true, b', aexec, List.foldl_cons, astep]
  congr 1

/-- The in-place call touches nothing but the receiver's own `__dict__`, the containers it was bound to, and cells
it allocates: other objects and their tables are unchanged. -/
theorem inplace_local (b : List Stmt) (s : Store) (x : Ref) (hx : x < s.objs.length) :
    Loc s (call b s x true).1 x := by
  simp only [call, if_true]; exact exec_loc b hx

/-! ## 4. NeuronList mapping -/

/-- **maplist, `inplace=False`.** The wrapper returns a *new* list object; the old store — the old list, its
neurons and all their tables — is unchanged; the result has one neuron per input neuron, in order, each a fresh
object whose observable state is the body run on the corresponding input's state. -/
theorem maplist_noninplace (b : List Stmt) (s : Store) (l : Ref) (hw : writesOwn true b = true) :
    let r := mapList b s l false
    Ext s r.1 ∧ r.2 = s.lists.length ∧ (r.1.lst r.2).length = (s.lst l).length ∧
    ∀ (i : Nat) (x : Nat), (s.lst l)[i]? = some x → Sep s x →
      ∃ y, (r.1.lst r.2)[i]? = some y ∧ s.objs.length ≤ y ∧ r.1.abs y = aexec (s.abs x) b := by
  intro r
  obtain ⟨h1, h2, h3, h4⟩ := mapCalls_copy b hw (s.lst l) s
  have hl : (mapCalls b s (s.lst l) false).1.lists = s.lists := mapCalls_lists b false _ s
  have hr2 : r.2 = s.lists.length := by
    show (mapCalls b s (s.lst l) false).1.lists.length = _; rw [hl]
  have hlst : r.1.lst r.2 = (mapCalls b s (s.lst l) false).2 := by
    rw [hr2, ← congrArg List.length hl]; exact lst_allocLst_new _ _
  refine ⟨h1.allocLst _, hr2, by rw [hlst, h2], ?_⟩
  intro i x hi hx
  obtain ⟨y, hy, _, hy3⟩ := h4 i x hi hx
  exact ⟨y, by rw [hlst]; exact hy, h3 y (List.mem_of_getElem? hy), hy3⟩

/-- **maplist, `inplace=True`.** The wrapper returns the *same* list object, holding the same neuron objects in
the same order (the swap `nl.neurons = res.neurons` puts back what the serial run returned), and no neuron object
was created. -/
theorem maplist_inplace (b : List Stmt) (s : Store) (l : Ref) (hl : l < s.lists.length)
    (hv : ∀ x ∈ s.lst l, x < s.objs.length) :
    let r := mapList b s l true
    r.2 = l ∧ r.1.lst l = s.lst l ∧ r.1.objs.length = s.objs.length := by
  intro r
  have hsnd := mapCalls_inplace_snd b (s.lst l) s
  have hlists := mapCalls_lists b true (s.lst l) s
  have hlen := (mapCalls_inplace_lists b (s.lst l) s hv).2
  refine ⟨rfl, ?_, hlen⟩
  show (((mapCalls b s (s.lst l) true).1.allocLst (mapCalls b s (s.lst l) true).2).1.setLst l _).lst l = _
  rw [lst_setLst_same (by simp [Store.allocLst, hlists]; omega)]
  rw [allocLst_snd, lst_allocLst_new, hsnd]

/-- … and every member (members pairwise distinct objects sharing no container) ends in the state the body
produces from its own initial state — the same state the corresponding member of the non-inplace result has. -/
theorem maplist_inplace_members (b : List Stmt) (s : Store) (l : Ref) (hs : ∀ x ∈ s.lst l, Sep s x)
    (hd : (s.lst l).Pairwise (Disj s)) :
    ∀ x ∈ s.lst l, (mapList b s l true).1.abs x = aexec (s.abs x) b := by
  intro x hx
  exact (mapCalls_inplace_abs b (s.lst l) s hs hd x hx).2

/-- If the swap is dropped (the wrapper returns `res`), an `inplace=True` call on a list hands back a different
list object: identity is lost. -/
theorem maplist_noswap_loses_identity (b : List Stmt) (s : Store) (l : Ref) (hl : l < s.lists.length) :
    (mapListNoSwap b s l true).2 ≠ l := by
  show (mapCalls b s (s.lst l) true).1.lists.length ≠ l
  rw [mapCalls_lists]; exact Nat.ne_of_gt hl

/-! ## 4b. `map_neuronlist(..., parallel=True)`: forced `inplace=True` on the jobs needs every job to run on a pickled copy -/

/-- **forced inplace + per-job copy ⇒ frame.**  A parallel call without `inplace` leaves the old store — the list, its neurons,
all their tables — unchanged and returns a new list, for every body respecting `writesOwn`, provided the decorator does not force
`inplace=True` on the jobs, or every job runs in the pool (on a pickled copy of its neuron). -/
theorem forced_inplace_pooled_frame (b : List Stmt) (s : Store) (l : Ref) (forced pooled : Bool)
    (hw : writesOwn true b = true) (h : forced = false ∨ pooled = true) :
    Ext s (mapListPar b s l false true forced pooled).1 ∧ (mapListPar b s l false true forced pooled).2 = s.lists.length := by
  have hp : (if (true && forced) = true then true else false) = false ∨ (true && pooled) = true := by
    cases forced <;> cases pooled <;> simp at h ⊢
  have he := parCalls_ext b hw _ _ hp (s.lst l) s
  refine ⟨?_, ?_⟩
  · simp only [mapListPar, Bool.false_eq_true, if_false]
    exact he.allocLst _
  · simp only [mapListPar, Bool.false_eq_true, if_false, Store.allocLst]
    have : ∀ (xs : List Ref) (u : Store) (ip pl : Bool), (parCalls b u xs ip pl).1.lists = u.lists := by
      intro xs; induction xs with
      | nil => intro u ip pl; rfl
      | cons x xs ih =>
        intro u ip pl
        show (parCalls b (runJob b u x ip pl).1 xs ip pl).1.lists = u.lists
        rw [ih]
        cases pl <;> simp [runJob, call_lists, copyObj_lists]
    rw [this]

/-- **forced inplace + serial execution ⇒ the input is written** (seeded change C03_5: a "no pool for a single job" fallback
inside `NeuronProcessor.__call__`).  For a one-neuron list whose member has a node table, the parallel call without `inplace`
changes the member's node table, is not a frame, and hands back a list holding the member object itself. -/
theorem forced_inplace_serial_writes_input (s : Store) (l x r : Ref) (hl : s.lst l = [x])
    (hn : (s.obj x).nodes = some r) (hr : r < s.data.length) :
    let t := mapListPar [.wr .nodes bump] s l false true true false
    t.1.rd r = s.rd r + 1 ∧ ¬ Ext s t.1 ∧ t.1.lst t.2 = [x] := by
  intro t
  obtain ⟨h1, h2⟩ := runJob_serial_inplace_bump hn hr
  have ht : t = (runJob [.wr .nodes bump] s x true false).1.allocLst [(runJob [.wr .nodes bump] s x true false).2] := by
    show mapListPar [.wr .nodes bump] s l false true true false = _
    simp only [mapListPar, hl, parCalls, Bool.and_self, Bool.and_false, Bool.false_eq_true, if_true, if_false]
  have ht1 : t.1.rd r = s.rd r + 1 := by rw [ht]; exact h1
  refine ⟨ht1, ?_, ?_⟩
  · intro he
    have := he.rd hr
    rw [ht1] at this
    omega
  · rw [ht, allocLst_snd, lst_allocLst_new, h2]

/-- **The premise, against the source.**  In the current source either `map_neuronlist` does not force `inplace=True` on the jobs
of a parallel call, or `NeuronProcessor.__call__` runs every job of a parallel call in the pool: `parallel` is not re-assigned
after it was read, the branch is the bare `if parallel:`, its body maps the jobs through the pool and contains no serial call.
(`TreeNeuron.__getstate__` drops both graphs: a worker's copy has no view of the caller's graph.) -/
theorem parallel_premise :
    (Navis.Gen.ParSpec.forced = false ∨ Navis.Gen.ParSpec.pooled = true) ∧ Navis.Gen.ParSpec.picklingDropsGraphs = true := by
  decide

/-- Hence a parallel call without `inplace`, as navis is written, leaves the input list and its neurons unchanged. -/
theorem parallel_frame (b : List Stmt) (s : Store) (l : Ref) (hw : writesOwn true b = true) :
    Ext s (mapListPar b s l false true Navis.Gen.ParSpec.forced Navis.Gen.ParSpec.pooled).1 :=
  (forced_inplace_pooled_frame b s l _ _ hw parallel_premise.1).1

/-! ## 5. NeuronList operators -/

/-- `+`, `-`, `&` and `|` (with a neuron — member or not — or with a list) build a new list object and leave the
store, in particular the receiver's own list, as it was. -/
theorem list_ops_frame (s : Store) (l o : Ref) (keep : Ref → Bool) (extra : List Ref) (present : Bool) :
    Ext s (listAdd s l o).1 ∧ Ext s (listFilter s l keep).1 ∧ Ext s (listOrList s l extra).1 ∧
    Ext s (listOr s l o present).1 :=
  ⟨(Ext.refl s).allocLst _, (Ext.refl s).allocLst _, (Ext.refl s).allocLst _, (Ext.refl s).allocLst _⟩

/-- `nl | n` returns a fresh list holding the receiver's neurons, plus `n` exactly when it was not a member. -/
theorem list_or_result (s : Store) (l o : Ref) (present : Bool) :
    (listOr s l o present).2 = s.lists.length ∧
    (listOr s l o present).1.lst (listOr s l o present).2 = (if present then s.lst l else s.lst l ++ [o]) :=
  ⟨rfl, lst_allocLst_new _ _⟩

/-- **HISTORICAL (DESIGN §6 #6, fixed in navis).** `NeuronList.__or__` as written *before* the fix appended a
non-member neuron to the receiver's own list object: for every valid receiver the input list was modified.  The
harness now reports a VIOLATION if this behaviour returns. -/
theorem list_or_prefix_mutated_receiver (s : Store) (l o : Ref) (hl : l < s.lists.length) :
    (listOrPreFix s l o false).1.lst l = s.lst l ++ [o] ∧ ¬ Ext s (listOrPreFix s l o false).1 := by
  have h1 : (listOrPreFix s l o false).1.lst l = s.lst l ++ [o] := by
    simp only [listOrPreFix, Bool.false_eq_true, if_false]
    have : (s.setLst l (s.lst l ++ [o])).lists.length = s.lists.length := by simp [Store.setLst]
    have hext : Ext (s.setLst l (s.lst l ++ [o])) ((s.setLst l (s.lst l ++ [o])).allocLst
        ((s.setLst l (s.lst l ++ [o])).lst l)).1 := (Ext.refl _).allocLst _
    rw [hext.lst (by rw [this]; exact hl), lst_setLst_same hl]
  refine ⟨h1, ?_⟩
  intro he
  have := he.lst hl
  rw [h1] at this
  have := congrArg List.length this
  simp at this

/-! ## 6. the premise, checked against the source text -/

/-- **Soundness of the syntactic premise.** If a function's event trace has no write before the copy guard and no
write through an alias of the original, then running it (every write a write to the node table with an arbitrary
value function) without `inplace` leaves every cell of the old store unchanged. -/
theorem okTrace_frame (f : Abs → Int) (t : List Ev) (s : Store) (x : Ref) (h : okTrace t = true) :
    Ext s (runTrace f t s x false).1 := by
  obtain ⟨h1, h2, h3, _, _⟩ := okTrace_parts h
  exact runTrace_ext f s x t h1 h2 h3

/-- **The premise is necessary.** If some write precedes the guard, the input's node table *is* changed
(for the always-changing write `bump`), whatever follows. -/
theorem write_before_guard_violates (t : List Ev) (s : Store) (x r : Ref) (hn : (s.obj x).nodes = some r)
    (hr : r < s.data.length) (h : noWriteBeforeGuard t = false) :
    (runTrace bump t s x false).1.rd r ≠ s.rd r := by
  have := runTrace_violation s x r hn hr t h
  omega

/-- **The result of a non-inplace call is a fresh object.**  If the trace passes `okTrace` and the function copies
by itself (a `guard` on the path; pure delegations are covered by the callee's row), the object handed back was
allocated during the call: it is none of the objects that existed before, in particular not the input.  This is the
premise `result ≠ input` of `no_leak` / `inplace_identity`, read off the source text. -/
theorem okTrace_result_fresh (f : Abs → Int) (t : List Ev) (s : Store) (x : Ref) (h : okTrace t = true)
    (hg : t.contains .guard = true) :
    s.objs.length ≤ (runTrace f t s x false).2 ∧ (x < s.objs.length → (runTrace f t s x false).2 ≠ x) := by
  obtain ⟨_, _, h3, _, _⟩ := okTrace_parts h
  have := runTrace_fresh f x s.objs.length t (s, x) h3 (Nat.le_refl _) (.inr hg)
  exact ⟨this, fun hx => Nat.ne_of_gt (Nat.lt_of_lt_of_le hx this)⟩

/-- **The premise is necessary (identity).**  A path that ends in `return <input>` — the early "nothing to do"
return placed before `if not inplace: x = x.copy()` — hands the caller the input object itself, whatever `inplace`
says; `okTrace` rejects every trace containing it. -/
theorem retIn_returns_input (f : Abs → Int) (t : List Ev) (s : Store) (x : Ref) (ip : Bool) :
    (runTrace f (t ++ [.retIn]) s x ip).2 = x ∧ okTrace (t ++ [.retIn]) = false := by
  refine ⟨runTrace_snoc_retIn f t s x ip, ?_⟩
  simp [okTrace]

/-- **inplace equivalence, read off the source text.**  If the trace passes `okTrace`, then for every separated
receiver the in-place run and the copying run of the trace end in the same observable state (the state of the very
object passed in vs. the state of the object handed back). -/
theorem okTrace_inplace_equiv (f : Abs → Int) (t : List Ev) (s : Store) (x : Ref) (h : okTrace t = true)
    (hx : Sep s x) :
    (runTrace f t s x true).1.abs (runTrace f t s x true).2 =
      (runTrace f t s x false).1.abs (runTrace f t s x false).2 := by
  obtain ⟨_, h2, h3, h4, _⟩ := okTrace_parts h
  exact runTrace_equiv f x t (s, x) (s, x) h2 h3 h4 hx hx rfl

/-- **The premise is necessary (equivalence).**  `f(x, …, inplace=inplace)` with the result thrown away, after the
copy guard: with `inplace=True` the callee edits `x`, without it the callee edits a second copy that nobody keeps —
for every separated receiver with a node table the two end states differ (for the always-changing write `bump`). -/
theorem lostDelegate_breaks_equiv (s : Store) (x : Ref) (hx : Sep s x) (hn : (s.obj x).nodes ≠ none) :
    (runTrace bump [.guard, .lostDelegate] s x true).1.abs (runTrace bump [.guard, .lostDelegate] s x true).2 ≠
      (runTrace bump [.guard, .lostDelegate] s x false).1.abs (runTrace bump [.guard, .lostDelegate] s x false).2 ∧
    okTrace [.guard, .lostDelegate] = false :=
  ⟨lostDelegate_differs hx hn, by decide⟩

/-- **The generated table.** Every function under `navis/` that takes `inplace` (and every arithmetic dunder
taking `copy`) has, in the *current* source, its copy guard (or a delegation to another function of the table)
before its first write.  `decide` over the complete generated table: deleting the copy line in one function makes
this theorem fail. -/
theorem all_guarded : ∀ e ∈ inplaceSpec, e.2 = true := by decide

/-- Hence, in the heap model, every function of the table leaves the old store unchanged when called without
`inplace` (delegations being covered by the callee's own row). -/
theorem guarded_frame (f : Abs → Int) (s : Store) (x : Ref) :
    ∀ e ∈ inplaceTraces, Ext s (runTrace f e.2 s x false).1 := by
  intro e he
  apply okTrace_frame
  have := all_guarded (e.1, okTrace e.2) (by
    unfold inplaceSpec; exact List.mem_map.mpr ⟨e, he, rfl⟩)
  exact this

/-- … hands back a fresh object whenever it copies by itself … -/
theorem guarded_fresh (f : Abs → Int) (s : Store) (x : Ref) (hx : x < s.objs.length) :
    ∀ e ∈ inplaceTraces, e.2.contains .guard = true → (runTrace f e.2 s x false).2 ≠ x := by
  intro e he hg
  have := all_guarded (e.1, okTrace e.2) (by
    unfold inplaceSpec; exact List.mem_map.mpr ⟨e, he, rfl⟩)
  exact (okTrace_result_fresh f e.2 s x this hg).2 hx

/-- … and ends, in place, in the state of the object the non-inplace call hands back. -/
theorem guarded_equiv (f : Abs → Int) (s : Store) (x : Ref) (hx : Sep s x) :
    ∀ e ∈ inplaceTraces, (runTrace f e.2 s x true).1.abs (runTrace f e.2 s x true).2 =
      (runTrace f e.2 s x false).1.abs (runTrace f e.2 s x false).2 := by
  intro e he
  have := all_guarded (e.1, okTrace e.2) (by
    unfold inplaceSpec; exact List.mem_map.mpr ⟨e, he, rfl⟩)
  exact okTrace_inplace_equiv f e.2 s x this hx

/-! ## 6b. functions WITHOUT an `inplace` flag: what they may leave behind in their input -/

/-- **The annotation whitelist, per function and per column, against the source.**  Every write through the first
parameter that the translator finds in a public function taking no `inplace` / `copy` flag (183 functions scanned in the
baseline) is a documented annotation of that very function (`documented`: one node-table column per analysis function,
`compartment` / `fragment` under the documented `label(s)_only` option) or a write into caller-built records that are not
neurons (`notANeuron`).  No exceptions: the three undocumented writes found by this scan (`split_into_fragments`,
`persistence_points`, `average_skeletons`) are repaired in navis.  `decide` over the complete generated list: a new write to an
input anywhere in the catalogue makes this theorem fail. -/
theorem input_writes_whitelisted : ∀ w ∈ Navis.Gen.InputWrites.inputWrites, Navis.InputWrites.allowed w = true := by decide

/-- the scan is not vacuous: it covers the catalogue -/
theorem input_writes_scan_size : 150 ≤ Navis.Gen.InputWrites.scannedFunctions := by decide

/-- Each analysis function documents exactly ONE node-table column (plus, for `synapse_flow_centrality`, the bookkeeping
attribute naming the method); `break_fragments` documents one column for skeletons and one attribute for meshes. -/
theorem one_annotation_per_function :
    ∀ key ∈ (Navis.InputWrites.documented.map (·.1)).eraseDups,
      (Navis.InputWrites.annotationsOf key "col").length ≤ 1 := by decide

/-! ## 6c. how deep `copy()` copies: tags, cached segment lists, list members -/

open Navis.HeapDeep in
/-- **no_leak for two-level attributes copied two levels deep.**  After `{k: copy.copy(v) for k, v in outer.items()}` every
later edit made through the copy's outer container — in-place edits of any inner container, new inner containers, deleted
ones, in any number and order — leaves every cell of the old store unchanged; the copy starts with the same content. -/
theorem deep1_no_leak (s : Navis.HeapDeep.Store) (r : Nat) (es : List Edit) :
    (applyEdits (deep1 s r).1 (deep1 s r).2 es).take s.length = s ∧ absOf (deep1 s r).1 (deep1 s r).2 = absOf s r := by
  refine ⟨?_, absOf_deep1 s r⟩
  rw [applyEdits_own es (deep1_own s r), deep1_take]

open Navis.HeapDeep in
/-- … hence the input's observable content (the contents of its inner containers) is what it was. -/
theorem deep1_input_unchanged (s : Navis.HeapDeep.Store) (r : Nat) (es : List Edit) (hw : wfB s r = true) :
    absOf (applyEdits (deep1 s r).1 (deep1 s r).2 es) r = absOf s r :=
  absOf_of_take (deep1_no_leak s r es).1 hw

open Navis.HeapDeep in
/-- **a one-level copy of a two-level attribute leaks** (`copy.copy` of a dict of lists / a list of arrays): one in-place
edit of an inner container of the copy changes the input's observable content.  HISTORICAL witnesses: the shared-tag-lists
defect and the shared arrays of the cached `_segments` / `_small_segments` lists (both repaired in navis: `TreeNeuron.copy`
now copies all three two levels deep, see `nested_copied_two_levels`). -/
theorem shallow_copy_leaks (s : Navis.HeapDeep.Store) (r i k : Nat) (v : Int) (hw : wfB s r = true)
    (hk : (kidsOf s r)[i]? = some k) (hv : leafVal s k ≠ v) :
    absOf (wrInner (shallow s r).1 (shallow s r).2 i v) r ≠ absOf s r :=
  shallow_leaks s r i k v hw hk hv

/-- **The generated table: `TreeNeuron.copy` copies `tags` two levels deep** in the current source (the element-wise
`{k: copy.copy(v) …}` after the generic shallow copy).  Removing it makes this theorem fail. -/
theorem tags_copied_two_levels :
    ∀ e ∈ Navis.Gen.CopySpec.nestedMode, e.2.1 = "tags" → e.2.2 = Navis.HeapDeep.CopyMode.deep1 := by decide

open Navis.HeapDeep in
/-- Hence edits of the result's tag dictionary and tag lists never reach the input's tags. -/
theorem tags_no_leak (s : Navis.HeapDeep.Store) (r : Nat) (es : List Edit) :
    ∀ e ∈ Navis.Gen.CopySpec.nestedMode, e.2.1 = "tags" →
      (applyEdits (copyWith e.2.2 s r).1 (copyWith e.2.2 s r).2 es).take s.length = s := by
  intro e he ht
  rw [tags_copied_two_levels e he ht]
  exact (deep1_no_leak s r es).1

/-- **The generated table: every two-level attribute of a `TreeNeuron` — `tags` and the cached segment lists `_segments`,
`_small_segments` — is copied two levels deep** by `TreeNeuron.copy` in the current source. -/
theorem nested_copied_two_levels :
    (∀ e ∈ Navis.Gen.CopySpec.nestedMode, e.2.2 = Navis.HeapDeep.CopyMode.deep1) ∧
    ("TreeNeuron", "_segments", Navis.HeapDeep.CopyMode.deep1) ∈ Navis.Gen.CopySpec.nestedMode ∧
    ("TreeNeuron", "_small_segments", Navis.HeapDeep.CopyMode.deep1) ∈ Navis.Gen.CopySpec.nestedMode := by decide

open Navis.HeapDeep in
/-- Hence edits made through the result's tag dictionary or cached segment lists — in-place edits of a tag list / a segment
array, added or deleted entries — never reach the input's. -/
theorem nested_no_leak (s : Navis.HeapDeep.Store) (r : Nat) (es : List Edit) :
    ∀ e ∈ Navis.Gen.CopySpec.nestedMode,
      (applyEdits (copyWith e.2.2 s r).1 (copyWith e.2.2 s r).2 es).take s.length = s := by
  intro e he
  rw [nested_copied_two_levels.1 e he]
  exact (deep1_no_leak s r es).1

/-- **Every `copy()` method copies every attribute** (applies `copy.copy` / `copy.deepcopy` / the function chosen by the
`deepcopy` flag to each value of `__dict__`; no attribute object is handed to the copy as is), never copies `_lock`, and
`NeuronList.copy` copies every member: the premises `copyObj` = fresh containers and `lock := 0` of the heap model. -/
theorem copy_methods_copy_every_attribute :
    (∀ e ∈ Navis.Gen.CopySpec.copyMethods, e.2.1 ∈ ["copy.copy", "copy.deepcopy", "copy_fn"] ∧ "_lock" ∈ e.2.2.1) ∧
    Navis.Gen.CopySpec.listCopiesMembers = true ∧ 5 ≤ Navis.Gen.CopySpec.copyMethods.length := by decide

/-! ## 7. the run-time checkers the driver evaluates -/

theorem extendsB_sound (s t : Store) : extendsB s t = true ↔ Ext s t := extendsB_iff s t

theorem frameB_sound (s t : Store) (x : Ref) :
    frameB s t x = true ↔ (t.objs[x]? = s.objs[x]? ∧ ∀ r, r ∈ (s.obj x).refs → t.data[r]? = s.data[r]?) :=
  frameB_iff s t x

/-! ## 8. concrete instances (non-vacuity) and negative witnesses -/

/-- a skeleton with node table, connectors, a cached networkx graph and a cached igraph; and a list holding it -/
def s0 : Store :=
  { data := [10, 20, 30, 40],
    objs := [{ nodes := some 0, conns := some 1, graph := some 2, igraph := some 3, info := 7 }],
    lists := [[0]] }

example : Sep s0 0 := by
  refine ⟨by decide, ?_, ?_⟩
  · intro a r h; cases a <;> simp [s0, Store.obj, Obj.get] at h <;> subst h <;> decide
  · intro a a' r h h'; cases a <;> cases a' <;> simp [s0, Store.obj, Obj.get] at h h' <;> first | rfl | omega

/-- the pattern on a concrete body: frame holds, result is a new object, states agree -/
example : extendsB s0 (call (rerootNx bump bump) s0 0 false).1 = true := by decide
example : frameB s0 (call (rerootNx bump bump) s0 0 false).1 0 = true := by decide
example : (call (rerootNx bump bump) s0 0 false).2 = 1 ∧ (call (rerootNx bump bump) s0 0 true).2 = 0 := by decide
example : (call (rerootNx bump bump) s0 0 true).1.abs 0 = (call (rerootNx bump bump) s0 0 false).1.abs 1 := by decide
example : (call (rerootNx bump bump) s0 0 true).1.abs 0 ≠ s0.abs 0 := by decide

/-- **Negative witness 1.** A body statement executed *before* the copy statement violates the frame. -/
example : frameB s0 (badCall [.wr .nodes bump] [] s0 0 false).1 0 = false := by decide
example : frameB s0 (call [.wr .nodes bump] s0 0 false).1 0 = true := by decide
example : okTrace [.write, .branch, .guard] = false ∧ okTrace [.branch, .guard, .write] = true := by decide
example : okTrace [.branch, .guard, .writeIn] = false ∧ okTrace [] = false := by decide
/-- seeded change C03_3 (early `return x` before the guard) and C03_4 (discarded `subset_neuron(x, …, inplace=inplace)`) -/
example : okTrace [.retIn] = false ∧ okTrace [.branch, .guard, .write, .lostDelegate] = false := by decide
example : (runTrace bump [.retIn] s0 0 false).2 = 0 ∧ (runTrace bump [.branch, .guard, .write] s0 0 false).2 = 1 := by decide
example : (runTrace bump [.guard, .lostDelegate] s0 0 true).1.abs 0 ≠
    (runTrace bump [.guard, .lostDelegate] s0 0 false).1.abs (runTrace bump [.guard, .lostDelegate] s0 0 false).2 := by decide
example : (runTrace bump [.branch, .guard, .write] s0 0 true).1.abs 0 =
    (runTrace bump [.branch, .guard, .write] s0 0 false).1.abs 1 := by decide

/-- **Negative witness 2 (aliasing).** Editing the networkx graph of the copy in place, without thawing the view
first, reaches the input's graph; with the thaw it does not. -/
example : frameB s0 (call [.wr .graph bump] s0 0 false).1 0 = false := by decide
example : frameB s0 (call [.thaw, .wr .graph bump] s0 0 false).1 0 = true := by decide

/-- **Negative witness 3 (the other direction of the view).** An in-place graph edit of the *input* shows through
the view held by a copy made earlier (`TreeNeuron.copy` documents this: "changes … can propagate back"). -/
example : let p := copyObj s0 0
    (exec p.1 0 [.wr .graph bump]).abs p.2 ≠ p.1.abs p.2 := by decide

/-- **Historical witness 4.** `nl | n` as written before the fix changed the receiver's list; the repaired operator
and `nl + n` do not. -/
example : (listOrPreFix s0 0 5 false).1.lst 0 = [0, 5] ∧ (listOr s0 0 5 false).1.lst 0 = [0] ∧
    (listAdd s0 0 5).1.lst 0 = [0] := by decide
example : let r := listOr s0 0 5 false; r.1.lst r.2 = [0, 5] := by decide

/-- list mapping: same list object in place, new list object otherwise; dropping the swap loses identity -/
example : (mapList [.wr .nodes bump] s0 0 true).2 = 0 ∧ (mapList [.wr .nodes bump] s0 0 false).2 = 1 ∧
    (mapListNoSwap [.wr .nodes bump] s0 0 true).2 = 1 := by decide
example : extendsB s0 (mapList [.wr .nodes bump] s0 0 false).1 = true := by decide

/-- two neurons with disjoint tables in one list: the hypotheses of `maplist_inplace_members` are satisfiable … -/
def s1 : Store :=
  { data := [10, 20, 110, 120],
    objs := [{ nodes := some 0, conns := some 1, info := 7 }, { nodes := some 2, conns := some 3, info := 8 }],
    lists := [[0, 1], [0, 0]] }

example : (s1.lst 0).Pairwise (Disj s1) := by
  simp only [s1, Store.lst, List.getElem?_cons_zero, Option.getD_some, List.pairwise_cons, List.mem_singleton,
    List.not_mem_nil, false_imp_iff, implies_true, List.Pairwise.nil, and_true, forall_eq]
  exact ⟨by decide, by decide⟩

example : (mapList [.wr .nodes bump] s1 0 true).1.abs 1 = aexec (s1.abs 1) [.wr .nodes bump] := by decide

/-- … and they are needed: a list holding the *same* neuron twice gets the body applied twice in place, but once
per copy otherwise (a degenerate `NeuronList`; the harness checks that navis does exactly this). -/
example : (mapList [.wr .nodes bump] s1 1 true).1.abs 0 ≠ aexec (s1.abs 0) [.wr .nodes bump] := by decide
example : let r := mapList [.wr .nodes bump] s1 1 false
    (r.1.lst r.2).map r.1.abs = [aexec (s1.abs 0) [.wr .nodes bump], aexec (s1.abs 0) [.wr .nodes bump]] := by decide

/-- the generated table is not empty and contains the functions the property names -/
example : 50 ≤ inplaceSpec.length := by decide
example : ("morpho/manipulation.py:prune_by_strahler", true) ∈ inplaceSpec ∧
    ("core/skeleton.py:TreeNeuron.__mul__", true) ∈ inplaceSpec ∧
    ("graph/graph_utils.py:reroot_skeleton", true) ∈ inplaceSpec := by decide

/-- two-level containers: a tag dictionary with two lists; deep copy frames, shallow copy leaks -/
def d0 : Navis.HeapDeep.Store := [.leaf 3, .leaf 5, .node [0, 1]]

example : Navis.HeapDeep.wfB d0 2 = true := by decide
example : Navis.HeapDeep.frameB d0 (Navis.HeapDeep.applyEdits (Navis.HeapDeep.deep1 d0 2).1 (Navis.HeapDeep.deep1 d0 2).2
    [.inner 0 9, .add 4, .del 1, .inner 1 7]) = true := by decide
example : Navis.HeapDeep.absOf (Navis.HeapDeep.wrInner (Navis.HeapDeep.shallow d0 2).1 (Navis.HeapDeep.shallow d0 2).2 0 9) 2
    = [9, 5] ∧ Navis.HeapDeep.absOf d0 2 = [3, 5] := by decide
example : ("morpho/mmetrics.py:strahler_index", "col", "strahler_index") ∈ Navis.Gen.InputWrites.inputWrites := by decide
example : Navis.InputWrites.allowed ("morpho/mmetrics.py:strahler_index", "col", "radius") = false := by decide

/-- parallel map: pooled jobs frame, a serial fallback under forced inplace writes the member (seed C03_5) -/
example : extendsB s0 (mapListPar [.wr .nodes bump] s0 0 false true true true).1 = true := by decide
example : extendsB s0 (mapListPar [.wr .nodes bump] s0 0 false true true false).1 = false ∧
    (mapListPar [.wr .nodes bump] s0 0 false true true false).1.lst 1 = [0] := by decide

/-! ## 9. histories: `x = f₁(x, inplace=i₁); x = f₂(x, inplace=i₂); …` with the flags chosen arbitrarily -/

/-- **history_value.**  For every history (any bodies, any choice of `inplace` per step) on a separated receiver, the observable
state of the value that comes out is the address-free run of the bodies on the input's state: the flags play no role. -/
theorem history_value (h : List (List Stmt × Bool)) (s : Store) (x : Ref) (hx : Sep s x) :
    (runHist h (s, x)).1.abs (runHist h (s, x)).2 = ahist (s.abs x) h ∧ Sep (runHist h (s, x)).1 (runHist h (s, x)).2 :=
  ⟨(runHist_abs h (s, x) hx).2, (runHist_abs h (s, x) hx).1⟩

/-- **history_flags_irrelevant.**  Two histories that apply the same bodies in the same order — with `inplace` chosen in any
two ways, step by step — end in the same observable value. -/
theorem history_flags_irrelevant (h h' : List (List Stmt × Bool)) (s : Store) (x : Ref) (hx : Sep s x)
    (hb : h.map (·.1) = h'.map (·.1)) :
    (runHist h (s, x)).1.abs (runHist h (s, x)).2 = (runHist h' (s, x)).1.abs (runHist h' (s, x)).2 := by
  rw [(history_value h s x hx).1, (history_value h' s x hx).1, ahist_bodies, ahist_bodies, hb]

/-- **history_noninplace_inputs_untouched.**  In any history, the input of every step taken WITHOUT `inplace` — the store as it
was when that step started, hence the object passed to it and all its tables — is unchanged at the end of the history, whatever
flags the later steps use (each body respecting `writesOwn`: thaw / re-bind / clear before an in-place graph edit). -/
theorem history_noninplace_inputs_untouched (pre post : List (List Stmt × Bool)) (b : List Stmt) (s : Store) (x : Ref)
    (hb : writesOwn true b = true) (hw : ∀ op ∈ post, writesOwn true op.1 = true) :
    Ext (runHist pre (s, x)).1 (runHist (pre ++ (b, false) :: post) (s, x)).1 := by
  rw [runHist_append]
  exact runHist_frame_after_copy b post _ hb hw

/-- … in particular a history that starts with a non-inplace step never touches the caller's original object. -/
theorem history_frame (b : List Stmt) (post : List (List Stmt × Bool)) (s : Store) (x : Ref)
    (hb : writesOwn true b = true) (hw : ∀ op ∈ post, writesOwn true op.1 = true) (hx : Sep s x) :
    Ext s (runHist ((b, false) :: post) (s, x)).1 ∧ (runHist ((b, false) :: post) (s, x)).1.abs x = s.abs x := by
  have he := runHist_frame_after_copy b post (s, x) hb hw
  exact ⟨he, (Sep.of_ext he hx).2⟩

/-- **history_identity.**  All steps in place: the very object passed in comes out.  At least one step not in place: the object
that comes out was allocated during the history — it is none of the objects that existed before, in particular not the input. -/
theorem history_identity (h : List (List Stmt × Bool)) (s : Store) (x : Ref) :
    ((∀ op ∈ h, op.2 = true) → (runHist h (s, x)).2 = x) ∧
    ((∃ op ∈ h, op.2 = false) → s.objs.length ≤ (runHist h (s, x)).2 ∧ (x < s.objs.length → (runHist h (s, x)).2 ≠ x)) := by
  refine ⟨fun hall => runHist_all_inplace h (s, x) hall, fun hex => ?_⟩
  have := runHist_fresh s.objs.length h (s, x) (Nat.le_refl _) (.inr hex)
  exact ⟨this, fun hx => Nat.ne_of_gt (Nat.lt_of_lt_of_le hx this)⟩

/-- **maplist_inplace_equiv.**  NeuronList level: for a list of pairwise disjoint, separated members, member `i` of the list
after `f(nl, inplace=True)` is in the state of member `i` of the list returned by `f(nl)` (and both are the body run on the
member's initial state). -/
theorem maplist_inplace_equiv (b : List Stmt) (s : Store) (l : Ref) (hw : writesOwn true b = true)
    (hs : ∀ x ∈ s.lst l, Sep s x) (hd : (s.lst l).Pairwise (Disj s)) :
    ∀ (i : Nat) (x : Nat), (s.lst l)[i]? = some x →
      ∃ y, ((mapList b s l false).1.lst (mapList b s l false).2)[i]? = some y ∧
        (mapList b s l false).1.abs y = (mapList b s l true).1.abs x := by
  intro i x hi
  have hxm : x ∈ s.lst l := List.mem_of_getElem? hi
  obtain ⟨_, _, _, h4⟩ := maplist_noninplace b s l hw
  obtain ⟨y, hy, _, hy3⟩ := h4 i x hi (hs x hxm)
  exact ⟨y, hy, by rw [hy3, maplist_inplace_members b s l hs hd x hxm]⟩

/-- **parallel_job_equiv_serial.**  One job of a parallel call with the decorator's forced `inplace=True`, run in a worker on a
pickled copy (no graphs), ends in the state the serial non-inplace call produces — for every body that (like all navis bodies,
through `_clear_temp_attr`) starts by dropping the cached graphs. -/
theorem parallel_job_equiv_serial (b : List Stmt) (s : Store) (x : Ref) (hx : Sep s x) :
    let b' := Stmt.clear .graph :: Stmt.clear .igraph :: b
    (runJob b' s x true true).1.abs (runJob b' s x true true).2 =
      (runJob b' s x false false).1.abs (runJob b' s x false false).2 := by
  intro b'
  have e1 : runJob b' s x true true = call b' s x false true := by simp [runJob, call]
  have e2 : runJob b' s x false false = call b' s x false false := by simp [runJob]
  rw [e1, e2, (call_abs_copy b' hx true).2, (call_abs_copy b' hx false).2]
  simp only [if_true, Bool.false_eq_true, if_false, b', aexec, List.foldl_cons, astep]
  congr 1

/-- `inplace=True` on a parallel call hands back the same list object (its members are what the jobs returned). -/
theorem parallel_inplace_same_list (b : List Stmt) (s : Store) (l : Ref) (par forced pooled : Bool) :
    (mapListPar b s l true par forced pooled).2 = l := rfl

/-- the frame checker of the two-level model is exact -/
theorem deep_frameB_sound (s t : Navis.HeapDeep.Store) :
    Navis.HeapDeep.frameB s t = true ↔ t.take s.length = s := by
  unfold Navis.HeapDeep.frameB
  constructor
  · intro h
    simp only [Bool.and_eq_true, beq_iff_eq] at h
    exact h.2
  · intro h
    have hl : s.length ≤ t.length := by
      have := congrArg List.length h
      rw [List.length_take] at this
      omega
    simp [hl, h]

/-- **list_ops_history_frame.**  Any sequence of NeuronList operators `+ - & |` (with neurons, members or not, or with lists),
each applied to the result of the previous one, leaves the old store — the receiver's own list and every intermediate list that
already existed — unchanged; a non-empty sequence ends in a list object that did not exist before. -/
theorem list_ops_history_frame (ops : List ListOp) (s : Store) (l : Ref) :
    Ext s (runListOps ops (s, l)).1 ∧
    (ops ≠ [] → s.lists.length ≤ (runListOps ops (s, l)).2 ∧ (l < s.lists.length → (runListOps ops (s, l)).2 ≠ l)) := by
  refine ⟨runListOps_ext ops (s, l), fun hne => ?_⟩
  have := runListOps_fresh s.lists.length ops (s, l) (Nat.le_refl _) (.inr hne)
  exact ⟨this, fun hl => Nat.ne_of_gt (Nat.lt_of_lt_of_le hl this)⟩

/-- non-vacuity: a three-step history on the skeleton `s0` with mixed flags; flags do not matter, the first copy protects `s0` -/
example : (runHist [(rerootNx bump bump, false), ([.wr .nodes bump], true), ([.wr .conns bump], false)] (s0, 0)).1.abs
      (runHist [(rerootNx bump bump, false), ([.wr .nodes bump], true), ([.wr .conns bump], false)] (s0, 0)).2 =
    (runHist [(rerootNx bump bump, true), ([.wr .nodes bump], true), ([.wr .conns bump], true)] (s0, 0)).1.abs 0 := by decide
example : extendsB s0 (runHist [(rerootNx bump bump, false), ([.wr .nodes bump], true), ([.thaw, .wr .graph bump], true)] (s0, 0)).1
    = true := by decide
/-- … and the hypothesis is needed: an in-place graph edit of the result WITHOUT a thaw reaches the original through the view -/
example : extendsB s0 (runHist [([], false), ([.wr .graph bump], true)] (s0, 0)).1 = false := by decide
example : (runHist [([.wr .nodes bump], true), ([.wr .nodes bump], true)] (s0, 0)).2 = 0 ∧
    (runHist [([.wr .nodes bump], true), ([.wr .nodes bump], false)] (s0, 0)).2 = 1 := by decide

example : let r := runListOps [.add 5, .orOne 6 false, .filter (· != 0)] (s0, 0)
    r.1.lst 0 = [0] ∧ r.1.lst r.2 = [5, 6] ∧ r.2 = 3 := by decide

end Navis.Props.C03
