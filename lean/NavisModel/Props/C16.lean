import NavisModel.Proofs.XformLemmas
import NavisModel.Proofs.XformImageLemmas
import NavisModel.Gen.XformFacts
/-!
# C16 — transforming or mirroring a neuron moves its coordinates and nothing else

Property theorems only; helper lemmas live in `Proofs/XformLemmas.lean`, the executable model in
`Model/Xform.lean`.  Vocabulary:

* `f : RowFn` — what the transform (any transform, affine or not, or a sequence) does to one coordinate row.
* `Table α` — coordinate columns `xyz` plus every other column, row-wise, as an opaque `cols : List α`.
* `Neuron α β μ` — kind (skeleton / mesh / dotprops), node|vertex|point table, radius column, tangents, `k`,
  faces, connector table, units, numeric soma radius, and `info : μ` for everything else (name, id, tags, soma).
* `xformNeuron f guess n` — `xfm_funcs.xform` as the code does it: one stacked block
  `points ++ helper points ++ connectors`, transformed once, sliced back by counts; `guess` is the order of
  magnitude `_guess_change` detected (a parameter: its random sample is not modelled).
* `specXform f guess n` — the property: coordinates moved by `f`, nothing else changed (except radius / units /
  soma radius by the power of ten, and tangents recomputed).
* `mirrorNeuron g n` — `mirror_brain` for the row function `g = mirrorFn axis (lo + hi) warp`.
-/
namespace Navis.Props.C16
open Navis.Xform

/-! ## 1. stack, transform once, slice back by counts -/

/-- **stack_slice_blocks.** For EVERY row function and ALL block sizes (any of them zero): slicing the
transformed block by the counts gives back each part transformed on its own — the front slice is the points,
the `[n : n + h]` slice the helper points, the back slice (taken from the end, `k > 0`) the connectors.
Nothing is mixed up between the blocks. -/
theorem stack_slice_blocks (f : RowFn) (pts helpers conns : List V3) :
    sliceFront pts.length ((stack pts helpers conns).map f) = pts.map f
    ∧ (((stack pts helpers conns).map f).drop pts.length).take helpers.length = helpers.map f
    ∧ (helpers.length = pts.length → sliceHelpers pts.length ((stack pts helpers conns).map f) = helpers.map f)
    ∧ (conns.length ≠ 0 → sliceBack conns.length ((stack pts helpers conns).map f) = conns.map f) :=
  ⟨sliceFront_stack f _ _ _, drop_take_stack f _ _ _, sliceHelpers_stack f _ _ _, sliceBack_stack f _ _ _⟩

/-- **stack_slice_exact.** For every row function `f`, every detected magnitude and every neuron of every
kind — zero points, zero / absent / empty connectors, Dotprops with `k` and without — `xform` (as coded) does
not fail and returns exactly `specXform`: under the only guard that a k-less Dotprops has one tangent per
point (otherwise the code raises, see `xform_raises_without_tangents`). -/
theorem stack_slice_exact {α β μ} (f : RowFn) (guess : Int) (n : Neuron α β μ) (h : helpersOK n) :
    xformNeuron f guess n = some (specXform f guess n) :=
  xformNeuron_eq_spec f guess n h

/-- **moves_coordinates_and_nothing_else.** What `specXform` (hence, by `stack_slice_exact`, the code) returns,
field by field: point and connector coordinates are the input's mapped by `f` in the same row order; every
other column of both tables, the faces, `k`, the kind, the sampling resolution and all meta data are the
input's. -/
theorem moves_coordinates_and_nothing_else {α β μ} (f : RowFn) (guess : Int) (n : Neuron α β μ) :
    (specXform f guess n).pts.xyz = n.pts.xyz.map f
    ∧ (specXform f guess n).pts.cols = n.pts.cols
    ∧ (specXform f guess n).conns = n.conns.map (fun t => { t with xyz := t.xyz.map f })
    ∧ (specXform f guess n).faces = n.faces
    ∧ (specXform f guess n).k = n.k
    ∧ (specXform f guess n).kind = n.kind
    ∧ (specXform f guess n).res = n.res
    ∧ (specXform f guess n).info = n.info :=
  ⟨rfl, rfl, rfl, rfl, rfl, rfl, rfl, rfl⟩

/-- Skeletons and meshes never hit the guard. -/
theorem stack_slice_exact_tree_mesh {α β μ} (f : RowFn) (guess : Int) (n : Neuron α β μ)
    (hk : n.kind ≠ Kind.dots) : xformNeuron f guess n = some (specXform f guess n) :=
  xformNeuron_eq_spec f guess n (fun h => absurd h hk)

/-- Outside the guard the code raises: k-less Dotprops whose tangents are missing or of the wrong length. -/
theorem xform_raises_without_tangents {α β μ} (f : RowFn) (guess : Int) (n : Neuron α β μ)
    (hk : n.kind = Kind.dots) (hu : usesHelpers n.k = true)
    (hbad : ∀ v, n.vect = some v → v.length ≠ n.pts.xyz.length) : xformNeuron f guess n = none :=
  xformNeuron_none_of_bad f guess n hk hu hbad

/-- DataFrame / array / Trimesh / Volume branch: coordinates mapped, every other column kept, never fails. -/
theorem xform_table_exact {α} (f : RowFn) (t : Table α) :
    xformTable f t = some { xyz := t.xyz.map f, cols := t.cols } := by
  unfold xformTable
  rw [setXYZ_map]
  rfl

/-- A `TransformSequence` is the composition of its members, applied in list order (so transforming with the
sequence `ts ++ us` is transforming with `ts`, then with `us`). -/
theorem sequence_is_composition (ts us : List Aff) (blk : List V3) :
    blk.map (seqApply (ts ++ us)) = (blk.map (seqApply ts)).map (seqApply us) := by
  rw [List.map_map]
  exact List.map_congr_left fun p _ => seqApply_append ts us p

/-! ## 2. mirroring -/

/-- The flip matrix `mirror` builds is the map `x ↦ size − x` on the chosen axis (every axis, every size). -/
theorem mirror_matrix_is_formula (a : Axis) (s : Rat) (p : V3) :
    mirrorFn a s none p = mirrorPt a s p ∧ (mirrorMat a s).det = -1 :=
  ⟨mirrorMat_apply a s p, mirrorMat_det a s⟩

/-- With `size = lo + hi` (what `mirror_brain` reads off the template's bounding box) the flip is the
reflection about the midplane `(lo + hi) / 2`: the signed distance to it is negated on the mirror axis and the
other two coordinates are kept. -/
theorem mirror_about_midplane (a : Axis) (lo hi : Rat) (p : V3) :
    (mirrorPt a (axisSize lo hi) p).get a - (lo + hi) / 2 = -(p.get a - (lo + hi) / 2)
    ∧ ∀ b, b ≠ a → (mirrorPt a (axisSize lo hi) p).get b = p.get b := by
  refine ⟨?_, fun b hb => mirrorPt_get_other a b _ p hb⟩
  rw [mirrorPt_get_self, axisSize]; ring

/-- **mirror_involution** (points): without a warp, mirroring twice is the identity — every axis, every size. -/
theorem mirror_involution (a : Axis) (s : Rat) (p : V3) :
    mirrorFn a s none (mirrorFn a s none p) = p := by
  simp only [mirrorFn, mirrorMat_apply, mirrorPt_mirrorPt]

/-- **mirror_involution** (whole skeletons and meshes): `mirror_brain ∘ mirror_brain` without warp returns the
neuron itself — coordinates of nodes/vertices and connectors restored, faces re-wound twice, everything else
never touched. -/
theorem mirror_involution_neuron {α β μ} (a : Axis) (s : Rat) (n : Neuron α β μ) (hk : n.kind ≠ Kind.dots) :
    (mirrorNeuron (mirrorFn a s none) n).bind (mirrorNeuron (mirrorFn a s none)) = some n :=
  mirrorNeuron_twice _ (mirror_involution a s) n hk

/-- What one `mirror_brain` does to a mesh: vertices and connectors moved by `g`, every face re-wound,
nothing else. -/
theorem mirror_mesh_spec {α β μ} (g : RowFn) (n : Neuron α β μ) (h : n.kind = Kind.mesh) :
    mirrorNeuron g n = some { n with pts := n.pts.mapXYZ g, faces := n.faces.map rewind,
                                     conns := n.conns.map (Table.mapXYZ g) } :=
  mirrorNeuron_mesh g n h

theorem mirror_tree_spec {α β μ} (g : RowFn) (n : Neuron α β μ) (h : n.kind = Kind.tree) :
    mirrorNeuron g n = some { n with pts := n.pts.mapXYZ g, conns := n.conns.map (Table.mapXYZ g) } :=
  mirrorNeuron_tree g n h

/-- Dotprops: points and connectors moved by `g`; with `k` the tangents are dropped for regeneration, without
`k` the new direction of row `i` is `g pᵢ − g (pᵢ + 2·res·vᵢ)`. -/
theorem mirror_dots_spec {α β μ} (g : RowFn) (n : Neuron α β μ) (h : n.kind = Kind.dots) :
    (usesHelpers n.k = false →
      mirrorNeuron g n = some { n with pts := n.pts.mapXYZ g, vect := none, alpha := none,
                                       conns := n.conns.map (Table.mapXYZ g) })
    ∧ (usesHelpers n.k = true → ∀ v, n.vect = some v → v.length = n.pts.xyz.length →
      mirrorNeuron g n = some { n with
        pts := n.pts.mapXYZ g
        vect := some (List.zipWith (fun p w => V3.sub (g p) (g (V3.add p (V3.smul (n.res * 2) w)))) n.pts.xyz v)
        conns := n.conns.map (Table.mapXYZ g) }) :=
  ⟨mirrorNeuron_dots_k g n h, mirrorNeuron_dots_helpers g n h⟩

/-- `symmetrize_brain` on a coordinate array (masked assignment `x[is_left] = …`): exactly the rows right of
the midplane `lo + (hi − lo)/2` are replaced by `g0 (g p)`, all other rows and the row order are kept. -/
theorem symmetrize_spec (lo hi : Rat) (g g0 : RowFn) (xyz : List V3) :
    symmetrize lo hi g g0 xyz = xyz.map fun p => if lo + (hi - lo) / 2 < p.x then g0 (g p) else p := by
  simp only [symmetrize]
  rw [List.map_map, scatter_filter_map]
  apply List.map_congr_left
  intro p _
  by_cases h : lo + (hi - lo) / 2 < p.x <;> simp [h]

/-- **symmetrize_neuron_spec.** `symmetrize_brain` on a whole neuron, with `h p = if p right of the midplane
then g0 (g p) else p`: node/vertex/point and connector coordinates are moved by `h` and nothing else changes
(faces are not re-wound: two flips cancel); a Dotprops with `k` has its tangents dropped for regeneration; a
k-less Dotprops *keeps* tangents — the direction of row `i` is `h pᵢ − h (pᵢ + 2·res·vᵢ)`, carried through
helper points exactly as `mirror_brain` does (the behaviour since navis' `fix:` commit; before it the tangents
were dropped and `.vect` raised). -/
theorem symmetrize_neuron_spec {α β μ} (lo hi : Rat) (g g0 : RowFn) (n : Neuron α β μ) :
    let h : RowFn := fun p => if lo + (hi - lo) / 2 < p.x then g0 (g p) else p
    (n.kind ≠ Kind.dots →
      symmetrizeNeuron (symmetrize lo hi g g0) n
        = some { n with pts := n.pts.mapXYZ h, conns := n.conns.map (Table.mapXYZ h) })
    ∧ (n.kind = Kind.dots → usesHelpers n.k = false →
      symmetrizeNeuron (symmetrize lo hi g g0) n
        = some { n with pts := n.pts.mapXYZ h, vect := none, alpha := none, conns := n.conns.map (Table.mapXYZ h) })
    ∧ (n.kind = Kind.dots → usesHelpers n.k = true → ∀ v, n.vect = some v → v.length = n.pts.xyz.length →
      symmetrizeNeuron (symmetrize lo hi g g0) n = some { n with
        pts := n.pts.mapXYZ h
        vect := some (List.zipWith (fun p w => V3.sub (h p) (h (V3.add p (V3.smul (n.res * 2) w)))) n.pts.xyz v)
        conns := n.conns.map (Table.mapXYZ h) }) := by
  intro h
  have hS : symmetrize lo hi g g0 = List.map h := funext fun xyz => symmetrize_spec lo hi g g0 xyz
  rw [hS]
  exact ⟨symmetrizeNeuron_tree_mesh h n, symmetrizeNeuron_dots_k h n, symmetrizeNeuron_dots_helpers h n⟩

/-! ## 3. face re-winding -/

/-- **rewind_involution.** Re-winding twice is the identity (one face, and a whole face table). -/
theorem rewind_involution (f : Face) (fs : List Face) :
    rewind (rewind f) = f ∧ (fs.map rewind).map rewind = fs :=
  ⟨rewind_rewind f, map_rewind_rewind fs⟩

/-- Re-winding reverses the orientation of every face: the normal `(B − A) × (C − A)` is negated, for any
vertex positions. -/
theorem rewind_reverses_orientation (verts : List V3) (f : Face) :
    faceNormal verts (rewind f) = V3.neg (faceNormal verts f) := by
  simp only [faceNormal, rewind]
  exact triNormal_swap _ _ _

/-- Why mirrored meshes must be re-wound: a reflection negates the signed volume of every (face, point)
tetrahedron — inside and outside are swapped — and re-winding the face restores it.  Every axis, every size. -/
theorem mirror_rewind_preserves_orientation (a : Axis) (s : Rat) (A B C Q : V3) :
    triple (mirrorPt a s A) (mirrorPt a s B) (mirrorPt a s C) (mirrorPt a s Q) = - triple A B C Q
    ∧ triple (mirrorPt a s C) (mirrorPt a s B) (mirrorPt a s A) (mirrorPt a s Q) = triple A B C Q :=
  ⟨triple_mirror a s A B C Q, triple_mirror_rewind a s A B C Q⟩

/-! ## 4. tangents of k-less Dotprops carried through helper points -/

/-- **tangent_from_helper_unit.** The recomputed tangent is the difference `d = p' − hp'` scaled by `1/‖d‖`;
in squared-norm form over `Rat`: any scaling `s • d` with `s² ‖d‖² = 1` has squared norm `1` (and there is no
such `s` when `d = 0`, i.e. when the transform collapses the helper onto its point — navis yields NaN). -/
theorem tangent_from_helper_unit (d : V3) (s : Rat) (h : s * s * V3.normSq d = 1) :
    V3.normSq (V3.smul s d) = 1 ∧ d ≠ ⟨0, 0, 0⟩ := by
  refine ⟨by rw [normSq_smul, h], ?_⟩
  intro hd
  rw [hd] at h
  simp [V3.normSq, V3.dot] at h

/-- For an affine transform (and any sequence of them is one) the direction obtained through the helper point
is the original tangent pushed forward by the linear part, times `−res`: only the sense flips (tangents are
direction-less), independent of where the point sits. -/
theorem tangent_affine_pushforward (T : Aff) (res : Rat) (p v : V3) :
    V3.sub (T.apply p) (T.apply (V3.add p (V3.smul res v))) = V3.smul (-res) (T.lin v) :=
  aff_helper_dir T res p v

/-- Mirroring a k-less Dotprops twice returns a positive multiple of the original tangent (so, after
normalisation, the original unit tangent): first pass direction `−c₁ • flip v`, normalised by any `t`,
second pass `−c₂ • flip (t • −c₁ • flip v) = (c₁ c₂ t) • v`. -/
theorem mirror_tangent_twice (a : Axis) (s c₁ c₂ t : Rat) (p q v : V3) :
    V3.sub (mirrorPt a s p) (mirrorPt a s (V3.add p (V3.smul c₁ v))) = V3.smul (-c₁) (flipVec a v)
    ∧ V3.sub (mirrorPt a s q) (mirrorPt a s (V3.add q (V3.smul c₂ (V3.smul t (V3.smul (-c₁) (flipVec a v))))))
        = V3.smul (c₁ * c₂ * t) v := by
  refine ⟨mirror_helper_dir a s c₁ p v, ?_⟩
  rw [mirror_helper_dir, flipVec_smul, flipVec_smul, flipVec_flipVec, smul_smul, smul_smul]
  congr 1; ring

/-- Soundness of the run-time tangent checker at zero tolerance: it accepts `v` only if `v` is *the* unit
vector in the direction of `d` (a positive multiple of `d` with squared norm one). -/
theorem tangentOK_sound (d v : V3) (h : tangentOK 0 d v = true) :
    V3.normSq v = 1 ∧ ∃ s : Rat, 0 < s ∧ v = V3.smul s d ∧ s * s * V3.normSq d = 1 :=
  let ⟨h1, _, h3⟩ := tangentOK_zero h
  ⟨h1, h3⟩

/-! ## 5. radius and units follow the detected power of ten -/

/-- **scale_follows_guess.** With detected magnitude `m` (and at least two rows in the block): skeleton radii
and a numeric soma radius are multiplied by `10^m`, units divided by `10^m`; meshes and dotprops have no radius
to scale; with fewer than two rows nothing is scaled whatever the guess. -/
theorem scale_follows_guess {α β μ} (f : RowFn) (m : Int) (n : Neuron α β μ)
    (h2 : 1 < n.pts.xyz.length) :
    (specXform f m n).radius = (if n.kind = Kind.tree then scaleRadius m n.radius else n.radius)
    ∧ (specXform f m n).units = scaleUnits m n.units
    ∧ (specXform f m n).somaRadius = n.somaRadius.map (· * pow10 m) := by
  have : 1 < n.pts.xyz.length + (if (n.kind == Kind.dots && usesHelpers n.k) = true then n.pts.xyz.length else 0)
      + (connXYZ n.conns).length := by omega
  simp only [specXform, this, if_true]
  refine ⟨?_, trivial, trivial⟩
  cases n.kind <;> simp

theorem single_row_no_scale {α β μ} (f : RowFn) (m : Int) (n : Neuron α β μ) (h : n.pts.xyz.length ≤ 1)
    (hc : (connXYZ n.conns).length = 0) (hd : n.kind ≠ Kind.dots) :
    (specXform f m n).radius = n.radius ∧ (specXform f m n).units = n.units
    ∧ (specXform f m n).somaRadius = n.somaRadius := by
  have hw : (n.kind == Kind.dots && usesHelpers n.k) = false := by
    cases hk : n.kind <;> simp_all
  have : ¬ (1 < n.pts.xyz.length + 0 + (connXYZ n.conns).length) := by omega
  simp only [specXform, hw, Bool.false_eq_true, if_false, this, scaleUnits, scaleRadius, pow10_zero, mul_one]
  refine ⟨?_, rfl, ?_⟩
  · cases n.radius with
    | none => simp
    | some col =>
      have : (col.map fun v : Option Rat => v.map fun x => x) = col := by
        induction col with
        | nil => rfl
        | cons a as ih => cases a <;> simp_all
      simp [this]
  · cases n.somaRadius <;> rfl

/-- The physical radius is invariant: `(r · 10^m) · (u / 10^m) = r · u` for every magnitude (`10^m ≠ 0`), and
magnitude `0` changes nothing. -/
theorem physical_radius_invariant (m : Int) (r u : Rat) :
    (r * pow10 m) * (u / pow10 m) = r * u ∧ pow10 m ≠ 0 ∧ pow10 0 = 1 :=
  ⟨scale_cancel m r u, pow10_ne_zero m, pow10_zero⟩

/-- `nm → µm`‐style transforms: for `m = k ≥ 0` the factor is literally `10^k`. -/
theorem pow10_spec (k : Nat) : pow10 (k : Int) = (10 : Rat) ^ k := pow10_ofNat k

/-! ## 6. the run-time property checker is sound -/

/-- `checkXform` (evaluated by the driver on navis' own output) accepts, for any tolerance, only outputs whose
coordinates, other columns, connector table, faces, `k` and meta data are exactly those of `specXform`; at
zero tolerance also radius, units and soma radius are exact. -/
theorem checkXform_sound {α β μ} [DecidableEq α] [DecidableEq β] [DecidableEq μ]
    (eps : Rat) (f : RowFn) (guess : Int) (n out : Neuron α β μ) (h : checkXform eps f guess n out = true) :
    out.kind = n.kind ∧ out.pts = n.pts.mapXYZ f ∧ out.conns = n.conns.map (Table.mapXYZ f) ∧
    out.faces = n.faces ∧ out.k = n.k ∧ out.info = n.info :=
  checkXform_exact eps f guess n out h

theorem checkXform_sound_scale {α β μ} [DecidableEq α] [DecidableEq β] [DecidableEq μ]
    (f : RowFn) (guess : Int) (n out : Neuron α β μ) (h : checkXform 0 f guess n out = true) :
    out.radius = (specXform f guess n).radius ∧ out.units = (specXform f guess n).units ∧
    out.somaRadius = (specXform f guess n).somaRadius :=
  checkXform_zero_scale f guess n out h

/-! ## 7. non-vacuity -/

def T1 : Aff := ⟨2, 0, 0, 1, 0, 1/2, 0, -2, 0, 0, 4, 3⟩

/-- k-less Dotprops, two points, one tangent each, two connectors: helper points sit between points and
connectors in the block -/
def sampleDots : Neuron String String String :=
  { kind := .dots, pts := ⟨[⟨0, 0, 0⟩, ⟨1, 0, 0⟩], ["a", "b"]⟩, radius := none,
    vect := some [⟨1, 0, 0⟩, ⟨0, 1, 0⟩], alpha := none, k := none, res := 1, faces := [],
    conns := some ⟨[⟨5, 5, 5⟩, ⟨6, 6, 6⟩], ["c10", "c11"]⟩, units := some 8, somaRadius := none, info := "dp" }

example : helpersOK sampleDots := fun _ _ => ⟨_, rfl, rfl⟩
example : (xformNeuron T1.apply 0 sampleDots).map (·.conns) =
    some (some ⟨[⟨11, 1/2, 23⟩, ⟨13, 1, 27⟩], ["c10", "c11"]⟩) := by decide +kernel
example : (xformNeuron T1.apply 0 sampleDots).map (·.vect) = some (some [⟨-2, 0, 0⟩, ⟨0, -1/2, 0⟩]) := by
  decide +kernel
example : (xformNeuron T1.apply 0 sampleDots).map (·.pts.cols) = some ["a", "b"] := by decide +kernel

/-- a skeleton with radius column, no connectors, magnitude 3 -/
def sampleTree : Neuron String String String :=
  { kind := .tree, pts := ⟨[⟨0, 0, 0⟩, ⟨1, 2, 2⟩, ⟨3, 2, 2⟩], ["1:-1", "2:1", "3:2"]⟩,
    radius := some [some (1/100), none, some 2], vect := none, alpha := none, k := none, res := 0, faces := [],
    conns := none, units := some 8, somaRadius := some 5, info := "sk" }

example : (xformNeuron (V3.smul 1000) 3 sampleTree).map (·.radius) = some (some [some 10, none, some 2000]) := by
  decide +kernel
example : (xformNeuron (V3.smul 1000) 3 sampleTree).map (·.units) = some (some (8 / 1000)) := by decide +kernel
/-- a row function that is not affine -/
example : (xformNeuron (fun p => ⟨p.x * p.y, p.y * p.y, p.z + p.x⟩) 0 sampleTree).map (·.pts.xyz) =
    some [⟨0, 0, 0⟩, ⟨2, 4, 3⟩, ⟨6, 4, 5⟩] := by decide +kernel
/-- k-less Dotprops without tangents: the code raises -/
example : xformNeuron T1.apply 0 { sampleDots with vect := none } = none := by decide +kernel
example : mirrorFn .y (axisSize 0 (15/2)) none ⟨1, 2, 3⟩ = ⟨1, 11/2, 3⟩ := by decide +kernel
example : rewind ⟨0, 2, 1⟩ = ⟨1, 2, 0⟩ := rfl
example : tangentOK 0 ⟨0, -1/2, 0⟩ ⟨0, -1, 0⟩ = true := by decide +kernel
example : tangentOK 0 ⟨0, -1/2, 0⟩ ⟨0, 1, 0⟩ = false := by decide +kernel
example : (2 : Rat) * 2 * V3.normSq ⟨0, -1/2, 0⟩ = 1 := by decide +kernel
example : symmetrize 0 10 (mirrorFn .x 10 none) (mirrorFn .x 10 (some (V3.add ⟨1, 0, 0⟩))) [⟨2, 0, 0⟩, ⟨7, 1, 1⟩]
    = [⟨2, 0, 0⟩, ⟨8, 1, 1⟩] := by decide +kernel
/-- a k-less Dotprops keeps (un-normalised) tangents through `symmetrize_brain`: the point right of the midplane
`x = 5` is moved by the warp, the other one is kept -/
def sampleDots2 : Neuron String String String :=
  { sampleDots with pts := ⟨[⟨2, 0, 0⟩, ⟨7, 1, 1⟩], ["a", "b"]⟩, conns := none }

example : (symmetrizeNeuron (symmetrize 0 10 (mirrorFn .x 10 (some (V3.add ⟨1, 0, 0⟩))) (mirrorFn .x 10 none))
    sampleDots2).map (fun n => (n.pts.xyz, n.vect))
    = some ([⟨2, 0, 0⟩, ⟨6, 1, 1⟩], some [⟨-2, 0, 0⟩, ⟨0, -2, 0⟩]) := by decide +kernel
example : checkXform 0 T1.apply 0 sampleTree (specXform T1.apply 0 sampleTree) = true := by decide +kernel

/-! ## 8. images (VoxelNeuron): resampling through the inverse of the sequence

Vocabulary (`Model/XformImage.lean`): `inv T` = `AffineTransform.__neg__`; `negSeq ts` = `TransformSequence.__neg__`
as written (every member inverted, order REVERSED); `negSeqWith false` = the same comprehension without `[::-1]`;
`Img` = shape + `offset` + voxel size + content; `worldOf off pitch idx = off + idx · pitch`;
`imageOff / imagePitch / imageVal true ts g` = what `_xform_image` returns for the sequence `ts`: offset and voxel
size from the forward-transformed bounding box, every target voxel the tri-linear sample (`order=1`, outside → 0) of
the source at `(negSeq ts)(world position of the target voxel)`. -/
section Image
open Navis.XformImage

/-- `-T` undoes `T` and vice versa, for every non-singular affine transform. -/
theorem affine_neg_inverts (T : Aff) (h : T.det ≠ 0) (p : V3) :
    (inv T).apply (T.apply p) = p ∧ T.apply ((inv T).apply p) = p :=
  ⟨inv_apply_apply T h p, apply_inv_apply T h p⟩

/-- **sequence_neg_inverts.** `-seq` as written (inverted members, reversed order) is a two-sided inverse of the
sequence, for every length and all non-singular members. -/
theorem sequence_neg_inverts (ts : List Aff) (h : invertible ts = true) (p : V3) :
    seqApply (negSeq ts) (seqApply ts p) = p ∧ seqApply ts (seqApply (negSeq ts) p) = p :=
  ⟨negSeq_left ts ((invertible_iff ts).1 h) p, negSeq_right ts ((invertible_iff ts).1 h) p⟩

/-- **pullback_through_reversed_inverses.** Pulling a point back through the inverse of a composition `ts ; us`
is pulling it back through the inverse of `us` FIRST and the inverse of `ts` second — the inverse of a
concatenation is the concatenation of the inverses in reversed order.  This is where the order in `__neg__`
matters. -/
theorem pullback_through_reversed_inverses (ts us : List Aff) (w : V3) :
    negSeq (ts ++ us) = negSeq us ++ negSeq ts
    ∧ seqApply (negSeq (ts ++ us)) w = seqApply (negSeq ts) (seqApply (negSeq us) w) := by
  refine ⟨negSeq_append ts us, ?_⟩
  rw [negSeq_append, seqApply_append]

/-- **unreversed_inverse_iff_commute.** Inverting the members WITHOUT reversing their order gives an inverse of
a two-member sequence exactly when the two members commute: commuting controls cannot see the difference, every
non-commuting pair does. -/
theorem unreversed_inverse_iff_commute (A B : Aff) (hA : A.det ≠ 0) (hB : B.det ≠ 0) :
    (∀ p, seqApply (negSeqWith false [A, B]) (seqApply [A, B] p) = p)
      ↔ (∀ p, B.apply (A.apply p) = A.apply (B.apply p)) :=
  unreversed_pair_iff A B hA hB

def S2 : Aff := ⟨2, 0, 0, 0, 0, 2, 0, 0, 0, 0, 2, 0⟩
def Sh : Aff := ⟨1, 0, 0, 12, 0, 1, 0, 0, 0, 0, 1, -4⟩

/-- … and "scale by 2, then shift by (12, 0, −4)" is such a pair: un-reversed inverses send the image of the
origin to `(−6, 0, 2)`, not back to the origin. -/
theorem unreversed_inverse_wrong :
    S2.det ≠ 0 ∧ Sh.det ≠ 0 ∧ seqApply (negSeqWith false [S2, Sh]) (seqApply [S2, Sh] ⟨0, 0, 0⟩) = ⟨-6, 0, 2⟩
    ∧ seqApply (negSeq [S2, Sh]) (seqApply [S2, Sh] ⟨0, 0, 0⟩) = ⟨0, 0, 0⟩ := by decide +kernel

/-- **image_depends_only_on_map.** Two sequences of non-singular affine transforms that move every point the same
way — a single composed affine, a sequence of several members, the transforms along a bridging path — give the
same image: same offset, same voxel size, same content in every voxel. -/
theorem image_depends_only_on_map (ts us : List Aff) (hts : invertible ts = true) (hus : invertible us = true)
    (heq : ∀ p, seqApply ts p = seqApply us p) (g : Img) :
    imageOff ts g = imageOff us g ∧ imagePitch ts g = imagePitch us g
    ∧ ∀ i j k, imageVal true ts g i j k = imageVal true us g i j k := by
  have hf : seqApply ts = seqApply us := funext heq
  have hb : seqApply (negSeqWith true ts) = seqApply (negSeqWith true us) :=
    funext (negSeq_unique ts us ((invertible_iff ts).1 hts) ((invertible_iff us).1 hus) heq)
  refine ⟨by simp only [imageOff, hf], by simp only [imagePitch, hf], fun i j k => ?_⟩
  simp only [imageVal, hf, hb]

/-- **image_signal_follows_transform.** For every target voxel: the source position it is resampled from, pushed
FORWARD through the sequence, is exactly the world position of that target voxel (`offset' + index · voxel size'`).
All non-singular sequences, all grids with non-zero voxel size. -/
theorem image_signal_follows_transform (ts : List Aff) (h : invertible ts = true) (g : Img)
    (hx : g.pitch.x ≠ 0) (hy : g.pitch.y ≠ 0) (hz : g.pitch.z ≠ 0) (i j k : Int) :
    seqApply ts (worldOf g.off g.pitch (pull (seqApply ts) (seqApply (negSeq ts)) g i j k))
      = worldOf (imageOff ts g) (imagePitch ts g) (idxV i j k) := by
  simp only [pull]
  rw [world_srcIndex _ g _ _ _ hx hy hz, negSeq_right ts ((invertible_iff ts).1 h)]
  rfl

/-- Sampling (`map_coordinates`, `order=1`) at the position of a voxel returns that voxel. -/
theorem sample_at_voxel (val : Int → Int → Int → Rat) (nx ny nz : Nat) (i j k : Int)
    (hi : 0 ≤ i ∧ i < nx) (hj : 0 ≤ j ∧ j < ny) (hk : 0 ≤ k ∧ k < nz) :
    sample val nx ny nz (idxV i j k) = val i j k :=
  sample_int val nx ny nz i j k hi hj hk

/-- **image_voxel_lands.** If the forward image of the source voxel `(i, j, k)` is the world position of the target
voxel `(a, b, c)`, the target voxel holds exactly the value of that source voxel: every bright voxel lands where
the forward transform sends it. -/
theorem image_voxel_lands (ts : List Aff) (h : invertible ts = true) (g : Img)
    (hx : g.pitch.x ≠ 0) (hy : g.pitch.y ≠ 0) (hz : g.pitch.z ≠ 0) (i j k a b c : Int)
    (hi : 0 ≤ i ∧ i < g.nx) (hj : 0 ≤ j ∧ j < g.ny) (hk : 0 ≤ k ∧ k < g.nz)
    (hland : worldOf (imageOff ts g) (imagePitch ts g) (idxV a b c) = seqApply ts (worldOf g.off g.pitch (idxV i j k))) :
    imageVal true ts g a b c = g.val i j k := by
  have hs : srcIndex (seqApply (negSeqWith true ts)) g (outOff (seqApply ts) g) (outPitch (seqApply ts) g) (idxV a b c)
      = idxV i j k := by
    apply srcIndex_of_world _ g _ _ _ _ hx hy hz
    have e : worldOf (outOff (seqApply ts) g) (outPitch (seqApply ts) g) (idxV a b c)
        = seqApply ts (worldOf g.off g.pitch (idxV i j k)) := hland
    rw [e]
    exact negSeq_left ts ((invertible_iff ts).1 h) _
  simp only [imageVal, outVal, outValWith, hs]
  exact sample_int g.val g.nx g.ny g.nz i j k hi hj hk

/-- **image_axis_aligned_exact.** When the sequence as a whole is an axis-aligned, orientation-preserving map
`p ↦ (dx·x + tx, dy·y + ty, dz·z + tz)` with positive `d` (any scale-and-translate sequence, in any order): the
new offset is the image of the old one, the voxel size is multiplied by `d`, and the grid content is unchanged
voxel for voxel — whatever the members are. -/
theorem image_axis_aligned_exact (ts : List Aff) (h : invertible ts = true) (g : Img) (d t : V3)
    (hF : ∀ p : V3, seqApply ts p = ⟨d.x * p.x + t.x, d.y * p.y + t.y, d.z * p.z + t.z⟩)
    (hd : 0 < d.x ∧ 0 < d.y ∧ 0 < d.z) (hp : 0 < g.pitch.x ∧ 0 < g.pitch.y ∧ 0 < g.pitch.z)
    (hn : 0 < g.nx ∧ 0 < g.ny ∧ 0 < g.nz) :
    imageOff ts g = seqApply ts g.off ∧ imagePitch ts g = cmul d g.pitch
    ∧ ∀ i j k : Int, 0 ≤ i ∧ i < g.nx → 0 ≤ j ∧ j < g.ny → 0 ≤ k ∧ k < g.nz →
        imageVal true ts g i j k = g.val i j k := by
  have ho : imageOff ts g = seqApply ts g.off := outOff_diag _ d t hF g hd hp
  have hq : imagePitch ts g = cmul d g.pitch := outPitch_diag _ d t hF g hd hp hn
  refine ⟨ho, hq, fun i j k hi hj hk => ?_⟩
  apply image_voxel_lands ts h g (ne_of_gt hp.1) (ne_of_gt hp.2.1) (ne_of_gt hp.2.2) i j k i j k hi hj hk
  rw [ho, hq]
  exact world_diag _ d t hF g.off g.pitch (idxV i j k)

/-- **image_identity.** A sequence that composes to the identity (e.g. `×2` then `×½`, or
`[S, T, S⁻¹, T']`) returns the input image: same offset, same voxel size, same content. -/
theorem image_identity (ts : List Aff) (h : invertible ts = true) (g : Img) (hid : ∀ p, seqApply ts p = p)
    (hp : 0 < g.pitch.x ∧ 0 < g.pitch.y ∧ 0 < g.pitch.z) (hn : 0 < g.nx ∧ 0 < g.ny ∧ 0 < g.nz) :
    imageOff ts g = g.off ∧ imagePitch ts g = g.pitch
    ∧ ∀ i j k : Int, 0 ≤ i ∧ i < g.nx → 0 ≤ j ∧ j < g.ny → 0 ≤ k ∧ k < g.nz →
        imageVal true ts g i j k = g.val i j k := by
  have hF : ∀ p : V3, seqApply ts p = ⟨(1 : Rat) * p.x + 0, (1 : Rat) * p.y + 0, (1 : Rat) * p.z + 0⟩ := by
    intro p; rw [hid p]; simp
  obtain ⟨a, b, c⟩ := image_axis_aligned_exact ts h g ⟨1, 1, 1⟩ ⟨0, 0, 0⟩ hF ⟨by decide, by decide, by decide⟩ hp hn
  refine ⟨by rw [a, hid], ?_, c⟩
  rw [b]; simp [cmul]


/-- **bbox_midpoints_irrelevant.** navis computes the target bounding box from the corners of the source box PLUS the
edge mid-points `subdivide()` adds; for a sequence of affine transforms those mid-points cannot change any
coordinate-wise minimum or maximum, so the 8 corners (what the model uses) give the same box. -/
theorem bbox_midpoints_irrelevant (ts : List Aff) (p : V3) (ps : List V3) (pairs : List (V3 × V3))
    (hp : ∀ pr ∈ pairs, pr.1 ∈ p :: ps ∧ pr.2 ∈ p :: ps) :
    bboxOfPts (((p :: ps) ++ pairs.map fun pr => mid pr.1 pr.2).map (seqApply ts))
      = bboxOfPts ((p :: ps).map (seqApply ts)) :=
  bboxOfPts_mid ts p ps pairs hp

/-- **imageOK_sound.** The run-time checker evaluated on navis' own result accepts (at zero tolerance) only the
modelled image: no singular member, offset and voxel size those of the forward-transformed box, every voxel of the
grid the sample at the pulled-back position. -/
theorem imageOK_sound (ts : List Aff) (g : Img) (off' pitch' : V3) (val' : Int → Int → Int → Rat)
    (h : imageOK 0 ts g off' pitch' val' = true) :
    invertible ts = true ∧ off' = imageOff ts g ∧ pitch' = imagePitch ts g
    ∧ ∀ a b c : Nat, a < g.nx → b < g.ny → c < g.nz → val' a b c = imageVal true ts g a b c := by
  rw [imageOK_unfold] at h
  simp only [Bool.and_eq_true, List.all_eq_true] at h
  obtain ⟨⟨⟨h1, h2⟩, h3⟩, h4⟩ := h
  refine ⟨h1, closeV3_zero h2, closeV3_zero h3, fun a b c ha hb hc => ?_⟩
  have h5 := h4 ((a : Int), (b : Int), (c : Int)) (mem_allIdx g.nx g.ny g.nz a b c ha hb hc)
  exact closeRat_zero h5

/-- **landsOK_sound.** The forward checker (no inverse involved) accepts only results in which every listed source
voxel whose forward image falls exactly on a voxel of the result grid is found there with its value. -/
theorem landsOK_sound (fwd : RowFn) (g : Img) (src : List Vox) (off' pitch' : V3) (val' : Int → Int → Int → Rat)
    (h : landsOK 0 fwd g src off' pitch' val' = true) (c : Vox) (hc : c ∈ src)
    (hin : inGrid g.nx g.ny g.nz (landIdx fwd g off' pitch' c.i c.j c.k) = true) :
    val' (landIdx fwd g off' pitch' c.i c.j c.k).x.floor (landIdx fwd g off' pitch' c.i c.j c.k).y.floor
      (landIdx fwd g off' pitch' c.i c.j c.k).z.floor = c.v := by
  simp only [landsOK, List.all_eq_true] at h
  have := h c hc
  simp only [hin, if_true] at this
  exact closeRat_zero this

/-! non-vacuity: a 3×2×2 grid, voxel size 2, pushed through "×2 then shift" -/
def gridEx : Img := ⟨3, 2, 2, ⟨3, 5, 7⟩, ⟨2, 2, 2⟩, sparseVal [⟨0, 0, 0, 1/2⟩, ⟨2, 1, 1, 3⟩]⟩

example : invertible [S2, Sh] = true := by decide +kernel
example : imageOff [S2, Sh] gridEx = ⟨18, 10, 10⟩ ∧ imagePitch [S2, Sh] gridEx = ⟨4, 4, 4⟩ := by decide +kernel
example : imageSparse [S2, Sh] gridEx = [⟨0, 0, 0, 1/2⟩, ⟨2, 1, 1, 3⟩] := by decide +kernel
/-- a flip moves the content to the mirrored index (and crops index 0, which would land on index 3) -/
example : imageSparse [mirrorMat .x 10] gridEx = [⟨1, 1, 1, 3⟩] := by decide +kernel
/-- a permutation of axes on a 2×2×2 grid with voxel size (1, 2, 2) interpolates (half indices) -/
example : imageVal true [⟨0, 1, 0, 0, 1, 0, 0, 0, 0, 0, 1, 0⟩]
    ⟨2, 2, 2, ⟨0, 0, 0⟩, ⟨1, 2, 2⟩, sparseVal [⟨0, 0, 0, 1⟩, ⟨1, 0, 0, 3⟩]⟩ 0 1 0 = 3 := by decide +kernel
/-- with the un-reversed inverses the same image is resampled from the wrong place (nothing is left of it) -/
example : (allIdx 3 2 2).map (fun (i, j, k) => imageVal false [S2, Sh] gridEx i j k) ≠
    (allIdx 3 2 2).map (fun (i, j, k) => imageVal true [S2, Sh] gridEx i j k) := by decide +kernel
example : imageOK 0 [S2, Sh] gridEx ⟨18, 10, 10⟩ ⟨4, 4, 4⟩ (sparseVal [⟨0, 0, 0, 1/2⟩, ⟨2, 1, 1, 3⟩]) = true := by
  decide +kernel
example : landsOK 0 (seqApply [S2, Sh]) gridEx [⟨0, 0, 0, 1/2⟩, ⟨2, 1, 1, 3⟩] ⟨18, 10, 10⟩ ⟨4, 4, 4⟩
    (sparseVal [⟨0, 0, 0, 1/2⟩, ⟨2, 1, 1, 3⟩]) = true
    ∧ landCount (seqApply [S2, Sh]) gridEx [⟨0, 0, 0, 1/2⟩, ⟨2, 1, 1, 3⟩] ⟨18, 10, 10⟩ ⟨4, 4, 4⟩ = 2 := by
  decide +kernel

end Image

/-! ## 9. `xform_brain` and `mirror_brain(via=…)` -/

/-- **xform_brain_spec.** `xform_brain` on a neuron is `xform` with the sequence along the bridging path — so
coordinates move and nothing else does (`stack_slice_exact`) — followed by the units override: when the last
non-alias template of the path carries `_navis_units`, the units are exactly those, otherwise they follow the
detected power of ten. -/
theorem xform_brain_spec {α β μ} (f : RowFn) (guess : Int) (o : Option Rat) (n : Neuron α β μ) (h : helpersOK n) :
    xformBrainNeuron f guess o n = some (match o with
      | some u => { specXform f guess n with units := some u }
      | none => specXform f guess n) :=
  xformBrainNeuron_eq f guess o n h

/-- Which template decides the units: the one the LAST non-alias edge of the path leads to (trailing alias edges
are skipped, whatever they carry); a path of aliases only decides nothing. -/
theorem brain_units_last_non_alias (es as : List (Bool × Option Rat)) (u : Option Rat)
    (h : ∀ e ∈ as, e.1 = true) :
    brainUnits (es ++ (false, u) :: as) = u ∧ brainUnits as = none :=
  ⟨brainUnits_last es as u h, brainUnits_alias as h⟩

/-- **mirror_via_spec.** `mirror_brain(x, template, via=V)` on a skeleton or mesh — bridge to `V` (`f1`), flip
(+ warp) there (`g`), bridge back (`f2`) — never fails and moves node/vertex and connector coordinates by
`f2 ∘ g ∘ f1`, re-winds mesh faces exactly once, and changes no other column, link or meta datum, whatever
magnitudes the two `xform` calls detect. -/
theorem mirror_via_spec {α β μ} (f1 : RowFn) (m1 : Int) (o1 : Option Rat) (g : RowFn) (f2 : RowFn) (m2 : Int)
    (o2 : Option Rat) (n : Neuron α β μ) (hk : n.kind ≠ Kind.dots) :
    ∃ out, mirrorViaNeuron f1 m1 o1 g f2 m2 o2 n = some out ∧ out.kind = n.kind
      ∧ out.pts = n.pts.mapXYZ (fun p => f2 (g (f1 p)))
      ∧ out.conns = n.conns.map (Table.mapXYZ fun p => f2 (g (f1 p)))
      ∧ out.faces = (if n.kind = Kind.mesh then n.faces.map rewind else n.faces) ∧ out.k = n.k ∧ out.info = n.info :=
  mirrorViaNeuron_fields f1 m1 o1 g f2 m2 o2 n hk

/-- Bridging there and back with inverse sequences around a warp-free flip is again an involution on points:
`(f⁻¹ ∘ flip ∘ f) ∘ (f⁻¹ ∘ flip ∘ f) = id`. -/
theorem mirror_via_involution (ts : List Aff) (h : XformImage.invertible ts = true) (a : Axis) (s : Rat) (p : V3) :
    let m : RowFn := fun q => seqApply (XformImage.negSeq ts) (mirrorFn a s none (seqApply ts q))
    m (m p) = p := by
  intro m
  have hi := (XformImage.invertible_iff ts).1 h
  simp only [m]
  rw [XformImage.negSeq_right ts hi, mirror_involution, XformImage.negSeq_left ts hi]

/-- `checkXformBrain` (evaluated by the driver on navis' own `xform_brain` result) is sound: coordinates, columns,
faces, `k`, meta data exactly `specXform`; at zero tolerance the units are exactly the override. -/
theorem checkXformBrain_sound {α β μ} [DecidableEq α] [DecidableEq β] [DecidableEq μ]
    (eps : Rat) (f : RowFn) (guess : Int) (o : Option Rat) (n out : Neuron α β μ)
    (h : checkXformBrain eps f guess o n out = true) :
    out.kind = n.kind ∧ out.pts = n.pts.mapXYZ f ∧ out.conns = n.conns.map (Table.mapXYZ f) ∧
    out.faces = n.faces ∧ out.k = n.k ∧ out.info = n.info :=
  checkXformBrain_exact eps f guess o n out h

theorem checkXformBrain_sound_units {α β μ} [DecidableEq α] [DecidableEq β] [DecidableEq μ]
    (f : RowFn) (guess : Int) (u : Rat) (n out : Neuron α β μ)
    (h : checkXformBrain 0 f guess (some u) n out = true) : out.units = some u :=
  checkXformBrain_units f guess u n out h

example : brainUnits [(false, some 1), (false, some (1/1000)), (true, some 5)] = some (1/1000) := by decide +kernel
example : (xformBrainNeuron (V3.smul 1000) 3 (some 1) sampleTree).map (fun o => (o.units, o.radius)) =
    some (some 1, some [some 10, none, some 2000]) := by decide +kernel
example : (mirrorViaNeuron T1.apply 0 none (mirrorFn .x 10 none) (XformImage.inv T1).apply 0 none sampleTree).map
    (·.pts.xyz) = some [⟨4, 0, 0⟩, ⟨3, 2, 2⟩, ⟨1, 2, 2⟩] := by decide +kernel

/-! ## 10. the current source still says what the models assume (translator facts, `Gen/XformFacts.lean`) -/
section SourceFacts
open Navis.XformImage Navis.XformSpec

/-- **neg_as_written_inverts.** With the iteration order and the per-member negation the translator reads off
`TransformSequence.__neg__` in the CURRENT source, `-seq` is a two-sided inverse of every non-singular sequence.
(Stops checking when the `[::-1]` or the `-t` disappears: `unreversed_inverse_wrong`.) -/
theorem neg_as_written_inverts (ts : List Aff) (h : invertible ts = true) (p : V3) :
    Gen.XformFacts.negInvertsEachMember = true
    ∧ seqApply (negSeqWith Gen.XformFacts.negReversesOrder ts) (seqApply ts p) = p
    ∧ seqApply ts (seqApply (negSeqWith Gen.XformFacts.negReversesOrder ts) p) = p :=
  ⟨rfl, negSeq_left ts ((invertible_iff ts).1 h) p, negSeq_right ts ((invertible_iff ts).1 h) p⟩

/-- **seq_xform_as_written_keeps_input.** With the way the CURRENT source creates the working array of
`TransformSequence.xform` (a copy: `.astype` / `.copy()` / `np.array`), the caller's array is untouched and the
result is the members applied in list order.  (With `np.asarray(points, dtype=…)` the generated fact is `false`
and the caller's float64 array would hold the transformed rows: the statement is no longer provable.) -/
theorem seq_xform_as_written_keeps_input (ts : List Aff) (pts : List V3) :
    Gen.XformFacts.seqAppliesInListOrder = true
    ∧ (seqXformBuffers Gen.XformFacts.seqXformCopiesInput ts pts).1 = pts.map (seqApply ts)
    ∧ (seqXformBuffers Gen.XformFacts.seqXformCopiesInput ts pts).2 = pts :=
  ⟨rfl, rfl, rfl⟩

/-- **slices_as_written_recover_parts.** The stacking order and the five slice expressions of `xfm_funcs.xform`
as the CURRENT source has them (`xyz_xf[:n]`, `xyz_xf[n : 2 * n]`, `xyz_xf[-n_connectors:]`, …), interpreted with
numpy's slicing rules: every part comes back transformed on its own, for every row function and all block sizes. -/
theorem slices_as_written_recover_parts (f : RowFn) (pts helpers conns : List V3)
    :
    let blk := (stackBy Gen.XformFacts.stackOrder pts helpers conns).map f
    sliceBy pts.length conns.length Gen.XformFacts.sliceNodes blk = pts.map f
    ∧ sliceBy pts.length conns.length Gen.XformFacts.slicePoints blk = pts.map f
    ∧ sliceBy pts.length conns.length Gen.XformFacts.sliceVertices blk = pts.map f
    ∧ (helpers.length = pts.length → sliceBy pts.length conns.length Gen.XformFacts.sliceHelpers blk = helpers.map f)
    ∧ (conns.length ≠ 0 → sliceBy pts.length conns.length Gen.XformFacts.sliceConnectors blk = conns.map f) := by
  intro blk
  have hb : blk = pts.map f ++ (helpers.map f ++ conns.map f) := by
    simp [blk, stackBy, Gen.XformFacts.stackOrder]
  have hl : blk.length = pts.length + (helpers.length + conns.length) := by simp [hb]
  refine ⟨?_, ?_, ?_, ?_, ?_⟩
  · simp [sliceBy, pos, cntOf, Gen.XformFacts.sliceNodes, hl, hb]
  · simp [sliceBy, pos, cntOf, Gen.XformFacts.slicePoints, hl, hb]
  · simp [sliceBy, pos, cntOf, Gen.XformFacts.sliceVertices, hl, hb]
  · intro h
    simp only [sliceBy, pos, cntOf, Gen.XformFacts.sliceHelpers, hl]
    rw [List.drop_take, hb]
    have e1 : min pts.length (pts.length + (helpers.length + conns.length)) = pts.length := by omega
    have e2 : min (2 * pts.length) (pts.length + (helpers.length + conns.length)) - pts.length = helpers.length := by omega
    rw [e1, e2]
    have : (pts.map f).length = pts.length := by simp
    rw [← this, List.drop_left]
    have : (helpers.map f).length = helpers.length := by simp
    rw [← this, List.take_left]
  · intro h
    simp only [sliceBy, pos, cntOf, Gen.XformFacts.sliceConnectors, hl, if_neg h]
    rw [hb, ← List.append_assoc]
    have : pts.length + (helpers.length + conns.length) - conns.length = (pts.map f ++ helpers.map f).length := by
      simp only [List.length_append, List.length_map]; omega
    rw [this]
    have hk : pts.length + (helpers.length + conns.length) = (pts.map f ++ helpers.map f ++ conns.map f).length := by
      simp only [List.length_append, List.length_map]; omega
    rw [hk, List.take_length, List.drop_left]

/-- the scale guess runs exactly when the block has at least two rows -/
theorem guess_guard_as_written (rows : Nat) :
    guardHolds Gen.XformFacts.guessGuard rows = decide (1 < rows) := by
  simp only [guardHolds, Gen.XformFacts.guessGuard, Cmp.holdsInt]
  rw [decide_eq_decide]
  omega

/-- **scale_rules_as_written.** Operators and base as the CURRENT source has them: radius and soma radius are
multiplied by `10^m`, units divided by it, so the physical radius `radius · units` is invariant. -/
theorem scale_rules_as_written (r u s : Rat) (m : Int) :
    applyScale Gen.XformFacts.radiusScale r m = r * pow10 m
    ∧ applyScale Gen.XformFacts.unitsScale u m = u / pow10 m
    ∧ applyScale Gen.XformFacts.somaScale s m = s * pow10 m
    ∧ applyScale Gen.XformFacts.radiusScale r m * applyScale Gen.XformFacts.unitsScale u m = r * u := by
  simp only [applyScale, Gen.XformFacts.radiusScale, Gen.XformFacts.unitsScale,
    Gen.XformFacts.somaScale, powBase_ten]
  exact ⟨trivial, trivial, trivial, scale_cancel m r u⟩

/-- **flip_matrix_as_written.** `np.eye(4)` with the two writes `mirror` performs, through the axis → index table of
the CURRENT source, is the flip matrix of the model (`x ↦ size − x` on that axis) for every axis and size. -/
theorem flip_matrix_as_written (a : Axis) (s : Rat) :
    flipOf Gen.XformFacts.axisIndex Gen.XformFacts.mirrorEntries a s = some (mirrorMat a s) := by
  cases a <;> simp [flipOf, Gen.XformFacts.axisIndex, Gen.XformFacts.mirrorEntries, axisName, List.lookup,
    affOf, flipMatrix, cellPos, mval, mirrorMat]

/-- the rows `symmetrize_brain` mirrors are exactly those with `x > center` -/
theorem symmetrize_side_as_written (center : Rat) (p : V3) :
    sideHolds Gen.XformFacts.symmSideTest center p = decide (center < p.x) := by
  simp only [sideHolds, Gen.XformFacts.symmSideTest, Cmp.holdsRat, colOf]

/-- **symmetrize_extent_as_written.** For BOTH bounding-box layouts `mirror_brain` accepts, the cells the CURRENT source
of `symmetrize_brain` reads as `(x_min, x_max)` are the template's `lo_x` and `hi_x`: the rows that are symmetrized are
those right of the template's real midplane `lo_x + (hi_x − lo_x) / 2` (`symmetrize_spec`).  (Before navis' `fix:` the
extent was read as `bbox[0][0], bbox[0][1]` whatever the layout — `(lo_x, lo_y)` for a `(2, 3)` box.) -/
theorem symmetrize_extent_as_written (lo hi : V3) :
    Gen.XformFacts.symmExtent.map (·.1) = ["(2, 3)", "(3, 2)"]
    ∧ ∀ e ∈ Gen.XformFacts.symmExtent, cellOf e.1 lo hi e.2.1 = lo.x ∧ cellOf e.1 lo hi e.2.2 = hi.x := by
  refine ⟨by decide, ?_⟩
  intro e he
  simp only [Gen.XformFacts.symmExtent, List.mem_cons, List.mem_nil_iff, or_false] at he
  rcases he with rfl | rfl <;> simp [cellOf, cell23, cell32, colOf]

/-- **source_facts_as_modelled.** The remaining literal facts the models hard-wire, as the CURRENT source states them:
how the axis size is read from both bounding-box layouts (`bbox[ix, :].sum()` / `bbox[:, ix].sum()`, i.e. `lo + hi`),
faces re-wound for MeshNeuron and Trimesh in `mirror_brain` and never in `symmetrize_brain`, the un-warped flip back
of `symmetrize_brain`, and for images: linear interpolation, constant 0 outside, the box pushed forward with
`transform`, the target positions pulled back through `-transform`.  (Facts that are not property-relevant — helper
point factors, names of locals, the literal index expressions — are extracted for the record but not pinned.) -/
theorem source_facts_as_modelled :
    Gen.XformFacts.axisSize = [("(2, 3)", ":,ix", "sum"), ("(3, 2)", "ix,:", "sum")]
    ∧ Gen.XformFacts.mirrorRewinds = ["MeshNeuron", "Trimesh"] ∧ Gen.XformFacts.symmetrizeRewinds = []
    ∧ Gen.XformFacts.symmFlipBackWarp = "False"
    ∧ Gen.XformFacts.imageInterpOrder = 1 ∧ Gen.XformFacts.imageMode = "constant"
    ∧ Gen.XformFacts.imageCval = 0
    ∧ Gen.XformFacts.imagePullsBackThroughNeg = true ∧ Gen.XformFacts.imagePushesBoxForward = true := by decide

end SourceFacts

/-! ## 11. the scale guess: `round(log10 ·)` -/

/-- **round_log10_characterised.** `roundLog10 c = m` (what `round(math.log10(c))` is, computed without logarithms)
exactly when `10^(2m−1) ≤ c² < 10^(2m+1)`, i.e. `|log10 c − m| < ½` — for every positive rational `c` and every
`m ∈ [−40, 40]`. -/
theorem round_log10_characterised (c : Rat) (m : Int) (hm : -40 ≤ m ∧ m ≤ 40) :
    roundLog10 c = some m ↔ (0 < c ∧ pow10 (2 * m - 1) ≤ c * c ∧ c * c < pow10 (2 * m + 1)) :=
  ⟨roundLog10_sound c m, fun ⟨h0, h1, h2⟩ => roundLog10_complete c m h0 hm h1 h2⟩

/-- **guess_of_power_of_ten.** A transform that multiplies every distance by exactly `10^k` (nm → µm, µm → nm, …) is
detected as magnitude `k`: together with `scale_follows_guess` radii are multiplied by `10^k` and units divided by it. -/
theorem guess_of_power_of_ten (k : Int) (hk : -20 ≤ k ∧ k ≤ 20) : guessUniform (pow10 k) = k := by
  have h : roundLog10 (pow10 k) = some k := by
    apply roundLog10_complete _ _ (pow10_pos k) ⟨by omega, by omega⟩
    · rw [pow10_sq]; exact pow10_mono (by omega)
    · rw [pow10_sq]; exact pow10_strict (by omega)
  simp [guessUniform, h]

example : roundLog10 8 = some 1 ∧ roundLog10 (1/4) = some (-1) ∧ roundLog10 2 = some 0 ∧ roundLog10 (1/1000) = some (-3) := by
  decide +kernel

/-! ## 12. run-time checkers for `mirror_brain`, `symmetrize_brain`, tables and meshes are sound -/

/-- **checkMirror_sound.** `checkMirror` (evaluated by the driver on navis' own `mirror_brain` result) accepts, for any
tolerance, only results whose node/vertex/point and connector coordinates are the input's moved by `g`, whose faces
are re-wound exactly for meshes, and whose other columns, `k` and meta data are the input's — every neuron kind,
with `k` and without. -/
theorem checkMirror_sound {α β μ} [DecidableEq α] [DecidableEq β] [DecidableEq μ]
    (eps : Rat) (g : RowFn) (n out : Neuron α β μ) (h : checkMirror eps g n out = true) :
    out.kind = n.kind ∧ out.pts = n.pts.mapXYZ g ∧ out.conns = n.conns.map (Table.mapXYZ g)
    ∧ out.faces = (if n.kind = Kind.mesh then n.faces.map rewind else n.faces) ∧ out.k = n.k ∧ out.info = n.info :=
  checkMirror_fields eps g n out h

/-- **checkSymm_sound.** `checkSymm` accepts only results that are, field by field, what `symmetrizeNeuron` returns
(whose content is `symmetrize_neuron_spec`). -/
theorem checkSymm_sound {α β μ} [DecidableEq α] [DecidableEq β] [DecidableEq μ]
    (eps : Rat) (S : List V3 → List V3) (n out : Neuron α β μ) (h : checkSymm eps S n out = true) :
    ∃ m, symmetrizeNeuron S n = some m ∧ out.kind = m.kind ∧ out.pts = m.pts ∧ out.conns = m.conns ∧
      out.faces = m.faces ∧ out.k = m.k ∧ out.info = m.info :=
  checkSymm_some eps S n out h

/-- `checkTable` / `checkMesh` accept exactly the specified results (sound and complete). -/
theorem checkTable_checkMesh_exact {α} [DecidableEq α] (f : RowFn) (t out : Table α)
    (v : List V3) (fs : List Face) (v' : List V3) (fs' : List Face) :
    (checkTable f t out = true ↔ out = t.mapXYZ f)
    ∧ (checkMesh f v fs v' fs' = true ↔ (v', fs') = mirrorMesh f v fs) :=
  ⟨checkTable_iff f t out, checkMesh_iff f v fs v' fs'⟩

example : checkMirror 0 (mirrorFn .x 10 none) sampleTree
    { sampleTree with pts := ⟨[⟨10, 0, 0⟩, ⟨9, 2, 2⟩, ⟨7, 2, 2⟩], ["1:-1", "2:1", "3:2"]⟩ } = true := by decide +kernel
example : checkMirror 0 (mirrorFn .x 10 none) sampleTree sampleTree = false := by decide +kernel

end Navis.Props.C16
