import NavisModel.Proofs.XformLemmas
/-!
# C16 — transforming or mirroring a neuron moves its coordinates and nothing else

Property theorems only; helper lemmas live in `Proofs/XformLemmas.lean`, the executable model in
`Model/Xform.lean`.  Vocabulary:

* `f : RowFn` — what the transform (any transform, affine or not, or a sequence) does to one coordinate row.
* `Table α` — coordinate columns `xyz` plus every other column, row-wise, as an opaque `cols : List α`.
* `Neuron α β μ` — kind (skeleton / mesh / dotprops), node|vertex|point table, radius column, tangents, `k`,
  faces, connector table, units, numeric soma radius, and `info : μ` for everything else (name, id, tags, soma).
* `xformNeuron f guess n` — `xfm_funcs.xform` as the code does it: one stacked block
  `points ++ helper points ++ connectors`, transformed once, sliced back by counts; `guess` is the order of
  magnitude `_guess_change` detected (a parameter: its random sample is not modelled).
* `specXform f guess n` — the property: coordinates moved by `f`, nothing else changed (except radius / units /
  soma radius by the power of ten, and tangents recomputed).
* `mirrorNeuron g n` — `mirror_brain` for the row function `g = mirrorFn axis (lo + hi) warp`.
-/
namespace Navis.Props.C16
open Navis.Xform

/-! ## 1. stack, transform once, slice back by counts -/

/-- **stack_slice_blocks.** For EVERY row function and ALL block sizes (any of them zero): slicing the
transformed block by the counts gives back each part transformed on its own — the front slice is the points,
the `[n : n + h]` slice the helper points, the back slice (taken from the end, `k > 0`) the connectors.
Nothing is mixed up between the blocks. -/
theorem stack_slice_blocks (f : RowFn) (pts helpers conns : List V3) :
    sliceFront pts.length ((stack pts helpers conns).map f) = pts.map f
    ∧ (((stack pts helpers conns).map f).drop pts.length).take helpers.length = helpers.map f
    ∧ (helpers.length = pts.length → sliceHelpers pts.length ((stack pts helpers conns).map f) = helpers.map f)
    ∧ (conns.length ≠ 0 → sliceBack conns.length ((stack pts helpers conns).map f) = conns.map f) :=
  ⟨sliceFront_stack f _ _ _, drop_take_stack f _ _ _, sliceHelpers_stack f _ _ _, sliceBack_stack f _ _ _⟩

/-- **stack_slice_exact.** For every row function `f`, every detected magnitude and every neuron of every
kind — zero points, zero / absent / empty connectors, Dotprops with `k` and without — `xform` (as coded) does
not fail and returns exactly `specXform`: under the only guard that a k-less Dotprops has one tangent per
point (otherwise the code raises, see `xform_raises_without_tangents`). -/
theorem stack_slice_exact {α β μ} (f : RowFn) (guess : Int) (n : Neuron α β μ) (h : helpersOK n) :
    xformNeuron f guess n = some (specXform f guess n) :=
  xformNeuron_eq_spec f guess n h

/-- **moves_coordinates_and_nothing_else.** What `specXform` (hence, by `stack_slice_exact`, the code) returns,
field by field: point and connector coordinates are the input's mapped by `f` in the same row order; every
other column of both tables, the faces, `k`, the kind, the sampling resolution and all meta data are the
input's. -/
theorem moves_coordinates_and_nothing_else {α β μ} (f : RowFn) (guess : Int) (n : Neuron α β μ) :
    (specXform f guess n).pts.xyz = n.pts.xyz.map f
    ∧ (specXform f guess n).pts.cols = n.pts.cols
    ∧ (specXform f guess n).conns = n.conns.map (fun t => { t with xyz := t.xyz.map f })
    ∧ (specXform f guess n).faces = n.faces
    ∧ (specXform f guess n).k = n.k
    ∧ (specXform f guess n).kind = n.kind
    ∧ (specXform f guess n).res = n.res
    ∧ (specXform f guess n).info = n.info :=
  ⟨rfl, rfl, rfl, rfl, rfl, rfl, rfl, rfl⟩

/-- Skeletons and meshes never hit the guard. -/
theorem stack_slice_exact_tree_mesh {α β μ} (f : RowFn) (guess : Int) (n : Neuron α β μ)
    (hk : n.kind ≠ Kind.dots) : xformNeuron f guess n = some (specXform f guess n) :=
  xformNeuron_eq_spec f guess n (fun h => absurd h hk)

/-- Outside the guard the code raises: k-less Dotprops whose tangents are missing or of the wrong length. -/
theorem xform_raises_without_tangents {α β μ} (f : RowFn) (guess : Int) (n : Neuron α β μ)
    (hk : n.kind = Kind.dots) (hu : usesHelpers n.k = true)
    (hbad : ∀ v, n.vect = some v → v.length ≠ n.pts.xyz.length) : xformNeuron f guess n = none :=
  xformNeuron_none_of_bad f guess n hk hu hbad

/-- DataFrame / array / Trimesh / Volume branch: coordinates mapped, every other column kept, never fails. -/
theorem xform_table_exact {α} (f : RowFn) (t : Table α) :
    xformTable f t = some { xyz := t.xyz.map f, cols := t.cols } := by
  unfold xformTable
  rw [setXYZ_map]
  rfl

/-- A `TransformSequence` is the composition of its members, applied in list order (so transforming with the
sequence `ts ++ us` is transforming with `ts`, then with `us`). -/
theorem sequence_is_composition (ts us : List Aff) (blk : List V3) :
    blk.map (seqApply (ts ++ us)) = (blk.map (seqApply ts)).map (seqApply us) := by
  rw [List.map_map]
  exact List.map_congr_left fun p _ => seqApply_append ts us p

/-! ## 2. mirroring -/

/-- The flip matrix `mirror` builds is the map `x ↦ size − x` on the chosen axis (every axis, every size). -/
theorem mirror_matrix_is_formula (a : Axis) (s : Rat) (p : V3) :
    mirrorFn a s none p = mirrorPt a s p ∧ (mirrorMat a s).det = -1 :=
  ⟨mirrorMat_apply a s p, mirrorMat_det a s⟩

/-- With `size = lo + hi` (what `mirror_brain` reads off the template's bounding box) the flip is the
reflection about the midplane `(lo + hi) / 2`: the signed distance to it is negated on the mirror axis and the
other two coordinates are kept. -/
theorem mirror_about_midplane (a : Axis) (lo hi : Rat) (p : V3) :
    (mirrorPt a (axisSize lo hi) p).get a - (lo + hi) / 2 = -(p.get a - (lo + hi) / 2)
    ∧ ∀ b, b ≠ a → (mirrorPt a (axisSize lo hi) p).get b = p.get b := by
  refine ⟨?_, fun b hb => mirrorPt_get_other a b _ p hb⟩
  rw [mirrorPt_get_self, axisSize]; ring

/-- **mirror_involution** (points): without a warp, mirroring twice is the identity — every axis, every size. -/
theorem mirror_involution (a : Axis) (s : Rat) (p : V3) :
    mirrorFn a s none (mirrorFn a s none p) = p := by
  simp only [mirrorFn, mirrorMat_apply, mirrorPt_mirrorPt]

/-- **mirror_involution** (whole skeletons and meshes): `mirror_brain ∘ mirror_brain` without warp returns the
neuron itself — coordinates of nodes/vertices and connectors restored, faces re-wound twice, everything else
never touched. -/
theorem mirror_involution_neuron {α β μ} (a : Axis) (s : Rat) (n : Neuron α β μ) (hk : n.kind ≠ Kind.dots) :
    (mirrorNeuron (mirrorFn a s none) n).bind (mirrorNeuron (mirrorFn a s none)) = some n :=
  mirrorNeuron_twice _ (mirror_involution a s) n hk

/-- What one `mirror_brain` does to a mesh: vertices and connectors moved by `g`, every face re-wound,
nothing else. -/
theorem mirror_mesh_spec {α β μ} (g : RowFn) (n : Neuron α β μ) (h : n.kind = Kind.mesh) :
    mirrorNeuron g n = some { n with pts := n.pts.mapXYZ g, faces := n.faces.map rewind,
                                     conns := n.conns.map (Table.mapXYZ g) } :=
  mirrorNeuron_mesh g n h

theorem mirror_tree_spec {α β μ} (g : RowFn) (n : Neuron α β μ) (h : n.kind = Kind.tree) :
    mirrorNeuron g n = some { n with pts := n.pts.mapXYZ g, conns := n.conns.map (Table.mapXYZ g) } :=
  mirrorNeuron_tree g n h

/-- Dotprops: points and connectors moved by `g`; with `k` the tangents are dropped for regeneration, without
`k` the new direction of row `i` is `g pᵢ − g (pᵢ + 2·res·vᵢ)`. -/
theorem mirror_dots_spec {α β μ} (g : RowFn) (n : Neuron α β μ) (h : n.kind = Kind.dots) :
    (usesHelpers n.k = false →
      mirrorNeuron g n = some { n with pts := n.pts.mapXYZ g, vect := none, alpha := none,
                                       conns := n.conns.map (Table.mapXYZ g) })
    ∧ (usesHelpers n.k = true → ∀ v, n.vect = some v → v.length = n.pts.xyz.length →
      mirrorNeuron g n = some { n with
        pts := n.pts.mapXYZ g
        vect := some (List.zipWith (fun p w => V3.sub (g p) (g (V3.add p (V3.smul (n.res * 2) w)))) n.pts.xyz v)
        conns := n.conns.map (Table.mapXYZ g) }) :=
  ⟨mirrorNeuron_dots_k g n h, mirrorNeuron_dots_helpers g n h⟩

/-- `symmetrize_brain` on a coordinate array (masked assignment `x[is_left] = …`): exactly the rows right of
the midplane `lo + (hi − lo)/2` are replaced by `g0 (g p)`, all other rows and the row order are kept. -/
theorem symmetrize_spec (lo hi : Rat) (g g0 : RowFn) (xyz : List V3) :
    symmetrize lo hi g g0 xyz = xyz.map fun p => if lo + (hi - lo) / 2 < p.x then g0 (g p) else p := by
  simp only [symmetrize]
  rw [List.map_map, scatter_filter_map]
  apply List.map_congr_left
  intro p _
  by_cases h : lo + (hi - lo) / 2 < p.x <;> simp [h]

/-- **symmetrize_neuron_spec.** `symmetrize_brain` on a whole neuron, with `h p = if p right of the midplane
then g0 (g p) else p`: node/vertex/point and connector coordinates are moved by `h` and nothing else changes
(faces are not re-wound: two flips cancel); a Dotprops with `k` has its tangents dropped for regeneration; a
k-less Dotprops *keeps* tangents — the direction of row `i` is `h pᵢ − h (pᵢ + 2·res·vᵢ)`, carried through
helper points exactly as `mirror_brain` does (the behaviour since navis' `fix:` commit; before it the tangents
were dropped and `.vect` raised). -/
theorem symmetrize_neuron_spec {α β μ} (lo hi : Rat) (g g0 : RowFn) (n : Neuron α β μ) :
    let h : RowFn := fun p => if lo + (hi - lo) / 2 < p.x then g0 (g p) else p
    (n.kind ≠ Kind.dots →
      symmetrizeNeuron (symmetrize lo hi g g0) n
        = some { n with pts := n.pts.mapXYZ h, conns := n.conns.map (Table.mapXYZ h) })
    ∧ (n.kind = Kind.dots → usesHelpers n.k = false →
      symmetrizeNeuron (symmetrize lo hi g g0) n
        = some { n with pts := n.pts.mapXYZ h, vect := none, alpha := none, conns := n.conns.map (Table.mapXYZ h) })
    ∧ (n.kind = Kind.dots → usesHelpers n.k = true → ∀ v, n.vect = some v → v.length = n.pts.xyz.length →
      symmetrizeNeuron (symmetrize lo hi g g0) n = some { n with
        pts := n.pts.mapXYZ h
        vect := some (List.zipWith (fun p w => V3.sub (h p) (h (V3.add p (V3.smul (n.res * 2) w)))) n.pts.xyz v)
        conns := n.conns.map (Table.mapXYZ h) }) := by
  intro h
  have hS : symmetrize lo hi g g0 = List.map h := funext fun xyz => symmetrize_spec lo hi g g0 xyz
  rw [hS]
  exact ⟨symmetrizeNeuron_tree_mesh h n, symmetrizeNeuron_dots_k h n, symmetrizeNeuron_dots_helpers h n⟩

/-! ## 3. face re-winding -/

/-- **rewind_involution.** Re-winding twice is the identity (one face, and a whole face table). -/
theorem rewind_involution (f : Face) (fs : List Face) :
    rewind (rewind f) = f ∧ (fs.map rewind).map rewind = fs :=
  ⟨rewind_rewind f, map_rewind_rewind fs⟩

/-- Re-winding reverses the orientation of every face: the normal `(B − A) × (C − A)` is negated, for any
vertex positions. -/
theorem rewind_reverses_orientation (verts : List V3) (f : Face) :
    faceNormal verts (rewind f) = V3.neg (faceNormal verts f) := by
  simp only [faceNormal, rewind]
  exact triNormal_swap _ _ _

/-- Why mirrored meshes must be re-wound: a reflection negates the signed volume of every (face, point)
tetrahedron — inside and outside are swapped — and re-winding the face restores it.  Every axis, every size. -/
theorem mirror_rewind_preserves_orientation (a : Axis) (s : Rat) (A B C Q : V3) :
    triple (mirrorPt a s A) (mirrorPt a s B) (mirrorPt a s C) (mirrorPt a s Q) = - triple A B C Q
    ∧ triple (mirrorPt a s C) (mirrorPt a s B) (mirrorPt a s A) (mirrorPt a s Q) = triple A B C Q :=
  ⟨triple_mirror a s A B C Q, triple_mirror_rewind a s A B C Q⟩

/-! ## 4. tangents of k-less Dotprops carried through helper points -/

/-- **tangent_from_helper_unit.** The recomputed tangent is the difference `d = p' − hp'` scaled by `1/‖d‖`;
in squared-norm form over `Rat`: any scaling `s • d` with `s² ‖d‖² = 1` has squared norm `1` (and there is no
such `s` when `d = 0`, i.e. when the transform collapses the helper onto its point — navis yields NaN). -/
theorem tangent_from_helper_unit (d : V3) (s : Rat) (h : s * s * V3.normSq d = 1) :
    V3.normSq (V3.smul s d) = 1 ∧ d ≠ ⟨0, 0, 0⟩ := by
  refine ⟨by rw [normSq_smul, h], ?_⟩
  intro hd
  rw [hd] at h
  simp [V3.normSq, V3.dot] at h

/-- For an affine transform (and any sequence of them is one) the direction obtained through the helper point
is the original tangent pushed forward by the linear part, times `−res`: only the sense flips (tangents are
direction-less), independent of where the point sits. -/
theorem tangent_affine_pushforward (T : Aff) (res : Rat) (p v : V3) :
    V3.sub (T.apply p) (T.apply (V3.add p (V3.smul res v))) = V3.smul (-res) (T.lin v) :=
  aff_helper_dir T res p v

/-- Mirroring a k-less Dotprops twice returns a positive multiple of the original tangent (so, after
normalisation, the original unit tangent): first pass direction `−c₁ • flip v`, normalised by any `t`,
second pass `−c₂ • flip (t • −c₁ • flip v) = (c₁ c₂ t) • v`. -/
theorem mirror_tangent_twice (a : Axis) (s c₁ c₂ t : Rat) (p q v : V3) :
    V3.sub (mirrorPt a s p) (mirrorPt a s (V3.add p (V3.smul c₁ v))) = V3.smul (-c₁) (flipVec a v)
    ∧ V3.sub (mirrorPt a s q) (mirrorPt a s (V3.add q (V3.smul c₂ (V3.smul t (V3.smul (-c₁) (flipVec a v))))))
        = V3.smul (c₁ * c₂ * t) v := by
  refine ⟨mirror_helper_dir a s c₁ p v, ?_⟩
  rw [mirror_helper_dir, flipVec_smul, flipVec_smul, flipVec_flipVec, smul_smul, smul_smul]
  congr 1; ring

/-- Soundness of the run-time tangent checker at zero tolerance: it accepts `v` only if `v` is *the* unit
vector in the direction of `d` (a positive multiple of `d` with squared norm one). -/
theorem tangentOK_sound (d v : V3) (h : tangentOK 0 d v = true) :
    V3.normSq v = 1 ∧ ∃ s : Rat, 0 < s ∧ v = V3.smul s d ∧ s * s * V3.normSq d = 1 :=
  let ⟨h1, _, h3⟩ := tangentOK_zero h
  ⟨h1, h3⟩

/-! ## 5. radius and units follow the detected power of ten -/

/-- **scale_follows_guess.** With detected magnitude `m` (and at least two rows in the block): skeleton radii
and a numeric soma radius are multiplied by `10^m`, units divided by `10^m`; meshes and dotprops have no radius
to scale; with fewer than two rows nothing is scaled whatever the guess. -/
theorem scale_follows_guess {α β μ} (f : RowFn) (m : Int) (n : Neuron α β μ)
    (h2 : 1 < n.pts.xyz.length) :
    (specXform f m n).radius = (if n.kind = Kind.tree then scaleRadius m n.radius else n.radius)
    ∧ (specXform f m n).units = scaleUnits m n.units
    ∧ (specXform f m n).somaRadius = n.somaRadius.map (· * pow10 m) := by
  have : 1 < n.pts.xyz.length + (if (n.kind == Kind.dots && usesHelpers n.k) = true then n.pts.xyz.length else 0)
      + (connXYZ n.conns).length := by omega
  simp only [specXform, this, if_true]
  refine ⟨?_, trivial, trivial⟩
  cases n.kind <;> simp

theorem single_row_no_scale {α β μ} (f : RowFn) (m : Int) (n : Neuron α β μ) (h : n.pts.xyz.length ≤ 1)
    (hc : (connXYZ n.conns).length = 0) (hd : n.kind ≠ Kind.dots) :
    (specXform f m n).radius = n.radius ∧ (specXform f m n).units = n.units
    ∧ (specXform f m n).somaRadius = n.somaRadius := by
  have hw : (n.kind == Kind.dots && usesHelpers n.k) = false := by
    cases hk : n.kind <;> simp_all
  have : ¬ (1 < n.pts.xyz.length + 0 + (connXYZ n.conns).length) := by omega
  simp only [specXform, hw, Bool.false_eq_true, if_false, this, scaleUnits, scaleRadius, pow10_zero, mul_one]
  refine ⟨?_, rfl, ?_⟩
  · cases n.radius with
    | none => simp
    | some col =>
      have : (col.map fun v : Option Rat => v.map fun x => x) = col := by
        induction col with
        | nil => rfl
        | cons a as ih => cases a <;> simp_all
      simp [this]
  · cases n.somaRadius <;> rfl

/-- The physical radius is invariant: `(r · 10^m) · (u / 10^m) = r · u` for every magnitude (`10^m ≠ 0`), and
magnitude `0` changes nothing. -/
theorem physical_radius_invariant (m : Int) (r u : Rat) :
    (r * pow10 m) * (u / pow10 m) = r * u ∧ pow10 m ≠ 0 ∧ pow10 0 = 1 :=
  ⟨scale_cancel m r u, pow10_ne_zero m, pow10_zero⟩

/-- `nm → µm`‐style transforms: for `m = k ≥ 0` the factor is literally `10^k`. -/
theorem pow10_spec (k : Nat) : pow10 (k : Int) = (10 : Rat) ^ k := pow10_ofNat k

/-! ## 6. the run-time property checker is sound -/

/-- `checkXform` (evaluated by the driver on navis' own output) accepts, for any tolerance, only outputs whose
coordinates, other columns, connector table, faces, `k` and meta data are exactly those of `specXform`; at
zero tolerance also radius, units and soma radius are exact. -/
theorem checkXform_sound {α β μ} [DecidableEq α] [DecidableEq β] [DecidableEq μ]
    (eps : Rat) (f : RowFn) (guess : Int) (n out : Neuron α β μ) (h : checkXform eps f guess n out = true) :
    out.kind = n.kind ∧ out.pts = n.pts.mapXYZ f ∧ out.conns = n.conns.map (Table.mapXYZ f) ∧
    out.faces = n.faces ∧ out.k = n.k ∧ out.info = n.info :=
  checkXform_exact eps f guess n out h

theorem checkXform_sound_scale {α β μ} [DecidableEq α] [DecidableEq β] [DecidableEq μ]
    (f : RowFn) (guess : Int) (n out : Neuron α β μ) (h : checkXform 0 f guess n out = true) :
    out.radius = (specXform f guess n).radius ∧ out.units = (specXform f guess n).units ∧
    out.somaRadius = (specXform f guess n).somaRadius :=
  checkXform_zero_scale f guess n out h

/-! ## 7. non-vacuity -/

def T1 : Aff := ⟨2, 0, 0, 1, 0, 1/2, 0, -2, 0, 0, 4, 3⟩

/-- k-less Dotprops, two points, one tangent each, two connectors: helper points sit between points and
connectors in the block -/
def sampleDots : Neuron String String String :=
  { kind := .dots, pts := ⟨[⟨0, 0, 0⟩, ⟨1, 0, 0⟩], ["a", "b"]⟩, radius := none,
    vect := some [⟨1, 0, 0⟩, ⟨0, 1, 0⟩], alpha := none, k := none, res := 1, faces := [],
    conns := some ⟨[⟨5, 5, 5⟩, ⟨6, 6, 6⟩], ["c10", "c11"]⟩, units := some 8, somaRadius := none, info := "dp" }

example : helpersOK sampleDots := fun _ _ => ⟨_, rfl, rfl⟩
example : (xformNeuron T1.apply 0 sampleDots).map (·.conns) =
    some (some ⟨[⟨11, 1/2, 23⟩, ⟨13, 1, 27⟩], ["c10", "c11"]⟩) := by decide +kernel
example : (xformNeuron T1.apply 0 sampleDots).map (·.vect) = some (some [⟨-2, 0, 0⟩, ⟨0, -1/2, 0⟩]) := by
  decide +kernel
example : (xformNeuron T1.apply 0 sampleDots).map (·.pts.cols) = some ["a", "b"] := by decide +kernel

/-- a skeleton with radius column, no connectors, magnitude 3 -/
def sampleTree : Neuron String String String :=
  { kind := .tree, pts := ⟨[⟨0, 0, 0⟩, ⟨1, 2, 2⟩, ⟨3, 2, 2⟩], ["1:-1", "2:1", "3:2"]⟩,
    radius := some [some (1/100), none, some 2], vect := none, alpha := none, k := none, res := 0, faces := [],
    conns := none, units := some 8, somaRadius := some 5, info := "sk" }

example : (xformNeuron (V3.smul 1000) 3 sampleTree).map (·.radius) = some (some [some 10, none, some 2000]) := by
  decide +kernel
example : (xformNeuron (V3.smul 1000) 3 sampleTree).map (·.units) = some (some (8 / 1000)) := by decide +kernel
/-- a row function that is not affine -/
example : (xformNeuron (fun p => ⟨p.x * p.y, p.y * p.y, p.z + p.x⟩) 0 sampleTree).map (·.pts.xyz) =
    some [⟨0, 0, 0⟩, ⟨2, 4, 3⟩, ⟨6, 4, 5⟩] := by decide +kernel
/-- k-less Dotprops without tangents: the code raises -/
example : xformNeuron T1.apply 0 { sampleDots with vect := none } = none := by decide +kernel
example : mirrorFn .y (axisSize 0 (15/2)) none ⟨1, 2, 3⟩ = ⟨1, 11/2, 3⟩ := by decide +kernel
example : rewind ⟨0, 2, 1⟩ = ⟨1, 2, 0⟩ := rfl
example : tangentOK 0 ⟨0, -1/2, 0⟩ ⟨0, -1, 0⟩ = true := by decide +kernel
example : tangentOK 0 ⟨0, -1/2, 0⟩ ⟨0, 1, 0⟩ = false := by decide +kernel
example : (2 : Rat) * 2 * V3.normSq ⟨0, -1/2, 0⟩ = 1 := by decide +kernel
example : symmetrize 0 10 (mirrorFn .x 10 none) (mirrorFn .x 10 (some (V3.add ⟨1, 0, 0⟩))) [⟨2, 0, 0⟩, ⟨7, 1, 1⟩]
    = [⟨2, 0, 0⟩, ⟨8, 1, 1⟩] := by decide +kernel
/-- a k-less Dotprops keeps (un-normalised) tangents through `symmetrize_brain`: the point right of the midplane
`x = 5` is moved by the warp, the other one is kept -/
def sampleDots2 : Neuron String String String :=
  { sampleDots with pts := ⟨[⟨2, 0, 0⟩, ⟨7, 1, 1⟩], ["a", "b"]⟩, conns := none }

example : (symmetrizeNeuron (symmetrize 0 10 (mirrorFn .x 10 (some (V3.add ⟨1, 0, 0⟩))) (mirrorFn .x 10 none))
    sampleDots2).map (fun n => (n.pts.xyz, n.vect))
    = some ([⟨2, 0, 0⟩, ⟨6, 1, 1⟩], some [⟨-2, 0, 0⟩, ⟨0, -2, 0⟩]) := by decide +kernel
example : checkXform 0 T1.apply 0 sampleTree (specXform T1.apply 0 sampleTree) = true := by decide +kernel

end Navis.Props.C16
